/-
  ArcheModel.Events — entity events, the subscription rule and listener dispatch.
  Mirrors ecs/event.go, ecs/util.go (`subscription`, `subscribes`), listener/dispatch.go,
  listener/callback.go. The word-level `subscribes` of both Go copies is regenerated into
  ArcheGen.Subscribes and proved equal to this one (C12).
-/
import ArcheModel.World
namespace Arche

structure Event where
  entity : Entity
  added : Mask := 0
  removed : Mask := 0
  addedIDs : List CompId := []
  removedIDs : List CompId := []
  oldRel : Option CompId := none
  newRel : Option CompId := none
  oldTarget : Entity := Entity.zero
  types : Nat := 0
deriving Repr, Inhabited, DecidableEq

/-- An event as received by one (sub-)listener, with what its callback observes. -/
structure Delivery where
  sub : Nat
  ev : Event
  locked : Bool
  alive : Bool
  curTarget : Option Entity
  vals : List (CompId × Val) := []     -- the entity's component values as a callback reads them
deriving Repr, Inhabited, DecidableEq

namespace Ev
def created : Nat := 1
def removed : Nat := 2
def compAdded : Nat := 4
def compRemoved : Nat := 8
def relChanged : Nat := 16
def targetChanged : Nat := 32
def relations : Nat := 48

/-- `subscription(...)`. -/
def subscription (entityCreated entityRemoved componentAdded componentRemoved relationChanged targetChanged_ : Bool) : Nat :=
  (if entityCreated then created else 0) ||| (if entityRemoved then removed else 0) |||
  (if componentAdded then compAdded else 0) ||| (if componentRemoved then compRemoved else 0) |||
  (if relationChanged then relChanged else 0) ||| (if targetChanged_ then targetChanged else 0)

/-- `subscribes(trigger, added, removed, subs, oldRel, newRel)`. -/
def subscribes (trigger : Nat) (addedM removedM : Option Mask) (subs : Option Mask) (oldRel newRel : Option CompId) : Bool :=
  if trigger == 0 then false else
  match subs with
  | none => true
  | some s =>
    if trigger &&& relations != 0 &&
        ((match oldRel with | some r => Mask.get s r | none => false) ||
         (match newRel with | some r => Mask.get s r | none => false)) then true
    else if trigger &&& (created ||| compAdded) != 0 &&
        (match addedM with | some a => Mask.containsAny s a | none => false) then true
    else if trigger &&& (removed ||| compRemoved) != 0 &&
        (match removedM with | some r => Mask.containsAny s r | none => false) then true
    else false
end Ev

namespace Listener
def subs : Listener → Nat
  | single l => l.subs
  | dispatch ls => ls.foldl (fun a l => a ||| l.subs) 0

def comps : Listener → Option Mask
  | single l => l.comps
  | dispatch ls =>
    if ls.all (fun l => l.comps.isSome) then some (ls.foldl (fun a l => a ||| l.comps.getD 0) 0) else none

/-- Which sub-listeners receive an event that the world hands to the listener. -/
def receivers (L : Listener) (ev : Event) : List Nat :=
  match L with
  | single _ => [0]
  | dispatch ls =>
    (ls.zipIdx).filterMap (fun (l, i) =>
      let trigger := l.subs &&& ev.types
      if trigger != 0 && Ev.subscribes trigger (some ev.added) (some ev.removed) l.comps ev.oldRel ev.newRel
      then some i else none)
end Listener

namespace World

/-- What a callback sees about the event's entity at delivery time. -/
def observe (w : World) (sub : Nat) (ev : Event) : Delivery :=
  let al := w.alive ev.entity
  let cur : Option Entity :=
    if al then
      match w.index.getD ev.entity.id none with
      | some l => if (w.tableRel l.tbl).isSome then some (w.tableOf l.tbl).target else none
      | none => none
    else none
  let vals : List (CompId × Val) :=
    if al then
      match w.index.getD ev.entity.id none with
      | some l => (w.tableIds l.tbl).zip ((w.tableOf l.tbl).rows.getD l.row default).vals
      | none => []
    else []
  { sub := sub, ev := ev, locked := w.isLocked, alive := al, curTarget := cur, vals := vals }

/-- The world-side pattern `trigger := subs & bits; if trigger != 0 && subscribes(...) { Notify }`,
    with the arguments the call site passes to `subscribes`. -/
def emit (w : World) (ev : Event) (added removed : Option Mask) (oldRel newRel : Option CompId) : List Delivery :=
  match w.listener with
  | none => []
  | some L =>
    let trigger := L.subs &&& ev.types
    if trigger != 0 && Ev.subscribes trigger added removed L.comps oldRel newRel then
      (L.receivers ev).map (fun i => w.observe i ev)
    else []

end World
end Arche
