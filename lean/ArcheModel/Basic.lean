/-
  ArcheModel.Basic — entities, masks (as sets of component ids), filters.

  Hand-written model of the value types of mlange-42/arche (ecs/entity.go, ecs/filter.go,
  filter/filter.go). Masks are natural numbers used as bit sets; that the 4×64-bit (tiny:
  1×64-bit) word code of ecs/bitmask*.go implements exactly this set is property C04, proved
  over the regenerated word-level definitions in ArcheGen.
-/
namespace Arche

structure Entity where
  id : Nat
  gen : Nat
deriving DecidableEq, Repr, Inhabited

def Entity.zero : Entity := ⟨0, 0⟩
def Entity.isZero (e : Entity) : Bool := e.id == 0

abbrev CompId := Nat
abbrev Val := Nat

/-- A component mask: bit `i` set iff component id `i` is a member. -/
abbrev Mask := Nat

namespace Mask
@[inline] def get (m : Mask) (i : CompId) : Bool := m.testBit i
@[inline] def set (m : Mask) (i : CompId) (v : Bool) : Mask :=
  if v then m ||| (1 <<< i) else if m.testBit i then m ^^^ (1 <<< i) else m
@[inline] def contains (m other : Mask) : Bool := m &&& other == other
@[inline] def containsAny (m other : Mask) : Bool := m &&& other != 0
def ofList (ids : List CompId) : Mask := ids.foldl (fun m i => set m i true) 0
/-- Members in ascending order, below `bound`. -/
def toList (m : Mask) (bound : Nat) : List CompId := (List.range bound).filter (fun i => m.testBit i)
/-- `Mask.Not` restricted to `bits` bits (the Go mask has fixed width). -/
def notW (m : Mask) (bits : Nat) : Mask := (2 ^ bits - 1) ^^^ (m &&& (2 ^ bits - 1))
end Mask

/-- Filters: `ecs.Mask` (All), `ecs.MaskFilter`, `ecs.RelationFilter`, `ecs.CachedFilter`
    and the logic filters of package `filter`. -/
inductive Filter where
  | all (m : Mask)
  | maskF (inc exc : Mask)
  | rel (f : Filter) (t : Entity)
  | cached (f : Filter) (id : Nat)
  | and (l r : Filter)
  | or (l r : Filter)
  | xor (l r : Filter)
  | not (f : Filter)
  | any (m : Mask)
  | noneOf (m : Mask)
  | anyNot (m : Mask)
deriving Repr, Inhabited, DecidableEq

namespace Filter
/-- `Filter.Matches(bits)` (named `sat`: `matches` is a Lean keyword). -/
def sat : Filter → Mask → Bool
  | all m, bits => Mask.contains bits m
  | maskF inc exc, bits => Mask.contains bits inc && (!(Mask.containsAny bits exc) || exc == 0)
  | rel f _, bits => f.sat bits
  | cached f _, bits => f.sat bits
  | and l r, bits => l.sat bits && r.sat bits
  | or l r, bits => l.sat bits || r.sat bits
  | xor l r, bits => l.sat bits != r.sat bits
  | not f, bits => !(f.sat bits)
  | any m, bits => Mask.containsAny bits m
  | noneOf m, bits => !(Mask.containsAny bits m)
  | anyNot m, bits => !(Mask.contains bits m)

/-- The Go type switch `filter.(*RelationFilter)`: only the outermost constructor counts. -/
def relTarget? : Filter → Option Entity
  | rel _ t => some t
  | _ => none
end Filter

/-- Panic classes (the harness maps Go panic messages to the same small enum). -/
inductive Panic where
  | locked | dead | deadTarget | hasComp | noComp | addRem | secondRel | noEffectRel
  | relMissing | notRel | noCompsAssign | copyMissing | count | builderNoRel
  | qRange | qStep | qRel | resDup | resMissing | filterRegistered | filterUnknown
  | limit | loadUsed | lockLimit | unbalanced | crash
deriving DecidableEq, Repr, Inhabited

def Panic.name : Panic → String
  | .locked => "locked" | .dead => "dead" | .deadTarget => "dead-target" | .hasComp => "has-comp"
  | .noComp => "no-comp" | .addRem => "add-rem" | .secondRel => "second-rel"
  | .noEffectRel => "no-effect-rel" | .relMissing => "rel-missing" | .notRel => "not-rel"
  | .noCompsAssign => "no-comps-assign" | .copyMissing => "copy-missing" | .count => "count"
  | .builderNoRel => "builder-no-rel" | .qRange => "q-range" | .qStep => "q-step" | .qRel => "q-rel"
  | .resDup => "res-dup" | .resMissing => "res-missing" | .filterRegistered => "filter-registered"
  | .filterUnknown => "filter-unknown" | .limit => "limit" | .loadUsed => "load-used"
  | .lockLimit => "lock-limit" | .unbalanced => "unbalanced" | .crash => "crash"

end Arche
