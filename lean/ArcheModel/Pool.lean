/-
  ArcheModel.Pool — entity pool (ecs/pool.go: entityPool), bit pool and lock mask
  (ecs/pool.go: bitPool, ecs/util.go: lockMask). Field for field, with the implicit free list
  threaded through the `.id` fields exactly as in the Go code.
-/
import ArcheModel.Basic
namespace Arche

structure Pool where
  ents : Array Entity
  next : Nat
  available : Nat
deriving Repr, Inhabited

namespace Pool
/-- `newEntityPool`: slot 0 is the reserved zero entity with generation MaxUint32. -/
def init : Pool := { ents := #[⟨0, 4294967295⟩], next := 0, available := 0 }

/-- `entityPool.Get` (with `getNew`). -/
def get (p : Pool) : Pool × Entity :=
  if p.available == 0 then
    let e : Entity := ⟨p.ents.size, 0⟩
    ({ p with ents := p.ents.push e }, e)
  else
    let curr := p.next
    let slot := p.ents.getD curr default
    let ents := p.ents.setIfInBounds curr { slot with id := curr }
    ({ ents := ents, next := slot.id, available := p.available - 1 }, ⟨curr, slot.gen⟩)

/-- `entityPool.Recycle` (caller guarantees `e.id ≠ 0` and in range). -/
def recycle (p : Pool) (e : Entity) : Pool :=
  let slot := p.ents.getD e.id default
  { ents := p.ents.setIfInBounds e.id ⟨p.next, slot.gen + 1⟩, next := e.id, available := p.available + 1 }

/-- `entityPool.Reset`. -/
def reset (p : Pool) : Pool := { ents := p.ents.extract 0 1, next := 0, available := 0 }

/-- `entityPool.Alive`; `none` stands for the Go index panic when `e.id` is beyond the pool. -/
def alive? (p : Pool) (e : Entity) : Option Bool :=
  if h : e.id < p.ents.size then some (e.gen == p.ents[e.id].gen) else none

def alive (p : Pool) (e : Entity) : Bool := (p.alive? e).getD false

def len (p : Pool) : Nat := p.ents.size - 1 - p.available
end Pool

/-- `bitPool`; `bits` has fixed size `MaskTotalBits` in Go, here an array grown on demand is
    not used: we keep the fixed-size array so that `length`/`next` arithmetic is identical. -/
structure BitPool where
  bits : Array Nat
  length : Nat
  next : Nat
  available : Nat
deriving Repr, Inhabited

namespace BitPool
def init (total : Nat) : BitPool := { bits := Array.replicate total 0, length := 0, next := 0, available := 0 }

/-- `bitPool.Get`; `none` = panic "run out of the maximum of … bits". -/
def get (p : BitPool) : Option (BitPool × Nat) :=
  if p.available == 0 then
    if p.length ≥ p.bits.size then none
    else some ({ p with bits := p.bits.setIfInBounds p.length p.length, length := p.length + 1 }, p.length)
  else
    let curr := p.next
    let nxt := p.bits.getD curr 0
    some ({ p with bits := p.bits.setIfInBounds curr curr, next := nxt, available := p.available - 1 }, curr)

/-- `bitPool.Recycle`. -/
def recycle (p : BitPool) (b : Nat) : BitPool :=
  { p with bits := p.bits.setIfInBounds b p.next, next := b, available := p.available + 1 }

def reset (p : BitPool) : BitPool := { p with next := 0, length := 0, available := 0 }
end BitPool

structure LockMask where
  locks : Mask
  pool : BitPool
deriving Repr, Inhabited

namespace LockMask
def init (total : Nat) : LockMask := { locks := 0, pool := BitPool.init total }
def isLocked (m : LockMask) : Bool := m.locks != 0
/-- `lockMask.Lock`; `none` = out of bits. -/
def lock (m : LockMask) : Option (LockMask × Nat) :=
  match m.pool.get with
  | none => none
  | some (p, b) => some ({ locks := Mask.set m.locks b true, pool := p }, b)
/-- `lockMask.Unlock`; `none` = panic "unbalanced unlock". -/
def unlock (m : LockMask) (b : Nat) : Option LockMask :=
  if !Mask.get m.locks b then none
  else some { locks := Mask.set m.locks b false, pool := m.pool.recycle b }
def reset (m : LockMask) : LockMask := { locks := 0, pool := m.pool.reset }
end LockMask

end Arche
