/-
  ArcheModel.World — the concrete state of an arche world and its internal operations:
  archetype graph (nodes), tables (one per node, or one per relation target), entity index,
  target flags, filter cache. Mirrors ecs/world_internal.go, ecs/archetype.go,
  ecs/archetype_node.go, ecs/cache.go step by step. Table ids stand for `*archetype`
  pointers, node indices for `*archNode`.
-/
import ArcheModel.Pool
namespace Arche

structure Row where
  ent : Entity
  vals : List Val          -- one value per id of the node, in ascending id order
deriving Repr, Inhabited, DecidableEq

structure Table where
  node : Nat               -- owning node
  k : Nat                  -- position in the node's table list (Go: archetype.index while active)
  target : Entity          -- RelationTarget
  active : Bool            -- Go: index >= 0
  rows : Array Row         -- live rows, `len = rows.size`
  cap : Nat
deriving Repr, Inhabited

structure Node where
  mask : Mask
  ids : List CompId
  rel : Option CompId      -- Relation / HasRelation
  active : Bool            -- IsActive
  capInc : Nat
  tables : Array Nat       -- Go: node.archetypes (relation nodes) or the single node.archetype
  free : List Nat          -- freeIndices, in Go order (push and pop at the end)
  nbrs : List (CompId × Nat)   -- neighbors idMap
  tmap : List (Entity × Nat)   -- archetypeMap (lookup only)
deriving Repr, Inhabited

structure Loc where
  tbl : Nat
  row : Nat
deriving Repr, Inhabited, DecidableEq

structure CacheEntry where
  id : Nat
  filter : Filter
  archs : Array Nat
  indices : Option (List (Nat × Nat))   -- map table ↦ position, built lazily
deriving Repr, Inhabited

structure Registry where
  count : Nat
  isRel : Mask
  zeroSized : Mask
deriving Repr, Inhabited

structure Config where
  capInc : Nat
  relCapInc : Nat
  maskBits : Nat
deriving Repr, Inhabited

/-- One (sub-)listener: subscription bits and optional component restriction. -/
structure SubL where
  subs : Nat
  comps : Option Mask
deriving Repr, Inhabited

inductive Listener where
  | single (l : SubL)
  | dispatch (ls : List SubL)
deriving Repr, Inhabited

structure World where
  cfg : Config
  pool : Pool
  index : Array (Option Loc)     -- w.entities (slot 0 unused)
  flags : Array Bool             -- targetEntities
  nodes : Array Node
  tables : Array Table
  cache : Array CacheEntry
  cacheNext : Nat
  locks : LockMask
  reg : Registry
  resources : Array (Option Nat)
  resCount : Nat
  listener : Option Listener
deriving Repr, Inhabited

/-! ### small helpers -/

def assocGet {α β} [DecidableEq α] (l : List (α × β)) (a : α) : Option β :=
  match l.find? (fun p => p.1 == a) with
  | some p => some p.2
  | none => none

def assocSet {α β} [DecidableEq α] (l : List (α × β)) (a : α) (b : β) : List (α × β) :=
  (a, b) :: l.filter (fun p => p.1 != a)

def assocDel {α β} [DecidableEq α] (l : List (α × β)) (a : α) : List (α × β) :=
  l.filter (fun p => p.1 != a)

/-- `capacityU32` / `capacity` (ecs/util.go). -/
def capacity (size inc : Nat) : Nat :=
  let c := inc * (size / inc)
  if size % inc != 0 then c + inc else c

namespace Table
def len (t : Table) : Nat := t.rows.size

/-- `archetype.extend(by)`. -/
def extend (t : Table) (capInc : Nat) (by_ : Nat) : Table :=
  let required := t.rows.size + by_
  if t.cap ≥ required then t else { t with cap := capacity required capInc }

def getEntity (t : Table) (r : Nat) : Entity := (t.rows.getD r default).ent
end Table

namespace World

def nodeOf (w : World) (n : Nat) : Node := w.nodes.getD n default
def tableOf (w : World) (t : Nat) : Table := w.tables.getD t default
def setNode (w : World) (n : Nat) (nd : Node) : World := { w with nodes := w.nodes.setIfInBounds n nd }
def setTable (w : World) (t : Nat) (tb : Table) : World := { w with tables := w.tables.setIfInBounds t tb }
def isLocked (w : World) : Bool := w.locks.isLocked
def alive (w : World) (e : Entity) : Bool := w.pool.alive e
def nodeOfTable (w : World) (t : Nat) : Node := w.nodeOf (w.tableOf t).node
def tableIds (w : World) (t : Nat) : List CompId := (w.nodeOfTable t).ids
def tableMask (w : World) (t : Nat) : Mask := (w.nodeOfTable t).mask
def tableRel (w : World) (t : Nat) : Option CompId := (w.nodeOfTable t).rel
def flag (w : World) (id : Nat) : Bool := w.flags.getD id false
def setFlag (w : World) (id : Nat) (v : Bool) : World := { w with flags := w.flags.setIfInBounds id v }
def markTarget (w : World) (t : Entity) : World := if t.isZero then w else w.setFlag t.id true

/-- `Filter.Matches` evaluated against a table. -/
def tblMatches (w : World) (f : Filter) (t : Nat) : Bool := f.sat (w.tableMask t)

/-! ### filter cache (ecs/cache.go) -/

/-- `Cache.addArchetype`. -/
def cacheAdd (w : World) (t : Nat) : World :=
  let hasRel := (w.tableRel t).isSome
  let tgt := (w.tableOf t).target
  let m := w.tableMask t
  let upd (e : CacheEntry) : CacheEntry :=
    if !e.filter.sat m then e
    else if !hasRel then { e with archs := e.archs.push t }
    else match e.filter.relTarget? with
      | some ft =>
        if ft == tgt then
          { e with archs := e.archs.push t,
                   indices := e.indices.map (fun ix => assocSet ix t e.archs.size) }
        else e
      | none =>
        { e with archs := e.archs.push t,
                 indices := e.indices.map (fun ix => assocSet ix t e.archs.size) }
  { w with cache := w.cache.map upd }

/-- `Cache.mapArchetypes`. -/
def cacheMapArchetypes (w : World) (e : CacheEntry) : List (Nat × Nat) :=
  (e.archs.toList.zipIdx).filterMap (fun (t, i) => if (w.tableRel t).isSome then some (t, i) else none)

/-- `pointers.RemoveAt` on a table list: swap-remove, returns the list and whether swapped. -/
def removeAt (a : Array Nat) (idx : Nat) : Array Nat × Bool :=
  if idx + 1 == a.size then (a.pop, false)
  else ((a.setIfInBounds idx (a.getD (a.size - 1) 0)).pop, true)

/-- `Cache.removeArchetype`. -/
def cacheRemove (w : World) (t : Nat) : World :=
  let m := w.tableMask t
  let upd (e : CacheEntry) : CacheEntry :=
    let e := if e.indices.isNone && e.filter.sat m then { e with indices := some (w.cacheMapArchetypes e) } else e
    match e.indices with
    | none => e
    | some ix =>
      match assocGet ix t with
      | none => e
      | some idx =>
        let (archs, swap) := removeAt e.archs idx
        let ix := if swap then assocSet ix (archs.getD idx 0) idx else ix
        { e with archs := archs, indices := some (assocDel ix t) }
  { w with cache := w.cache.map upd }

def cacheFind (w : World) (id : Nat) : Option CacheEntry := w.cache.find? (fun e => e.id == id)

/-! ### graph and tables -/

/-- `createArchetypeNode`. -/
def createNode (w : World) (mask : Mask) (rel : Option CompId) : World × Nat :=
  let capInc := if rel.isSome then w.cfg.relCapInc else w.cfg.capInc
  let nd : Node := { mask := mask, ids := Mask.toList mask w.cfg.maskBits, rel := rel, active := false,
                     capInc := capInc, tables := #[], free := [], nbrs := [], tmap := [] }
  ({ w with nodes := w.nodes.push nd }, w.nodes.size)

/-- `findOrCreateArchetypeSlow`. -/
def findOrCreateNodeSlow (w : World) (mask : Mask) (rel : Option CompId) : World × Nat :=
  match w.nodes.findIdx? (fun n => n.mask == mask) with
  | some i => (w, i)
  | none => w.createNode mask rel

/-- `createArchetype` (incl. `archNode.CreateArchetype` and `archetype.Init/Activate`). -/
def createTable (w : World) (n : Nat) (target : Entity) (forStorage : Bool) : World × Nat :=
  let nd := w.nodeOf n
  let (w, t) :=
    if nd.rel.isSome then
      match nd.free.getLast? with
      | some k =>
        let t := nd.tables.getD k 0
        let tb := w.tableOf t
        let w := w.setTable t { tb with active := true, target := target }
        (w.setNode n { nd with free := nd.free.dropLast, tmap := assocSet nd.tmap target t }, t)
      | none =>
        let t := w.tables.size
        let tb : Table := { node := n, k := nd.tables.size, target := target, active := true, rows := #[], cap := nd.capInc }
        let w := { w with tables := w.tables.push tb }
        (w.setNode n { nd with active := true, tables := nd.tables.push t, tmap := assocSet nd.tmap target t }, t)
    else
      let t := w.tables.size
      let tb : Table := { node := n, k := 0, target := Entity.zero, active := true, rows := #[],
                          cap := if forStorage then nd.capInc else 1 }
      let w := { w with tables := w.tables.push tb }
      (w.setNode n { nd with active := true, tables := #[t] }, t)
  (w.cacheAdd t, t)

/-- `archNode.GetArchetype`. -/
def nodeGetTable (w : World) (n : Nat) (target : Entity) : Option Nat :=
  let nd := w.nodeOf n
  if nd.rel.isSome then assocGet nd.tmap target else nd.tables[0]?

/-- One step of the graph walk in `findOrCreateArchetype`: follow or create the neighbour link. -/
def walk (w : World) (curr : Nat) (id : CompId) (mask : Mask) (rel : Option CompId) : World × Nat :=
  match assocGet (w.nodeOf curr).nbrs id with
  | some nx => (w, nx)
  | none =>
    let (w, nx) := w.findOrCreateNodeSlow mask rel
    let nn := w.nodeOf nx
    let w := w.setNode nx { nn with nbrs := assocSet nn.nbrs id curr }
    let cn := w.nodeOf curr
    let w := w.setNode curr { cn with nbrs := assocSet cn.nbrs id nx }
    (w, nx)

structure WalkSt where
  w : World
  curr : Nat
  mask : Mask
  rel : Option CompId

def walkRem (reg : Registry) (s : WalkSt) (id : CompId) : WalkSt :=
  let mask := Mask.set s.mask id false
  let rel := if Mask.get reg.isRel id then none else s.rel
  let (w, nx) := s.w.walk s.curr id mask rel
  { w := w, curr := nx, mask := mask, rel := rel }

def walkAdd (reg : Registry) (startMask : Mask) (s : WalkSt) (id : CompId) : Except Panic WalkSt :=
  if Mask.get s.mask id then .error .hasComp
  else if Mask.get startMask id then .error .addRem
  else
    let mask := Mask.set s.mask id true
    if Mask.get reg.isRel id && s.rel.isSome then .error .secondRel
    else
      let rel := if Mask.get reg.isRel id then some id else s.rel
      let (w, nx) := s.w.walk s.curr id mask rel
      .ok { w := w, curr := nx, mask := mask, rel := rel }

def walkAdds (reg : Registry) (startMask : Mask) : WalkSt → List CompId → WalkSt × Option Panic
  | s, [] => (s, none)
  | s, id :: rest =>
    match walkAdd reg startMask s id with
    | .error p => (s, some p)
    | .ok s' => walkAdds reg startMask s' rest

/-- `findOrCreateArchetype`: returns the world (possibly with new nodes even on panic) and
    the destination table. -/
def findOrCreateTable (w : World) (start : Nat) (add rem : List CompId) (target : Entity) : World × Except Panic Nat :=
  let st := w.tableOf start
  let nd := w.nodeOf st.node
  let s0 : WalkSt := { w := w, curr := st.node, mask := nd.mask, rel := nd.rel }
  let s1 := rem.foldl (walkRem w.reg) s0
  let (s2, p) := walkAdds w.reg nd.mask s1 add
  match p with
  | some e => (s2.w, .error e)
  | none =>
    match s2.w.nodeGetTable s2.curr target with
    | some t => (s2.w, .ok t)
    | none =>
      let (w, t) := s2.w.createTable s2.curr target true
      (w, .ok t)

/-- `archNode.RemoveArchetype` + `Cache.removeArchetype` (= `World.removeArchetype`). -/
def removeTable (w : World) (t : Nat) : World :=
  let tb := w.tableOf t
  let nd := w.nodeOf tb.node
  let w := w.setNode tb.node { nd with tmap := assocDel nd.tmap tb.target, free := nd.free ++ [tb.k] }
  let w := w.setTable t { tb with active := false, rows := #[] }
  w.cacheRemove t

/-- `cleanupArchetype`. -/
def cleanupTable (w : World) (t : Nat) : World :=
  let tb := w.tableOf t
  if tb.rows.size > 0 || (w.nodeOf tb.node).rel.isNone || !tb.active then w
  else if tb.target.isZero || w.alive tb.target then w
  else w.removeTable t

/-- `cleanupArchetypes(target)`: over all nodes, in order. -/
def cleanupTables (w : World) (target : Entity) : World :=
  (List.range w.nodes.size).foldl (fun w n =>
    match assocGet (w.nodeOf n).tmap target with
    | some t => if (w.tableOf t).rows.size == 0 then w.removeTable t else w
    | none => w) w

/-! ### rows -/

def zeros (n : Nat) : List Val := List.replicate n 0

/-- `archetype.Alloc(entity)`: returns the new row index. New component cells read as zero
    (the implementation zeroes vacated rows on removal and reset). -/
def tableAlloc (w : World) (t : Nat) (e : Entity) : World × Nat :=
  let tb := w.tableOf t
  let nd := w.nodeOf tb.node
  let tb := tb.extend nd.capInc 1
  (w.setTable t { tb with rows := tb.rows.push ⟨e, zeros nd.ids.length⟩ }, tb.rows.size)

/-- `archetype.Remove(index)`: swap-remove; returns whether a row was swapped in. -/
def tableRemove (w : World) (t : Nat) (r : Nat) : World × Bool :=
  let tb := w.tableOf t
  let last := tb.rows.size - 1
  if r == last then (w.setTable t { tb with rows := tb.rows.pop }, false)
  else (w.setTable t { tb with rows := (tb.rows.setIfInBounds r (tb.rows.getD last default)).pop }, true)

def setIndex (w : World) (id : Nat) (l : Option Loc) : World := { w with index := w.index.setIfInBounds id l }

/-- Remove row `r` of table `t` and fix the index of the entity swapped into its place. -/
def removeRowFix (w : World) (t r : Nat) : World :=
  let (w, swapped) := w.tableRemove t r
  if swapped then
    let se := (w.tableOf t).getEntity r
    w.setIndex se.id (some ⟨t, r⟩)
  else w

def colOf (ids : List CompId) (id : CompId) : Option Nat :=
  let i := ids.idxOf id
  if i < ids.length then some i else none

/-- Value of component `id` in row `r` of table `t` (`none` = table lacks the component: Go nil). -/
def cell (w : World) (t r : Nat) (id : CompId) : Option Val :=
  match colOf (w.tableIds t) id with
  | none => none
  | some c => some (((w.tableOf t).rows.getD r default).vals.getD c 0)

def setCell (w : World) (t r : Nat) (id : CompId) (v : Val) : World :=
  match colOf (w.tableIds t) id with
  | none => w
  | some c =>
    if Mask.get w.reg.zeroSized id then w else
    let tb := w.tableOf t
    let row := tb.rows.getD r default
    w.setTable t { tb with rows := tb.rows.setIfInBounds r { row with vals := row.vals.set c v } }

/-- Values for a row moved from a table with ids `oldIds` to one with ids `newIds`:
    kept components are copied, new ones are zero. -/
def movedVals (oldIds newIds : List CompId) (oldVals : List Val) : List Val :=
  newIds.map (fun id => match colOf oldIds id with
    | some c => oldVals.getD c 0
    | none => 0)

/-- `createEntity(arch)`. -/
def createEntity (w : World) (t : Nat) : World × Entity :=
  let (pool, e) := w.pool.get
  let w := { w with pool := pool }
  let (w, r) := w.tableAlloc t e
  if e.id == w.index.size then
    ({ w with index := w.index.push (some ⟨t, r⟩), flags := w.flags.push false }, e)
  else
    ((w.setIndex e.id (some ⟨t, r⟩)).setFlag e.id false, e)

/-- `createEntities(arch, count)`. -/
def createEntities (w : World) (t : Nat) : Nat → World × List Entity
  | 0 => (w, [])
  | n + 1 =>
    let (w, e) := w.createEntity t
    let (w, es) := createEntities w t n
    (w, e :: es)

/-- `getArchetypes(filter)` for a non-cached filter. -/
def matchingTables (w : World) (f : Filter) : List Nat :=
  (List.range w.nodes.size).flatMap (fun n =>
    let nd := w.nodeOf n
    if !nd.active || !f.sat nd.mask then []
    else match f.relTarget?, nd.rel with
      | some tg, some _ => (assocGet nd.tmap tg).toList
      | _, _ => nd.tables.toList.filter (fun t => (w.tableOf t).active))

/-- `getArchetypes(filter)`: `none` = panic "no filter for id found". -/
def getTables (w : World) (f : Filter) : Option (List Nat) :=
  match f with
  | .cached _ id => (w.cacheFind id).map (fun e => e.archs.toList)
  | _ => some (w.matchingTables f)

end World
end Arche
