/-
  ArcheModel.GenPrelude — the only hand-written support the regenerated modules (ArcheGen) use:
  `math/bits.OnesCount64` as a definition (validated against the Go function by the harness), and
  the Go slice / fixed array / index operations the imperative translator (extract/imper.go) emits:
  `none` stands for the run-time panic (index out of range, `make` with len > cap).
-/
namespace ArcheGen

/-- `bits.OnesCount64`, as an `Int` (Go `int`). -/
def popcount64 (x : BitVec 64) : Int :=
  Int.ofNat ((List.range 64).filter (fun i => x.getLsbD i)).length


/-- a Go slice: the elements `s[0:len]` and the capacity. Growth of `append` beyond the capacity
    is runtime-specific in Go; it is modelled as minimal growth (only the elements are exact then). -/
structure GoSlice (α : Type) where
  arr : Array α
  cap : Nat
deriving Repr, DecidableEq

instance {α : Type} : Inhabited (GoSlice α) := ⟨⟨#[], 0⟩⟩

namespace GoSlice
variable {α : Type}
def size (s : GoSlice α) : Nat := s.arr.size
/-- `s[i]`; `none` = index out of range -/
def get (s : GoSlice α) (i : Nat) : Option α := s.arr[i]?
/-- `s[i] = v` -/
def set (s : GoSlice α) (i : Nat) (v : α) : Option (GoSlice α) :=
  if i < s.arr.size then some { s with arr := s.arr.setIfInBounds i v } else none
/-- `make([]T, len, cap)` -/
def make [Inhabited α] (len cap : Int) : Option (GoSlice α) :=
  if 0 ≤ len ∧ len ≤ cap then some ⟨Array.replicate len.toNat default, cap.toNat⟩ else none
/-- `append(s, v)` -/
def append (s : GoSlice α) (v : α) : GoSlice α :=
  ⟨s.arr.push v, if s.arr.size < s.cap then s.cap else s.arr.size + 1⟩
/-- `append(s, t...)` -/
def appendAll (s t : GoSlice α) : GoSlice α :=
  ⟨s.arr ++ t.arr, if s.arr.size + t.arr.size ≤ s.cap then s.cap else s.arr.size + t.arr.size⟩
/-- `copy(dst, src)`: the first `min(len(dst), len(src))` elements -/
def copy (dst src : GoSlice α) : GoSlice α :=
  { dst with arr := Array.ofFn (n := dst.arr.size) (fun i => if h : i.val < src.arr.size then src.arr[i.val] else dst.arr[i]) }
/-- `s == nil`. A slice of length and capacity 0 is identified with the nil slice (no translated
    function creates a non-nil slice of capacity 0 and compares it with nil). -/
def isNil (s : GoSlice α) : Bool := s.arr.size == 0 && s.cap == 0
/-- `for i := range s { s[i] = v }` -/
def fill (s : GoSlice α) (v : α) : GoSlice α := { s with arr := Array.replicate s.arr.size v }
/-- `s[:hi]` for `hi ≤ len(s)` (re-slicing into the hidden capacity is refused) -/
def «prefix» (s : GoSlice α) (hi : Int) : Option (GoSlice α) :=
  if 0 ≤ hi ∧ hi.toNat ≤ s.arr.size then some ⟨s.arr.extract 0 hi.toNat, s.cap⟩ else none
/-- `s[:hi]` in general: up to `len(s)` a prefix; beyond it (up to the capacity) the slice is extended
    into its backing array, whose content there is unknown — `stale i` stands for whatever element `i`
    of the backing array holds (zero after `make`, older entries after a re-slice to a shorter length) -/
def reslice (s : GoSlice α) (hi : Int) (stale : Nat → α) : Option (GoSlice α) :=
  if 0 ≤ hi ∧ hi.toNat ≤ s.arr.size then some ⟨s.arr.extract 0 hi.toNat, s.cap⟩
  else if 0 ≤ hi ∧ hi.toNat ≤ s.cap then
    some ⟨s.arr ++ Array.ofFn (n := hi.toNat - s.arr.size) (fun k => stale (s.arr.size + k.val)), s.cap⟩
  else none
end GoSlice

namespace GoArr
variable {α : Type}
/-- `a[i]` on a fixed-size array -/
def get (a : Array α) (i : Nat) : Option α := a[i]?
def set (a : Array α) (i : Nat) (v : α) : Option (Array α) :=
  if i < a.size then some (a.setIfInBounds i v) else none
def fill (a : Array α) (v : α) : Array α := Array.replicate a.size v
end GoArr

/-- a value of an interface type (`any`): `none` = nil, `some t` = a non-nil value, identified by
    the token `t` (what it is or points to is not modelled) -/
abbrev GoAny := Option Nat

/-- a Go map as an association list without duplicate keys (the newest binding first), with its
    nil-ness (`nonNil = false`: the nil map — reads find nothing, a write panics). Only lookups,
    insertions, deletions and `len` are translated, never iteration, so the order of the entries
    is not observable. -/
structure GoMap (K V : Type) where
  entries : List (K × V)
  nonNil : Bool
deriving Repr, DecidableEq

/-- the zero value of a map type is the nil map -/
instance {K V : Type} : Inhabited (GoMap K V) := ⟨⟨[], false⟩⟩

namespace GoMap
variable {K V : Type} [DecidableEq K]
/-- `map[K]V{}`: empty, not nil -/
def empty : GoMap K V := ⟨[], true⟩
/-- `m == nil` -/
def isNil (m : GoMap K V) : Bool := !m.nonNil
/-- `v, ok := m[k]` -/
def find (m : GoMap K V) (k : K) : Option V := (m.entries.find? (fun p => p.1 == k)).map (·.2)
/-- `delete(m, k)` (a no-op on the nil map) -/
def delete (m : GoMap K V) (k : K) : GoMap K V := { m with entries := m.entries.filter (fun p => !(p.1 == k)) }
/-- `m[k] = v`; `none` = assignment to an entry of the nil map -/
def set (m : GoMap K V) (k : K) (v : V) : Option (GoMap K V) :=
  if m.nonNil then some { m with entries := (k, v) :: (m.delete k).entries } else none
def get (m : GoMap K V) (k : K) [Inhabited V] : Option V := some ((m.find k).getD default)
/-- `len(m)` -/
def len (m : GoMap K V) : Nat := m.entries.length
end GoMap

/-- an `int` used as an index: negative panics -/
def GoInt.toIndex (i : Int) : Option Nat := if 0 ≤ i then some i.toNat else none

end ArcheGen
