/-
  ArcheModel.GenPrelude — the only hand-written support the regenerated modules (ArcheGen) use:
  `math/bits.OnesCount64` as a definition (validated against the Go function by the harness).
-/
namespace ArcheGen

/-- `bits.OnesCount64`, as an `Int` (Go `int`). -/
def popcount64 (x : BitVec 64) : Int :=
  Int.ofNat ((List.range 64).filter (fun i => x.getLsbD i)).length

end ArcheGen
