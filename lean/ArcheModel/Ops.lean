/-
  ArcheModel.Ops — the public API of `ecs.World`, `Batch`, `Relations`, `Builder`, `Cache`,
  `Resources` as total functions `World → args → Res`. A panicking operation returns the state
  as the Go code leaves it (e.g. graph nodes created before a failing check), not a
  rolled-back copy. Mirrors ecs/world.go and ecs/world_internal.go path by path.
-/
import ArcheModel.Query
namespace Arche

structure Res (α : Type) where
  w : World
  out : Except Panic α
  evs : List Delivery := []

namespace World

def fail {α} (w : World) (p : Panic) : Res α := { w := w, out := .error p }

/-- `!w.entityPool.Alive(e)` guards: index panic beyond the pool is a `crash`. -/
def checkAlive (w : World) (e : Entity) : Option Panic :=
  match w.pool.alive? e with
  | none => some .crash
  | some false => some .dead
  | some true => none

/-- `!target.IsZero() && !w.entityPool.Alive(target)`. -/
def checkTarget (w : World) (t : Entity) : Option Panic :=
  if t.isZero then none else
  match w.pool.alive? t with
  | none => some .crash
  | some false => some .deadTarget
  | some true => none

/-- `checkRelation(arch, comp)` / `relationError`. -/
def checkRelation (w : World) (t : Nat) (comp : CompId) : Option Panic :=
  let nd := w.nodeOfTable t
  if nd.rel == some comp then none
  else if !Mask.get nd.mask comp then some .relMissing else some .notRel

def locOf (w : World) (e : Entity) : Loc := (w.index.getD e.id none).getD ⟨0, 0⟩

/-- `copyTo(entity, id, comp)` (= `World.Set`). -/
def copyTo (w : World) (e : Entity) (id : CompId) (v : Val) : World × Option Panic :=
  match w.checkAlive e with
  | some p => (w, some p)
  | none =>
    let l := w.locOf e
    if !Mask.get (w.tableMask l.tbl) id then (w, some .copyMissing)
    else (w.setCell l.tbl l.row id v, none)

def copyAll (w : World) (e : Entity) : List (CompId × Val) → World × Option Panic
  | [] => (w, none)
  | (id, v) :: rest =>
    match w.copyTo e id v with
    | (w, some p) => (w, some p)
    | (w, none) => copyAll w e rest

/-- `lock()`; `none` = out of lock bits. -/
def lock (w : World) : Option (World × Nat) :=
  match w.locks.lock with
  | none => none
  | some (l, b) => some ({ w with locks := l }, b)

def unlock (w : World) (b : Nat) : Option World :=
  match w.locks.unlock b with
  | none => none
  | some l => some { w with locks := l }

/-! ### entity creation -/

def creationEvent (w : World) (t : Nat) (e : Entity) (comps : List CompId) (newRel : Option CompId) (bits : Nat) : Event :=
  { entity := e, added := w.tableMask t, addedIDs := comps, newRel := newRel, types := bits }

/-- `World.NewEntity(comps...)`. -/
def newEntity (w : World) (comps : List CompId) : Res Entity :=
  if w.isLocked then w.fail .locked else
  let (w, r) := if comps.isEmpty then (w, Except.ok 0) else w.findOrCreateTable 0 comps [] Entity.zero
  match r with
  | .error p => w.fail p
  | .ok t =>
    let (w, e) := w.createEntity t
    let newRel := w.tableRel t
    let bits := Ev.subscription true false (!comps.isEmpty) false newRel.isSome newRel.isSome
    let ev := w.creationEvent t e comps newRel bits
    { w := w, out := .ok e, evs := w.emit ev (some (w.tableMask t)) none none newRel }

/-- `World.NewEntityWith(comps...)`. -/
def newEntityWith (w : World) (comps : List (CompId × Val)) : Res Entity :=
  if w.isLocked then w.fail .locked else
  if comps.isEmpty then w.newEntity [] else
  let ids := comps.map (·.1)
  let (w, r) := w.findOrCreateTable 0 ids [] Entity.zero
  match r with
  | .error p => w.fail p
  | .ok t =>
    let (w, e) := w.createEntity t
    match w.copyAll e comps with
    | (w, some p) => w.fail p
    | (w, none) =>
      let newRel := w.tableRel t
      let bits := Ev.subscription true false true false newRel.isSome newRel.isSome
      let ev := w.creationEvent t e ids newRel bits
      { w := w, out := .ok e, evs := w.emit ev (some (w.tableMask t)) none none newRel }

/-- `newEntityTarget` / `newEntityTargetWith` (Builder.New with a target). -/
def newEntityTarget (w : World) (targetID : CompId) (target : Entity) (comps : List (CompId × Val)) (withVals : Bool) : Res Entity :=
  if w.isLocked then w.fail .locked else
  match w.checkTarget target with
  | some p => w.fail p
  | none =>
  let ids := comps.map (·.1)
  let (w, r) := if ids.isEmpty && !withVals then (w, Except.ok 0) else w.findOrCreateTable 0 ids [] target
  match r with
  | .error p => w.fail p
  | .ok t =>
    match w.checkRelation t targetID with
    | some p => w.fail p
    | none =>
      let (w, e) := w.createEntity t
      let w := w.markTarget target
      match (if withVals then w.copyAll e comps else (w, none)) with
      | (w, some p) => w.fail p
      | (w, none) =>
        let bits := Ev.subscription true false (!comps.isEmpty) false true true
        let ev := w.creationEvent t e ids (some targetID) bits
        { w := w, out := .ok e, evs := w.emit ev (some (w.tableMask t)) none none (some targetID) }

/-- Result of a batch creation: destination table, first row, the new entities in row order. -/
structure Created where
  tbl : Nat
  start : Nat
  ents : List Entity

def copyAllTo (w : World) (comps : List (CompId × Val)) : List Entity → World × Option Panic
  | [] => (w, none)
  | e :: es =>
    match w.copyAll e comps with
    | (w, some p) => (w, some p)
    | (w, none) => copyAllTo w comps es

/-- `newEntitiesNoNotify` / `newEntitiesWithNoNotify`. -/
def newEntitiesNoNotify (w : World) (count : Int) (rel : Option CompId) (target : Entity)
    (comps : List (CompId × Val)) (withVals : Bool) : Res Created :=
  if w.isLocked then w.fail .locked else
  if count < 1 then w.fail .count else
  match w.checkTarget target with
  | some p => w.fail p
  | none =>
  let ids := comps.map (·.1)
  let (w, r) := if ids.isEmpty then (w, Except.ok 0) else w.findOrCreateTable 0 ids [] target
  match r with
  | .error p => w.fail p
  | .ok t =>
    let chk := match rel with
      | some targetID => w.checkRelation t targetID
      | none => none
    match chk with
    | some p => w.fail p
    | none =>
      let w := if rel.isSome then w.markTarget target else w
      let start := (w.tableOf t).rows.size
      let (w, es) := w.createEntities t count.toNat
      match (if withVals then w.copyAllTo comps es else (w, none)) with
      | (w, some p) => w.fail p
      | (w, none) => { w := w, out := .ok ⟨t, start, es⟩ }

/-- `newEntities` / `newEntitiesWith` (Builder.NewBatch). -/
def newEntities (w : World) (count : Int) (rel : Option CompId) (target : Entity)
    (comps : List (CompId × Val)) (withVals : Bool) : Res Created :=
  let r := w.newEntitiesNoNotify count rel target comps withVals
  match r.out with
  | .error _ => r
  | .ok c =>
    let w := r.w
    let newRel := w.tableRel c.tbl
    let bits := Ev.subscription true false (!comps.isEmpty) false newRel.isSome newRel.isSome
    let evs := c.ents.flatMap (fun e =>
      w.emit (w.creationEvent c.tbl e (comps.map (·.1)) newRel bits) (some (w.tableMask c.tbl)) none none newRel)
    { r with evs := evs }

/-- `newEntitiesQuery` / `newEntitiesWithQuery` (Builder.NewBatchQ). -/
def newEntitiesQuery (w : World) (count : Int) (rel : Option CompId) (target : Entity)
    (comps : List (CompId × Val)) (withVals : Bool) : Res (Created × Query) :=
  let r := w.newEntitiesNoNotify count rel target comps withVals
  match r.out with
  | .error p => r.w.fail p
  | .ok c =>
    match r.w.lock with
    | none => r.w.fail .lockLimit
    | some (w, b) =>
      let q : Query := { mode := .batch, batch := #[⟨c.tbl, none, c.start, (w.tableOf c.tbl).rows.size⟩],
                         added := w.tableIds c.tbl, removedIds := [], lockBit := b }
      { w := w, out := .ok (c, q) }

/-! ### removal -/

def removalEvent (w : World) (t : Nat) (e : Entity) (bits : Nat) : Event :=
  let nd := w.nodeOfTable t
  { entity := e, removed := nd.mask, removedIDs := nd.ids, oldRel := nd.rel,
    oldTarget := (w.tableOf t).target, types := bits }

def removalBits (w : World) (t : Nat) : Nat :=
  let nd := w.nodeOfTable t
  Ev.subscription false true false (!nd.ids.isEmpty) nd.rel.isSome nd.rel.isSome

/-- The removal event of `RemoveEntity`: delivered before the removal, with the world locked. -/
def notifyRemoval (w : World) (t : Nat) (e : Entity) : World × List Delivery :=
  let nd := w.nodeOfTable t
  let ev := w.removalEvent t e (w.removalBits t)
  match w.listener with
  | none => (w, [])
  | some L =>
    let trigger := L.subs &&& ev.types
    if trigger != 0 && Ev.subscribes trigger none (some nd.mask) L.comps nd.rel none then
      match w.lock with
      | none => (w, [])
      | some (wl, b) =>
        let evs := (L.receivers ev).map (fun i => wl.observe i ev)
        ((wl.unlock b).getD wl, evs)
    else (w, [])

/-- `RemoveEntity` after its checks and its removal event: swap-remove the row, recycle the
    handle, clear the index entry, retire the empty tables that had the entity as their target,
    retire the entity's own table if it became an empty table of a dead target. -/
def removeCore (w : World) (e : Entity) (l : Loc) : World :=
  let w := w.removeRowFix l.tbl l.row
  let w := { w with pool := w.pool.recycle e }
  let w := w.setIndex e.id none
  let w := if w.flag e.id then (w.cleanupTables e).setFlag e.id false else w
  w.cleanupTable l.tbl

/-- `World.RemoveEntity(entity)`. -/
def removeEntity (w : World) (e : Entity) : Res Unit :=
  if w.isLocked then w.fail .locked else
  match w.checkAlive e with
  | some p => w.fail p
  | none =>
    let l := w.locOf e
    let r := w.notifyRemoval l.tbl e
    { w := r.1.removeCore e l, out := .ok (), evs := r.2 }

/-- The per-entity part of `removeEntities`, in row order. -/
def removeEntitiesRows (w : World) : List Entity → World
  | [] => w
  | e :: es =>
    let w := w.setIndex e.id none
    let w := if w.flag e.id then (w.cleanupTables e).setFlag e.id false else w
    let w := { w with pool := w.pool.recycle e }
    removeEntitiesRows w es

/-- `removeEntities`: per-table loop. -/
def removeEntitiesTables (w : World) : List Nat → Nat → List Delivery → World × Nat × List Delivery
  | [], cnt, evs => (w, cnt, evs)
  | t :: ts, cnt, evs =>
    let tb := w.tableOf t
    let ln := tb.rows.size
    if ln == 0 then removeEntitiesTables w ts cnt evs else
    let ents := tb.rows.toList.map (·.ent)
    let nd := w.nodeOf tb.node
    let bits := w.removalBits t
    let newEvs := ents.flatMap (fun e => w.emit (w.removalEvent t e bits) none (some nd.mask) nd.rel none)
    let w := w.removeEntitiesRows ents
    let tb := w.tableOf t
    let w := w.setTable t { tb with rows := #[] }
    let w := w.cleanupTable t
    removeEntitiesTables w ts (cnt + ln) (evs ++ newEvs)

/-- `Batch.RemoveEntities(filter)`. -/
def removeEntities (w : World) (f : Filter) : Res Nat :=
  if w.isLocked then w.fail .locked else
  match w.getTables f with
  | none => w.fail .filterUnknown
  | some ts =>
    match w.lock with
    | none => w.fail .lockLimit
    | some (w, b) =>
      let (w, cnt, evs) := w.removeEntitiesTables ts 0 []
      { w := (w.unlock b).getD w, out := .ok cnt, evs := evs }

/-! ### exchange -/

/-- `getExchangeMask`. -/
def exchangeMask (mask : Mask) (add rem : List CompId) : Except Panic Mask :=
  let r := rem.foldl (fun (acc : Except Panic Mask) id =>
    match acc with
    | .error p => .error p
    | .ok m => if !Mask.get m id then .error .noComp else .ok (Mask.set m id false)) (.ok mask)
  add.foldl (fun (acc : Except Panic Mask) id =>
    match acc with
    | .error p => .error p
    | .ok m => if Mask.get m id then .error .hasComp else .ok (Mask.set m id true)) r

/-- Target of the destination table in `exchangeNoNotify`/`exchangeArch` when no relation is given. -/
def keptTarget (w : World) (oldT : Nat) (rem : List CompId) : Entity :=
  let tb := w.tableOf oldT
  if !tb.target.isZero && Mask.containsAny (w.tableMask oldT) w.reg.isRel && rem.any (fun id => Mask.get w.reg.isRel id)
  then Entity.zero else tb.target

/-- The relation target of the destination table in `exchangeNoNotify`: the given one (checked)
    when a relation is specified, else the kept / reset old target. -/
def exchangeTarget (w : World) (mask : Mask) (rel : Option CompId) (target : Entity) (srcTbl : Nat) (rem : List CompId) : Except Panic Entity :=
  match rel with
  | some r =>
    if !Mask.get mask r then .error .relMissing
    else if !Mask.get w.reg.isRel r then .error .notRel
    else match w.checkTarget target with
      | some p => .error p
      | none => .ok target
  | none => .ok (w.keptTarget srcTbl rem)

/-- What `exchangeNoNotify` returns for the notification. -/
structure Exchanged where
  tbl : Nat
  oldMask : Mask
  oldTarget : Entity
  oldRel : Option CompId

/-- Move entity `e` from row `l` into table `t` (alloc, copy kept components, swap-remove, index). -/
def moveEntity (w : World) (e : Entity) (l : Loc) (t : Nat) : World :=
  let oldIds := w.tableIds l.tbl
  let oldVals := ((w.tableOf l.tbl).rows.getD l.row default).vals
  let (w, r) := w.tableAlloc t e
  let tb := w.tableOf t
  let w := w.setTable t { tb with rows := tb.rows.setIfInBounds r ⟨e, movedVals oldIds (w.tableIds t) oldVals⟩ }
  let w := w.removeRowFix l.tbl l.row
  w.setIndex e.id (some ⟨t, r⟩)

/-- `exchangeNoNotify`. `none` result = the no-op return for empty add/rem. -/
def exchangeNoNotify (w : World) (e : Entity) (add rem : List CompId) (rel : Option CompId) (target : Entity) : Res (Option Exchanged) :=
  if w.isLocked then w.fail .locked else
  match w.checkAlive e with
  | some p => w.fail p
  | none =>
  if add.isEmpty && rem.isEmpty then
    if rel.isSome then w.fail .noEffectRel else { w := w, out := .ok none }
  else
  let l := w.locOf e
  let oldMask := w.tableMask l.tbl
  match exchangeMask oldMask add rem with
  | .error p => w.fail p
  | .ok mask =>
    match w.exchangeTarget mask rel target l.tbl rem with
    | .error p => w.fail p
    | .ok target =>
      let oldRel := w.tableRel l.tbl
      let oldTarget := (w.tableOf l.tbl).target
      let (w, r) := w.findOrCreateTable l.tbl add rem target
      match r with
      | .error p => w.fail p
      | .ok t =>
        let w := w.moveEntity e l t
        let w := w.markTarget target
        let w := w.cleanupTable l.tbl
        { w := w, out := .ok (some ⟨t, oldMask, oldTarget, oldRel⟩) }

def relChangedOf (oldRel newRel : Option CompId) : Bool :=
  (oldRel.isSome || newRel.isSome) && (oldRel.isNone != newRel.isNone || oldRel != newRel)

/-- `notifyExchange`. -/
def notifyExchange (w : World) (x : Exchanged) (e : Entity) (add rem : List CompId) : List Delivery :=
  let newRel := w.tableRel x.tbl
  let newMask := w.tableMask x.tbl
  let relChanged := relChangedOf x.oldRel newRel
  let targChanged := x.oldTarget != (w.tableOf x.tbl).target
  let bits := Ev.subscription false false (!add.isEmpty) (!rem.isEmpty) relChanged (relChanged || targChanged)
  let changed := x.oldMask ^^^ newMask
  let added := newMask &&& changed
  let removed := x.oldMask &&& changed
  let ev : Event := { entity := e, added := added, removed := removed, addedIDs := add, removedIDs := rem,
                      oldRel := x.oldRel, newRel := newRel, oldTarget := x.oldTarget, types := bits }
  w.emit ev (some added) (some removed) x.oldRel newRel

/-- `World.exchange` (= Add, Remove, Exchange, Relations.Exchange, Builder.Add with ids). -/
def exchange (w : World) (e : Entity) (add rem : List CompId) (rel : Option CompId) (target : Entity) : Res Unit :=
  let r := w.exchangeNoNotify e add rem rel target
  match r.out with
  | .error p => r.w.fail p
  | .ok none => { w := r.w, out := .ok () }
  | .ok (some x) => { w := r.w, out := .ok (), evs := r.w.notifyExchange x e add rem }

/-- `World.assign` (= Assign, Builder.Add with values). -/
def assign (w : World) (e : Entity) (rel : Option CompId) (target : Entity) (comps : List (CompId × Val)) : Res Unit :=
  if comps.isEmpty then w.fail .noCompsAssign else
  let ids := comps.map (·.1)
  let r := w.exchangeNoNotify e ids [] rel target
  match r.out with
  | .error p => r.w.fail p
  | .ok x =>
    match r.w.copyAll e comps with
    | (w, some p) => w.fail p
    | (w, none) =>
      match x with
      | none => { w := w, out := .ok () }
      | some x => { w := w, out := .ok (), evs := w.notifyExchange x e ids [] }

/-! ### relations -/

def getRelation (w : World) (e : Entity) (comp : CompId) : Res Entity :=
  match w.checkAlive e with
  | some p => w.fail p
  | none =>
    let l := w.locOf e
    match w.checkRelation l.tbl comp with
    | some p => w.fail p
    | none => { w := w, out := .ok (w.tableOf l.tbl).target }

/-- `setRelation` (Relations.Set). -/
def setRelation (w : World) (e : Entity) (comp : CompId) (target : Entity) : Res Unit :=
  if w.isLocked then w.fail .locked else
  match w.checkAlive e with
  | some p => w.fail p
  | none =>
  match w.checkTarget target with
  | some p => w.fail p
  | none =>
    let l := w.locOf e
    match w.checkRelation l.tbl comp with
    | some p => w.fail p
    | none =>
      let oldTb := w.tableOf l.tbl
      if oldTb.target == target then { w := w, out := .ok () } else
      let (w, t) := match w.nodeGetTable oldTb.node target with
        | some t => (w, t)
        | none => w.createTable oldTb.node target true
      let w := w.moveEntity e l t
      let w := w.markTarget target
      let w := w.cleanupTable l.tbl
      let ev : Event := { entity := e, oldRel := some comp, newRel := some comp, oldTarget := oldTb.target, types := Ev.targetChanged }
      { w := w, out := .ok (), evs := w.emit ev none none (some comp) (some comp) }

/-! ### batch operations -/

/-- Move all rows `0 … count-1` of table `src` to the end of table `dst` (the loops of
    `exchangeArch` / `setRelationArch`), then reset and clean up the source. -/
def moveAll (w : World) (src dst : Nat) (count : Nat) : World × Nat :=
  let start := (w.tableOf dst).rows.size
  let srcIds := w.tableIds src
  let dstIds := w.tableIds dst
  let srcRows := (w.tableOf src).rows.toList.take count
  let dnd := w.nodeOfTable dst
  let tb := (w.tableOf dst).extend dnd.capInc count
  let newRows := srcRows.map (fun r => (⟨r.ent, movedVals srcIds dstIds r.vals⟩ : Row))
  let w := w.setTable dst { tb with rows := tb.rows ++ newRows.toArray }
  let w := (srcRows.zipIdx).foldl (fun w (r, i) => w.setIndex r.ent.id (some ⟨dst, start + i⟩)) w
  (w, start)

/-- The relation target of the destination table in `exchangeArch` (the liveness of a given
    target is checked once, up front, by `exchangeBatchNoNotify`). -/
def archTarget (w : World) (mask : Mask) (rel : Option CompId) (target : Entity) (src : Nat) (rem : List CompId) : Except Panic Entity :=
  match rel with
  | some r =>
    if !Mask.get mask r then .error .relMissing
    else if !Mask.get w.reg.isRel r then .error .notRel
    else .ok target
  | none => .ok (w.keptTarget src rem)

/-- `exchangeArch`. -/
def exchangeArch (w : World) (src : Nat) (count : Nat) (add rem : List CompId) (rel : Option CompId) (target : Entity) : World × Except Panic BatchEntry :=
  match exchangeMask (w.tableMask src) add rem with
  | .error p => (w, .error p)
  | .ok mask =>
    match w.archTarget mask rel target src rem with
    | .error p => (w, .error p)
    | .ok target =>
      let (w, r) := w.findOrCreateTable src add rem target
      match r with
      | .error p => (w, .error p)
      | .ok dst =>
        let (w, start) := w.moveAll src dst count
        let w := w.markTarget target
        let stb := w.tableOf src
        let w := w.setTable src { stb with rows := #[] }
        let w := w.cleanupTable src
        (w, .ok ⟨dst, some src, start, (w.tableOf dst).rows.size⟩)

def exchangeBatchLoop (w : World) (add rem : List CompId) (rel : Option CompId) (target : Entity) :
    List (Nat × Nat) → Array BatchEntry → World × Except Panic (Array BatchEntry)
  | [], acc => (w, .ok acc)
  | (t, ln) :: rest, acc =>
    if ln == 0 then exchangeBatchLoop w add rem rel target rest acc else
    match w.exchangeArch t ln add rem rel target with
    | (w, .error p) => (w, .error p)
    | (w, .ok b) => exchangeBatchLoop w add rem rel target rest (acc.push b)

/-- `exchangeBatchNoNotify`: returns the count and the batch entries. -/
def exchangeBatchNoNotify (w : World) (f : Filter) (add rem : List CompId) (rel : Option CompId) (target : Entity) : Res (Nat × Array BatchEntry) :=
  if w.isLocked then w.fail .locked else
  if add.isEmpty && rem.isEmpty then
    if rel.isSome then w.fail .noEffectRel else { w := w, out := .ok (0, #[]) }
  else
  match (if rel.isSome then w.checkTarget target else none) with
  | some p => w.fail p
  | none =>
  match w.getTables f with
  | none => w.fail .filterUnknown
  | some ts =>
    let lens := ts.map (fun t => (t, (w.tableOf t).rows.size))
    let total := (lens.map (·.2)).sum
    match w.exchangeBatchLoop add rem rel target lens #[] with
    | (w, .error p) => w.fail p
    | (w, .ok bs) => { w := w, out := .ok (total, bs) }

/-- `notifyQuery(batchArch)`. -/
def notifyQuery (w : World) (batch : Array BatchEntry) (added removed : List CompId) : List Delivery :=
  batch.toList.flatMap (fun b =>
    let newRel := w.tableRel b.tbl
    let newMask := w.tableMask b.tbl
    let newTarget := (w.tableOf b.tbl).target
    let (evAdded, evRemoved, oldTarget, oldRel, relChanged, targChanged) :=
      match b.old with
      | none => (newMask, 0, Entity.zero, (none : Option CompId), newRel.isSome, !newTarget.isZero)
      | some o =>
        let oldRel := w.tableRel o
        let oldMask := w.tableMask o
        let changed := newMask ^^^ oldMask
        (changed &&& newMask, changed &&& oldMask, (w.tableOf o).target, oldRel,
         relChangedOf oldRel newRel, (w.tableOf o).target != newTarget)
    let bits := Ev.subscription b.old.isNone false (!added.isEmpty) (!removed.isEmpty) relChanged (relChanged || targChanged)
    let mk (e : Entity) : Event :=
      { entity := e, added := evAdded, removed := evRemoved, addedIDs := added, removedIDs := removed,
        oldRel := oldRel, newRel := newRel, oldTarget := oldTarget, types := bits }
    match w.listener with
    | none => []
    | some L =>
      let trigger := L.subs &&& bits
      if trigger != 0 && Ev.subscribes trigger (some evAdded) (some evRemoved) L.comps oldRel newRel then
        ((List.range (b.stop - b.start)).map (fun i => (w.tableOf b.tbl).getEntity (b.start + i))).flatMap
          (fun e => (L.receivers (mk e)).map (fun i => w.observe i (mk e)))
      else [])

/-- `exchangeBatch` (Batch.Add/Remove/Exchange, Relations.ExchangeBatch). -/
def exchangeBatch (w : World) (f : Filter) (add rem : List CompId) (rel : Option CompId) (target : Entity) : Res Nat :=
  let r := w.exchangeBatchNoNotify f add rem rel target
  match r.out with
  | .error p => r.w.fail p
  | .ok (n, bs) => { w := r.w, out := .ok n, evs := r.w.notifyQuery bs add rem }

/-- `exchangeBatchQuery` (the Q variants). -/
def exchangeBatchQuery (w : World) (f : Filter) (add rem : List CompId) (rel : Option CompId) (target : Entity) : Res Query :=
  let r := w.exchangeBatchNoNotify f add rem rel target
  match r.out with
  | .error p => r.w.fail p
  | .ok (_, bs) =>
    match r.w.lock with
    | none => r.w.fail .lockLimit
    | some (w, b) => { w := w, out := .ok { mode := .batch, batch := bs, added := add, removedIds := rem, lockBit := b } }

/-- `setRelationArch`. -/
def setRelationArch (w : World) (src : Nat) (count : Nat) (comp : CompId) (target : Entity) : World × Except Panic BatchEntry :=
  match w.checkRelation src comp with
  | some p => (w, .error p)
  | none =>
    let stb := w.tableOf src
    let (w, dst) := match w.nodeGetTable stb.node target with
      | some t => (w, t)
      | none => w.createTable stb.node target true
    let (w, start) := w.moveAll src dst count
    let w := w.markTarget target
    let stb := w.tableOf src
    let w := w.setTable src { stb with rows := #[] }
    let w := w.cleanupTable src
    (w, .ok ⟨dst, some src, start, (w.tableOf dst).rows.size⟩)

def setRelationLoop (w : World) (comp : CompId) (target : Entity) :
    List (Nat × Nat) → Array BatchEntry → World × Except Panic (Array BatchEntry)
  | [], acc => (w, .ok acc)
  | (t, ln) :: rest, acc =>
    if ln == 0 || (w.tableOf t).target == target then setRelationLoop w comp target rest acc else
    match w.setRelationArch t ln comp target with
    | (w, .error p) => (w, .error p)
    | (w, .ok b) => setRelationLoop w comp target rest (acc.push b)

def setRelationBatchNoNotify (w : World) (f : Filter) (comp : CompId) (target : Entity) : Res (Nat × Array BatchEntry) :=
  if w.isLocked then w.fail .locked else
  match w.checkTarget target with
  | some p => w.fail p
  | none =>
  match w.getTables f with
  | none => w.fail .filterUnknown
  | some ts =>
    let lens := ts.map (fun t => (t, (w.tableOf t).rows.size))
    let total := (lens.map (·.2)).sum
    match w.setRelationLoop comp target lens #[] with
    | (w, .error p) => w.fail p
    | (w, .ok bs) => { w := w, out := .ok (total, bs) }

def setRelationBatch (w : World) (f : Filter) (comp : CompId) (target : Entity) : Res Nat :=
  let r := w.setRelationBatchNoNotify f comp target
  match r.out with
  | .error p => r.w.fail p
  | .ok (n, bs) =>
    let evs := match r.w.listener with
      | some L => if L.subs &&& Ev.targetChanged == Ev.targetChanged then r.w.notifyQuery bs [] [] else []
      | none => []
    { w := r.w, out := .ok n, evs := evs }

def setRelationBatchQuery (w : World) (f : Filter) (comp : CompId) (target : Entity) : Res Query :=
  let r := w.setRelationBatchNoNotify f comp target
  match r.out with
  | .error p => r.w.fail p
  | .ok (_, bs) =>
    match r.w.lock with
    | none => r.w.fail .lockLimit
    | some (w, b) => { w := w, out := .ok { mode := .batch, batch := bs, lockBit := b } }

/-! ### cache, queries -/

/-- `Cache.Register`. -/
def cacheRegister (w : World) (f : Filter) : Res Filter :=
  match f with
  | .cached _ _ => w.fail .filterRegistered
  | _ =>
    let id := w.cacheNext
    let e : CacheEntry := { id := id, filter := f, archs := (w.matchingTables f).toArray, indices := none }
    { w := { w with cache := w.cache.push e, cacheNext := id + 1 }, out := .ok (.cached f id) }

/-- `Cache.Unregister`: returns the original filter. -/
def cacheUnregister (w : World) (id : Nat) : Res Filter :=
  match w.cache.findIdx? (fun e => e.id == id) with
  | none => w.fail .filterUnknown
  | some idx =>
    let e := w.cache.getD idx default
    let last := w.cache.size - 1
    let c := if idx != last then w.cache.setIfInBounds idx (w.cache.getD last default) else w.cache
    { w := { w with cache := c.pop }, out := .ok e.filter }

/-- `World.Query(filter)`. -/
def query (w : World) (f : Filter) : Res Query :=
  match f with
  | .cached inner id =>
    match w.cacheFind id with
    | none => w.fail .filterUnknown
    | some e =>
      match w.lock with
      | none => w.fail .lockLimit
      | some (w, b) => { w := w, out := .ok { mode := .cached, filter := inner, tlist := e.archs, lockBit := b } }
  | _ =>
    match w.lock with
    | none => w.fail .lockLimit
    | some (w, b) => { w := w, out := .ok { mode := .nodes, filter := f, nodeCount := w.nodes.size, lockBit := b } }

/-- `closeQuery`. -/
def closeQuery (w : World) (q : Query) : Res Query :=
  match w.unlock q.lockBit with
  | none => w.fail .unbalanced
  | some w =>
    let evs := if q.mode == .batch then w.notifyQuery q.batch q.added q.removedIds else []
    { w := w, out := .ok { q with closed := true }, evs := evs }

/-- `Query.Next`. Returns the advanced query and whether an entity is under the cursor. -/
def queryNext (w : World) (q : Query) : Res (Query × Bool) :=
  if q.entityIndex < q.entityIndexMax then
    { w := w, out := .ok ({ q with entityIndex := q.entityIndex + 1 }, true) }
  else
    match q.nextArchetype w with
    | some q' => { w := w, out := .ok (q', true) }
    | none =>
      let r := w.closeQuery q
      match r.out with
      | .error p => r.w.fail p
      | .ok q' => { w := r.w, out := .ok (q', false), evs := r.evs }

/-- `Query.Step(k)`, the loop after the argument check, with fuel `k + 1` (each iteration
    but the last strictly decreases the remaining step). -/
def queryStepLoop (w : World) : Nat → Query → Nat → Res (Query × Bool)
  | 0, q, _ => { w := w, out := .ok (q, false) }
  | fuel + 1, q, step =>
    let ei := q.entityIndex + step
    if ei ≤ q.entityIndexMax then { w := w, out := .ok ({ q with entityIndex := ei }, true) }
    else
      let rem := ei - q.entityIndexMax - 1
      let q := { q with entityIndex := ei }
      match q.nextArchetype w with
      | none =>
        let r := w.closeQuery q
        match r.out with
        | .error p => r.w.fail p
        | .ok q' => { w := r.w, out := .ok (q', false), evs := r.evs }
      | some q' =>
        if rem == 0 then { w := w, out := .ok (q', true) }
        else queryStepLoop w fuel q' rem

def queryStep (w : World) (q : Query) (step : Int) : Res (Query × Bool) :=
  if step ≤ 0 then w.fail .qStep else queryStepLoop w (step.toNat + 1) q step.toNat

/-- `Query.Count`. -/
def queryCount (w : World) (q : Query) : Query × Nat :=
  match q.count with
  | some c => (q, c)
  | none => let c := q.countEntities w; ({ q with count := some c }, c)

/-- `Query.EntityAt`. -/
def queryEntityAt (w : World) (q : Query) (i : Int) : Except Panic Entity :=
  if i < 0 then .error .qRange else
  match q.entityAt w i.toNat with
  | some e => .ok e
  | none => .error .qRange

/-- `Query.Relation(comp)`. -/
def queryRelation (w : World) (q : Query) (comp : CompId) : Except Panic Entity :=
  match q.cur with
  | none => .error .crash
  | some t => if w.tableRel t == some comp then .ok (w.tableOf t).target else .error .qRel

/-! ### reset, dump, load -/

/-- `archNode.Reset(cache)` for node `n`. -/
def resetNode (w : World) (n : Nat) : World :=
  let nd := w.nodeOf n
  if !nd.active then w
  else if nd.rel.isNone then
    let t := nd.tables.getD 0 0
    let tb := w.tableOf t
    w.setTable t { tb with rows := #[] }
  else
    nd.tables.toList.foldl (fun w t =>
      let tb := w.tableOf t
      if !tb.active then w
      else if !tb.target.isZero then w.removeTable t
      else w.setTable t { tb with rows := #[] }) w

/-- `World.Reset`. -/
def reset (w : World) : Res Unit :=
  if w.isLocked then w.fail .locked else
  let w := { w with index := w.index.extract 0 1, flags := w.flags.extract 0 1, pool := w.pool.reset,
                    locks := w.locks.reset, resources := w.resources.map (fun _ => none) }
  let w := (List.range w.nodes.size).foldl resetNode w
  { w := w, out := .ok () }

structure Dump where
  ents : Array Entity
  alive : List Nat
  next : Nat
  available : Nat
deriving Repr, Inhabited

/-- Entities in the order a `Query(All())` visits them. -/
def allInQueryOrder (w : World) : List Entity :=
  (w.matchingTables (.all 0)).flatMap (fun t => (w.tableOf t).rows.toList.map (·.ent))

/-- `World.DumpEntities` (takes and releases a lock through its internal query). -/
def dump (w : World) : Res Dump :=
  match w.lock with
  | none => w.fail .lockLimit
  | some (wl, b) =>
    let d : Dump := { ents := w.pool.ents, alive := (w.allInQueryOrder).map (·.id), next := w.pool.next, available := w.pool.available }
    { w := (wl.unlock b).getD wl, out := .ok d }

/-- `World.LoadEntities`. -/
def load (w : World) (d : Dump) : Res Unit :=
  if w.isLocked then w.fail .locked else
  if w.pool.ents.size > 1 || w.pool.available > 0 then w.fail .loadUsed else
  let w := { w with pool := { ents := d.ents, next := d.next, available := d.available },
                    index := Array.replicate d.ents.size none, flags := Array.replicate d.ents.size false }
  let w := d.alive.foldl (fun w idx =>
    let e := w.pool.ents.getD idx default
    let (w, r) := w.tableAlloc 0 e
    w.setIndex e.id (some ⟨0, r⟩)) w
  { w := w, out := .ok () }

/-! ### resources, registry -/

def resAdd (w : World) (r : Nat) (tok : Nat) : Res Unit :=
  if (w.resources.getD r none).isSome then w.fail .resDup
  else { w := { w with resources := w.resources.setIfInBounds r (some tok) }, out := .ok () }

def resRemove (w : World) (r : Nat) : Res Unit :=
  if (w.resources.getD r none).isNone then w.fail .resMissing
  else { w := { w with resources := w.resources.setIfInBounds r none }, out := .ok () }

def resGet (w : World) (r : Nat) : Option Nat := w.resources.getD r none
def resHas (w : World) (r : Nat) : Bool := (w.resources.getD r none).isSome

/-- `componentID` for a type not yet registered. -/
def registerComponent (w : World) (isRel zeroSized : Bool) : Res Nat :=
  if w.reg.count ≥ w.cfg.maskBits then w.fail .limit
  else if w.isLocked then w.fail .locked
  else
    let id := w.reg.count
    { w := { w with reg := { count := id + 1, isRel := Mask.set w.reg.isRel id isRel,
                             zeroSized := Mask.set w.reg.zeroSized id zeroSized } },
      out := .ok id }

def registerResource (w : World) : Res Nat :=
  if w.resCount ≥ w.cfg.maskBits then w.fail .limit
  else { w := { w with resCount := w.resCount + 1 }, out := .ok w.resCount }

/-- `fromConfig`. -/
def init (cfg : Config) : World :=
  let cfg := if cfg.relCapInc < 1 then { cfg with relCapInc := cfg.capInc } else cfg
  let w : World := { cfg := cfg, pool := Pool.init, index := #[none], flags := #[false], nodes := #[], tables := #[],
                     cache := #[], cacheNext := 0, locks := LockMask.init cfg.maskBits,
                     reg := { count := 0, isRel := 0, zeroSized := 0 },
                     resources := Array.replicate cfg.maskBits none, resCount := 0, listener := none }
  let (w, n) := w.createNode 0 none
  (w.createTable n Entity.zero false).1

end World
end Arche
