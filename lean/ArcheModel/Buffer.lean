/-
  ArcheModel.Buffer — one component column of a table as the Go code stores it
  (ecs/archetype.go): a buffer of `cap` slots of which the first `len` are in use. The value `0`
  stands for the zero value of the component type (no pointers, nothing referenced).
  `Alloc` / `AllocN` do not write the new slots (they rely on the slack being zero), `Remove`
  swap-removes and zeroes the vacated last slot, `Reset` zeroes the whole buffer, `extend`
  re-allocates and copies. The row model of ArcheModel.World (`rows : Array Row`, live rows only)
  is the abstraction `Col.live` of this model (see ArcheProofs.Props.C14).
-/
import ArcheModel.Basic
namespace Arche

structure Col where
  buf : Array Val
  len : Nat
deriving Repr, Inhabited

namespace Col
def empty : Col := { buf := #[], len := 0 }

/-- `capacityU32(size, inc)` -/
def capOf (size inc : Nat) : Nat :=
  let c := inc * (size / inc)
  if size % inc != 0 then c + inc else c

/-- `archetype.extend(by)`: a new zeroed buffer of the larger capacity with the old buffer
    copied to its front (`reflect.Copy` copies all of the old buffer) -/
def extend (c : Col) (capInc by_ : Nat) : Col :=
  let required := c.len + by_
  if c.buf.size ≥ required then c
  else { c with buf := c.buf ++ Array.replicate (capOf required capInc - c.buf.size) 0 }

/-- `archetype.Alloc`: the index of the new slot; the slot is not written -/
def alloc (c : Col) (capInc : Nat) : Col × Nat :=
  let c' := c.extend capInc 1
  ({ c' with len := c'.len + 1 }, c.len)

/-- `archetype.AllocN` -/
def allocN (c : Col) (capInc n : Nat) : Col :=
  let c' := c.extend capInc n
  { c' with len := c'.len + n }

/-- a write into a slot in use (`Set`, `SetPointer`, a write through the `Get` pointer) -/
def set (c : Col) (i : Nat) (v : Val) : Col := { c with buf := c.buf.setIfInBounds i v }

/-- `archetype.Remove(index)`: copy the last used slot over `index` (unless it is the last),
    zero the last used slot, shrink -/
def remove (c : Col) (i : Nat) : Col :=
  let old := c.len - 1
  let b := if i != old then c.buf.setIfInBounds i (c.buf.getD old 0) else c.buf
  { buf := b.setIfInBounds old 0, len := c.len - 1 }

/-- `archetype.Reset`: nothing for an empty table, else `len = 0` and the whole buffer zeroed -/
def reset (c : Col) : Col :=
  if c.len == 0 then c else { buf := Array.replicate c.buf.size 0, len := 0 }

/-- the slots in use -/
def live (c : Col) : Array Val := c.buf.extract 0 c.len
end Col
end Arche
