/-
  ArcheModel.Driver — the line protocol shared with the Go harness (DESIGN.md appendix D):
  one operation per line, one canonical result line per operation, event lines after it.
  The driver rejects what it cannot parse (`= bad-op`) and never defaults.
-/
import ArcheModel.Ops
namespace Arche

structure Sess where
  w : World
  handles : Array Entity := #[]
  queries : Array (Query × Bool) := #[]      -- query, positioned (cursor on an entity)
  cfilters : Array (Filter × Filter) := #[]  -- (cached filter value, original filter)
  dumps : Array World.Dump := #[]
  started : Bool := false
deriving Inhabited

/-! ### printing -/

def showEnt (e : Entity) : String := s!"{e.id}:{e.gen}"
def csv (l : List String) : String := ",".intercalate l
def showIds (l : List Nat) : String := csv (l.map toString)
def sortNat (l : List Nat) : List Nat := (l.toArray.qsort (· < ·)).toList
def b01 (b : Bool) : String := if b then "1" else "0"
def showOptId (o : Option Nat) : String := match o with | some i => toString i | none => "-"

def showDelivery (bits : Nat) (d : Delivery) : String :=
  let ev := d.ev
  s!"! {d.sub} {showEnt ev.entity} +{showIds (Mask.toList ev.added bits)} -{showIds (Mask.toList ev.removed bits)} a{showIds (sortNat ev.addedIDs)} r{showIds (sortNat ev.removedIDs)} {showOptId ev.oldRel} {showOptId ev.newRel} {showEnt ev.oldTarget} {ev.types} L{b01 d.locked} A{b01 d.alive} T{match d.curTarget with | some t => showEnt t | none => "-"} V[{csv (d.vals.map (fun (i, v) => s!"{i}={v}"))}]"

namespace World
def tableName (w : World) (t : Nat) : String :=
  let tb := w.tableOf t
  s!"{tb.node}.{tb.k}"

def entLt (a b : Entity) : Bool := a.id < b.id || (a.id == b.id && a.gen < b.gen)

def showTable (w : World) (t : Nat) : String :=
  let tb := w.tableOf t
  s!" t{tb.k}[tgt={showEnt tb.target} act={b01 tb.active} len={tb.rows.size} cap={tb.cap} ents={csv (tb.rows.toList.map (fun r => showEnt r.ent))}]"

def showNode (w : World) (n : Nat) : String :=
  let nd := w.nodeOf n
  let nb := (nd.nbrs.toArray.qsort (fun a b => a.1 < b.1)).toList.map (fun (c, x) => s!"{c}>{x}")
  let mp := if nd.rel.isSome then
      " map=" ++ csv ((nd.tmap.toArray.qsort (fun a b => entLt a.1 b.1)).toList.map (fun (e, t) => s!"{showEnt e}>{w.tableName t}"))
    else ""
  s!"node{n}[ids={showIds nd.ids} rel={showOptId nd.rel} act={b01 nd.active} inc={nd.capInc} nb={csv nb} free={showIds nd.free}{mp}{String.join (nd.tables.toList.map w.showTable)}] "

def showShape (w : World) (parts : String) : String :=
  let has (c : Char) := parts.contains c
  let p := if has 'p' then
      s!"pool next={w.pool.next} avail={w.pool.available} ents={csv (w.pool.ents.toList.map showEnt)} | " else ""
  let i := if has 'i' then
      "index n=" ++ toString w.index.size ++ String.join ((w.index.toList.zipIdx).map (fun (l, k) =>
        if k == 0 then "" else match l with
          | none => s!" {k}=-"
          | some l => s!" {k}={w.tableName l.tbl}.{l.row}")) ++ " | " else ""
  let f := if has 'f' then
      "flags" ++ String.join ((List.range w.index.size).map (fun k => if w.flag k then s!" {k}" else "")) ++ " | " else ""
  let n := if has 'n' then
      String.join ((List.range w.nodes.size).map w.showNode) ++ "| " else ""
  let c := if has 'c' then
      "cache" ++ String.join (w.cache.toList.map (fun e =>
        let idx := match e.indices with
          | none => "-"
          | some ix => csv ((ix.map (fun (p : Nat × Nat) => s!"{w.tableName p.1}:{p.2}")).toArray.qsort (· < ·)).toList
        s!" f{e.id}[{csv (e.archs.toList.map w.tableName)} idx={idx}]")) ++ " | " else ""
  let l := if has 'l' then
      "locks" ++ String.join ((Mask.toList w.locks.locks w.cfg.maskBits).map (fun b => s!" {b}")) ++
        s!" ; len={w.locks.pool.length} next={w.locks.pool.next} avail={w.locks.pool.available} bits={showIds ((w.locks.pool.bits.toList).take w.locks.pool.length)} | " else ""
  let s := p ++ i ++ f ++ n ++ c ++ l
  let s := if s.endsWith " " then (s.dropEnd 1).toString else s
  if s.endsWith " |" then (s.dropEnd 2).toString else s

/-- All alive entities (by index), with components, values and target. -/
def showSnapshot (w : World) : String :=
  " ".intercalate ((List.range w.index.size).filterMap (fun id =>
    if id == 0 then none else
    match w.index.getD id none with
    | none => none
    | some l =>
      let tb := w.tableOf l.tbl
      let row := tb.rows.getD l.row default
      let ids := w.tableIds l.tbl
      let cells := (ids.zip row.vals).map (fun (i, v) => s!"{i}={v}")
      let tg := if (w.tableRel l.tbl).isSome then showEnt tb.target else "-"
      some s!"{showEnt row.ent}[{csv cells}]>{tg}"))
end World

/-! ### parsing -/

abbrev P := StateT (List String) Option

def tok : P String := fun s => match s with | [] => none | t :: r => some (t, r)
def pNat : P Nat := do let t ← tok; match t.toNat? with | some n => pure n | none => failure
def pInt : P Int := do let t ← tok; match t.toInt? with | some n => pure n | none => failure
def pMany {α} (p : P α) : Nat → P (List α)
  | 0 => pure []
  | n + 1 => do let a ← p; let r ← pMany p n; pure (a :: r)
/-- a component id: must be registered (`< bound`), else the line is outside the protocol -/
def pComp (bound : Nat) : P Nat := do let i ← pNat; if i < bound then pure i else failure
def pIds (bound : Nat) : P (List Nat) := do let n ← pNat; pMany (pComp bound) n
def pPairs (bound : Nat) : P (List (Nat × Nat)) := do let n ← pNat; pMany (do let a ← pComp bound; let b ← pNat; pure (a, b)) n
def pEnd : P Unit := fun s => match s with | [] => some ((), []) | _ => none

/-- entity reference: `e<k>` (k-th handle issued), `e-` (zero), `E<id>:<gen>` (literal).
    `none` inside = dangling reference. -/
def pEnt (handles : Array Entity) : P (Option Entity) := do
  let t ← tok
  if t == "e-" then pure (some Entity.zero)
  else if t.startsWith "e" then
    match (t.drop 1).toString.toNat? with
    | some k => pure handles[k]?
    | none => failure
  else if t.startsWith "E" then
    match (t.drop 1).toString.splitOn ":" with
    | [a, b] => match a.toNat?, b.toNat? with
      | some i, some g => pure (some ⟨i, g⟩)
      | _, _ => failure
    | _ => failure
  else failure

/-- filters in prefix form; `none` inside = dangling reference. -/
partial def pFilter (s : Sess) : P (Option Filter) := do
  let t ← tok
  match t with
  | "A" => do let ids ← pIds s.w.reg.count; pure (some (.all (Mask.ofList ids)))
  | "W" => do let a ← pIds s.w.reg.count; let b ← pIds s.w.reg.count; pure (some (.maskF (Mask.ofList a) (Mask.ofList b)))
  | "X" => do let a ← pIds s.w.reg.count; pure (some (.maskF (Mask.ofList a) (Mask.notW (Mask.ofList a) s.w.cfg.maskBits)))
  | "R" => do
      let f ← pFilter s
      let e ← pEnt s.handles
      pure (do let f ← f; let e ← e; some (.rel f e))
  | "&" => do let l ← pFilter s; let r ← pFilter s; pure (do let l ← l; let r ← r; some (.and l r))
  | "|" => do let l ← pFilter s; let r ← pFilter s; pure (do let l ← l; let r ← r; some (.or l r))
  | "^" => do let l ← pFilter s; let r ← pFilter s; pure (do let l ← l; let r ← r; some (.xor l r))
  | "!" => do let f ← pFilter s; pure (f.map .not)
  | "ANY" => do let a ← pIds s.w.reg.count; pure (some (.any (Mask.ofList a)))
  | "NONE" => do let a ← pIds s.w.reg.count; pure (some (.noneOf (Mask.ofList a)))
  | "ANYNOT" => do let a ← pIds s.w.reg.count; pure (some (.anyNot (Mask.ofList a)))
  | "C" => do let k ← pNat; pure ((s.cfilters[k]?).map (·.1))
  | _ => failure

/-- optional relation id: `R <id>` or `-` -/
def pRel (bound : Nat) : P (Option Nat) := do
  let t ← tok
  if t == "-" then pure none else if t == "R" then (do let r ← pComp bound; pure (some r)) else failure

/-- optional target: `T <ent>` or `-`; outer none = absent, inner none = dangling -/
def pTarget (handles : Array Entity) : P (Option (Option Entity)) := do
  let t ← tok
  if t == "-" then pure none else if t == "T" then (do let e ← pEnt handles; pure (some e)) else failure

def pSub (bound : Nat) : P SubL := do
  let s ← pNat
  let t ← tok
  if t == "-" then pure ⟨s, none⟩
  else if t == "C" then (do let ids ← pIds bound; if ids.isEmpty then failure else pure ⟨s, some (Mask.ofList ids)⟩)
  else failure

/-! ### executing one line -/

structure StepOut where
  s : Sess
  lines : List String

def okLine (payload : String) : String := if payload.isEmpty then "= ok" else "= ok " ++ payload
def panicLine (p : Panic) : String := "= panic " ++ p.name

def finish {α} (s : Sess) (r : Res α) (k : Sess → α → Sess × String) : StepOut :=
  let bits := r.w.cfg.maskBits
  let evs := r.evs.map (showDelivery bits)
  match r.out with
  | .error p => { s := { s with w := r.w }, lines := panicLine p :: evs }
  | .ok a =>
    let (s', payload) := k { s with w := r.w } a
    { s := s', lines := okLine payload :: evs }

def badRef (s : Sess) : StepOut := { s := s, lines := ["= bad-ref"] }
def badOp (s : Sess) : StepOut := { s := s, lines := ["= bad-op"] }

def showVal (o : Option Val) : String := match o with | some v => toString v | none => "nil"

/-- sort new handles by id before appending them (the harness discovers them by scanning) -/
def addHandles (s : Sess) (es : List Entity) : Sess × String :=
  let es := (es.toArray.qsort (fun a b => a.id < b.id)).toList
  ({ s with handles := s.handles ++ es.toArray }, " ".intercalate (es.map showEnt))

def kindFlags (k : String) : Option (Bool × Bool) :=
  -- (isRelation, zeroSized)
  if k == "z" then some (false, true)
  else if k == "rel" then some (true, true)
  else if k == "relp" then some (true, false)
  else if k == "rel2" then some (false, false)
  else if k == "ns" then some (false, false)
  else if k == "ptr" then some (false, false)
  else if k.startsWith "b" then (match (k.drop 1).toString.toNat? with | some n => if n > 0 then some (false, false) else none | none => none)
  else none

/-- run a parser on the remaining tokens; `none` = syntax error -/
def runP {α} (p : P α) (toks : List String) : Option α :=
  match (do let a ← p; pEnd; pure a : P α) toks with
  | some (a, _) => some a
  | none => none

def withQuery (s : Sess) (k : Nat) (needPos : Bool) (f : Query → StepOut) : StepOut :=
  match s.queries[k]? with
  | none => badRef s
  | some (q, pos) => if q.closed || (needPos && !pos) then badRef s else f q

def setQuery (s : Sess) (k : Nat) (q : Query) (pos : Bool) : Sess :=
  { s with queries := s.queries.setIfInBounds k (q, pos) }

def curLoc (s : Sess) (q : Query) : Option (Nat × Nat) := q.cur.map (fun t => (t, q.entityIndex))

def execLine (s : Sess) (line : String) : StepOut :=
  let toks := (line.splitOn " ").filter (fun t => !t.isEmpty)
  match toks with
  | [] => { s := s, lines := [] }
  | cmd :: args =>
  if cmd.startsWith "#" then { s := s, lines := [] } else
  let w := s.w
  let H := s.handles
  let B := w.reg.count
  if cmd == "world" || cmd == "world+" then
    -- `world+` keeps the dumps taken so far (they are plain data and outlive their world)
    match runP (do let a ← pNat; let b ← pNat; let c ← pNat; pure (a, b, c)) args with
    | some (a, b, c) =>
      if a < 1 then { s := s, lines := ["= panic config"] } else
      { s := { w := World.init ⟨a, b, c⟩, started := true, dumps := if cmd == "world+" then s.dumps else #[] }, lines := [okLine ""] }
    | none => badOp s
  else if !s.started then badOp s
  else if cmd == "reg" then
    match args with
    | [k] => match kindFlags k with
      | some (r, z) => finish s (w.registerComponent r z) (fun s id => (s, s!"{id} rel={b01 (Mask.get s.w.reg.isRel id)} known=1 stable=1"))
      | none => badOp s
    | _ => badOp s
  else if cmd == "resreg" then
    match args with
    | [] => finish s w.registerResource (fun s id => (s, toString id))
    | _ => badOp s
  else if cmd == "new" then
    match runP (pIds B) args with
    | some ids => finish s (w.newEntity ids) (fun s e => ({ s with handles := s.handles.push e }, showEnt e))
    | none => badOp s
  else if cmd == "newv" then
    match runP (pPairs B) args with
    | some cs => finish s (w.newEntityWith cs) (fun s e => ({ s with handles := s.handles.push e }, showEnt e))
    | none => badOp s
  else if cmd == "bld" then
    -- bld <I n ids | V n (id val)…> <R id | -> <new|batch c|batchq c|add e> <T ent | ->
    let p : P _ := do
      let kind ← tok
      let comps ← (if kind == "I" then (do let ids ← pIds B; pure (ids.map (fun i => (i, 0)))) else if kind == "V" then pPairs B else failure)
      let rel ← pRel B
      let m ← tok
      let cnt ← (if m == "batch" || m == "batchq" then pInt else pure 0)
      let ent ← (if m == "add" then pEnt H else pure (some Entity.zero))
      let tg ← pTarget H
      pure (kind == "V", comps, rel, m, cnt, ent, tg)
    match runP p args with
    | none => badOp s
    | some (withVals, comps, rel, m, cnt, ent, tg) =>
      match ent, tg with
      | none, _ => badRef s
      | _, some none => badRef s
      | some ent, tg =>
        let tgo : Option Entity := tg.bind id
        -- `if len(target) > 0 && !b.hasRelation { panic }`
        if tgo.isSome && rel.isNone then { s := s, lines := [panicLine .builderNoRel] } else
        let ids := comps.map (·.1)
        if m == "new" then
          match tgo with
          | some t => finish s (w.newEntityTarget (rel.getD 0) t comps withVals) (fun s e => ({ s with handles := s.handles.push e }, showEnt e))
          | none =>
            finish s (if withVals then w.newEntityWith comps else w.newEntity ids) (fun s e => ({ s with handles := s.handles.push e }, showEnt e))
        else if m == "batch" then
          finish s (w.newEntities cnt (if tgo.isSome then rel else none) (tgo.getD Entity.zero) comps withVals)
            (fun s c => addHandles s c.ents)
        else if m == "batchq" then
          finish s (w.newEntitiesQuery cnt (if tgo.isSome then rel else none) (tgo.getD Entity.zero) comps withVals)
            (fun s (c, q) =>
              let (s, hs) := addHandles s c.ents
              ({ s with queries := s.queries.push (q, false) }, s!"q{s.queries.size} {hs}"))
        else if m == "add" then
          match tgo with
          | some t =>
            finish s (if withVals then w.assign ent rel t comps else w.exchange ent ids [] rel t) (fun s _ => (s, ""))
          | none =>
            finish s (if withVals then w.assign ent none Entity.zero comps else w.exchange ent ids [] none Entity.zero) (fun s _ => (s, ""))
        else badOp s
  else if cmd == "rm" then
    match runP (pEnt H) args with
    | some (some e) => finish s (w.removeEntity e) (fun s _ => (s, ""))
    | some none => badRef s
    | none => badOp s
  else if cmd == "add" || cmd == "rem" then
    match runP (do let e ← pEnt H; let ids ← pIds B; pure (e, ids)) args with
    | some (some e, ids) =>
      finish s (if cmd == "add" then w.exchange e ids [] none Entity.zero else w.exchange e [] ids none Entity.zero) (fun s _ => (s, ""))
    | some (none, _) => badRef s
    | none => badOp s
  else if cmd == "xchg" then
    match runP (do let e ← pEnt H; let a ← pIds B; let r ← pIds B; pure (e, a, r)) args with
    | some (some e, a, r) => finish s (w.exchange e a r none Entity.zero) (fun s _ => (s, ""))
    | some (none, _, _) => badRef s
    | none => badOp s
  else if cmd == "relxchg" then
    match runP (do let e ← pEnt H; let a ← pIds B; let r ← pIds B; let rl ← pComp B; let t ← pEnt H; pure (e, a, r, rl, t)) args with
    | some (some e, a, r, rl, some t) => finish s (w.exchange e a r (some rl) t) (fun s _ => (s, ""))
    | some _ => badRef s
    | none => badOp s
  else if cmd == "assign" then
    match runP (do let e ← pEnt H; let cs ← pPairs B; pure (e, cs)) args with
    | some (some e, cs) => finish s (w.assign e none Entity.zero cs) (fun s _ => (s, ""))
    | some (none, _) => badRef s
    | none => badOp s
  else if cmd == "set" then
    match runP (do let e ← pEnt H; let i ← pComp B; let v ← pNat; pure (e, i, v)) args with
    | some (some e, i, v) =>
      let (w', p) := w.copyTo e i v
      (match p with
       | some p => { s := { s with w := w' }, lines := [panicLine p] }
       | none => { s := { s with w := w' }, lines := [okLine ""] })
    | some (none, _, _) => badRef s
    | none => badOp s
  else if cmd == "write" then
    -- write through the pointer returned by World.Get
    match runP (do let e ← pEnt H; let i ← pComp B; let v ← pNat; pure (e, i, v)) args with
    | some (some e, i, v) =>
      (match w.checkAlive e with
       | some p => { s := s, lines := [panicLine p] }
       | none =>
         let l := w.locOf e
         match w.cell l.tbl l.row i with
         | none => { s := s, lines := [okLine "nil"] }
         | some _ => { s := { s with w := w.setCell l.tbl l.row i v }, lines := [okLine ""] })
    | some (none, _, _) => badRef s
    | none => badOp s
  else if cmd == "get" || cmd == "has" then
    match runP (do let e ← pEnt H; let i ← pComp B; pure (e, i)) args with
    | some (some e, i) =>
      (match w.checkAlive e with
       | some p => { s := s, lines := [panicLine p] }
       | none =>
         let l := w.locOf e
         if cmd == "get" then { s := s, lines := [okLine (showVal (w.cell l.tbl l.row i))] }
         else { s := s, lines := [okLine (b01 (Mask.get (w.tableMask l.tbl) i))] })
    | some (none, _) => badRef s
    | none => badOp s
  else if cmd == "mask" || cmd == "ids" then
    match runP (pEnt H) args with
    | some (some e) =>
      (match w.checkAlive e with
       | some p => { s := s, lines := [panicLine p] }
       | none => { s := s, lines := [okLine (showIds (w.tableIds (w.locOf e).tbl))] })
    | some none => badRef s
    | none => badOp s
  else if cmd == "alive" then
    match runP (pEnt H) args with
    | some (some e) =>
      (match w.pool.alive? e with
       | none => { s := s, lines := [panicLine .crash] }
       | some b => { s := s, lines := [okLine (b01 b)] })
    | some none => badRef s
    | none => badOp s
  else if cmd == "json" then
    match runP (pEnt H) args with
    | some (some e) => { s := s, lines := [okLine (showEnt e)] }
    | some none => badRef s
    | none => badOp s
  else if cmd == "setgen" then
    -- hook: set the generation of a pool slot (to reach the uint32 wrap-around quickly)
    match runP (do let i ← pNat; let g ← pNat; pure (i, g)) args with
    | some (i, g) =>
      if i < w.pool.ents.size then
        let sl := w.pool.ents.getD i default
        { s := { s with w := { w with pool := { w.pool with ents := w.pool.ents.setIfInBounds i { sl with gen := g } } } }, lines := [okLine ""] }
      else badRef s
    | none => badOp s
  else if cmd == "relget" then
    match runP (do let e ← pEnt H; let r ← pComp B; pure (e, r)) args with
    | some (some e, r) => finish s (w.getRelation e r) (fun s t => (s, showEnt t))
    | some (none, _) => badRef s
    | none => badOp s
  else if cmd == "hasu" || cmd == "getu" || cmd == "relu" then
    -- the unchecked accessors: no liveness check; a removed entity's slot holds no table (nil dereference in Go),
    -- an id beyond the index is an index panic, a recycled id answers for its current occupant
    match runP (do let e ← pEnt H; let i ← pComp B; pure (e, i)) args with
    | some (some e, i) =>
      (match w.index.getD e.id none with
       | none => { s := s, lines := [panicLine .crash] }
       | some l =>
         if cmd == "hasu" then { s := s, lines := [okLine (b01 (Mask.get (w.tableMask l.tbl) i))] }
         else if cmd == "getu" then { s := s, lines := [okLine (showVal (w.cell l.tbl l.row i))] }
         else { s := s, lines := [okLine (showEnt (w.tableOf l.tbl).target)] })
    | some (none, _) => badRef s
    | none => badOp s
  else if cmd == "relset" then
    match runP (do let e ← pEnt H; let r ← pComp B; let t ← pEnt H; pure (e, r, t)) args with
    | some (some e, r, some t) => finish s (w.setRelation e r t) (fun s _ => (s, ""))
    | some _ => badRef s
    | none => badOp s
  else if cmd == "b_xchg" || cmd == "b_xchgq" || cmd == "b_add" || cmd == "b_addq" || cmd == "b_rem" || cmd == "b_remq" then
    let p : P _ := do
      let f ← pFilter s
      let a ← (if cmd.startsWith "b_rem" then pure [] else pIds B)
      let r ← (if cmd.startsWith "b_add" then pure [] else pIds B)
      pure (f, a, r)
    match runP p args with
    | some (some f, a, r) =>
      if cmd.endsWith "q" then
        finish s (w.exchangeBatchQuery f a r none Entity.zero) (fun s q => ({ s with queries := s.queries.push (q, false) }, s!"q{s.queries.size}"))
      else finish s (w.exchangeBatch f a r none Entity.zero) (fun s n => (s, toString n))
    | some (none, _, _) => badRef s
    | none => badOp s
  else if cmd == "rb_xchg" || cmd == "rb_xchgq" then
    match runP (do let f ← pFilter s; let a ← pIds B; let r ← pIds B; let rl ← pComp B; let t ← pEnt H; pure (f, a, r, rl, t)) args with
    | some (some f, a, r, rl, some t) =>
      if cmd.endsWith "q" then
        finish s (w.exchangeBatchQuery f a r (some rl) t) (fun s q => ({ s with queries := s.queries.push (q, false) }, s!"q{s.queries.size}"))
      else finish s (w.exchangeBatch f a r (some rl) t) (fun s n => (s, toString n))
    | some _ => badRef s
    | none => badOp s
  else if cmd == "b_setrel" || cmd == "b_setrelq" || cmd == "rb_set" || cmd == "rb_setq" then
    match runP (do let f ← pFilter s; let rl ← pComp B; let t ← pEnt H; pure (f, rl, t)) args with
    | some (some f, rl, some t) =>
      if cmd.endsWith "q" then
        finish s (w.setRelationBatchQuery f rl t) (fun s q => ({ s with queries := s.queries.push (q, false) }, s!"q{s.queries.size}"))
      else finish s (w.setRelationBatch f rl t) (fun s n => (s, toString n))
    | some _ => badRef s
    | none => badOp s
  else if cmd == "b_rment" then
    match runP (pFilter s) args with
    | some (some f) => finish s (w.removeEntities f) (fun s n => (s, toString n))
    | some none => badRef s
    | none => badOp s
  else if cmd == "creg" then
    match runP (pFilter s) args with
    | some (some f) => finish s (w.cacheRegister f) (fun s cf => ({ s with cfilters := s.cfilters.push (cf, f) }, s!"c{s.cfilters.size}"))
    | some none => badRef s
    | none => badOp s
  else if cmd == "cunreg" then
    match runP pNat args with
    | some k =>
      (match s.cfilters[k]? with
       | some (.cached _ id, orig) => finish s (w.cacheUnregister id) (fun s f => (s, if f == orig then "same" else "different"))
       | _ => badRef s)
    | none => badOp s
  else if cmd == "q" then
    match runP (pFilter s) args with
    | some (some f) => finish s (w.query f) (fun s q => ({ s with queries := s.queries.push (q, false) }, s!"q{s.queries.size}"))
    | some none => badRef s
    | none => badOp s
  else if cmd == "qall" then
    -- open a query, iterate it to exhaustion with Next, print the entities visited
    match runP (pFilter s) args with
    | some (some f) =>
      let r := w.query f
      (match r.out with
       | .error p => { s := { s with w := r.w }, lines := [panicLine p] }
       | .ok q =>
         let rec loop (fuel : Nat) (w : World) (q : Query) (acc : List Entity) : World × List Entity × Option Panic :=
           match fuel with
           | 0 => (w, acc, some .crash)
           | fuel + 1 =>
             let r := w.queryNext q
             match r.out with
             | .error p => (r.w, acc, some p)
             | .ok (q', true) => loop fuel r.w q' (q'.entity r.w :: acc)
             | .ok (_, false) => (r.w, acc, none)
         let (w', acc, p) := loop (w.index.size + w.tables.size + w.nodes.size + 2) r.w q []
         match p with
         | some p => { s := { s with w := w' }, lines := [panicLine p] }
         | none => { s := { s with w := w' }, lines := [okLine (s!"{acc.length} agree=1 " ++ " ".intercalate (acc.reverse.map showEnt))] })
    | some none => badRef s
    | none => badOp s
  else if cmd == "qn" then
    match runP pNat args with
    | some k => withQuery s k false (fun q =>
        finish s (w.queryNext q) (fun s (q', ok) =>
          (setQuery s k q' ok, if ok then s!"1 {showEnt (q'.entity s.w)}" else "0")))
    | none => badOp s
  else if cmd == "qs" then
    match runP (do let k ← pNat; let n ← pInt; pure (k, n)) args with
    | some (k, n) => withQuery s k false (fun q =>
        finish s (w.queryStep q n) (fun s (q', ok) =>
          (setQuery s k q' ok, if ok then s!"1 {showEnt (q'.entity s.w)}" else "0")))
    | none => badOp s
  else if cmd == "qc" then
    match runP pNat args with
    | some k => withQuery s k false (fun q =>
        let (q', c) := w.queryCount q
        { s := setQuery s k q' ((s.queries.getD k default).2), lines := [okLine (toString c)] })
    | none => badOp s
  else if cmd == "qa" then
    match runP (do let k ← pNat; let i ← pInt; pure (k, i)) args with
    | some (k, i) => withQuery s k false (fun q =>
        match w.queryEntityAt q i with
        | .ok e => { s := s, lines := [okLine (showEnt e)] }
        | .error p => { s := s, lines := [panicLine p] })
    | none => badOp s
  else if cmd == "qe" then
    match runP pNat args with
    | some k => withQuery s k true (fun q => { s := s, lines := [okLine (showEnt (q.entity w))] })
    | none => badOp s
  else if cmd == "qh" || cmd == "qg" then
    match runP (do let k ← pNat; let i ← pComp B; pure (k, i)) args with
    | some (k, i) => withQuery s k true (fun q =>
        match curLoc s q with
        | none => badRef s
        | some (t, r) =>
          if cmd == "qh" then { s := s, lines := [okLine (b01 (Mask.get (w.tableMask t) i))] }
          else { s := s, lines := [okLine (showVal (w.cell t r i))] })
    | none => badOp s
  else if cmd == "qm" || cmd == "qi" then
    match runP pNat args with
    | some k => withQuery s k true (fun q =>
        match q.cur with
        | none => badRef s
        | some t => { s := s, lines := [okLine (showIds (w.tableIds t))] })
    | none => badOp s
  else if cmd == "qr" then
    match runP (do let k ← pNat; let r ← pComp B; pure (k, r)) args with
    | some (k, r) => withQuery s k true (fun q =>
        match w.queryRelation q r with
        | .ok e => { s := s, lines := [okLine (showEnt e)] }
        | .error p => { s := s, lines := [panicLine p] })
    | none => badOp s
  else if cmd == "qw" then
    match runP (do let k ← pNat; let i ← pComp B; let v ← pNat; pure (k, i, v)) args with
    | some (k, i, v) => withQuery s k true (fun q =>
        match curLoc s q with
        | none => badRef s
        | some (t, r) =>
          match w.cell t r i with
          | none => { s := s, lines := [okLine "nil"] }
          | some _ => { s := { s with w := w.setCell t r i v }, lines := [okLine ""] })
    | none => badOp s
  else if cmd == "qx" then
    match runP pNat args with
    | some k => withQuery s k false (fun q =>
        finish s (w.closeQuery q) (fun s q' => (setQuery s k q' false, "")))
    | none => badOp s
  else if cmd == "gc" then { s := s, lines := [okLine ""] }
  else if cmd == "snapshot" then { s := s, lines := [okLine w.showSnapshot] }
  else if cmd == "shape" then
    match args with
    | [p] => { s := s, lines := [okLine (w.showShape p)] }
    | _ => badOp s
  else if cmd == "inv" then { s := s, lines := [okLine ""] }
  else if cmd == "locked" then { s := s, lines := [okLine (b01 w.isLocked)] }
  else if cmd == "stats" then
    let activeNodes := (w.nodes.toList.filter (·.active)).length
    { s := s, lines := [okLine s!"used={w.pool.len} recycled={w.pool.available} total={w.pool.ents.size - 1} nodes={activeNodes} filters={w.cache.size}"] }
  else if cmd == "reset" then finish s w.reset (fun s _ => (s, ""))
  else if cmd == "dump" then
    finish s w.dump (fun s d =>
      ({ s with dumps := s.dumps.push d },
       s!"d{s.dumps.size} next={d.next} avail={d.available} ents={csv (d.ents.toList.map showEnt)} alive={showIds d.alive}"))
  else if cmd == "load" then
    -- `load k [json]`: with `json` the implementation passes the dump through encoding/json
    -- first, which must be the identity on dumps
    match runP pNat (if args.getLast? == some "json" then args.dropLast else args) with
    | some k => (match s.dumps[k]? with
      | some d => finish s (w.load d) (fun s _ => (s, ""))
      | none => badRef s)
    | none => badOp s
  else if cmd == "resadd" then
    match runP (do let r ← pNat; let t ← pNat; pure (r, t)) args with
    | some (r, t) => if r < w.resCount then finish s (w.resAdd r t) (fun s _ => (s, "")) else badRef s
    | none => badOp s
  else if cmd == "resrem" then
    match runP pNat args with
    | some r => if r < w.resCount then finish s (w.resRemove r) (fun s _ => (s, "")) else badRef s
    | none => badOp s
  else if cmd == "resget" then
    match runP pNat args with
    | some r => if r < w.resCount then { s := s, lines := [okLine (showVal (w.resGet r))] } else badRef s
    | none => badOp s
  else if cmd == "reslook" then
    match runP pNat args with
    | some r => if r < w.resCount then { s := s, lines := [okLine s!"{r} n={w.resCount} type=true"] } else badRef s
    | none => badOp s
  else if cmd == "reshas" then
    match runP pNat args with
    | some r => if r < w.resCount then { s := s, lines := [okLine (b01 (w.resHas r))] } else badRef s
    | none => badOp s
  else if cmd == "lst" then
    match runP (pSub B) args with
    | some l => { s := { s with w := { w with listener := some (.single l) } }, lines := [okLine ""] }
    | none => badOp s
  else if cmd == "nolst" then { s := { s with w := { w with listener := none } }, lines := [okLine ""] }
  else if cmd == "disp" then
    match runP (do let n ← pNat; pMany (pSub B) n) args with
    | some ls => { s := { s with w := { w with listener := some (.dispatch ls) } }, lines := [okLine ""] }
    | none => badOp s
  else if cmd == "dispadd" then
    match runP (pSub B) args with
    | some l =>
      (match w.listener with
       | some (.dispatch ls) => { s := { s with w := { w with listener := some (.dispatch (ls ++ [l])) } }, lines := [okLine ""] }
       | _ => badRef s)
    | none => badOp s
  else badOp s

end Arche
