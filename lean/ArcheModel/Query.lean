/-
  ArcheModel.Query — the query iterator as a state machine (ecs/query.go), for its three
  strategies: walking the node list, a cached table list, and batch ranges.
  Index fields are shifted by one w.r.t. Go (`nodeNext = nodeIndex + 1`,
  `archNext = archIndex + 1`) so that they are naturals; everything else is field for field.
-/
import ArcheModel.Events
namespace Arche

structure BatchEntry where
  tbl : Nat
  old : Option Nat
  start : Nat
  stop : Nat
deriving Repr, Inhabited, DecidableEq

inductive QMode where
  | nodes | cached | batch
deriving Repr, Inhabited, DecidableEq

structure Query where
  mode : QMode
  filter : Filter := .all 0
  nodeCount : Nat := 0                    -- len(q.nodes)
  tlist : Array Nat := #[]                -- q.archetypes (cached)
  batch : Array BatchEntry := #[]         -- batchArchetypes
  added : List CompId := []
  removedIds : List CompId := []
  nodeArches : Option (Array Nat) := none -- q.nodeArchetypes in node mode (none = nil)
  nodeNext : Nat := 0
  archNext : Nat := 0
  cur : Option Nat := none                -- q.archetype / q.access
  entityIndex : Nat := 0
  entityIndexMax : Nat := 0
  count : Option Nat := none
  lockBit : Nat := 0
  closed : Bool := false
deriving Repr, Inhabited

namespace Query

/-- first position `j ≥ i` of `ts` whose table is non-empty -/
def firstNonEmpty (w : World) (ts : Array Nat) (i : Nat) : Option Nat :=
  if h : i < ts.size then
    if (w.tableOf ts[i]).rows.size > 0 then some i else firstNonEmpty w ts (i + 1)
  else none
termination_by ts.size - i

/-- `nextArchetypeSimple` / the loop of `nextArchetypeFiltered`. -/
def advanceIn (w : World) (q : Query) (ts : Array Nat) : Option Query :=
  match firstNonEmpty w ts q.archNext with
  | some j =>
    let t := ts.getD j 0
    some { q with archNext := j + 1, cur := some t, entityIndex := 0, entityIndexMax := (w.tableOf t).rows.size - 1 }
  | none => none

def firstBatch (w : World) (b : Array BatchEntry) (i : Nat) : Option Nat :=
  if h : i < b.size then
    if (w.tableOf b[i].tbl).rows.size > 0 then some i else firstBatch w b (i + 1)
  else none
termination_by b.size - i

/-- What `nextNode` decides for node `n`: the table to iterate directly, or the node's table
    list to walk, or skip. -/
inductive NodeChoice where
  | skip
  | single (t : Nat)
  | list (ts : Array Nat)

def nodeChoice (w : World) (f : Filter) (n : Nat) : NodeChoice :=
  let nd := w.nodeOf n
  if !nd.active || !f.sat nd.mask then .skip
  else if nd.rel.isNone then
    let t := nd.tables.getD 0 0
    if (w.tableOf t).rows.size > 0 then .single t else .skip
  else match f.relTarget? with
    | some tg =>
      match assocGet nd.tmap tg with
      | some t => if (w.tableOf t).rows.size > 0 then .single t else .skip
      | none => .skip
    | none => .list nd.tables

/-- `nextNode`: `none` = exhausted. -/
def nextNode (w : World) (q : Query) (n : Nat) : Option Query :=
  if _h : n < q.nodeCount then
    match nodeChoice w q.filter n with
    | .skip => nextNode w q (n + 1)
    | .single t =>
      some { q with nodeNext := n + 1, nodeArches := none, archNext := 0, cur := some t,
                    entityIndex := 0, entityIndexMax := (w.tableOf t).rows.size - 1 }
    | .list ts =>
      let q' := { q with nodeNext := n + 1, nodeArches := some ts, archNext := 0, cur := none,
                         entityIndex := 0, entityIndexMax := 0 }
      match advanceIn w q' ts with
      | some q'' => some q''
      | none => nextNode w q' (n + 1)
  else none
termination_by q.nodeCount - n
decreasing_by all_goals simp_wf; all_goals omega

/-- `nextArchetype` without the closing side effect: `none` = exhausted (caller closes). -/
def nextArchetype (w : World) (q : Query) : Option Query :=
  match q.mode with
  | .cached => advanceIn w q q.tlist
  | .batch =>
    match firstBatch w q.batch q.archNext with
    | some j =>
      let b := q.batch.getD j default
      some { q with archNext := j + 1, cur := some b.tbl, entityIndex := b.start, entityIndexMax := b.stop - 1 }
    | none => none
  | .nodes =>
    match q.nodeArches with
    | some ts =>
      match advanceIn w q ts with
      | some q' => some q'
      | none => nextNode w q q.nodeNext
    | none => nextNode w q q.nodeNext

/-- `countEntities`. -/
def countEntities (w : World) (q : Query) : Nat :=
  match q.mode with
  | .cached => (q.tlist.toList.map (fun t => (w.tableOf t).rows.size)).sum
  | .batch => (q.batch.toList.map (fun b => b.stop - b.start)).sum
  | .nodes =>
    ((List.range q.nodeCount).map (fun n =>
      let nd := w.nodeOf n
      if !nd.active || !q.filter.sat nd.mask then 0
      else if nd.rel.isNone then (w.tableOf (nd.tables.getD 0 0)).rows.size
      else match q.filter.relTarget? with
        | some tg => (match assocGet nd.tmap tg with | some t => (w.tableOf t).rows.size | none => 0)
        | none => (nd.tables.toList.map (fun t => (w.tableOf t).rows.size)).sum)).sum

/-- The (table, first row, length) ranges a query covers, in iteration order, as used by
    `entityAt` (empty ranges included). -/
def ranges (w : World) (q : Query) : List (Nat × Nat × Nat) :=
  match q.mode with
  | .cached => q.tlist.toList.map (fun t => (t, 0, (w.tableOf t).rows.size))
  | .batch => q.batch.toList.map (fun b => (b.tbl, b.start, b.stop - b.start))
  | .nodes =>
    (List.range q.nodeCount).flatMap (fun n =>
      let nd := w.nodeOf n
      if !nd.active || !q.filter.sat nd.mask then []
      else if nd.rel.isNone then
        let t := nd.tables.getD 0 0
        [(t, 0, (w.tableOf t).rows.size)]
      else match q.filter.relTarget? with
        | some tg => (match assocGet nd.tmap tg with | some t => [(t, 0, (w.tableOf t).rows.size)] | none => [])
        | none => nd.tables.toList.map (fun t => (t, 0, (w.tableOf t).rows.size)))

/-- `entityAt(index)` for `index ≥ 0`: walk the ranges. `none` = panic out of range. -/
def entityAtIn (w : World) : List (Nat × Nat × Nat) → Nat → Option Entity
  | [], _ => none
  | (t, s, ln) :: rest, idx =>
    if idx < ln then some ((w.tableOf t).getEntity (s + idx)) else entityAtIn w rest (idx - ln)

def entityAt (w : World) (q : Query) (idx : Nat) : Option Entity := entityAtIn w (ranges w q) idx

/-- The entity under the cursor (`Query.Entity`). -/
def entity (w : World) (q : Query) : Entity :=
  match q.cur with
  | some t => (w.tableOf t).getEntity q.entityIndex
  | none => Entity.zero

end Query
end Arche
