/-
  gencheck — evaluates the *regenerated* definitions (ArcheGen.Build256 / Build64 / Arith) on
  inputs given one per line, so that the harness can compare them with the Go functions they
  were translated from (validation of the translator, and the failing-input search for C04/C12/C16).
-/
import ArcheGen.Build256
import ArcheGen.Build64
import ArcheGen.Arith
open ArcheGen

def parseIds (s : String) : List (BitVec 8) :=
  ((s.splitOn ",").filter (fun t => !t.isEmpty)).filterMap (fun t => t.toNat?.map (fun n => BitVec.ofNat 8 n))

def b01 (b : Bool) : String := if b then "1" else "0"

namespace G256
open ArcheGen.M256
def members (m : Mask) : String :=
  ",".intercalate (((List.range 256).filter (fun i => m.Get (BitVec.ofNat 8 i))).map toString)
def optMask (s : String) : Option Mask := if s == "nil" then none else some (All (parseIds s))
def optId (s : String) : Option (BitVec 8) := if s == "nil" then none else s.toNat?.map (BitVec.ofNat 8)
partial def parseF (toks : List String) : Option (F × List String) :=
  match toks with
  | "A" :: ids :: r => some (.mask (All (parseIds ids)), r)
  | "W" :: a :: b :: r => some (.maskFilter ((All (parseIds a)).Without (parseIds b)), r)
  | "X" :: a :: r => some (.maskFilter (All (parseIds a)).Exclusive, r)
  | "ANY" :: a :: r => some (.ANY (All (parseIds a)), r)
  | "NONE" :: a :: r => some (.NoneOF (All (parseIds a)), r)
  | "ANYNOT" :: a :: r => some (.AnyNOT (All (parseIds a)), r)
  | "&" :: r => do let (l, r) ← parseF r; let (x, r) ← parseF r; some (.AND l x, r)
  | "|" :: r => do let (l, r) ← parseF r; let (x, r) ← parseF r; some (.OR l x, r)
  | "^" :: r => do let (l, r) ← parseF r; let (x, r) ← parseF r; some (.XOR l x, r)
  | "!" :: r => do let (l, r) ← parseF r; some (.NOT l, r)
  | _ => none
def exec (toks : List String) : String :=
  match toks with
  | ["get", a, i] => b01 ((All (parseIds a)).Get (BitVec.ofNat 8 i.toNat!))
  | ["set", a, i, v] => members ((All (parseIds a)).Set (BitVec.ofNat 8 i.toNat!) (v == "1"))
  | ["not", a] => members (All (parseIds a)).Not
  | ["and", a, b] => members ((All (parseIds a)).And (All (parseIds b)))
  | ["or", a, b] => members ((All (parseIds a)).Or (All (parseIds b)))
  | ["xor", a, b] => members ((All (parseIds a)).Xor (All (parseIds b)))
  | ["contains", a, b] => b01 ((All (parseIds a)).Contains (All (parseIds b)))
  | ["containsany", a, b] => b01 ((All (parseIds a)).ContainsAny (All (parseIds b)))
  | ["iszero", a] => b01 (All (parseIds a)).IsZero
  | ["reset", a] => members (All (parseIds a)).Reset
  | ["total", a] => toString (All (parseIds a)).TotalBitsSet
  | ["all", a] => members (All (parseIds a))
  | ["subscription", a, b, c, d, e, f] => toString (subscription (a == "1") (b == "1") (c == "1") (d == "1") (e == "1") (f == "1")).toNat
  | ["subscribes", t, ad, rm, su, o, n] =>
      b01 (subscribes (BitVec.ofNat 8 t.toNat!) (optMask ad) (optMask rm) (optMask su) (optId o) (optId n))
  | ["lsubscribes", t, ad, rm, su, o, n] =>
      b01 (listener.subscribes (BitVec.ofNat 8 t.toNat!) (optMask ad) (optMask rm) (optMask su) (optId o) (optId n))
  | "matches" :: bits :: rest =>
      (match parseF rest with
       | some (f, []) => b01 (F.Matches f (All (parseIds bits)))
       | _ => "bad-op")
  | _ => "bad-op"
end G256

namespace G64
open ArcheGen.M64
def members (m : Mask) : String :=
  ",".intercalate (((List.range 64).filter (fun i => m.Get (BitVec.ofNat 8 i))).map toString)
def optMask (s : String) : Option Mask := if s == "nil" then none else some (All (parseIds s))
def optId (s : String) : Option (BitVec 8) := if s == "nil" then none else s.toNat?.map (BitVec.ofNat 8)
partial def parseF (toks : List String) : Option (F × List String) :=
  match toks with
  | "A" :: ids :: r => some (.mask (All (parseIds ids)), r)
  | "W" :: a :: b :: r => some (.maskFilter ((All (parseIds a)).Without (parseIds b)), r)
  | "X" :: a :: r => some (.maskFilter (All (parseIds a)).Exclusive, r)
  | "ANY" :: a :: r => some (.ANY (All (parseIds a)), r)
  | "NONE" :: a :: r => some (.NoneOF (All (parseIds a)), r)
  | "ANYNOT" :: a :: r => some (.AnyNOT (All (parseIds a)), r)
  | "&" :: r => do let (l, r) ← parseF r; let (x, r) ← parseF r; some (.AND l x, r)
  | "|" :: r => do let (l, r) ← parseF r; let (x, r) ← parseF r; some (.OR l x, r)
  | "^" :: r => do let (l, r) ← parseF r; let (x, r) ← parseF r; some (.XOR l x, r)
  | "!" :: r => do let (l, r) ← parseF r; some (.NOT l, r)
  | _ => none
def exec (toks : List String) : String :=
  match toks with
  | ["get", a, i] => b01 ((All (parseIds a)).Get (BitVec.ofNat 8 i.toNat!))
  | ["set", a, i, v] => members ((All (parseIds a)).Set (BitVec.ofNat 8 i.toNat!) (v == "1"))
  | ["not", a] => members (All (parseIds a)).Not
  | ["and", a, b] => members ((All (parseIds a)).And (All (parseIds b)))
  | ["or", a, b] => members ((All (parseIds a)).Or (All (parseIds b)))
  | ["xor", a, b] => members ((All (parseIds a)).Xor (All (parseIds b)))
  | ["contains", a, b] => b01 ((All (parseIds a)).Contains (All (parseIds b)))
  | ["containsany", a, b] => b01 ((All (parseIds a)).ContainsAny (All (parseIds b)))
  | ["iszero", a] => b01 (All (parseIds a)).IsZero
  | ["reset", a] => members (All (parseIds a)).Reset
  | ["total", a] => toString (All (parseIds a)).TotalBitsSet
  | ["all", a] => members (All (parseIds a))
  | ["subscription", a, b, c, d, e, f] => toString (subscription (a == "1") (b == "1") (c == "1") (d == "1") (e == "1") (f == "1")).toNat
  | ["subscribes", t, ad, rm, su, o, n] =>
      b01 (subscribes (BitVec.ofNat 8 t.toNat!) (optMask ad) (optMask rm) (optMask su) (optId o) (optId n))
  | ["lsubscribes", t, ad, rm, su, o, n] =>
      b01 (listener.subscribes (BitVec.ofNat 8 t.toNat!) (optMask ad) (optMask rm) (optMask su) (optId o) (optId n))
  | "matches" :: bits :: rest =>
      (match parseF rest with
       | some (f, []) => b01 (F.Matches f (All (parseIds bits)))
       | _ => "bad-op")
  | _ => "bad-op"
end G64

def execArith (toks : List String) : Option String :=
  match toks with
  | ["capacity", a, b] => some (toString (Arith.capacity a.toInt! b.toInt!))
  | ["capacitynz", a, b] => some (toString (Arith.capacityNonZero a.toInt! b.toInt!))
  | ["capacityu32", a, b] => some (toString (Arith.capacityU32 (BitVec.ofNat 32 a.toNat!) (BitVec.ofNat 32 b.toNat!)).toNat)
  | _ => none

partial def loop (h out : IO.FS.Stream) (tiny : Bool) : IO Unit := do
  let line ← h.getLine
  if line.isEmpty then return ()
  let toks := (line.trimAscii.toString.splitOn " ").filter (fun t => !t.isEmpty)
  if !toks.isEmpty then
    match execArith toks with
    | some r => out.putStrLn r
    | none => out.putStrLn (if tiny then G64.exec toks else G256.exec toks)
  loop h out tiny

def main (args : List String) : IO Unit := do
  let stdin ← IO.getStdin
  let stdout ← IO.getStdout
  loop stdin stdout (args == ["64"])
  stdout.flush
