/-
  Audit: lists every theorem of the property modules `ArcheProofs.Props.*` together with the
  axioms it depends on. Run with `lake env lean Audit.lean`; output lines
  `THM <module> <theorem> <axioms…>` are parsed by bin/check.
-/
import Lean
import ArcheProofs
open Lean

#eval show CoreM Unit from do
  let env ← getEnv
  let mods := env.header.moduleNames
  for i in [0:mods.size] do
    let m := mods[i]!
    if (`ArcheProofs.Props).isPrefixOf m then
      let md := env.header.moduleData[i]!
      for n in md.constNames do
        if n.isInternal then continue
        match env.find? n with
        | some (.thmInfo _) =>
          let ax ← collectAxioms n
          IO.println s!"THM {m} {n} {" ".intercalate (ax.toList.map toString)}"
        | _ => pure ()
