import ArcheGen.Build256
import ArcheGen.Build64
import ArcheGen.Arith
import ArcheGen.Facts
import ArcheGen.Pool256
import ArcheGen.Pool64
import ArcheGen.Lst256
import ArcheGen.Lst64
