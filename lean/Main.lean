import ArcheModel.Driver
open Arche

partial def loop (h : IO.FS.Stream) (out : IO.FS.Stream) (s : Sess) : IO Unit := do
  let line ← h.getLine
  if line.isEmpty then return ()
  let r := execLine s (line.trimAscii.toString)
  for l in r.lines do
    out.putStrLn l
  loop h out r.s

def main : IO Unit := do
  let stdin ← IO.getStdin
  let stdout ← IO.getStdout
  loop stdin stdout default
  stdout.flush
