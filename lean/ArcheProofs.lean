import ArcheProofs.Props.C04
import ArcheProofs.Props.C12
import ArcheProofs.Props.C02
