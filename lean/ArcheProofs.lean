import ArcheProofs.Props.C04
