import ArcheProofs.Props.C02
import ArcheProofs.Props.C04
import ArcheProofs.Props.C09
import ArcheProofs.Props.C12
import ArcheProofs.Props.C16
import ArcheProofs.Props.C17
import ArcheProofs.Props.C20
