import ArcheModel.Basic
import ArcheModel.Pool
import ArcheModel.World
import ArcheModel.Events
import ArcheModel.Query
import ArcheModel.Ops
import ArcheModel.Driver
import ArcheModel.GenPrelude
