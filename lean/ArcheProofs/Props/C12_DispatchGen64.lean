/-
  C12 companion, tiny build (64-bit masks) — `listener.Dispatch` (listener/dispatch.go: `NewDispatch`, `AddListener`, `Notify`, `Subscriptions`,
  `Components`), REGENERATED on every run; the sub-listeners are values outside the module (their `Subscriptions()` /
  `Components()` are read, their `Notify` acts on a hidden state).

  * `addListener_spec`, `newDispatch_spec`: the dispatcher subscribes to the union of its sub-listeners' event types;
    it is restricted to components exactly when every sub-listener is, and then to the union of their components;
    `newDispatch_eq_adds`: **building a dispatcher from a list and adding the same listeners one by one to an empty
    dispatcher give the same subscriptions, components and listener list** — sub-listeners added later are treated
    like those given at construction;
  * `notify_spec`: an event is handed to the sub-listeners in the order they were added, to each exactly when its own
    subscriptions meet the event's types and `subscribes` (the regenerated gate, the same function the world uses:
    `C12.copies_equal`) admits it for its own components — what it would be asked when installed alone; the
    dispatcher itself is not changed by a notification.
-/
import ArcheGen.Lst64
import ArcheProofs.Props.C12
import ArcheProofs.Props.C01_ExchangeGen64

namespace Arche.Props.C12_DispatchGen64
open ArcheGen ArcheGen.L64 ArcheGen.P64

section
variable (compsF : GoAny → Option M64.Mask) (subsF : GoAny → BitVec 8)

/-- one sub-listener more: the union of the event types, and of the components while everybody is restricted -/
def addStep (s : BitVec 8 × Bool × M64.Mask) (l : GoAny) : BitVec 8 × Bool × M64.Mask :=
  (s.1 ||| subsF l,
   match compsF l with | none => false | some _ => s.2.1,
   match compsF l with | none => s.2.2 | some m => M64.Mask.Or s.2.2 m)

theorem addListener_spec (d : Dispatch) (ls : GoAny) :
    Dispatch.AddListener compsF subsF d ls =
      some { listeners := GoSlice.append d.listeners ls,
             events := (addStep compsF subsF (d.events, d.hasComponents, d.components) ls).1,
             hasComponents := (addStep compsF subsF (d.events, d.hasComponents, d.components) ls).2.1,
             components := (addStep compsF subsF (d.events, d.hasComponents, d.components) ls).2.2 } := by
  unfold Dispatch.AddListener addStep
  cases h : compsF ls <;> simp [h, bind, Option.bind, pure]

theorem foldlM_some {σ α : Type} (g : σ → α → σ) (l : List α) (s : σ) :
    List.foldlM (m := Option) (fun x a => some (g x a)) s l = some (l.foldl g s) := by
  induction l generalizing s with
  | nil => rfl
  | cons a l ih => simp only [List.foldlM_cons, Option.bind_eq_bind, Option.bind_some, List.foldl_cons]; exact ih _

theorem newDispatch_spec (ls : GoSlice GoAny) :
    NewDispatch compsF subsF ls =
      some { listeners := ls,
             events := (ls.arr.toList.foldl (addStep compsF subsF) (0#8, true, default)).1,
             hasComponents := (ls.arr.toList.foldl (addStep compsF subsF) (0#8, true, default)).2.1,
             components := (ls.arr.toList.foldl (addStep compsF subsF) (0#8, true, default)).2.2 } := by
  unfold NewDispatch
  simp only [Option.bind_eq_bind, pure, GoSlice.size]
  generalize hF : List.foldlM (m := Option) (s := BitVec 8 × Bool × M64.Mask) (α := Nat) _ _ (List.range ls.arr.size) = X
  have hX : X = some (ls.arr.toList.foldl (addStep compsF subsF) (0#8, true, default)) := by
    rw [← hF, ← foldlM_some, ← C01_ExchangeGen64.foldlM_range_get ls]
    congr 1
    funext x k
    obtain ⟨e, h, c⟩ := x
    cases GoSlice.get ls k with
    | none => rfl
    | some l =>
      simp only [Option.bind_some, addStep]
      cases hc : compsF l <;> simp [hc]
  rw [hX]
  rfl

/-- adding the listeners of a list one by one -/
def addAll (d : Dispatch) : List GoAny → Option Dispatch
  | [] => some d
  | l :: ls => (Dispatch.AddListener compsF subsF d l).bind (fun d' => addAll d' ls)

theorem addAll_spec (ls : List GoAny) (d : Dispatch) :
    ∃ d', addAll compsF subsF d ls = some d' ∧ d'.listeners.arr = d.listeners.arr ++ ls.toArray ∧
      (d'.events, d'.hasComponents, d'.components) = ls.foldl (addStep compsF subsF) (d.events, d.hasComponents, d.components) := by
  induction ls generalizing d with
  | nil => exact ⟨d, rfl, by simp, rfl⟩
  | cons l ls ih =>
    simp only [addAll, addListener_spec, Option.bind_some, List.foldl_cons]
    obtain ⟨d', h1, h2, h3⟩ := ih _
    refine ⟨d', h1, ?_, h3⟩
    rw [h2]
    simp [GoSlice.append]

/-- **sub-listeners added later are treated like those given at construction**: the dispatcher built from a list and
    the empty dispatcher to which the same listeners are added one by one have the same listener list, the same
    subscriptions and the same component restriction -/
theorem newDispatch_eq_adds (ls : GoSlice GoAny) :
    ∃ d1 d2, NewDispatch compsF subsF ls = some d1 ∧
      addAll compsF subsF { listeners := default, events := 0#8, components := default, hasComponents := true } ls.arr.toList = some d2 ∧
      d1.listeners.arr = d2.listeners.arr ∧ d1.events = d2.events ∧ d1.hasComponents = d2.hasComponents ∧ d1.components = d2.components := by
  obtain ⟨d2, h1, h2, h3⟩ := addAll_spec compsF subsF ls.arr.toList
    { listeners := default, events := 0#8, components := default, hasComponents := true }
  refine ⟨_, d2, newDispatch_spec compsF subsF ls, h1, ?_, ?_, ?_, ?_⟩
  · rw [h2]; simp [default, instInhabitedGoSlice]
  · have := congrArg (·.1) h3; simpa using this.symm
  · have := congrArg (·.2.1) h3; simpa using this.symm
  · have := congrArg (·.2.2) h3; simpa using this.symm

end

section
variable {Ext : Type} (compsE : Ext → GoAny → Option M64.Mask) (subsE : Ext → GoAny → BitVec 8)
  (notifyF : Ext → GoAny → EntityEvent → Ext × Unit)

/-- the gate of one sub-listener: its own subscriptions against the event's types, then `subscribes` for its own components -/
def gate (ext : Ext) (ls : GoAny) (evt : EntityEvent) : Bool :=
  ((subsE ext ls &&& evt.EventTypes) != 0#8) &&
    M64.listener.subscribes (subsE ext ls &&& evt.EventTypes) (some evt.Added) (some evt.Removed) (compsE ext ls) evt.OldRelation evt.NewRelation

def notifyStep (evt : EntityEvent) (ext : Ext) (ls : GoAny) : Ext :=
  if gate compsE subsE ext ls evt then (notifyF ext ls evt).1 else ext

theorem foldlM_congr_inv {σ : Type} (P : σ → Prop) (F G : σ → Nat → Option σ)
    (hFG : ∀ s k, P s → F s k = G s k) (hP : ∀ s k s', P s → G s k = some s' → P s') (l : List Nat) (s : σ) (hs : P s) :
    List.foldlM (m := Option) F s l = List.foldlM (m := Option) G s l := by
  induction l generalizing s with
  | nil => rfl
  | cons k l ih =>
    simp only [List.foldlM_cons, Option.bind_eq_bind]
    rw [hFG s k hs]
    cases hg : G s k with
    | none => rfl
    | some s' => simp only [Option.bind_some]; exact ih s' (hP s k s' hs hg)

/-- **dispatching an event**: in the order of the listener list, each sub-listener is notified exactly when its own
    gate admits the event; the dispatcher is unchanged -/
theorem notify_spec (d : Dispatch) (world : Option Nat) (evt : EntityEvent) (ext : Ext) :
    Dispatch.Notify compsE subsE notifyF d world evt ext =
      some (d, d.listeners.arr.toList.foldl (notifyStep compsE subsE notifyF evt) ext) := by
  unfold Dispatch.Notify
  simp only [Option.bind_eq_bind, pure, GoSlice.size]
  generalize hF : List.foldlM (m := Option) (s := Dispatch × Ext) (α := Nat) _ _ (List.range d.listeners.arr.size) = X
  have hX : X = some (d, d.listeners.arr.toList.foldl (notifyStep compsE subsE notifyF evt) ext) := by
    have h1 : ∀ (l : List GoAny) (e : Ext),
        List.foldlM (m := Option) (fun (x : Dispatch × Ext) (ls : GoAny) => some (x.1, notifyStep compsE subsE notifyF evt x.2 ls)) (d, e) l
          = some (d, l.foldl (notifyStep compsE subsE notifyF evt) e) := by
      intro l
      induction l with
      | nil => intro e; rfl
      | cons a l ih => intro e; simp only [List.foldlM_cons, Option.bind_eq_bind, Option.bind_some, List.foldl_cons]; exact ih _
    rw [← hF, ← h1, ← C01_ExchangeGen64.foldlM_range_get d.listeners]
    refine foldlM_congr_inv (fun (x : Dispatch × Ext) => x.1 = d) _ _ ?_ ?_ _ _ rfl
    · intro x k hx
      obtain ⟨xd, xe⟩ := x
      simp only at hx
      subst hx
      cases GoSlice.get xd.listeners k with
      | none => rfl
      | some ls =>
        simp only [Option.bind_some, notifyStep, gate]
        split <;> rename_i hg <;> simp [hg]
    · intro x k x' hx hk
      obtain ⟨ls, _, hk⟩ := Option.bind_eq_some_iff.mp hk
      simp only [Option.some.injEq] at hk
      rw [← hk]; exact hx
  rw [hX]
  rfl

end

end Arche.Props.C12_DispatchGen64
