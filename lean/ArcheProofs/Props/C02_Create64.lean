/-
  C02 companion, tiny build (64-bit masks) — `World.createEntity` (ecs/world_internal.go: the worker behind `NewEntity`, `NewEntityWith`
  and the builders) and the entity accessors `World.Has`, `HasUnchecked`, `Mask`, `getRelation`,
  `getRelationUnchecked` (ecs/world.go, ecs/world_internal.go), REGENERATED on every run on a view of the
  `World` struct. The table is outside the module: `arch.Alloc(entity)` is an effectful extern on a hidden
  state; a member access through a nil table pointer panics (as the nil dereference does in Go).

  * `create_fresh`, `create_recycled`: the handle returned is the pool's (`entityPool.Get`, whose refinement to
    the model is `C02_Pool64.get_refines`); a fresh handle appends its index entry (the index stays exactly as
    long as the pool), a recycled one overwrites its own slot and nothing else; the new entity is stored under
    its id with the row `Alloc` returned; its target flag reads false afterwards and no other flag changes;
  * `create_nil`: a nil table panics;
  * `has_dead`, `mask_dead`, `getRelation_dead`: the checked accessors panic on a handle the pool does not call
    alive (in the model's terms, `Pool.alive?` of the abstraction), `hasUnchecked_removed`: the unchecked ones
    panic for a removed entity whose slot was not reused (nil table pointer), `has_alive`: otherwise the answer
    is the table's;
  * `createEntities_spec`: batch creation (`createEntities`, REGENERATED too) hands out exactly the handles `count`
    single `entityPool.Get`s would, in that order, clears exactly their target flags, sizes the index to at least
    `len + count - available`, and changes nothing else — whatever the re-sliced backing array held (`stale`);
  * `create_model`: with `Alloc` interpreted as the model's `tableAlloc` the regenerated code is the model's
    `World.createEntity`.
-/
import ArcheProofs.Props.C17_Load64

namespace Arche.Props.C02_Create64
open ArcheGen ArcheGen.P64 Arche Arche.Props

theorem create_nil {Ext : Type} (alloc : Ext → Option Nat → P64.Entity → Ext × BitVec 32) (w : P64.World) (ext : Ext) :
    P64.World.createEntity alloc w none ext = none := by
  unfold P64.World.createEntity
  cases entityPool.Get w.entityPool <;> rfl

/-- **a fresh handle** (its id is the length of the index): the index grows by exactly its entry -/
theorem create_fresh {Ext : Type} (alloc : Ext → Option Nat → P64.Entity → Ext × BitVec 32) (w : P64.World) (t : Nat) (ext : Ext)
    (p' : entityPool) (e : P64.Entity) (hget : entityPool.Get w.entityPool = some (p', e))
    (hid : e.id.toNat = w.entities.arr.size) (hinc : 0 ≤ w.config.CapacityIncrement) :
    ∃ c ts, P64.World.createEntity alloc w (some t) ext =
        some ({ w with entityPool := p', entities := ⟨w.entities.arr.push ⟨some t, (alloc ext (some t) e).2⟩, c⟩, targetEntities := ts },
              (alloc ext (some t) e).1, e) ∧
      (∀ j, C06_BitSet64.bget ts j = C06_BitSet64.bget w.targetEntities j) ∧
      ((w.entities.arr.size : Int) + w.config.CapacityIncrement ≤ 64 * (ts.data.arr.size : Int)) := by
  obtain ⟨ts, hts, _, hbits, hgetb⟩ := C06_BitSet64.extend_get w.targetEntities ((w.entities.arr.size : Int) + w.config.CapacityIncrement) (by omega)
  have hidI : ((((e.id).toNat : Nat) : Int) == ((w.entities.arr.size : Nat) : Int)) = true := by simp [hid]
  unfold P64.World.createEntity
  simp only [hget, bind, Option.bind, pure, GoSlice.size, hidI, ↓reduceIte]
  by_cases hcap : (((w.entities.arr.size : Nat) : Int) == ((w.entities.cap : Nat) : Int)) = true
  · have hm : GoSlice.make (α := entityIndex) (w.entities.arr.size : Int) ((w.entities.arr.size : Int) + w.config.CapacityIncrement)
        = some ⟨Array.replicate w.entities.arr.size default, ((w.entities.arr.size : Int) + w.config.CapacityIncrement).toNat⟩ := by
      unfold GoSlice.make
      rw [if_pos ⟨by omega, by omega⟩]
      simp
    simp only [hcap, ↓reduceIte, hm, hts, GoSlice.append]
    refine ⟨(GoSlice.append (GoSlice.copy (⟨Array.replicate w.entities.arr.size default,
        ((w.entities.arr.size : Int) + w.config.CapacityIncrement).toNat⟩ : GoSlice entityIndex) w.entities)
        ⟨some t, (alloc ext (some t) e).2⟩).cap, ts, ?_, hgetb, hbits⟩
    simp only [GoSlice.append]
    rw [C02_Pool64.copy_full _ _ (by simp)]
  · simp only [hcap, Bool.false_eq_true, ↓reduceIte, GoSlice.append, hts]
    exact ⟨_, ts, rfl, hgetb, hbits⟩

/-- **a recycled handle** (its id lies inside the index): only its own slot and its own flag change -/
theorem create_recycled {Ext : Type} (alloc : Ext → Option Nat → P64.Entity → Ext × BitVec 32) (w : P64.World) (t : Nat) (ext : Ext)
    (p' : entityPool) (e : P64.Entity) (hget : entityPool.Get w.entityPool = some (p', e))
    (hid : e.id.toNat < w.entities.arr.size) (hflag : e.id.toNat / 64 < w.targetEntities.data.arr.size) :
    ∃ ts, P64.World.createEntity alloc w (some t) ext =
        some ({ w with entityPool := p',
                       entities := { w.entities with arr := w.entities.arr.setIfInBounds e.id.toNat ⟨some t, (alloc ext (some t) e).2⟩ },
                       targetEntities := ts },
              (alloc ext (some t) e).1, e) ∧
      (∀ j, C06_BitSet64.bget ts j = if j = e.id.toNat then false else C06_BitSet64.bget w.targetEntities j) := by
  obtain ⟨ts, hts, _, hgetb⟩ := C06_BitSet64.set_get w.targetEntities e.id false hflag
  have hidI : ((((e.id).toNat : Nat) : Int) == ((w.entities.arr.size : Nat) : Int)) = false := by
    simp only [beq_eq_false_iff_ne, ne_eq]; omega
  unfold P64.World.createEntity
  simp only [hget, bind, Option.bind, pure, GoSlice.size, hidI, Bool.false_eq_true, ↓reduceIte, GoSlice.set, hid, hts]
  exact ⟨ts, rfl, hgetb⟩

/-! ### accessors -/

theorem alive_eq (p : entityPool) (e : P64.Entity) (b : Bool) (h : Pool.alive? (C02_Pool64.absPool p) (C02_Pool64.absE e) = some b) :
    entityPool.Alive p e = some (p, b) := by
  obtain ⟨h1, h2⟩ := C02_Pool64.alive_refines p e
  rw [h] at h1
  cases hr : entityPool.Alive p e with
  | none => rw [hr] at h1; cases h1
  | some r =>
    rw [hr] at h1
    have := h2 r hr
    obtain ⟨r1, r2⟩ := r
    simp only [Option.map_some, Option.some.injEq] at h1
    simp only at this
    rw [this, h1]

theorem alive_none (p : entityPool) (e : P64.Entity) (h : Pool.alive? (C02_Pool64.absPool p) (C02_Pool64.absE e) = none) :
    entityPool.Alive p e = none := by
  obtain ⟨h1, _⟩ := C02_Pool64.alive_refines p e
  rw [h] at h1
  cases hr : entityPool.Alive p e with
  | none => rfl
  | some r => rw [hr] at h1; cases h1

/-- **`Has` panics on a handle that is not alive** (dead, recycled under a newer generation, or beyond the pool) -/
theorem has_dead (hasF : Option Nat → BitVec 8 → Bool) (w : P64.World) (e : P64.Entity) (comp : BitVec 8)
    (h : Pool.alive? (C02_Pool64.absPool w.entityPool) (C02_Pool64.absE e) ≠ some true) :
    P64.World.Has hasF w e comp = none := by
  unfold P64.World.Has
  cases ha : Pool.alive? (C02_Pool64.absPool w.entityPool) (C02_Pool64.absE e) with
  | none => simp only [alive_none _ _ ha, bind, Option.bind]
  | some b =>
    cases b with
    | true => exact absurd ha h
    | false => simp only [alive_eq _ _ _ ha, bind, Option.bind, Bool.not_false, ↓reduceIte]

theorem mask_dead (maskF : Option Nat → ArcheGen.M64.Mask) (w : P64.World) (e : P64.Entity)
    (h : Pool.alive? (C02_Pool64.absPool w.entityPool) (C02_Pool64.absE e) ≠ some true) :
    P64.World.Mask maskF w e = none := by
  unfold P64.World.Mask
  cases ha : Pool.alive? (C02_Pool64.absPool w.entityPool) (C02_Pool64.absE e) with
  | none => simp only [alive_none _ _ ha, bind, Option.bind]
  | some b =>
    cases b with
    | true => exact absurd ha h
    | false => simp only [alive_eq _ _ _ ha, bind, Option.bind, Bool.not_false, ↓reduceIte]

theorem getRelation_dead (hasF : Option Nat → BitVec 8 → Bool) (nodeF : Option Nat → Option Nat) (targetF : Option Nat → P64.Entity)
    (hasRelF : Option Nat → Bool) (relF : Option Nat → BitVec 8) (w : P64.World) (e : P64.Entity) (comp : BitVec 8)
    (h : Pool.alive? (C02_Pool64.absPool w.entityPool) (C02_Pool64.absE e) ≠ some true) :
    P64.World.getRelation hasF nodeF targetF hasRelF relF w e comp = none := by
  unfold P64.World.getRelation
  cases ha : Pool.alive? (C02_Pool64.absPool w.entityPool) (C02_Pool64.absE e) with
  | none => simp only [alive_none _ _ ha, bind, Option.bind]
  | some b =>
    cases b with
    | true => exact absurd ha h
    | false => simp only [alive_eq _ _ _ ha, bind, Option.bind, Bool.not_false, ↓reduceIte]

/-- **an alive handle**: `Has` is the answer of the table the index points to, and the world is unchanged -/
theorem has_alive (hasF : Option Nat → BitVec 8 → Bool) (w : P64.World) (e : P64.Entity) (comp : BitVec 8)
    (h : Pool.alive? (C02_Pool64.absPool w.entityPool) (C02_Pool64.absE e) = some true)
    (x : entityIndex) (t : Nat) (hx : w.entities.arr[e.id.toNat]? = some x) (ht : x.arch = some t) :
    P64.World.Has hasF w e comp = some (w, hasF (some t) comp) := by
  unfold P64.World.Has
  simp only [alive_eq _ _ _ h, bind, Option.bind, Bool.not_true, Bool.false_eq_true, ↓reduceIte, GoSlice.get, hx, ht, pure]

/-- the unchecked accessors panic for a removed entity whose slot was not reused (nil table pointer) and for
    an id beyond the index -/
theorem hasUnchecked_removed (hasF : Option Nat → BitVec 8 → Bool) (targetF : Option Nat → P64.Entity) (w : P64.World) (e : P64.Entity) (comp : BitVec 8)
    (h : ∀ x, w.entities.arr[e.id.toNat]? = some x → x.arch = none) :
    P64.World.HasUnchecked hasF w e comp = none ∧ P64.World.getRelationUnchecked targetF w e comp = none := by
  unfold P64.World.HasUnchecked P64.World.getRelationUnchecked
  cases hx : w.entities.arr[e.id.toNat]? with
  | none => simp only [GoSlice.get, hx, bind, Option.bind, and_self]
  | some x => simp only [GoSlice.get, hx, bind, Option.bind, h x hx, and_self]

/-- `getRelation` on an alive entity: the target of its table if `comp` is the table's relation component, a
    panic otherwise (whether or not the entity has the component) -/
theorem getRelation_alive (hasF : Option Nat → BitVec 8 → Bool) (nodeF : Option Nat → Option Nat) (targetF : Option Nat → P64.Entity)
    (hasRelF : Option Nat → Bool) (relF : Option Nat → BitVec 8) (w : P64.World) (e : P64.Entity) (comp : BitVec 8)
    (h : Pool.alive? (C02_Pool64.absPool w.entityPool) (C02_Pool64.absE e) = some true)
    (x : entityIndex) (t n : Nat) (hx : w.entities.arr[e.id.toNat]? = some x) (ht : x.arch = some t) (hn : nodeF (some t) = some n) :
    P64.World.getRelation hasF nodeF targetF hasRelF relF w e comp =
      if hasRelF (some n) = true ∧ relF (some n) = comp then some (w, targetF (some t)) else none := by
  unfold P64.World.getRelation P64.World.checkRelation P64.World.relationError
  simp only [alive_eq _ _ _ h, bind, Option.bind, Bool.not_true, Bool.false_eq_true, ↓reduceIte, GoSlice.get, hx, ht, hn, pure]
  by_cases h1 : hasRelF (some n) = true
  · by_cases h2 : relF (some n) = comp
    · simp [h1, h2, hx, ht]
    · simp [h1, h2]
  · simp [h1]

/-! ### the link to the hand-written model: `World.createEntity` -/

/-- what the proof assumes about the table extern: `arch.Alloc` on table `t` is the model's `tableAlloc t` -/
def AllocInterp (alloc : Arche.World → Option Nat → P64.Entity → Arche.World × BitVec 32) : Prop :=
  ∀ (m : Arche.World) (t : Nat) (e : P64.Entity),
    (alloc m (some t) e).1 = (m.tableAlloc t (C02_Pool64.absE e)).1 ∧
    (alloc m (some t) e).2.toNat = (m.tableAlloc t (C02_Pool64.absE e)).2

/-- the model world and the regenerated view describe the same entities: same pool, same index, same flags -/
structure Rel (gw : P64.World) (mw : Arche.World) : Prop where
  pool : mw.pool = C02_Pool64.absPool gw.entityPool
  index : mw.index = gw.entities.arr.map C17_Load64.absIdx
  flags : ∀ id, mw.flags.getD id false = C06_BitSet64.bget gw.targetEntities id
  fsize : mw.flags.size = mw.index.size

/-- a model world with the three entity-related fields replaced -/
def mkW (m : Arche.World) (p : Pool) (i : Array (Option Loc)) (f : Array Bool) : Arche.World :=
  { m with pool := p, index := i, flags := f }

theorem tableAlloc_pool (m : Arche.World) (p : Pool) (t : Nat) (e : Arche.Entity) :
    ({ m with pool := p } : Arche.World).tableAlloc t e = ({ (m.tableAlloc t e).1 with pool := p }, (m.tableAlloc t e).2) := rfl

theorem getD_push_false (a : Array Bool) (id : Nat) : (a.push false).getD id false = a.getD id false := by
  rw [Array.getD_eq_getD_getElem?, Array.getD_eq_getD_getElem?, Array.getElem?_push]
  split
  · rename_i h; subst h; simp
  · rfl

theorem getD_set_false (a : Array Bool) (k id : Nat) :
    (a.setIfInBounds k false).getD id false = if id = k then false else a.getD id false := by
  rw [Array.getD_eq_getD_getElem?, Array.getD_eq_getD_getElem?, Array.getElem?_setIfInBounds]
  by_cases h : k = id
  · subst h
    by_cases h2 : k < a.size <;> simp [h2]
  · have h' : ¬ id = k := fun hc => h hc.symm
    simp [h, h']

/-- **`createEntity` is the model's `World.createEntity`**: run with the model's world as the hidden state (and
    `Alloc` interpreted as `tableAlloc`), the regenerated code returns the model's handle and ends in the
    model's state — same pool, same index, same flags, same tables. -/
theorem create_model (alloc : Arche.World → Option Nat → P64.Entity → Arche.World × BitVec 32) (hA : AllocInterp alloc)
    (gw : P64.World) (mw : Arche.World) (t : Nat) (hR : Rel gw mw)
    (hlock : gw.entities.arr.size = gw.entityPool.entities.arr.size)
    (hsz : gw.entityPool.entities.arr.size < 2 ^ 32)
    (hav : gw.entityPool.available ≠ 0#32 → gw.entityPool.next.toNat < gw.entityPool.entities.arr.size)
    (hinc : 0 ≤ gw.config.CapacityIncrement)
    (hcover : ∀ id, id < gw.entities.arr.size → id / 64 < gw.targetEntities.data.arr.size) :
    ∃ gw' m' e, P64.World.createEntity alloc gw (some t) mw = some (gw', m', e) ∧
      C02_Pool64.absE e = (mw.createEntity t).2 ∧
      (mw.createEntity t).1 = mkW m' (mw.createEntity t).1.pool (mw.createEntity t).1.index (mw.createEntity t).1.flags ∧
      Rel gw' (mw.createEntity t).1 ∧
      gw'.entities.arr.size = gw'.entityPool.entities.arr.size := by
  obtain ⟨p', e, hget, hpabs, heabs⟩ := C02_Pool64.get_refines gw.entityPool hsz hav
  by_cases h0 : gw.entityPool.available = 0#32
  · -- a fresh handle
    obtain ⟨c0, hfresh⟩ := C02_Pool64.get_fresh gw.entityPool h0
    rw [hfresh] at hget
    simp only [Option.some.injEq, Prod.mk.injEq] at hget
    obtain ⟨hp', he⟩ := hget
    have hidn : e.id.toNat = gw.entities.arr.size := by
      rw [← he, hlock]
      simp only [BitVec.toNat_ofInt]
      omega
    obtain ⟨c, ts, hcreate, hts, _⟩ := create_fresh alloc gw t mw p' e (by rw [hfresh, hp', he]) hidn hinc
    refine ⟨_, _, _, hcreate, ?_⟩
    obtain ⟨hA1, hA2⟩ := hA mw t e
    have hmid : (Pool.get (C02_Pool64.absPool gw.entityPool)).2.id = mw.index.size := by
      rw [← heabs, hR.index]; simp [C02_Pool64.absE, hidn]
    have hcm : mw.createEntity t =
        (mkW (mw.tableAlloc t (C02_Pool64.absE e)).1 (C02_Pool64.absPool p')
            (mw.index.push (some ⟨t, (mw.tableAlloc t (C02_Pool64.absE e)).2⟩)) (mw.flags.push false), C02_Pool64.absE e) := by
      unfold World.createEntity
      rw [hR.pool]
      simp only [tableAlloc_pool, ← hpabs, ← heabs]
      have : ((C02_Pool64.absE e).id == (mw.tableAlloc t (C02_Pool64.absE e)).1.index.size) = true := by
        have hi : (mw.tableAlloc t (C02_Pool64.absE e)).1.index = mw.index := rfl
        rw [hi, heabs, hmid]; simp
      simp only [this, ↓reduceIte]
      rfl
    rw [hcm]
    refine ⟨rfl, ?_, ?_, ?_⟩
    · simp only [hA1]; rfl
    · refine ⟨rfl, ?_, ?_, ?_⟩
      · simp only [mkW, Array.map_push, hR.index, C17_Load64.absIdx, Option.map_some, hA2]
      · intro id
        simp only [mkW, getD_push_false, hts, hR.flags]
      · simp only [mkW, Array.size_push, hR.fsize]
    · simp only [Array.size_push, hlock, ← hp']
  · -- a recycled handle
    have hn := hav h0
    have hrec := C02_Pool64.get_recycled gw.entityPool h0 hn
    rw [hrec] at hget
    simp only [Option.some.injEq, Prod.mk.injEq] at hget
    obtain ⟨hp', he⟩ := hget
    have hidn : e.id.toNat < gw.entities.arr.size := by
      rw [← he, hlock]; exact hn
    obtain ⟨ts, hcreate, hts⟩ := create_recycled alloc gw t mw p' e (by rw [hrec, hp', he]) hidn (hcover _ hidn)
    refine ⟨_, _, _, hcreate, ?_⟩
    obtain ⟨hA1, hA2⟩ := hA mw t e
    have hmid : ((Pool.get (C02_Pool64.absPool gw.entityPool)).2.id == mw.index.size) = false := by
      rw [← heabs, hR.index]
      simp only [C02_Pool64.absE, Array.size_map, beq_eq_false_iff_ne, ne_eq]
      omega
    have hcm : mw.createEntity t =
        (mkW (mw.tableAlloc t (C02_Pool64.absE e)).1 (C02_Pool64.absPool p')
            (mw.index.setIfInBounds e.id.toNat (some ⟨t, (mw.tableAlloc t (C02_Pool64.absE e)).2⟩))
            (mw.flags.setIfInBounds e.id.toNat false), C02_Pool64.absE e) := by
      unfold World.createEntity
      rw [hR.pool]
      simp only [tableAlloc_pool, ← hpabs, ← heabs]
      have : ((C02_Pool64.absE e).id == (mw.tableAlloc t (C02_Pool64.absE e)).1.index.size) = false := by
        have hi : (mw.tableAlloc t (C02_Pool64.absE e)).1.index = mw.index := rfl
        rw [hi, heabs]; exact hmid
      simp only [this, Bool.false_eq_true, ↓reduceIte]
      rfl
    rw [hcm]
    refine ⟨rfl, ?_, ?_, ?_⟩
    · simp only [hA1]; rfl
    · refine ⟨rfl, ?_, ?_, ?_⟩
      · simp only [mkW, Array.map_setIfInBounds, hR.index, C17_Load64.absIdx, Option.map_some, hA2]
      · intro id
        simp only [mkW, getD_set_false, hts, hR.flags]
      · simp only [mkW, Array.size_setIfInBounds, hR.fsize]
    · simp only [Array.size_setIfInBounds, hlock, ← hp']

/-! ### batch creation: `createEntities` hands out exactly the handles `count` single `Get`s would -/

/-- `n` successive `entityPool.Get`s: the pool afterwards and the handles in the order they were issued -/
def getN : Nat → entityPool → Option (entityPool × List P64.Entity)
  | 0, p => some (p, [])
  | n + 1, p => do
    let (p1, e) ← entityPool.Get p
    let (p2, es) ← getN n p1
    pure (p2, e :: es)

/-- the body of the loop of `createEntities`, as generated -/
def batchBody {Ext : Type} (archSetEntityF : Ext → Option Nat → BitVec 32 → P64.Entity → Ext × Unit) (arch : Option Nat) (startIdx : BitVec 32) :
    P64.World × Ext → Nat → Option (P64.World × Ext) :=
  fun (w, ext) iN => do
      let i : BitVec 32 := BitVec.ofNat 32 iN
      let idx := (startIdx + i)
      let (o7, r8) ← entityPool.Get (w).entityPool
      let w := { w with entityPool := o7 }
      let entity := r8
      let _ ← arch
      let (ext, r9) := archSetEntityF ext arch idx entity
      let i10 := ((entity).id).toNat
      let u11 ← GoSlice.set (w).entities i10 ({ arch := arch, index := idx } : entityIndex)
      let w := { w with entities := u11 }
      let o12 ← bitSet.Set (w).targetEntities (entity).id false
      let w := { w with targetEntities := o12 }
      pure (w, ext)

/-- what the loop of `createEntities` keeps: everything but pool, index and flags; the index keeps its length -/
def BatchFrame (w w' : P64.World) : Prop :=
  w' = { w with entityPool := w'.entityPool, entities := w'.entities, targetEntities := w'.targetEntities } ∧
  w'.entities.arr.size = w.entities.arr.size ∧ w'.entities.cap = w.entities.cap

theorem batch_loop {Ext : Type} (archSetEntityF : Ext → Option Nat → BitVec 32 → P64.Entity → Ext × Unit) (arch : Option Nat) (startIdx : BitVec 32)
    (l : List Nat) (w w' : P64.World) (ext ext' : Ext)
    (h : List.foldlM (m := Option) (batchBody archSetEntityF arch startIdx) (w, ext) l = some (w', ext')) :
    ∃ hs, getN l.length w.entityPool = some (w'.entityPool, hs) ∧ BatchFrame w w' ∧
      (∀ j, C06_BitSet64.bget w'.targetEntities j = if j ∈ hs.map (fun e => e.id.toNat) then false else C06_BitSet64.bget w.targetEntities j) ∧
      (∀ e ∈ hs, e.id.toNat < w.entities.arr.size) := by
  induction l generalizing w ext with
  | nil =>
    simp only [List.foldlM_nil, pure, Option.some.injEq, Prod.mk.injEq] at h
    obtain ⟨rfl, rfl⟩ := h
    exact ⟨[], rfl, ⟨rfl, rfl, rfl⟩, by simp, by simp⟩
  | cons k l ih =>
    rw [List.foldlM_cons] at h
    obtain ⟨⟨w1, e1⟩, hstep, hrest⟩ := Option.bind_eq_some_iff.mp h
    -- one round
    simp only [batchBody, Option.bind_eq_bind] at hstep
    obtain ⟨⟨p1, e⟩, hget, hstep⟩ := Option.bind_eq_some_iff.mp hstep
    obtain ⟨a, ha, hstep⟩ := Option.bind_eq_some_iff.mp hstep
    simp only at hstep
    obtain ⟨u11, hset, hstep⟩ := Option.bind_eq_some_iff.mp hstep
    obtain ⟨o12, hflag, hstep⟩ := Option.bind_eq_some_iff.mp hstep
    simp only [pure, Option.some.injEq, Prod.mk.injEq] at hstep
    obtain ⟨hw1, _⟩ := hstep
    have hin : e.id.toNat < w.entities.arr.size := by
      simp only [GoSlice.set] at hset
      split at hset
      · assumption
      · cases hset
    have hu : u11 = { w.entities with arr := w.entities.arr.setIfInBounds e.id.toNat ⟨arch, startIdx + BitVec.ofNat 32 k⟩ } := by
      simp only [GoSlice.set, hin, ↓reduceIte, Option.some.injEq] at hset
      exact hset.symm
    have hrange : e.id.toNat / 64 < w.targetEntities.data.arr.size := by
      apply Classical.byContradiction
      intro hc
      have : bitSet.Set w.targetEntities e.id false = none := by
        unfold bitSet.Set
        simp only [bind, Option.bind, GoSlice.get]
        rw [C06_BitSet64.div_toNat, Array.getElem?_eq_none (by omega)]
        simp
      rw [this] at hflag; cases hflag
    obtain ⟨ts, hts, htsz, htsget⟩ := C06_BitSet64.set_get w.targetEntities e.id false hrange
    rw [hts] at hflag
    cases hflag
    obtain ⟨hs, hgetN, hframe, hflags, hids⟩ := ih w1 e1 hrest
    subst hw1
    refine ⟨e :: hs, ?_, ?_, ?_, ?_⟩
    · simp only [List.length_cons, getN, hget, Option.bind_eq_bind, Option.bind_some]
      simp only at hgetN
      rw [hgetN]; rfl
    · obtain ⟨f1, f2, f3⟩ := hframe
      refine ⟨?_, ?_, ?_⟩
      · rw [f1]
      · rw [f2, hu]; simp
      · rw [f3, hu]
    · intro j
      rw [hflags j]
      simp only [List.map_cons, List.mem_cons]
      by_cases hj : j ∈ hs.map (fun e => e.id.toNat)
      · simp [hj]
      · simp only [hj, ↓reduceIte, or_false]
        exact htsget j
    · intro e' he'
      rcases List.mem_cons.mp he' with rfl | hm
      · exact hin
      · have := hids e' hm
        rw [hu] at this
        simpa using this

/-- **`createEntities` hands out exactly the handles `count` single `Get`s would, in that order**: whenever the call
    succeeds, the pool afterwards is the pool after `count` successive `entityPool.Get`s, the target flag of each new
    handle is false and no other flag changed, the index is at least `len + count - available` long, and nothing
    but pool, index and flags changed — whatever the backing array of the index held beyond its length (`stale`).
    (`hcap`: the capacity computed for the index is not negative — true whenever the free-list counter does not exceed
    the index length and the capacity increment is positive, `C16.capacity_spec`; `hslice`: a slice is not longer than its capacity.) -/
theorem createEntities_spec {Ext : Type} (archAllocNF : Ext → Option Nat → BitVec 32 → Ext × Unit) (archLenF : Ext → Option Nat → BitVec 32)
    (archSetEntityF : Ext → Option Nat → BitVec 32 → P64.Entity → Ext × Unit) (stale : Nat → entityIndex)
    (w w' : P64.World) (arch : Option Nat) (count : BitVec 32) (ext ext' : Ext)
    (hcap : 0 ≤ ArcheGen.Arith.capacity ((w.entities.arr.size : Int) + (count.toNat : Int) - (w.entityPool.available.toNat : Int)) w.config.CapacityIncrement)
    (hslice : w.entities.arr.size ≤ w.entities.cap)
    (h : P64.World.createEntities archAllocNF archLenF archSetEntityF stale w arch count ext = some (w', ext')) :
    ∃ hs, getN count.toNat w.entityPool = some (w'.entityPool, hs) ∧
      (∀ j, C06_BitSet64.bget w'.targetEntities j = if j ∈ hs.map (fun e => e.id.toNat) then false else C06_BitSet64.bget w.targetEntities j) ∧
      w' = { w with entityPool := w'.entityPool, entities := w'.entities, targetEntities := w'.targetEntities } ∧
      (w.entities.arr.size : Int) ≤ w'.entities.arr.size ∧
      (w.entities.arr.size : Int) + count.toNat - w.entityPool.available.toNat ≤ w'.entities.arr.size ∧
      (∀ e ∈ hs, e.id.toNat < w'.entities.arr.size) := by
  unfold P64.World.createEntities at h
  cases arch with
  | none => simp [bind, Option.bind] at h
  | some t =>
    simp only [Option.bind_eq_bind, Option.bind_some, entityPool.Available, pure, GoSlice.size] at h
    obtain ⟨⟨W0, E0⟩, hpre, h⟩ := Option.bind_eq_some_iff.mp h
    obtain ⟨ts0, hext, h⟩ := Option.bind_eq_some_iff.mp h
    obtain ⟨⟨W1, E1⟩, hloop, h⟩ := Option.bind_eq_some_iff.mp h
    simp only [Option.some.injEq, Prod.mk.injEq] at h
    obtain ⟨hW1, _⟩ := h
    subst hW1
    -- the index after the pre-sizing
    have hpre' : W0 = { w with entities := W0.entities } ∧ (w.entities.arr.size : Int) ≤ W0.entities.arr.size ∧
        (w.entities.arr.size : Int) + count.toNat - w.entityPool.available.toNat ≤ W0.entities.arr.size := by
      by_cases hc : (w.entities.cap : Int) < (w.entities.arr.size : Int) + (count.toNat : Int) - (w.entityPool.available.toNat : Int)
      · simp only [hc, decide_true, ↓reduceIte] at hpre
        obtain ⟨s4, hmk, hpre⟩ := Option.bind_eq_some_iff.mp hpre
        simp only [Option.some.injEq, Prod.mk.injEq] at hpre
        obtain ⟨hW0, _⟩ := hpre
        subst hW0
        simp only [GoSlice.make] at hmk
        split at hmk
        · rename_i hm
          simp only [Option.some.injEq] at hmk
          subst hmk
          simp only [GoSlice.copy, Array.size_ofFn, Array.size_replicate, true_and]
          omega
        · cases hmk
      · simp only [hc, decide_false, Bool.false_eq_true, ↓reduceIte] at hpre
        obtain ⟨⟨W0', E0'⟩, hin, hpre⟩ := Option.bind_eq_some_iff.mp hpre
        simp only [Option.some.injEq, Prod.mk.injEq] at hpre
        obtain ⟨hW0, _⟩ := hpre
        subst hW0
        by_cases hc2 : (w.entities.arr.size : Int) < (w.entities.arr.size : Int) + (count.toNat : Int) - (w.entityPool.available.toNat : Int)
        · simp only [hc2, decide_true, ↓reduceIte] at hin
          obtain ⟨s5, hrs, hin⟩ := Option.bind_eq_some_iff.mp hin
          simp only [Option.some.injEq, Prod.mk.injEq] at hin
          obtain ⟨hW0, _⟩ := hin
          subst hW0
          simp only [GoSlice.reslice] at hrs
          split at hrs
          · rename_i hq; omega
          · split at hrs
            · rename_i hq
              simp only [Option.some.injEq] at hrs
              subst hrs
              simp only [Array.size_append, Array.size_ofFn, true_and]
              omega
            · cases hrs
        · simp only [hc2, decide_false, Bool.false_eq_true, ↓reduceIte, Option.some.injEq, Prod.mk.injEq] at hin
          obtain ⟨hW0, _⟩ := hin
          subst hW0
          refine ⟨rfl, ?_, ?_⟩ <;> simp only <;> omega
    obtain ⟨hW0eq, hsz1, hsz2⟩ := hpre'
    have hts0 : ∀ j, C06_BitSet64.bget ts0 j = C06_BitSet64.bget w.targetEntities j := by
      have hte : W0.targetEntities = w.targetEntities := by rw [hW0eq]
      rw [hte] at hext
      obtain ⟨b', hb', _, _, hg⟩ := C06_BitSet64.extend_get w.targetEntities _ hcap
      rw [hb'] at hext; cases hext; exact hg
    -- the loop
    have hloop' : List.foldlM (m := Option) (batchBody archSetEntityF (some t) (archLenF ext (some t)))
        (({ W0 with targetEntities := ts0 } : P64.World), E0) (List.range count.toNat) = some (W1, E1) := hloop
    obtain ⟨hs, hgetN, hframe, hflags, hids⟩ := batch_loop archSetEntityF (some t) _ _ _ _ _ _ hloop'
    obtain ⟨f1, f2, f3⟩ := hframe
    have hp0 : W0.entityPool = w.entityPool := by rw [hW0eq]
    refine ⟨hs, ?_, ?_, ?_, ?_, ?_, ?_⟩
    · simp only [List.length_range, hp0] at hgetN; exact hgetN
    · intro j; rw [hflags j]; simp only [hts0]
    · rw [f1, hW0eq]
    · rw [f2]; exact hsz1
    · rw [f2]; exact hsz2
    · intro e he; rw [f2]; exact hids e he

/-! ### non-vacuity -/

def demoPool : entityPool := { entities := ⟨#[⟨0#32, 0#32⟩, ⟨1#32, 0#32⟩, ⟨0#32, 4#32⟩], 4⟩, next := 2#32, available := 1#32, capacityIncrement := 4#32 }
def demoIdx : GoSlice entityIndex := ⟨#[default, ⟨some 0, 0#32⟩, default], 3⟩
def demoFlags : bitSet := { data := ⟨#[4#64], 1⟩ }
def demoCfg : P64.Config := { CapacityIncrement := 4, RelationCapacityIncrement := 4 }
def demoWorld : P64.World := { (default : P64.World) with entityPool := demoPool, entities := demoIdx, targetEntities := demoFlags, config := demoCfg }
def demoAlloc (n : Nat) (_ : Option Nat) (_ : P64.Entity) : Nat × BitVec 32 := (n + 1, BitVec.ofNat 32 (n + 10))
def demoShow (r : P64.World × Nat × P64.Entity) : List (Nat × Nat) × List (Nat × Nat) × List Nat :=
  (r.1.entityPool.entities.arr.toList.map (fun e => (e.id.toNat, e.gen.toNat)),
   r.1.entities.arr.toList.map (fun x => (x.arch.getD 99, x.index.toNat)),
   [r.2.2.id.toNat, r.2.2.gen.toNat, r.2.1, r.1.entities.cap, (r.1.targetEntities.data.arr.getD 0 0#64).toNat, r.1.targetEntities.data.arr.size])
/-- first call: the recycled handle (2, gen 4) — slot 2 overwritten, flag bit 2 cleared; second call: a fresh
    handle (3, gen 0) — the index (full: len = cap = 3) is re-allocated with capacity 3 + 4 and grows by one entry -/
def demoOut : Option (List (List (Nat × Nat) × List (Nat × Nat) × List Nat)) := do
  let r1 ← P64.World.createEntity demoAlloc demoWorld (some 7) 0
  let r2 ← P64.World.createEntity demoAlloc r1.1 (some 7) r1.2.1
  pure [demoShow r1, demoShow r2]
def demoExpected : Option (List (List (Nat × Nat) × List (Nat × Nat) × List Nat)) :=
  some [([(0, 0), (1, 0), (2, 4)], [(99, 0), (0, 0), (7, 10)], [2, 4, 1, 3, 0, 1]),
        ([(0, 0), (1, 0), (2, 4), (3, 0)], [(99, 0), (0, 0), (7, 10), (7, 11)], [3, 0, 2, 7, 0, 1])]
theorem demo_run : demoOut = demoExpected := by decide +kernel

/-- batch creation on a world whose index was cut back (length 3, capacity 8, junk behind it) and whose pool has one
    free slot: 3 new entities = the recycled handle (2, gen 4) and the fresh ones 3 and 4; the index is re-sliced to
    length 5 and every exposed slot is overwritten, so the junk (`stale`) does not show -/
def demoBatchWorld : P64.World := { demoWorld with entities := ⟨demoIdx.arr, 8⟩ }
def demoBatch (stale : Nat → entityIndex) : Option (List (Nat × Nat) × List (Nat × Nat) × List Nat) :=
  (P64.World.createEntities (Ext := List Nat) (fun log _ n => (log ++ [1000 + n.toNat], ())) (fun _ _ => 10#32)
      (fun log _ row e => (log ++ [row.toNat * 100 + e.id.toNat], ())) stale demoBatchWorld (some 7) 3#32 []).map (fun r =>
    (r.1.entityPool.entities.arr.toList.map (fun e => (e.id.toNat, e.gen.toNat)),
     r.1.entities.arr.toList.map (fun x => (x.arch.getD 99, x.index.toNat)),
     [r.1.entities.cap, r.1.entityPool.available.toNat] ++ r.2))
def demoBatchExpected : Option (List (Nat × Nat) × List (Nat × Nat) × List Nat) :=
  some ([(0, 0), (1, 0), (2, 4), (3, 0), (4, 0)], [(99, 0), (0, 0), (7, 10), (7, 11), (7, 12)], [8, 0, 1003, 1002, 1103, 1204])
theorem demo_batch : demoBatch (fun _ => ⟨some 55, 77#32⟩) = demoBatchExpected ∧ demoBatch (fun _ => default) = demoBatchExpected := by
  decide +kernel

end Arche.Props.C02_Create64
