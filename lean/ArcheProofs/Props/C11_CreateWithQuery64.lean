/-
  C11 (companion) — the Q variant of batch creation WITH component values (`World.newEntitiesWithQuery`, REGENERATED):
  `newEntitiesWithQuery_after` — whenever it returns, it has run the silent worker `newEntitiesWithNoNotify`, taken ONE
  lock on the world that worker produced, and hands back a batch query over a record with exactly one entry (the table
  the entities went into, rows `startIdx … Len`, no old table) that remembers that lock bit; the hidden state is the one
  the worker left (nobody has been told yet).
-/
import ArcheProofs.Props.C11_CreateQuery64

namespace Arche.Props.C11_CreateWithQuery64
open ArcheGen ArcheGen.P64 Arche Arche.Props

section
variable {Ext : Type}
  (archAllocNF : Ext → Option Nat → BitVec 32 → Ext × Unit)
  (archComponentsF : Ext → Option Nat → GoSlice (BitVec 8))
  (archGetEntityF : Ext → Option Nat → BitVec 32 → P64.Entity)
  (archHasComponentF : Ext → Option Nat → BitVec 8 → Bool)
  (archLenF : Ext → Option Nat → BitVec 32)
  (archNodeF : Ext → Option Nat → Option Nat)
  (archSetEntityF : Ext → Option Nat → BitVec 32 → P64.Entity → Ext × Unit)
  (archSetF : Ext → Option Nat → BitVec 32 → BitVec 8 → GoAny → Ext × GoAny)
  (findOrCreateF : Ext → P64.World → Option Nat → GoSlice (BitVec 8) → GoSlice (BitVec 8) → P64.Entity → Ext × P64.World × Option Nat)
  (nodeHasRelationF : Ext → Option Nat → Bool)
  (nodeRelationF : Ext → Option Nat → BitVec 8)
  (ofBatchF : P64.batchArchetypes → GoAny)
  (pagedGetF : Ext → Nat → BitVec 32 → Option Nat)
  (staleF : Nat → P64.entityIndex)

theorem newEntitiesWithQuery_after (w w' : P64.World) (count : Int) (targetID : BitVec 8) (hasTarget : Bool) (target : P64.Entity) (comps : GoSlice (P64.Component)) (ext : Ext) (ext' : Ext) (q : P64.Query)
    (h : P64.World.newEntitiesWithQuery archAllocNF archComponentsF archGetEntityF archHasComponentF archLenF archNodeF archSetEntityF archSetF findOrCreateF nodeHasRelationF nodeRelationF ofBatchF pagedGetF staleF w count targetID hasTarget target comps ext = some (w', ext', q)) :
    ∃ w0 e0 ids w1 arch start wl b,
      P64.World.newEntitiesWithNoNotify archAllocNF archGetEntityF archHasComponentF archLenF archNodeF archSetEntityF archSetF findOrCreateF nodeHasRelationF nodeRelationF pagedGetF staleF w0 count targetID hasTarget target ids comps e0 = some (w1, ext', arch, start) ∧
      P64.World.lock w1 = some wl ∧
      C11_CreateQuery64.createRecord archComponentsF archLenF ext' arch start = some b ∧
      w' = wl.1 ∧ q = C11_BatchQuery64.batchQuery ofBatchF wl.2 b := by
  unfold P64.World.newEntitiesWithQuery at h
  simp only [Option.bind_eq_bind, pure, C11_BatchQuery64.newBatchQuery_eq] at h
  obtain ⟨s1, -, h1⟩ := Option.bind_eq_some_iff.mp h
  obtain ⟨fr, -, h2⟩ := Option.bind_eq_some_iff.mp h1
  obtain ⟨r, hr, h3⟩ := Option.bind_eq_some_iff.mp h2
  obtain ⟨wl, hl, h4⟩ := Option.bind_eq_some_iff.mp h3
  obtain ⟨a, -, h5⟩ := Option.bind_eq_some_iff.mp h4
  obtain ⟨_, -, h6⟩ := Option.bind_eq_some_iff.mp h5
  obtain ⟨b, hb, h7⟩ := Option.bind_eq_some_iff.mp h6
  simp only [Option.bind_some, Option.some.injEq, Prod.mk.injEq] at h7
  obtain ⟨hw, he, hq⟩ := h7
  obtain ⟨w1, e1, arch, start⟩ := r
  subst he
  exact ⟨fr.1, fr.2.1, fr.2.2, w1, arch, start, wl, b, hr, hl, hb, hw.symm, hq.symm⟩

end
end Arche.Props.C11_CreateWithQuery64
