/-
  C03 (companion) — `Query.Count` / `countEntities` and `Query.EntityAt` / `entityAt` REGENERATED from ecs/query.go,
  with `batchArchetypes` (ecs/archetypes.go). Proved here for queries over a registered filter's table list:

  * `count_cached`: the count is the (32-bit) sum of the table lengths, the query is untouched;
  * `entityAt_cached`: random access scans the tables in list order with a running count and answers the entity at
    row `index − (rows of the tables before)` of the first table the index falls into (`locate`), and panics for a
    negative index or one beyond the last table; `locate_spec` says what `locate` answers in terms of prefix sums.
-/
import ArcheProofs.Props.C03_IterGen

namespace Arche.Props.C03_AtGen
open ArcheGen ArcheGen.P256 Arche.Props.C03_IterGen

theorem ofInt_size (n : Nat) (h : n < 2147483648) : (BitVec.ofInt 32 (n : Int)).toInt.toNat = n := by
  rw [toInt_ofInt32 _ (by omega) (by omega)]; omega

theorem toIndex_ofNat (i : Nat) (h : i < 2147483648) : GoInt.toIndex (BitVec.ofNat 32 i).toInt = some i := by
  have : (BitVec.ofNat 32 i).toInt = (i : Int) := by
    rw [BitVec.toInt_eq_toNat_cond]
    simp only [BitVec.toNat_ofNat]
    have : i % 2 ^ 32 = i := Nat.mod_eq_of_lt (by omega)
    rw [this]
    split <;> omega
  rw [this]
  simp [GoInt.toIndex]

/-! ### counting -/

section
variable (archLenF : Option Nat → BitVec 32) (archGetEntityF : Option Nat → BitVec 32 → Entity)

def cbody (st : Query × BitVec 32) (iN : Nat) : Option (Query × BitVec 32) :=
  (GoInt.toIndex (BitVec.ofNat 32 iN).toInt).bind fun n1 =>
    (GoSlice.get st.1.archetypes n1).bind fun t2 =>
      t2.bind fun _ => pure (st.1, st.2 + archLenF t2)

theorem cfold (q : Query) (hsz : q.archetypes.arr.size < 2147483648) (hsome : ∀ a ∈ q.archetypes.arr.toList, a.isSome = true) (n : Nat) :
    ∀ (k : Nat) (count : BitVec 32), k + n = q.archetypes.arr.size →
      List.foldlM (cbody archLenF) (q, count) (List.range' k n) =
        some (q, (q.archetypes.arr.toList.drop k).foldl (fun c a => c + archLenF a) count) := by
  induction n with
  | zero =>
    intro k count hk
    have : q.archetypes.arr.toList.drop k = [] := by
      apply List.drop_eq_nil_of_le; simp; omega
    simp [this]
  | succ n ih =>
    intro k count hk
    have hkl : k < q.archetypes.arr.size := by omega
    have hget : GoSlice.get q.archetypes k = some q.archetypes.arr[k] := by
      simp [GoSlice.get, Array.getElem?_eq_getElem hkl]
    have hs : (q.archetypes.arr[k]).isSome = true := hsome _ (by simp [Array.getElem_mem_toList])
    obtain ⟨v, hv⟩ := Option.isSome_iff_exists.mp hs
    have hstep : cbody archLenF (q, count) k = some (q, count + archLenF q.archetypes.arr[k]) := by
      simp only [cbody, toIndex_ofNat k (by omega), Option.bind_eq_bind, Option.bind_some, hget, hv, pure]
    have hdrop : q.archetypes.arr.toList.drop k = q.archetypes.arr[k] :: q.archetypes.arr.toList.drop (k + 1) := by
      rw [List.drop_eq_getElem_cons (by simpa using hkl)]; simp
    rw [List.range'_succ, List.foldlM_cons, hstep]
    simp only [Option.bind_eq_bind, Option.bind_some]
    rw [ih (k + 1) _ (by omega), hdrop, List.foldl_cons]

variable (archsGetF : GoAny → BitVec 32 → Option Nat) (archsLenF : GoAny → BitVec 32)
  (asBatchF : GoAny → Option batchArchetypes) (nodeActiveF : Option Nat → Bool)
  (nodeArchMapF : Option Nat → Entity → Option (Option Nat)) (nodeArchetypesF : Option Nat → GoAny)
  (nodeHasRelationF : Option Nat → Bool) (nodeMatchesF : Option Nat → GoAny → Bool) (relationTargetF : GoAny → Option Entity)

/-- **the count of a query over a registered filter is the sum of the lengths of its tables** (32-bit sum, as the
    code computes it); counting does not move the query -/
theorem count_cached (q : Query) (hf : q.isFiltered = true) (hsz : q.archetypes.arr.size < 2147483648)
    (hsome : ∀ a ∈ q.archetypes.arr.toList, a.isSome = true) :
    Query.countEntities archLenF archsGetF archsLenF asBatchF nodeActiveF nodeArchMapF nodeArchetypesF nodeHasRelationF nodeMatchesF relationTargetF q =
      some (q, (((q.archetypes.arr.toList.foldl (fun c a => c + archLenF a) 0#32).toNat : Nat) : Int)) := by
  unfold Query.countEntities
  simp only [hf, ↓reduceIte, GoSlice.size, ofInt_size _ hsz, Option.bind_eq_bind, pure]
  have h := cfold archLenF q hsz hsome q.archetypes.arr.size 0 0#32 (by omega)
  rw [← List.range_eq_range'] at h
  change (Option.bind (List.foldlM (cbody archLenF) (q, 0#32) (List.range q.archetypes.arr.size)) _) = _
  rw [h]
  simp

/-- `Count` caches the result in the query (`count` field, −1 = not counted yet) -/
theorem count_cached_Count (q : Query) (hf : q.isFiltered = true) (hsz : q.archetypes.arr.size < 2147483648)
    (hsome : ∀ a ∈ q.archetypes.arr.toList, a.isSome = true) (hfresh : BitVec.sle 0#32 q.count = false) :
    ∃ q' n, Query.Count archLenF archsGetF archsLenF asBatchF nodeActiveF nodeArchMapF nodeArchetypesF nodeHasRelationF nodeMatchesF relationTargetF q = some (q', n) ∧
      q' = { q with count := BitVec.ofInt 32 (((q.archetypes.arr.toList.foldl (fun c a => c + archLenF a) 0#32).toNat : Nat) : Int) } := by
  unfold Query.Count
  simp only [hfresh, Bool.false_eq_true, ↓reduceIte, Option.bind_eq_bind, pure,
    count_cached archLenF archsGetF archsLenF asBatchF nodeActiveF nodeArchMapF nodeArchetypesF nodeHasRelationF nodeMatchesF relationTargetF q hf hsz hsome,
    Option.bind_some]
  exact ⟨_, _, rfl, rfl⟩

/-! ### random access -/

/-- scanning table lengths with a running count: the position of the first table the index falls into, and the row in it -/
def locate : List (BitVec 32) → Nat → BitVec 32 → BitVec 32 → Option (Nat × BitVec 32)
  | [], _, _, _ => none
  | ln :: rest, pos, count, idx => if BitVec.ult idx (count + ln) then some (pos, idx - count) else locate rest (pos + 1) (count + ln) idx

/-- what `locate` answers when the lengths do not overflow 32 bits: `idx` lies in table `pos`, behind exactly the
    rows of the tables before it; nothing, when `idx` is beyond all tables -/
theorem locate_spec (lens : List (BitVec 32)) (p0 : Nat) (count idx : BitVec 32)
    (hno : count.toNat + (lens.map (·.toNat)).sum < 4294967296) (hc : count.toNat ≤ idx.toNat) :
    match locate lens p0 count idx with
    | some (pos, row) => p0 ≤ pos ∧ pos - p0 < lens.length ∧
        row.toNat = idx.toNat - (count.toNat + ((lens.take (pos - p0)).map (·.toNat)).sum) ∧
        count.toNat + ((lens.take (pos - p0)).map (·.toNat)).sum ≤ idx.toNat ∧
        idx.toNat < count.toNat + ((lens.take (pos - p0 + 1)).map (·.toNat)).sum
    | none => count.toNat + (lens.map (·.toNat)).sum ≤ idx.toNat := by
  induction lens generalizing p0 count with
  | nil => simp [locate]; omega
  | cons ln rest ih =>
    simp only [List.map_cons, List.sum_cons] at hno
    have hadd : (count + ln).toNat = count.toNat + ln.toNat := by
      rw [BitVec.toNat_add]; exact Nat.mod_eq_of_lt (by omega)
    unfold locate
    by_cases hlt : BitVec.ult idx (count + ln) = true
    · simp only [hlt, ↓reduceIte]
      have hlt' : idx.toNat < count.toNat + ln.toNat := by
        have := hlt; simp only [BitVec.ult, decide_eq_true_eq] at this; omega
      refine ⟨Nat.le_refl _, by simp, ?_, by simp; omega, by simp; omega⟩
      rw [BitVec.toNat_sub_of_le (by simp [BitVec.le_def]; omega)]
      simp
    · have hge : count.toNat + ln.toNat ≤ idx.toNat := by
        have : BitVec.ult idx (count + ln) = false := by simpa using hlt
        simp only [BitVec.ult, decide_eq_false_iff_not] at this; omega
      simp only [hlt, Bool.false_eq_true, ↓reduceIte]
      have := ih (p0 + 1) (count + ln) (by rw [hadd]; omega) (by rw [hadd]; omega)
      cases hl : locate rest (p0 + 1) (count + ln) idx with
      | none =>
        simp only [hl] at this
        simp only [List.map_cons, List.sum_cons]
        rw [hadd] at this; omega
      | some r =>
        obtain ⟨pos, row⟩ := r
        simp only [hl] at this
        obtain ⟨h1, h2, h3, h4, h5⟩ := this
        have hpp : pos - p0 = (pos - (p0 + 1)) + 1 := by omega
        refine ⟨by omega, by simp; omega, ?_, ?_, ?_⟩
        · rw [hpp, List.take_succ_cons, List.map_cons, List.sum_cons, h3, hadd]; omega
        · rw [hpp, List.take_succ_cons, List.map_cons, List.sum_cons]; rw [hadd] at h4; omega
        · rw [show pos - p0 + 1 = (pos - (p0 + 1) + 1) + 1 by omega, List.take_succ_cons, List.map_cons, List.sum_cons]; rw [hadd] at h5; omega

def abody (idx : BitVec 32) (st : Query × BitVec 32 × Option Entity) (iN : Nat) : Option (Query × BitVec 32 × Option Entity) :=
  if st.2.2.isSome = true then pure (st.1, st.2.1, st.2.2)
  else
    (GoInt.toIndex (BitVec.ofNat 32 iN).toInt).bind fun n2 =>
      (GoSlice.get st.1.archetypes n2).bind fun t3 =>
        t3.bind fun _ =>
          if BitVec.ult idx (st.2.1 + archLenF t3) = true then
            (GoInt.toIndex (BitVec.ofNat 32 iN).toInt).bind fun n4 =>
              (GoSlice.get st.1.archetypes n4).bind fun t5 =>
                t5.bind fun _ => pure (st.1, st.2.1, some (archGetEntityF t5 (idx - st.2.1)))
          else pure (st.1, st.2.1 + archLenF t3, (none : Option Entity))

theorem afold_done (idx : BitVec 32) (q : Query) (c : BitVec 32) (e : Entity) (l : List Nat) :
    List.foldlM (abody archLenF archGetEntityF idx) (q, c, some e) l = some (q, c, some e) := by
  induction l with
  | nil => rfl
  | cons a l ih => rw [List.foldlM_cons]; simp only [abody, Option.isSome_some, ↓reduceIte, pure, Option.bind_eq_bind, Option.bind_some]; exact ih

theorem afold (idx : BitVec 32) (q : Query) (hsz : q.archetypes.arr.size < 2147483648) (hsome : ∀ a ∈ q.archetypes.arr.toList, a.isSome = true) (n : Nat) :
    ∀ (k : Nat) (count : BitVec 32), k + n = q.archetypes.arr.size →
      ∃ c', List.foldlM (abody archLenF archGetEntityF idx) (q, count, none) (List.range' k n) =
        some (q, c', (locate ((q.archetypes.arr.toList.drop k).map archLenF) k count idx).map
          (fun pr => archGetEntityF (q.archetypes.arr.toList[pr.1]?.getD none) pr.2)) := by
  induction n with
  | zero =>
    intro k count hk
    have : q.archetypes.arr.toList.drop k = [] := by
      apply List.drop_eq_nil_of_le; simp; omega
    exact ⟨count, by simp [this, locate]⟩
  | succ n ih =>
    intro k count hk
    have hkl : k < q.archetypes.arr.size := by omega
    have hget : GoSlice.get q.archetypes k = some q.archetypes.arr[k] := by
      simp [GoSlice.get, Array.getElem?_eq_getElem hkl]
    have hs : (q.archetypes.arr[k]).isSome = true := hsome _ (by simp)
    obtain ⟨v, hv⟩ := Option.isSome_iff_exists.mp hs
    have hdrop : q.archetypes.arr.toList.drop k = q.archetypes.arr[k] :: q.archetypes.arr.toList.drop (k + 1) := by
      rw [List.drop_eq_getElem_cons (by simpa using hkl)]; simp
    have hlk : q.archetypes.arr.toList[k]? = some q.archetypes.arr[k] := by simp [Array.getElem?_eq_getElem hkl]
    rw [List.range'_succ, List.foldlM_cons, hdrop, List.map_cons]
    unfold locate
    by_cases hlt : BitVec.ult idx (count + archLenF q.archetypes.arr[k]) = true
    · have hstep : abody archLenF archGetEntityF idx (q, count, none) k = some (q, count, some (archGetEntityF q.archetypes.arr[k] (idx - count))) := by
        simp only [abody, Option.isSome_none, Bool.false_eq_true, ↓reduceIte, toIndex_ofNat k (by omega), Option.bind_eq_bind, Option.bind_some, hget, hv, pure]
        rw [← hv]; simp [hlt]
      rw [hstep]
      simp only [Option.bind_eq_bind, Option.bind_some, hlt, ↓reduceIte, Option.map_some, hlk, Option.getD_some]
      exact ⟨count, afold_done archLenF archGetEntityF idx q count _ _⟩
    · have hstep : abody archLenF archGetEntityF idx (q, count, none) k = some (q, count + archLenF q.archetypes.arr[k], none) := by
        simp only [abody, Option.isSome_none, Bool.false_eq_true, ↓reduceIte, toIndex_ofNat k (by omega), Option.bind_eq_bind, Option.bind_some, hget, hv, pure]
        rw [← hv]; simp [hlt]
      rw [hstep]
      simp only [Option.bind_eq_bind, Option.bind_some, hlt, Bool.false_eq_true, ↓reduceIte]
      exact ih (k + 1) _ (by omega)

/-- **random access into a query over a registered filter**: a negative index panics; otherwise the tables are scanned
    in list order with a running count, the answer is the entity at row `index − count` of the first table whose
    rows reach beyond the index (`locate`, explained by `locate_spec`), and an index beyond the last table panics;
    the query is untouched -/
theorem entityAt_cached (q : Query) (index : Int) (hf : q.isFiltered = true) (hsz : q.archetypes.arr.size < 2147483648)
    (hsome : ∀ a ∈ q.archetypes.arr.toList, a.isSome = true) :
    Query.entityAt archGetEntityF archLenF archsGetF archsLenF asBatchF nodeActiveF nodeArchMapF nodeArchetypesF nodeHasRelationF nodeMatchesF relationTargetF q index =
      if index < 0 then none
      else (locate (q.archetypes.arr.toList.map archLenF) 0 0#32 (BitVec.ofInt 32 index)).map
        (fun pr => (q, archGetEntityF (q.archetypes.arr.toList[pr.1]?.getD none) pr.2)) := by
  unfold Query.entityAt
  by_cases hneg : index < 0
  · simp [hneg]
  · simp only [hneg, decide_false, Bool.false_eq_true, ↓reduceIte, hf, GoSlice.size, ofInt_size _ hsz, Option.bind_eq_bind, pure]
    obtain ⟨c', h⟩ := afold archLenF archGetEntityF (BitVec.ofInt 32 index) q hsz hsome q.archetypes.arr.size 0 0#32 (by omega)
    rw [← List.range_eq_range'] at h
    change (Option.bind (List.foldlM (abody archLenF archGetEntityF (BitVec.ofInt 32 index)) (q, 0#32, none) (List.range q.archetypes.arr.size)) _) = _
    rw [h]
    simp only [List.drop_zero, Option.bind_some]
    cases locate (List.map archLenF q.archetypes.arr.toList) 0 0#32 (BitVec.ofInt 32 index) <;> rfl

/-! ### random access into the query a batch operation returns -/

/-- scanning the recorded row ranges `[start, end)` with a running count: the entry the index falls into and the row
    **inside the destination table** — `start` plus the offset within the range -/
def locateB : List (BitVec 32 × BitVec 32) → Nat → BitVec 32 → BitVec 32 → Option (Nat × BitVec 32)
  | [], _, _, _ => none
  | (st, en) :: rest, pos, count, idx =>
    if BitVec.ult idx (count + (en - st)) then some (pos, st + idx - count) else locateB rest (pos + 1) (count + (en - st)) idx

def bbody (b : batchArchetypes) (idx : BitVec 32) (st : Query × BitVec 32 × Option Entity) (jN : Nat) : Option (Query × BitVec 32 × Option Entity) :=
  if st.2.2.isSome = true then pure (st.1, st.2.1, st.2.2)
  else
    (GoInt.toIndex (BitVec.ofNat 32 jN).toInt).bind fun n9 =>
      (GoSlice.get b.EndIndex n9).bind fun t10 =>
        (GoInt.toIndex (BitVec.ofNat 32 jN).toInt).bind fun n11 =>
          (GoSlice.get b.StartIndex n11).bind fun t12 =>
            if BitVec.ult idx (st.2.1 + (t10 - t12)) = true then
              (GoInt.toIndex (BitVec.ofNat 32 jN).toInt).bind fun n13 =>
                (GoSlice.get b.StartIndex n13).bind fun t14 =>
                  (GoInt.toIndex (BitVec.ofNat 32 jN).toInt).bind fun n15 =>
                    (GoSlice.get b.Archetype n15).bind fun t16 =>
                      t16.bind fun _ => pure (st.1, st.2.1, some (archGetEntityF t16 (t14 + idx - st.2.1)))
            else pure (st.1, st.2.1 + (t10 - t12), (none : Option Entity))

theorem bfold_done (b : batchArchetypes) (idx : BitVec 32) (q : Query) (c : BitVec 32) (e : Entity) (l : List Nat) :
    List.foldlM (bbody archGetEntityF b idx) (q, c, some e) l = some (q, c, some e) := by
  induction l with
  | nil => rfl
  | cons a l ih => rw [List.foldlM_cons]; simp only [bbody, Option.isSome_some, ↓reduceIte, pure, Option.bind_eq_bind, Option.bind_some]; exact ih

theorem bfold (b : batchArchetypes) (idx : BitVec 32) (q : Query) (hsz : b.Archetype.arr.size < 2147483648)
    (hs1 : b.StartIndex.arr.size = b.Archetype.arr.size) (hs2 : b.EndIndex.arr.size = b.Archetype.arr.size)
    (hsome : ∀ a ∈ b.Archetype.arr.toList, a.isSome = true) (n : Nat) :
    ∀ (k : Nat) (count : BitVec 32), k + n = b.Archetype.arr.size →
      ∃ c', List.foldlM (bbody archGetEntityF b idx) (q, count, none) (List.range' k n) =
        some (q, c', (locateB ((b.StartIndex.arr.toList.zip b.EndIndex.arr.toList).drop k) k count idx).map
          (fun pr => archGetEntityF (b.Archetype.arr.toList[pr.1]?.getD none) pr.2)) := by
  induction n with
  | zero =>
    intro k count hk
    have : (b.StartIndex.arr.toList.zip b.EndIndex.arr.toList).drop k = [] := by
      apply List.drop_eq_nil_of_le; simp; omega
    exact ⟨count, by simp [this, locateB]⟩
  | succ n ih =>
    intro k count hk
    have hkl : k < b.Archetype.arr.size := by omega
    have hk1 : k < b.StartIndex.arr.size := by omega
    have hk2 : k < b.EndIndex.arr.size := by omega
    have hgetA : GoSlice.get b.Archetype k = some b.Archetype.arr[k] := by simp [GoSlice.get, Array.getElem?_eq_getElem hkl]
    have hgetS : GoSlice.get b.StartIndex k = some b.StartIndex.arr[k] := by simp [GoSlice.get, Array.getElem?_eq_getElem hk1]
    have hgetE : GoSlice.get b.EndIndex k = some b.EndIndex.arr[k] := by simp [GoSlice.get, Array.getElem?_eq_getElem hk2]
    have hs : (b.Archetype.arr[k]).isSome = true := hsome _ (by simp)
    obtain ⟨v, hv⟩ := Option.isSome_iff_exists.mp hs
    have hdrop : (b.StartIndex.arr.toList.zip b.EndIndex.arr.toList).drop k =
        (b.StartIndex.arr[k], b.EndIndex.arr[k]) :: (b.StartIndex.arr.toList.zip b.EndIndex.arr.toList).drop (k + 1) := by
      rw [List.drop_eq_getElem_cons (by simp; omega)]; simp
    have hlk : b.Archetype.arr.toList[k]? = some b.Archetype.arr[k] := by simp [Array.getElem?_eq_getElem hkl]
    rw [List.range'_succ, List.foldlM_cons, hdrop]
    unfold locateB
    by_cases hlt : BitVec.ult idx (count + (b.EndIndex.arr[k] - b.StartIndex.arr[k])) = true
    · have hstep : bbody archGetEntityF b idx (q, count, none) k =
          some (q, count, some (archGetEntityF b.Archetype.arr[k] (b.StartIndex.arr[k] + idx - count))) := by
        simp only [bbody, Option.isSome_none, Bool.false_eq_true, ↓reduceIte, toIndex_ofNat k (by omega), Option.bind_eq_bind, Option.bind_some,
          hgetA, hgetS, hgetE, hlt, pure]
        rw [hv]; rfl
      rw [hstep]
      simp only [Option.bind_eq_bind, Option.bind_some, hlt, ↓reduceIte, Option.map_some, hlk, Option.getD_some]
      exact ⟨count, bfold_done archGetEntityF b idx q count _ _⟩
    · have hstep : bbody archGetEntityF b idx (q, count, none) k = some (q, count + (b.EndIndex.arr[k] - b.StartIndex.arr[k]), none) := by
        simp only [bbody, Option.isSome_none, Bool.false_eq_true, ↓reduceIte, toIndex_ofNat k (by omega), Option.bind_eq_bind, Option.bind_some,
          hgetS, hgetE, hlt, pure]
      rw [hstep]
      simp only [Option.bind_eq_bind, Option.bind_some, hlt, Bool.false_eq_true, ↓reduceIte]
      exact ih (k + 1) _ (by omega)

/-- **random access into the result query of a batch operation** (`NewBatchQ`, `AddQ`, `ExchangeQ`, `SetRelationQ` …):
    the recorded entries are scanned in order; the answer is the entity of the entry's destination table at row
    `StartIndex + (index − rows of the entries before)` — the rows the operation appended BEHIND those the table
    already held — and an index beyond the last entry (or a negative one) panics -/
theorem entityAt_batch (q : Query) (index : Int) (b : batchArchetypes) (hf : q.isFiltered = false) (hb : q.isBatch = true)
    (hq : asBatchF q.nodeArchetypes = some b) (hsz : b.Archetype.arr.size < 2147483648)
    (hs1 : b.StartIndex.arr.size = b.Archetype.arr.size) (hs2 : b.EndIndex.arr.size = b.Archetype.arr.size)
    (hsome : ∀ a ∈ b.Archetype.arr.toList, a.isSome = true) :
    Query.entityAt archGetEntityF archLenF archsGetF archsLenF asBatchF nodeActiveF nodeArchMapF nodeArchetypesF nodeHasRelationF nodeMatchesF relationTargetF q index =
      if index < 0 then none
      else (locateB (b.StartIndex.arr.toList.zip b.EndIndex.arr.toList) 0 0#32 (BitVec.ofInt 32 index)).map
        (fun pr => (q, archGetEntityF (b.Archetype.arr.toList[pr.1]?.getD none) pr.2)) := by
  unfold Query.entityAt
  by_cases hneg : index < 0
  · simp [hneg]
  · simp only [hneg, decide_false, Bool.false_eq_true, ↓reduceIte, hf, hb, hq, batchArchetypes.Len, GoSlice.size, ofInt_size _ hsz,
      Option.bind_eq_bind, Option.bind_some, pure]
    obtain ⟨c', h⟩ := bfold archGetEntityF b (BitVec.ofInt 32 index) q hsz hs1 hs2 hsome b.Archetype.arr.size 0 0#32 (by omega)
    rw [← List.range_eq_range'] at h
    change (Option.bind (List.foldlM (bbody archGetEntityF b (BitVec.ofInt 32 index)) (q, 0#32, none) (List.range b.Archetype.arr.size)) _) = _
    rw [h]
    simp only [List.drop_zero, Option.bind_some]
    cases locateB (b.StartIndex.arr.toList.zip b.EndIndex.arr.toList) 0 0#32 (BitVec.ofInt 32 index) <;> rfl

end

/-- a batch creation into a table that already holds two rows: entry (start 2, end 5); index 1 is row 3, not row 1 -/
example : locateB [(2#32, 5#32)] 0 0#32 1#32 = some (0, 3#32) := by decide

/-- tables with 2, 0 and 3 rows: index 3 is row 1 of the third table; index 5 is out of range -/
example : locate [2#32, 0#32, 3#32] 0 0#32 3#32 = some (2, 1#32) ∧ locate [2#32, 0#32, 3#32] 0 0#32 5#32 = none := by decide

end Arche.Props.C03_AtGen
