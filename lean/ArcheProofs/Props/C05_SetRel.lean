/-
  C05 (companion) — `Relations.Set` on the model, for every world satisfying the global
  invariant (hence every reachable world, C01_Reach): a successful call that changes the target
  moves the entity to the table of its relation node for the new target; afterwards the entity
  reports the **new target**, the same component set and the same value for every component;
  every other entity reports exactly what it reported before (`setRelation_view`). A call with
  the target the entity already has changes nothing (`setRelation_same`). A dead target, a
  missing or non-relation component panic before any change (C10).
-/
import ArcheProofs.Lemmas.SetRel

namespace Arche.Props.C05.SetRel
open Arche Arche.World Arche.Arr Arche.Storage Arche.IndexInv Arche.SameRows Arche.Graph Arche.Closed Arche.TInv Arche.KInv Arche.Move Arche.Remove Arche.Cov Arche.Cache Arche.SInv Arche.DInv Arche.Create Arche.Frames Arche.BatchOps Arche.GInv Arche.GOps Arche.GVals Arche.MoveTail Arche.SetRel
open Arche.Props.C01 (At)
open Arche.Props.C08 (view mkView view_of_at at_of_view view_none EView)

/-- setting the target the entity already has is a no-op -/
theorem setRelation_same (w : World) (e : Entity) (comp : CompId) (target : Entity) (hok : (w.setRelation e comp target).out = .ok ())
    (h : (w.tableOf (w.locOf e).tbl).target = target) : (w.setRelation e comp target).w = w :=
  (setRelation_world w e comp target hok).2.2.2.2.1 (by rw [h]; simp)

/-- **Relations.Set**: the entity reports the new target and unchanged components and values;
    nobody else changes -/
theorem setRelation_view (w : World) (issued live : List Entity) (G : GInv w issued live) (e : Entity) (hi : e ∈ issued)
    (comp : CompId) (target : Entity) (hok : (w.setRelation e comp target).out = .ok ())
    (hdiffer : (w.tableOf (w.locOf e).tbl).target ≠ target) :
    (∃ v v', view w e.id = some v ∧ view (w.setRelation e comp target).w e.id = some v' ∧
      v'.ent = e ∧ v.ent = e ∧ v'.mask = v.mask ∧ (∀ c, v'.comps c = v.comps c) ∧ v'.target = target) ∧
    (∀ id, id ≠ e.id → view (w.setRelation e comp target).w id = view w id) := by
  obtain ⟨_, ha, _, hcr, _, hdiff⟩ := setRelation_world w e comp target hok
  have hs' : ((w.tableOf (w.locOf e).tbl).target == target) = false := by simpa using hdiffer
  rw [hdiff hs']
  obtain ⟨hlive, hloc, hent⟩ := alive_issued w issued live G e hi ha
  have hv := (G.k.idx.fwd _ _ hloc).1
  have hn := G.k.node.tnode _ hv.1
  have hrel : (w.nodeOf (w.tableOf (w.locOf e).tbl).node).rel.isSome = true := by
    unfold checkRelation nodeOfTable at hcr
    simp only [] at hcr
    split at hcr
    · rename_i h; simp only [beq_iff_eq] at h; rw [h]; rfl
    · split at hcr <;> cases hcr
  obtain ⟨G1, s1, m1, htlt, hnode, hact, htgt, hframe⟩ := relTable_spec w issued live G _ hn target hrel
  generalize hrt : relTable w (w.tableOf (w.locOf e).tbl).node target = rt at *
  obtain ⟨w1, t⟩ := rt
  simp only [] at G1 s1 m1 htlt hnode hact htgt hframe ⊢
  have hloc1 : loc w1 e.id = some (w.locOf e) := by rw [SameRows.loc_eq s1]; exact hloc
  have hent1 : (rowAt w1 (w.locOf e).tbl (w.locOf e).row).ent = e := by rw [SameRows.rowAt_eq s1 _ _ hv.1]; exact hent
  have hact0 : (w.tableOf (w.locOf e).tbl).active = true := BatchLoop.active_of_nonempty w G.k _ hv.1 (by have := hv.2; omega)
  have htne : t ≠ (w.locOf e).tbl := by
    intro heq
    rw [heq, hframe _ hv.1 hact0] at htgt
    exact hdiffer htgt
  obtain ⟨k5, s5, ds, sz, hpool, htsize, hat, hoth, hnone, hfields, hmeta⟩ :=
    moveTail_spec w1 G1.k G1.s e (w.locOf e) t target hloc1 hent1 htlt htne hact
  generalize hw5 : moved w1 e (w.locOf e) t target = w5 at *
  have hv1 : (w.locOf e).tbl < w1.tables.size := Nat.lt_of_lt_of_le hv.1 s1.tsize
  -- the destination table belongs to the same node as the source table
  have hnode1 : (w1.tableOf t).node = (w1.tableOf (w.locOf e).tbl).node := by rw [hnode, (s1.rows _ hv.1).2]
  have hids_t : w1.tableIds t = w1.tableIds (w.locOf e).tbl := by unfold tableIds nodeOfTable; rw [hnode1]
  have hmask_t : w1.tableMask t = w1.tableMask (w.locOf e).tbl := by unfold tableMask nodeOfTable; rw [hnode1]
  refine ⟨⟨_, _, view_of_at w e.id _ _ ⟨w.locOf e, hloc, rfl, rfl⟩, view_of_at w5 e.id t _ hat, rfl, hent, ?_, ?_, ?_⟩, ?_⟩
  · show w5.tableMask t = w.tableMask (w.locOf e).tbl
    rw [(hmeta t htlt).2.1, hmask_t, SameRows.tableMask_eq s1 G.k.node.tnode _ hv.1]
  · intro c
    show (colOf (w5.tableIds t) c).map _ = (colOf (w.tableIds (w.locOf e).tbl) c).map _
    rw [(hmeta t htlt).1, hids_t, SameRows.tableIds_eq s1 G.k.node.tnode _ hv.1, SameRows.rowAt_eq s1 _ _ hv.1]
    cases hc : colOf (w.tableIds (w.locOf e).tbl) c with
    | none => rfl
    | some k =>
      simp only [Option.map_some, Option.some.injEq]
      rw [movedVals_get _ _ _ c k hc, hc]
  · show (w5.tableOf t).target = target
    rw [(hfields t).1, htgt]
  · intro id hid
    cases hl0 : loc w id with
    | none =>
      rw [view_none w id hl0, view_none w5 id (hnone id hid (by rw [SameRows.loc_eq s1]; exact hl0))]
    | some l0 =>
      have hl1 : loc w1 id = some l0 := by rw [SameRows.loc_eq s1]; exact hl0
      obtain ⟨l', a, b, c⟩ := hoth id l0 hid hl1
      have hv0 := (G.k.idx.fwd id l0 hl0).1
      have hact00 : (w.tableOf l0.tbl).active = true := BatchLoop.active_of_nonempty w G.k _ hv0.1 (by have := hv0.2; omega)
      have hlt1 : l0.tbl < w1.tables.size := Nat.lt_of_lt_of_le hv0.1 s1.tsize
      rw [view_of_at w id l0.tbl _ ⟨l0, hl0, rfl, rfl⟩, view_of_at w5 id l0.tbl (rowAt w l0.tbl l0.row) ⟨l', a, b, by rw [c, SameRows.rowAt_eq s1 _ _ hv0.1]⟩]
      unfold mkView
      rw [(hmeta l0.tbl hlt1).1, (hmeta l0.tbl hlt1).2.1, (hfields l0.tbl).1, hframe _ hv0.1 hact00,
        SameRows.tableIds_eq s1 G.k.node.tnode _ hv0.1, SameRows.tableMask_eq s1 G.k.node.tnode _ hv0.1]

end Arche.Props.C05.SetRel
