/-
  C09 companion — the world-level lock API (`World.lock`, `World.unlock`, `World.IsLocked`,
  `World.checkLocked`; ecs/world.go, ecs/world_internal.go), REGENERATED on every run on a view of the
  `World` struct (its `locks` field), is the lock mask of the model: taking and releasing a lock is
  `LockMask.lock` / `LockMask.unlock` on the abstraction (`C09_LockPool`), nothing else of the world
  changes, and `checkLocked` — the guard at the head of every structural operation — panics exactly
  when the model's world is locked and otherwise leaves the world as it is.
-/
import ArcheProofs.Props.C09_LockPool
import ArcheProofs.Props.C02_Pool

namespace Arche.Props.C09_WorldLock
open ArcheGen ArcheGen.P256 Arche Arche.Props

theorem isLocked_eq (gw : P256.World) :
    P256.World.IsLocked gw = some (gw, LockMask.isLocked (C09_LockPool.absLM gw.locks)) := by
  have h := C09_LockPool.isLocked_refines gw.locks
  unfold P256.World.IsLocked
  cases hl : lockMask.IsLocked gw.locks with
  | none => rw [hl] at h; cases h
  | some r =>
    obtain ⟨o, b⟩ := r
    rw [hl] at h
    simp only [Option.map_some, Option.some.injEq] at h
    have ho : o = gw.locks := by
      unfold lockMask.IsLocked at hl
      simp only [pure, Option.some.injEq, Prod.mk.injEq] at hl
      exact hl.1.symm
    subst ho
    simp only [bind, Option.bind, pure, h]

/-- **`checkLocked` panics exactly when the model's world is locked** and changes nothing otherwise -/
theorem checkLocked_spec (gw : P256.World) :
    P256.World.checkLocked gw = if LockMask.isLocked (C09_LockPool.absLM gw.locks) = true then none else some gw := by
  unfold P256.World.checkLocked
  rw [isLocked_eq]
  simp only [bind, Option.bind, pure]

/-- **taking a lock** is the model's `LockMask.lock`; only the `locks` field changes -/
theorem lock_spec (gw : P256.World) (hs : gw.locks.bitPool.bits.size = 256) :
    (P256.World.lock gw).map (fun r => (C09_LockPool.absLM r.1.locks, r.2.toNat)) = LockMask.lock (C09_LockPool.absLM gw.locks) ∧
    (∀ r, P256.World.lock gw = some r → r.1.nodePointers = gw.nodePointers ∧ r.1.filterCache = gw.filterCache ∧
      r.1.entityPool = gw.entityPool ∧ r.1.resources = gw.resources) := by
  have h := C09_LockPool.lock_refines gw.locks hs
  unfold P256.World.lock
  cases hl : lockMask.Lock gw.locks with
  | none =>
    rw [hl] at h
    exact ⟨by simpa [bind, Option.bind] using h, fun r hr => by simp [bind, Option.bind] at hr⟩
  | some r =>
    obtain ⟨o, b⟩ := r
    rw [hl] at h
    refine ⟨by simpa [bind, Option.bind, pure] using h, ?_⟩
    intro r hr
    simp only [bind, Option.bind, pure, Option.some.injEq] at hr
    subst hr
    exact ⟨rfl, rfl, rfl, rfl⟩

/-- **releasing a lock** is the model's `LockMask.unlock` (same refusal of an unbalanced unlock) -/
theorem unlock_spec (gw : P256.World) (l : BitVec 8) (hs : gw.locks.bitPool.bits.size = 256)
    (hav : gw.locks.bitPool.available.toNat < 2 ^ 16 - 1) :
    (P256.World.unlock gw l).map (fun r => C09_LockPool.absLM r.locks) = LockMask.unlock (C09_LockPool.absLM gw.locks) l.toNat := by
  have h := C09_LockPool.unlock_refines gw.locks l hs hav
  unfold P256.World.unlock
  cases hl : lockMask.Unlock gw.locks l with
  | none => rw [hl] at h; simpa [bind, Option.bind] using h
  | some o => rw [hl] at h; simpa [bind, Option.bind, pure] using h

/-- `World.Alive` is the entity pool's answer -/
theorem alive_spec (gw : P256.World) (e : P256.Entity) :
    (P256.World.Alive gw e).map (·.2) = Pool.alive? (C02_Pool.absPool gw.entityPool) (C02_Pool.absE e) := by
  have h := (C02_Pool.alive_refines gw.entityPool e).1
  unfold P256.World.Alive
  cases ha : entityPool.Alive gw.entityPool e with
  | none => rw [ha] at h; simpa [bind, Option.bind] using h
  | some r => obtain ⟨o, b⟩ := r; rw [ha] at h; simpa [bind, Option.bind, pure] using h

end Arche.Props.C09_WorldLock
