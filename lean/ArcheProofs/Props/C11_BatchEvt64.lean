/-
  C11 (companion) — what the deferred notifier (`World.notifyQuery`, REGENERATED) tells the listener about one recorded
  entry of an exchange batch, in closed form, and that it is the event the single operation would have produced
  (`C11_ExchangeEvt64.eventOf`): "batch operations emit the same events as the equivalent single operations".
-/
import ArcheProofs.Props.C12_NotifyGen64
import ArcheProofs.Props.C11_ExchangeEvt64
import ArcheProofs.Props.C11_CreateEvt64

namespace Arche.Props.C11_BatchEvt64
open ArcheGen ArcheGen.P64 Arche.Props.C12_NotifyGen64

section
variable {Ext : Type}
  (archGetEntityF : Ext → Option Nat → BitVec 32 → P64.Entity) (archHasRelCompF : Ext → Option Nat → Bool)
  (archMaskF : Ext → Option Nat → ArcheGen.M64.Mask) (archNodeF : Ext → Option Nat → Option Nat)
  (archRelCompF : Ext → Option Nat → BitVec 8) (archTargetF : Ext → Option Nat → P64.Entity)
  (lstCompsF : Ext → GoAny → Option (ArcheGen.M64.Mask)) (lstSubsF : Ext → GoAny → BitVec 8)
  (nodeMaskF : Ext → Option Nat → ArcheGen.M64.Mask) (notifyF : Ext → GoAny → P64.EntityEvent → Ext × Unit)

/-- the relation component of a table, as the notifier reads it -/
def relOf (ext : Ext) (t : Nat) : Option (BitVec 8) :=
  if archHasRelCompF ext (some t) then some (archRelCompF ext (some t)) else none

/-- the event of an entry that moved entities from table `o` to table `t` (without the entity) -/
def batchEvent (ext : Ext) (t o : Nat) (add rem : GoSlice (BitVec 8)) : P64.EntityEvent :=
  let om := nodeMaskF ext (archNodeF ext (some o))
  let oldRel := relOf archHasRelCompF archRelCompF ext o
  let newRel := relOf archHasRelCompF archRelCompF ext t
  { Entity := default,
    Added := M64.Mask.And (M64.Mask.Xor (archMaskF ext (some t)) om) (archMaskF ext (some t)),
    Removed := M64.Mask.And (M64.Mask.Xor (archMaskF ext (some t)) om) om,
    AddedIDs := add, RemovedIDs := rem, OldRelation := oldRel, NewRelation := newRel,
    OldTarget := archTargetF ext (some o),
    EventTypes := M64.subscription false false (decide ((0 : Int) < ((add.size : Nat) : Int))) (decide ((0 : Int) < ((rem.size : Nat) : Int)))
      (oldRel != newRel) ((oldRel != newRel) || (archTargetF ext (some o) != archTargetF ext (some t))) }

/-- one delivery of the inner loop -/
def deliver (w : P64.World) (t : Nat) (start : BitVec 32) :
    P64.World × Ext × P64.EntityEvent → Nat → P64.World × Ext × P64.EntityEvent :=
  fun s k =>
    let ev := { s.2.2 with Entity := archGetEntityF s.2.1 (some t) (start + BitVec.ofNat 32 k) }
    (s.1, (notifyF s.2.1 s.1.listener ev).1, ev)

theorem deliver_world (w : P64.World) (t : Nat) (start : BitVec 32) (l : List Nat) (s : P64.World × Ext × P64.EntityEvent) :
    (l.foldl (deliver archGetEntityF notifyF w t start) s).1 = s.1 := by
  induction l generalizing s with
  | nil => rfl
  | cons k l ih => rw [List.foldl_cons, ih]; rfl

theorem entryStep_exchange (b : P64.batchArchetypes) (w : P64.World) (ext : Ext) (i n t o nd : Nat) (start en : BitVec 32)
    (hidx : GoInt.toIndex (BitVec.ofNat 32 i).toInt = some n)
    (harch : b.Archetype.get n = some (some t)) (hold : b.OldArchetype.get n = some (some o))
    (hnode : archNodeF ext (some o) = some nd)
    (hs : b.StartIndex.get n = some start) (he : b.EndIndex.get n = some en) :
    entryStep archGetEntityF archHasRelCompF archMaskF archNodeF archRelCompF archTargetF lstCompsF lstSubsF nodeMaskF notifyF b (w, ext) i =
      some (w,
        let ev := batchEvent archHasRelCompF archMaskF archNodeF archRelCompF archTargetF nodeMaskF ext t o b.Added b.Removed
        let trigger := lstSubsF ext w.listener &&& ev.EventTypes
        if (trigger != 0#8) && M64.subscribes trigger (some ev.Added) (some ev.Removed) (lstCompsF ext w.listener) ev.OldRelation ev.NewRelation
        then ((List.range (en.toNat - start.toNat)).foldl (deliver archGetEntityF notifyF w t start) (w, ext, ev)).2.1
        else ext) := by
  unfold entryStep batchArchetypes.Get Entity.IsZero
  simp only [Option.bind_eq_bind, pure, hidx, harch, hold, hs, he, Option.bind_some, Option.isSome_some, ↓reduceIte, hnode]
  have hsn : ∀ a : BitVec 8, (some a != none) = true := fun _ => rfl
  have hns : ∀ a : BitVec 8, ((none : Option (BitVec 8)) != some a) = true := fun _ => rfl
  have hdef : (default : Option (BitVec 8)) = none := rfl
  have hw := fun s => deliver_world archGetEntityF notifyF w t start (List.range (en.toNat - start.toNat)) s
  unfold deliver at hw
  have hf := fun s => C11_CreateEvt64.foldlM_pure (deliver archGetEntityF notifyF w t start) (List.range (en.toNat - start.toNat)) s
  unfold deliver at hf
  cases hA : archHasRelCompF ext (some t) <;> cases hB : archHasRelCompF ext (some o) <;>
    simp only [hA, hB, Bool.false_eq_true, ↓reduceIte, Option.bind_some, hnode, batchEvent, relOf, hf,
      Option.isSome_some, Option.isSome_none, Option.isNone_some, Option.isNone_none, Bool.or_self, Bool.or_true, Bool.true_or,
      Bool.or_false, bne_self_eq_false, Option.bind_none, hdef, Bool.false_or, C11_ExchangeEvt64.some_bne] <;> simp only [Bool.bne_true, Bool.bne_false, Bool.not_false, Bool.not_true, Bool.true_bne, Bool.false_bne, Bool.false_eq_true, ↓reduceIte, Option.bind_some, hnode, hf, hw, hsn, hns, Bool.true_or] <;> split <;> rfl

theorem and_comm' (a b : M64.Mask) : a.And b = b.And a := by
  unfold M64.Mask.And; congr 1 <;> exact BitVec.and_comm _ _

theorem xor_comm' (a b : M64.Mask) : a.Xor b = b.Xor a := by
  unfold M64.Mask.Xor; congr 1 <;> exact BitVec.xor_comm _ _

/-- **the batch event is the single operation's event**: for every entity of an entry that moved from table `o` to table
    `t`, the deferred notifier hands the listener exactly the event `notifyExchange` (the notifier of the single
    operations, `C11_ExchangeEvt64.notifyExchange_spec`) builds for an entity that had `o`'s components, relation and target
    and now sits in `t` -/
theorem batchEvent_eq_single (ext : Ext) (t o : Nat) (add rem : GoSlice (BitVec 8)) (e : P64.Entity) :
    { batchEvent archHasRelCompF archMaskF archNodeF archRelCompF archTargetF nodeMaskF ext t o add rem with Entity := e } =
      C11_ExchangeEvt64.eventOf archHasRelCompF archMaskF archRelCompF archTargetF ext t (nodeMaskF ext (archNodeF ext (some o))) e
        add rem (archTargetF ext (some o)) (relOf archHasRelCompF archRelCompF ext o) := by
  unfold batchEvent C11_ExchangeEvt64.eventOf C11_ExchangeEvt64.bitsOf C11_ExchangeEvt64.newRelOf relOf
  simp only
  rw [and_comm' (M64.Mask.Xor (archMaskF ext (some t)) _) (archMaskF ext (some t)),
      and_comm' (M64.Mask.Xor (archMaskF ext (some t)) _) (nodeMaskF ext _),
      xor_comm' (archMaskF ext (some t)) _]

/-- the event of an entry that created entities in table `t` (without the entity) -/
def batchCreateEvent (ext : Ext) (t : Nat) (add rem : GoSlice (BitVec 8)) : P64.EntityEvent :=
  let newRel := relOf archHasRelCompF archRelCompF ext t
  { Entity := default, Added := archMaskF ext (some t), Removed := default,
    AddedIDs := add, RemovedIDs := rem, OldRelation := default, NewRelation := newRel, OldTarget := default,
    EventTypes := M64.subscription true false (decide ((0 : Int) < ((add.size : Nat) : Int))) (decide ((0 : Int) < ((rem.size : Nat) : Int)))
      newRel.isSome (newRel.isSome || !((archTargetF ext (some t)).id == 0#32)) }

/-- closed form of the deferred notifier on an entry that created entities (no old table recorded) -/
theorem entryStep_create (b : P64.batchArchetypes) (w : P64.World) (ext : Ext) (i n t : Nat) (start en : BitVec 32)
    (hidx : GoInt.toIndex (BitVec.ofNat 32 i).toInt = some n)
    (harch : b.Archetype.get n = some (some t)) (hold : b.OldArchetype.get n = some none)
    (hs : b.StartIndex.get n = some start) (he : b.EndIndex.get n = some en) :
    entryStep archGetEntityF archHasRelCompF archMaskF archNodeF archRelCompF archTargetF lstCompsF lstSubsF nodeMaskF notifyF b (w, ext) i =
      some (w,
        let ev := batchCreateEvent archHasRelCompF archMaskF archRelCompF archTargetF ext t b.Added b.Removed
        let trigger := lstSubsF ext w.listener &&& ev.EventTypes
        if (trigger != 0#8) && M64.subscribes trigger (some ev.Added) (some ev.Removed) (lstCompsF ext w.listener) ev.OldRelation ev.NewRelation
        then ((List.range (en.toNat - start.toNat)).foldl (deliver archGetEntityF notifyF w t start) (w, ext, ev)).2.1
        else ext) := by
  unfold entryStep batchArchetypes.Get Entity.IsZero
  simp only [Option.bind_eq_bind, pure, hidx, harch, hold, hs, he, Option.bind_some, Option.isSome_some, Option.isSome_none, ↓reduceIte]
  have hdef : (default : Option (BitVec 8)) = none := rfl
  have hw := fun s => deliver_world archGetEntityF notifyF w t start (List.range (en.toNat - start.toNat)) s
  unfold deliver at hw
  have hf := fun s => C11_CreateEvt64.foldlM_pure (deliver archGetEntityF notifyF w t start) (List.range (en.toNat - start.toNat)) s
  unfold deliver at hf
  cases hA : archHasRelCompF ext (some t) <;>
    simp only [hA, Bool.false_eq_true, ↓reduceIte, Option.bind_some, batchCreateEvent, relOf, hf, hw,
      Option.isSome_some, Option.isSome_none, Option.isNone_some, Option.isNone_none, hdef] <;> split <;> rfl

/-- **the batch creation event is the single creation's event**: for an entry without removed components whose table
    has a relation component whenever it has a target, the event the deferred notifier hands over for row `start + k`
    is the event `newEntities` (the notifier of the creating operations, `C11_CreateEvt64.createEvent`) builds (the batch
    notifier reads the table's mask once, at `e0`; `newEntities` reads it at the hidden state `e` of each delivery, which is
    why `Added` is named on the left: a table's mask is the same at both) -/
theorem batchCreateEvent_eq_single (e0 e : Ext) (t : Nat) (add : GoSlice (BitVec 8)) (start : BitVec 32) (k : Nat)
    (htarg : archHasRelCompF e0 (some t) = false → ((archTargetF e0 (some t)).id == 0#32) = true) :
    { batchCreateEvent archHasRelCompF archMaskF archRelCompF archTargetF e0 t add default with
        Entity := archGetEntityF e (some t) (start + BitVec.ofNat 32 k), Added := archMaskF e (some t) } =
      C11_CreateEvt64.createEvent archGetEntityF archHasRelCompF archMaskF archRelCompF e0 e (some t) start add k := by
  unfold batchCreateEvent C11_CreateEvt64.createEvent C11_CreateEvt64.bitsOf C11_CreateEvt64.newRelOf relOf
  have hz : decide ((0 : Int) < (((default : GoSlice (BitVec 8)).size : Nat) : Int)) = false := by decide
  cases hA : archHasRelCompF e0 (some t)
  · simp only [hz, htarg hA, Bool.false_eq_true, ↓reduceIte, Option.isSome_none, Bool.not_true, Bool.or_false]
  · simp only [hz, ↓reduceIte, Option.isSome_some, Bool.true_or]

/-- the premises of `entryStep_exchange` are met by a recorded entry -/
example : ∃ (b : P64.batchArchetypes) (n : Nat), GoInt.toIndex (BitVec.ofNat 32 0).toInt = some n ∧
    b.Archetype.get n = some (some 1) ∧ b.OldArchetype.get n = some (some 0) ∧
    b.StartIndex.get n = some 0#32 ∧ b.EndIndex.get n = some 2#32 :=
  ⟨{ (default : P64.batchArchetypes) with
      Archetype := GoSlice.append default (some 1), OldArchetype := GoSlice.append default (some 0),
      StartIndex := GoSlice.append default 0#32, EndIndex := GoSlice.append default 2#32 }, 0, by decide⟩

end
end Arche.Props.C11_BatchEvt64
