/-
  C02 / C06 companion, tiny build (64-bit masks) — `World.RemoveEntity` (ecs/world.go) with `World.cleanupArchetype`,
  `World.cleanupArchetypes`, `World.removeArchetype` (ecs/world_internal.go), REGENERATED on every run on a view
  of the `World` struct. Tables, graph nodes and the listener are outside the module: reads of them see a hidden
  state, `archetype.Remove`, `archNode.RemoveArchetype` and `Listener.Notify` are effectful externs on it, a member
  access through a nil table pointer panics.

  * `remove_locked`, `remove_dead`: a locked world refuses; so does a handle the pool does not call alive;
  * frame lemmas: retiring tables (`removeArchetype`, `cleanupArchetype`, `cleanupArchetypes`) changes the filter
    cache and the hidden state only — never the pool, the index, the target flags or the locks;
  * `remove_effect_gen`: whenever the call succeeds — with or without a listener — the pool afterwards is
    `entityPool.Recycle` of the handle (whose refinement to the model is `C02_Pool64.recycle_refines`: the handle is dead
    from then on, `remove_model_pool`), the index entry of the removed entity is cleared, the entity swapped into its row
    (if any) — and only that one — gets the row of the removed entity, the target flag of the removed entity is clear and
    no other flag changed; everything else but the filter cache and the lock pool is untouched (notifying a listener
    takes and releases a lock: `lock_only`, `unlock_only`; the callback itself acts on the hidden state only — what a
    listener does to the world from inside its callback is outside the translation, see the re-entrant listener arm);
    `remove_effect`: without a listener the locks are untouched too.
-/
import ArcheProofs.Props.C02_Create64

namespace Arche.Props.C02_Remove64
open ArcheGen ArcheGen.P64 Arche Arche.Props

section
variable {Ext : Type}
  (archActiveF : Ext → Option Nat → Bool) (archGetEntityF : Ext → Option Nat → BitVec 32 → P64.Entity)
  (archHasRelCompF : Ext → Option Nat → Bool) (archHasRelationF : Ext → Option Nat → Bool)
  (archLenF : Ext → Option Nat → BitVec 32) (archMaskF : Ext → Option Nat → ArcheGen.M64.Mask)
  (archNodeF : Ext → Option Nat → Option Nat) (archRelCompF : Ext → Option Nat → BitVec 8)
  (archRemoveF : Ext → Option Nat → BitVec 32 → Ext × Bool) (archTargetF : Ext → Option Nat → P64.Entity)
  (lstCompsF : Ext → GoAny → Option (ArcheGen.M64.Mask)) (lstSubsF : Ext → GoAny → BitVec 8)
  (matchesF : GoAny → ArcheGen.M64.Mask → Bool) (nodeArchMapF : Ext → Option Nat → P64.Entity → Option (Option Nat))
  (nodeHasRelationF : Ext → Option Nat → Bool) (nodeIdsF : Ext → Option Nat → GoSlice (BitVec 8))
  (nodeRemoveArchetypeF : Ext → Option Nat → Option Nat → Ext × Unit) (notifyF : Ext → GoAny → EntityEvent → Ext × Unit)

/-- `w'` is `w` up to the filter cache -/
def CacheOnly (w w' : P64.World) : Prop := w' = { w with filterCache := w'.filterCache }

theorem CacheOnly.refl (w : P64.World) : CacheOnly w w := rfl
theorem CacheOnly.trans {a b c : P64.World} (h1 : CacheOnly a b) (h2 : CacheOnly b c) : CacheOnly a c := by
  unfold CacheOnly at *
  rw [h2, h1]

theorem removeArchetype_frame (w w' : P64.World) (arch : Option Nat) (ext ext' : Ext)
    (h : P64.World.removeArchetype archHasRelationF archMaskF archNodeF matchesF nodeRemoveArchetypeF w arch ext = some (w', ext')) :
    CacheOnly w w' := by
  unfold P64.World.removeArchetype at h
  cases arch with
  | none => simp [bind, Option.bind] at h
  | some a =>
    cases hn : archNodeF ext (some a) with
    | none => simp [bind, Option.bind, hn] at h
    | some n =>
      simp only [bind, Option.bind, hn, pure] at h
      cases hc : Cache.removeArchetype (archHasRelationF (nodeRemoveArchetypeF ext (some n) (some a)).1)
          (archMaskF (nodeRemoveArchetypeF ext (some n) (some a)).1) matchesF w.filterCache (some a) with
      | none => simp [hc] at h
      | some c =>
        simp only [hc, Option.some.injEq, Prod.mk.injEq] at h
        rw [← h.1]
        rfl

theorem worldAlive_same (w w' : P64.World) (e : P64.Entity) (b : Bool) (h : P64.World.Alive w e = some (w', b)) : w' = w := by
  unfold P64.World.Alive at h
  cases ha : entityPool.Alive w.entityPool e with
  | none => simp [bind, Option.bind, ha] at h
  | some r =>
    have := (C02_Pool64.alive_refines w.entityPool e).2 r ha
    obtain ⟨r1, r2⟩ := r
    simp only [bind, Option.bind, ha, pure, Option.some.injEq, Prod.mk.injEq] at h
    simp only at this
    rw [← h.1, this]

theorem cleanupArchetype_frame (w w' : P64.World) (arch : Option Nat) (ext ext' : Ext)
    (h : P64.World.cleanupArchetype archActiveF archHasRelationF archLenF archMaskF archNodeF archTargetF matchesF nodeHasRelationF
          nodeRemoveArchetypeF w arch ext = some (w', ext')) :
    CacheOnly w w' := by
  unfold P64.World.cleanupArchetype at h
  cases arch with
  | none => simp [bind, Option.bind] at h
  | some a =>
    simp only [bind, Option.bind, pure] at h
    have hdone : ∀ {x : P64.World × Ext}, some (w, ext) = some x → x = (w', ext') → CacheOnly w w' := by
      intro x h1 h2
      cases h1; cases h2; exact CacheOnly.refl w
    by_cases c1 : (0#32).ult (archLenF ext (some a)) = true
    · simp only [c1, ↓reduceIte] at h
      cases h; exact CacheOnly.refl w
    · cases hn : archNodeF ext (some a) with
      | none => simp [c1, hn] at h
      | some n =>
        simp only [c1, Bool.false_eq_true, ↓reduceIte, hn] at h
        by_cases c2 : nodeHasRelationF ext (some n) = true
        · simp only [c2, Bool.not_true, Bool.false_eq_true, ↓reduceIte] at h
          by_cases c3 : archActiveF ext (some a) = true
          · simp only [c3, Bool.not_true, Bool.false_eq_true, ↓reduceIte, Entity.IsZero, pure] at h
            by_cases c4 : ((archTargetF ext (some a)).id == 0#32) = true
            · simp only [c4, ↓reduceIte] at h
              cases h; exact CacheOnly.refl w
            · simp only [c4, Bool.false_eq_true, ↓reduceIte] at h
              cases hal : P64.World.Alive w (archTargetF ext (some a)) with
              | none => simp [hal] at h
              | some r =>
                obtain ⟨w1, b⟩ := r
                have hw1 := worldAlive_same w w1 _ b hal
                subst hw1
                simp only [hal] at h
                cases b with
                | true =>
                  simp only [↓reduceIte] at h
                  cases h; exact CacheOnly.refl _
                | false =>
                  simp only [Bool.false_eq_true, ↓reduceIte] at h
                  cases hr : P64.World.removeArchetype archHasRelationF archMaskF archNodeF matchesF nodeRemoveArchetypeF w1 (some a) ext with
                  | none => simp [hr] at h
                  | some r2 =>
                    obtain ⟨w2, e2⟩ := r2
                    simp only [hr, Option.some.injEq, Prod.mk.injEq] at h
                    rw [← h.1]
                    exact removeArchetype_frame archHasRelationF archMaskF archNodeF matchesF nodeRemoveArchetypeF _ _ _ _ _ hr
          · simp only [c3, Bool.not_false, ↓reduceIte] at h
            cases h; exact CacheOnly.refl w
        · simp only [c2, Bool.not_false, ↓reduceIte] at h
          cases h; exact CacheOnly.refl w

theorem foldlM_inv {σ : Type} (P : σ → Prop) (f : σ → Nat → Option σ)
    (hf : ∀ s k s', P s → f s k = some s' → P s') (l : List Nat) (s s' : σ) (hs : P s)
    (h : List.foldlM (m := Option) f s l = some s') : P s' := by
  induction l generalizing s with
  | nil => simp only [List.foldlM_nil, pure, Option.some.injEq] at h; rw [← h]; exact hs
  | cons k l ih =>
    rw [List.foldlM_cons] at h
    cases hk : f s k with
    | none => simp [hk, bind, Option.bind] at h
    | some s1 =>
      simp only [hk, bind, Option.bind] at h
      exact ih s1 (hf s k s1 hs hk) h

theorem cleanupArchetypes_frame (w w' : P64.World) (target : P64.Entity) (ext ext' : Ext)
    (h : P64.World.cleanupArchetypes archHasRelationF archLenF archMaskF archNodeF matchesF nodeArchMapF
          nodeRemoveArchetypeF w target ext = some (w', ext')) :
    CacheOnly w w' := by
  unfold P64.World.cleanupArchetypes at h
  simp only [bind, Option.bind, pure] at h
  generalize hF : List.foldlM (m := Option) (s := P64.World × Ext) (α := Nat) _ (w, ext) (List.range w.relationNodes.size) = X at h
  cases X with
  | none => simp at h
  | some r =>
    simp only [Option.some.injEq, Prod.mk.injEq] at h
    have := foldlM_inv (fun (s : P64.World × Ext) => CacheOnly w s.1) _ ?_ _ _ _ (CacheOnly.refl w) hF
    · rw [← h.1]; exact this
    · intro s k s' hs hk
      obtain ⟨sw, se⟩ := s
      simp only at hk hs
      cases hg : GoSlice.get sw.relationNodes k with
      | none => simp [hg] at hk
      | some node =>
        cases node with
        | none => simp [hg] at hk
        | some nd =>
          simp only [hg] at hk
          cases hm : nodeArchMapF se (some nd) target with
          | none =>
            simp only [hm, Option.isSome_none, Bool.false_eq_true, ↓reduceIte, Option.some.injEq] at hk
            rw [← hk]; exact hs
          | some arch =>
            simp only [hm, Option.isSome_some, ↓reduceIte, Option.getD_some] at hk
            cases arch with
            | none => simp at hk
            | some a =>
              simp only at hk
              by_cases c : (archLenF se (some a) == 0#32) = true
              · simp only [c, ↓reduceIte] at hk
                cases hr : P64.World.removeArchetype archHasRelationF archMaskF archNodeF matchesF nodeRemoveArchetypeF sw (some a) se with
                | none => simp [hr] at hk
                | some r2 =>
                  simp only [hr, Option.some.injEq] at hk
                  rw [← hk]
                  exact CacheOnly.trans hs (removeArchetype_frame archHasRelationF archMaskF archNodeF matchesF nodeRemoveArchetypeF _ _ _ _ _ hr)
              · simp only [c, Bool.false_eq_true, ↓reduceIte, Option.some.injEq] at hk
                rw [← hk]; exact hs

theorem remove_locked (w : P64.World) (e : P64.Entity) (ext : Ext)
    (h : LockMask.isLocked (C09_LockPool64.absLM w.locks) = true) :
    P64.World.RemoveEntity archActiveF archGetEntityF archHasRelCompF archHasRelationF archLenF archMaskF archNodeF archRelCompF
      archRemoveF archTargetF lstCompsF lstSubsF matchesF nodeArchMapF nodeHasRelationF nodeIdsF nodeRemoveArchetypeF notifyF w e ext = none := by
  unfold P64.World.RemoveEntity
  rw [C09_WorldLock64.checkLocked_spec]
  simp [h, bind, Option.bind]

theorem remove_dead (w : P64.World) (e : P64.Entity) (ext : Ext)
    (h : Pool.alive? (C02_Pool64.absPool w.entityPool) (C02_Pool64.absE e) ≠ some true) :
    P64.World.RemoveEntity archActiveF archGetEntityF archHasRelCompF archHasRelationF archLenF archMaskF archNodeF archRelCompF
      archRemoveF archTargetF lstCompsF lstSubsF matchesF nodeArchMapF nodeHasRelationF nodeIdsF nodeRemoveArchetypeF notifyF w e ext = none := by
  unfold P64.World.RemoveEntity
  rw [C09_WorldLock64.checkLocked_spec]
  by_cases hl : LockMask.isLocked (C09_LockPool64.absLM w.locks) = true
  · simp [hl, bind, Option.bind]
  · simp only [hl, Bool.false_eq_true, ↓reduceIte, bind, Option.bind]
    cases ha : Pool.alive? (C02_Pool64.absPool w.entityPool) (C02_Pool64.absE e) with
    | none => simp only [C02_Create64.alive_none _ _ ha]
    | some b =>
      cases b with
      | true => exact absurd ha h
      | false => simp only [C02_Create64.alive_eq _ _ _ ha, Bool.not_false, ↓reduceIte]

theorem bitGet_inv (b b' : bitSet) (bit : BitVec 32) (v : Bool) (h : bitSet.Get b bit = some (b', v)) :
    b' = b ∧ v = C06_BitSet64.bget b bit.toNat ∧ bit.toNat / 64 < b.data.arr.size := by
  by_cases hr : bit.toNat / 64 < b.data.arr.size
  · rw [C06_BitSet64.get_eq b bit hr] at h
    simp only [Option.some.injEq, Prod.mk.injEq] at h
    exact ⟨h.1.symm, h.2.symm, hr⟩
  · rw [C06_BitSet64.get_oob b bit (by omega)] at h
    cases h

/-- the index after a removal: the entity swapped into the freed row takes that row, the removed entity's
    entry loses its table -/
def indexAfter (arr : Array entityIndex) (id : Nat) (swapped : Bool) (sid : Nat) : Array entityIndex :=
  let a1 := if swapped then arr.setIfInBounds sid { (arr.getD sid default) with index := (arr.getD id default).index } else arr
  a1.setIfInBounds id { (a1.getD id default) with arch := none }


theorem lock_only (w w1 : P64.World) (l : BitVec 8) (h : P64.World.lock w = some (w1, l)) : w1 = { w with locks := w1.locks } := by
  unfold P64.World.lock at h
  cases hl : lockMask.Lock w.locks with
  | none => simp [hl, bind, Option.bind] at h
  | some r =>
    simp only [hl, bind, Option.bind, pure, Option.some.injEq, Prod.mk.injEq] at h
    rw [← h.1]

theorem unlock_only (w w1 : P64.World) (l : BitVec 8) (h : P64.World.unlock w l = some w1) : w1 = { w with locks := w1.locks } := by
  unfold P64.World.unlock at h
  cases hl : lockMask.Unlock w.locks l with
  | none => simp [hl, bind, Option.bind] at h
  | some r =>
    simp only [hl, bind, Option.bind, pure, Option.some.injEq] at h
    rw [← h]

/-- **what a successful `RemoveEntity` does**, with or without a listener: `extL` is the hidden state after the
    listener (if any) was notified -/
theorem remove_effect_gen (w w' : P64.World) (e : P64.Entity) (ext ext' : Ext)
    (x : entityIndex) (t : Nat) (hx : w.entities.arr[e.id.toNat]? = some x) (ht : x.arch = some t)
    (h : P64.World.RemoveEntity archActiveF archGetEntityF archHasRelCompF archHasRelationF archLenF archMaskF archNodeF archRelCompF
      archRemoveF archTargetF lstCompsF lstSubsF matchesF nodeArchMapF nodeHasRelationF nodeIdsF nodeRemoveArchetypeF notifyF w e ext = some (w', ext')) :
    LockMask.isLocked (C09_LockPool64.absLM w.locks) = false ∧
    Pool.alive? (C02_Pool64.absPool w.entityPool) (C02_Pool64.absE e) = some true ∧
    ∃ extL, (w.listener = none → extL = ext ∧ w'.locks = w.locks) ∧
    entityPool.Recycle w.entityPool e = some w'.entityPool ∧
    w'.entities = ⟨indexAfter w.entities.arr e.id.toNat (archRemoveF extL (some t) x.index).2
        (archGetEntityF (archRemoveF extL (some t) x.index).1 (some t) x.index).id.toNat, w.entities.cap⟩ ∧
    (∀ j, C06_BitSet64.bget w'.targetEntities j = if j = e.id.toNat then false else C06_BitSet64.bget w.targetEntities j) ∧
    w' = { w with entityPool := w'.entityPool, entities := w'.entities, targetEntities := w'.targetEntities, filterCache := w'.filterCache,
                  locks := w'.locks } := by
  unfold P64.World.RemoveEntity at h
  rw [C09_WorldLock64.checkLocked_spec] at h
  by_cases hlk : LockMask.isLocked (C09_LockPool64.absLM w.locks) = true
  · simp [hlk, bind, Option.bind] at h
  have hlk' : LockMask.isLocked (C09_LockPool64.absLM w.locks) = false := by simpa using hlk
  simp only [hlk', Bool.false_eq_true, ↓reduceIte, Option.bind_eq_bind, Option.bind_some] at h
  cases ha : Pool.alive? (C02_Pool64.absPool w.entityPool) (C02_Pool64.absE e) with
  | none => simp [C02_Create64.alive_none _ _ ha] at h
  | some b =>
    cases b with
    | false => simp [C02_Create64.alive_eq _ _ _ ha] at h
    | true =>
      simp only [C02_Create64.alive_eq _ _ _ ha, Option.bind_some, Bool.not_true, Bool.false_eq_true, ↓reduceIte, GoSlice.get, hx] at h
      obtain ⟨⟨W, E⟩, hblk, h⟩ := Option.bind_eq_some_iff.mp h
      have hW : W = { w with locks := W.locks } ∧ (w.listener = none → W.locks = w.locks ∧ E = ext) := by
        cases hlst : w.listener with
        | none =>
          simp only [hlst, Option.isSome_none, Bool.false_eq_true, ↓reduceIte, pure, Option.some.injEq, Prod.mk.injEq] at hblk
          obtain ⟨h1, h2⟩ := hblk
          subst h1; subst h2
          exact ⟨by simp [hlst], fun _ => ⟨rfl, rfl⟩⟩
        | some l =>
          refine ⟨?_, fun hc => by cases hc⟩
          rw [← hlst]
          simp only [hlst, Option.isSome_some, ↓reduceIte, ht, Option.bind_eq_bind, Option.bind_some, pure] at hblk
          have hwl : ({ w with listener := some l } : P64.World) = w := by rw [← hlst]
          obtain ⟨⟨w1, e1, rel1⟩, hr1, hblk⟩ := Option.bind_eq_some_iff.mp hblk
          have h1 : w = w1 ∧ ext = e1 := by
            split at hr1 <;> simp only [Option.some.injEq, Prod.mk.injEq] at hr1 <;> exact ⟨(hr1.1.symm.trans hwl).symm, hr1.2.1⟩
          obtain ⟨hw1, he1⟩ := h1
          subst hw1; subst he1
          dsimp only at hblk
          obtain ⟨n, hn, hblk⟩ := Option.bind_eq_some_iff.mp hblk
          obtain ⟨⟨w2, e2, ids2⟩, hr2, hblk⟩ := Option.bind_eq_some_iff.mp hblk
          have h2 : w = w2 ∧ ext = e2 := by
            split at hr2
            · simp only [hn, Option.bind_some, Option.some.injEq, Prod.mk.injEq] at hr2; exact ⟨hr2.1, hr2.2.1⟩
            · simp only [Option.some.injEq, Prod.mk.injEq] at hr2; exact ⟨hr2.1, hr2.2.1⟩
          obtain ⟨hw2, he2⟩ := h2
          subst hw2; subst he2
          dsimp only at hblk
          obtain ⟨b5, _, hblk⟩ := Option.bind_eq_some_iff.mp hblk
          obtain ⟨⟨w3, e3⟩, hr3, hblk⟩ := Option.bind_eq_some_iff.mp hblk
          simp only [Option.some.injEq, Prod.mk.injEq] at hblk
          rw [← hblk.1]
          cases b5 with
          | false =>
            simp only [Bool.false_eq_true, ↓reduceIte, Option.some.injEq, Prod.mk.injEq] at hr3
            rw [← hr3.1]
          | true =>
            simp only [↓reduceIte] at hr3
            obtain ⟨⟨wl, lk⟩, hlock, hr3⟩ := Option.bind_eq_some_iff.mp hr3
            obtain ⟨o9, hun, hr3⟩ := Option.bind_eq_some_iff.mp hr3
            simp only [Option.some.injEq, Prod.mk.injEq] at hr3
            rw [← hr3.1]
            have q1 := lock_only w wl lk hlock
            have q2 := unlock_only wl o9 lk hun
            conv => lhs; rw [q2]
            conv => lhs; rw [q1]
      obtain ⟨hWeq, hnl⟩ := hW
      generalize hl' : W.locks = l' at hWeq hnl
      subst hWeq
      refine ⟨hlk', rfl, E, ?_⟩
      simp only [bind, Option.bind, pure, ht, GoSlice.get, hx] at h
      suffices hs : entityPool.Recycle w.entityPool e = some w'.entityPool ∧
          w'.entities = ⟨indexAfter w.entities.arr e.id.toNat (archRemoveF E (some t) x.index).2
            (archGetEntityF (archRemoveF E (some t) x.index).1 (some t) x.index).id.toNat, w.entities.cap⟩ ∧
          (∀ j, C06_BitSet64.bget w'.targetEntities j = if j = e.id.toNat then false else C06_BitSet64.bget w.targetEntities j) ∧
          w' = { w with entityPool := w'.entityPool, entities := w'.entities, targetEntities := w'.targetEntities,
                        filterCache := w'.filterCache, locks := l' } by
        obtain ⟨s1, s2, s3, s4⟩ := hs
        have hlocks : w'.locks = l' := by rw [s4]
        refine ⟨fun hn => ⟨(hnl hn).2, by rw [hlocks]; exact (hnl hn).1⟩, s1, s2, s3, ?_⟩
        rw [hlocks]; exact s4
      cases hrec : entityPool.Recycle w.entityPool e with
      | none => simp [hrec] at h
      | some p' =>
        simp only [hrec] at h
        have hidlt : e.id.toNat < w.entities.arr.size := by
          have := Array.getElem?_eq_some_iff.mp hx
          exact this.1
        have hxD : w.entities.arr.getD e.id.toNat default = x := by
          rw [Array.getD_eq_getD_getElem?, hx]; rfl
        -- step A: the entity swapped into the freed row
        generalize hsw : (archRemoveF E (some t) x.index).2 = swapped at h ⊢
        generalize he1 : (archRemoveF E (some t) x.index).1 = ext1 at h ⊢
        generalize hsid : (archGetEntityF ext1 (some t) x.index).id.toNat = sid at h ⊢
        have hA : ∃ a1 : Array entityIndex, a1.size = w.entities.arr.size ∧
            indexAfter w.entities.arr e.id.toNat swapped sid = a1.setIfInBounds e.id.toNat { (a1.getD e.id.toNat default) with arch := none } ∧
            ((if swapped = true then
                (w.entities.arr[sid]?).bind (fun c16 =>
                  (w.entities.set sid { arch := c16.arch, index := x.index }).bind (fun u17 =>
                    some (({ w with locks := l', entities := u17, entityPool := p' } : P64.World), ext1)))
              else some (({ w with locks := l', entityPool := p' } : P64.World), ext1)) = none ∨
             (if swapped = true then
                (w.entities.arr[sid]?).bind (fun c16 =>
                  (w.entities.set sid { arch := c16.arch, index := x.index }).bind (fun u17 =>
                    some (({ w with locks := l', entities := u17, entityPool := p' } : P64.World), ext1)))
              else some (({ w with locks := l', entityPool := p' } : P64.World), ext1)) =
               some (({ w with locks := l', entities := ⟨a1, w.entities.cap⟩, entityPool := p' } : P64.World), ext1)) := by
          cases swapped with
          | false =>
            exact ⟨w.entities.arr, rfl, by simp [indexAfter], Or.inr rfl⟩
          | true =>
            cases hs : w.entities.arr[sid]? with
            | none =>
              exact ⟨w.entities.arr, rfl, by
                simp only [indexAfter, ↓reduceIte]
                have : ¬ sid < w.entities.arr.size := by
                  intro hc; rw [Array.getElem?_eq_getElem hc] at hs; cases hs
                rw [Array.setIfInBounds_eq_of_size_le (xs := w.entities.arr) (i := sid) (by omega)], Or.inl (by simp [hs])⟩
            | some c16 =>
              have hslt : sid < w.entities.arr.size := (Array.getElem?_eq_some_iff.mp hs).1
              have hsD : w.entities.arr.getD sid default = c16 := by
                rw [Array.getD_eq_getD_getElem?, hs]; rfl
              refine ⟨w.entities.arr.setIfInBounds sid { arch := c16.arch, index := x.index }, by simp, ?_, Or.inr ?_⟩
              · simp only [indexAfter, ↓reduceIte, hsD, hxD]
              · simp only [↓reduceIte, GoSlice.set, hslt, hs, Option.bind]
        obtain ⟨a1, ha1, hidx, hA'⟩ := hA
        simp only [Option.bind] at hA'
        rcases hA' with hnone | hsome
        · rw [hnone] at h; cases h
        rw [hsome] at h
        simp only at h
        -- step B: the entry of the removed entity loses its table
        have hid1 : e.id.toNat < a1.size := by omega
        have hg1 : a1[e.id.toNat]? = some (a1.getD e.id.toNat default) := by
          rw [Array.getD_eq_getD_getElem?, Array.getElem?_eq_getElem hid1]; rfl
        simp only [hg1, GoSlice.set, hid1, ↓reduceIte] at h
        rw [hidx]
        generalize a1.setIfInBounds e.id.toNat { arch := none, index := (a1.getD e.id.toNat default).index } = a2 at h ⊢
        -- step C: the target flag of the removed entity
        cases hgb : bitSet.Get w.targetEntities e.id with
        | none => simp [hgb] at h
        | some gb =>
          obtain ⟨b', fl⟩ := gb
          obtain ⟨hb', hfl, hrange⟩ := bitGet_inv _ _ _ _ hgb
          subst hb'
          simp only [hgb] at h
          have hfin : ∀ (W1 W2 : P64.World) (x1 x2 : Ext),
              P64.World.cleanupArchetype archActiveF archHasRelationF archLenF archMaskF archNodeF archTargetF matchesF
                nodeHasRelationF nodeRemoveArchetypeF W1 (some t) x1 = some (W2, x2) → W2 = w' →
              W1.entityPool = p' → W1.entities = ⟨a2, w.entities.cap⟩ →
              (∀ j, C06_BitSet64.bget W1.targetEntities j = if j = e.id.toNat then false else C06_BitSet64.bget w.targetEntities j) →
              W1 = { w with entityPool := W1.entityPool, entities := W1.entities, targetEntities := W1.targetEntities, filterCache := W1.filterCache, locks := l' } →
              some p' = some w'.entityPool ∧ w'.entities = ⟨a2, w.entities.cap⟩ ∧
              (∀ j, C06_BitSet64.bget w'.targetEntities j = if j = e.id.toNat then false else C06_BitSet64.bget w.targetEntities j) ∧
              w' = { w with entityPool := w'.entityPool, entities := w'.entities, targetEntities := w'.targetEntities, filterCache := w'.filterCache, locks := l' } := by
            intro W1 W2 x1 x2 hc hW2 hp he hf hw
            have hfr := cleanupArchetype_frame archActiveF archHasRelationF archLenF archMaskF archNodeF archTargetF matchesF
              nodeHasRelationF nodeRemoveArchetypeF _ _ _ _ _ hc
            unfold CacheOnly at hfr
            rw [hW2] at hfr
            refine ⟨?_, ?_, ?_, ?_⟩
            · rw [hfr]; simp only; rw [hp]
            · rw [hfr]; simp only; exact he
            · intro j; rw [hfr]; simp only; exact hf j
            · rw [hfr]; simp only; rw [hw]
          cases fl with
          | false =>
            simp only [Bool.false_eq_true, ↓reduceIte] at h
            cases hc : P64.World.cleanupArchetype archActiveF archHasRelationF archLenF archMaskF archNodeF archTargetF matchesF
                nodeHasRelationF nodeRemoveArchetypeF
                ({ w with locks := l', entities := ⟨a2, w.entities.cap⟩, entityPool := p' } : P64.World) (some t) ext1 with
            | none => rw [hc] at h; cases h
            | some r =>
              obtain ⟨W2, x2⟩ := r
              rw [hc] at h
              simp only [Option.some.injEq, Prod.mk.injEq] at h
              refine hfin _ _ _ _ hc h.1 rfl rfl ?_ ?_
              · intro j
                by_cases hj : j = e.id.toNat
                · subst hj; simp only [↓reduceIte]; exact hfl.symm
                · simp only [hj, ↓reduceIte]
              · rfl
          | true =>
            simp only [↓reduceIte] at h
            cases hcs : P64.World.cleanupArchetypes archHasRelationF archLenF archMaskF archNodeF matchesF nodeArchMapF nodeRemoveArchetypeF
                ({ w with locks := l', entities := ⟨a2, w.entities.cap⟩, entityPool := p' } : P64.World) e ext1 with
            | none => rw [hcs] at h; cases h
            | some r1 =>
              obtain ⟨W1, x1⟩ := r1
              rw [hcs] at h
              simp only at h
              have hfr1 := cleanupArchetypes_frame archHasRelationF archLenF archMaskF archNodeF matchesF nodeArchMapF nodeRemoveArchetypeF _ _ _ _ _ hcs
              unfold CacheOnly at hfr1
              have htE : W1.targetEntities = w.targetEntities := by rw [hfr1]
              obtain ⟨ts, hts, _, htsget⟩ := C06_BitSet64.set_get w.targetEntities e.id false hrange
              rw [htE, hts] at h
              simp only at h
              cases hc : P64.World.cleanupArchetype archActiveF archHasRelationF archLenF archMaskF archNodeF archTargetF matchesF
                  nodeHasRelationF nodeRemoveArchetypeF
                  ({ W1 with targetEntities := ts } : P64.World) (some t) x1 with
              | none => rw [hc] at h; cases h
              | some r =>
                obtain ⟨W2, x2⟩ := r
                rw [hc] at h
                simp only [Option.some.injEq, Prod.mk.injEq] at h
                refine hfin _ _ _ _ hc h.1 ?_ ?_ ?_ ?_
                · simp only; rw [hfr1]
                · simp only; rw [hfr1]
                · intro j; simp only; exact htsget j
                · simp only; rw [hfr1]


/-- **what a successful `RemoveEntity` does** (world without a listener) -/
theorem remove_effect (w w' : P64.World) (e : P64.Entity) (ext ext' : Ext)
    (hl : w.listener = none)
    (x : entityIndex) (t : Nat) (hx : w.entities.arr[e.id.toNat]? = some x) (ht : x.arch = some t)
    (h : P64.World.RemoveEntity archActiveF archGetEntityF archHasRelCompF archHasRelationF archLenF archMaskF archNodeF archRelCompF
      archRemoveF archTargetF lstCompsF lstSubsF matchesF nodeArchMapF nodeHasRelationF nodeIdsF nodeRemoveArchetypeF notifyF w e ext = some (w', ext')) :
    LockMask.isLocked (C09_LockPool64.absLM w.locks) = false ∧
    Pool.alive? (C02_Pool64.absPool w.entityPool) (C02_Pool64.absE e) = some true ∧
    entityPool.Recycle w.entityPool e = some w'.entityPool ∧
    w'.entities = ⟨indexAfter w.entities.arr e.id.toNat (archRemoveF ext (some t) x.index).2
        (archGetEntityF (archRemoveF ext (some t) x.index).1 (some t) x.index).id.toNat, w.entities.cap⟩ ∧
    (∀ j, C06_BitSet64.bget w'.targetEntities j = if j = e.id.toNat then false else C06_BitSet64.bget w.targetEntities j) ∧
    w' = { w with entityPool := w'.entityPool, entities := w'.entities, targetEntities := w'.targetEntities, filterCache := w'.filterCache } := by
  obtain ⟨h1, h2, extL, h3, h4, h5, h6, h7⟩ := remove_effect_gen archActiveF archGetEntityF archHasRelCompF archHasRelationF archLenF archMaskF archNodeF archRelCompF
      archRemoveF archTargetF lstCompsF lstSubsF matchesF nodeArchMapF nodeHasRelationF nodeIdsF nodeRemoveArchetypeF notifyF
      w w' e ext ext' x t hx ht h
  obtain ⟨hE, hL⟩ := h3 hl
  subst hE
  refine ⟨h1, h2, h4, h5, h6, ?_⟩
  rw [h7, hL]

/-- **the pool after a successful removal is the model's `Pool.recycle`** of the handle (generation and
    free-list counter not at their 32-bit limit, the excluded point of `C02_Pool64.recycle_wraps`): the model's
    theorems about recycling (`PoolInv.recycle_inv`, `C02.dead_after_recycle` — the handle is dead from now on and
    never alive again) apply to what the regenerated code did -/
theorem remove_model_pool (w w' : P64.World) (e : P64.Entity) (ext ext' : Ext)
    (hl : w.listener = none)
    (x : entityIndex) (t : Nat) (hx : w.entities.arr[e.id.toNat]? = some x) (ht : x.arch = some t)
    (h0 : e.id ≠ 0#32) (hin : e.id.toNat < w.entityPool.entities.arr.size)
    (hgen : w.entityPool.entities.arr[e.id.toNat].gen.toNat < 2 ^ 32 - 1) (hav : w.entityPool.available.toNat < 2 ^ 32 - 1)
    (h : P64.World.RemoveEntity archActiveF archGetEntityF archHasRelCompF archHasRelationF archLenF archMaskF archNodeF archRelCompF
      archRemoveF archTargetF lstCompsF lstSubsF matchesF nodeArchMapF nodeHasRelationF nodeIdsF nodeRemoveArchetypeF notifyF w e ext = some (w', ext')) :
    C02_Pool64.absPool w'.entityPool = Pool.recycle (C02_Pool64.absPool w.entityPool) (C02_Pool64.absE e) := by
  obtain ⟨_, _, hrec, _⟩ := remove_effect archActiveF archGetEntityF archHasRelCompF archHasRelationF archLenF archMaskF archNodeF archRelCompF
      archRemoveF archTargetF lstCompsF lstSubsF matchesF nodeArchMapF nodeHasRelationF nodeIdsF nodeRemoveArchetypeF notifyF
      w w' e ext ext' hl x t hx ht h
  obtain ⟨p', hp', habs⟩ := C02_Pool64.recycle_refines w.entityPool e h0 hin hgen hav
  rw [hrec] at hp'
  cases hp'
  exact habs


end

/-! ### non-vacuity: a concrete run of the regenerated code -/

def demoPool : entityPool := { entities := ⟨#[⟨0#32, 0#32⟩, ⟨1#32, 0#32⟩, ⟨2#32, 3#32⟩], 4⟩, next := 0#32, available := 0#32, capacityIncrement := 4#32 }
def demoIdx : GoSlice entityIndex := ⟨#[default, ⟨some 7, 0#32⟩, ⟨some 7, 1#32⟩], 4⟩
def demoFlags : bitSet := { data := ⟨#[2#64], 1⟩ }
def demoWorld : P64.World := { (default : P64.World) with entityPool := demoPool, entities := demoIdx, targetEntities := demoFlags, relationNodes := ⟨#[some 3], 1⟩ }
/-- hidden state: a log of what happened to the tables -/
def demoRun : Option (P64.World × List Nat) :=
  P64.World.RemoveEntity (Ext := List Nat)
    (fun _ _ => true) (fun _ _ _ => ⟨2#32, 3#32⟩) (fun _ _ => false) (fun _ _ => false) (fun _ _ => 1#32) (fun _ _ => default)
    (fun _ _ => some 3) (fun _ _ => 0#8) (fun log a row => (log ++ [100 + a.getD 0, row.toNat], true)) (fun _ _ => default)
    (fun _ _ => none) (fun _ _ => 0#8) (fun _ _ => false) (fun _ _ _ => none) (fun _ _ => false) (fun _ _ => default)
    (fun log _ _ => (log ++ [999], ())) (fun log _ _ => (log ++ [555], ()))
    demoWorld ⟨1#32, 0#32⟩ []
def demoOut : Option (List (Nat × Nat) × List (Nat × Nat) × List Nat) :=
  demoRun.map (fun r =>
    (r.1.entityPool.entities.arr.toList.map (fun e => (e.id.toNat, e.gen.toNat)),
     r.1.entities.arr.toList.map (fun x => (x.arch.getD 99, x.index.toNat)),
     [r.1.entityPool.next.toNat, r.1.entityPool.available.toNat, (r.1.targetEntities.data.arr.getD 0 9#64).toNat] ++ r.2))
/-- entity (1,0) sits in row 0 of table 7 and is flagged as a target; removing it moves entity 2 into row 0:
    the pool slot 1 gets generation 1 and heads the free list, the index entry 1 loses its table, entry 2 gets row 0,
    flag bit 1 is cleared (no relation table has the target, so nothing is retired), table 7 saw `Remove(0)` -/
def demoExpected : Option (List (Nat × Nat) × List (Nat × Nat) × List Nat) :=
  some ([(0, 0), (0, 1), (2, 3)], [(99, 0), (99, 0), (7, 0)], [1, 1, 0, 107, 0])
theorem demo_run : demoOut = demoExpected := by decide +kernel

end Arche.Props.C02_Remove64
