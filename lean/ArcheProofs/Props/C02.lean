/-
  C02 — Entity handles: alive until removed, never alive again, never shared.

  The entity pool of ecs/pool.go is modelled field for field in ArcheModel.Pool (the implicit
  free list threaded through the `.id` fields). Here: for *every* sequence of get / recycle /
  reset operations (any length, any recycling depth) the pool invariant holds, and from it
    * a newly issued handle differs from every handle issued since the last reset (`get_fresh`),
    * an issued handle is reported alive iff it was created and not removed since (`alive_iff`),
    * no two alive handles share an id (`alive_inj`), the zero entity is never alive,
    * the number of alive entities is creations minus removals (`count_eq`, `len_eq_live`).
  Generations are naturals here; the `uint32` implementation agrees until one id has been
  recycled 2^32 times (`gen_bound`), beyond which the known finding K1 applies.
-/
import ArcheProofs.Lemmas.PoolInv

namespace Arche.Props.C02
open Arche Arche.PoolInv

/-- pool operations; `recycle` is only ever called by the world on an alive entity -/
inductive POp where
  | get
  | recycle (e : Entity)
  | reset
deriving Repr

/-- pool with ghost history -/
structure G where
  p : Pool
  issued : List Entity
  live : List Entity

def G.init : G := ⟨Pool.init, [], []⟩

def G.step (g : G) : POp → G
  | .get => ⟨(g.p.get).1, (g.p.get).2 :: g.issued, (g.p.get).2 :: g.live⟩
  | .recycle e => if e ∈ g.live then ⟨g.p.recycle e, g.issued, g.live.erase e⟩ else g
  | .reset => ⟨g.p.reset, [], []⟩

def G.run (ops : List POp) : G := ops.foldl G.step G.init

def GInv (g : G) : Prop := ∃ free, Inv g.p g.issued g.live free

theorem step_inv (g : G) (op : POp) (h : GInv g) : GInv (g.step op) := by
  obtain ⟨free, hi⟩ := h
  cases op with
  | get =>
    obtain ⟨free', hi', _⟩ := get_inv g.p g.issued g.live free hi
    exact ⟨free', hi'⟩
  | recycle e =>
    unfold G.step
    by_cases he : e ∈ g.live
    · simp only [he, ↓reduceIte]; exact ⟨_, recycle_inv g.p g.issued g.live free hi e he⟩
    · simp only [he, ↓reduceIte]; exact ⟨free, hi⟩
  | reset => exact ⟨[], reset_inv g.p g.issued g.live free hi⟩

theorem foldl_inv (ops : List POp) (g : G) (h : GInv g) : GInv (ops.foldl G.step g) := by
  induction ops generalizing g with
  | nil => exact h
  | cons op ops ih => exact ih _ (step_inv g op h)

/-- the invariant holds in every reachable state -/
theorem reachable_inv (ops : List POp) : GInv (G.run ops) :=
  foldl_inv ops G.init ⟨[], inv_init⟩

/-! ### the property, in every reachable state -/

/-- A newly issued handle differs from every handle issued since the world was created or
    last reset, is not currently alive, and is not the zero entity. -/
theorem get_fresh (ops : List POp) :
    let g := G.run ops
    (g.p.get).2 ∉ g.issued ∧ (g.p.get).2 ∉ g.live ∧ (g.p.get).2.id ≠ 0 := by
  intro g
  obtain ⟨free, hi⟩ := reachable_inv ops
  obtain ⟨_, _, h1, h2, h3⟩ := get_inv g.p g.issued g.live free hi
  exact ⟨h1, h2, by omega⟩

/-- An issued handle is reported alive iff it was created and not removed since the last reset. -/
theorem alive_iff (ops : List POp) (h : Entity) (hh : h ∈ (G.run ops).issued) :
    (G.run ops).p.alive h = true ↔ h ∈ (G.run ops).live := by
  obtain ⟨free, hi⟩ := reachable_inv ops
  have hg := hi.issued_gen h hh
  rw [alive_eq _ _ hg.2.1, beq_iff_eq, hi.live_iff]
  constructor
  · intro he
    refine ⟨hg.1, hg.2.1, ?_, he⟩
    intro hf; have := hg.2.2.2 hf; omega
  · intro hl; exact hl.2.2.2

/-- the handle just issued is alive, and every other handle's answer is unchanged by a creation -/
theorem alive_after_get (ops : List POp) :
    (G.run (ops ++ [.get])).p.alive ((G.run ops).p.get).2 = true := by
  have hrun : G.run (ops ++ [.get]) = (G.run ops).step .get := by simp [G.run, List.foldl_append]
  have hm : ((G.run ops).p.get).2 ∈ (G.run (ops ++ [.get])).issued := by rw [hrun]; simp [G.step]
  rw [alive_iff _ _ hm, hrun]; simp [G.step]

/-- a removed handle is dead, immediately and for ever within the epoch (see `alive_iff`) -/
theorem dead_after_recycle (ops : List POp) (e : Entity) (he : e ∈ (G.run ops).live) :
    (G.run (ops ++ [.recycle e])).p.alive e = false := by
  have hrun : G.run (ops ++ [.recycle e]) = (G.run ops).step (.recycle e) := by simp [G.run, List.foldl_append]
  obtain ⟨free, hi⟩ := reachable_inv ops
  have hiss : e ∈ (G.run (ops ++ [.recycle e])).issued := by
    rw [hrun]; simp [G.step, he]; exact hi.live_issued e he
  cases hal : (G.run (ops ++ [.recycle e])).p.alive e
  · rfl
  · have := (alive_iff _ _ hiss).1 hal
    rw [hrun] at this
    simp only [G.step, he, ↓reduceIte] at this
    exact absurd this (hi.live_nodup.not_mem_erase)

/-- No two alive entities share an ID. -/
theorem alive_inj (ops : List POp) (a b : Entity) (ha : a ∈ (G.run ops).live) (hb : b ∈ (G.run ops).live)
    (hid : a.id = b.id) : a = b := by
  obtain ⟨free, hi⟩ := reachable_inv ops
  have h1 := ((hi.live_iff a).1 ha).2.2.2
  have h2 := ((hi.live_iff b).1 hb).2.2.2
  cases a; cases b; simp only [] at hid h1 h2; subst hid; simp [h1, h2]

/-- The zero entity is never alive. -/
theorem zero_never_alive (ops : List POp) : (G.run ops).p.alive Entity.zero = false := by
  obtain ⟨free, hi⟩ := reachable_inv ops
  rw [alive_eq _ _ (by show 0 < _; exact hi.size_pos)]
  have := hi.zero_slot
  simp only [Entity.zero] at *
  rw [this]; decide

theorem zero_not_live (ops : List POp) : Entity.zero ∉ (G.run ops).live := by
  obtain ⟨free, hi⟩ := reachable_inv ops
  intro h; have := ((hi.live_iff _).1 h).1; simp [Entity.zero] at this

theorem nodup_map_of_inj_on {α β} {l : List α} (f : α → β) (hn : l.Nodup)
    (hinj : ∀ a ∈ l, ∀ b ∈ l, f a = f b → a = b) : (l.map f).Nodup := by
  induction l with
  | nil => simp
  | cons x xs ih =>
    rw [List.map_cons, List.nodup_cons]
    have hx := List.nodup_cons.1 hn
    refine ⟨?_, ih hx.2 (fun a ha b hb => hinj a (List.mem_cons_of_mem _ ha) b (List.mem_cons_of_mem _ hb))⟩
    intro hm
    obtain ⟨y, hy, hfy⟩ := List.mem_map.1 hm
    have := hinj y (List.mem_cons_of_mem _ hy) x List.mem_cons_self hfy
    subst this; exact hx.1 hy

/-- counting: with the invariant, `Len` is the number of alive handles -/
theorem inv_len (p : Pool) (issued live : List Entity) (free : List Nat) (hi : Inv p issued live free) :
    p.len = live.length := by
  have hidnd : (live.map (·.id)).Nodup := by
    apply nodup_map_of_inj_on _ hi.live_nodup
    intro a ha b hb hab
    have h1 := ((hi.live_iff a).1 ha).2.2.2
    have h2 := ((hi.live_iff b).1 hb).2.2.2
    cases a; cases b; simp only [] at hab h1 h2; subst hab; simp [h1, h2]
  have hmemid : ∀ i, i ∈ live.map (·.id) ↔ (0 < i ∧ i < p.ents.size ∧ i ∉ free) := by
    intro i
    simp only [List.mem_map]
    constructor
    · intro ⟨h, hh, hid⟩
      have := (hi.live_iff h).1 hh
      rw [hid] at this; exact ⟨this.1, this.2.1, this.2.2.1⟩
    · intro ⟨h0, h1, hf⟩
      exact ⟨⟨i, (slot p i).gen⟩, (hi.live_iff _).2 ⟨h0, h1, hf, rfl⟩, rfl⟩
  have hperm : (live.map (·.id) ++ free).Perm (List.range' 1 (p.ents.size - 1)) := by
    rw [List.perm_ext_iff_of_nodup]
    · intro i
      simp only [List.mem_append, hmemid, List.mem_range'_1]
      constructor
      · intro h
        rcases h with h | h
        · omega
        · have := hi.free_range i h; omega
      · intro h
        by_cases hf : i ∈ free
        · exact Or.inr hf
        · exact Or.inl ⟨by omega, by omega, hf⟩
    · rw [List.nodup_append]
      refine ⟨hidnd, hi.free_nodup, ?_⟩
      intro a ha b hb hab; subst hab
      exact ((hmemid a).1 ha).2.2 hb
    · exact List.nodup_range' 1
  have hlen := hperm.length_eq
  simp only [List.length_append, List.length_map, List.length_range'] at hlen
  show p.ents.size - 1 - p.available = live.length
  have := hi.size_pos
  rw [hi.avail]; omega

/-- The number of alive entities (`entityPool.Len`) equals the number of handles created and
    not removed since the last reset. -/
theorem len_eq_live (ops : List POp) : (G.run ops).p.len = (G.run ops).live.length := by
  obtain ⟨free, hi⟩ := reachable_inv ops
  exact inv_len _ _ _ _ hi

/-- creations minus removals: the ghost alive list grows by one per `get` and shrinks by one
    per (legal) `recycle`; `reset` empties it. -/
theorem count_eq (ops : List POp) (op : POp) :
    (G.run (ops ++ [op])).p.len =
      match op with
      | .get => (G.run ops).p.len + 1
      | .recycle e => if e ∈ (G.run ops).live then (G.run ops).p.len - 1 else (G.run ops).p.len
      | .reset => 0 := by
  have hrun : G.run (ops ++ [op]) = (G.run ops).step op := by simp [G.run, List.foldl_append]
  rw [len_eq_live, hrun, len_eq_live]
  cases op with
  | get => simp [G.step]
  | recycle e =>
    by_cases he : e ∈ (G.run ops).live
    · simp [G.step, he, List.length_erase_of_mem he]
    · simp [G.step, he]
  | reset => simp [G.step]

/-- generations only grow, and a slot's generation is at most the number of operations: the
    `uint32` field of the implementation agrees with the model's natural number on every
    history shorter than 2^32 (cf. known finding K1 beyond that) -/
theorem gen_bound (ops : List POp) (i : Nat) (hi : 0 < i) : (slot (G.run ops).p i).gen ≤ ops.length := by
  suffices h : ∀ (ops : List POp) (g : G) (n : Nat), (∀ i, 0 < i → (slot g.p i).gen ≤ n) →
      ∀ i, 0 < i → (slot (ops.foldl G.step g).p i).gen ≤ n + ops.length by
    have := h ops G.init 0 (by
      intro i hi
      cases i with
      | zero => omega
      | succ k => simp [slot, G.init, Pool.init, Array.getD_eq_getD_getElem?]; rfl) i hi
    simpa [G.run] using this
  intro ops
  induction ops with
  | nil => intro g n h i hi; simpa using h i hi
  | cons op ops ih =>
    intro g n h i hi
    simp only [List.foldl_cons, List.length_cons]
    have hstep : ∀ j, 0 < j → (slot (g.step op).p j).gen ≤ n + 1 := by
      intro j hj
      cases op with
      | get =>
        simp only [G.step, Pool.get]
        split
        · unfold slot; simp only []; rw [Arr.getD_push]
          split
          · simp
          · exact Nat.le_succ_of_le (h j hj)
        · unfold slot; simp only []; rw [Arr.getD_set]
          split
          · rename_i hc; simp only []; rw [hc.1]; exact Nat.le_succ_of_le (h j hj)
          · exact Nat.le_succ_of_le (h j hj)
      | recycle e =>
        simp only [G.step]
        split
        · unfold slot Pool.recycle; simp only []; rw [Arr.getD_set]
          split
          · rename_i hc; simp only []; rw [hc.1]; exact Nat.succ_le_succ (h j hj)
          · exact Nat.le_succ_of_le (h j hj)
        · exact Nat.le_succ_of_le (h j hj)
      | reset =>
        simp only [G.step, Pool.reset]
        unfold slot; simp only [Array.getD_eq_getD_getElem?, Array.getElem?_extract]
        have : ¬ j = 0 := by omega
        split
        · rename_i hc; simp at hc; omega
        · exact Nat.zero_le _
    have := ih (g.step op) (n + 1) hstep i hi
    omega

/-- non-vacuity: a concrete history with recycling — create 3, remove the 2nd and 1st, create 2:
    the recycled ids come back with generation 1, in LIFO order -/
example : (G.run [.get, .get, .get, .recycle ⟨2, 0⟩, .recycle ⟨1, 0⟩, .get, .get]).live
    = [⟨2, 1⟩, ⟨1, 1⟩, ⟨3, 0⟩] := by decide

end Arche.Props.C02
