/-
  C05 — Relation targets: last assigned target, one relation per entity, alive-or-zero.

  The relation target of an entity is the `target` field of the table it sits in. On the model
  (tied to the Go code by the correspondence on `Relations.Get`, `Query.Relation`, per-entity
  targets and relation-filter selections):

  * **structure.** `KInv` (node lists, graph, index ↔ rows, and the table / target invariant
    `TInv`: one active table per (relation node, target), the node's target map names exactly
    the active tables, tables of plain nodes have the zero target) holds initially
    (`kinv_init`) and is kept by every successful exchange (`exchange_kinv`).
  * **the target after an exchange** (Add / Remove / Exchange / Relations.Exchange /
    Builder.Add): the entity's new table carries the target computed by `exchangeTarget` if its
    component set has a relation, zero otherwise (`exchange_target`), and that computed target
    is: the given one when a relation argument is passed — which must be alive or zero, must be
    a relation and must be among the new components (`target_given`); the old one when no
    relation id is removed (`target_kept`); zero when a relation component is removed — hence
    also when it is swapped for another relation or re-added without a target (`target_reset`).
  * **one relation per entity.** Adding a relation component to a component set that keeps one
    panics (C10.second_relation_panics).
  * **frame.** Every other entity stays in its table, and the target of every non-empty table
    is unchanged (`exchange_others`): adding or removing components of one entity changes no
    one else's target.
  * **alive or zero.** `checkTarget` passes exactly for the zero entity and alive entities, and
    a dead target panics through every API that takes one (C10.checkTarget_none_iff,
    C10.dead_target_panics).
  Relations.Set and the batch forms are covered by the correspondence only (`…_partial`).
-/
import ArcheProofs.Props.C10
import ArcheProofs.Lemmas.KInv

namespace Arche.Props.C05
open Arche Arche.World Arche.Arr Arche.Storage Arche.IndexInv Arche.SameRows Arche.Graph Arche.Closed Arche.TInv Arche.KInv Arche.Move Arche.NatMask
open Arche.Props.C01 (WInv At)

theorem KInv.winv {w : World} (h : KInv w) : WInv w := ⟨h.node, h.graph, h.idx⟩

/-! ## the initial world -/

theorem tinv_of_empty (w0 : World) (hn0 : w0.nodes = #[]) (ht0 : w0.tables = #[]) :
    TInv ((w0.createNode 0 none).1.createTable (w0.createNode 0 none).2 Entity.zero false).1 := by
  have t0 : TInv w0 := by
    refine ⟨?_, ?_, ?_, ?_, ?_, ?_⟩
    all_goals (intro a ha; first | (rw [hn0] at ha; simp at ha) | (rw [ht0] at ha; simp at ha))
  have n0 : NodeInv w0 := by
    refine ⟨?_, ?_, ?_, ?_⟩
    · intro t ht; rw [ht0] at ht; simp at ht
    all_goals (intro n hn; rw [hn0] at hn; simp at hn)
  have t1 : TInv (w0.createNode 0 none).1 := tinv_graphOnly (graphOnly_closed.node w0 0 none) n0.tnode t0
  have n1 := nodeInv_createNode w0 n0 0 none
  have hsz : (w0.createNode 0 none).2 < (w0.createNode 0 none).1.nodes.size := by unfold createNode; simp
  have hnd : (w0.createNode 0 none).1.nodeOf (w0.createNode 0 none).2 =
      { mask := 0, ids := Mask.toList 0 w0.cfg.maskBits, rel := none, active := false, capInc := w0.cfg.capInc, tables := #[], free := [], nbrs := [], tmap := [] } := by
    unfold createNode nodeOf; simp only []; rw [getD_push]; simp
  exact (tinv_createTable _ t1 n1 _ hsz Entity.zero false (fun h => by rw [hnd] at h; cases h) (fun _ => by rw [hnd]; rfl)).1

theorem kinv_init (cfg : Config) : KInv (World.init cfg) := by
  have h := C01.winv_init cfg
  refine ⟨h.node, h.graph, h.idx, ?_⟩
  unfold World.init
  exact tinv_of_empty _ rfl rfl

/-! ## which target an exchange computes -/

/-- a relation argument is given: the target is the given one, it is alive or zero, and the
    relation is a relation component of the new component set -/
theorem target_given (w : World) (mask : Mask) (r : CompId) (target : Entity) (src : Nat) (rem : List CompId) (tgt : Entity)
    (h : w.exchangeTarget mask (some r) target src rem = .ok tgt) :
    tgt = target ∧ (target.isZero = true ∨ w.pool.alive? target = some true) ∧
    Mask.get mask r = true ∧ Mask.get w.reg.isRel r = true := by
  unfold exchangeTarget at h
  simp only [] at h
  split at h; · cases h
  split at h; · cases h
  rename_i h1 h2
  cases hc : w.checkTarget target with
  | some p => simp [hc] at h
  | none =>
    simp only [hc, Except.ok.injEq] at h
    exact ⟨h.symm, (C10.checkTarget_none_iff w target).1 hc, by simpa using h1, by simpa using h2⟩

/-- no relation argument and no relation component removed: the old target is kept -/
theorem target_kept (w : World) (mask : Mask) (target : Entity) (src : Nat) (rem : List CompId) (tgt : Entity)
    (h : w.exchangeTarget mask none target src rem = .ok tgt) (hrem : ∀ id ∈ rem, Mask.get w.reg.isRel id = false) :
    tgt = (w.tableOf src).target := by
  unfold exchangeTarget at h
  simp only [Except.ok.injEq] at h
  rw [← h]
  unfold keptTarget
  simp only []
  have : rem.any (fun id => Mask.get w.reg.isRel id) = false := by
    rw [List.any_eq_false]; intro id hid; rw [hrem id hid]; simp
  simp [this]

/-- no relation argument and a relation component (present in the entity) removed — also when
    another relation, or the same one, is added in the same call: the target is reset to zero -/
theorem target_reset (w : World) (mask : Mask) (target : Entity) (src : Nat) (rem : List CompId) (tgt : Entity)
    (h : w.exchangeTarget mask none target src rem = .ok tgt)
    (hrem : ∃ id ∈ rem, Mask.get w.reg.isRel id = true ∧ Mask.get (w.tableMask src) id = true) :
    tgt.isZero = true := by
  unfold exchangeTarget at h
  simp only [Except.ok.injEq] at h
  rw [← h]
  unfold keptTarget
  simp only []
  obtain ⟨id, hid, h1, h2⟩ := hrem
  have hany : rem.any (fun id => Mask.get w.reg.isRel id) = true := by
    rw [List.any_eq_true]; exact ⟨id, hid, h1⟩
  have hca : Mask.containsAny (w.tableMask src) w.reg.isRel = true := by
    unfold Mask.containsAny
    simp only [bne_iff_ne, ne_eq]
    rw [← ne_eq, ne_zero_iff]
    exact ⟨id, by rw [get_and, h2, h1]; rfl⟩
  by_cases hz : (w.tableOf src).target.isZero = true
  · simp only [hz, Bool.not_true, Bool.false_and, Bool.false_eq_true, ↓reduceIte]
  · simp [hz, hca, hany]; rfl

/-! ## the world after an exchange -/

/-- the invariant is kept, the entity's new table has the computed target (zero if the new
    component set has no relation), and nobody else's table or target changes -/
theorem exchange_kinv (w : World) (e : Entity) (add rem : List CompId) (rel : Option CompId) (target : Entity) (x : Exchanged)
    (hK : KInv w) (hl : loc w e.id = some (w.locOf e)) (he : (rowAt w (w.locOf e).tbl (w.locOf e).row).ent = e)
    (hok : (w.exchangeNoNotify e add rem rel target).out = .ok (some x)) :
    KInv (w.exchangeNoNotify e add rem rel target).w ∧
    (∃ tgt mask, exchangeMask (w.tableMask (w.locOf e).tbl) add rem = .ok mask ∧
      w.exchangeTarget mask rel target (w.locOf e).tbl rem = .ok tgt ∧
      ((w.exchangeNoNotify e add rem rel target).w.tableOf x.tbl).target =
        (if ((w.exchangeNoNotify e add rem rel target).w.tableRel x.tbl).isSome then tgt else Entity.zero)) ∧
    (∀ t, t < w.tables.size → (w.tableOf t).active = true →
      ((w.exchangeNoNotify e add rem rel target).w.tableOf t).target = (w.tableOf t).target) := by
  obtain ⟨tgt, mask, hmask, htgt, hne, hf, hw⟩ := C01.exchange_world w e add rem rel target x hok
  rw [hw]
  generalize hsrc : w.locOf e = l at *
  have hv : validRow w l.tbl l.row := (hK.idx.fwd _ _ hl).1
  obtain ⟨hremok, _⟩ := C01.remOK_of_exchangeMask _ _ _ _ hmask
  obtain ⟨s1, n1, g1, hspec⟩ := findOrCreateTable_spec w hK.node hK.graph l.tbl hv.1 add rem tgt hremok
  obtain ⟨t1, htgt1⟩ := tinv_findOrCreateTable w hK.node hK.graph hK.tgt l.tbl hv.1 add rem tgt hremok
  obtain ⟨htlt, htmask⟩ := hspec x.tbl hf
  obtain ⟨hact1, htarget1⟩ := htgt1 x.tbl hf
  -- active tables keep their record through findOrCreateTable
  have hframe1 : ∀ t, t < w.tables.size → (w.tableOf t).active = true →
      ((w.findOrCreateTable l.tbl add rem tgt).1.tableOf t).target = (w.tableOf t).target := by
    intro t ht hact
    obtain ⟨w2, n2, s2, i2, g2, hn2, hcl, hres⟩ := findOrCreateTable_parts w hK.node hK.graph l.tbl hv.1 add rem tgt hremok
    have hgo : GraphOnly w w2 := hcl _ graphOnly_closed
    have t2 : TInv w2 := tinv_graphOnly hgo hK.node.tnode hK.tgt
    have hto : w2.tableOf t = w.tableOf t := by unfold tableOf; rw [hgo.tables]
    have ht2 : t < w2.tables.size := by rw [hgo.tables]; exact ht
    rcases hres with ⟨p, hp⟩ | ⟨_, ⟨t', _, hp⟩ | ⟨_, hp⟩⟩
    · rw [hp, hto]
    · rw [hp, hto]
    · rw [hp]; simp only []
      rw [createTable_frame w2 t2 i2 n2 hn2 tgt true t ht2 (by rw [hto]; exact hact), hto]
  generalize hw1 : (w.findOrCreateTable l.tbl add rem tgt).1 = w1 at *
  have i1 : IdxInv w1 := SameRows.idxInv s1 hK.node.tnode hK.idx
  have hv1 : validRow w1 l.tbl l.row := (i1.fwd _ _ (by rw [SameRows.loc_eq s1]; exact hl)).1
  have he1 : (rowAt w1 l.tbl l.row).ent = e := by rw [SameRows.rowAt_eq s1 _ _ hv.1]; exact he
  have hadds := findOrCreateTable_ok_adds w l.tbl add rem tgt x.tbl (by rw [← hf])
  have hmne := C01.newMask_ne _ _ _ hremok hadds hne
  have hsrcmask : w1.tableMask l.tbl = w.tableMask l.tbl := SameRows.tableMask_eq s1 hK.node.tnode _ hv.1
  have htne : x.tbl ≠ l.tbl := by
    intro heq; apply hmne; rw [← htmask, heq, ← hsrcmask]; rfl
  rw [moveEntity_eq w1 e l x.tbl htlt hv1 htne he1]
  generalize hcap : ((w1.tableOf x.tbl).extend (w1.nodeOf (w1.tableOf x.tbl).node).capInc 1).cap = cap
  -- swap-remove
  have hsz2 : (dropRow w1 l.tbl l.row).tables.size = w1.tables.size := tables_size_dropRow _ _ _ hv1.1 hv1.2
  have k2 : KInv (dropRow w1 l.tbl l.row) :=
    ⟨nodeInv_dropRow w1 n1 _ _ hv1.1 hv1.2, graphInv_of_nodes (node_dropRow _ _ _ hv1.1 hv1.2 0).2 g1,
     dropRow_inv w1 i1 _ _ hv1, tinv_dropRow w1 t1 _ _ hv1.1 hv1.2⟩
  have hidlt : e.id < w1.index.size := loc_lt _ _ _ (by rw [SameRows.loc_eq s1]; exact hl)
  have hidlt2 : (movedRow w1 e l x.tbl).ent.id < (dropRow w1 l.tbl l.row).index.size := by
    have : (dropRow w1 l.tbl l.row).index.size = w1.index.size := by
      unfold dropRow; simp only []; rw [removeRowFix_eq _ _ _ hv1.1 hv1.2]; split <;> simp [setIndex, setTable]
    rw [this]; exact hidlt
  have hfree : loc (dropRow w1 l.tbl l.row) (movedRow w1 e l x.tbl).ent.id = none := by
    rw [loc_dropRow w1 i1 _ _ hv1]
    have : (movedRow w1 e l x.tbl).ent.id = (rowAt w1 l.tbl l.row).ent.id := by rw [he1]; rfl
    rw [if_pos this]
  have hwidth : (movedRow w1 e l x.tbl).vals.length = ((dropRow w1 l.tbl l.row).tableIds x.tbl).length := by
    rw [tableIds_dropRow _ _ _ hv1.1 hv1.2]; exact movedVals_length _ _ _
  have hact2 : ((dropRow w1 l.tbl l.row).tableOf x.tbl).active = true := by
    rw [(fields_dropRow _ _ _ hv1.1 hv1.2 x.tbl).2.1]; exact hact1
  have htlt2 : x.tbl < (dropRow w1 l.tbl l.row).tables.size := by rw [hsz2]; exact htlt
  have k3 : KInv (pushRow (dropRow w1 l.tbl l.row) x.tbl (movedRow w1 e l x.tbl) cap) :=
    ⟨nodeInv_pushRow _ k2.node _ htlt2 _ _, graphInv_of_nodes (node_pushRow _ _ _ _ htlt2 0).2 k2.graph,
     pushRow_inv _ k2.idx x.tbl _ cap htlt2 hidlt2 hfree hwidth, tinv_pushRow _ k2.tgt _ htlt2 _ _ hact2⟩
  have hfields3 : ∀ t, ((pushRow (dropRow w1 l.tbl l.row) x.tbl (movedRow w1 e l x.tbl) cap).tableOf t).target = (w1.tableOf t).target ∧
      ((pushRow (dropRow w1 l.tbl l.row) x.tbl (movedRow w1 e l x.tbl) cap).tableOf t).node = (w1.tableOf t).node := by
    intro t
    rw [(fields_pushRow _ _ _ _ htlt2 t).1, (fields_dropRow _ _ _ hv1.1 hv1.2 t).1,
      (node_pushRow _ _ _ _ htlt2 t).1, (node_dropRow _ _ _ hv1.1 hv1.2 t).1]
    exact ⟨rfl, rfl⟩
  have hnodes3 : (pushRow (dropRow w1 l.tbl l.row) x.tbl (movedRow w1 e l x.tbl) cap).nodes = w1.nodes := by
    rw [(node_pushRow _ _ _ _ htlt2 0).2, (node_dropRow _ _ _ hv1.1 hv1.2 0).2]
  have hsz3 : (pushRow (dropRow w1 l.tbl l.row) x.tbl (movedRow w1 e l x.tbl) cap).tables.size = w1.tables.size := by
    rw [tables_size_pushRow, hsz2]
  generalize hw3 : pushRow (dropRow w1 l.tbl l.row) x.tbl (movedRow w1 e l x.tbl) cap = w3 at *
  have k4 := kinv_markTarget w3 k3 tgt
  have hsz4 : (w3.markTarget tgt).tables.size = w3.tables.size := by unfold markTarget setFlag; split <;> rfl
  have hto4 : ∀ t, (w3.markTarget tgt).tableOf t = w3.tableOf t := by intro t; unfold markTarget setFlag; split <;> rfl
  have hnodes4 : (w3.markTarget tgt).nodes = w3.nodes := by unfold markTarget setFlag; split <;> rfl
  have k5 := kinv_cleanupTable _ k4 l.tbl (by rw [hsz4, hsz3]; exact hv1.1)
  have hfields5 : ∀ t, (((w3.markTarget tgt).cleanupTable l.tbl).tableOf t).target = (w1.tableOf t).target ∧
      (((w3.markTarget tgt).cleanupTable l.tbl).tableOf t).node = (w1.tableOf t).node := by
    intro t
    obtain ⟨a, b⟩ := cleanupTable_fields (w3.markTarget tgt) l.tbl t
    rw [a, b, hto4, (hfields3 t).1, (hfields3 t).2]; exact ⟨rfl, rfl⟩
  have s35 : SameRows w3 ((w3.markTarget tgt).cleanupTable l.tbl) :=
    SameRows.trans (of_markTarget w3 tgt) (of_cleanupTable _ _ (by rw [hsz4, hsz3]; exact hv1.1))
  refine ⟨k5, ⟨tgt, mask, hmask, htgt, ?_⟩, ?_⟩
  · rw [(hfields5 x.tbl).1, htarget1]
    have : ((w3.markTarget tgt).cleanupTable l.tbl).tableRel x.tbl = w1.tableRel x.tbl := by
      rw [SameRows.tableRel_eq s35 k3.node.tnode x.tbl (by rw [hsz3]; exact htlt)]
      unfold tableRel nodeOfTable nodeOf
      rw [(hfields3 x.tbl).2, hnodes3]
    rw [this]
  · intro t ht hact
    rw [(hfields5 t).1]; exact hframe1 t ht hact

/-- every other entity stays in its table, keeps its row content, and its table's target is
    the one it had: adding / removing components of one entity changes no one else's relation
    target -/
theorem exchange_others (w : World) (e : Entity) (add rem : List CompId) (rel : Option CompId) (target : Entity) (x : Exchanged)
    (hK : KInv w) (hl : loc w e.id = some (w.locOf e)) (he : (rowAt w (w.locOf e).tbl (w.locOf e).row).ent = e)
    (hok : (w.exchangeNoNotify e add rem rel target).out = .ok (some x))
    (id t : Nat) (row : Row) (hid : id ≠ e.id) (ha : At w id t row) :
    At (w.exchangeNoNotify e add rem rel target).w id t row ∧
    ((w.exchangeNoNotify e add rem rel target).w.tableOf t).target = (w.tableOf t).target := by
  obtain ⟨_, _, _, hothers, _⟩ := C01.exchange_spec w e add rem rel target x (KInv.winv hK) hl he hok
  obtain ⟨_, _, hfr⟩ := exchange_kinv w e add rem rel target x hK hl he hok
  refine ⟨hothers id t row hid ha, ?_⟩
  obtain ⟨l0, h1, h2, _⟩ := ha
  have hv := (hK.idx.fwd id l0 h1).1
  rw [h2] at hv
  apply hfr t hv.1
  cases hact : (w.tableOf t).active
  · have := hK.tgt.empty t hv.1 hact; unfold validRow at hv; rw [this] at hv; exact absurd hv.2 (by simp)
  · rfl

end Arche.Props.C05
