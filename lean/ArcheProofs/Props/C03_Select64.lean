/-
  C03 companion — `World.getArchetypes` (ecs/world_internal.go), the uncached selection of tables
  every plain query, every batch operation and `Cache.Register` start from, REGENERATED on every
  run (ArcheGen/Pool64.lean: the loop over the graph nodes with its `continue`s, the inner counting
  loop over a node's tables; nodes, tables and filters are tokens whose members are function
  parameters). Under the interpretation of those parameters by the world model (`SelInterp`), the
  regenerated function returns exactly the model's `World.matchingTables` — the list the C03
  theorems (`query_visits_matching` …) are about: `getArchetypes_model`. For a registered filter it
  returns a copy of the entry's table list (`getArchetypes_cached`).
-/
import ArcheGen.Pool64
import ArcheModel
import ArcheProofs.Props.C07_CacheModel64

namespace Arche.Props.C03_Select64
open ArcheGen ArcheGen.P64 Arche Arche.World Arche.Props

/-- appending `g i` for the `i` of a list -/
theorem fold_append {σ : Type} (w : σ) (g : Nat → List (Option Nat))
    (step : σ × GoSlice (Option Nat) → Nat → Option (σ × GoSlice (Option Nat)))
    (l : List Nat)
    (hstep : ∀ (acc : GoSlice (Option Nat)) (i : Nat), i ∈ l → ∃ c, step (w, acc) i = some (w, ⟨acc.arr ++ (g i).toArray, c⟩))
    (acc : GoSlice (Option Nat)) :
    ∃ c, l.foldlM step (w, acc) = some (w, ⟨acc.arr ++ (l.flatMap g).toArray, c⟩) := by
  induction l generalizing acc with
  | nil => exact ⟨acc.cap, by simp [List.foldlM, pure]⟩
  | cons i l ih =>
    obtain ⟨c1, h1⟩ := hstep acc i List.mem_cons_self
    obtain ⟨c2, h2⟩ := ih (fun acc j hj => hstep acc j (List.mem_cons_of_mem _ hj)) ⟨acc.arr ++ (g i).toArray, c1⟩
    refine ⟨c2, ?_⟩
    rw [List.foldlM_cons, h1]
    simp only [bind, Option.bind]
    rw [h2]
    simp [List.flatMap_cons, Array.append_assoc]

/-- the function parameters of the regenerated selection mean what the world model computes -/
structure SelInterp (w : Arche.World) (fl : GoAny → Filter)
    (archActiveF : Option Nat → Bool) (archsGetF : GoAny → BitVec 32 → Option Nat) (archsLenF : GoAny → BitVec 32)
    (nodeActiveF : Option Nat → Bool) (nodeArchMapF : Option Nat → P64.Entity → Option (Option Nat))
    (nodeArchetypesF : Option Nat → GoAny) (nodeHasRelationF : Option Nat → Bool) (nodeMatchesF : Option Nat → GoAny → Bool)
    (relationTargetF : GoAny → Option P64.Entity) : Prop where
  nodeActive : ∀ n, nodeActiveF (some n) = (w.nodeOf n).active
  nodeMatches : ∀ n f, nodeMatchesF (some n) f = (fl f).sat (w.nodeOf n).mask
  nodeHasRel : ∀ n, nodeHasRelationF (some n) = (w.nodeOf n).rel.isSome
  relOk : ∀ f, (relationTargetF f).map C07_CacheModel64.toModelE = (fl f).relTarget?
  archMap : ∀ n tg, nodeArchMapF (some n) tg = (assocGet (w.nodeOf n).tmap (C07_CacheModel64.toModelE tg)).map some
  archsLen : ∀ n, (archsLenF (nodeArchetypesF (some n))).toInt = (((w.nodeOf n).tables.size : Nat) : Int)
  archsGet : ∀ n j, j < (w.nodeOf n).tables.size →
    archsGetF (nodeArchetypesF (some n)) (BitVec.ofNat 32 j) = some ((w.nodeOf n).tables.getD j 0)
  archActive : ∀ t, archActiveF (some t) = (w.tableOf t).active

/-- what one graph node contributes to the selection (the body of `World.matchingTables`) -/
def nodeSel (w : Arche.World) (f : Filter) (n : Nat) : List Nat :=
  let nd := w.nodeOf n
  if !nd.active || !f.sat nd.mask then []
  else match f.relTarget?, nd.rel with
    | some tg, some _ => (assocGet nd.tmap tg).toList
    | _, _ => nd.tables.toList.filter (fun t => (w.tableOf t).active)

theorem matchingTables_eq (w : Arche.World) (f : Filter) :
    w.matchingTables f = (List.range w.nodes.size).flatMap (nodeSel w f) := rfl

theorem toList_range (a : Array Nat) : a.toList = (List.range a.size).map (fun j => a.getD j 0) := by
  apply List.ext_getElem
  · simp
  · intro i h1 h2
    simp only [List.getElem_map, List.getElem_range, Array.getElem_toList]
    rw [Array.getD_eq_getD_getElem?, Array.getElem?_eq_getElem (by simpa using h1)]
    rfl

theorem filter_as_flatMap (a : Array Nat) (p : Nat → Bool) :
    (List.range a.size).flatMap (fun j => if p (a.getD j 0) = true then [some (a.getD j 0)] else []) =
      (a.toList.filter p).map some := by
  rw [toList_range a]
  generalize List.range a.size = l
  induction l with
  | nil => rfl
  | cons j l ih =>
    simp only [List.flatMap_cons, List.map_cons, List.filter_cons]
    rw [ih]
    cases p (a.getD j 0) <;> simp

/-- the inner loop over the tables of one node: the active ones, in order -/
theorem inner_loop (w : Arche.World) (archActiveF : Option Nat → Bool) (archsGetF : GoAny → BitVec 32 → Option Nat)
    (archsLenF : GoAny → BitVec 32) (nodeArchetypesF : Option Nat → GoAny) (gw : P64.World) (n : Nat)
    (hlen : (archsLenF (nodeArchetypesF (some n))).toInt = (((w.nodeOf n).tables.size : Nat) : Int))
    (hget : ∀ j, j < (w.nodeOf n).tables.size →
      archsGetF (nodeArchetypesF (some n)) (BitVec.ofNat 32 j) = some ((w.nodeOf n).tables.getD j 0))
    (hact : ∀ t, archActiveF (some t) = (w.tableOf t).active) (acc : GoSlice (Option Nat)) :
    ∃ c, Option.bind
        (List.foldlM (m := Option)
          (fun (x : P64.World × GoSlice (Option Nat)) jN =>
            if archActiveF (archsGetF (nodeArchetypesF (some n)) (BitVec.ofNat 32 jN)) = true then
              some (x.fst, x.snd.append (archsGetF (nodeArchetypesF (some n)) (BitVec.ofNat 32 jN)))
            else some (x.fst, x.snd))
          (gw, acc) (List.range (archsLenF (nodeArchetypesF (some n))).toInt.toNat))
        (fun (x : P64.World × GoSlice (Option Nat)) => some (x.fst, x.snd)) =
      some (gw, ⟨acc.arr ++ (((w.nodeOf n).tables.toList.filter (fun t => (w.tableOf t).active)).map some).toArray, c⟩) := by
  have hl : (archsLenF (nodeArchetypesF (some n))).toInt.toNat = (w.nodeOf n).tables.size := by rw [hlen]; simp
  rw [hl]
  generalize hX : List.foldlM (m := Option) (s := P64.World × GoSlice (Option Nat)) (α := Nat) _ (gw, acc)
    (List.range (w.nodeOf n).tables.size) = X
  obtain ⟨c, hc⟩ : ∃ c, X = some (gw, ⟨acc.arr ++ ((List.range (w.nodeOf n).tables.size).flatMap
      (fun j => if (w.tableOf ((w.nodeOf n).tables.getD j 0)).active = true then [some ((w.nodeOf n).tables.getD j 0)] else [])).toArray, c⟩) := by
    rw [← hX]
    refine fold_append gw _ _ _ ?_ _
    intro acc' j hj
    have hj' := List.mem_range.1 hj
    simp only [hget j hj', hact]
    cases (w.tableOf ((w.nodeOf n).tables.getD j 0)).active
    · exact ⟨acc'.cap, by simp⟩
    · exact ⟨if acc'.arr.size < acc'.cap then acc'.cap else acc'.arr.size + 1, by simp [GoSlice.append]⟩
  subst hc
  refine ⟨c, ?_⟩
  simp only [Option.bind]
  rw [filter_as_flatMap (w.nodeOf n).tables (fun t => (w.tableOf t).active)]

/-- **the regenerated uncached selection is the model's `matchingTables`** -/
theorem getArchetypes_model (w : Arche.World) (fl : GoAny → Filter)
    (archActiveF : Option Nat → Bool) (archsGetF : GoAny → BitVec 32 → Option Nat) (archsLenF : GoAny → BitVec 32)
    (asCachedFilterF : GoAny → Option CachedFilter)
    (nodeActiveF : Option Nat → Bool) (nodeArchMapF : Option Nat → P64.Entity → Option (Option Nat))
    (nodeArchetypesF : Option Nat → GoAny) (nodeHasRelationF : Option Nat → Bool) (nodeMatchesF : Option Nat → GoAny → Bool)
    (relationTargetF : GoAny → Option P64.Entity)
    (I : SelInterp w fl archActiveF archsGetF archsLenF nodeActiveF nodeArchMapF nodeArchetypesF nodeHasRelationF nodeMatchesF relationTargetF)
    (gw : P64.World) (f : GoAny) (hnc : asCachedFilterF f = none)
    (hnodes : gw.nodePointers.arr = ((List.range w.nodes.size).map some).toArray) :
    ∃ c, P64.World.getArchetypes archActiveF archsGetF archsLenF asCachedFilterF nodeActiveF nodeArchMapF nodeArchetypesF
        nodeHasRelationF nodeMatchesF relationTargetF gw f =
      some (gw, ⟨((w.matchingTables (fl f)).map some).toArray, c⟩) := by
  have hsize : gw.nodePointers.arr.size = w.nodes.size := by rw [hnodes]; simp
  unfold P64.World.getArchetypes
  simp only [hnc, Option.isSome_none, Bool.false_eq_true, if_false, bind, Option.bind, pure, GoSlice.size, hsize]
  generalize hX : List.foldlM (m := Option) (s := P64.World × GoSlice (Option Nat)) (α := Nat) _ (gw, (default : GoSlice (Option Nat))) (List.range w.nodes.size) = X
  obtain ⟨c, hc⟩ : ∃ c, X = some (gw, ⟨(default : GoSlice (Option Nat)).arr ++
      ((List.range w.nodes.size).flatMap (fun n => (nodeSel w (fl f) n).map some)).toArray, c⟩) := by
    rw [← hX]
    refine fold_append gw (fun n => (nodeSel w (fl f) n).map some) _ _ ?_ _
    intro acc i hi
    have hi' : i < w.nodes.size := List.mem_range.1 hi
    have hnode : gw.nodePointers.arr[i]? = some (some i) := by
      rw [hnodes]
      simp [hi']
    simp only [GoSlice.get, hnode, I.nodeActive, I.nodeMatches, I.nodeHasRel]
    unfold nodeSel
    simp only []
    by_cases hskip : (!(w.nodeOf i).active || !(fl f).sat (w.nodeOf i).mask) = true
    · simp only [hskip, if_true]
      exact ⟨acc.cap, by simp⟩
    · simp only [hskip, Bool.false_eq_true, if_false]
      have hrel := I.relOk f
      cases hrt : relationTargetF f with
      | none =>
        rw [hrt] at hrel
        simp only [Option.map_none] at hrel
        rw [← hrel]
        simp only [Option.isSome_none, Bool.false_and, Bool.false_eq_true, if_false]
        exact inner_loop w archActiveF archsGetF archsLenF nodeArchetypesF gw i (I.archsLen i) (I.archsGet i) I.archActive acc
      | some tg =>
        rw [hrt] at hrel
        simp only [Option.map_some] at hrel
        rw [← hrel]
        simp only [Option.isSome_some, Bool.true_and, Option.getD_some]
        cases hnr : (w.nodeOf i).rel with
        | none =>
          simp only [Option.isSome_none, Bool.false_eq_true, if_false]
          exact inner_loop w archActiveF archsGetF archsLenF nodeArchetypesF gw i (I.archsLen i) (I.archsGet i) I.archActive acc
        | some r =>
          simp only [Option.isSome_some, if_true, I.archMap]
          cases hm : assocGet (w.nodeOf i).tmap (C07_CacheModel64.toModelE tg) with
          | none => exact ⟨acc.cap, by simp⟩
          | some t => exact ⟨if acc.arr.size < acc.cap then acc.cap else acc.arr.size + 1, by simp [GoSlice.append]⟩
  subst hc
  refine ⟨c, ?_⟩
  rw [matchingTables_eq]
  simp only [List.map_flatMap]
  congr 3
  show (#[] : Array (Option Nat)) ++ _ = _
  simp

/-- for a registered filter the selection is a copy of the entry's table list (and a filter the
    cache does not know panics) -/
theorem getArchetypes_cached (archActiveF : Option Nat → Bool) (archsGetF : GoAny → BitVec 32 → Option Nat) (archsLenF : GoAny → BitVec 32)
    (asCachedFilterF : GoAny → Option CachedFilter)
    (nodeActiveF : Option Nat → Bool) (nodeArchMapF : Option Nat → P64.Entity → Option (Option Nat))
    (nodeArchetypesF : Option Nat → GoAny) (nodeHasRelationF : Option Nat → Bool) (nodeMatchesF : Option Nat → GoAny → Bool)
    (relationTargetF : GoAny → Option P64.Entity) (gw : P64.World) (f : GoAny) (cf : CachedFilter)
    (hc : asCachedFilterF f = some cf) :
    P64.World.getArchetypes archActiveF archsGetF archsLenF asCachedFilterF nodeActiveF nodeArchMapF nodeArchetypesF
        nodeHasRelationF nodeMatchesF relationTargetF gw f =
      (Cache.get gw.filterCache cf).map (fun r => (gw, GoSlice.appendAll default r.2.Archetypes.pointers)) := by
  unfold P64.World.getArchetypes
  simp only [hc, Option.isSome_some, if_true, Option.getD_some, bind, Option.bind, pure]
  cases hg : Cache.get gw.filterCache cf with
  | none => rfl
  | some r =>
    obtain ⟨c', e⟩ := r
    have hc' : c' = gw.filterCache := by
      unfold Cache.get at hg
      simp only [bind, Option.bind, pure] at hg
      split at hg
      · cases h1 : GoInt.toIndex ((GoMap.find gw.filterCache.indices cf.id).getD default) with
        | none => rw [h1] at hg; cases hg
        | some n =>
          rw [h1] at hg
          simp only [] at hg
          cases h2 : GoSlice.get gw.filterCache.filters n with
          | none => rw [h2] at hg; cases hg
          | some x => rw [h2] at hg; cases hg; rfl
      · cases hg
    subst hc'
    cases gw
    rfl

end Arche.Props.C03_Select64
