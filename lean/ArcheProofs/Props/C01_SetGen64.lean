/-
  C01 (companion, tiny build) — `World.copyTo` (the worker of `World.Set`, `World.Assign`'s value copies and the generic `MapN.Set`)
  REGENERATED from ecs/world_internal.go.

  * `copyTo_dead`: a handle that is not alive — removed, or recycled under a newer generation — panics, whatever now
    lives in that slot (no write reaches the entity that re-uses the id);
  * `copyTo_effect`: on success the world view is untouched and exactly one write happens: `archetype.Set` on the
    table and row the index holds for the entity, for the given component.
-/
import ArcheProofs.Props.C02_Create64

namespace Arche.Props.C01_SetGen64
open ArcheGen ArcheGen.P64 Arche Arche.Props

section
variable {Ext : Type} (archHasComponentF : Ext → Option Nat → BitVec 8 → Bool)
  (archSetF : Ext → Option Nat → BitVec 32 → BitVec 8 → GoAny → Ext × GoAny)

theorem copyTo_dead (w : P64.World) (e : P64.Entity) (id : BitVec 8) (comp : GoAny) (ext : Ext)
    (h : Pool.alive? (C02_Pool64.absPool w.entityPool) (C02_Pool64.absE e) ≠ some true) :
    P64.World.copyTo archHasComponentF archSetF w e id comp ext = none := by
  unfold P64.World.copyTo
  rw [C02_Create64.has_dead (archHasComponentF ext) w e id h]
  rfl

theorem copyTo_effect (w w' : P64.World) (e : P64.Entity) (id : BitVec 8) (comp : GoAny) (ext ext' : Ext) (r : GoAny)
    (h : P64.World.copyTo archHasComponentF archSetF w e id comp ext = some (w', ext', r)) :
    ∃ w1 x, P64.World.Has (archHasComponentF ext) w e id = some (w1, true) ∧ w' = w1 ∧
      w1.entities.arr[e.id.toNat]? = some x ∧ x.arch.isSome = true ∧
      ext' = (archSetF ext x.arch x.index id comp).1 ∧ r = (archSetF ext x.arch x.index id comp).2 := by
  unfold P64.World.copyTo at h
  simp only [Option.bind_eq_bind, pure] at h
  obtain ⟨⟨w1, r2⟩, hhas, hq⟩ := Option.bind_eq_some_iff.mp h
  clear h; have h := hq; clear hq
  dsimp only at h
  cases r2 with
  | false => simp at h
  | true =>
    simp only [Bool.not_true, Bool.false_eq_true, ↓reduceIte] at h
    obtain ⟨t3, ht3, hq⟩ := Option.bind_eq_some_iff.mp h
    clear h; have h := hq; clear hq
    obtain ⟨t4, ht4, hq⟩ := Option.bind_eq_some_iff.mp h
    clear h; have h := hq; clear hq
    obtain ⟨a, ha, hq⟩ := Option.bind_eq_some_iff.mp h
    simp only [Option.some.injEq, Prod.mk.injEq] at hq
    obtain ⟨h1, h2, h3⟩ := hq
    have h34 : t4 = t3 := by rw [ht3] at ht4; exact (Option.some.inj ht4).symm
    subst h34
    refine ⟨w1, t4, hhas, h1.symm, ht3, by rw [ha]; rfl, h2.symm, h3.symm⟩

end
end Arche.Props.C01_SetGen64
