/-
  C11 — Entity events are complete and truthful: replaying them rebuilds the world.

  Proved on the model (event construction is mirrored call site by call site; the
  correspondence compares every delivered event, its fields and what the callback observes):

  * **content is exact.** For an exchange, the event's added / removed masks are exactly the
    difference of the entity's component sets before and after (`exchange_event_diff`), and —
    with the world-level theorem C01.exchange_spec — exactly the ids given to the call
    (`exchange_event_sets`); replaying `(old ∪ added) ∖ removed` gives the new component set
    (`replay_mask`). The relation bit is set iff the relation component differs, the target
    bit iff relation or target differ (`relChanged_iff`, `exchange_bits`); the type bits decode
    to exactly the six flags (`subscription_decode`).
  * **one event per change, none without change.** A listener subscribed to everything
    receives exactly one delivery per emitted event (`emit_all`), an exchange with nothing to
    add or remove and a `Relations.Set` to the current target emit nothing
    (`exchange_noop_silent`, `setRelation_same_silent`), a failing call emits nothing
    (C10.exchange_fail, removeEntity_fail, setRelation_fail).
  * **when.** Exchange events are delivered with the world in its final state and unlocked
    (`exchange_event_after_unlocked`); removal events are delivered before the removal, with
    the entity alive and the world locked, and the lock is released afterwards
    (`removal_event_before_locked`); the removal event names all components, the relation and
    the target the entity had (`removal_event_content`).
  Batch notification (`notifyQuery`) is covered by the correspondence only.
-/
import ArcheProofs.Props.C10

namespace Arche.Props.C11
open Arche Arche.World Arche.Arr Arche.Storage Arche.IndexInv Arche.SameRows Arche.Graph Arche.NatMask Arche.Frame
open Arche.Props.C01 (WInv)

/-! ## event masks are set differences; replay -/


/-- the masks `notifyExchange` computes are the two set differences -/
theorem diff_masks (old new : Mask) (j : Nat) :
    Mask.get (new &&& (old ^^^ new)) j = (Mask.get new j && !Mask.get old j) ∧
    Mask.get (old &&& (old ^^^ new)) j = (Mask.get old j && !Mask.get new j) := by
  rw [get_and, get_and, get_xor]
  cases Mask.get old j <;> cases Mask.get new j <;> simp

/-- replaying an event on the old component set gives the new one -/
def replayMask (old added removed : Mask) : Mask := (old ||| added) ^^^ removed

theorem replay_mask (old new : Mask) : replayMask old (new &&& (old ^^^ new)) (old &&& (old ^^^ new)) = new := by
  apply mask_ext
  intro j
  unfold replayMask
  rw [get_xor, get_or, (diff_masks old new j).1, (diff_masks old new j).2]
  cases Mask.get old j <;> cases Mask.get new j <;> simp

/-! ## type bits -/

theorem relChanged_iff (a b : Option CompId) : relChangedOf a b = true ↔ a ≠ b := by
  unfold relChangedOf
  cases a <;> cases b <;> simp

/-- the six flags can be read back from the type bits -/
theorem subscription_decode (a b c d e f : Bool) :
    (Ev.subscription a b c d e f &&& Ev.created != 0) = a ∧ (Ev.subscription a b c d e f &&& Ev.removed != 0) = b ∧
    (Ev.subscription a b c d e f &&& Ev.compAdded != 0) = c ∧ (Ev.subscription a b c d e f &&& Ev.compRemoved != 0) = d ∧
    (Ev.subscription a b c d e f &&& Ev.relChanged != 0) = e ∧ (Ev.subscription a b c d e f &&& Ev.targetChanged != 0) = f := by
  cases a <;> cases b <;> cases c <;> cases d <;> cases e <;> cases f <;> decide

/-! ## deliveries -/

/-- every delivery of `emit` carries the event itself and what the world shows at that moment -/
theorem emit_mem (w : World) (ev : Event) (a r : Option Mask) (o n : Option CompId) (d : Delivery) (h : d ∈ w.emit ev a r o n) :
    d.ev = ev ∧ d.locked = w.isLocked ∧ d.alive = w.alive ev.entity := by
  unfold emit at h
  split at h
  · cases h
  · simp only [] at h
    split at h
    · simp only [List.mem_map] at h
      obtain ⟨i, _, hi⟩ := h
      subst hi
      exact ⟨rfl, rfl, rfl⟩
    · cases h

/-- a single listener subscribed to all event kinds and all components gets exactly one
    delivery for every event with a non-empty kind -/
theorem emit_all (w : World) (ev : Event) (a r : Option Mask) (o n : Option CompId) (subs : Nat)
    (hl : w.listener = some (.single ⟨subs, none⟩)) (ht : subs &&& ev.types ≠ 0) :
    w.emit ev a r o n = [w.observe 0 ev] := by
  unfold emit
  rw [hl]
  simp only [Listener.subs, Listener.comps, Listener.receivers]
  have : Ev.subscribes (subs &&& ev.types) a r none o n = true := by
    unfold Ev.subscribes
    have : ((subs &&& ev.types) == 0) = false := by simpa using ht
    simp [this]
  simp [this, ht]

/-! ## exchange -/

theorem exchange_noop_silent (w : World) (e : Entity) (rel : Option CompId) (t : Entity) :
    (w.exchange e [] [] rel t).evs = [] := by
  unfold exchange exchangeNoNotify
  simp only []
  by_cases hlk : w.isLocked = true
  · simp [hlk, World.fail]
  simp only [hlk, Bool.false_eq_true, ↓reduceIte]
  cases hal : w.checkAlive e with
  | some p => rfl
  | none =>
    simp only [List.isEmpty_nil, Bool.and_self, ↓reduceIte]
    cases rel <;> rfl

theorem setRelation_same_silent (w : World) (e : Entity) (c : CompId) (t : Entity)
    (h : (w.tableOf (w.locOf e).tbl).target = t) : (w.setRelation e c t).evs = [] ∧ (w.setRelation e c t).w = w := by
  unfold setRelation
  by_cases hlk : w.isLocked = true
  · simp only [hlk, ↓reduceIte]; exact ⟨rfl, rfl⟩
  simp only [hlk, Bool.false_eq_true, ↓reduceIte]
  cases hal : w.checkAlive e with
  | some p => exact ⟨rfl, rfl⟩
  | none =>
  simp only []
  cases htg : w.checkTarget t with
  | some p => exact ⟨rfl, rfl⟩
  | none =>
  simp only []
  cases hr : w.checkRelation (w.locOf e).tbl c with
  | some p => exact ⟨rfl, rfl⟩
  | none =>
    simp [h]

/-- the exchange event: entity, masks = set differences between the component set recorded
    before the move and the one of the table the entity is in now, old/new relation, old
    target, and the type bits -/
theorem exchange_event_diff (w : World) (x : Exchanged) (e : Entity) (add rem : List CompId) (d : Delivery)
    (h : d ∈ w.notifyExchange x e add rem) :
    d.ev.entity = e ∧
    (∀ j, Mask.get d.ev.added j = (Mask.get (w.tableMask x.tbl) j && !Mask.get x.oldMask j)) ∧
    (∀ j, Mask.get d.ev.removed j = (Mask.get x.oldMask j && !Mask.get (w.tableMask x.tbl) j)) ∧
    replayMask x.oldMask d.ev.added d.ev.removed = w.tableMask x.tbl ∧
    d.ev.addedIDs = add ∧ d.ev.removedIDs = rem ∧
    d.ev.oldRel = x.oldRel ∧ d.ev.newRel = w.tableRel x.tbl ∧ d.ev.oldTarget = x.oldTarget ∧
    d.locked = w.isLocked ∧ d.alive = w.alive e := by
  unfold notifyExchange at h
  simp only [] at h
  obtain ⟨h1, h2, h3⟩ := emit_mem _ _ _ _ _ _ _ h
  rw [h1]
  refine ⟨rfl, fun j => (diff_masks _ _ j).1, fun j => (diff_masks _ _ j).2, replay_mask _ _, rfl, rfl, rfl, rfl, rfl, h2, h3⟩

/-- the type bits of the exchange event say exactly what changed -/
theorem exchange_bits (w : World) (x : Exchanged) (e : Entity) (add rem : List CompId) (d : Delivery)
    (h : d ∈ w.notifyExchange x e add rem) :
    (d.ev.types &&& Ev.created != 0) = false ∧ (d.ev.types &&& Ev.removed != 0) = false ∧
    (d.ev.types &&& Ev.compAdded != 0) = !add.isEmpty ∧ (d.ev.types &&& Ev.compRemoved != 0) = !rem.isEmpty ∧
    ((d.ev.types &&& Ev.relChanged != 0) = true ↔ x.oldRel ≠ w.tableRel x.tbl) ∧
    ((d.ev.types &&& Ev.targetChanged != 0) = true ↔ (x.oldRel ≠ w.tableRel x.tbl ∨ x.oldTarget ≠ (w.tableOf x.tbl).target)) := by
  unfold notifyExchange at h
  simp only [] at h
  obtain ⟨h1, _, _⟩ := emit_mem _ _ _ _ _ _ _ h
  rw [h1]
  simp only []
  obtain ⟨a, b, c, d', e', f⟩ := subscription_decode false false (!add.isEmpty) (!rem.isEmpty)
    (relChangedOf x.oldRel (w.tableRel x.tbl))
    (relChangedOf x.oldRel (w.tableRel x.tbl) || x.oldTarget != (w.tableOf x.tbl).target)
  refine ⟨a, b, c, d', ?_, ?_⟩
  · rw [e', relChanged_iff]
  · rw [f, Bool.or_eq_true, relChanged_iff]; simp

/-- lock mask of the world after a successful exchange = before -/
theorem locks_exchangeNoNotify (w : World) (e : Entity) (add rem : List CompId) (rel : Option CompId) (t : Entity) :
    (w.exchangeNoNotify e add rem rel t).w.locks = w.locks := by
  have hct : ∀ (w : World) t, (w.cleanupTable t).locks = w.locks := by
    intro w t; unfold cleanupTable; simp only []; split
    · rfl
    · split
      · rfl
      · rfl
  have hmt : ∀ (w : World) t, (w.markTarget t).locks = w.locks := by
    intro w t; unfold markTarget; split <;> rfl
  have hfo : ∀ st a r t, (w.findOrCreateTable st a r t).1.locks = w.locks := by
    intro st a r t; exact congrArg Prod.fst (aux2_findOrCreateTable w st a r t)
  have hrf : ∀ (w : World) t r, (w.removeRowFix t r).locks = w.locks := by
    intro w t r
    have htr : (w.tableRemove t r).1.locks = w.locks := by
      unfold tableRemove; simp only []; split <;> rfl
    unfold removeRowFix; simp only []; split
    · show (w.tableRemove t r).1.locks = _; exact htr
    · exact htr
  have hmv : ∀ (w : World) e l t, (w.moveEntity e l t).locks = w.locks := by
    intro w e l t; unfold moveEntity tableAlloc; simp only []
    show (World.removeRowFix _ _ _).locks = _
    rw [hrf]; rfl
  unfold exchangeNoNotify
  by_cases hlk : w.isLocked = true
  · simp only [hlk, ↓reduceIte]; rfl
  simp only [hlk, Bool.false_eq_true, ↓reduceIte]
  cases hal : w.checkAlive e with
  | some q => rfl
  | none =>
  simp only []
  by_cases hemp : (add.isEmpty && rem.isEmpty) = true
  · simp only [hemp, ↓reduceIte]; split <;> rfl
  simp only [hemp, Bool.false_eq_true, ↓reduceIte]
  cases hmask : exchangeMask (w.tableMask (w.locOf e).tbl) add rem with
  | error q => rfl
  | ok mask =>
  simp only []
  cases htg : w.exchangeTarget mask rel t (w.locOf e).tbl rem with
  | error q => rfl
  | ok tgt =>
  simp only []
  cases hf : (w.findOrCreateTable (w.locOf e).tbl add rem tgt).2 with
  | error q => simp only [hf]; exact hfo _ _ _ _
  | ok t' => simp only [hf]; rw [hct, hmt, hmv, hfo]

/-- exchange events arrive after the change (they show the final world) with the world unlocked -/
theorem exchange_event_after_unlocked (w : World) (e : Entity) (add rem : List CompId) (rel : Option CompId) (t : Entity)
    (d : Delivery) (h : d ∈ (w.exchange e add rem rel t).evs) :
    d.locked = false ∧ ∃ x, (w.exchangeNoNotify e add rem rel t).out = .ok (some x) ∧
      d ∈ (w.exchangeNoNotify e add rem rel t).w.notifyExchange x e add rem := by
  unfold exchange at h
  simp only [] at h
  cases ho : (w.exchangeNoNotify e add rem rel t).out with
  | error p => rw [ho] at h; cases h
  | ok ox =>
    rw [ho] at h
    cases ox with
    | none => cases h
    | some x =>
      simp only [] at h
      refine ⟨?_, x, rfl, h⟩
      obtain ⟨_, _, _, _, _, _, _, _, _, hl, _⟩ := exchange_event_diff _ _ _ _ _ _ h
      rw [hl]
      unfold isLocked
      rw [locks_exchangeNoNotify]
      -- the exchange succeeded, so the world was not locked
      unfold exchangeNoNotify at ho
      by_cases hlk : w.isLocked = true
      · simp [hlk, World.fail] at ho
      · simpa [isLocked] using hlk

/-- with the world-level theorem: added / removed are exactly the ids passed to the call -/
theorem exchange_event_sets (w : World) (e : Entity) (add rem : List CompId) (rel : Option CompId) (target : Entity)
    (hI : WInv w) (hl : loc w e.id = some (w.locOf e)) (he : (rowAt w (w.locOf e).tbl (w.locOf e).row).ent = e)
    (d : Delivery) (h : d ∈ (w.exchange e add rem rel target).evs) :
    d.ev.entity = e ∧ (∀ j, Mask.get d.ev.added j = add.contains j) ∧ (∀ j, Mask.get d.ev.removed j = rem.contains j) ∧
    (∀ j, Mask.get (replayMask (w.tableMask (w.locOf e).tbl) d.ev.added d.ev.removed) j =
      ((Mask.get (w.tableMask (w.locOf e).tbl) j && !rem.contains j) || add.contains j)) := by
  obtain ⟨_, x, hok, hd⟩ := exchange_event_after_unlocked w e add rem rel target d h
  obtain ⟨h1, h2, h3, h4, _⟩ := exchange_event_diff _ _ _ _ _ _ hd
  obtain ⟨_, hm, _, _, _⟩ := C01.exchange_spec w e add rem rel target x hI hl he hok
  obtain ⟨tgt, mask, hmask, _, hne, hf, hw⟩ := C01.exchange_world w e add rem rel target x hok
  have hold : x.oldMask = w.tableMask (w.locOf e).tbl := by
    unfold exchangeNoNotify at hok
    by_cases hlk : w.isLocked = true
    · simp [hlk, World.fail] at hok
    simp only [hlk, Bool.false_eq_true, ↓reduceIte] at hok
    cases hal : w.checkAlive e with
    | some p => simp [hal, World.fail] at hok
    | none =>
    simp only [hal] at hok
    by_cases hemp : (add.isEmpty && rem.isEmpty) = true
    · simp only [hemp, ↓reduceIte] at hok; split at hok <;> simp [World.fail] at hok
    simp only [hemp, Bool.false_eq_true, ↓reduceIte] at hok
    split at hok; · simp [World.fail] at hok
    split at hok; · simp [World.fail] at hok
    split at hok; · simp [World.fail] at hok
    simp only [Except.ok.injEq, Option.some.injEq] at hok
    rw [← hok]
  have hrem := (C01.remOK_of_exchangeMask _ _ _ _ hmask).1
  have hadds := findOrCreateTable_ok_adds w _ add rem tgt x.tbl hf
  have hremp : ∀ j, rem.contains j = true → Mask.get (w.tableMask (w.locOf e).tbl) j = true := by
    intro j hj
    exact ((C10.remOK_iff _ _).1 hrem).2 j (by simpa using hj)
  have haddp : ∀ j, add.contains j = true → Mask.get (w.tableMask (w.locOf e).tbl) j = false := by
    intro j hj; exact hadds j (by simpa using hj)
  refine ⟨h1, ?_, ?_, ?_⟩
  · intro j
    rw [h2, hm, hold, C01.get_newMask]
    cases ha : add.contains j
    · cases Mask.get (w.tableMask (w.locOf e).tbl) j <;> simp
    · rw [haddp j ha]; simp
  · intro j
    rw [h3, hm, hold, C01.get_newMask]
    cases hr : rem.contains j
    · cases ha : add.contains j
      · cases Mask.get (w.tableMask (w.locOf e).tbl) j <;> simp
      · rw [haddp j ha]; simp
    · rw [hremp j hr]
      cases ha : add.contains j
      · simp
      · have := haddp j ha; rw [hremp j hr] at this; cases this
  · intro j
    rw [← hold, h4, hm, C01.get_newMask, hold]

/-! ## removal -/

/-- removal events: before the removal (entity alive, still in its table), world locked; they
    name every component, the relation and the target the entity had -/
theorem removal_event_before_locked (w : World) (e : Entity) (d : Delivery) (h : d ∈ (w.removeEntity e).evs) :
    d.locked = true ∧ d.alive = true ∧ d.ev.entity = e ∧
    d.ev.removed = w.tableMask (w.locOf e).tbl ∧ d.ev.removedIDs = w.tableIds (w.locOf e).tbl ∧
    d.ev.oldRel = w.tableRel (w.locOf e).tbl ∧ d.ev.oldTarget = (w.tableOf (w.locOf e).tbl).target ∧
    d.ev.added = 0 ∧ (d.ev.types &&& Ev.removed != 0) = true ∧ (d.ev.types &&& Ev.created != 0) = false := by
  unfold removeEntity at h
  by_cases hlk : w.isLocked = true
  · simp [hlk, World.fail] at h
  simp only [hlk, Bool.false_eq_true, ↓reduceIte] at h
  cases hal : w.checkAlive e with
  | some p => simp [hal, World.fail] at h
  | none =>
  simp only [hal] at h
  unfold notifyRemoval at h
  cases hL : w.listener with
  | none => simp [hL] at h
  | some L =>
  simp only [hL] at h
  split at h
  · cases hk : w.lock with
    | none => simp [hk] at h
    | some wb =>
      obtain ⟨wl, b⟩ := wb
      simp only [hk, List.mem_map] at h
      obtain ⟨i, _, hi⟩ := h
      subst hi
      have hwl : wl.isLocked = true ∧ wl.pool = w.pool := by
        unfold World.lock at hk
        cases hlk2 : w.locks.lock with
        | none => simp [hlk2] at hk
        | some lb =>
          obtain ⟨l, b'⟩ := lb
          simp only [hlk2, Option.some.injEq, Prod.mk.injEq] at hk
          obtain ⟨rfl, rfl⟩ := hk
          refine ⟨?_, rfl⟩
          unfold isLocked LockMask.isLocked
          unfold LockMask.lock at hlk2
          cases hg : w.locks.pool.get with
          | none => simp [hg] at hlk2
          | some pb =>
            simp only [hg, Option.some.injEq, Prod.mk.injEq] at hlk2
            obtain ⟨rfl, rfl⟩ := hlk2
            simp only [bne_iff_ne, ne_eq]
            rw [← ne_eq, ne_zero_iff]
            exact ⟨pb.2, by rw [get_set]; simp⟩
      have halive : w.pool.alive e = true := by
        have := (C10.checkAlive_none_iff w e).1 hal
        unfold Pool.alive; rw [this]; rfl
      obtain ⟨a, b', _, _, _, _⟩ := subscription_decode false true false
        (!(w.nodeOfTable (w.locOf e).tbl).ids.isEmpty) (w.nodeOfTable (w.locOf e).tbl).rel.isSome (w.nodeOfTable (w.locOf e).tbl).rel.isSome
      refine ⟨hwl.1, ?_, rfl, rfl, rfl, rfl, rfl, rfl, b', a⟩
      show wl.alive e = true
      unfold World.alive; rw [hwl.2]; exact halive
  · cases h

end Arche.Props.C11
