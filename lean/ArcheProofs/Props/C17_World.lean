/-
  C17 (companion) — dump / load at world level, for worlds satisfying the global invariant
  (every reachable world, C01_Reach):

  * `dump_wf` (Lemmas/Load): a dump's pool part is a well-formed pool and its alive list names
    exactly the live handles, each once;
  * `ginv_load`: loading it into a world whose pool was never used since creation / reset
    succeeds and yields a world satisfying the global invariant with the *source's* ghost history —
    the same handles are live, each stored in exactly one row (of the root table, all components
    zero); so every later operation on the loaded world is covered by the same theorems;
  * `dump_load_dump`: **a second dump, taken from the loaded world, is identical to the first** —
    pool, next, available and the alive list including its order (this closes the
    `dump_load_dump_partial` of C17).
-/
import ArcheProofs.Props.C01_Reach

namespace Arche.Props.C17.World
open Arche Arche.World Arche.Arr Arche.Storage Arche.IndexInv Arche.KInv Arche.Cov Arche.Cache Arche.SInv Arche.Create Arche.Frames Arche.GInv Arche.Load
open Arche.Props.C17 (Receptive)

theorem flatMap_single {α β} [DecidableEq α] (l : List α) (a : α) (f : α → List β) (hnd : l.Nodup) (ha : a ∈ l)
    (h : ∀ x ∈ l, x ≠ a → f x = []) : l.flatMap f = f a := by
  induction l with
  | nil => cases ha
  | cons x xs ih =>
    simp only [List.nodup_cons] at hnd
    simp only [List.flatMap_cons]
    by_cases hx : x = a
    · subst hx
      have : xs.flatMap f = [] := by
        rw [List.flatMap_eq_nil_iff]
        intro y hy
        exact h y (List.mem_cons_of_mem _ hy) (fun heq => hnd.1 (heq ▸ hy))
      rw [this, List.append_nil]
    · rw [h x List.mem_cons_self hx, List.nil_append]
      rcases List.mem_cons.1 ha with rfl | ha'
      · exact absurd rfl hx
      · exact ih hnd.2 ha' (fun y hy => h y (List.mem_cons_of_mem _ hy))

/-- **dump → load → dump gives the identical dump** -/
theorem dump_load_dump (src dst : World) (is' lv' is lv : List Entity) (Gs : GInv src is' lv') (Gd : GInv dst is lv) (hr : Receptive dst)
    (d d2 : Dump) (hd : src.dump.out = .ok d) (hd2 : (dst.load d).w.dump.out = .ok d2) : d2 = d := by
  have hwf := dump_wf src is' lv' Gs d hd
  obtain ⟨_, G2⟩ := ginv_load dst is lv Gd hr d is' lv' hwf
  obtain ⟨hrows0, hothers⟩ := load_rows dst is lv Gd hr d is' lv' hwf
  obtain ⟨p1, p2, p3⟩ := Arche.Props.C17.dump_load_dump_partial src dst d d2 hd hr hd2
  generalize hw2 : (dst.load d).w = w2 at *
  have halive2 : d2.alive = (w2.allInQueryOrder).map (·.id) := by
    unfold World.dump at hd2
    split at hd2
    · cases hd2
    · cases hd2; rfl
  have hq : w2.allInQueryOrder = (w2.tableOf 0).rows.toList.map (·.ent) := by
    unfold allInQueryOrder
    apply flatMap_single _ 0 _ (nodup_matchingTables w2 G2.k (.all 0))
    · have hra := root_active w2 G2.k G2.d G2.root
      refine (mem_matchingTables w2 G2.k G2.s.cov (.all 0) 0).2 ⟨G2.root.size, hra.1, ?_, fun tg h => by cases h⟩
      unfold Filter.sat Mask.contains; simp
    · intro t _ hne
      rw [hothers t hne]; rfl
  obtain ⟨free, hP⟩ := hwf.pool
  have hids : d.alive.map (fun id => (d.ents.getD id default).id) = d.alive := by
    have : ∀ id ∈ d.alive, (d.ents.getD id default).id = id := by
      intro id hid
      obtain ⟨e0, he0, hid0⟩ := (hwf.mem id).1 hid
      rw [← hid0, live_eq_slot _ is' lv' free hP e0 he0]
    calc d.alive.map (fun id => (d.ents.getD id default).id) = d.alive.map id := List.map_congr_left this
      _ = d.alive := List.map_id _
  have halive : d2.alive = d.alive := by
    rw [halive2, hq, hrows0, List.map_map]
    exact hids
  cases d; cases d2
  simp only at p1 p2 p3 halive
  subst p1; subst p2; subst p3; subst halive
  rfl

/-- in particular for reachable worlds: the loaded world is reachable in the sense of the
    invariants, with the source's issued / live handles -/
theorem reach_load {src dst : World} {is' lv' is lv : List Entity}
    (hs : Arche.Props.C01.Reach.Reach src is' lv') (hdst : Arche.Props.C01.Reach.Reach dst is lv) (hr : Receptive dst)
    (d : Dump) (hd : src.dump.out = .ok d) :
    (dst.load d).out = .ok () ∧ GInv (dst.load d).w is' lv' :=
  ginv_load dst is lv (Arche.Props.C01.Reach.reach_ginv hdst) hr d is' lv' (dump_wf src is' lv' (Arche.Props.C01.Reach.reach_ginv hs) d hd)

end Arche.Props.C17.World
