/-
  C17 — Entity dump/load reproduces the alive set and the future handle sequence.

  In the model (ArcheModel.Ops: dump, load): loading a dump into an unlocked world with an unused
  pool makes the receiving pool *equal* to the dumped pool, for every dumped world. Hence every
  handle gets the same Alive answer in both worlds and — handle issue and recycling being
  functions of the pool alone — every continuation issues identical handles (`same_future_*`).
  A second dump has the same pool part (`dump_load_dump_pool`; the order of the alive list is
  covered by the correspondence, not proved: `dump_load_dump_partial`). Loading into a used
  world is refused without effect. JSON round trips go through encoding/json (trusted, compared
  by the harness).
-/
import ArcheProofs.Lemmas.Frame

namespace Arche.Props.C17
open Arche World

/-- an unlocked world whose pool was never used since creation/reset -/
def Receptive (w : World) : Prop := w.isLocked = false ∧ w.pool.ents.size ≤ 1 ∧ w.pool.available = 0

theorem load_fold_pool (l : List Nat) (w : World) :
    (l.foldl (fun w idx =>
      let e := w.pool.ents.getD idx default
      let (w, r) := w.tableAlloc 0 e
      w.setIndex e.id (some ⟨0, r⟩)) w).pool = w.pool := by
  induction l generalizing w with
  | nil => rfl
  | cons i is ih => simp only [List.foldl_cons]; rw [ih]; rfl

/-- Loading a dump makes the pool equal to the dumped pool. -/
theorem load_pool (src dst : World) (d : Dump) (hd : src.dump.out = .ok d) (hr : Receptive dst) :
    (match (dst.load d).out with | .ok _ => true | _ => false) = true ∧ (dst.load d).w.pool = src.pool := by
  obtain ⟨hl, hs, ha⟩ := hr
  have hdump : d.ents = src.pool.ents ∧ d.next = src.pool.next ∧ d.available = src.pool.available := by
    unfold World.dump at hd
    split at hd
    · cases hd
    · cases hd; exact ⟨rfl, rfl, rfl⟩
  unfold World.load
  have h1 : (decide (dst.pool.ents.size > 1) || decide (dst.pool.available > 0)) = false := by
    simp; omega
  simp only [hl, Bool.false_eq_true, ↓reduceIte, h1]
  refine ⟨trivial, ?_⟩
  rw [load_fold_pool]
  simp only []
  rw [hdump.1, hdump.2.1, hdump.2.2]

/-- Every handle gets the same Alive answer in the loaded world as in the dumped one. -/
theorem load_alive (src dst : World) (d : Dump) (hd : src.dump.out = .ok d) (hr : Receptive dst) (h : Entity) :
    (dst.load d).w.pool.alive? h = src.pool.alive? h := by
  rw [(load_pool src dst d hd hr).2]

/-- The next handle issued is the same, and so is the pool afterwards — so by induction every
    continuation of creations and removals issues identical handles in both worlds. -/
theorem same_future_get (src dst : World) (d : Dump) (hd : src.dump.out = .ok d) (hr : Receptive dst) :
    (dst.load d).w.pool.get = src.pool.get := by
  rw [(load_pool src dst d hd hr).2]

theorem same_future_recycle (src dst : World) (d : Dump) (hd : src.dump.out = .ok d) (hr : Receptive dst) (e : Entity) :
    (dst.load d).w.pool.recycle e = src.pool.recycle e := by
  rw [(load_pool src dst d hd hr).2]

/-- dumping does not change the pool, the index or the tables (it takes and releases a lock) -/
theorem dump_keeps_pool (w : World) : w.dump.w.pool = w.pool := by
  unfold World.dump
  split
  · rfl
  · rename_i wl b hlk
    have hp : wl.pool = w.pool := by
      unfold World.lock at hlk; split at hlk
      · cases hlk
      · cases hlk; rfl
    simp only []
    cases hu : wl.unlock b with
    | none => simpa using hp
    | some w' =>
      simp only [Option.getD_some]
      unfold World.unlock at hu; split at hu
      · cases hu
      · cases hu; exact hp

/-- A second dump (of the loaded world) has the same pool part as the first.
    (`…_partial`: the full statement — the two dumps are identical including the order of the
    `Alive` list — is checked by the correspondence on generated histories, not proved.) -/
theorem dump_load_dump_partial (src dst : World) (d d2 : Dump) (hd : src.dump.out = .ok d) (hr : Receptive dst)
    (hd2 : (dst.load d).w.dump.out = .ok d2) :
    d2.ents = d.ents ∧ d2.next = d.next ∧ d2.available = d.available := by
  have hp := (load_pool src dst d hd hr).2
  have e1 : d.ents = src.pool.ents ∧ d.next = src.pool.next ∧ d.available = src.pool.available := by
    unfold World.dump at hd
    split at hd
    · cases hd
    · cases hd; exact ⟨rfl, rfl, rfl⟩
  have e2 : d2.ents = (dst.load d).w.pool.ents ∧ d2.next = (dst.load d).w.pool.next ∧ d2.available = (dst.load d).w.pool.available := by
    unfold World.dump at hd2
    split at hd2
    · cases hd2
    · cases hd2; exact ⟨rfl, rfl, rfl⟩
  rw [hp] at e2
  exact ⟨e2.1.trans e1.1.symm, e2.2.1.trans e1.2.1.symm, e2.2.2.trans e1.2.2.symm⟩

/-- Loading into a world that still has (or had, without reset) entities is refused, without effect. -/
theorem load_refused (w : World) (d : Dump) (hl : w.isLocked = false) (hu : w.pool.ents.size > 1 ∨ w.pool.available > 0) :
    (match (w.load d).out with | .error .loadUsed => true | _ => false) = true ∧ (w.load d).w = w := by
  unfold World.load
  simp [hl, hu, World.fail]

/-- a freshly created world and a reset world are receptive -/
theorem init_receptive (cfg : Config) (h : 0 < cfg.maskBits) : Receptive (World.init cfg) := by
  have pool_createTable : ∀ (w : World) n t f, (w.createTable n t f).1.pool = w.pool ∧ (w.createTable n t f).1.locks = w.locks := by
    intro w n t f
    unfold createTable
    simp only []
    split
    · split <;> exact ⟨rfl, rfl⟩
    · exact ⟨rfl, rfl⟩
  unfold World.init Receptive
  simp only []
  refine ⟨?_, ?_, ?_⟩
  · unfold World.isLocked; rw [(pool_createTable _ _ _ _).2]; rfl
  · rw [(pool_createTable _ _ _ _).1]; show (Pool.init).ents.size ≤ 1; decide
  · rw [(pool_createTable _ _ _ _).1]; rfl

/-- non-vacuity: dump a world after create/create/remove, load into a fresh world, the next
    handle issued is the recycled one in both -/
example :
    (match ((((World.init ⟨4, 0, 8⟩).newEntity []).w.newEntity []).w.removeEntity ⟨1, 0⟩).w.dump.out with
     | .ok d => decide (((World.init ⟨2, 0, 8⟩).load d).w.pool.get.2 = ⟨1, 1⟩)
     | _ => false) = true := by decide

end Arche.Props.C17
