/-
  C15 — Reset returns the world to the behaviour of a fresh one.

  On the model (ArcheModel.Ops.reset mirrors World.Reset / archNode.Reset; tied to the Go code by
  the correspondence over histories with several reset cycles, exact handles after each):

  * `reset_locked`: on a locked world Reset panics and changes nothing (also C09).
  * `reset_spec`, for every unlocked world satisfying the invariants: Reset succeeds;
    - **no entity is left**: every table of the world has no rows, nothing is indexed, and
      `KInv` / `SInv` hold again — in particular every registered filter's table list is again
      exactly what the uncached evaluation selects (C07), so registered filters stay valid;
    - **relation tables of non-zero targets are gone**: every table still active has the zero
      target (a fresh world has no targets either); they were retired through `removeTable`, so
      the cache lists and free lists followed;
    - **the entity pool is the fresh pool** (`reset_pool_fresh`): the next handles issued are those
      a new world issues (`⟨1,0⟩, ⟨2,0⟩, …`), since handle issue is a function of the pool
      (C02, C17 `same_future`); old handles are out of range;
    - locks are released, all resources are removed, target flags cleared;
    - **registrations survive**: component registry, resource-type count, configuration, listener,
      and the ids and filters of all cache entries are unchanged.
  What a fresh world additionally lacks — already created (now empty) nodes and tables — is not
  observable through the API except by `Stats`; it is the part of the claim left to the
  correspondence (twin histories: history · reset · continuation vs fresh · continuation).
-/
import ArcheProofs.Props.C07
import ArcheProofs.Lemmas.Reset

namespace Arche.Props.C15
open Arche Arche.World Arche.Arr Arche.Storage Arche.IndexInv Arche.SameRows Arche.Graph Arche.Closed Arche.TInv Arche.KInv Arche.Cov Arche.Cache Arche.SInv Arche.Remove Arche.Reset

theorem reset_locked (w : World) (h : w.isLocked = true) : (w.reset).out = .error .locked ∧ (w.reset).w = w := by
  unfold reset; simp [h, World.fail]

/-- the first phase of `Reset`: pool, index, flags, locks, resources -/
def resetHead (w : World) : World :=
  { w with index := w.index.extract 0 1, flags := w.flags.extract 0 1, pool := w.pool.reset,
           locks := w.locks.reset, resources := w.resources.map (fun _ => none) }

theorem reset_eq (w : World) (h : w.isLocked = false) :
    w.reset = { w := (List.range (resetHead w).nodes.size).foldl resetNode (resetHead w), out := .ok () } := by
  unfold reset resetHead; simp [h]

theorem reset_spec (w : World) (hK : KInv w) (hS : SInv w) (hl : w.isLocked = false) (hz : loc w 0 = none) :
    (w.reset).out = .ok () ∧
    SInv (w.reset).w ∧ KInv (w.reset).w ∧
    (w.reset).w.tables.size = w.tables.size ∧ (w.reset).w.nodes.size = w.nodes.size ∧
    (∀ t, t < w.tables.size → ((w.reset).w.tableOf t).rows = #[]) ∧
    (∀ t, t < w.tables.size → ((w.reset).w.tableOf t).active = true → ((w.reset).w.tableOf t).target.isZero = true) ∧
    (∀ id, loc (w.reset).w id = none) ∧
    (w.reset).w.pool = w.pool.reset ∧ (w.reset).w.isLocked = false ∧
    (∀ r, (w.reset).w.resGet r = none) ∧ (∀ i, (w.reset).w.flag i = false ∨ i = 0) ∧
    (w.reset).w.reg = w.reg ∧ (w.reset).w.cfg = w.cfg ∧ (w.reset).w.listener = w.listener ∧ (w.reset).w.resCount = w.resCount ∧
    (w.reset).w.cacheNext = w.cacheNext ∧
    (w.reset).w.cache.map (fun e => (e.id, e.filter)) = w.cache.map (fun e => (e.id, e.filter)) := by
  rw [reset_eq w hl]
  simp only []
  have hS0 : SInv (resetHead w) := sinv_congr (w := w) rfl rfl rfl rfl hS
  obtain ⟨c, e⟩ := resetAll (resetHead w) hS0
  generalize hW : (List.range (resetHead w).nodes.size).foldl resetNode (resetHead w) = W at c e
  obtain ⟨r1, r2, r3, r4, r5, r6, r7, r8, r9, r10, r11⟩ := c.rest
  have hts : W.tables.size = w.tables.size := c.tsize
  have hloc : ∀ id, loc W id = none := by
    intro id
    unfold loc; rw [r1]
    show (w.index.extract 0 1).getD id none = none
    rw [Array.getD_eq_getD_getElem?]
    by_cases h0 : id = 0
    · subst h0
      by_cases hs : 0 < w.index.size
      · have := getD_extract01 w.index none hs
        rw [Array.getD_eq_getD_getElem?] at this
        rw [this]; exact hz
      · rw [Array.getElem?_eq_none (by rw [Array.size_extract]; omega)]; rfl
    · rw [Array.getElem?_eq_none (by rw [Array.size_extract]; omega)]; rfl
  have hrows : ∀ t, t < w.tables.size → (W.tableOf t).rows = #[] := fun t ht => (e t ht).1
  have hidx : IdxInv W := by
    refine ⟨?_, ?_, ?_⟩
    · intro id l h; rw [hloc] at h; cases h
    · intro t r hv; obtain ⟨a, b⟩ := hv; rw [hrows t (by rw [← hts]; exact a)] at b; simp at b
    · intro t r hv; obtain ⟨a, b⟩ := hv; rw [hrows t (by rw [← hts]; exact a)] at b; simp at b
  have hgraph : GraphInv W := by
    refine ⟨?_⟩
    intro n hn id nx hg
    rw [c.nsize] at hn ⊢
    rw [(c.graph n).1] at hg
    rw [(c.graph nx).2.1, (c.graph n).2.1]
    exact hK.graph.links n hn id nx hg
  refine ⟨trivial, c.sinv, ⟨c.sinv.node, hgraph, hidx, c.sinv.tgt⟩, hts, c.nsize, hrows, ?_, hloc, ?_, ?_, ?_, ?_, r6, r7, r8, r9, r10, r11⟩
  · intro t ht ha
    rw [(c.tnode t).2]
    exact (e t ht).2 ha
  · rw [r2]; rfl
  · unfold isLocked; rw [r4]; rfl
  · intro r
    unfold resGet; rw [r5]
    show (w.resources.map (fun _ => none)).getD r none = none
    rw [Array.getD_eq_getD_getElem?, Array.getElem?_map]
    cases w.resources[r]? <;> rfl
  · intro i
    by_cases h0 : i = 0
    · exact Or.inr h0
    · left
      unfold flag; rw [r3]
      show (w.flags.extract 0 1).getD i false = false
      rw [Array.getD_eq_getD_getElem?, Array.getElem?_eq_none (by rw [Array.size_extract]; omega)]; rfl

/-- with the reserved zero slot in place (it always is: C02), the pool after Reset is the pool of
    a new world: the same handles will be issued -/
theorem reset_pool_fresh (p : Pool) (h0 : 0 < p.ents.size) (hz : p.ents.getD 0 default = ⟨0, 4294967295⟩) : p.reset = Pool.init := by
  unfold Pool.reset Pool.init
  congr 1
  apply Array.ext
  · simp; omega
  · intro i h1 h2
    have hi : i = 0 := by simp at h2; omega
    subst hi
    rw [Array.getD_eq_getD_getElem?, Array.getElem?_eq_getElem h0] at hz
    simp only [Array.getElem_extract, Nat.zero_add]
    simpa using hz

/-- non-vacuity: entities, a relation child, a registered filter, a dead target; after Reset the
    next handle is ⟨1,0⟩ again and the registered filter selects nothing, like its plain form -/
example :
    let w0 := World.init ⟨4, 0, 8⟩
    let w1 := (w0.registerComponent true false).w
    let w2 := (w1.newEntity []).w
    let w3 := (w2.newEntityTarget 0 ⟨1, 0⟩ [(0, 0)] false).w
    let w4 := (w3.cacheRegister (.rel (.all 1) ⟨1, 0⟩)).w
    let w5 := (w4.removeEntity ⟨1, 0⟩).w
    let r := w5.reset
    (match r.out with | .ok _ => true | .error _ => false) = true ∧
    (match (r.w.newEntity []).out with | .ok e => e == ⟨1, 0⟩ | .error _ => false) = true ∧
    (r.w.cache.toList.map (fun e => (e.archs.toList, r.w.matchingTables e.filter))) = [([], [])] := by
  decide +kernel

end Arche.Props.C15
