/-
  C18 — The generic API is a faithful typed view of the ID-based core.

  The generated code (generic/query_generated.go, generic/map_generated.go, 6.5 kLoC for
  arities 0–12) is reduced on every run to fact tables (ArcheGen.Facts); the theorems below are
  about those tables, for *all* arities at once:
    * every mutating builder method (With, Without, Optional, Exclusive, WithRelation) of every
      FilterN resets the compiled filter and refuses to run on a registered filter — which is
      what makes `Filter()/Query()` evaluate the configuration as it is when the query is built
      (`builder_model_reflects_config`), whether or not the filter was used before;
    * FilterN.Query initialises `idK` from `compiled.Ids[K]`, NewMapN initialises `idK` from
      the K-th type parameter, and position `j` of QueryN.Get / MapN.Get / MapN.GetUnchecked
      casts to the j-th type parameter the component fetched with `id j` (`get_positions`).
  Effects and results of every method are compared with the documented ID-based equivalents on
  twin worlds by the harness (genericarm.go, generated for every arity).
-/
import ArcheGen.Facts

namespace Arche.Props.C18
open ArcheGen.Facts

def builderMethods (arity : Nat) : List String :=
  if arity = 0 then ["Exclusive", "With", "WithRelation", "Without"]
  else ["Exclusive", "Optional", "With", "WithRelation", "Without"]

/-- every builder method of every arity 0–12 exists, resets the compiled filter, and checks the
    `locked` (registered) flag -/
theorem all_builder_methods_reset :
    (List.range 13).all (fun n => (builderMethods n).all (fun m => genericBuilderFacts.contains (n, m, true, true))) = true := by
  decide

/-- and there are no other builder facts (no method that forgets either) -/
theorem no_other_builder_facts : genericBuilderFacts.all (fun f => f.2.2.1 && f.2.2.2 && f.1 ≤ 12) = true := by decide

def identityPairs (n : Nat) : List (Int × Int) := (List.range n).map (fun k => (Int.ofNat k, Int.ofNat k))

/-- FilterN.Query: field `idK` is initialised from `compiled.Ids[K]`, for every arity -/
theorem query_ids_identity :
    (List.range 13).all (fun n => n = 0 || genericQueryIdFacts.contains (n, identityPairs n)) = true := by decide

/-- NewMapN: field `idK` is the component ID of the K-th type parameter -/
theorem map_ids_identity :
    (List.range 13).all (fun n => n = 0 || genericMapIdFacts.contains (n, identityPairs n)) = true := by decide

/-- QueryN.Get, MapN.Get, MapN.GetUnchecked: position j casts to type parameter j the component fetched with id j -/
theorem get_positions :
    (List.range 13).all (fun n => n = 0 ||
      (genericGetFacts.contains ("Query.Get", n, identityPairs n) &&
       genericGetFacts.contains ("Map.Get", n, identityPairs n) &&
       genericGetFacts.contains ("Map.GetUnchecked", n, identityPairs n))) = true := by decide

/-! ### the builder state machine -/

/-- configuration of a generic filter -/
structure Cfg where
  withs : List Nat
  withouts : List Nat
  optionals : List Nat
  exclusive : Bool
deriving DecidableEq, Repr

/-- a filter: its configuration and the compiled form cached by the last Query/Filter call -/
structure Builder where
  cfg : Cfg
  compiled : Option Cfg

inductive BOp where
  | with_ (c : Nat) | without (c : Nat) | optional (c : Nat) | exclusive
  | query

def apply (resets : Bool) (b : Builder) : BOp → Builder
  | .with_ c => { cfg := { b.cfg with withs := c :: b.cfg.withs }, compiled := if resets then none else b.compiled }
  | .without c => { cfg := { b.cfg with withouts := c :: b.cfg.withouts }, compiled := if resets then none else b.compiled }
  | .optional c => { cfg := { b.cfg with optionals := c :: b.cfg.optionals }, compiled := if resets then none else b.compiled }
  | .exclusive => { cfg := { b.cfg with exclusive := true }, compiled := if resets then none else b.compiled }
  | .query => { b with compiled := some (b.compiled.getD b.cfg) }   -- Compile: `if q.compiled { return }`

/-- what a query built now evaluates -/
def evaluated (b : Builder) : Cfg := b.compiled.getD b.cfg

/-- the invariant that resetting buys: a cached compiled form is always the current configuration -/
theorem reset_invariant (ops : List BOp) (b : Builder) (h : ∀ c, b.compiled = some c → c = b.cfg) :
    ∀ c, (ops.foldl (apply true) b).compiled = some c → c = (ops.foldl (apply true) b).cfg := by
  induction ops generalizing b with
  | nil => exact h
  | cons op ops ih =>
    simp only [List.foldl_cons]
    apply ih
    intro c hc
    cases op <;> simp only [apply, ↓reduceIte, reduceCtorEq] at hc ⊢
    cases hb : b.compiled with
    | none => rw [hb] at hc; simp at hc; exact hc.symm
    | some c' => rw [hb] at hc; simp at hc; rw [← hc]; exact h c' hb

/-- If every mutating builder method resets the compiled filter (`all_builder_methods_reset`),
    a query evaluates the configuration as it is at the time it is built — for every order of
    builder calls before and between queries. -/
theorem builder_model_reflects_config (ops : List BOp) :
    evaluated (ops.foldl (apply true) ⟨⟨[], [], [], false⟩, none⟩) = (ops.foldl (apply true) ⟨⟨[], [], [], false⟩, none⟩).cfg := by
  have := reset_invariant ops ⟨⟨[], [], [], false⟩, none⟩ (by intro c hc; cases hc)
  unfold evaluated
  cases hb : (ops.foldl (apply true) ⟨⟨[], [], [], false⟩, none⟩).compiled with
  | none => rfl
  | some c => exact this c hb

/-- and the reset is necessary: without it (finding F9, `Exclusive` forgot it) a stale compiled
    form is evaluated -/
example : evaluated ([BOp.query, BOp.exclusive, BOp.query].foldl (apply false) ⟨⟨[], [], [], false⟩, none⟩)
    ≠ ([BOp.query, BOp.exclusive, BOp.query].foldl (apply false) ⟨⟨[], [], [], false⟩, none⟩).cfg := by decide

end Arche.Props.C18
