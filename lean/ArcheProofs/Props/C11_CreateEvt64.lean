/-
  C11 (companion, tiny build) — `World.newEntities` (the worker of `Builder.NewBatch` and the generic `MapN.NewBatch`: batch creation
  followed by the notification of the listener) REGENERATED from ecs/world_internal.go.

  * `newEntities_no_listener`: without a listener it is `newEntitiesNoNotify`;
  * `newEntities_events`: with a listener the world is exactly the one `newEntitiesNoNotify` left, and the listener is
    called either not at all (not subscribed) or **exactly `count` times, once per created row `startIdx + i`, in row
    order**, each time with the creation event of the entity in that row (type bits, added mask and ids, new relation).
-/
import ArcheProofs.Props.C09_NewBatch64

namespace Arche.Props.C11_CreateEvt64
open ArcheGen ArcheGen.P64 Arche Arche.Props

section
variable {Ext : Type}
  (archAllocNF : Ext → Option Nat → BitVec 32 → Ext × Unit) (archGetEntityF : Ext → Option Nat → BitVec 32 → P64.Entity)
  (archHasComponentF : Ext → Option Nat → BitVec 8 → Bool) (archHasRelCompF : Ext → Option Nat → Bool)
  (archLenF : Ext → Option Nat → BitVec 32) (archMaskF : Ext → Option Nat → ArcheGen.M64.Mask) (archNodeF : Ext → Option Nat → Option Nat)
  (archRelCompF : Ext → Option Nat → BitVec 8) (archSetEntityF : Ext → Option Nat → BitVec 32 → P64.Entity → Ext × Unit)
  (findOrCreateF : Ext → P64.World → Option Nat → GoSlice (BitVec 8) → GoSlice (BitVec 8) → P64.Entity → Ext × P64.World × Option Nat)
  (lstCompsF : Ext → GoAny → Option (ArcheGen.M64.Mask)) (lstSubsF : Ext → GoAny → BitVec 8)
  (nodeHasRelationF : Ext → Option Nat → Bool) (nodeRelationF : Ext → Option Nat → BitVec 8)
  (notifyF : Ext → GoAny → EntityEvent → Ext × Unit) (pagedGetF : Ext → Nat → BitVec 32 → Option Nat) (staleF : Nat → entityIndex)

theorem foldlM_pure {σ α : Type} (g : σ → α → σ) (l : List α) (s : σ) :
    List.foldlM (m := Option) (fun s a => some (g s a)) s l = some (l.foldl g s) := by
  induction l generalizing s with
  | nil => rfl
  | cons a l ih => simp only [List.foldlM_cons, Option.bind_eq_bind, Option.bind_some, List.foldl_cons]; exact ih _

theorem foldl_pair_const {W σ α : Type} (g : W → σ → α → σ) (l : List α) (w : W) (s : σ) :
    l.foldl (fun (x : W × σ) a => (x.1, g x.1 x.2 a)) (w, s) = (w, l.foldl (fun e a => g w e a) s) := by
  induction l generalizing s with
  | nil => rfl
  | cons a l ih => simp only [List.foldl_cons]; exact ih _

/-- the relation component a table's creation events name (read at the hidden state right after the creation) -/
def newRelOf (e0 : Ext) (arch : Option Nat) : Option (BitVec 8) := if archHasRelCompF e0 arch = true then some (archRelCompF e0 arch) else none

/-- the type bits of the creation events of one batch -/
def bitsOf (e0 : Ext) (arch : Option Nat) (comps : GoSlice (BitVec 8)) : BitVec 8 :=
  ArcheGen.M64.subscription true false (decide ((0 : Int) < ((comps.size : Nat) : Int))) false
    (newRelOf archHasRelCompF archRelCompF e0 arch).isSome (newRelOf archHasRelCompF archRelCompF e0 arch).isSome

/-- the creation event of the entity in row `startIdx + i` of the table (entity and mask read at the current hidden state `e`) -/
def createEvent (e0 e : Ext) (arch : Option Nat) (startIdx : BitVec 32) (comps : GoSlice (BitVec 8)) (i : Nat) : EntityEvent :=
  { Entity := archGetEntityF e arch (startIdx + BitVec.ofNat 32 i), Added := archMaskF e arch, AddedIDs := comps,
    NewRelation := newRelOf archHasRelCompF archRelCompF e0 arch, EventTypes := bitsOf archHasRelCompF archRelCompF e0 arch comps,
    OldRelation := default, RemovedIDs := default, Removed := default, OldTarget := default }

/-- is the listener subscribed to the creation events of this batch? -/
def subscribed (e0 : Ext) (lst : GoAny) (arch : Option Nat) (comps : GoSlice (BitVec 8)) : Bool :=
  ((lstSubsF e0 lst &&& bitsOf archHasRelCompF archRelCompF e0 arch comps) != 0#8) &&
    ArcheGen.M64.subscribes (lstSubsF e0 lst &&& bitsOf archHasRelCompF archRelCompF e0 arch comps) (some (archMaskF e0 arch)) none (lstCompsF e0 lst) none
      (newRelOf archHasRelCompF archRelCompF e0 arch)

theorem foldlM_proj {W σ : Type} (F : W × σ → Nat → Option (W × σ)) (G : W → σ → Nat → σ)
    (hF : ∀ x i, F x i = some (x.1, G x.1 x.2 i)) (l : List Nat) (w0 : W) (s : σ) :
    List.foldlM F (w0, s) l = some (w0, l.foldl (G w0) s) := by
  induction l generalizing s with
  | nil => rfl
  | cons a l ih => rw [List.foldlM_cons, hF]; simp only [Option.bind_eq_bind, Option.bind_some, List.foldl_cons]; exact ih _

/-- the event the loop builds, with the relation component as a parameter -/
def evOf (nr : Option (BitVec 8)) (e : Ext) (a : Nat) (startIdx : BitVec 32) (comps : GoSlice (BitVec 8)) (iN : Nat) : EntityEvent :=
  { OldRelation := default, NewRelation := nr, AddedIDs := comps, RemovedIDs := default, Added := archMaskF e (some a), Removed := default,
    Entity := archGetEntityF e (some a) (startIdx + BitVec.ofNat 32 iN), OldTarget := default,
    EventTypes := M64.subscription true false (decide ((0 : Int) < ((comps.size : Nat) : Int))) false nr.isSome nr.isSome }

/-- the part of `newEntities` behind the choice of the relation component -/
theorem after_rel (nr : Option (BitVec 8)) (w1 w2 : P64.World) (e1 e2 : Ext) (a : Nat) (startIdx : BitVec 32) (comps : GoSlice (BitVec 8)) (n : Nat)
    (hj : ((if (lstSubsF e1 w1.listener &&& M64.subscription true false (decide ((0 : Int) < ((comps.size : Nat) : Int))) false nr.isSome nr.isSome != 0#8) = true then
              some (M64.subscribes (lstSubsF e1 w1.listener &&& M64.subscription true false (decide ((0 : Int) < ((comps.size : Nat) : Int))) false nr.isSome nr.isSome)
                (some (archMaskF e1 (some a))) none (lstCompsF e1 w1.listener) none nr)
            else some false).bind fun b3 =>
            (if b3 = true then
                (List.foldlM (fun (x : P64.World × Ext) iN => some (x.1, (notifyF x.2 x.1.listener (evOf archGetEntityF archMaskF nr x.2 a startIdx comps iN)).1))
                    (w1, e1) (List.range n)).bind fun x => some (x.1, x.2)
              else some (w1, e1)).bind fun x => some (x.1, x.2)) = some (w2, e2)) :
    w2 = w1 ∧ e2 = if ((lstSubsF e1 w1.listener &&& M64.subscription true false (decide ((0 : Int) < ((comps.size : Nat) : Int))) false nr.isSome nr.isSome != 0#8) &&
          M64.subscribes (lstSubsF e1 w1.listener &&& M64.subscription true false (decide ((0 : Int) < ((comps.size : Nat) : Int))) false nr.isSome nr.isSome)
            (some (archMaskF e1 (some a))) none (lstCompsF e1 w1.listener) none nr) = true
        then (List.range n).foldl (fun e iN => (notifyF e w1.listener (evOf archGetEntityF archMaskF nr e a startIdx comps iN)).1) e1 else e1 := by
  have hfold := foldlM_proj (fun (x : P64.World × Ext) iN => some (x.1, (notifyF x.2 x.1.listener (evOf archGetEntityF archMaskF nr x.2 a startIdx comps iN)).1))
    (fun w0 e iN => (notifyF e w0.listener (evOf archGetEntityF archMaskF nr e a startIdx comps iN)).1) (fun _ _ => rfl) (List.range n) w1 e1
  rw [hfold] at hj
  by_cases ht : (lstSubsF e1 w1.listener &&& M64.subscription true false (decide ((0 : Int) < ((comps.size : Nat) : Int))) false nr.isSome nr.isSome != 0#8) = true
  · simp only [ht, ↓reduceIte, Option.bind_some, Bool.true_and] at hj ⊢
    by_cases hs : M64.subscribes (lstSubsF e1 w1.listener &&& M64.subscription true false (decide ((0 : Int) < ((comps.size : Nat) : Int))) false nr.isSome nr.isSome)
        (some (archMaskF e1 (some a))) none (lstCompsF e1 w1.listener) none nr = true
    · simp only [hs, ↓reduceIte, Option.bind_some, Option.some.injEq, Prod.mk.injEq] at hj ⊢
      exact ⟨hj.1.symm, hj.2.symm⟩
    · simp only [hs, Bool.false_eq_true, ↓reduceIte, Option.bind_some, Option.some.injEq, Prod.mk.injEq] at hj ⊢
      exact ⟨hj.1.symm, hj.2.symm⟩
  · simp only [ht, Bool.false_eq_true, ↓reduceIte, Option.bind_some, Option.some.injEq, Prod.mk.injEq, Bool.false_and] at hj ⊢
    exact ⟨hj.1.symm, hj.2.symm⟩

/-- **batch creation notifies once per created entity**: the world is the one `newEntitiesNoNotify` left; without a
    listener, or with one that is not subscribed, nothing is delivered; otherwise the listener is called exactly
    `count` times — for the rows `startIdx`, `startIdx + 1`, … in order — with the creation event of the entity in that row -/
theorem newEntities_events (w w' : P64.World) (count : Int) (tid : BitVec 8) (ht : Bool) (target : P64.Entity) (comps : GoSlice (BitVec 8))
    (ext ext' : Ext) (r : Option Nat × BitVec 32)
    (h : P64.World.newEntities archAllocNF archGetEntityF archHasComponentF archHasRelCompF archLenF archMaskF archNodeF archRelCompF archSetEntityF findOrCreateF
      lstCompsF lstSubsF nodeHasRelationF nodeRelationF notifyF pagedGetF staleF w count tid ht target comps ext = some (w', ext', r)) :
    ∃ e1, P64.World.newEntitiesNoNotify archAllocNF archHasComponentF archLenF archNodeF archSetEntityF findOrCreateF nodeHasRelationF nodeRelationF
        pagedGetF staleF w count tid ht target comps ext = some (w', e1, r) ∧
      ext' = if w'.listener.isSome = true ∧ subscribed archHasRelCompF archMaskF archRelCompF lstCompsF lstSubsF e1 w'.listener r.1 comps = true then
          (List.range (BitVec.ofInt 32 count).toNat).foldl
            (fun e i => (notifyF e w'.listener (createEvent archGetEntityF archHasRelCompF archMaskF archRelCompF e1 e r.1 r.2 comps i)).1) e1
        else e1 := by
  unfold P64.World.newEntities at h
  simp only [Option.bind_eq_bind, pure] at h
  obtain ⟨⟨w1, e1, r1⟩, hno, hq⟩ := Option.bind_eq_some_iff.mp h
  clear h; have h := hq; clear hq
  obtain ⟨⟨w2, e2⟩, hj, hq⟩ := Option.bind_eq_some_iff.mp h
  simp only [Option.some.injEq, Prod.mk.injEq] at hq
  obtain ⟨hw, he, hr⟩ := hq
  subst hw; subst he
  have hr' : r1 = r := by rw [← hr]
  subst hr'
  have key : w2 = w1 ∧ e2 = if w1.listener.isSome = true ∧ subscribed archHasRelCompF archMaskF archRelCompF lstCompsF lstSubsF e1 w1.listener r1.1 comps = true then
          (List.range (BitVec.ofInt 32 count).toNat).foldl
            (fun e i => (notifyF e w1.listener (createEvent archGetEntityF archHasRelCompF archMaskF archRelCompF e1 e r1.1 r1.2 comps i)).1) e1
        else e1 := by
    split at hj
    · rename_i hl
      obtain ⟨a, ha, hj⟩ := Option.bind_eq_some_iff.mp hj
      have hl' : w1.listener.isSome = true := hl
      dsimp only at hj ha
      simp only [ha, Option.bind_some] at hj
      simp only [hl', true_and, subscribed, bitsOf, newRelOf, createEvent, ha]
      cases hrel : archHasRelCompF e1 (some a)
      · simp only [hrel, Bool.false_eq_true, ↓reduceIte, Option.bind_some] at hj ⊢
        exact after_rel archGetEntityF archMaskF lstCompsF lstSubsF notifyF none w1 w2 e1 e2 a r1.2 comps _ hj
      · simp only [hrel, ↓reduceIte, Option.bind_some] at hj ⊢
        exact after_rel archGetEntityF archMaskF lstCompsF lstSubsF notifyF (some (archRelCompF e1 (some a))) w1 w2 e1 e2 a r1.2 comps _ hj
    · rename_i hl
      simp only [Option.some.injEq, Prod.mk.injEq] at hj
      have hl' : ¬ w1.listener.isSome = true := hl
      refine ⟨hj.1.symm, ?_⟩
      rw [if_neg (fun hc => hl' hc.1)]
      exact hj.2.symm
  obtain ⟨hk1, hk2⟩ := key
  subst hk1
  exact ⟨e1, hno, hk2⟩

/-! ### single creation with a relation target (`Builder.New(target)`, generic `MapN.New(target)`, `Exchange.NewEntity(target)`) -/

variable (archAllocF : Ext → Option Nat → P64.Entity → Ext × BitVec 32)

theorem newEntityTarget_locked (w : P64.World) (tid : BitVec 8) (target : P64.Entity) (comps : GoSlice (BitVec 8)) (ext : Ext)
    (h : LockMask.isLocked (C09_LockPool64.absLM w.locks) = true) :
    P64.World.newEntityTarget archAllocF archHasComponentF archMaskF archNodeF findOrCreateF lstCompsF lstSubsF nodeHasRelationF nodeRelationF notifyF pagedGetF
      w tid target comps ext = none := by
  unfold P64.World.newEntityTarget
  rw [C09_WorldLock64.checkLocked_spec]
  simp [h, bind, Option.bind]

/-- the creation event of an entity created with a relation target -/
def targetEvent (e : Ext) (arch : Option Nat) (ent : P64.Entity) (tid : BitVec 8) (comps : GoSlice (BitVec 8)) : EntityEvent :=
  { Entity := ent, Added := archMaskF e arch, AddedIDs := comps, NewRelation := some tid,
    EventTypes := ArcheGen.M64.subscription true false (decide ((0 : Int) < ((comps.size : Nat) : Int))) false true true,
    OldRelation := default, RemovedIDs := default, Removed := default, OldTarget := default }

/-- **whatever is delivered for `Builder.New(target)` is the creation event with RelationChanged AND TargetChanged** — also
    for the zero target —: the hidden state after the call is the one before the notification, or the listener was
    called exactly once, with `targetEvent` (created entity, the table's mask, the given ids, the relation component, type
    bits `subscription(true, false, len(comps) > 0, false, true, true)`) -/
theorem newEntityTarget_event (w w' : P64.World) (tid : BitVec 8) (target : P64.Entity) (comps : GoSlice (BitVec 8)) (ext ext' : Ext) (ent : P64.Entity)
    (h : P64.World.newEntityTarget archAllocF archHasComponentF archMaskF archNodeF findOrCreateF lstCompsF lstSubsF nodeHasRelationF nodeRelationF notifyF pagedGetF
      w tid target comps ext = some (w', ext', ent)) :
    ∃ (e1 : Ext) (arch : Option Nat), ext' = e1 ∨
      (w'.listener.isSome = true ∧ ext' = (notifyF e1 w'.listener (targetEvent archMaskF e1 arch ent tid comps)).1) := by
  unfold P64.World.newEntityTarget at h
  simp only [Option.bind_eq_bind, pure] at h
  obtain ⟨_, _, hq⟩ := Option.bind_eq_some_iff.mp h
  clear h; have h := hq; clear hq
  obtain ⟨_, _, hq⟩ := Option.bind_eq_some_iff.mp h
  clear h; have h := hq; clear hq
  obtain ⟨⟨b5, w1⟩, _, hq⟩ := Option.bind_eq_some_iff.mp h
  clear h; have h := hq; clear hq
  dsimp only at h
  split at h
  · cases h
  obtain ⟨⟨w2, e2, a2⟩, _, hq⟩ := Option.bind_eq_some_iff.mp h
  clear h; have h := hq; clear hq
  obtain ⟨w3, _, hq⟩ := Option.bind_eq_some_iff.mp h
  clear h; have h := hq; clear hq
  obtain ⟨⟨w4, e4, ent4⟩, _, hq⟩ := Option.bind_eq_some_iff.mp h
  clear h; have h := hq; clear hq
  obtain ⟨_, _, hq⟩ := Option.bind_eq_some_iff.mp h
  clear h; have h := hq; clear hq
  obtain ⟨⟨w5, e5⟩, hflag, hq⟩ := Option.bind_eq_some_iff.mp h
  clear h; have h := hq; clear hq
  obtain ⟨⟨w6, e6⟩, hnot, hq⟩ := Option.bind_eq_some_iff.mp h
  simp only [Option.some.injEq, Prod.mk.injEq] at hq
  obtain ⟨hw, he, hent⟩ := hq
  subst hw; subst he; subst hent
  refine ⟨e5, a2, ?_⟩
  dsimp only at hnot
  split at hnot
  · rename_i hl
    obtain ⟨b13, _, hnot⟩ := Option.bind_eq_some_iff.mp hnot
    obtain ⟨⟨w7, e7⟩, hj, hnot⟩ := Option.bind_eq_some_iff.mp hnot
    simp only [Option.some.injEq, Prod.mk.injEq] at hnot
    obtain ⟨h1, h2⟩ := hnot
    subst h1; subst h2
    split at hj
    · obtain ⟨_, _, hj⟩ := Option.bind_eq_some_iff.mp hj
      simp only [Option.some.injEq, Prod.mk.injEq] at hj
      obtain ⟨h1, h2⟩ := hj
      subst h1
      right
      exact ⟨hl, h2.symm⟩
    · simp only [Option.some.injEq, Prod.mk.injEq] at hj
      left; exact hj.2.symm
  · simp only [Option.some.injEq, Prod.mk.injEq] at hnot
    left; exact hnot.2.symm

end
end Arche.Props.C11_CreateEvt64
