/-
  C03 (companion) — what a query covers, in terms of the world: for every world satisfying the
  global invariant (every reachable world, C01_Reach)

  * `positions_nodes` — the positions of a node-walk query are exactly the rows of the tables the
    uncached `getArchetypes` selects, in that order (retired tables contribute no rows);
  * `query_visits_matching` — for a query opened with any filter (registered or not), the
    entities at its positions are **exactly the alive entities that match the filter, each
    once**: an issued-and-not-removed handle appears iff its component set satisfies the filter
    and — for a relation filter, if it carries a relation — its target is the filter's;
  * `position_agrees` — at each position the query's `Entity` is the handle the index maps to
    that very row, so `Has` / `Get` / `Mask` / `Ids` / `Relation` through the query read the same
    table row as the world's accessors for that entity.
  Together with C03.count_eq_length / entityAt_eq (Count and EntityAt are the length and the i-th
  element of `positions`) and visit_cached / visit_batch (Next walks `positions`).
-/
import ArcheProofs.Props.C03
import ArcheProofs.Props.C02
import ArcheProofs.Props.C01_Reach

namespace Arche.Props.C03.Match
open Arche Arche.World Arche.Query Arche.Arr Arche.Storage Arche.IndexInv Arche.SameRows Arche.TInv Arche.KInv Arche.Cov Arche.Cache Arche.SInv Arche.Create Arche.GInv
open Arche.Props.C03

theorem flatMap_filter_of_nil {α β} (l : List α) (p : α → Bool) (g : α → List β) (h : ∀ x ∈ l, p x = false → g x = []) :
    l.flatMap g = (l.filter p).flatMap g := by
  induction l with
  | nil => rfl
  | cons x xs ih =>
    have ih' := ih (fun y hy => h y (List.mem_cons_of_mem _ hy))
    simp only [List.flatMap_cons, List.filter_cons]
    cases hp : p x
    · simp only [Bool.false_eq_true, ↓reduceIte]; rw [h x List.mem_cons_self hp, ih']; rfl
    · simp only [↓reduceIte, List.flatMap_cons]; rw [ih']

/-- the rows of the tables a node contributes to a node-walk query -/
def nodeRanges (w : World) (f : Filter) (n : Nat) : List (Nat × Nat × Nat) :=
  let nd := w.nodeOf n
  if !nd.active || !f.sat nd.mask then []
  else if nd.rel.isNone then
    let t := nd.tables.getD 0 0
    [(t, 0, (w.tableOf t).rows.size)]
  else match f.relTarget? with
    | some tg => (match assocGet nd.tmap tg with | some t => [(t, 0, (w.tableOf t).rows.size)] | none => [])
    | none => nd.tables.toList.map (fun t => (t, 0, (w.tableOf t).rows.size))

/-- the tables a node contributes to the uncached selection -/
def nodeTables (w : World) (f : Filter) (n : Nat) : List Nat :=
  let nd := w.nodeOf n
  if !nd.active || !f.sat nd.mask then []
  else match f.relTarget?, nd.rel with
    | some tg, some _ => (assocGet nd.tmap tg).toList
    | _, _ => nd.tables.toList.filter (fun t => (w.tableOf t).active)

theorem node_positions (w : World) (hK : KInv w) (hS : SInv w) (f : Filter) (n : Nat) (hn : n < w.nodes.size) :
    (nodeRanges w f n).flatMap (fun x => rowsOf x.1 x.2.1 x.2.2) = tposs w (nodeTables w f n) := by
  unfold nodeRanges nodeTables tposs
  simp only []
  by_cases hskip : (!(w.nodeOf n).active || !f.sat (w.nodeOf n).mask) = true
  · simp only [hskip, ↓reduceIte]; rfl
  simp only [hskip, Bool.false_eq_true, ↓reduceIte]
  have hact : (w.nodeOf n).active = true := by
    cases h : (w.nodeOf n).active
    · simp [h] at hskip
    · rfl
  cases hrel : (w.nodeOf n).rel with
  | none =>
    simp only [Option.isNone_none, ↓reduceIte]
    have hsz1 := hS.cov.single n hn hrel
    have hsz0 := hS.cov.nonempty n hn hact
    have hsz : (w.nodeOf n).tables.size = 1 := by omega
    have htab := hK.node.tables n hn 0 hsz0
    have hlist : (w.nodeOf n).tables.toList = [(w.nodeOf n).tables.getD 0 0] := by
      apply List.ext_getElem
      · simp [hsz]
      · intro i h1 h2
        have : i = 0 := by simp [hsz] at h1; omega
        subst this
        simp only [Array.getElem_toList, List.getElem_cons_zero]
        rw [Array.getD_eq_getD_getElem?, Array.getElem?_eq_getElem hsz0]; rfl
    have hta : (w.tableOf ((w.nodeOf n).tables.getD 0 0)).active = true :=
      (hK.tgt.norel _ htab.1 (by rw [htab.2.1]; exact hrel)).2
    have hmatch : (match f.relTarget?, (none : Option CompId) with
        | some tg, some _ => (assocGet (w.nodeOf n).tmap tg).toList
        | _, _ => (w.nodeOf n).tables.toList.filter (fun t => (w.tableOf t).active)) =
        (w.nodeOf n).tables.toList.filter (fun t => (w.tableOf t).active) := by
      cases f.relTarget? <;> rfl
    rw [hmatch, hlist]
    simp only [List.flatMap_cons, List.flatMap_nil, List.filter_cons, hta, ↓reduceIte, List.filter_nil, List.append_nil]
  | some rc =>
    simp only [Option.isNone_some, Bool.false_eq_true, ↓reduceIte]
    cases htg : f.relTarget? with
    | some tg =>
      simp only []
      cases assocGet (w.nodeOf n).tmap tg with
      | none => rfl
      | some t => simp
    | none =>
      simp only []
      rw [List.flatMap_map]
      apply flatMap_filter_of_nil
      intro t ht hina
      obtain ⟨i, hi, hget⟩ := List.getElem_of_mem ht
      simp only [Array.length_toList] at hi
      simp only [Array.getElem_toList] at hget
      have htab := hK.node.tables n hn i hi
      have hgetD : (w.nodeOf n).tables.getD i 0 = t := by
        rw [Array.getD_eq_getD_getElem?, Array.getElem?_eq_getElem hi]; exact hget
      rw [hgetD] at htab
      have := hK.tgt.empty t htab.1 hina
      simp only []
      rw [this]; rfl

/-- **node walk**: the positions are the rows of the uncached selection, in its order -/
theorem positions_nodes (w : World) (hK : KInv w) (hS : SInv w) (q : Query) (hm : q.mode = .nodes) (hc : q.nodeCount = w.nodes.size) :
    positions w q = tposs w (w.matchingTables q.filter) := by
  have hr : q.ranges w = (List.range w.nodes.size).flatMap (nodeRanges w q.filter) := by
    unfold Query.ranges; rw [hm, hc]; rfl
  have hmt : w.matchingTables q.filter = (List.range w.nodes.size).flatMap (nodeTables w q.filter) := rfl
  unfold positions
  rw [hr, hmt]
  unfold tposs
  rw [List.flatMap_assoc, List.flatMap_assoc]
  have : ∀ (l : List Nat), (∀ n ∈ l, n < w.nodes.size) →
      l.flatMap (fun n => (nodeRanges w q.filter n).flatMap (fun x => rowsOf x.1 x.2.1 x.2.2)) =
      l.flatMap (fun n => (nodeTables w q.filter n).flatMap (fun t => rowsOf t 0 (w.tableOf t).rows.size)) := by
    intro l
    induction l with
    | nil => intro _; rfl
    | cons x xs ih =>
      intro hx
      simp only [List.flatMap_cons]
      rw [ih (fun n hn => hx n (List.mem_cons_of_mem _ hn))]
      have := node_positions w hK hS q.filter x (hx x List.mem_cons_self)
      unfold tposs at this
      rw [this]
  exact this _ (fun n hn => List.mem_range.1 hn)

/-! ## the rows of a duplicate-free list of selected tables -/

theorem mem_rowsOf (t s ln : Nat) (p : Nat × Nat) : p ∈ rowsOf t s ln ↔ p.1 = t ∧ s ≤ p.2 ∧ p.2 < s + ln := by
  unfold rowsOf
  rw [List.mem_map]
  constructor
  · rintro ⟨r, hr, rfl⟩
    rw [List.mem_range'_1] at hr
    exact ⟨rfl, hr.1, hr.2⟩
  · rintro ⟨h1, h2, h3⟩
    exact ⟨p.2, List.mem_range'_1.2 ⟨h2, h3⟩, by rw [← h1]⟩

theorem mem_tposs (w : World) (l : List Nat) (p : Nat × Nat) : p ∈ tposs w l ↔ p.1 ∈ l ∧ p.2 < (w.tableOf p.1).rows.size := by
  unfold tposs
  rw [List.mem_flatMap]
  constructor
  · rintro ⟨t, ht, hp⟩
    obtain ⟨h1, _, h3⟩ := (mem_rowsOf _ _ _ _).1 hp
    rw [h1]; exact ⟨ht, by omega⟩
  · rintro ⟨h1, h2⟩
    exact ⟨p.1, h1, (mem_rowsOf _ _ _ _).2 ⟨rfl, Nat.zero_le _, by omega⟩⟩

theorem nodup_rowsOf (t s ln : Nat) : (rowsOf t s ln).Nodup := by
  unfold rowsOf
  apply Arche.Props.C02.nodup_map_of_inj_on _ List.nodup_range'
  intro a _ b _ h
  simpa using h

theorem nodup_tposs (w : World) (l : List Nat) (h : l.Nodup) : (tposs w l).Nodup := by
  unfold tposs
  rw [List.nodup_iff_pairwise_ne, List.pairwise_flatMap]
  refine ⟨fun t _ => List.nodup_iff_pairwise_ne.1 (nodup_rowsOf _ _ _), ?_⟩
  rw [List.nodup_iff_pairwise_ne] at h
  apply List.Pairwise.imp _ h
  intro a b hab x hx y hy hxy
  have h1 := ((mem_rowsOf _ _ _ _).1 hx).1
  have h2 := ((mem_rowsOf _ _ _ _).1 hy).1
  rw [hxy] at h1
  exact hab (h1.symm.trans h2)

/-- an alive entity matches filter `f`: its component set satisfies the filter and, for a
    relation filter, if it carries a relation its target is the filter's -/
def Matches (w : World) (f : Filter) (e : Entity) : Prop :=
  ∃ l, loc w e.id = some l ∧ (rowAt w l.tbl l.row).ent = e ∧ f.sat (w.tableMask l.tbl) = true ∧
    (∀ tg, f.relTarget? = some tg → (w.tableRel l.tbl).isSome = true → (w.tableOf l.tbl).target = tg)

/-- the entity at a position -/
def entAt (w : World) (p : Nat × Nat) : Entity := (w.tableOf p.1).getEntity p.2

/-- the entities in the rows of a duplicate-free list of exactly the selected tables are exactly
    the live entities that match, each once -/
theorem ents_of_selected (w : World) (issued live : List Entity) (G : GInv w issued live) (f : Filter) (ts : List Nat)
    (hnd : ts.Nodup) (hmem : ∀ t, t ∈ ts ↔ Cache.Sel w f t) :
    ((tposs w ts).map (entAt w)).Nodup ∧ ∀ e, e ∈ (tposs w ts).map (entAt w) ↔ (e ∈ live ∧ Matches w f e) := by
  obtain ⟨free, hL⟩ := G.link
  have hent : ∀ p : Nat × Nat, entAt w p = (rowAt w p.1 p.2).ent := fun _ => rfl
  refine ⟨?_, ?_⟩
  · apply Arche.Props.C02.nodup_map_of_inj_on _ (nodup_tposs w ts hnd)
    intro a ha b hb hab
    obtain ⟨a1, a2⟩ := (mem_tposs w ts a).1 ha
    obtain ⟨b1, b2⟩ := (mem_tposs w ts b).1 hb
    have la := G.k.idx.bwd a.1 a.2 ⟨((hmem a.1).1 a1).1, a2⟩
    have lb := G.k.idx.bwd b.1 b.2 ⟨((hmem b.1).1 b1).1, b2⟩
    rw [← hent, hab, hent, lb] at la
    simp only [Option.some.injEq, Loc.mk.injEq] at la
    exact Prod.ext la.1.symm la.2.symm
  · intro e
    rw [List.mem_map]
    constructor
    · rintro ⟨p, hp, rfl⟩
      obtain ⟨p1, p2⟩ := (mem_tposs w ts p).1 hp
      have hsel := (hmem p.1).1 p1
      have hb := G.k.idx.bwd p.1 p.2 ⟨hsel.1, p2⟩
      rw [← hent] at hb
      exact ⟨(hL.stored _).2 ⟨⟨p.1, p.2⟩, hb, rfl⟩, ⟨p.1, p.2⟩, hb, rfl, hsel.2.2.1, hsel.2.2.2⟩
    · rintro ⟨_, l, h1, h2, h3, h4⟩
      have hv := (G.k.idx.fwd _ _ h1).1
      have hact : (w.tableOf l.tbl).active = true := BatchLoop.active_of_nonempty w G.k l.tbl hv.1 (by have := hv.2; omega)
      refine ⟨(l.tbl, l.row), (mem_tposs w ts _).2 ⟨(hmem l.tbl).2 ⟨hv.1, hact, h3, h4⟩, hv.2⟩, ?_⟩
      rw [hent]; exact h2

/-- **a query covers exactly the alive entities that match its filter, each once** — for a
    plain filter (node walk) and for a registered one (cached table list) -/
theorem query_visits_matching (w : World) (issued live : List Entity) (G : GInv w issued live) (f : Filter) (q : Query)
    (hq : (w.query f).out = .ok q) :
    ((positions w q).map (entAt w)).Nodup ∧
    ∀ e, e ∈ (positions w q).map (entAt w) ↔ (e ∈ live ∧ Matches w (Arche.Props.C08.plain w f) e) := by
  unfold World.query at hq
  cases f with
  | cached inner id =>
    simp only [] at hq
    cases hfind : w.cacheFind id with
    | none => simp [hfind, World.fail] at hq
    | some e =>
      simp only [hfind] at hq
      cases hlk : w.lock with
      | none => simp [hlk, World.fail] at hq
      | some wb =>
        simp only [hlk, Except.ok.injEq] at hq
        have hpos : positions w q = tposs w e.archs.toList := by
          rw [← hq]; unfold positions Query.ranges tposs; simp only []; rw [List.flatMap_map]
        have hmem0 := Arche.Props.C08.cacheFind_mem w id e hfind
        have hinv := G.s.cache.entries e hmem0
        have hp : Arche.Props.C08.plain w (.cached inner id) = e.filter := by
          unfold Arche.Props.C08.plain; simp only [hfind]
        rw [hpos, hp]
        apply ents_of_selected w issued live G e.filter e.archs.toList
        · rw [List.nodup_iff_pairwise_ne, List.pairwise_iff_getElem]
          intro i j hi hj hij heq
          simp only [Array.length_toList] at hi hj
          simp only [Array.getElem_toList] at heq
          have := hinv.inj i j e.archs[i] (Array.getElem?_eq_getElem hi) (by rw [Array.getElem?_eq_getElem hj, heq])
          omega
        · intro t
          rw [← hinv.mem t, Array.mem_toList_iff, Array.mem_iff_getElem?]
  | _ =>
    all_goals (
      simp only [] at hq
      cases hlk : w.lock with
      | none => simp [hlk, World.fail] at hq
      | some wb =>
        simp only [hlk, Except.ok.injEq] at hq
        have hwb : wb.1.nodes = w.nodes := by
          unfold World.lock at hlk
          split at hlk
          · cases hlk
          · simp only [Option.some.injEq] at hlk; rw [← hlk]
        have hfields : q.mode = .nodes ∧ q.nodeCount = w.nodes.size := by
          rw [← hq]; exact ⟨rfl, by show wb.1.nodes.size = _; rw [hwb]⟩
        have hpos := positions_nodes w G.k G.s q hfields.1 hfields.2
        rw [hpos, ← hq]
        exact ents_of_selected w issued live G _ _ (nodup_matchingTables w G.k _) (fun t => mem_matchingTables w G.k G.s.cov _ t))

/-- at every position the query's `Entity` is the handle the index maps to that row: the
    query's accessors and the world's accessors for that entity read the same table row -/
theorem position_agrees (w : World) (issued live : List Entity) (G : GInv w issued live) (t r : Nat) (ht : t < w.tables.size)
    (hr : r < (w.tableOf t).rows.size) :
    loc w (entAt w (t, r)).id = some ⟨t, r⟩ ∧ (entAt w (t, r)) ∈ live ∧
    w.locOf (entAt w (t, r)) = ⟨t, r⟩ := by
  obtain ⟨free, hL⟩ := G.link
  have hb := G.k.idx.bwd t r ⟨ht, hr⟩
  have hloc : loc w (entAt w (t, r)).id = some ⟨t, r⟩ := hb
  refine ⟨hloc, (hL.stored _).2 ⟨⟨t, r⟩, hloc, rfl⟩, ?_⟩
  unfold locOf; unfold loc at hloc; rw [hloc]; rfl

/-- …in particular in every reachable world -/
theorem reach_query_visits_matching {w : World} {is lv : List Entity} (h : Arche.Props.C01.Reach.Reach w is lv) (f : Filter) (q : Query)
    (hq : (w.query f).out = .ok q) :
    ((positions w q).map (entAt w)).Nodup ∧
    ∀ e, e ∈ (positions w q).map (entAt w) ↔ (e ∈ lv ∧ Matches w (Arche.Props.C08.plain w f) e) :=
  query_visits_matching w is lv (Arche.Props.C01.Reach.reach_ginv h) f q hq

end Arche.Props.C03.Match
