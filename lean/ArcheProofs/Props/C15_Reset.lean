/-
  C15 companion — `World.Reset` (ecs/world.go), REGENERATED on every run on a view of the `World` struct
  (`entities`, `targetEntities`, `entityPool`, `locks`, `resources`, `filterCache`, `nodes`), with the graph
  nodes outside the module: `w.nodes.Len()` / `w.nodes.Get(i)` read a hidden state `Ext`, and
  `archNode.Reset(cache)` is an *effectful* extern that changes the hidden state and the cache it is handed
  (`w.Cache()` is `&w.filterCache`). For whatever the nodes do:

  * `reset_locked`: a locked world refuses;
  * `reset_spec`: otherwise the call succeeds; the entity index is cut back to slot 0, every target flag is
    clear, the pool / lock mask / resources are exactly what their own `Reset` produces (whose refinement to
    the model is `C02_Pool.reset_refines`, `C09_LockPool.lockReset_refines`, `C20_Res.reset_refines`), and the
    nodes are reset one after the other, in index order, each handed the cache the previous one left;
  * `reset_model`: run with the model's world as the hidden state and `archNode.Reset` interpreted as the
    model's `resetNode`, the result IS the model's `World.reset` — pool, locks, resources, index, flags,
    and the tables/nodes/cache part.
-/
import ArcheProofs.Props.C17_Load
import ArcheProofs.Props.C20_Res

namespace Arche.Props.C15_Reset
open ArcheGen ArcheGen.P256 Arche Arche.Props

/-- one round of the loop over the nodes, as a pure function on (cache, hidden state) -/
def resetStep {Ext : Type} (nodeReset : Ext → Option Nat → Cache → Ext × Cache) (pget : Ext → Nat → BitVec 32 → Option Nat)
    (nodes : Nat) (s : Cache × Ext) (i : Nat) : Cache × Ext :=
  let r := nodeReset s.2 (pget s.2 nodes (BitVec.ofNat 32 i)) s.1
  (r.2, r.1)

theorem reset_locked {Ext : Type} (nodeReset : Ext → Option Nat → Cache → Ext × Cache) (pget : Ext → Nat → BitVec 32 → Option Nat)
    (plen : Ext → Nat → BitVec 32) (w : P256.World) (ext : Ext) (h : LockMask.isLocked (C09_LockPool.absLM w.locks) = true) :
    World.Reset nodeReset pget plen w ext = none := by
  unfold World.Reset
  rw [C09_WorldLock.checkLocked_spec]
  simp [h, bind, Option.bind]

/-- the loop body, as generated -/
def loopBody {Ext : Type} (nodeResetF : Ext → Option Nat → Cache → Ext × Cache) (pagedGetF : Ext → Nat → BitVec 32 → Option Nat) :
    P256.World × Ext → Nat → Option (P256.World × Ext) :=
  fun (w, ext) iN => do
      let i : BitVec 32 := BitVec.ofNat 32 iN
      let (ext, r7) := nodeResetF ext (pagedGetF ext (w).nodes i) (w).filterCache
      let w := { w with filterCache := r7 }
      pure (w, ext)

theorem loop_eq {Ext : Type} (nodeReset : Ext → Option Nat → Cache → Ext × Cache) (pget : Ext → Nat → BitVec 32 → Option Nat)
    (w : P256.World) (l : List Nat) (s : Cache × Ext) :
    List.foldlM (m := Option) (loopBody nodeReset pget) ({ w with filterCache := s.1 }, s.2) l
      = some ({ w with filterCache := (l.foldl (resetStep nodeReset pget w.nodes) s).1 },
              (l.foldl (resetStep nodeReset pget w.nodes) s).2) := by
  induction l generalizing s with
  | nil => rfl
  | cons k l ih =>
    rw [List.foldlM_cons]
    have hstep : loopBody nodeReset pget ({ w with filterCache := s.1 }, s.2) k
        = some ({ w with filterCache := (resetStep nodeReset pget w.nodes s k).1 }, (resetStep nodeReset pget w.nodes s k).2) := rfl
    rw [hstep]
    simp only [bind, Option.bind]
    exact ih _

/-- **`Reset` on an unlocked world** (slot 0 of the index and of the pool exists — it does in every world) -/
theorem reset_spec {Ext : Type} (nodeReset : Ext → Option Nat → Cache → Ext × Cache) (pget : Ext → Nat → BitVec 32 → Option Nat)
    (plen : Ext → Nat → BitVec 32) (w : P256.World) (ext : Ext)
    (hunl : LockMask.isLocked (C09_LockPool.absLM w.locks) = false)
    (hidx : 1 ≤ w.entities.arr.size) (hpool : 1 ≤ w.entityPool.entities.arr.size) :
    ∃ t' p' l' r', bitSet.Reset w.targetEntities = some t' ∧ entityPool.Reset w.entityPool = some p' ∧
      lockMask.Reset w.locks = some l' ∧ Resources.reset w.resources = some r' ∧
      World.Reset nodeReset pget plen w ext =
        some ({ w with entities := ⟨w.entities.arr.extract 0 1, w.entities.cap⟩, targetEntities := t', entityPool := p',
                       locks := l', resources := r',
                       filterCache := ((List.range (plen ext w.nodes).toInt.toNat).foldl (resetStep nodeReset pget w.nodes) (w.filterCache, ext)).1 },
              ((List.range (plen ext w.nodes).toInt.toNat).foldl (resetStep nodeReset pget w.nodes) (w.filterCache, ext)).2) := by
  obtain ⟨t', ht', _, _⟩ := C06_BitSet.reset_get w.targetEntities
  obtain ⟨p', hp', _⟩ := C02_Pool.reset_refines w.entityPool hpool
  have hl := C09_LockPool.lockReset_refines w.locks
  cases hl' : lockMask.Reset w.locks with
  | none => rw [hl'] at hl; cases hl
  | some l' =>
    have hr : ∃ r', Resources.reset w.resources = some r' := by
      obtain ⟨r', h, _⟩ := C20_Res.reset_refines w.resources { (default : Arche.World) with resources := w.resources.resources.arr } rfl
      exact ⟨r', h⟩
    obtain ⟨r', hr'⟩ := hr
    refine ⟨t', p', l', r', ht', hp', rfl, hr', ?_⟩
    unfold World.Reset
    rw [C09_WorldLock.checkLocked_spec]
    have hpre : GoSlice.prefix w.entities (1 : Int) = some ⟨w.entities.arr.extract 0 1, w.entities.cap⟩ := by
      simp only [GoSlice.prefix]
      rw [if_pos]
      · rfl
      · exact ⟨by decide, by simpa using hidx⟩
    simp only [hunl, Bool.false_eq_true, ↓reduceIte, bind, Option.bind, hpre, ht', hp', hl', hr', pure]
    have := loop_eq nodeReset pget
      { w with entities := ⟨w.entities.arr.extract 0 1, w.entities.cap⟩, targetEntities := t', entityPool := p', locks := l', resources := r' }
      (List.range (plen ext w.nodes).toInt.toNat) (w.filterCache, ext)
    generalize hF : List.foldlM (m := Option) (s := P256.World × Ext) (α := Nat) _ _ (List.range (plen ext w.nodes).toInt.toNat) = X
    have hX := hF.symm.trans this
    rw [hX]

/-! ### the link to the hand-written model: `World.reset` -/

/-- the five fields `World.Reset` sets directly -/
def upd5 (m : Arche.World) (i : Array (Option Loc)) (f : Array Bool) (p : Pool) (l : LockMask) (r : Array (Option Nat)) : Arche.World :=
  { m with index := i, flags := f, pool := p, locks := l, resources := r }

theorem removeTable_upd5 (m : Arche.World) (i : Array (Option Loc)) (f : Array Bool) (p : Pool) (l : LockMask) (r : Array (Option Nat)) (t : Nat) :
    World.removeTable (upd5 m i f p l r) t = upd5 (World.removeTable m t) i f p l r := rfl

theorem setTable_upd5 (m : Arche.World) (i : Array (Option Loc)) (f : Array Bool) (p : Pool) (l : LockMask) (r : Array (Option Nat)) (t : Nat) (tb : Table) :
    World.setTable (upd5 m i f p l r) t tb = upd5 (World.setTable m t tb) i f p l r := rfl

theorem resetTables_upd5 (i : Array (Option Loc)) (f : Array Bool) (p : Pool) (l : LockMask) (r : Array (Option Nat)) (ts : List Nat) (m : Arche.World) :
    ts.foldl (fun w t =>
      let tb := w.tableOf t
      if !tb.active then w
      else if !tb.target.isZero then w.removeTable t
      else w.setTable t { tb with rows := #[] }) (upd5 m i f p l r)
    = upd5 (ts.foldl (fun w t =>
      let tb := w.tableOf t
      if !tb.active then w
      else if !tb.target.isZero then w.removeTable t
      else w.setTable t { tb with rows := #[] }) m) i f p l r := by
  induction ts generalizing m with
  | nil => rfl
  | cons t ts ih =>
    rw [List.foldl_cons, List.foldl_cons]
    have ht : (upd5 m i f p l r).tableOf t = m.tableOf t := rfl
    simp only [ht]
    by_cases h1 : (m.tableOf t).active
    · by_cases h2 : (m.tableOf t).target.isZero
      · simp only [h1, h2, Bool.not_true, Bool.false_eq_true, ↓reduceIte, setTable_upd5]
        exact ih _
      · simp only [h1, h2, Bool.not_true, Bool.false_eq_true, ↓reduceIte, removeTable_upd5]
        exact ih _
    · simp only [h1, Bool.not_false, ↓reduceIte]
      exact ih _

/-- resetting a node reads and writes nodes, tables and the cache only -/
theorem resetNode_upd5 (m : Arche.World) (i : Array (Option Loc)) (f : Array Bool) (p : Pool) (l : LockMask) (r : Array (Option Nat)) (n : Nat) :
    World.resetNode (upd5 m i f p l r) n = upd5 (World.resetNode m n) i f p l r := by
  unfold World.resetNode
  have hn : (upd5 m i f p l r).nodeOf n = m.nodeOf n := rfl
  simp only [hn]
  by_cases ha : (m.nodeOf n).active
  · by_cases hr : (m.nodeOf n).rel.isNone
    · simp only [ha, hr, Bool.not_true, Bool.false_eq_true, ↓reduceIte]
      rfl
    · simp only [ha, hr, Bool.not_true, Bool.false_eq_true, ↓reduceIte]
      exact resetTables_upd5 i f p l r _ m
  · simp only [ha, Bool.not_false, ↓reduceIte]

theorem resetNodes_upd5 (i : Array (Option Loc)) (f : Array Bool) (p : Pool) (l : LockMask) (r : Array (Option Nat)) (ns : List Nat) (m : Arche.World) :
    ns.foldl World.resetNode (upd5 m i f p l r) = upd5 (ns.foldl World.resetNode m) i f p l r := by
  induction ns generalizing m with
  | nil => rfl
  | cons n ns ih => rw [List.foldl_cons, List.foldl_cons, resetNode_upd5, ih]

theorem extract01_getD (a : Array Bool) (h : a.getD 0 false = false) (id : Nat) : (a.extract 0 1).getD id false = false := by
  rw [Array.getD_eq_getD_getElem?, Array.getElem?_extract]
  split
  · rename_i h1
    have : id = 0 := by omega
    subst this
    rw [Array.getD_eq_getD_getElem?] at h
    simpa using h
  · rfl

/-- what the proof assumes about the node externs: `w.nodes.Len()` is the number of nodes, and
    `w.nodes.Get(i).Reset(cache)` acts on the hidden state as the model's `resetNode i` -/
structure NodeInterp (nodeReset : Arche.World → Option Nat → Cache → Arche.World × Cache)
    (pget : Arche.World → Nat → BitVec 32 → Option Nat) (plen : Arche.World → Nat → BitVec 32) (nodes : Nat) : Prop where
  len : ∀ m : Arche.World, (plen m nodes).toInt.toNat = m.nodes.size
  reset : ∀ (m : Arche.World) (i : Nat) (c : Cache), (nodeReset m (pget m nodes (BitVec.ofNat 32 i)) c).1 = m.resetNode i

theorem fold_ext (nodeReset : Arche.World → Option Nat → Cache → Arche.World × Cache)
    (pget : Arche.World → Nat → BitVec 32 → Option Nat) (plen : Arche.World → Nat → BitVec 32) (nodes : Nat)
    (hI : NodeInterp nodeReset pget plen nodes) (l : List Nat) (s : Cache × Arche.World) :
    (l.foldl (resetStep nodeReset pget nodes) s).2 = l.foldl World.resetNode s.2 := by
  induction l generalizing s with
  | nil => rfl
  | cons k l ih =>
    rw [List.foldl_cons, List.foldl_cons, ih]
    congr 1
    exact hI.reset s.2 k s.1

/-- **`World.Reset` is the model's `World.reset`**: with the model's world as the hidden state (and the node
    externs interpreted by the model), the regenerated code succeeds and ends in the model's state: the
    hidden part (nodes, tables, cache) is `m'`, and the five viewed fields abstract to the model's. -/
theorem reset_model (nodeReset : Arche.World → Option Nat → Cache → Arche.World × Cache)
    (pget : Arche.World → Nat → BitVec 32 → Option Nat) (plen : Arche.World → Nat → BitVec 32)
    (gw : P256.World) (mw : Arche.World) (hI : NodeInterp nodeReset pget plen gw.nodes)
    (hlocks : mw.locks = C09_LockPool.absLM gw.locks) (hpool : mw.pool = C02_Pool.absPool gw.entityPool)
    (hres : C20_Res.Rep gw.resources mw) (hindex : mw.index = gw.entities.arr.map C17_Load.absIdx)
    (hflag0 : mw.flags.getD 0 false = false)
    (hunl : mw.isLocked = false) (hidx : 1 ≤ gw.entities.arr.size) (hp1 : 1 ≤ gw.entityPool.entities.arr.size) :
    ∃ gw' m', World.Reset nodeReset pget plen gw mw = some (gw', m') ∧
      mw.reset = { w := upd5 m' (gw'.entities.arr.map C17_Load.absIdx) (mw.flags.extract 0 1)
                     (C02_Pool.absPool gw'.entityPool) (C09_LockPool.absLM gw'.locks) gw'.resources.resources.arr,
                   out := .ok () } ∧
      (∀ id, (mw.flags.extract 0 1).getD id false = C06_BitSet.bget gw'.targetEntities id) := by
  have hunl' : LockMask.isLocked (C09_LockPool.absLM gw.locks) = false := by rw [← hlocks]; exact hunl
  obtain ⟨t', p', l', r', ht', hp', hl', hr', hreset⟩ := reset_spec nodeReset pget plen gw mw hunl' hidx hp1
  refine ⟨_, _, hreset, ?_, ?_⟩
  · obtain ⟨p2, hp2, hpabs⟩ := C02_Pool.reset_refines gw.entityPool hp1
    rw [hp'] at hp2; cases hp2
    have hlabs := C09_LockPool.lockReset_refines gw.locks
    rw [hl'] at hlabs
    simp only [Option.map_some, Option.some.injEq] at hlabs
    obtain ⟨r2, hr2, hrabs⟩ := C20_Res.reset_refines gw.resources mw hres
    rw [hr'] at hr2; cases hr2
    unfold World.reset
    simp only [hunl, Bool.false_eq_true, ↓reduceIte]
    congr 1
    simp only [fold_ext nodeReset pget plen gw.nodes hI, hI.len, hpabs, hlabs, hrabs]
    rw [← hpool, ← hlocks]
    have hi : mw.index.extract 0 1 = (gw.entities.arr.extract 0 1).map C17_Load.absIdx := by
      rw [hindex]; simp
    rw [← hi]
    exact resetNodes_upd5 _ _ _ _ _ _ mw
  · intro id
    obtain ⟨t2, ht2, _, hz⟩ := C06_BitSet.reset_get gw.targetEntities
    rw [ht'] at ht2; cases ht2
    simp only [hz]
    exact extract01_getD _ hflag0 id

/-! ### non-vacuity: a concrete run of the regenerated code -/

def demoPool : entityPool := { entities := ⟨#[⟨0#32, 0#32⟩, ⟨1#32, 0#32⟩, ⟨2#32, 1#32⟩], 4⟩, next := 2#32, available := 1#32, capacityIncrement := 4#32 }
def demoIdx : GoSlice entityIndex := ⟨#[default, ⟨some 0, 0#32⟩, default], 4⟩
def demoFlags : bitSet := { data := ⟨#[5#64], 1⟩ }
def demoWorld : P256.World := { (default : P256.World) with entityPool := demoPool, entities := demoIdx, targetEntities := demoFlags, nodes := 7 }
/-- hidden state: the list of node tokens reset so far -/
def demoNodeReset (ext : List Nat) (n : Option Nat) (c : Cache) : List Nat × Cache := (ext ++ [n.getD 99], c)
def demoOut : Option (List (Nat × Nat) × List Nat × List Nat) :=
  (World.Reset demoNodeReset (fun _ nodes i => some (nodes * 10 + i.toNat)) (fun _ _ => 3#32) demoWorld []).map (fun r =>
    (r.1.entityPool.entities.arr.toList.map (fun e => (e.id.toNat, e.gen.toNat)),
     [r.1.entities.arr.size, r.1.entityPool.next.toNat, r.1.entityPool.available.toNat, (r.1.targetEntities.data.arr.getD 0 1#64).toNat],
     r.2))
def demoExpected : Option (List (Nat × Nat) × List Nat × List Nat) := some ([(0, 0)], [1, 0, 0, 0], [70, 71, 72])

/-- three entities, one alive, flags set, three nodes: afterwards only slot 0 remains and the nodes were reset in order -/
theorem demo_run : demoOut = demoExpected := by decide +kernel

end Arche.Props.C15_Reset
