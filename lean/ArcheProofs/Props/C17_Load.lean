/-
  C17 companion — `World.LoadEntities` (ecs/world.go), REGENERATED on every run on a view of the `World`
  struct (`entityPool`, `entities`, `targetEntities`, `archetypes`, `locks`, `config`), with the tables
  outside the module: `w.archetypes.Get(0)` is a token and `arch.Alloc(entity)` an *effectful* extern —
  a hidden state `Ext` is threaded through every call, so the theorems hold for whatever the tables do.

  * `load_locked`, `load_used`: the two refusals (a locked world; a world whose pool was ever used);
  * `load_spec`: otherwise the call succeeds exactly when the dump is well-formed, the pool afterwards
    IS the dumped pool (entities, next, available — so every dumped entity is alive or dead as dumped,
    and recycling continues where the dumped world would have), the target flags are all clear, every
    other viewed field is untouched, and the entity index is the left fold of `loadStep` (one `Alloc` per
    alive entity, in the order of `data.Alive`, its row stored under the entity's id);
  * `load_pool_model`: under the abstraction of `C02_Pool` the pool after the call is the pool the
    model's `World.load` installs.
-/
import ArcheProofs.Props.C09_WorldLock
import ArcheProofs.Props.C06_BitSet
import ArcheProofs.Props.C16

namespace Arche.Props.C17_Load
open ArcheGen ArcheGen.P256 Arche Arche.Props

/-- one round of the loop over `data.Alive`, as a pure function on (entity index, hidden table state) -/
def loadStep {Ext : Type} (alloc : Ext → Option Nat → P256.Entity → Ext × BitVec 32) (arch : Option Nat)
    (ents : Array P256.Entity) (alive : Array (BitVec 32)) (s : Array entityIndex × Ext) (k : Nat) :
    Array entityIndex × Ext :=
  let e := ents.getD (alive.getD k 0#32).toNat default
  let r := alloc s.2 arch e
  (s.1.setIfInBounds e.id.toNat ⟨arch, r.2⟩, r.1)

theorem loadStep_size {Ext : Type} (alloc : Ext → Option Nat → P256.Entity → Ext × BitVec 32) (arch : Option Nat)
    (ents : Array P256.Entity) (alive : Array (BitVec 32)) (s : Array entityIndex × Ext) (k : Nat) :
    (loadStep alloc arch ents alive s k).1.size = s.1.size := by
  simp [loadStep]

theorem foldl_loadStep_size {Ext : Type} (alloc : Ext → Option Nat → P256.Entity → Ext × BitVec 32) (arch : Option Nat)
    (ents : Array P256.Entity) (alive : Array (BitVec 32)) (l : List Nat) (s : Array entityIndex × Ext) :
    (l.foldl (loadStep alloc arch ents alive) s).1.size = s.1.size := by
  induction l generalizing s with
  | nil => rfl
  | cons k l ih => rw [List.foldl_cons, ih, loadStep_size]

/-- a well-formed dump: every alive index, and the id of every alive entity, points into the entity list -/
structure WfDump (d : EntityDump) : Prop where
  alive : ∀ k, k < d.Alive.arr.size → (d.Alive.arr.getD k 0#32).toNat < d.Entities.arr.size
  ids : ∀ k, k < d.Alive.arr.size →
    (d.Entities.arr.getD (d.Alive.arr.getD k 0#32).toNat default).id.toNat < d.Entities.arr.size

theorem load_locked {Ext : Type} (alloc : Ext → Option Nat → P256.Entity → Ext × BitVec 32) (pget : Ext → Nat → BitVec 32 → Option Nat)
    (w : P256.World) (d : EntityDump) (ext : Ext) (h : LockMask.isLocked (C09_LockPool.absLM w.locks) = true) :
    World.LoadEntities alloc pget w d ext = none := by
  unfold World.LoadEntities
  rw [C09_WorldLock.checkLocked_spec]
  simp [h, bind, Option.bind]

theorem load_used {Ext : Type} (alloc : Ext → Option Nat → P256.Entity → Ext × BitVec 32) (pget : Ext → Nat → BitVec 32 → Option Nat)
    (w : P256.World) (d : EntityDump) (ext : Ext) (h : 1 < w.entityPool.entities.arr.size ∨ w.entityPool.available ≠ 0#32) :
    World.LoadEntities alloc pget w d ext = none := by
  unfold World.LoadEntities
  rw [C09_WorldLock.checkLocked_spec]
  by_cases hl : LockMask.isLocked (C09_LockPool.absLM w.locks) = true
  · simp [hl, bind, Option.bind]
  · have hc : ((decide ((1 : Int) < (((((w).entityPool).entities).size : Nat) : Int))) || (BitVec.ult 0#32 ((w).entityPool).available)) = true := by
      rcases h with h | h
      · simp only [GoSlice.size, Bool.or_eq_true]; left; exact decide_eq_true (by omega)
      · simp only [Bool.or_eq_true]; right
        have : w.entityPool.available.toNat ≠ 0 := fun hc => h (BitVec.eq_of_toNat_eq (by simpa using hc))
        simp only [BitVec.ult, BitVec.toNat_ofNat, decide_eq_true_eq]; omega
    simp only [hl, Bool.false_eq_true, ↓reduceIte, bind, Option.bind, hc]

/-- the world after a successful load, given the new index, capacity and flags -/
def loaded (w : P256.World) (d : EntityDump) (c : Nat) (idx : Array entityIndex) (ts : bitSet) : P256.World :=
  { w with entityPool := { w.entityPool with entities := ⟨d.Entities.arr, c⟩, next := d.Next, available := d.Available },
           entities := ⟨idx, c⟩, targetEntities := ts }

/-- the body of the loop over `data.Alive`, as generated -/
def loopBody {Ext : Type} (alloc : Ext → Option Nat → P256.Entity → Ext × BitVec 32) (arch : Option Nat) (d : EntityDump) :
    P256.World × Ext → Nat → Option (P256.World × Ext) :=
  fun (w, ext) k5N => do
        let k5 : Int := ((k5N : Nat) : Int)
        let idx ← GoSlice.get (d).Alive k5N
        let t7 ← GoSlice.get ((w).entityPool).entities (idx).toNat
        let entity := t7
        let (ext, r8) := alloc ext arch entity
        let archIdx := r8
        let i9 := ((entity).id).toNat
        let u10 ← GoSlice.set (w).entities i9 ({ arch := arch, index := archIdx } : entityIndex)
        let w := { w with entities := u10 }
        pure (w, ext)

theorem getElem?_getD {α : Type} (a : Array α) (i : Nat) (h : i < a.size) (dflt : α) : a[i]? = some (a.getD i dflt) := by
  simp [Array.getD, h]

theorem loopBody_eq {Ext : Type} (alloc : Ext → Option Nat → P256.Entity → Ext × BitVec 32) (arch : Option Nat)
    (w : P256.World) (d : EntityDump) (c : Nat) (ts : bitSet)
    (k : Nat) (hk : k < d.Alive.arr.size) (ha : (d.Alive.arr.getD k 0#32).toNat < d.Entities.arr.size)
    (hi : (d.Entities.arr.getD (d.Alive.arr.getD k 0#32).toNat default).id.toNat < d.Entities.arr.size)
    (s : Array entityIndex × Ext) (hs : s.1.size = d.Entities.arr.size) :
    loopBody alloc arch d (loaded w d c s.1 ts, s.2) k
      = some (loaded w d c (loadStep alloc arch d.Entities.arr d.Alive.arr s k).1 ts,
              (loadStep alloc arch d.Entities.arr d.Alive.arr s k).2) := by
  have e1 : GoSlice.get d.Alive k = some (d.Alive.arr.getD k 0#32) := by
    simp [GoSlice.get, Array.getD, hk]
  have e2 : GoSlice.get (⟨d.Entities.arr, c⟩ : GoSlice P256.Entity) (d.Alive.arr.getD k 0#32).toNat
      = some (d.Entities.arr.getD (d.Alive.arr.getD k 0#32).toNat default) :=
    getElem?_getD _ _ ha _
  simp only [loopBody, bind, Option.bind, pure, e1, loaded, e2, GoSlice.set, hs, hi, ↓reduceIte, loadStep]

theorem loop_eq {Ext : Type} (alloc : Ext → Option Nat → P256.Entity → Ext × BitVec 32) (arch : Option Nat)
    (w : P256.World) (d : EntityDump) (c : Nat) (ts : bitSet) (hwf : WfDump d)
    (l : List Nat) (hl : ∀ k ∈ l, k < d.Alive.arr.size) (s : Array entityIndex × Ext) (hs : s.1.size = d.Entities.arr.size) :
    List.foldlM (m := Option) (loopBody alloc arch d) (loaded w d c s.1 ts, s.2) l
      = some (loaded w d c (l.foldl (loadStep alloc arch d.Entities.arr d.Alive.arr) s).1 ts,
              (l.foldl (loadStep alloc arch d.Entities.arr d.Alive.arr) s).2) := by
  induction l generalizing s with
  | nil => rfl
  | cons k l ih =>
    have hk := hl k List.mem_cons_self
    rw [List.foldlM_cons, loopBody_eq alloc arch w d c ts k hk (hwf.alive k hk) (hwf.ids k hk) s hs]
    simp only [bind, Option.bind]
    rw [ih (fun k' hk' => hl k' (List.mem_cons_of_mem _ hk')) _ (by rw [loadStep_size]; exact hs)]
    rfl

/-- **`LoadEntities` on an unlocked, fresh world and a well-formed dump** -/
theorem load_spec {Ext : Type} (alloc : Ext → Option Nat → P256.Entity → Ext × BitVec 32) (pget : Ext → Nat → BitVec 32 → Option Nat)
    (w : P256.World) (d : EntityDump) (ext : Ext) (inc : Nat) (hinc : 0 < inc) (hcfg : w.config.CapacityIncrement = Int.ofNat inc)
    (hunl : LockMask.isLocked (C09_LockPool.absLM w.locks) = false)
    (hfresh : w.entityPool.entities.arr.size ≤ 1 ∧ w.entityPool.available = 0#32)
    (hwf : WfDump d) :
    ∃ c : Nat, ∃ ts : bitSet, c % inc = 0 ∧ d.Entities.arr.size ≤ c ∧ c < d.Entities.arr.size + inc ∧
      (∀ j, C06_BitSet.bget ts j = false) ∧ (c : Int) ≤ 64 * (ts.data.arr.size : Int) ∧
      World.LoadEntities alloc pget w d ext =
        some (loaded w d c ((List.range d.Alive.arr.size).foldl (loadStep alloc (pget ext w.archetypes 0#32) d.Entities.arr d.Alive.arr)
                 (Array.replicate d.Entities.arr.size default, ext)).1 ts,
              ((List.range d.Alive.arr.size).foldl (loadStep alloc (pget ext w.archetypes 0#32) d.Entities.arr d.Alive.arr)
                 (Array.replicate d.Entities.arr.size default, ext)).2) := by
  obtain ⟨c, hc, hmod, hle, hlt⟩ := C16.capacity_spec d.Entities.arr.size inc hinc
  obtain ⟨ts, hts, _, hbits, hget⟩ := C06_BitSet.extend_get (default : bitSet) (Int.ofNat c) (by simp)
  refine ⟨c, ts, hmod, hle, hlt, ?_, by simpa using hbits, ?_⟩
  · intro j; rw [hget j]; simp [C06_BitSet.bget, default, instInhabitedBitSet.default]
  · unfold World.LoadEntities
    rw [C09_WorldLock.checkLocked_spec]
    have hc0 : ((decide ((1 : Int) < (((((w).entityPool).entities).size : Nat) : Int))) || (BitVec.ult 0#32 ((w).entityPool).available)) = false := by
      rw [Bool.or_eq_false_iff, hfresh.2]
      exact ⟨decide_eq_false (by simp only [GoSlice.size]; omega), by decide⟩
    simp only [hunl, Bool.false_eq_true, ↓reduceIte, bind, Option.bind, hc0]
    simp only [GoSlice.size, hcfg]
    rw [show ((d.Entities.arr.size : Nat) : Int) = Int.ofNat d.Entities.arr.size from rfl, hc]
    have hm1 : GoSlice.make (α := P256.Entity) (0 : Int) (Int.ofNat c) = some ⟨#[], c⟩ := by
      simp [GoSlice.make]
    have hm2 : GoSlice.make (α := entityIndex) (Int.ofNat d.Entities.arr.size) (Int.ofNat c) = some ⟨Array.replicate d.Entities.arr.size default, c⟩ := by
      simp only [GoSlice.make, Int.ofNat_eq_natCast, Int.natCast_nonneg, Int.ofNat_le, hle, and_self, ↓reduceIte, Int.toNat_natCast]
    simp only [hm1, hm2, hts, pure]
    have happ : GoSlice.appendAll (⟨#[], c⟩ : GoSlice P256.Entity) d.Entities = ⟨d.Entities.arr, c⟩ := by
      simp [GoSlice.appendAll, hle]
    rw [happ]
    have := loop_eq alloc (pget ext w.archetypes 0#32) w d c ts hwf (List.range d.Alive.arr.size)
      (fun k hk => List.mem_range.mp hk) (Array.replicate d.Entities.arr.size default, ext) (by simp)
    simp only [loaded] at this ⊢
    generalize hF : List.foldlM (m := Option) (s := P256.World × Ext) (α := Nat) _ _ (List.range d.Alive.arr.size) = X
    have hX := hF.symm.trans this
    rw [hX]

/-! ### a malformed dump is refused (index panic in Go) -/

theorem loopBody_bad {Ext : Type} (alloc : Ext → Option Nat → P256.Entity → Ext × BitVec 32) (arch : Option Nat)
    (w : P256.World) (d : EntityDump) (c : Nat) (ts : bitSet)
    (k : Nat) (hk : k < d.Alive.arr.size)
    (hbad : ¬ ((d.Alive.arr.getD k 0#32).toNat < d.Entities.arr.size ∧
               (d.Entities.arr.getD (d.Alive.arr.getD k 0#32).toNat default).id.toNat < d.Entities.arr.size))
    (s : Array entityIndex × Ext) (hs : s.1.size = d.Entities.arr.size) :
    loopBody alloc arch d (loaded w d c s.1 ts, s.2) k = none := by
  have e1 : GoSlice.get d.Alive k = some (d.Alive.arr.getD k 0#32) := by
    simp [GoSlice.get, Array.getD, hk]
  by_cases ha : (d.Alive.arr.getD k 0#32).toNat < d.Entities.arr.size
  · have hi : ¬ (d.Entities.arr.getD (d.Alive.arr.getD k 0#32).toNat default).id.toNat < d.Entities.arr.size :=
      fun h => hbad ⟨ha, h⟩
    have e2 : GoSlice.get (⟨d.Entities.arr, c⟩ : GoSlice P256.Entity) (d.Alive.arr.getD k 0#32).toNat
        = some (d.Entities.arr.getD (d.Alive.arr.getD k 0#32).toNat default) :=
      getElem?_getD _ _ ha _
    simp only [loopBody, bind, Option.bind, pure, e1, loaded, e2, GoSlice.set, hs, hi, ↓reduceIte]
  · have e2 : GoSlice.get (⟨d.Entities.arr, c⟩ : GoSlice P256.Entity) (d.Alive.arr.getD k 0#32).toNat = none := by
      simp only [GoSlice.get]; exact Array.getElem?_eq_none (by omega)
    simp only [loopBody, bind, Option.bind, e1, loaded, e2]

theorem loop_bad {Ext : Type} (alloc : Ext → Option Nat → P256.Entity → Ext × BitVec 32) (arch : Option Nat)
    (w : P256.World) (d : EntityDump) (c : Nat) (ts : bitSet)
    (l : List Nat) (hl : ∀ k ∈ l, k < d.Alive.arr.size)
    (hbad : ∃ k ∈ l, ¬ ((d.Alive.arr.getD k 0#32).toNat < d.Entities.arr.size ∧
               (d.Entities.arr.getD (d.Alive.arr.getD k 0#32).toNat default).id.toNat < d.Entities.arr.size))
    (s : Array entityIndex × Ext) (hs : s.1.size = d.Entities.arr.size) :
    List.foldlM (m := Option) (loopBody alloc arch d) (loaded w d c s.1 ts, s.2) l = none := by
  induction l generalizing s with
  | nil => obtain ⟨k, hk, _⟩ := hbad; cases hk
  | cons k l ih =>
    have hk := hl k List.mem_cons_self
    rw [List.foldlM_cons]
    by_cases hg : ((d.Alive.arr.getD k 0#32).toNat < d.Entities.arr.size ∧
               (d.Entities.arr.getD (d.Alive.arr.getD k 0#32).toNat default).id.toNat < d.Entities.arr.size)
    · rw [loopBody_eq alloc arch w d c ts k hk hg.1 hg.2 s hs]
      simp only [bind, Option.bind]
      refine ih (fun k' hk' => hl k' (List.mem_cons_of_mem _ hk')) ?_ _ (by rw [loadStep_size]; exact hs)
      obtain ⟨k', hk', hb⟩ := hbad
      rcases List.mem_cons.mp hk' with rfl | hm
      · exact absurd hg hb
      · exact ⟨k', hm, hb⟩
    · rw [loopBody_bad alloc arch w d c ts k hk hg s hs]
      rfl

/-- **a malformed dump makes `LoadEntities` panic** (on an unlocked, fresh world: Go's index panic) — together
    with `load_spec`: the call succeeds exactly on well-formed dumps -/
theorem load_malformed {Ext : Type} (alloc : Ext → Option Nat → P256.Entity → Ext × BitVec 32) (pget : Ext → Nat → BitVec 32 → Option Nat)
    (w : P256.World) (d : EntityDump) (ext : Ext) (inc : Nat) (hinc : 0 < inc) (hcfg : w.config.CapacityIncrement = Int.ofNat inc)
    (hwf : ¬ WfDump d) :
    World.LoadEntities alloc pget w d ext = none := by
  by_cases hunl : LockMask.isLocked (C09_LockPool.absLM w.locks) = true
  · exact load_locked alloc pget w d ext hunl
  by_cases hused : 1 < w.entityPool.entities.arr.size ∨ w.entityPool.available ≠ 0#32
  · exact load_used alloc pget w d ext hused
  have hfresh : w.entityPool.entities.arr.size ≤ 1 ∧ w.entityPool.available = 0#32 := by
    constructor
    · omega
    · exact Classical.byContradiction (fun h => hused (Or.inr h))
  have hbad : ∃ k ∈ List.range d.Alive.arr.size, ¬ ((d.Alive.arr.getD k 0#32).toNat < d.Entities.arr.size ∧
               (d.Entities.arr.getD (d.Alive.arr.getD k 0#32).toNat default).id.toNat < d.Entities.arr.size) := by
    apply Classical.byContradiction
    intro hno
    apply hwf
    have hall : ∀ k, k < d.Alive.arr.size → ((d.Alive.arr.getD k 0#32).toNat < d.Entities.arr.size ∧
               (d.Entities.arr.getD (d.Alive.arr.getD k 0#32).toNat default).id.toNat < d.Entities.arr.size) := by
      intro k hk
      apply Classical.byContradiction
      intro hb
      exact hno ⟨k, List.mem_range.mpr hk, hb⟩
    exact ⟨fun k hk => (hall k hk).1, fun k hk => (hall k hk).2⟩
  obtain ⟨c, hc, hmod, hle, hlt⟩ := C16.capacity_spec d.Entities.arr.size inc hinc
  obtain ⟨ts, hts, _, hbits, hget⟩ := C06_BitSet.extend_get (default : bitSet) (Int.ofNat c) (by simp)
  unfold World.LoadEntities
  rw [C09_WorldLock.checkLocked_spec]
  have hc0 : ((decide ((1 : Int) < (((((w).entityPool).entities).size : Nat) : Int))) || (BitVec.ult 0#32 ((w).entityPool).available)) = false := by
    rw [Bool.or_eq_false_iff, hfresh.2]
    exact ⟨decide_eq_false (by simp only [GoSlice.size]; omega), by decide⟩
  simp only [hunl, Bool.false_eq_true, ↓reduceIte, bind, Option.bind, hc0]
  simp only [GoSlice.size, hcfg]
  rw [show ((d.Entities.arr.size : Nat) : Int) = Int.ofNat d.Entities.arr.size from rfl, hc]
  have hm1 : GoSlice.make (α := P256.Entity) (0 : Int) (Int.ofNat c) = some ⟨#[], c⟩ := by
    simp [GoSlice.make]
  have hm2 : GoSlice.make (α := entityIndex) (Int.ofNat d.Entities.arr.size) (Int.ofNat c) = some ⟨Array.replicate d.Entities.arr.size default, c⟩ := by
    simp only [GoSlice.make, Int.ofNat_eq_natCast, Int.natCast_nonneg, Int.ofNat_le, hle, and_self, ↓reduceIte, Int.toNat_natCast]
  simp only [hm1, hm2, hts, pure]
  have happ : GoSlice.appendAll (⟨#[], c⟩ : GoSlice P256.Entity) d.Entities = ⟨d.Entities.arr, c⟩ := by
    simp [GoSlice.appendAll, hle]
  rw [happ]
  have := loop_bad alloc (pget ext w.archetypes 0#32) w d c ts (List.range d.Alive.arr.size)
    (fun k hk => List.mem_range.mp hk) hbad (Array.replicate d.Entities.arr.size default, ext) (by simp)
  simp only [loaded] at this ⊢
  generalize hF : List.foldlM (m := Option) (s := P256.World × Ext) (α := Nat) _ _ (List.range d.Alive.arr.size) = X
  have hX := hF.symm.trans this
  rw [hX]

/-! ### the link to the hand-written model: `World.load` -/

/-- the dump as the model sees it -/
def absDump (d : EntityDump) : Arche.World.Dump :=
  { ents := d.Entities.arr.map C02_Pool.absE, alive := d.Alive.arr.toList.map (·.toNat),
    next := d.Next.toNat, available := d.Available.toNat }

/-- an entry of `w.entities`: the nil archetype pointer is "no location" -/
def absIdx (x : entityIndex) : Option Loc := x.arch.map (fun t => ⟨t, x.index.toNat⟩)

/-- **the pool after a load is the pool the model installs** -/
theorem load_pool_model (w : P256.World) (d : EntityDump) (c : Nat) (idx : Array entityIndex) (ts : bitSet) :
    C02_Pool.absPool (loaded w d c idx ts).entityPool =
      { ents := (absDump d).ents, next := (absDump d).next, available := (absDump d).available } := rfl

/-- the model world that corresponds to a loop state: hidden table state `m`, with the loaded pool, the
    abstraction of the index, and clear flags -/
def M (d : EntityDump) (s : Array entityIndex × Arche.World) : Arche.World :=
  { s.2 with pool := { ents := (absDump d).ents, next := (absDump d).next, available := (absDump d).available },
             index := s.1.map absIdx, flags := Array.replicate d.Entities.arr.size false }

/-- what the proof assumes about the table extern: `arch.Alloc` on table 0 is the model's `tableAlloc 0` -/
def AllocInterp (alloc : Arche.World → Option Nat → P256.Entity → Arche.World × BitVec 32) : Prop :=
  ∀ (m : Arche.World) (e : P256.Entity),
    (alloc m (some 0) e).1 = (m.tableAlloc 0 (C02_Pool.absE e)).1 ∧
    (alloc m (some 0) e).2.toNat = (m.tableAlloc 0 (C02_Pool.absE e)).2

theorem tableAlloc_M (d : EntityDump) (s : Array entityIndex × Arche.World) (e : Arche.Entity) :
    (M d s).tableAlloc 0 e = (M d (s.1, (s.2.tableAlloc 0 e).1), (s.2.tableAlloc 0 e).2) := rfl

theorem model_step (alloc : Arche.World → Option Nat → P256.Entity → Arche.World × BitVec 32) (hA : AllocInterp alloc)
    (d : EntityDump) (s : Array entityIndex × Arche.World) (k : Nat) :
    (let w := M d s
     let e := w.pool.ents.getD (d.Alive.arr.getD k 0#32).toNat default
     let r := w.tableAlloc 0 e
     r.1.setIndex e.id (some ⟨0, r.2⟩)) = M d (loadStep alloc (some 0) d.Entities.arr d.Alive.arr s k) := by
  have he : (M d s).pool.ents.getD (d.Alive.arr.getD k 0#32).toNat default
      = C02_Pool.absE (d.Entities.arr.getD (d.Alive.arr.getD k 0#32).toNat default) := by
    simp only [M, absDump, Array.getD_eq_getD_getElem?, Array.getElem?_map]
    generalize d.Entities.arr[(d.Alive.arr[k]?.getD 0#32).toNat]? = o
    cases o <;> rfl
  obtain ⟨h1, h2⟩ := hA s.2 (d.Entities.arr.getD (d.Alive.arr.getD k 0#32).toNat default)
  simp only [he, tableAlloc_M]
  simp only [M, World.setIndex, loadStep, h1, Array.map_setIfInBounds, absIdx, Option.map_some, h2, C02_Pool.absE]

theorem foldl_range_getD {σ : Type} (a : Array (BitVec 32)) (g : σ → Nat → σ) (s : σ) :
    (a.toList.map (·.toNat)).foldl g s = (List.range a.size).foldl (fun s k => g s (a.getD k 0#32).toNat) s := by
  have : a.toList.map (·.toNat) = (List.range a.size).map (fun k => (a.getD k 0#32).toNat) := by
    apply List.ext_getElem
    · simp
    · intro i h1 h2
      simp only [List.length_map, Array.length_toList] at h1
      simp [Array.getD, h1]
  rw [this, List.foldl_map]

/-- **`LoadEntities` is the model's `World.load`**: run with the model's tables as the hidden state
    (and `Alloc` interpreted as `tableAlloc`), the regenerated code ends in the state the model's `load`
    ends in — same pool, same index (entity id ↦ table 0, row), clear flags, same tables. -/
theorem load_model (alloc : Arche.World → Option Nat → P256.Entity → Arche.World × BitVec 32) (pget : Arche.World → Nat → BitVec 32 → Option Nat)
    (hA : AllocInterp alloc) (gw : P256.World) (hP : ∀ m, pget m gw.archetypes 0#32 = some 0)
    (d : EntityDump) (mw : Arche.World) (inc : Nat) (hinc : 0 < inc) (hcfg : gw.config.CapacityIncrement = Int.ofNat inc)
    (hlocks : mw.locks = C09_LockPool.absLM gw.locks) (hpool : mw.pool = C02_Pool.absPool gw.entityPool)
    (hunl : mw.isLocked = false) (hfresh : gw.entityPool.entities.arr.size ≤ 1 ∧ gw.entityPool.available = 0#32)
    (hwf : WfDump d) :
    ∃ gw' m', World.LoadEntities alloc pget gw d mw = some (gw', m') ∧
      mw.load (absDump d) = { w := M d (gw'.entities.arr, m'), out := .ok () } ∧
      C02_Pool.absPool gw'.entityPool = (M d (gw'.entities.arr, m')).pool := by
  have hunl' : LockMask.isLocked (C09_LockPool.absLM gw.locks) = false := by rw [← hlocks]; exact hunl
  obtain ⟨c, ts, _, _, _, _, _, hload⟩ := load_spec alloc pget gw d mw inc hinc hcfg hunl' hfresh hwf
  refine ⟨_, _, hload, ?_, rfl⟩
  rw [hP]
  unfold World.load
  have hnot : (mw.pool.ents.size > 1 || mw.pool.available > 0) = false := by
    rw [hpool]
    simp only [C02_Pool.absPool, Array.size_map, hfresh.2, BitVec.toNat_ofNat, Nat.zero_mod, gt_iff_lt, Nat.lt_irrefl,
      decide_false, Bool.or_false, decide_eq_false_iff_not]
    omega
  simp only [hunl, Bool.false_eq_true, ↓reduceIte, hnot]
  congr 1
  simp only [loaded]
  have hfold : ∀ (l : List Nat) (s : Array entityIndex × Arche.World),
      l.foldl (fun w k =>
        let e := w.pool.ents.getD (d.Alive.arr.getD k 0#32).toNat default
        let r := w.tableAlloc 0 e
        r.1.setIndex e.id (some ⟨0, r.2⟩)) (M d s) = M d (l.foldl (loadStep alloc (some 0) d.Entities.arr d.Alive.arr) s) := by
    intro l
    induction l with
    | nil => intro s; rfl
    | cons k l ih =>
      intro s
      rw [List.foldl_cons, List.foldl_cons, ← ih]
      congr 1
      exact model_step alloc hA d s k
  have h0 : ({ mw with pool := { ents := (absDump d).ents, next := (absDump d).next, available := (absDump d).available },
                       index := Array.replicate (absDump d).ents.size none, flags := Array.replicate (absDump d).ents.size false } : Arche.World)
      = M d (Array.replicate d.Entities.arr.size default, mw) := by
    simp only [M, absDump, Array.size_map, Array.map_replicate]
    rfl
  rw [h0]
  simp only [absDump]
  rw [foldl_range_getD]
  exact hfold _ _


/-! ### non-vacuity: a concrete run of the regenerated code -/

def demoCfg : P256.Config := { CapacityIncrement := 4, RelationCapacityIncrement := 4 }
def demoPool : entityPool := { entities := ⟨#[⟨0#32, 0#32⟩], 4⟩, next := 0#32, available := 0#32, capacityIncrement := 4#32 }
def demoWorld : P256.World := { (default : P256.World) with config := demoCfg, entityPool := demoPool }
def demoDump : EntityDump :=
  { Entities := ⟨#[⟨0#32, 0#32⟩, ⟨1#32, 0#32⟩, ⟨2#32, 3#32⟩, ⟨3#32, 1#32⟩, ⟨2#32, 2#32⟩], 5⟩, Alive := ⟨#[3#32, 1#32], 2⟩,
    Next := 4#32, Available := 2#32 }
def demoAlloc (n : Nat) (_ : Option Nat) (_ : P256.Entity) : Nat × BitVec 32 := (n + 1, BitVec.ofNat 32 n)
abbrev DemoOut := List (Nat × Nat) × List (Nat × Nat) × List Nat
def demoOut : Option DemoOut :=
  (World.LoadEntities demoAlloc (fun _ _ _ => some 0) demoWorld demoDump 0).map (fun r =>
    (r.1.entityPool.entities.arr.toList.map (fun e => (e.id.toNat, e.gen.toNat)),
     r.1.entities.arr.toList.map (fun x => (x.arch.getD 99, x.index.toNat)),
     [r.1.entityPool.entities.cap, r.1.targetEntities.data.arr.size, r.2]))

/-- five dumped entities, two alive (ids 3 and 1, allocated in that order): capacity 8, index rows 0 and 1
    (99 stands for the nil archetype pointer of entities that are not alive) -/
def demoExpected : Option DemoOut := some ([(0, 0), (1, 0), (2, 3), (3, 1), (2, 2)],
    [(99, 0), (0, 1), (99, 0), (0, 0), (99, 0)], [8, 1, 2])
theorem demo_run : demoOut = demoExpected := by decide +kernel

theorem demo_wf : WfDump demoDump := by
  constructor <;> · intro k hk; have : k = 0 ∨ k = 1 := by simp [demoDump] at hk; omega
                    rcases this with rfl | rfl <;> decide

/-- a dump whose alive list points outside the entity list is refused -/
theorem demo_bad : World.LoadEntities demoAlloc (fun _ _ _ => some 0) demoWorld { demoDump with Alive := ⟨#[7#32], 1⟩ } 0 = none := by
  decide +kernel

end Arche.Props.C17_Load
