/-
  C18 (companion) — `generic.Exchange` (generic/exchange.go: Removes, Add, Remove, Exchange, ExchangeBatch) REGENERATED from
  the source; the world's ID-based calls are state-threading parameters.

  Every call **is** its documented ID-based equivalent, chosen by the presence of a target argument alone:
  without a target the plain call (`World.Add / Remove / Exchange`, `Batch.Exchange`) — whether or not the Exchange was
  configured with a relation, so entities that keep their relation component keep their targets —; with a target the
  relation-aware call with the configured relation component, refused when no relation was configured.
-/
import ArcheGen.Gen256

namespace Arche.Props.C18_ExchangeGen
open ArcheGen ArcheGen.P256 ArcheGen.G256

section
variable {Ext : Type}
  (relExchangeF : Ext → Entity → GoSlice (BitVec 8) → GoSlice (BitVec 8) → BitVec 8 → Entity → Ext × Unit)
  (worldAddF : Ext → Entity → GoSlice (BitVec 8) → Ext × Unit) (worldRemoveF : Ext → Entity → GoSlice (BitVec 8) → Ext × Unit)
  (worldExchangeF : Ext → Entity → GoSlice (BitVec 8) → GoSlice (BitVec 8) → Ext × Unit)
  (relExchangeBatchF : Ext → GoAny → GoSlice (BitVec 8) → GoSlice (BitVec 8) → BitVec 8 → Entity → Ext × Int)
  (batchExchangeF : Ext → GoAny → GoSlice (BitVec 8) → GoSlice (BitVec 8) → Ext × Int)
  (toIdsF : Ext → GoSlice GoAny → Ext × GoSlice (BitVec 8))

theorem size_zero (t : GoSlice Entity) (h : t.arr[0]? = none) : decide ((0 : Int) < ((t.size : Nat) : Int)) = false := by
  rw [decide_eq_false_iff_not]
  have hs : t.arr.size = 0 := by
    rcases Nat.eq_zero_or_pos t.arr.size with h0 | h0
    · exact h0
    · simp [Array.getElem?_eq_getElem h0] at h
  unfold GoSlice.size; omega

theorem size_pos (t : GoSlice Entity) (e : Entity) (h : t.arr[0]? = some e) : decide ((0 : Int) < ((t.size : Nat) : Int)) = true := by
  rw [decide_eq_true_eq]
  have hs : 0 < t.arr.size := by
    rcases Nat.eq_zero_or_pos t.arr.size with h0 | h0
    · simp [h0] at h
    · exact h0
  unfold GoSlice.size; omega

/-- `ExchangeBatch(filter)` without a target is `Batch.Exchange(filter, add, remove)` — also for an Exchange configured
    with a relation: the targets of entities that keep the relation component are not touched -/
theorem exchangeBatch_no_target (m : Exchange) (f : GoAny) (t : GoSlice Entity) (ext : Ext) (h : t.arr[0]? = none) :
    Exchange.ExchangeBatch batchExchangeF relExchangeBatchF m f t ext =
      some (m, (batchExchangeF ext f m.add m.remove).1, (batchExchangeF ext f m.add m.remove).2) := by
  unfold Exchange.ExchangeBatch
  simp only [size_zero t h, Bool.false_eq_true, ↓reduceIte, pure, Option.bind_eq_bind, Option.bind_some]

/-- with a target it is `Relations.ExchangeBatch` with the configured relation component, refused without one -/
theorem exchangeBatch_target (m : Exchange) (f : GoAny) (t : GoSlice Entity) (e : Entity) (ext : Ext) (h : t.arr[0]? = some e) :
    Exchange.ExchangeBatch batchExchangeF relExchangeBatchF m f t ext =
      if m.hasRelation = true then
        some (m, (relExchangeBatchF ext f m.add m.remove m.relationID e).1, (relExchangeBatchF ext f m.add m.remove m.relationID e).2)
      else none := by
  unfold Exchange.ExchangeBatch
  cases hr : m.hasRelation <;>
    simp only [size_pos t e h, hr, ↓reduceIte, Bool.not_false, Bool.not_true, Bool.false_eq_true, GoInt.toIndex, GoSlice.get, pure, Option.bind_eq_bind, Option.bind_some] <;>
    simp [h]

theorem add_no_target (m : Exchange) (x : Entity) (t : GoSlice Entity) (ext : Ext) (h : t.arr[0]? = none) :
    Exchange.Add relExchangeF worldAddF m x t ext = some (m, (worldAddF ext x m.add).1) := by
  unfold Exchange.Add
  simp only [size_zero t h, Bool.false_eq_true, ↓reduceIte, pure, Option.bind_eq_bind, Option.bind_some]

theorem add_target (m : Exchange) (x : Entity) (t : GoSlice Entity) (e : Entity) (ext : Ext) (h : t.arr[0]? = some e) :
    Exchange.Add relExchangeF worldAddF m x t ext =
      if m.hasRelation = true then some (m, (relExchangeF ext x m.add default m.relationID e).1) else none := by
  unfold Exchange.Add
  cases hr : m.hasRelation <;>
    simp only [size_pos t e h, hr, ↓reduceIte, Bool.not_false, Bool.not_true, Bool.false_eq_true, GoInt.toIndex, GoSlice.get, pure, Option.bind_eq_bind, Option.bind_some] <;>
    simp [h]

theorem remove_no_target (m : Exchange) (x : Entity) (t : GoSlice Entity) (ext : Ext) (h : t.arr[0]? = none) :
    Exchange.Remove relExchangeF worldRemoveF m x t ext = some (m, (worldRemoveF ext x m.remove).1) := by
  unfold Exchange.Remove
  simp only [size_zero t h, Bool.false_eq_true, ↓reduceIte, pure, Option.bind_eq_bind, Option.bind_some]

theorem remove_target (m : Exchange) (x : Entity) (t : GoSlice Entity) (e : Entity) (ext : Ext) (h : t.arr[0]? = some e) :
    Exchange.Remove relExchangeF worldRemoveF m x t ext =
      if m.hasRelation = true then some (m, (relExchangeF ext x default m.remove m.relationID e).1) else none := by
  unfold Exchange.Remove
  cases hr : m.hasRelation <;>
    simp only [size_pos t e h, hr, ↓reduceIte, Bool.not_false, Bool.not_true, Bool.false_eq_true, GoInt.toIndex, GoSlice.get, pure, Option.bind_eq_bind, Option.bind_some] <;>
    simp [h]

theorem exchange_no_target (m : Exchange) (x : Entity) (t : GoSlice Entity) (ext : Ext) (h : t.arr[0]? = none) :
    Exchange.Exchange relExchangeF worldExchangeF m x t ext = some (m, (worldExchangeF ext x m.add m.remove).1) := by
  unfold Exchange.Exchange
  simp only [size_zero t h, Bool.false_eq_true, ↓reduceIte, pure, Option.bind_eq_bind, Option.bind_some]

theorem exchange_target (m : Exchange) (x : Entity) (t : GoSlice Entity) (e : Entity) (ext : Ext) (h : t.arr[0]? = some e) :
    Exchange.Exchange relExchangeF worldExchangeF m x t ext =
      if m.hasRelation = true then some (m, (relExchangeF ext x m.add m.remove m.relationID e).1) else none := by
  unfold Exchange.Exchange
  cases hr : m.hasRelation <;>
    simp only [size_pos t e h, hr, ↓reduceIte, Bool.not_false, Bool.not_true, Bool.false_eq_true, GoInt.toIndex, GoSlice.get, pure, Option.bind_eq_bind, Option.bind_some] <;>
    simp [h]

/-- `Removes` replaces the list of removed ids by the ids of the given types and touches nothing else -/
theorem removes_eq (m : Exchange) (r : GoSlice GoAny) (ext : Ext) :
    Exchange.Removes toIdsF m r ext = some ({ m with remove := (toIdsF ext r).2 }, (toIdsF ext r).1) := rfl

end
end Arche.Props.C18_ExchangeGen
