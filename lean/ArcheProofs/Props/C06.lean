/-
  C06 — Target death and table recycling never corrupt or leak entities.

  On the model (tied to the Go code by the correspondence on removal outcomes, snapshots,
  relation-filter selections and the hidden table / free-list state):

  * **removal is total.** Removing an alive entity of an unlocked world succeeds whatever the
    entity is — a relation target, a target of its own table, anything (`remove_total`); the
    structural invariant `KInv` (in particular: one active table per (node, target), free lists
    and target maps consistent, retired tables empty) is kept (`remove_kinv`), so nothing is
    retired twice and no free list is corrupted.
  * **nothing else is disturbed.** Every other entity stays in its table with its row content
    (components and values), and *no table changes its target or its component set*
    (`remove_others`): entities pointing to the removed entity keep reporting the now dead
    handle (`child_reports_dead_target`), and stay alive (`remove_others_alive`).
  * **retired storage is empty, reuse starts empty.** A retired table has no rows
    (`retired_table_empty`), no entity is indexed into one (`no_entity_in_retired`); a table
    handed out for a target — new or recycled from the free list — is active, carries exactly
    the requested target and has no rows (`reuse_starts_empty`), and creating it leaves every
    active table and every entity's placement untouched (`reuse_frame`). Hence an entity is
    found under a target only if an operation put it into a table while that table carried
    this target.

  Removal in batches (`Batch.RemoveEntities`) and `Reset` as retirement triggers are covered by
  C08 / C15 and by the correspondence.
-/
import ArcheProofs.Props.C05
import ArcheProofs.Lemmas.Remove

namespace Arche.Props.C06
open Arche Arche.World Arche.Arr Arche.Storage Arche.IndexInv Arche.SameRows Arche.Graph Arche.Closed Arche.TInv Arche.KInv Arche.Move Arche.Remove
open Arche.Props.C01 (At)

/-- removing an alive entity of an unlocked world never fails — also when it is a relation
    target, targets itself, or sits in the table it is the target of -/
theorem remove_total (w : World) (e : Entity) (hl : w.isLocked = false) (ha : w.checkAlive e = none) :
    (w.removeEntity e).out = .ok () := (removeEntity_w w e hl ha).1

/-- everything the removal does, in one statement -/
theorem remove_spec (w : World) (e : Entity) (hK : KInv w) (hl : w.isLocked = false) (ha : w.checkAlive e = none)
    (hloc : loc w e.id = some (w.locOf e)) (he : (rowAt w (w.locOf e).tbl (w.locOf e).row).ent = e) :
    KInv (w.removeEntity e).w ∧ loc (w.removeEntity e).w e.id = none ∧
    (∀ id, id ≠ e.id → ∀ l0, loc w id = some l0 →
      ∃ l', loc (w.removeEntity e).w id = some l' ∧ l'.tbl = l0.tbl ∧
        rowAt (w.removeEntity e).w l'.tbl l'.row = rowAt w l0.tbl l0.row) ∧
    (∀ t, ((w.removeEntity e).w.tableOf t).target = (w.tableOf t).target ∧ ((w.removeEntity e).w.tableOf t).node = (w.tableOf t).node) ∧
    (w.removeEntity e).w.tables.size = w.tables.size ∧ (w.removeEntity e).w.nodes.size = w.nodes.size ∧
    (w.removeEntity e).w.pool = w.pool.recycle e ∧
    (∀ t, t < w.tables.size → (w.removeEntity e).w.tableRel t = w.tableRel t ∧ (w.removeEntity e).w.tableMask t = w.tableMask t ∧
      (w.removeEntity e).w.tableIds t = w.tableIds t) := by
  obtain ⟨_, lk, hw⟩ := removeEntity_w w e hl ha
  rw [hw]
  have hK' : KInv ({ w with locks := lk } : World) := kinv_congr (w := w) rfl rfl rfl hK
  exact removeCore_spec ({ w with locks := lk } : World) e (w.locOf e) hK' hloc he

theorem remove_kinv (w : World) (e : Entity) (hK : KInv w) (hl : w.isLocked = false) (ha : w.checkAlive e = none)
    (hloc : loc w e.id = some (w.locOf e)) (he : (rowAt w (w.locOf e).tbl (w.locOf e).row).ent = e) :
    KInv (w.removeEntity e).w := (remove_spec w e hK hl ha hloc he).1

/-- the removed entity is gone from the index, and its handle is recycled -/
theorem remove_gone (w : World) (e : Entity) (hK : KInv w) (hl : w.isLocked = false) (ha : w.checkAlive e = none)
    (hloc : loc w e.id = some (w.locOf e)) (he : (rowAt w (w.locOf e).tbl (w.locOf e).row).ent = e) :
    loc (w.removeEntity e).w e.id = none ∧ (w.removeEntity e).w.pool = w.pool.recycle e :=
  ⟨(remove_spec w e hK hl ha hloc he).2.1, (remove_spec w e hK hl ha hloc he).2.2.2.2.2.2.1⟩

/-- **children keep the dead target; nothing else is disturbed**: every other entity stays in
    its table with the same row content, and its table has the same target, relation and
    component set as before -/
theorem remove_others (w : World) (e : Entity) (hK : KInv w) (hl : w.isLocked = false) (ha : w.checkAlive e = none)
    (hloc : loc w e.id = some (w.locOf e)) (he : (rowAt w (w.locOf e).tbl (w.locOf e).row).ent = e)
    (id t : Nat) (row : Row) (hid : id ≠ e.id) (hat : At w id t row) :
    At (w.removeEntity e).w id t row ∧
    ((w.removeEntity e).w.tableOf t).target = (w.tableOf t).target ∧
    (w.removeEntity e).w.tableRel t = w.tableRel t ∧ (w.removeEntity e).w.tableMask t = w.tableMask t ∧
    (w.removeEntity e).w.tableIds t = w.tableIds t := by
  obtain ⟨_, _, hoth, hf, _, _, _, hmeta⟩ := remove_spec w e hK hl ha hloc he
  obtain ⟨l0, h1, h2, h3⟩ := hat
  obtain ⟨l', a, b, c⟩ := hoth id hid l0 h1
  have hv := (hK.idx.fwd id l0 h1).1
  rw [h2] at hv
  exact ⟨⟨l', a, b.trans h2, c.trans h3⟩, (hf t).1, hmeta t hv.1⟩

theorem alive?_recycle_other (p : Pool) (e c : Entity) (h : c.id ≠ e.id) : (p.recycle e).alive? c = p.alive? c := by
  unfold Pool.alive? Pool.recycle
  simp only [Array.size_setIfInBounds]
  split
  · rename_i hlt
    have : (p.ents.setIfInBounds e.id { id := p.next, gen := (p.ents.getD e.id default).gen + 1 })[c.id]'(by rw [Array.size_setIfInBounds]; exact hlt) = p.ents[c.id] := by
      rw [Array.getElem_setIfInBounds]
      · simp [Ne.symm h]
      · exact hlt
    rw [this]
  · rfl

/-- entities other than the removed one stay alive -/
theorem remove_others_alive (w : World) (e c : Entity) (hK : KInv w) (hl : w.isLocked = false) (ha : w.checkAlive e = none)
    (hloc : loc w e.id = some (w.locOf e)) (he : (rowAt w (w.locOf e).tbl (w.locOf e).row).ent = e)
    (hc : c.id ≠ e.id) : (w.removeEntity e).w.checkAlive c = w.checkAlive c := by
  unfold checkAlive
  rw [(remove_gone w e hK hl ha hloc he).2, alive?_recycle_other _ _ _ hc]

/-- an entity whose relation target is removed keeps reporting that (now dead) handle:
    `Relations.Get` answers exactly as before, for every other entity and every component -/
theorem child_reports_dead_target (w : World) (e c : Entity) (comp : CompId) (hK : KInv w) (hl : w.isLocked = false)
    (ha : w.checkAlive e = none) (hloc : loc w e.id = some (w.locOf e)) (he : (rowAt w (w.locOf e).tbl (w.locOf e).row).ent = e)
    (hc : c.id ≠ e.id) (hcl : loc w c.id = some (w.locOf c)) :
    ((w.removeEntity e).w.getRelation c comp).out = (w.getRelation c comp).out := by
  obtain ⟨_, _, hoth, hf, _, _, _, hmeta⟩ := remove_spec w e hK hl ha hloc he
  obtain ⟨l', a, b, _⟩ := hoth c.id hc _ hcl
  have hv := (hK.idx.fwd c.id _ hcl).1
  have hloc' : (w.removeEntity e).w.locOf c = l' := by
    unfold locOf; unfold loc at a; rw [a]; rfl
  unfold getRelation
  rw [remove_others_alive w e c hK hl ha hloc he hc]
  cases w.checkAlive c with
  | some p => rfl
  | none =>
    simp only [hloc']
    have hrel : (w.removeEntity e).w.checkRelation l'.tbl comp = w.checkRelation (w.locOf c).tbl comp := by
      unfold checkRelation
      have h1 := (hmeta _ hv.1).1
      have h2 := (hmeta _ hv.1).2.1
      unfold tableRel at h1
      unfold tableMask at h2
      simp only [b, h1, h2]
    rw [hrel]
    cases w.checkRelation (w.locOf c).tbl comp with
    | some p => rfl
    | none => simp only [b, (hf _).1]

/-! ## retired tables and their reuse -/

/-- a retired table holds no rows -/
theorem retired_table_empty (w : World) (hK : KInv w) (t : Nat) (ht : t < w.tables.size) (h : (w.tableOf t).active = false) :
    (w.tableOf t).rows = #[] := hK.tgt.empty t ht h

/-- no entity is indexed into a retired table -/
theorem no_entity_in_retired (w : World) (hK : KInv w) (id : Nat) (l : Loc) (h : loc w id = some l) :
    (w.tableOf l.tbl).active = true := by
  have hv := (hK.idx.fwd id l h).1
  cases hact : (w.tableOf l.tbl).active
  · have := hK.tgt.empty l.tbl hv.1 hact
    unfold validRow at hv; rw [this] at hv; exact absurd hv.2 (by simp)
  · rfl

/-- every table listed in a node's free list is retired and empty -/
theorem free_list_retired (w : World) (hK : KInv w) (n : Nat) (hn : n < w.nodes.size) (k : Nat) (hk : k ∈ (w.nodeOf n).free) :
    (w.tableOf ((w.nodeOf n).tables.getD k 0)).active = false ∧ (w.tableOf ((w.nodeOf n).tables.getD k 0)).rows = #[] := by
  have h1 := hK.tgt.free n hn k hk
  have hklt := hK.node.free n hn k hk
  exact ⟨h1, hK.tgt.empty _ (hK.node.tables n hn k hklt).1 h1⟩

/-- the table handed out by `createTable` — new, or recycled from the node's free list — is
    active, carries exactly the requested target (zero for a node without relation) and has no
    rows: storage reused for a different target starts empty -/
theorem reuse_starts_empty (w : World) (hK : KInv w) (n : Nat) (hn : n < w.nodes.size) (target : Entity) (fs : Bool)
    (hfresh : (w.nodeOf n).rel.isSome = true → assocGet (w.nodeOf n).tmap target = none)
    (hempty : (w.nodeOf n).rel.isSome = false → (w.nodeOf n).tables.size = 0) :
    ((w.createTable n target fs).1.tableOf (w.createTable n target fs).2).active = true ∧
    ((w.createTable n target fs).1.tableOf (w.createTable n target fs).2).target =
      (if (w.nodeOf n).rel.isSome then target else Entity.zero) ∧
    ((w.createTable n target fs).1.tableOf (w.createTable n target fs).2).rows = #[] :=
  (tinv_createTable w hK.tgt hK.node n hn target fs hfresh hempty).2

/-- creating / reusing a table leaves every active table as it was and every entity where it
    was, with its row content -/
theorem reuse_frame (w : World) (hK : KInv w) (n : Nat) (hn : n < w.nodes.size) (target : Entity) (fs : Bool)
    (hempty : (w.nodeOf n).rel.isSome = false → (w.nodeOf n).tables.size = 0) :
    (∀ t, t < w.tables.size → (w.tableOf t).active = true → (w.createTable n target fs).1.tableOf t = w.tableOf t) ∧
    (∀ id t row, At w id t row → At (w.createTable n target fs).1 id t row) := by
  refine ⟨fun t ht hact => createTable_frame w hK.tgt hK.node n hn target fs t ht hact, ?_⟩
  intro id t row hat
  exact C01.at_of_sameRows (createTable_spec w hK.node n hn target fs hempty).1 hK.idx id t row hat

/-! ## non-vacuity: a world with a self-targeting entity and a child of a dead target -/

/-- masks: component 0 is a relation; e1 targets itself, e2 is a child of e1; removing e1
    succeeds, e2 survives and still reports e1 -/
example :
    let w0 := World.init ⟨4, 0, 8⟩
    let w1 := (w0.registerComponent true false).w
    let w2 := (w1.newEntity [0]).w          -- e1 = ⟨1,0⟩
    let w3 := (w2.newEntity [0]).w          -- e2 = ⟨2,0⟩
    let w4 := (w3.setRelation ⟨1, 0⟩ 0 ⟨1, 0⟩).w   -- e1 targets itself
    let w5 := (w4.setRelation ⟨2, 0⟩ 0 ⟨1, 0⟩).w   -- e2 targets e1
    let r := w5.removeEntity ⟨1, 0⟩
    (match r.out with | .ok _ => true | .error _ => false) = true ∧
    (match (r.w.getRelation ⟨2, 0⟩ 0).out with | .ok t => t == ⟨1, 0⟩ | .error _ => false) = true ∧
    r.w.alive ⟨1, 0⟩ = false ∧ r.w.alive ⟨2, 0⟩ = true := by
  decide +kernel

end Arche.Props.C06
