/-
  C14 — Components holding pointers are safe under garbage collection: the part a sequential
  value-level model can carry (GC timing, write barriers and escape analysis are explored by the
  GC arms, not proved — DESIGN §8).

  What the storage *retains* is decided by logic, and that logic is proved here:

  * **column buffers** (ArcheModel.Buffer, mirroring `archetype.Alloc / AllocN / Remove / Reset /
    extend / Zero`): for every sequence of operations the slack of a buffer — every slot at or
    beyond `len` — is zero (`slackZero_*`, `run_slackZero`): a removed or reset component's slot no
    longer holds its value, so the storage keeps nothing alive that no live slot holds
    (`retained_is_live`); and a newly allocated slot reads as the zero value although `Alloc`
    does not write it (`alloc_reads_zero`) — this discharges, on the buffer model, the
    assumption of the row model that new rows are zero.
  * **the row model is the abstraction of the buffer model** (`live_*`): the slots in use after
    `alloc` / `set` / `remove` / `reset` / `extend` are the row model's push-zero / set /
    swap-remove / clear / unchanged — values of live slots are never disturbed by growth or by
    other slots' removal except for the documented swap.
  * **at world level** (with C01_Reach): in every reachable world every stored row belongs to a
    live entity (`stored_rows_live`), i.e. the storage holds component values of alive entities
    only; values are preserved by every move (C01.exchange_values, C05_SetRel, C08).
  The Go buffers are tied to this model by the invariant monitor of the `verif` hook
  (`VerifCheckInvariants` scans the raw buffers of every table, live or retired, for non-zero
  slack) on every `inv` operation of the correspondence, and by the value comparison.
-/
import ArcheModel.Buffer
import ArcheProofs.Props.C03_Match

namespace Arche.Props.C14
open Arche Arche.Col

/-- slots at or beyond `len` are zero, and `len` fits the buffer -/
structure SlackZero (c : Col) : Prop where
  fits : c.len ≤ c.buf.size
  zero : ∀ i, c.len ≤ i → i < c.buf.size → c.buf.getD i 0 = 0

theorem slackZero_empty : SlackZero Col.empty := ⟨Nat.le_refl _, fun i _ h => by simp [Col.empty] at h⟩

theorem getD_append_replicate (a : Array Val) (n i : Nat) :
    (a ++ Array.replicate n 0).getD i 0 = if i < a.size then a.getD i 0 else 0 := by
  rw [Array.getD_eq_getD_getElem?, Array.getD_eq_getD_getElem?]
  by_cases h : i < a.size
  · rw [if_pos h, Array.getElem?_append_left h]
  · rw [if_neg h, Array.getElem?_append_right (by omega)]
    by_cases h2 : i - a.size < n
    · simp [h2]
    · rw [Array.getElem?_eq_none (by simp; omega)]; rfl

theorem capOf_ge (size inc : Nat) (h : 0 < inc) : size ≤ capOf size inc := by
  unfold capOf
  simp only []
  have h1 := Nat.div_add_mod size inc
  have h2 := Nat.mod_lt size h
  split
  · have : inc * (size / inc) + inc ≥ size := by omega
    exact this
  · rename_i hz
    simp only [bne_iff_ne, ne_eq, Decidable.not_not] at hz
    omega

theorem extend_spec (c : Col) (capInc by_ : Nat) (hi : 0 < capInc) (h : SlackZero c) :
    SlackZero (c.extend capInc by_) ∧ (c.extend capInc by_).len = c.len ∧ c.len + by_ ≤ (c.extend capInc by_).buf.size ∧
    (∀ i, i < c.buf.size → (c.extend capInc by_).buf.getD i 0 = c.buf.getD i 0) ∧
    (∀ i, c.buf.size ≤ i → (c.extend capInc by_).buf.getD i 0 = 0) ∧ c.buf.size ≤ (c.extend capInc by_).buf.size := by
  unfold Col.extend
  simp only []
  split
  · rename_i hge
    refine ⟨h, rfl, hge, fun _ _ => rfl, ?_, Nat.le_refl _⟩
    intro i hi'
    rw [Array.getD_eq_getD_getElem?, Array.getElem?_eq_none hi']; rfl
  · rename_i hlt
    have hcap := capOf_ge (c.len + by_) capInc hi
    refine ⟨⟨?_, ?_⟩, rfl, ?_, ?_, ?_, ?_⟩
    · simp only [Array.size_append, Array.size_replicate]; have := h.fits; omega
    · intro i h1 _
      rw [getD_append_replicate]
      by_cases hlt' : i < c.buf.size
      · rw [if_pos hlt']; exact h.zero i h1 hlt'
      · rw [if_neg hlt']
    · simp only [Array.size_append, Array.size_replicate]; omega
    · intro i hi'; rw [getD_append_replicate, if_pos hi']
    · intro i hi'; rw [getD_append_replicate, if_neg (by omega)]
    · simp only [Array.size_append, Array.size_replicate]; omega

/-- a newly allocated slot reads as zero, although `Alloc` does not write it -/
theorem alloc_reads_zero (c : Col) (capInc : Nat) (hi : 0 < capInc) (h : SlackZero c) :
    SlackZero (c.alloc capInc).1 ∧ (c.alloc capInc).2 = c.len ∧ (c.alloc capInc).1.len = c.len + 1 ∧
    (c.alloc capInc).1.buf.getD c.len 0 = 0 ∧
    (∀ i, i < c.len → (c.alloc capInc).1.buf.getD i 0 = c.buf.getD i 0) := by
  obtain ⟨e1, e2, e3, e4, e5, e6⟩ := extend_spec c capInc 1 hi h
  unfold Col.alloc
  simp only []
  refine ⟨⟨by show (c.extend capInc 1).len + 1 ≤ _; rw [e2]; omega, ?_⟩, by first | rfl | trivial, by show (c.extend capInc 1).len + 1 = _; rw [e2], ?_, ?_⟩
  · intro i h1 h2
    have h1' : (c.extend capInc 1).len + 1 ≤ i := h1
    exact e1.zero i (by omega) h2
  · by_cases hlt : c.len < c.buf.size
    · rw [e4 _ hlt]; exact h.zero _ (Nat.le_refl _) hlt
    · exact e5 _ (by omega)
  · intro i hlt
    exact e4 i (Nat.lt_of_lt_of_le hlt h.fits)

theorem allocN_spec (c : Col) (capInc n : Nat) (hi : 0 < capInc) (h : SlackZero c) :
    SlackZero (c.allocN capInc n) ∧ (c.allocN capInc n).len = c.len + n ∧
    (∀ i, c.len ≤ i → i < c.len + n → (c.allocN capInc n).buf.getD i 0 = 0) ∧
    (∀ i, i < c.len → (c.allocN capInc n).buf.getD i 0 = c.buf.getD i 0) := by
  obtain ⟨e1, e2, e3, e4, e5, e6⟩ := extend_spec c capInc n hi h
  unfold Col.allocN
  simp only []
  refine ⟨⟨by show (c.extend capInc n).len + n ≤ _; rw [e2]; exact e3, ?_⟩, by show (c.extend capInc n).len + n = _; rw [e2], ?_, ?_⟩
  · intro i h1 h2
    have h1' : (c.extend capInc n).len + n ≤ i := h1
    exact e1.zero i (by omega) h2
  · intro i h1 _
    by_cases hlt : i < c.buf.size
    · rw [e4 _ hlt]; exact h.zero _ h1 hlt
    · exact e5 _ (by omega)
  · intro i hlt
    exact e4 i (Nat.lt_of_lt_of_le hlt h.fits)

theorem set_spec (c : Col) (i : Nat) (v : Val) (hi : i < c.len) (h : SlackZero c) :
    SlackZero (c.set i v) ∧ (c.set i v).len = c.len ∧ (c.set i v).buf.getD i 0 = v ∧
    (∀ j, j ≠ i → (c.set i v).buf.getD j 0 = c.buf.getD j 0) := by
  unfold Col.set
  simp only []
  have hlt : i < c.buf.size := Nat.lt_of_lt_of_le hi h.fits
  refine ⟨⟨by simp; exact h.fits, ?_⟩, by first | rfl | trivial, ?_, ?_⟩
  · intro j h1 h2
    simp only [Array.size_setIfInBounds] at h1 h2
    rw [Arr.getD_set]
    by_cases hc : i = j ∧ i < c.buf.size
    · omega
    · rw [if_neg hc]; exact h.zero j h1 h2
  · rw [Arr.getD_set]; simp [hlt]
  · intro j hne; rw [Arr.getD_set]; rw [if_neg (fun hc => hne hc.1.symm)]

/-- `Remove`: the vacated last slot is zeroed; the removed index holds the former last value -/
theorem remove_spec (c : Col) (i : Nat) (hi : i < c.len) (h : SlackZero c) :
    SlackZero (c.remove i) ∧ (c.remove i).len = c.len - 1 ∧
    (∀ j, j < c.len - 1 → (c.remove i).buf.getD j 0 = if j = i then c.buf.getD (c.len - 1) 0 else c.buf.getD j 0) ∧
    (c.remove i).buf.getD (c.len - 1) 0 = 0 := by
  have hfit := h.fits
  have hold : c.len - 1 < c.buf.size := by omega
  unfold Col.remove
  simp only []
  by_cases hlast : i = c.len - 1
  · have : (i != c.len - 1) = false := by simp [hlast]
    simp only [this, Bool.false_eq_true, ↓reduceIte]
    refine ⟨⟨by simp; omega, ?_⟩, by first | rfl | trivial, ?_, ?_⟩
    · intro j h1 h2
      simp only [Array.size_setIfInBounds] at h1 h2
      rw [Arr.getD_set]
      by_cases hj : j = c.len - 1
      · rw [if_pos ⟨hj.symm, hold⟩]
      · rw [if_neg (fun hc => hj hc.1.symm)]
        exact h.zero j (by omega) h2
    · intro j hj
      rw [Arr.getD_set, if_neg (fun hc => by omega)]
      rw [if_neg (by omega)]
    · rw [Arr.getD_set]; simp [hold]
  · have : (i != c.len - 1) = true := by simp [hlast]
    simp only [this, ↓reduceIte]
    have hilt : i < c.buf.size := by omega
    refine ⟨⟨by simp; omega, ?_⟩, by first | rfl | trivial, ?_, ?_⟩
    · intro j h1 h2
      simp only [Array.size_setIfInBounds] at h1 h2
      rw [Arr.getD_set]
      by_cases hj : j = c.len - 1
      · rw [if_pos ⟨hj.symm, by simp; exact hold⟩]
      · rw [if_neg (fun hc => hj hc.1.symm), Arr.getD_set, if_neg (fun hc2 => by omega)]
        exact h.zero j (by omega) h2
    · intro j hj
      rw [Arr.getD_set, if_neg (fun hc => by omega), Arr.getD_set]
      by_cases hji : j = i
      · rw [if_pos ⟨hji.symm, hilt⟩, if_pos hji]
      · rw [if_neg (fun hc => hji hc.1.symm), if_neg hji]
    · rw [Arr.getD_set]; simp [hold]

theorem reset_spec (c : Col) (h : SlackZero c) :
    SlackZero c.reset ∧ c.reset.len = 0 ∧ ∀ i, c.reset.buf.getD i 0 = 0 := by
  unfold Col.reset
  split
  · rename_i hz
    have hz' : c.len = 0 := by simpa using hz
    refine ⟨h, hz', ?_⟩
    intro i
    by_cases hi : i < c.buf.size
    · exact h.zero i (by omega) hi
    · rw [Array.getD_eq_getD_getElem?, Array.getElem?_eq_none (by omega)]; rfl
  · refine ⟨⟨Nat.zero_le _, ?_⟩, rfl, ?_⟩
    · intro i _ _
      rw [Array.getD_eq_getD_getElem?]
      by_cases hi : i < c.buf.size <;> simp [hi]
    · intro i
      rw [Array.getD_eq_getD_getElem?]
      by_cases hi : i < c.buf.size <;> simp [hi]

/-! ## the buffer's capacity is the `cap` the world model tracks (and the hook reports) -/

theorem capOf_eq_capacity (size inc : Nat) : Col.capOf size inc = Arche.capacity size inc := rfl

/-- a column whose length and capacity agree with a table of the world model keeps agreeing
    through `extend` (hence through `Alloc` / `AllocN`): the capacities compared with the
    implementation on every `shape` observation are the sizes of these buffers -/
theorem extend_cap (c : Col) (t : Table) (capInc by_ : Nat) (hi : 0 < capInc) (hl : c.len = t.rows.size) (hc : c.buf.size = t.cap)
    (hfit : c.len ≤ c.buf.size) :
    (c.extend capInc by_).buf.size = (t.extend capInc by_).cap := by
  unfold Col.extend Table.extend
  simp only []
  rw [hl, hc]
  split
  · exact hc
  · rename_i hlt
    simp only [Array.size_append, Array.size_replicate]
    have := capOf_ge (t.rows.size + by_) capInc hi
    rw [capOf_eq_capacity] at *
    omega

/-! ## the row model is the abstraction of the buffer model -/

theorem live_size (c : Col) (h : SlackZero c) : c.live.size = c.len := by
  unfold Col.live; simp; exact Nat.min_eq_left h.fits

theorem live_getD (c : Col) (h : SlackZero c) (i : Nat) : c.live.getD i 0 = if i < c.len then c.buf.getD i 0 else 0 := by
  unfold Col.live
  rw [Array.getD_eq_getD_getElem?, Array.getD_eq_getD_getElem?]
  by_cases hi : i < c.len
  · rw [if_pos hi]
    have : i < c.buf.size := Nat.lt_of_lt_of_le hi h.fits
    have hm : i < min c.len c.buf.size := by rw [Nat.min_eq_left h.fits]; exact hi
    simp [Array.getElem?_extract, hm, this]
  · rw [if_neg hi, Array.getElem?_eq_none (by simp; omega)]; rfl

/-- `Alloc` is "push a zero row" on the slots in use -/
theorem live_alloc (c : Col) (capInc : Nat) (hi : 0 < capInc) (h : SlackZero c) : (c.alloc capInc).1.live = c.live.push 0 := by
  obtain ⟨a1, _, a3, a4, a5⟩ := alloc_reads_zero c capInc hi h
  apply Array.ext
  · rw [live_size _ a1, a3, Array.size_push, live_size c h]
  · intro i h1 h2
    have e1 := live_getD _ a1 i
    rw [Array.getD_eq_getD_getElem?, Array.getElem?_eq_getElem h1] at e1
    simp only [Option.getD_some] at e1
    rw [e1, a3]
    rw [live_size _ a1, a3] at h1
    rw [if_pos h1, Array.getElem_push]
    by_cases hlt : i < c.len
    · have hsz : i < c.live.size := by rw [live_size c h]; exact hlt
      rw [dif_pos hsz, a5 i hlt]
      have e2 := live_getD c h i
      rw [Array.getD_eq_getD_getElem?, Array.getElem?_eq_getElem hsz] at e2
      simp only [Option.getD_some] at e2
      rw [e2, if_pos hlt]
    · have hsz : ¬ i < c.live.size := by rw [live_size c h]; exact hlt
      rw [dif_neg hsz]
      have : i = c.len := by omega
      rw [this]; exact a4

/-- `Reset` leaves no slot in use -/
theorem live_reset (c : Col) (h : SlackZero c) : c.reset.live = #[] := by
  obtain ⟨r1, r2, _⟩ := reset_spec c h
  apply Array.eq_empty_of_size_eq_zero
  rw [live_size _ r1, r2]

/-- a write changes exactly the addressed slot in use -/
theorem live_set (c : Col) (i : Nat) (v : Val) (hi : i < c.len) (h : SlackZero c) : (c.set i v).live = c.live.setIfInBounds i v := by
  obtain ⟨s1, s2, s3, s4⟩ := set_spec c i v hi h
  apply Array.ext
  · rw [live_size _ s1, s2, Array.size_setIfInBounds, live_size c h]
  · intro j h1 h2
    have hsz : j < c.live.size := by rw [Array.size_setIfInBounds] at h2; exact h2
    have e1 := live_getD _ s1 j
    rw [Array.getD_eq_getD_getElem?, Array.getElem?_eq_getElem h1] at e1
    simp only [Option.getD_some] at e1
    rw [live_size _ s1, s2] at h1
    rw [e1, s2, if_pos h1, Array.getElem_setIfInBounds]
    by_cases hji : i = j
    · rw [if_pos hji, ← hji]; exact s3
    · rw [if_neg hji, s4 j (fun hc => hji hc.symm)]
      have e2 := live_getD c h j
      rw [Array.getD_eq_getD_getElem?, Array.getElem?_eq_getElem hsz] at e2
      simp only [Option.getD_some] at e2
      rw [e2, if_pos h1]
    · exact hsz

/-- `Remove` is the swap-removal of the row model on the slots in use -/
theorem live_remove (c : Col) (i : Nat) (hi : i < c.len) (h : SlackZero c) :
    (c.remove i).live = (c.live.setIfInBounds i (c.live.getD (c.len - 1) 0)).pop := by
  obtain ⟨r1, r2, r3, _⟩ := remove_spec c i hi h
  apply Array.ext
  · rw [live_size _ r1, r2, Array.size_pop, Array.size_setIfInBounds, live_size c h]
  · intro j h1 h2
    have hsz : j < c.live.size := by rw [Array.size_pop, Array.size_setIfInBounds] at h2; omega
    have e1 := live_getD _ r1 j
    rw [Array.getD_eq_getD_getElem?, Array.getElem?_eq_getElem h1] at e1
    simp only [Option.getD_some] at e1
    rw [live_size _ r1, r2] at h1
    rw [e1, r2, if_pos h1, r3 j h1, Array.getElem_pop, Array.getElem_setIfInBounds]
    have hlast := live_getD c h (c.len - 1)
    rw [if_pos (by omega)] at hlast
    by_cases hji : j = i
    · rw [if_pos hji, if_pos hji.symm, hlast]
    · rw [if_neg hji, if_neg (fun hc => hji hc.symm)]
      have e2 := live_getD c h j
      rw [Array.getD_eq_getD_getElem?, Array.getElem?_eq_getElem hsz] at e2
      simp only [Option.getD_some] at e2
      rw [e2, if_pos (by omega)]
    · exact hsz

/-! ## every history of a column -/

inductive COp where
  | alloc | allocN (n : Nat) | set (i : Nat) (v : Val) | remove (i : Nat) | reset | extend (by_ : Nat)

/-- the operations as the world issues them: writes and removals address slots in use -/
def step (capInc : Nat) (c : Col) : COp → Col
  | .alloc => (c.alloc capInc).1
  | .allocN n => c.allocN capInc n
  | .set i v => if i < c.len then c.set i v else c
  | .remove i => if i < c.len then c.remove i else c
  | .reset => c.reset
  | .extend b => c.extend capInc b

/-- **for every history of a column, the slack is zero** -/
theorem run_slackZero (capInc : Nat) (hi : 0 < capInc) (ops : List COp) : SlackZero (ops.foldl (step capInc) Col.empty) := by
  have : ∀ (ops : List COp) (c : Col), SlackZero c → SlackZero (ops.foldl (step capInc) c) := by
    intro ops
    induction ops with
    | nil => intro c h; exact h
    | cons op ops ih =>
      intro c h
      simp only [List.foldl_cons]
      apply ih
      cases op with
      | alloc => exact (alloc_reads_zero c capInc hi h).1
      | allocN n => exact (allocN_spec c capInc n hi h).1
      | set i v =>
        show SlackZero (if i < c.len then c.set i v else c)
        by_cases hlt : i < c.len
        · rw [if_pos hlt]; exact (set_spec c i v hlt h).1
        · rw [if_neg hlt]; exact h
      | remove i =>
        show SlackZero (if i < c.len then c.remove i else c)
        by_cases hlt : i < c.len
        · rw [if_pos hlt]; exact (remove_spec c i hlt h).1
        · rw [if_neg hlt]; exact h
      | reset => exact (reset_spec c h).1
      | extend b => exact (extend_spec c capInc b hi h).1
  exact this ops _ slackZero_empty

/-- what the buffer retains is held by a slot in use: a value different from the zero value
    sits below `len` — removed, reset and never-written slots reference nothing -/
theorem retained_is_live (c : Col) (h : SlackZero c) (i : Nat) (hi : i < c.buf.size) (hv : c.buf.getD i 0 ≠ 0) : i < c.len := by
  apply Classical.byContradiction
  intro hn
  exact hv (h.zero i (by omega) hi)

/-! ## at world level -/

/-- in every reachable world every stored row belongs to a live entity: the storage holds
    component values of alive entities only -/
theorem stored_rows_live {w : World} {is lv : List Entity} (h : Arche.Props.C01.Reach.Reach w is lv) (t r : Nat)
    (ht : t < w.tables.size) (hr : r < (w.tableOf t).rows.size) :
    Arche.Props.C03.Match.entAt w (t, r) ∈ lv :=
  (Arche.Props.C03.Match.position_agrees w is lv (Arche.Props.C01.Reach.reach_ginv h) t r ht hr).2.1

/-- non-vacuity: a history with growth, swap-removal of a middle slot and a reset -/
example :
    let c := [COp.alloc, .set 0 7, .alloc, .set 1 8, .alloc, .set 2 9, .remove 0, .alloc].foldl (step 2) Col.empty
    (c.buf.toList, c.len) = ([9, 8, 0, 0], 3) := by decide

end Arche.Props.C14
