/-
  C09 — World lock: held exactly while queries are open; blocks every structural change.

  * the lock bit pool and lock mask (ecs/pool.go bitPool, ecs/util.go lockMask) are modelled
    field for field; for every sequence of lock/unlock operations the invariant holds: each
    lock hands out a bit not currently held, a held bit is released exactly once (a second
    release is the `unbalanced` panic), the world is locked iff some bit is held, and up to
    `MaskTotalBits` locks can be held at a time;
  * the extracted field widths suffice for `MaskTotalBits` locks (`width_ok`; finding F11 was
    the failure of exactly this obligation);
  * every structural operation of the model on a locked world panics and returns the world
    unchanged (`locked_rejects_*`);
  * regenerated facts: every exported entry point of package `ecs` is classified, and every
    one classified structural has a lock guard on every path (`all_guarded`).
-/
import ArcheModel.Ops
import ArcheGen.Facts
import ArcheProofs.Props.C04
import ArcheProofs.Lemmas.Arr
import ArcheProofs.Lemmas.NatMask

namespace Arche.Props.C09
open Arche Arche.Arr Arche.NatMask

/-! ## the bit pool -/

def Linked (p : BitPool) : Nat → List Nat → Prop
  | _, [] => True
  | nx, f :: fs => nx = f ∧ Linked p (p.bits.getD f 0) fs

theorem linked_frame (p p' : BitPool) (fs : List Nat) (nx : Nat)
    (h : ∀ f ∈ fs, p'.bits.getD f 0 = p.bits.getD f 0) : Linked p nx fs → Linked p' nx fs := by
  induction fs generalizing nx with
  | nil => intro _; trivial
  | cons f fs ih =>
    intro ⟨h1, h2⟩
    refine ⟨h1, ?_⟩
    rw [h f (List.mem_cons_self)]
    exact ih _ (fun g hg => h g (List.mem_cons_of_mem _ hg)) h2

structure PInv (p : BitPool) (held free : List Nat) : Prop where
  len_le : p.length ≤ p.bits.size
  free_nodup : free.Nodup
  free_range : ∀ f ∈ free, f < p.length
  linked : Linked p p.next free
  avail : p.available = free.length
  held_nodup : held.Nodup
  held_iff : ∀ b, b ∈ held ↔ (b < p.length ∧ b ∉ free)

theorem pinv_init (total : Nat) : PInv (BitPool.init total) [] [] := by
  refine ⟨by simp [BitPool.init], List.nodup_nil, by simp, trivial, rfl, List.nodup_nil, ?_⟩
  intro b; simp [BitPool.init]

/-- counting: held and free bits partition `0 … length-1` -/
theorem pinv_count (p : BitPool) (held free : List Nat) (h : PInv p held free) :
    held.length + free.length = p.length := by
  have hperm : (held ++ free).Perm (List.range' 0 p.length) := by
    rw [List.perm_ext_iff_of_nodup]
    · intro i
      simp only [List.mem_append, h.held_iff, List.mem_range'_1]
      constructor
      · intro hh
        rcases hh with hh | hh
        · omega
        · have := h.free_range i hh; omega
      · intro hh
        by_cases hf : i ∈ free
        · exact Or.inr hf
        · exact Or.inl ⟨by omega, hf⟩
    · rw [List.nodup_append]
      refine ⟨h.held_nodup, h.free_nodup, ?_⟩
      intro a ha b hb hab; subst hab
      exact ((h.held_iff a).1 ha).2 hb
    · exact List.nodup_range' 1
  have := hperm.length_eq
  simpa using this

/-- `bitPool.Get`: succeeds iff fewer than `total` bits are held, and then returns a bit that
    is not currently held. -/
theorem get_spec (p : BitPool) (held free : List Nat) (h : PInv p held free) :
    (held.length < p.bits.size → ∃ p' b free', p.get = some (p', b) ∧ PInv p' (b :: held) free' ∧ b ∉ held ∧ b < p.bits.size ∧ p'.bits.size = p.bits.size) ∧
    (held.length = p.bits.size → p.get = none) := by
  have hcount := pinv_count p held free h
  unfold BitPool.get
  by_cases ha : p.available = 0
  · have hfree : free = [] := by
      have := h.avail; rw [ha] at this; exact List.length_eq_zero_iff.1 this.symm
    subst hfree
    simp only [ha, beq_self_eq_true, ↓reduceIte, List.length_nil, Nat.add_zero] at hcount ⊢
    constructor
    · intro hlt
      have hl : ¬ p.length ≥ p.bits.size := by omega
      simp only [hl, ↓reduceIte]
      have hnh : p.length ∉ held := by
        intro hm; have := ((h.held_iff _).1 hm).1; omega
      refine ⟨_, _, [], rfl, ⟨?_, List.nodup_nil, by simp, trivial, by simp [ha], ?_, ?_⟩, hnh, by omega, by simp⟩
      · simp only [Array.size_setIfInBounds]; omega
      · exact List.nodup_cons.2 ⟨hnh, h.held_nodup⟩
      · intro b
        simp only [List.mem_cons, List.not_mem_nil, not_false_eq_true, and_true]
        rw [h.held_iff]; simp only [List.not_mem_nil, not_false_eq_true, and_true]; omega
    · intro heq
      have hl : p.length ≥ p.bits.size := by omega
      simp [hl]
  · have hne : (p.available == 0) = false := by simp [ha]
    simp only [hne, Bool.false_eq_true, ↓reduceIte]
    obtain ⟨f, fs, hf⟩ : ∃ f fs, free = f :: fs := by
      cases hfr : free with
      | nil => have := h.avail; rw [hfr] at this; simp at this; exact absurd this ha
      | cons f fs => exact ⟨f, fs, rfl⟩
    subst hf
    obtain ⟨hnext, hlink⟩ := h.linked
    have hfr := h.free_range f (List.mem_cons_self)
    have hnd := List.nodup_cons.1 h.free_nodup
    have hlen := h.len_le
    simp only [List.length_cons] at hcount
    constructor
    · intro _
      have hnh : f ∉ held := by
        intro hm; exact ((h.held_iff _).1 hm).2 (List.mem_cons_self)
      refine ⟨_, _, fs, rfl, ⟨?_, hnd.2, ?_, ?_, ?_, ?_, ?_⟩, by rw [hnext]; exact hnh, by rw [hnext]; omega, by simp⟩
      · simp only [Array.size_setIfInBounds]; exact hlen
      · intro g hg; exact h.free_range g (List.mem_cons_of_mem _ hg)
      · show Linked _ (p.bits.getD p.next 0) fs
        rw [hnext]
        apply linked_frame p _ fs _ _ hlink
        intro g hg
        simp only []
        rw [getD_set_ne]
        intro e
        have : g = f := by omega
        subst this; exact hnd.1 hg
      · show p.available - 1 = fs.length
        have := h.avail; simp at this; omega
      · rw [hnext]; exact List.nodup_cons.2 ⟨hnh, h.held_nodup⟩
      · intro b
        rw [hnext]
        simp only [List.mem_cons]
        rw [h.held_iff]
        simp only [List.mem_cons, not_or]
        constructor
        · intro hb
          rcases hb with rfl | hb
          · exact ⟨hfr, hnd.1⟩
          · exact ⟨hb.1, hb.2.2⟩
        · intro ⟨hb1, hb2⟩
          by_cases hbf : b = f
          · exact Or.inl hbf
          · exact Or.inr ⟨hb1, hbf, hb2⟩
    · intro heq; omega

/-- `bitPool.Recycle` of a held bit. -/
theorem recycle_inv (p : BitPool) (held free : List Nat) (h : PInv p held free) (b : Nat) (hb : b ∈ held) :
    PInv (p.recycle b) (held.erase b) (b :: free) := by
  have hbi := (h.held_iff b).1 hb
  have hlen := h.len_le
  refine ⟨?_, List.nodup_cons.2 ⟨hbi.2, h.free_nodup⟩, ?_, ?_, ?_, h.held_nodup.erase b, ?_⟩
  · simp only [BitPool.recycle, Array.size_setIfInBounds]; exact hlen
  · intro f hf
    simp only [List.mem_cons] at hf
    rcases hf with rfl | hf
    · exact hbi.1
    · exact h.free_range f hf
  · show Linked (p.recycle b) b (b :: free)
    refine ⟨rfl, ?_⟩
    have : (p.recycle b).bits.getD b 0 = p.next := by
      simp only [BitPool.recycle]; rw [getD_set_eq]; omega
    rw [this]
    apply linked_frame p _ free _ _ h.linked
    intro g hg
    simp only [BitPool.recycle]
    rw [getD_set_ne]
    intro e; subst e; exact hbi.2 hg
  · show p.available + 1 = (b :: free).length
    simp [h.avail]
  · intro x
    rw [h.held_nodup.mem_erase_iff, h.held_iff]
    simp only [BitPool.recycle, List.mem_cons, not_or]
    constructor
    · intro ⟨hne, h1, h2⟩; exact ⟨h1, hne, h2⟩
    · intro ⟨h1, hne, h2⟩; exact ⟨hne, h1, h2⟩

/-! ## the lock mask -/

structure LInv (m : LockMask) (held free : List Nat) : Prop where
  pool : PInv m.pool held free
  mask : ∀ b, Mask.get m.locks b = decide (b ∈ held)

theorem linv_init (total : Nat) : LInv (LockMask.init total) [] [] :=
  ⟨pinv_init total, by intro b; simp [LockMask.init, get_zero]⟩

/-- The world is locked exactly while at least one lock is held. -/
theorem locked_iff (m : LockMask) (held free : List Nat) (h : LInv m held free) :
    m.isLocked = true ↔ held ≠ [] := by
  unfold LockMask.isLocked
  simp only [bne_iff_ne, ne_eq]
  rw [show (¬ m.locks = 0) ↔ m.locks ≠ 0 from Iff.rfl, ne_zero_iff]
  constructor
  · intro ⟨j, hj⟩ he; subst he; rw [h.mask] at hj; simp at hj
  · intro hne
    cases held with
    | nil => exact absurd rfl hne
    | cons b bs => exact ⟨b, by rw [h.mask]; simp⟩

/-- `Lock`: with fewer than `total` locks held it succeeds with a fresh bit and the world is
    locked afterwards; with `total` locks held it fails (the "run out of bits" panic). -/
theorem lock_spec (m : LockMask) (held free : List Nat) (h : LInv m held free) :
    (held.length < m.pool.bits.size → ∃ m' b free', m.lock = some (m', b) ∧ LInv m' (b :: held) free' ∧ b ∉ held ∧
        m'.isLocked = true ∧ m'.pool.bits.size = m.pool.bits.size) ∧
    (held.length = m.pool.bits.size → m.lock = none) := by
  obtain ⟨h1, h2⟩ := get_spec m.pool held free h.pool
  constructor
  · intro hlt
    obtain ⟨p', b, free', hg, hp', hnh, hbt, hsz⟩ := h1 hlt
    have hl : LInv { locks := Mask.set m.locks b true, pool := p' } (b :: held) free' := by
      refine ⟨hp', ?_⟩
      intro x
      simp only []
      rw [get_set, h.mask]
      by_cases hx : x = b <;> simp [hx]
    refine ⟨_, b, free', ?_, hl, hnh, ?_, hsz⟩
    · unfold LockMask.lock; rw [hg]
    · rw [locked_iff _ _ _ hl]; simp
  · intro heq
    unfold LockMask.lock; rw [h2 heq]

/-- `Unlock` of a held lock succeeds and releases exactly that lock. -/
theorem unlock_spec (m : LockMask) (held free : List Nat) (h : LInv m held free) (b : Nat) (hb : b ∈ held) :
    ∃ m', m.unlock b = some m' ∧ LInv m' (held.erase b) (b :: free) := by
  unfold LockMask.unlock
  have : Mask.get m.locks b = true := by rw [h.mask]; simp [hb]
  simp only [this, Bool.not_true, Bool.false_eq_true, ↓reduceIte]
  refine ⟨_, rfl, recycle_inv _ _ _ h.pool b hb, ?_⟩
  intro x
  simp only []
  rw [get_set, h.mask]
  by_cases hx : x = b
  · subst hx; simp [h.pool.held_nodup.mem_erase_iff]
  · simp [hx, h.pool.held_nodup.mem_erase_iff]

/-- A lock is released exactly once: releasing a bit that is not held is the `unbalanced` panic. -/
theorem unlock_not_held (m : LockMask) (held free : List Nat) (h : LInv m held free) (b : Nat) (hb : b ∉ held) :
    m.unlock b = none := by
  unfold LockMask.unlock
  have : Mask.get m.locks b = false := by rw [h.mask]; simp [hb]
  simp [this]

/-- lock sequences: `true` = open a query (lock), `false k` = close the k-th currently open one -/
inductive LOp where
  | lock
  | unlock (k : Nat)

structure LG where
  m : LockMask
  held : List Nat

def LG.step (g : LG) : LOp → LG
  | .lock => match g.m.lock with
    | some (m', b) => ⟨m', b :: g.held⟩
    | none => g
  | .unlock k => match g.held[k]? with
    | some b => match g.m.unlock b with
      | some m' => ⟨m', g.held.erase b⟩
      | none => g
    | none => g

def LG.run (total : Nat) (ops : List LOp) : LG := ops.foldl LG.step ⟨LockMask.init total, []⟩

/-- In every state reachable by opening and closing queries in any order, the invariant holds,
    the number of held locks is at most `total`, and `IsLocked` is "some query is open". -/
theorem reachable (total : Nat) (ops : List LOp) :
    ∃ free, LInv (LG.run total ops).m (LG.run total ops).held free ∧ (LG.run total ops).m.pool.bits.size = total ∧
      (LG.run total ops).held.length ≤ total ∧
      ((LG.run total ops).m.isLocked = true ↔ (LG.run total ops).held ≠ []) := by
  suffices hs : ∀ (ops : List LOp) (g : LG), (∃ free, LInv g.m g.held free ∧ g.m.pool.bits.size = total) →
      ∃ free, LInv (ops.foldl LG.step g).m (ops.foldl LG.step g).held free ∧ (ops.foldl LG.step g).m.pool.bits.size = total by
    obtain ⟨free, hi, hsz⟩ := hs ops ⟨LockMask.init total, []⟩ ⟨[], linv_init total, by simp [LockMask.init, BitPool.init]⟩
    refine ⟨free, hi, hsz, ?_, locked_iff _ _ _ hi⟩
    have hc := pinv_count _ _ _ hi.pool
    have := hi.pool.len_le
    show (LG.run total ops).held.length ≤ total
    unfold LG.run; omega
  intro ops
  induction ops with
  | nil => intro g h; exact h
  | cons op ops ih =>
    intro g ⟨free, hi, hsz⟩
    simp only [List.foldl_cons]
    apply ih
    cases op with
    | lock =>
      simp only [LG.step]
      cases hl : g.m.lock with
      | none => exact ⟨free, hi, hsz⟩
      | some r =>
        obtain ⟨m', b⟩ := r
        have hc := pinv_count _ _ _ hi.pool
        have hle := hi.pool.len_le
        by_cases hlt : g.held.length < g.m.pool.bits.size
        · obtain ⟨m'', b', free', hg, hinv, _, _, hs'⟩ := (lock_spec _ _ _ hi).1 hlt
          rw [hl] at hg; cases hg
          exact ⟨free', hinv, by rw [hs', hsz]⟩
        · have := (lock_spec _ _ _ hi).2 (by omega)
          rw [hl] at this; cases this
    | unlock k =>
      simp only [LG.step]
      cases hk : g.held[k]? with
      | none => exact ⟨free, hi, hsz⟩
      | some b =>
        have hb : b ∈ g.held := List.mem_of_getElem? hk
        obtain ⟨m', hu, hinv⟩ := unlock_spec _ _ _ hi b hb
        simp only [hu]
        refine ⟨b :: free, hinv, ?_⟩
        have : m'.pool.bits.size = g.m.pool.bits.size := by
          unfold LockMask.unlock at hu
          split at hu
          · cases hu
          · cases hu; simp [BitPool.recycle]
        rw [this, hsz]

/-! ## widths (regenerated facts) -/
open ArcheGen.Facts

/-- the counters of the bit pool can represent `MaskTotalBits` locks (default and tiny build) -/
theorem width_ok : maskTotalBits < 2 ^ bitPoolAvailableBits ∧ maskTotalBits < 2 ^ bitPoolLengthBits ∧
    maskTotalBits ≤ 2 ^ bitPoolNextBits ∧ maskTotalBits ≤ 2 ^ bitPoolBitsElemBits ∧ maskTotalBitsTiny ≤ maskTotalBits := by
  decide


/-! ## the lock mask over the regenerated `Mask` operations -/

/-- `lockMask.Lock / Unlock / IsLocked / Reset` and `World.lock / unlock / IsLocked / checkLocked`
    are the expected compositions of `bitPool` and `Mask` calls (statements regenerated from
    ecs/util.go and ecs/world*.go on every run) -/
theorem lockMask_bodies_expected : lockMaskBodies = [
    ("lockMask.Lock", ["lock := m.bitPool.Get()", "m.locks.Set(id(lock), true)", "return lock"]),
    ("lockMask.Unlock", ["if !m.locks.Get(id(l)) { panic(\"unbalanced unlock. Did you close a query that was already iterated?\") }",
      "m.locks.Set(id(l), false)", "m.bitPool.Recycle(l)"]),
    ("lockMask.IsLocked", ["return !m.locks.IsZero()"]),
    ("lockMask.Reset", ["m.locks = Mask{}", "m.bitPool.Reset()"]),
    ("World.lock", ["return w.locks.Lock()"]),
    ("World.unlock", ["w.locks.Unlock(l)"]),
    ("World.IsLocked", ["return w.locks.IsLocked()"]),
    ("World.checkLocked", ["if w.IsLocked() { panic(\"attempt to modify a locked world\") }"])] := by
  decide

/-- default build: `IsLocked` (= `!locks.IsZero()`) is true exactly when some lock bit is set —
    for every one of the 256 bits, in whichever mask word it lies -/
theorem isLocked_iff_256 (m : ArcheGen.M256.Mask) : (!m.IsZero) = true ↔ ∃ j, C04.B256.mem m j = true := by
  rw [Bool.not_eq_true', ← Bool.not_eq_true, C04.B256.isZero_iff]
  constructor
  · intro h
    apply Classical.byContradiction
    intro hn
    apply h
    intro j
    cases hj : C04.B256.mem m j
    · rfl
    · exact absurd ⟨j, hj⟩ hn
  · rintro ⟨j, hj⟩ h
    rw [h j] at hj; cases hj

/-- default build: taking lock bit `b` makes the world locked; releasing it leaves exactly the
    other held bits -/
theorem lock_bit_256 (m : ArcheGen.M256.Mask) (b : BitVec 8) :
    (!(m.Set b true).IsZero) = true ∧ (m.Set b true).Get b = true ∧
    (∀ j, j ≠ b.toNat → C04.B256.mem ((m.Set b true).Set b false) j = C04.B256.mem m j) := by
  refine ⟨(isLocked_iff_256 _).2 ⟨b.toNat, by rw [C04.B256.set_spec]; simp⟩, by rw [C04.B256.get_eq_mem, C04.B256.set_spec]; simp, ?_⟩
  intro j hj
  rw [C04.B256.set_spec, if_neg hj, C04.B256.set_spec, if_neg hj]

/-- `tiny` build: the same for the 64 lock bits -/
theorem isLocked_iff_64 (m : ArcheGen.M64.Mask) : (!m.IsZero) = true ↔ ∃ j, C04.B64.mem m j = true := by
  rw [Bool.not_eq_true', ← Bool.not_eq_true, C04.B64.isZero_iff]
  constructor
  · intro h
    apply Classical.byContradiction
    intro hn
    apply h
    intro j
    cases hj : C04.B64.mem m j
    · rfl
    · exact absurd ⟨j, hj⟩ hn
  · rintro ⟨j, hj⟩ h
    rw [h j] at hj; cases hj

theorem lock_bit_64 (m : ArcheGen.M64.Mask) (b : BitVec 8) (hb : b.toNat < 64) :
    (!(m.Set b true).IsZero) = true ∧ (m.Set b true).Get b = true := by
  refine ⟨(isLocked_iff_64 _).2 ⟨b.toNat, by rw [C04.B64.set_spec _ _ _ _ hb]; simp⟩, by rw [C04.B64.get_eq_mem _ _ hb, C04.B64.set_spec _ _ _ _ hb]; simp⟩

/-! ## every structural operation is rejected on a locked world, leaving it unchanged -/
open World

theorem locked_rejects_newEntity (w : World) (h : w.isLocked = true) (c) :
    (match (w.newEntity c).out with | .error .locked => true | _ => false) = true ∧ (w.newEntity c).w = w := by
  unfold newEntity; simp [h, World.fail]
theorem locked_rejects_newEntityWith (w : World) (h : w.isLocked = true) (c) :
    (match (w.newEntityWith c).out with | .error .locked => true | _ => false) = true ∧ (w.newEntityWith c).w = w := by
  unfold newEntityWith; simp [h, World.fail]
theorem locked_rejects_newEntityTarget (w : World) (h : w.isLocked = true) (r t c v) :
    (match (w.newEntityTarget r t c v).out with | .error .locked => true | _ => false) = true ∧ (w.newEntityTarget r t c v).w = w := by
  unfold newEntityTarget; simp [h, World.fail]
theorem locked_rejects_newEntities (w : World) (h : w.isLocked = true) (n r t c v) :
    (match (w.newEntities n r t c v).out with | .error .locked => true | _ => false) = true ∧ (w.newEntities n r t c v).w = w := by
  unfold newEntities newEntitiesNoNotify; simp [h, World.fail]
theorem locked_rejects_newEntitiesQuery (w : World) (h : w.isLocked = true) (n r t c v) :
    (match (w.newEntitiesQuery n r t c v).out with | .error .locked => true | _ => false) = true ∧ (w.newEntitiesQuery n r t c v).w = w := by
  unfold newEntitiesQuery newEntitiesNoNotify; simp [h, World.fail]
theorem locked_rejects_removeEntity (w : World) (h : w.isLocked = true) (e) :
    (match (w.removeEntity e).out with | .error .locked => true | _ => false) = true ∧ (w.removeEntity e).w = w := by
  unfold removeEntity; simp [h, World.fail]
theorem locked_rejects_removeEntities (w : World) (h : w.isLocked = true) (f) :
    (match (w.removeEntities f).out with | .error .locked => true | _ => false) = true ∧ (w.removeEntities f).w = w := by
  unfold removeEntities; simp [h, World.fail]
theorem locked_rejects_exchange (w : World) (h : w.isLocked = true) (e a r rl t) :
    (match (w.exchange e a r rl t).out with | .error .locked => true | _ => false) = true ∧ (w.exchange e a r rl t).w = w := by
  unfold exchange exchangeNoNotify; simp [h, World.fail]
/-- `Assign` with no components reports that first; either way it panics and changes nothing -/
theorem locked_rejects_assign (w : World) (h : w.isLocked = true) (e rl t c) :
    (match (w.assign e rl t c).out with | .error _ => true | _ => false) = true ∧ (w.assign e rl t c).w = w := by
  unfold assign exchangeNoNotify
  by_cases hc : c.isEmpty = true <;> simp [h, hc, World.fail]
theorem locked_rejects_setRelation (w : World) (h : w.isLocked = true) (e c t) :
    (match (w.setRelation e c t).out with | .error .locked => true | _ => false) = true ∧ (w.setRelation e c t).w = w := by
  unfold setRelation; simp [h, World.fail]
theorem locked_rejects_exchangeBatch (w : World) (h : w.isLocked = true) (f a r rl t) :
    (match (w.exchangeBatch f a r rl t).out with | .error .locked => true | _ => false) = true ∧ (w.exchangeBatch f a r rl t).w = w := by
  unfold exchangeBatch exchangeBatchNoNotify; simp [h, World.fail]
theorem locked_rejects_exchangeBatchQuery (w : World) (h : w.isLocked = true) (f a r rl t) :
    (match (w.exchangeBatchQuery f a r rl t).out with | .error .locked => true | _ => false) = true ∧ (w.exchangeBatchQuery f a r rl t).w = w := by
  unfold exchangeBatchQuery exchangeBatchNoNotify; simp [h, World.fail]
theorem locked_rejects_setRelationBatch (w : World) (h : w.isLocked = true) (f c t) :
    (match (w.setRelationBatch f c t).out with | .error .locked => true | _ => false) = true ∧ (w.setRelationBatch f c t).w = w := by
  unfold setRelationBatch setRelationBatchNoNotify; simp [h, World.fail]
theorem locked_rejects_setRelationBatchQuery (w : World) (h : w.isLocked = true) (f c t) :
    (match (w.setRelationBatchQuery f c t).out with | .error .locked => true | _ => false) = true ∧ (w.setRelationBatchQuery f c t).w = w := by
  unfold setRelationBatchQuery setRelationBatchNoNotify; simp [h, World.fail]
theorem locked_rejects_reset (w : World) (h : w.isLocked = true) :
    (match (w.reset).out with | .error .locked => true | _ => false) = true ∧ (w.reset).w = w := by
  unfold reset; simp [h, World.fail]
theorem locked_rejects_load (w : World) (h : w.isLocked = true) (d) :
    (match (w.load d).out with | .error .locked => true | _ => false) = true ∧ (w.load d).w = w := by
  unfold load; simp [h, World.fail]
/-- registering a new component type in a locked world panics and leaves the registry unchanged
    (one type beyond the limit reports the limit instead) -/
theorem locked_rejects_register (w : World) (h : w.isLocked = true) (a b) :
    (match (w.registerComponent a b).out with | .error _ => true | _ => false) = true ∧ (w.registerComponent a b).w = w := by
  unfold registerComponent
  by_cases hc : w.reg.count ≥ w.cfg.maskBits <;> simp [h, hc, World.fail]

/-! ## regenerated facts: the exported API and its lock guards -/

/-- the structural entry points of package `ecs` (DESIGN.md appendix A) -/
def structural : List String := [
  "Batch.Add", "Batch.AddQ", "Batch.Exchange", "Batch.ExchangeQ", "Batch.Remove", "Batch.RemoveEntities", "Batch.RemoveQ",
  "Batch.SetRelation", "Batch.SetRelationQ", "Builder.Add", "Builder.New", "Builder.NewBatch", "Builder.NewBatchQ",
  "Relations.Exchange", "Relations.ExchangeBatch", "Relations.ExchangeBatchQ", "Relations.Set", "Relations.SetBatch",
  "Relations.SetBatchQ", "World.Add", "World.Assign", "World.Exchange", "World.LoadEntities", "World.NewEntity",
  "World.NewEntityWith", "World.Remove", "World.RemoveEntity", "World.Reset"]

/-- entry points that must keep working under lock (or only build values) -/
def nonStructural : List String := [
  "AddResource", "All", "Builder.WithRelation", "Cache.Register", "Cache.Unregister", "ComponentID", "ComponentIDs",
  "ComponentInfo", "GetResource", "NewBuilder", "NewBuilderWith", "NewConfig", "NewRelationFilter", "NewWorld",
  "Query.Close", "Query.Count", "Query.Entity", "Query.EntityAt", "Query.Get", "Query.Has", "Query.Ids", "Query.Mask",
  "Query.Next", "Query.Relation", "Query.Step", "Relations.Get", "Relations.GetUnchecked", "ResourceID", "ResourceIDs",
  "ResourceType", "ResourceTypeID", "Resources.Add", "Resources.Get", "Resources.Has", "Resources.Remove", "TypeID",
  "World.Alive", "World.Batch", "World.Cache", "World.DumpEntities", "World.Get", "World.GetUnchecked", "World.Has",
  "World.HasUnchecked", "World.Ids", "World.IsLocked", "World.Mask", "World.Query", "World.Relations", "World.Resources",
  "World.Set", "World.SetListener", "World.Stats"]

/-- every exported function or method of the extracted API surface is classified -/
theorem entry_points_covered : apiGuards.all (fun p => structural.contains p.1 || nonStructural.contains p.1) = true := by
  decide

/-- every structural entry point exists and calls `checkLocked` on every path -/
theorem all_guarded : structural.all (fun n => apiGuards.contains (n, true)) = true := by
  decide

/-- registering a new component type checks the lock (and rolls the registration back) -/
theorem register_checks_lock : componentIDChecksLock = true := by decide

/-- non-vacuity: two queries opened, the first closed: still locked; bit 0 is reused next -/
example : let g := LG.run 8 [.lock, .lock, .unlock 1]
    (g.held, g.m.isLocked, (g.m.lock.map (·.2))) = ([1], true, some 0) := by decide

end Arche.Props.C09
