/-
  C20 — Resources: one value per type per world, exact pointer, strict add/remove.

  Resources are a finite map `ResID ↦ token` in the model (ArcheModel.Ops: resAdd, resRemove,
  resGet, resHas; a token stands for the exact pointer handed to Add). The theorems hold for
  every world state, hence for every history; independence from entity operations and from
  locking is the frame part (`Frame.aux`, and the absence of any lock test in the definitions).
-/
import ArcheProofs.Lemmas.Frame
import ArcheProofs.Lemmas.Arr

namespace Arche.Props.C20
open Arche Arche.World Arche.Arr Arche.Frame

/-- Add on an absent resource succeeds; afterwards Has is true and Get returns that exact token. -/
theorem add_get (w : World) (r tok : Nat) (hr : r < w.resources.size) (h : w.resGet r = none) :
    (w.resAdd r tok).out = .ok () ∧ (w.resAdd r tok).w.resGet r = some tok ∧ (w.resAdd r tok).w.resHas r = true := by
  unfold resGet at h
  unfold resAdd resGet resHas
  simp only [h, Option.isSome_none, Bool.false_eq_true, ↓reduceIte]
  rw [getD_set_eq _ _ _ _ hr]; simp

/-- Adding a present resource panics without effect. -/
theorem add_present (w : World) (r tok t : Nat) (h : w.resGet r = some t) :
    (w.resAdd r tok).out = .error .resDup ∧ (w.resAdd r tok).w = w := by
  unfold resGet at h
  unfold resAdd
  simp [h, World.fail]

/-- Remove on a present resource succeeds; afterwards Get is nil and Has is false. -/
theorem remove_get (w : World) (r t : Nat) (hr : r < w.resources.size) (h : w.resGet r = some t) :
    (w.resRemove r).out = .ok () ∧ (w.resRemove r).w.resGet r = none ∧ (w.resRemove r).w.resHas r = false := by
  unfold resGet at h
  unfold resRemove resGet resHas
  simp only [h, Option.isNone_some, Bool.false_eq_true, ↓reduceIte]
  rw [getD_set_eq _ _ _ _ hr]; simp

/-- Removing an absent resource panics without effect. -/
theorem remove_absent (w : World) (r : Nat) (h : w.resGet r = none) :
    (w.resRemove r).out = .error .resMissing ∧ (w.resRemove r).w = w := by
  unfold resGet at h
  unfold resRemove
  simp [h, World.fail]

/-- Has is exactly "Get is not nil". -/
theorem has_iff (w : World) (r : Nat) : w.resHas r = (w.resGet r).isSome := rfl

/-- Independence of resource types: Add/Remove of `r` leave every other resource as it was. -/
theorem add_frame (w : World) (r r' tok : Nat) (hne : r ≠ r') : (w.resAdd r tok).w.resGet r' = w.resGet r' := by
  unfold resAdd resGet
  split
  · rfl
  · simp only []; rw [getD_set_ne _ _ _ _ _ hne]

theorem remove_frame (w : World) (r r' : Nat) (hne : r ≠ r') : (w.resRemove r).w.resGet r' = w.resGet r' := by
  unfold resRemove resGet
  split
  · rfl
  · simp only []; rw [getD_set_ne _ _ _ _ _ hne]

/-- Resources do not depend on the lock state: the outcome and the resulting map are the same
    whatever locks are held (the definitions never look at `locks`). -/
theorem add_lock_independent (w : World) (l : LockMask) (r tok : Nat) :
    (({ w with locks := l } : World).resAdd r tok).out = (w.resAdd r tok).out ∧
    (({ w with locks := l } : World).resAdd r tok).w.resources = (w.resAdd r tok).w.resources := by
  unfold resAdd; simp only []; split <;> simp [World.fail]

theorem remove_lock_independent (w : World) (l : LockMask) (r : Nat) :
    (({ w with locks := l } : World).resRemove r).out = (w.resRemove r).out ∧
    (({ w with locks := l } : World).resRemove r).w.resources = (w.resRemove r).w.resources := by
  unfold resRemove; simp only []; split <;> simp [World.fail]

/-- Add/Remove touch nothing but the resource map. -/
theorem add_only_resources (w : World) (r tok : Nat) :
    (w.resAdd r tok).w = { w with resources := (w.resAdd r tok).w.resources } := by
  unfold resAdd; split <;> rfl

/-- Entity operations leave the resources alone (frame: `aux` contains the resource map). -/
theorem newEntity_frame (w : World) (c : List CompId) (r : Nat) : (w.newEntity c).w.resGet r = w.resGet r := by
  have := congrArg Aux.resources (aux_newEntity w c); exact congrArg (fun a => a.getD r none) this

theorem newEntityWith_frame (w : World) (c : List (CompId × Val)) (r : Nat) : (w.newEntityWith c).w.resGet r = w.resGet r := by
  have := congrArg Aux.resources (aux_newEntityWith w c); exact congrArg (fun a => a.getD r none) this

theorem newEntityTarget_frame (w : World) (rel : CompId) (t : Entity) (c : List (CompId × Val)) (v : Bool) (r : Nat) :
    (w.newEntityTarget rel t c v).w.resGet r = w.resGet r := by
  have := congrArg Aux.resources (aux_newEntityTarget w rel t c v); exact congrArg (fun a => a.getD r none) this

/-- Reset removes all resources. -/
theorem reset_clears (w : World) (h : w.isLocked = false) (r : Nat) : (w.reset).w.resGet r = none := by
  unfold World.reset resGet
  simp only [h, Bool.false_eq_true, ↓reduceIte]
  have hfold : ∀ (l : List Nat) (w : World), (l.foldl resetNode w).resources = w.resources := by
    intro l w
    exact congrArg Aux.resources (aux_foldl resetNode aux_resetNode l w)
  rw [hfold]
  simp [Array.getD_eq_getD_getElem?]
  cases h : w.resources[r]? <;> simp

/-- Resource IDs are independent of component IDs: registering either kind leaves the other count alone. -/
theorem ids_independent (w : World) (a b : Bool) :
    (w.registerComponent a b).w.resCount = w.resCount ∧ (w.registerResource).w.reg = w.reg := by
  unfold registerComponent registerResource
  constructor
  · split; · rfl
    split <;> rfl
  · split <;> rfl

/-- non-vacuity: a world with 4 resource slots, add 7 to slot 2, read it back, slot 1 untouched,
    a second add panics -/
example : ((World.init ⟨4, 0, 4⟩).resAdd 2 7).w.resGet 2 = some 7 ∧ ((World.init ⟨4, 0, 4⟩).resAdd 2 7).w.resGet 1 = none ∧
    (match (((World.init ⟨4, 0, 4⟩).resAdd 2 7).w.resAdd 2 9).out with | .error .resDup => true | _ => false) = true := by decide

end Arche.Props.C20
