/-
  C11 (companion) — the notifying batch entry point with the REGENERATED notifier plugged in: when the notifier
  parameter of `World.exchangeBatch` is the regenerated `World.notifyQuery`, the world handed back is the world the silent
  worker produced (the notification moves only the hidden state: what the listener saw), and a listener without
  subscriptions leaves the hidden state alone as well.
-/
import ArcheProofs.Props.C08_BatchNotify64
import ArcheProofs.Props.C12_NotifyWorld64

namespace Arche.Props.C11_BatchWorld64
open ArcheGen ArcheGen.P64 Arche Arche.Props

section
variable {Ext : Type}
  (archActiveF : Ext → Option Nat → Bool) (archAllocNF : Ext → Option Nat → BitVec 32 → Ext × Unit)
  (archComponentsF : Ext → Option Nat → GoSlice (BitVec 8)) (archGetEntityF : Ext → Option Nat → BitVec 32 → P64.Entity)
  (archGetF : Ext → Option Nat → BitVec 32 → BitVec 8 → GoAny) (archHasComponentF : Ext → Option Nat → BitVec 8 → Bool)
  (archHasRelationF : Ext → Option Nat → Bool)
  (archInitF : Ext → Option Nat → Option Nat → Option Nat → BitVec 32 → Bool → Int → P64.Entity → Ext × Unit)
  (archLenF : Ext → Option Nat → BitVec 32) (archMaskF : Ext → Option Nat → ArcheGen.M64.Mask)
  (archNodeF : Ext → Option Nat → Option Nat) (archResetF : Ext → Option Nat → Ext × Unit)
  (archSetEntityF : Ext → Option Nat → BitVec 32 → P64.Entity → Ext × Unit)
  (archSetPointerF : Ext → Option Nat → BitVec 32 → BitVec 8 → GoAny → Ext × Unit) (archTargetF : Ext → Option Nat → P64.Entity)
  (archsGetF : GoAny → BitVec 32 → Option Nat) (archsLenF : GoAny → BitVec 32) (asCachedFilterF : GoAny → Option CachedFilter)
  (findOrCreateF : Ext → P64.World → Option Nat → GoSlice (BitVec 8) → GoSlice (BitVec 8) → P64.Entity → Ext × P64.World × Option Nat)
  (matchesF : GoAny → ArcheGen.M64.Mask → Bool) (nodeActiveF : Ext → Option Nat → Bool)
  (nodeArchMapF : Ext → Option Nat → P64.Entity → Option (Option Nat)) (nodeArchetypesF : Ext → Option Nat → GoAny)
  (nodeCreateArchetypeF : Ext → Option Nat → Int → P64.Entity → Ext × Option Nat)
  (nodeGetArchetypeF : Ext → Option Nat → P64.Entity → Option Nat × Bool)
  (nodeHasRelationF : Ext → Option Nat → Bool) (nodeMatchesF : Ext → Option Nat → GoAny → Bool)
  (nodeRelationF : Ext → Option Nat → BitVec 8)
  (nodeRemoveArchetypeF : Ext → Option Nat → Option Nat → Ext × Unit) (nodeSetArchetypeF : Ext → Option Nat → Option Nat → Ext × Unit)
  (pagedAddF : Ext → Nat → Ext × Unit) (pagedGetF : Ext → Nat → BitVec 32 → Option Nat) (pagedLenF : Ext → Nat → BitVec 32)
  (relationTargetF : GoAny → Option P64.Entity)
  (lstSubsF : Ext → GoAny → BitVec 8) (notifyQueryF : Ext → P64.World → P64.batchArchetypes → Ext × P64.World × Unit)
  (archHasRelCompF : Ext → Option Nat → Bool) (archRelCompF : Ext → Option Nat → BitVec 8)
  (lstCompsF : Ext → GoAny → Option (ArcheGen.M64.Mask)) (nodeMaskF : Ext → Option Nat → ArcheGen.M64.Mask)
  (notifyF : Ext → GoAny → P64.EntityEvent → Ext × Unit)

/-- the notifier parameter agrees with the regenerated notifier wherever that does not panic -/
def IsNotifier : Prop :=
  ∀ ext w b w' ext', P64.World.notifyQuery archGetEntityF archHasRelCompF archMaskF archNodeF archRelCompF archTargetF lstCompsF lstSubsF nodeMaskF notifyF w b ext = some (w', ext') →
    notifyQueryF ext w b = (ext', w', ())

theorem exchangeBatch_world
    (hN : IsNotifier archGetEntityF archMaskF archNodeF archTargetF lstSubsF notifyQueryF archHasRelCompF archRelCompF lstCompsF nodeMaskF notifyF)
    (w : P64.World) (f : GoAny) (add rem : GoSlice (BitVec 8)) (rel : BitVec 8) (hasRel : Bool) (target : P64.Entity) (ext : Ext)
    (w1 : P64.World) (b1 : P64.batchArchetypes) (e1 : Ext) (n : Int) (wq : P64.World) (eq : Ext)
    (h : P64.World.exchangeBatchNoNotify archActiveF archAllocNF archComponentsF archGetEntityF archGetF archHasRelationF archLenF archMaskF archNodeF archResetF archSetEntityF archSetPointerF archTargetF archsGetF archsLenF asCachedFilterF findOrCreateF matchesF nodeActiveF nodeArchMapF nodeArchetypesF nodeHasRelationF nodeMatchesF nodeRemoveArchetypeF relationTargetF w f add rem rel hasRel target (C08_BatchNotify64.freshRecord add rem) ext = some (w1, b1, e1, n))
    (hq : P64.World.notifyQuery archGetEntityF archHasRelCompF archMaskF archNodeF archRelCompF archTargetF lstCompsF lstSubsF nodeMaskF notifyF w1 b1 e1 = some (wq, eq)) :
    ∃ e2, P64.World.exchangeBatch archActiveF archAllocNF archComponentsF archGetEntityF archGetF archHasRelationF archLenF archMaskF archNodeF archResetF archSetEntityF archSetPointerF archTargetF archsGetF archsLenF asCachedFilterF findOrCreateF matchesF nodeActiveF nodeArchMapF nodeArchetypesF nodeHasRelationF nodeMatchesF nodeRemoveArchetypeF notifyQueryF relationTargetF w f add rem rel hasRel target ext = some (w1, e2, n) := by
  rw [C08_BatchNotify64.exchangeBatch_order, h]
  have hw := C12_NotifyWorld64.notifyQuery_world archGetEntityF archHasRelCompF archMaskF archNodeF archRelCompF archTargetF lstCompsF lstSubsF nodeMaskF notifyF w1 wq b1 e1 eq hq
  subst hw
  simp only [Option.map_some, C08_BatchNotify64.afterBatch, hN _ _ _ _ _ hq]
  cases wq.listener.isSome
  · exact ⟨e1, rfl⟩
  · exact ⟨eq, rfl⟩

/-- with a listener that subscribes to nothing, the notifying entry point IS the silent worker -/
theorem exchangeBatch_unsubscribed
    (hN : IsNotifier archGetEntityF archMaskF archNodeF archTargetF lstSubsF notifyQueryF archHasRelCompF archRelCompF lstCompsF nodeMaskF notifyF)
    (hs : ∀ e l, lstSubsF e l = 0#8)
    (w : P64.World) (f : GoAny) (add rem : GoSlice (BitVec 8)) (rel : BitVec 8) (hasRel : Bool) (target : P64.Entity) (ext : Ext)
    (w1 : P64.World) (b1 : P64.batchArchetypes) (e1 : Ext) (n : Int) (wq : P64.World) (eq : Ext)
    (h : P64.World.exchangeBatchNoNotify archActiveF archAllocNF archComponentsF archGetEntityF archGetF archHasRelationF archLenF archMaskF archNodeF archResetF archSetEntityF archSetPointerF archTargetF archsGetF archsLenF asCachedFilterF findOrCreateF matchesF nodeActiveF nodeArchMapF nodeArchetypesF nodeHasRelationF nodeMatchesF nodeRemoveArchetypeF relationTargetF w f add rem rel hasRel target (C08_BatchNotify64.freshRecord add rem) ext = some (w1, b1, e1, n))
    (hq : P64.World.notifyQuery archGetEntityF archHasRelCompF archMaskF archNodeF archRelCompF archTargetF lstCompsF lstSubsF nodeMaskF notifyF w1 b1 e1 = some (wq, eq)) :
    P64.World.exchangeBatch archActiveF archAllocNF archComponentsF archGetEntityF archGetF archHasRelationF archLenF archMaskF archNodeF archResetF archSetEntityF archSetPointerF archTargetF archsGetF archsLenF asCachedFilterF findOrCreateF matchesF nodeActiveF nodeArchMapF nodeArchetypesF nodeHasRelationF nodeMatchesF nodeRemoveArchetypeF notifyQueryF relationTargetF w f add rem rel hasRel target ext = some (w1, e1, n) := by
  rw [C08_BatchNotify64.exchangeBatch_order, h]
  have hw := C12_NotifyWorld64.notifyQuery_silent archGetEntityF archHasRelCompF archMaskF archNodeF archRelCompF archTargetF lstCompsF lstSubsF nodeMaskF notifyF hs w1 wq b1 e1 eq hq
  cases hw
  simp only [Option.map_some, C08_BatchNotify64.afterBatch, hN _ _ _ _ _ hq]
  cases w1.listener.isSome <;> rfl

/-- the same for a batch of target changes: the world handed back is the world the silent worker produced -/
theorem setRelationBatch_world
    (hN : IsNotifier archGetEntityF archMaskF archNodeF archTargetF lstSubsF notifyQueryF archHasRelCompF archRelCompF lstCompsF nodeMaskF notifyF)
    (w : P64.World) (f : GoAny) (comp : BitVec 8) (target : P64.Entity) (ext : Ext)
    (w1 : P64.World) (b1 : P64.batchArchetypes) (e1 : Ext) (n : Int) (wq : P64.World) (eq : Ext)
    (h : P64.World.setRelationBatchNoNotify archActiveF archAllocNF archComponentsF archGetEntityF archGetF archHasComponentF archHasRelationF archInitF archLenF archMaskF archNodeF archResetF archSetEntityF archSetPointerF archTargetF archsGetF archsLenF asCachedFilterF matchesF nodeActiveF nodeArchMapF nodeArchetypesF nodeCreateArchetypeF nodeGetArchetypeF nodeHasRelationF nodeMatchesF nodeRelationF nodeRemoveArchetypeF nodeSetArchetypeF pagedAddF pagedGetF pagedLenF relationTargetF w f comp target default ext = some (w1, b1, e1, n))
    (hq : P64.World.notifyQuery archGetEntityF archHasRelCompF archMaskF archNodeF archRelCompF archTargetF lstCompsF lstSubsF nodeMaskF notifyF w1 b1 e1 = some (wq, eq)) :
    ∃ e2, P64.World.setRelationBatch archActiveF archAllocNF archComponentsF archGetEntityF archGetF archHasComponentF archHasRelationF archInitF archLenF archMaskF archNodeF archResetF archSetEntityF archSetPointerF archTargetF archsGetF archsLenF asCachedFilterF lstSubsF matchesF nodeActiveF nodeArchMapF nodeArchetypesF nodeCreateArchetypeF nodeGetArchetypeF nodeHasRelationF nodeMatchesF nodeRelationF nodeRemoveArchetypeF nodeSetArchetypeF notifyQueryF pagedAddF pagedGetF pagedLenF relationTargetF w f comp target ext = some (w1, e2, n) := by
  rw [C08_BatchNotify64.setRelationBatch_order, h]
  have hw := C12_NotifyWorld64.notifyQuery_world archGetEntityF archHasRelCompF archMaskF archNodeF archRelCompF archTargetF lstCompsF lstSubsF nodeMaskF notifyF w1 wq b1 e1 eq hq
  subst hw
  simp only [Option.map_some, C08_BatchNotify64.afterBatch, hN _ _ _ _ _ hq]
  cases (wq.listener.isSome && ((32#8 &&& lstSubsF e1 wq.listener) == 32#8))
  · exact ⟨e1, rfl⟩
  · exact ⟨eq, rfl⟩

end
end Arche.Props.C11_BatchWorld64
