/-
  C11 (companion) — the Q variant of the exchanging batch operations REGENERATED (`World.exchangeBatchQuery`,
  `World.setRelationBatchQuery`, `newBatchQuery`) and put together with the regenerated `World.closeQuery`:
  "batch operations emit the same events … after the batch (Q variants: when the returned query is closed or exhausted)".

  * `exchangeBatchQuery_eq`: the Q variant is the silent worker on a fresh record of moves, then ONE lock, and a batch
    query over the record that remembers that lock bit — no notification;
  * `setRelationBatchQuery_eq`: the same for the batch of target changes;
  * `exchangeBatchQuery_close`: closing that query releases that bit and then notifies exactly as the non-Q variant does
    (`C08_BatchNotify64.afterBatch`) — with the world after the unlock and the moves the worker recorded. The only premise
    is that reading the record back out of the query (`x.(*batchArchetypes)`) returns what was stored.
-/
import ArcheProofs.Props.C08_BatchNotify64
import ArcheProofs.Props.C09_CloseGen64

namespace Arche.Props.C11_BatchQuery64
open ArcheGen ArcheGen.P64 Arche Arche.Props

section
variable {Ext : Type}
  (archActiveF : Ext → Option Nat → Bool) (archAllocNF : Ext → Option Nat → BitVec 32 → Ext × Unit)
  (archComponentsF : Ext → Option Nat → GoSlice (BitVec 8)) (archGetEntityF : Ext → Option Nat → BitVec 32 → P64.Entity)
  (archGetF : Ext → Option Nat → BitVec 32 → BitVec 8 → GoAny) (archHasComponentF : Ext → Option Nat → BitVec 8 → Bool)
  (archHasRelationF : Ext → Option Nat → Bool)
  (archInitF : Ext → Option Nat → Option Nat → Option Nat → BitVec 32 → Bool → Int → P64.Entity → Ext × Unit)
  (archLenF : Ext → Option Nat → BitVec 32) (archMaskF : Ext → Option Nat → ArcheGen.M64.Mask)
  (archNodeF : Ext → Option Nat → Option Nat) (archResetF : Ext → Option Nat → Ext × Unit)
  (archSetEntityF : Ext → Option Nat → BitVec 32 → P64.Entity → Ext × Unit)
  (archSetPointerF : Ext → Option Nat → BitVec 32 → BitVec 8 → GoAny → Ext × Unit) (archTargetF : Ext → Option Nat → P64.Entity)
  (archsGetF : GoAny → BitVec 32 → Option Nat) (archsLenF : GoAny → BitVec 32) (asCachedFilterF : GoAny → Option CachedFilter)
  (findOrCreateF : Ext → P64.World → Option Nat → GoSlice (BitVec 8) → GoSlice (BitVec 8) → P64.Entity → Ext × P64.World × Option Nat)
  (matchesF : GoAny → ArcheGen.M64.Mask → Bool) (nodeActiveF : Ext → Option Nat → Bool)
  (nodeArchMapF : Ext → Option Nat → P64.Entity → Option (Option Nat)) (nodeArchetypesF : Ext → Option Nat → GoAny)
  (nodeCreateArchetypeF : Ext → Option Nat → Int → P64.Entity → Ext × Option Nat)
  (nodeGetArchetypeF : Ext → Option Nat → P64.Entity → Option Nat × Bool)
  (nodeHasRelationF : Ext → Option Nat → Bool) (nodeMatchesF : Ext → Option Nat → GoAny → Bool)
  (nodeRelationF : Ext → Option Nat → BitVec 8)
  (nodeRemoveArchetypeF : Ext → Option Nat → Option Nat → Ext × Unit) (nodeSetArchetypeF : Ext → Option Nat → Option Nat → Ext × Unit)
  (pagedAddF : Ext → Nat → Ext × Unit) (pagedGetF : Ext → Nat → BitVec 32 → Option Nat) (pagedLenF : Ext → Nat → BitVec 32)
  (relationTargetF : GoAny → Option P64.Entity)
  (lstSubsF : Ext → GoAny → BitVec 8) (notifyQueryF : Ext → P64.World → P64.batchArchetypes → Ext × P64.World × Unit)
  (asBatchF : GoAny → Option P64.batchArchetypes) (ofBatchF : P64.batchArchetypes → GoAny)

/-- the query handed back (a verbatim copy of what `newBatchQuery` builds) -/
def batchQuery (lock : BitVec 8) (b : P64.batchArchetypes) : P64.Query :=
  ({ filter := default, isFiltered := false, isBatch := true, nodeArchetypes := (ofBatchF b), archIndex := (BitVec.ofInt 32 (-1)), lockBit := lock, count := (BitVec.ofInt 32 (-1)), access := default, archetype := default, nodes := default, archetypes := default, entityIndex := default, entityIndexMax := default, nodeIndex := default } : P64.Query)

theorem newBatchQuery_eq (w : P64.World) (lock : BitVec 8) (b : P64.batchArchetypes) :
    P64.newBatchQuery ofBatchF w lock b = some (batchQuery ofBatchF lock b) := rfl

/-- the Q variant: silent worker, one lock, a query over the recorded moves; nobody is told yet -/
theorem exchangeBatchQuery_eq (w : P64.World) (f : GoAny) (add rem : GoSlice (BitVec 8)) (rel : BitVec 8) (hasRel : Bool) (target : P64.Entity) (ext : Ext) :
    P64.World.exchangeBatchQuery archActiveF archAllocNF archComponentsF archGetEntityF archGetF archHasRelationF archLenF archMaskF archNodeF archResetF archSetEntityF archSetPointerF archTargetF archsGetF archsLenF asCachedFilterF findOrCreateF matchesF nodeActiveF nodeArchMapF nodeArchetypesF nodeHasRelationF nodeMatchesF nodeRemoveArchetypeF ofBatchF relationTargetF w f add rem rel hasRel target ext =
    (P64.World.exchangeBatchNoNotify archActiveF archAllocNF archComponentsF archGetEntityF archGetF archHasRelationF archLenF archMaskF archNodeF archResetF archSetEntityF archSetPointerF archTargetF archsGetF archsLenF asCachedFilterF findOrCreateF matchesF nodeActiveF nodeArchMapF nodeArchetypesF nodeHasRelationF nodeMatchesF nodeRemoveArchetypeF relationTargetF w f add rem rel hasRel target (C08_BatchNotify64.freshRecord add rem) ext).bind
      (fun r => (P64.World.lock r.1).map (fun wl => (wl.1, r.2.2.1, batchQuery ofBatchF wl.2 r.2.1))) := by
  unfold P64.World.exchangeBatchQuery C08_BatchNotify64.freshRecord
  simp only [Option.bind_eq_bind, pure, newBatchQuery_eq, Option.bind_some]
  cases P64.World.exchangeBatchNoNotify archActiveF archAllocNF archComponentsF archGetEntityF archGetF archHasRelationF archLenF archMaskF archNodeF archResetF archSetEntityF archSetPointerF archTargetF archsGetF archsLenF asCachedFilterF findOrCreateF matchesF nodeActiveF nodeArchMapF nodeArchetypesF nodeHasRelationF nodeMatchesF nodeRemoveArchetypeF relationTargetF w f add rem rel hasRel target _ ext with
  | none => rfl
  | some r =>
    obtain ⟨w1, b1, e1, n⟩ := r
    simp only [Option.bind_some]
    cases P64.World.lock w1 with
    | none => rfl
    | some wl => rfl

/-- the Q variant of the batch of target changes: silent worker, one lock, a query over the recorded moves -/
theorem setRelationBatchQuery_eq (w : P64.World) (f : GoAny) (comp : BitVec 8) (target : P64.Entity) (ext : Ext) :
    P64.World.setRelationBatchQuery archActiveF archAllocNF archComponentsF archGetEntityF archGetF archHasComponentF archHasRelationF archInitF archLenF archMaskF archNodeF archResetF archSetEntityF archSetPointerF archTargetF archsGetF archsLenF asCachedFilterF matchesF nodeActiveF nodeArchMapF nodeArchetypesF nodeCreateArchetypeF nodeGetArchetypeF nodeHasRelationF nodeMatchesF nodeRelationF nodeRemoveArchetypeF nodeSetArchetypeF ofBatchF pagedAddF pagedGetF pagedLenF relationTargetF w f comp target ext =
    (P64.World.setRelationBatchNoNotify archActiveF archAllocNF archComponentsF archGetEntityF archGetF archHasComponentF archHasRelationF archInitF archLenF archMaskF archNodeF archResetF archSetEntityF archSetPointerF archTargetF archsGetF archsLenF asCachedFilterF matchesF nodeActiveF nodeArchMapF nodeArchetypesF nodeCreateArchetypeF nodeGetArchetypeF nodeHasRelationF nodeMatchesF nodeRelationF nodeRemoveArchetypeF nodeSetArchetypeF pagedAddF pagedGetF pagedLenF relationTargetF w f comp target default ext).bind
      (fun r => (P64.World.lock r.1).map (fun wl => (wl.1, r.2.2.1, batchQuery ofBatchF wl.2 r.2.1))) := by
  unfold P64.World.setRelationBatchQuery
  simp only [Option.bind_eq_bind, pure, newBatchQuery_eq, Option.bind_some]
  cases P64.World.setRelationBatchNoNotify archActiveF archAllocNF archComponentsF archGetEntityF archGetF archHasComponentF archHasRelationF archInitF archLenF archMaskF archNodeF archResetF archSetEntityF archSetPointerF archTargetF archsGetF archsLenF asCachedFilterF matchesF nodeActiveF nodeArchMapF nodeArchetypesF nodeCreateArchetypeF nodeGetArchetypeF nodeHasRelationF nodeMatchesF nodeRelationF nodeRemoveArchetypeF nodeSetArchetypeF pagedAddF pagedGetF pagedLenF relationTargetF w f comp target default ext with
  | none => rfl
  | some r =>
    obtain ⟨w1, b1, e1, n⟩ := r
    simp only [Option.bind_some]
    cases P64.World.lock w1 with
    | none => rfl
    | some wl => rfl

/-- **closing the query of the Q variant notifies as the non-Q variant does** -/
theorem exchangeBatchQuery_close (hinj : ∀ b, asBatchF (ofBatchF b) = some b)
    (w2 w3 : P64.World) (lock : BitVec 8) (b1 : P64.batchArchetypes) (e1 : Ext) (n : Int)
    (hu : P64.World.unlock w2 lock = some w3) :
    (P64.World.closeQuery asBatchF notifyQueryF w2 (batchQuery ofBatchF lock b1) e1).map (fun r => (r.1, r.2.2, n)) =
      some (C08_BatchNotify64.afterBatch notifyQueryF (fun w1 _ => w1.listener.isSome) (w3, b1, e1, n)) := by
  rw [C09_CloseGen64.closeQuery_eq asBatchF notifyQueryF w2 w3 (batchQuery ofBatchF lock b1) e1 hu]
  simp only [Option.map_some, C08_BatchNotify64.afterBatch, batchQuery, hinj]
  cases w3.listener.isSome <;> rfl

end
end Arche.Props.C11_BatchQuery64
