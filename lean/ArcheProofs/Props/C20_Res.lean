/-
  C20 companion — `Resources` (ecs/resources.go: Add, Remove, Get, Has, reset), REGENERATED on
  every run by the imperative translator (ArcheGen/Pool256.lean; `any` values are `Option` tokens,
  `nil` = `none`), refines the resource operations of the world model (`World.resAdd`,
  `resRemove`, `resGet`, `resHas`, and the clearing `World.reset` performs): same panics
  (`already added` / `not present`), same stored values, for every id inside the resource slice
  (its length is `MaskTotalBits`, so every id of the default build).
-/
import ArcheGen.Pool256
import ArcheModel

namespace Arche.Props.C20_Res
open ArcheGen ArcheGen.P256 Arche Arche.World

/-- the world's resource slots are the regenerated slice's elements -/
def Rep (r : Resources) (w : World) : Prop := r.resources.arr = w.resources

theorem add_refines (r : Resources) (w : World) (h : Rep r w) (id : BitVec 8) (hin : id.toNat < r.resources.arr.size) (v : GoAny) :
    (∀ tok, v = some tok →
      match Resources.Add r id v with
      | none => (w.resAdd id.toNat tok).out = .error .resDup ∧ (w.resAdd id.toNat tok).w = w
      | some r' => (w.resAdd id.toNat tok).out = .ok () ∧ Rep r' (w.resAdd id.toNat tok).w) := by
  intro tok hv
  subst hv
  unfold Rep at *
  have hg : r.resources.arr[id.toNat]? = some r.resources.arr[id.toNat] := Array.getElem?_eq_getElem hin
  have hd : w.resources.getD id.toNat none = r.resources.arr[id.toNat] := by
    rw [← h, Array.getD_eq_getD_getElem?, hg]; rfl
  unfold Resources.Add World.resAdd
  simp only [bind, Option.bind, pure, GoSlice.get, GoSlice.set, hg, hin, if_true, hd]
  cases hs : r.resources.arr[id.toNat].isSome
  · simp only [Bool.false_eq_true, if_false]
    exact ⟨trivial, by rw [h]⟩
  · simp only [if_true, World.fail]
    exact ⟨trivial, trivial⟩

theorem remove_refines (r : Resources) (w : World) (h : Rep r w) (id : BitVec 8) (hin : id.toNat < r.resources.arr.size) :
    match Resources.Remove r id with
    | none => (w.resRemove id.toNat).out = .error .resMissing ∧ (w.resRemove id.toNat).w = w
    | some r' => (w.resRemove id.toNat).out = .ok () ∧ Rep r' (w.resRemove id.toNat).w := by
  unfold Rep at *
  have hg : r.resources.arr[id.toNat]? = some r.resources.arr[id.toNat] := Array.getElem?_eq_getElem hin
  have hd : w.resources.getD id.toNat none = r.resources.arr[id.toNat] := by
    rw [← h, Array.getD_eq_getD_getElem?, hg]; rfl
  unfold Resources.Remove World.resRemove
  simp only [bind, Option.bind, pure, GoSlice.get, GoSlice.set, hg, hin, if_true, hd]
  cases hs : r.resources.arr[id.toNat].isNone
  · simp only [Bool.false_eq_true, if_false]
    exact ⟨trivial, by rw [h]⟩
  · simp only [if_true, World.fail]
    exact ⟨trivial, trivial⟩

theorem get_refines (r : Resources) (w : World) (h : Rep r w) (id : BitVec 8) (hin : id.toNat < r.resources.arr.size) :
    Resources.Get r id = some (r, w.resGet id.toNat) ∧ Resources.Has r id = some (r, w.resHas id.toNat) := by
  unfold Rep at h
  have hg : r.resources.arr[id.toNat]? = some r.resources.arr[id.toNat] := Array.getElem?_eq_getElem hin
  have hd : w.resources.getD id.toNat none = r.resources.arr[id.toNat] := by
    rw [← h, Array.getD_eq_getD_getElem?, hg]; rfl
  unfold Resources.Get Resources.Has World.resGet World.resHas
  simp only [bind, Option.bind, pure, GoSlice.get, hg, hd]
  exact ⟨trivial, trivial⟩

/-- an id beyond the slice panics (index out of range) in all four accessors -/
theorem out_of_range (r : Resources) (id : BitVec 8) (hout : r.resources.arr.size ≤ id.toNat) (v : GoAny) :
    Resources.Add r id v = none ∧ Resources.Remove r id = none ∧ Resources.Get r id = none ∧ Resources.Has r id = none := by
  have hg : r.resources.arr[id.toNat]? = none := Array.getElem?_eq_none hout
  unfold Resources.Add Resources.Remove Resources.Get Resources.Has
  simp only [bind, Option.bind, GoSlice.get, hg]
  exact ⟨trivial, trivial, trivial, trivial⟩

/-- `Resources.reset` clears every slot, as the model's `World.reset` does -/
theorem reset_refines (r : Resources) (w : World) (h : Rep r w) :
    ∃ r', Resources.reset r = some r' ∧ r'.resources.arr = w.resources.map (fun _ => none) := by
  unfold Rep at h
  refine ⟨_, rfl, ?_⟩
  simp only [GoSlice.fill]
  rw [← h]
  apply Array.ext
  · simp
  · intro i h1 h2
    simp

abbrev Demo := List (Option Nat) × Bool

/-- the regenerated code runs (closed test): add, duplicate add refused, get, remove, has -/
def demoRun : Option Demo := do
  let r : Resources := { resources := ⟨Array.replicate 4 none, 4⟩, registry := default }
  let r ← Resources.Add r 2#8 (some 7)
  let dup := (Resources.Add r 2#8 (some 9)).isNone
  let (r, g) ← Resources.Get r 2#8
  let r ← Resources.Remove r 2#8
  let (r, hs) ← Resources.Has r 2#8
  let r ← Resources.Add r 3#8 (some 5)
  let r ← Resources.reset r
  pure ([g, some (if dup then 1 else 0)] ++ r.resources.arr.toList, hs)

theorem demo_agrees : demoRun = some ([some 7, some 1, none, none, none, none], false) := by decide +kernel

end Arche.Props.C20_Res
