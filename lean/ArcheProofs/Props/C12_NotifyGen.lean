/-
  C12 (companion) — `World.notifyQuery` (the deferred notifier of batch queries: what `Query.Close` of a batch query and
  the non-query batch operations deliver to the listener) REGENERATED from ecs/world_internal.go.

  * `notifyQuery_eq_fold`: the notifier is a fold over the recorded entries whose ONLY state is the world view and the
    hidden state — the decision whether the listener is interested in an entry, the event's type bits, masks, relation
    and target fields are computed afresh for every entry from that entry's own tables (`entryStep`); nothing is
    carried over from one entry to the next;
  * `notifyQuery_empty`: a batch without entries delivers nothing.
-/
import ArcheGen.Pool256

namespace Arche.Props.C12_NotifyGen
open ArcheGen ArcheGen.P256

section
variable {Ext : Type}
  (archGetEntityF : Ext → Option Nat → BitVec 32 → Entity) (archHasRelCompF : Ext → Option Nat → Bool)
  (archMaskF : Ext → Option Nat → ArcheGen.M256.Mask) (archNodeF : Ext → Option Nat → Option Nat)
  (archRelCompF : Ext → Option Nat → BitVec 8) (archTargetF : Ext → Option Nat → Entity)
  (lstCompsF : Ext → GoAny → Option (ArcheGen.M256.Mask)) (lstSubsF : Ext → GoAny → BitVec 8)
  (nodeMaskF : Ext → Option Nat → ArcheGen.M256.Mask) (notifyF : Ext → GoAny → EntityEvent → Ext × Unit)

/-- what the notifier does for the entry at position `iN` of the batch (a verbatim copy of the loop body the translator
    emits; `notifyQuery_eq_fold` checks that it still is) -/
def entryStep (batchArch : batchArchetypes) : World × Ext → Nat → Option (World × Ext) :=
  fun (w, ext) iN => do
    let i : BitVec 32 := BitVec.ofNat 32 iN
    let (o3, r4) ← batchArchetypes.Get batchArch i
    let batchArch := o3
    let arch := r4
    let newRel : Option (BitVec 8) := default
    let _ ← arch
    let (w, ext, newRel) ← (do
        if (archHasRelCompF ext arch) then
          let _ ← arch
          let newRel := (some (archRelCompF ext arch))
          pure (w, ext, newRel)
        else
          pure (w, ext, newRel)
      )
    let _ ← arch
    let event := ({ Entity := (default : Entity), Added := (archMaskF ext arch), Removed := (default : ArcheGen.M256.Mask), AddedIDs := (batchArch).Added, RemovedIDs := (batchArch).Removed, OldRelation := default, NewRelation := newRel, OldTarget := (default : Entity), EventTypes := 0#8 } : EntityEvent)
    let n5 ← GoInt.toIndex (i).toInt
    let t6 ← GoSlice.get (batchArch).OldArchetype n5
    let oldArch := t6
    let relChanged := (newRel).isSome
    let _ ← arch
    let r7 ← Entity.IsZero (archTargetF ext arch) 
    let targChanged := (!r7)
    let (w, ext, relChanged, targChanged, event) ← (do
        if (oldArch).isSome then
          let oldRel : Option (BitVec 8) := default
          let _ ← oldArch
          let (w, ext, oldRel) ← (do
              if (archHasRelCompF ext oldArch) then
                let _ ← oldArch
                let oldRel := (some (archRelCompF ext oldArch))
                pure (w, ext, oldRel)
              else
                pure (w, ext, oldRel)
            )
          let relChanged := false
          let (w, ext, relChanged) ← (do
              if ((oldRel).isSome || (newRel).isSome) then
                let b10 ← (if (((oldRel).isNone) != ((newRel).isNone)) then pure true else (do let d8 ← oldRel; let d9 ← newRel; pure (d8 != d9)))
                let relChanged := b10
                pure (w, ext, relChanged)
              else
                pure (w, ext, relChanged)
            )
          let _ ← oldArch
          let _ ← arch
          let targChanged := ((archTargetF ext oldArch) != (archTargetF ext arch))
          let _ ← oldArch
          let _ ← (archNodeF ext oldArch)
          let changed := (ArcheGen.M256.Mask.Xor (event).Added (nodeMaskF ext (archNodeF ext oldArch)))
          let event := { event with Added := (ArcheGen.M256.Mask.And changed (event).Added) }
          let _ ← oldArch
          let _ ← (archNodeF ext oldArch)
          let event := { event with Removed := (ArcheGen.M256.Mask.And changed (nodeMaskF ext (archNodeF ext oldArch))) }
          let _ ← oldArch
          let event := { event with OldTarget := (archTargetF ext oldArch) }
          let event := { event with OldRelation := oldRel }
          pure (w, ext, relChanged, targChanged, event)
        else
          pure (w, ext, relChanged, targChanged, event)
      )
    let bits := (ArcheGen.M256.subscription (oldArch).isNone false (decide ((0 : Int) < ((((batchArch).Added).size : Nat) : Int))) (decide ((0 : Int) < ((((batchArch).Removed).size : Nat) : Int))) relChanged (relChanged || targChanged))
    let event := { event with EventTypes := bits }
    let trigger := ((lstSubsF ext (w).listener) &&& bits)
    let (w, ext, event) ← (do
        if ((trigger != 0#8) && (ArcheGen.M256.subscribes trigger (some (event).Added) (some (event).Removed) (lstCompsF ext (w).listener) (event).OldRelation (event).NewRelation)) then
          let n11 ← GoInt.toIndex (i).toInt
          let t12 ← GoSlice.get (batchArch).StartIndex n11
          let v13 := t12
          let n14 ← GoInt.toIndex (i).toInt
          let t15 ← GoSlice.get (batchArch).EndIndex n14
          let v16 := t15
          let start := v13
          let end_ := v16
          let e : BitVec 32 := default
          let (w, ext, event) ← (List.range ((end_).toNat - (start).toNat)).foldlM (fun (w, ext, event) eN => do
              let e : BitVec 32 := start + BitVec.ofNat 32 eN
              let _ ← arch
              let entity := (archGetEntityF ext arch e)
              let event := { event with Entity := entity }
              let (ext, r17) := notifyF ext (w).listener event
              pure (w, ext, event)
            ) (w, ext, event)
          pure (w, ext, event)
        else
          pure (w, ext, event)
      )
    pure (w, ext)

/-- **the notifier treats every recorded entry on its own** -/
theorem notifyQuery_eq_fold (w : World) (b : batchArchetypes) (ext : Ext) :
    World.notifyQuery archGetEntityF archHasRelCompF archMaskF archNodeF archRelCompF archTargetF lstCompsF lstSubsF nodeMaskF notifyF w b ext =
      (List.range (BitVec.ofInt 32 ((b.Archetype.size : Nat) : Int)).toInt.toNat).foldlM
        (entryStep archGetEntityF archHasRelCompF archMaskF archNodeF archRelCompF archTargetF lstCompsF lstSubsF nodeMaskF notifyF b) (w, ext) := by
  unfold World.notifyQuery batchArchetypes.Len
  simp only [Option.bind_eq_bind, Option.bind_some, pure]
  cases h : List.foldlM (entryStep archGetEntityF archHasRelCompF archMaskF archNodeF archRelCompF archTargetF lstCompsF lstSubsF nodeMaskF notifyF b) (w, ext)
      (List.range (BitVec.ofInt 32 ((b.Archetype.size : Nat) : Int)).toInt.toNat) with
  | none =>
    have : List.foldlM (m := Option) _ (w, ext) _ = none := h
    unfold entryStep at this
    simp only [Option.bind_eq_bind, pure] at this
    rw [this]; rfl
  | some r =>
    have : List.foldlM (m := Option) _ (w, ext) _ = some r := h
    unfold entryStep at this
    simp only [Option.bind_eq_bind, pure] at this
    rw [this]; rfl

/-- a batch without entries delivers nothing and changes nothing -/
theorem notifyQuery_empty (w : World) (b : batchArchetypes) (ext : Ext) (h : b.Archetype.arr.size = 0) :
    World.notifyQuery archGetEntityF archHasRelCompF archMaskF archNodeF archRelCompF archTargetF lstCompsF lstSubsF nodeMaskF notifyF w b ext = some (w, ext) := by
  rw [notifyQuery_eq_fold]
  have : (BitVec.ofInt 32 ((b.Archetype.size : Nat) : Int)).toInt.toNat = 0 := by
    simp [GoSlice.size, h]
  rw [this]
  rfl

end
end Arche.Props.C12_NotifyGen
