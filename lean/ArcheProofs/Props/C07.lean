/-
  C07 — Registering a filter never changes what it selects.

  A registered filter is a cache entry: the filter, the list of tables it selects, and a lazily
  built position map used to remove retired relation tables by swap-removal. On the model
  (ecs/cache.go mirrored in ArcheModel.World; tied to the Go code by the correspondence, which
  issues every sweep through the registered and the plain form and compares the cache lists as
  hidden state):

  * **the invariant** `CInv`: every entry lists exactly the tables its filter selects — the
    existing, active tables whose mask matches and, for a relation filter on a relation table,
    whose target is the filter's — each once, and its position map, when present, is exact for
    the relation tables it lists. `SInv` = `CInv` + node / table-target / coverage invariants.
  * **selection is the same** (`cached_selects_same`): under the invariants the table list of an
    entry is a permutation of what the uncached `getArchetypes` computes for the entry's filter
    (`matchingTables`, `mem_matchingTables`, `nodup_matchingTables`); so queries and batch
    operations through `Cache.Register(f)` walk the same tables as through `f`, in some order.
  * **kept by everything that can change it**: `createTable` (new table, table recycled for a new
    target, table of a plain node), `removeTable` / `cleanupTable` / `cleanupTables` (retirement,
    with the swap fix-up of the position map — finding F4 was a hole exactly here), the graph walk
    (`sinv_walk`), all row movements; hence by every successful single-entity exchange
    (`exchange_sinv`), by entity removal including the retirement of the tables of a dead target
    (`remove_sinv`), by `Register` (`register_spec`: the new entry starts with the uncached
    selection) and `Unregister` (`unregister_spec`: returns the original filter and leaves all
    other entries alone).
  Batch operations iterate a snapshot of the list (finding F5); their effect on the invariant is
  through the same `createTable` / `cleanupTable` steps (C08), `Reset` through `removeTable` (C15).
-/
import ArcheProofs.Props.C06
import ArcheProofs.Lemmas.SInv

namespace Arche.Props.C07
open Arche Arche.World Arche.Arr Arche.Storage Arche.IndexInv Arche.SameRows Arche.Graph Arche.Closed Arche.TInv Arche.KInv Arche.Move Arche.Remove Arche.Cov Arche.Cache Arche.SInv
open Arche.Props.C01 (At)

/-! ## what a registered filter selects -/

/-- the table list of a registered entry and the uncached selection of its filter are the same
    tables, each once -/
theorem cached_selects_same (w : World) (hK : KInv w) (hS : SInv w) (e : CacheEntry) (he : e ∈ w.cache) :
    e.archs.toList.Perm (w.matchingTables e.filter) := by
  have hinv := hS.cache.entries e he
  have hnd : e.archs.toList.Nodup := by
    rw [List.nodup_iff_pairwise_ne, List.pairwise_iff_getElem]
    intro i j hi hj hij heq
    simp only [Array.length_toList] at hi hj
    simp only [Array.getElem_toList] at heq
    have := hinv.inj i j e.archs[i] (Array.getElem?_eq_getElem hi) (by rw [Array.getElem?_eq_getElem hj, heq])
    omega
  rw [List.perm_ext_iff_of_nodup hnd (nodup_matchingTables w hK e.filter)]
  intro t
  rw [mem_matchingTables w hK hS.cov, ← hinv.mem t, Array.mem_toList_iff, Array.mem_iff_getElem?]

/-- what `getArchetypes` returns for a registered filter: the entry's list -/
theorem getTables_cached (w : World) (f : Filter) (id : Nat) (e : CacheEntry) (h : w.cacheFind id = some e) :
    w.getTables (.cached f id) = some e.archs.toList := by
  show Option.map (fun e => e.archs.toList) (w.cacheFind id) = some e.archs.toList
  rw [h]; rfl

/-- … and for any other filter: the uncached selection -/
theorem getTables_plain (w : World) (f : Filter) (h : ∀ g id, f ≠ .cached g id) : w.getTables f = some (w.matchingTables f) := by
  unfold getTables
  split
  · rename_i g id; exact absurd rfl (h g id)
  · rfl

/-! ## Register / Unregister -/

theorem cacheFind_mem (w : World) (id : Nat) (e : CacheEntry) (h : w.cacheFind id = some e) : e ∈ w.cache ∧ e.id = id := by
  unfold cacheFind at h
  exact ⟨Array.mem_of_find?_eq_some h, by simpa using Array.find?_some h⟩

/-- `Register(f)` for a filter that is not itself a registered one: succeeds, returns the
    registered form carrying a fresh id, the new entry lists the uncached selection of `f`, and
    the invariants are kept -/
theorem register_spec (w : World) (hK : KInv w) (hS : SInv w) (f : Filter) (hf : ∀ g id, f ≠ .cached g id) :
    (w.cacheRegister f).out = .ok (.cached f w.cacheNext) ∧
    (w.cacheRegister f).w.cacheFind w.cacheNext = some ⟨w.cacheNext, f, (w.matchingTables f).toArray, none⟩ ∧
    SInv (w.cacheRegister f).w ∧ KInv (w.cacheRegister f).w := by
  have hreg : w.cacheRegister f = (⟨{ w with cache := w.cache.push ⟨w.cacheNext, f, (w.matchingTables f).toArray, none⟩, cacheNext := w.cacheNext + 1 },
      .ok (.cached f w.cacheNext), []⟩ : Res Filter) := by
    unfold cacheRegister
    split
    · rename_i g id; exact absurd rfl (hf g id)
    · rfl
  rw [hreg]
  simp only []
  refine ⟨trivial, ?_, ?_, kinv_congr (w := w) rfl rfl rfl hK⟩
  · unfold cacheFind
    simp only []
    rw [Array.find?_push]
    have : w.cache.find? (fun e => e.id == w.cacheNext) = none := by
      rw [Array.find?_eq_none]
      intro e he
      have := hS.cache.ids e he
      simp; omega
    rw [this]; simp
  · have hbase : SInv ({ w with cache := w.cache, cacheNext := w.cacheNext } : World) := hS
    refine ⟨⟨hS.node.tnode, hS.node.tables, hS.node.free, hS.node.tmap⟩,
      ⟨hS.tgt.sound, hS.tgt.complete, hS.tgt.free, hS.tgt.freeNodup, hS.tgt.empty, hS.tgt.norel⟩,
      ⟨hS.cov.cover, hS.cov.active, hS.cov.single, hS.cov.nonempty⟩, ?_⟩
    refine ⟨?_, ?_, ?_⟩
    · intro e he
      simp only [] at he
      rw [Array.mem_push] at he
      rcases he with he | he
      · have h0 := hS.cache.entries e he
        exact ⟨h0.inj, h0.mem, h0.sound, h0.complete⟩
      · subst he
        have hnd := nodup_matchingTables w hK f
        refine ⟨?_, ?_, fun ix h => (by cases h), fun ix h => (by cases h)⟩
        · intro i j x hi hj
          simp only [List.getElem?_toArray] at hi hj
          rw [List.nodup_iff_pairwise_ne, List.pairwise_iff_getElem] at hnd
          have hilt : i < (w.matchingTables f).length := by
            apply Classical.byContradiction; intro hx
            rw [List.getElem?_eq_none (by omega)] at hi; cases hi
          have hjlt : j < (w.matchingTables f).length := by
            apply Classical.byContradiction; intro hx
            rw [List.getElem?_eq_none (by omega)] at hj; cases hj
          rw [List.getElem?_eq_getElem hilt] at hi
          rw [List.getElem?_eq_getElem hjlt] at hj
          have heq : (w.matchingTables f)[i] = (w.matchingTables f)[j] := by
            rw [Option.some.inj hi, Option.some.inj hj]
          rcases Nat.lt_trichotomy i j with h | h | h
          · exact absurd heq (hnd i j hilt hjlt h)
          · exact h
          · exact absurd heq.symm (hnd j i hjlt hilt h)
        · intro t
          simp only [List.getElem?_toArray]
          rw [← List.mem_iff_getElem?, mem_matchingTables w hK hS.cov]
          exact Iff.rfl
    · intro e he
      simp only [] at he ⊢
      rw [Array.mem_push] at he
      rcases he with he | he
      · have := hS.cache.ids e he; omega
      · subst he; simp
    · intro i j a b hi hj hab
      simp only [] at hi hj
      rw [Array.getElem?_push] at hi hj
      split at hi <;> split at hj
      · omega
      · cases hi
        have hb := hS.cache.ids b (Array.mem_of_getElem? hj)
        simp only [] at hab; omega
      · cases hj
        have ha := hS.cache.ids a (Array.mem_of_getElem? hi)
        simp only [] at hab; omega
      · exact hS.cache.idsInj i j a b hi hj hab

/-- the cache array after the swap-removal of `Unregister` -/
theorem unreg_get (c : Array CacheEntry) (idx : Nat) (h : idx < c.size) (i : Nat) :
    ((if idx != c.size - 1 then c.setIfInBounds idx (c.getD (c.size - 1) default) else c).pop)[i]? =
      if i + 1 < c.size then (if i = idx then c[c.size - 1]? else c[i]?) else none := by
  simp only [Array.getElem?_pop]
  by_cases hl : idx = c.size - 1
  · simp only [hl, bne_self_eq_false, Bool.false_eq_true, ↓reduceIte]
    by_cases hi : i + 1 < c.size
    · have h1 : i < c.size - 1 := by omega
      have h2 : i ≠ c.size - 1 := by omega
      simp [hi, h1, h2]
    · have h1 : ¬ i < c.size - 1 := by omega
      simp [hi, h1]
  · have hb : (idx != c.size - 1) = true := by simpa using hl
    simp only [hb, ↓reduceIte, Array.size_setIfInBounds]
    by_cases hi : i + 1 < c.size
    · have h1 : i < c.size - 1 := by omega
      simp only [h1, ↓reduceIte, hi]
      rw [Array.getElem?_setIfInBounds]
      by_cases e : i = idx
      · subst e
        simp only [↓reduceIte, h]
        rw [Array.getD_eq_getD_getElem?, Array.getElem?_eq_getElem (by omega : c.size - 1 < c.size)]
        rfl
      · simp [e, Ne.symm e]
    · have h1 : ¬ i < c.size - 1 := by omega
      simp [hi, h1]

/-- `Unregister` of a registered id: succeeds, returns the original filter, keeps all other
    entries as they are (only their order may change) and the invariants -/
theorem unregister_spec (w : World) (hK : KInv w) (hS : SInv w) (id : Nat) (e : CacheEntry) (h : w.cacheFind id = some e) :
    (w.cacheUnregister id).out = .ok e.filter ∧
    (∀ e', e' ∈ (w.cacheUnregister id).w.cache ↔ (e' ∈ w.cache ∧ e'.id ≠ id)) ∧
    SInv (w.cacheUnregister id).w ∧ KInv (w.cacheUnregister id).w := by
  obtain ⟨hmem, hid⟩ := cacheFind_mem w id e h
  -- the index found is the entry's position
  obtain ⟨idx, hidx⟩ := Array.mem_iff_getElem?.1 hmem
  have hlt : idx < w.cache.size := by
    apply Classical.byContradiction; intro hx
    rw [Array.getElem?_eq_none (by omega)] at hidx; cases hidx
  have hfind : w.cache.findIdx? (fun e => e.id == id) = some idx := by
    rw [Array.findIdx?_eq_some_iff_getElem]
    refine ⟨hlt, ?_, ?_⟩
    · rw [Array.getElem?_eq_getElem hlt] at hidx
      rw [Option.some.inj hidx]; simpa using hid
    · intro j hj
      have hjlt : j < w.cache.size := by omega
      simp only [Bool.not_eq_true, beq_eq_false_iff_ne, ne_eq]
      intro heq
      have := hS.cache.idsInj j idx w.cache[j] e (Array.getElem?_eq_getElem hjlt) hidx (by rw [heq, hid])
      omega
  have hgetD : w.cache.getD idx default = e := by
    rw [Array.getD_eq_getD_getElem?, hidx]; rfl
  have hunreg : w.cacheUnregister id = (⟨{ w with cache := (if idx != w.cache.size - 1 then w.cache.setIfInBounds idx (w.cache.getD (w.cache.size - 1) default) else w.cache).pop },
      .ok e.filter, []⟩ : Res Filter) := by
    unfold cacheUnregister
    rw [hfind]
    simp only [hgetD]
  rw [hunreg]
  simp only []
  have hget := unreg_get w.cache idx hlt
  have hmem' : ∀ e', e' ∈ (if idx != w.cache.size - 1 then w.cache.setIfInBounds idx (w.cache.getD (w.cache.size - 1) default) else w.cache).pop ↔
      (e' ∈ w.cache ∧ e'.id ≠ id) := by
    intro e'
    rw [Array.mem_iff_getElem?, Array.mem_iff_getElem?]
    constructor
    · intro ⟨i, hi⟩
      rw [hget] at hi
      split at hi
      · rename_i hi1
        split at hi
        · rename_i hi2
          refine ⟨⟨_, hi⟩, ?_⟩
          intro heq
          have := hS.cache.idsInj (w.cache.size - 1) idx e' e hi hidx (by rw [heq, hid])
          omega
        · rename_i hi2
          refine ⟨⟨_, hi⟩, ?_⟩
          intro heq
          exact hi2 (hS.cache.idsInj i idx e' e hi hidx (by rw [heq, hid]))
      · cases hi
    · intro ⟨⟨j, hj⟩, hne⟩
      have hjlt : j < w.cache.size := by
        apply Classical.byContradiction; intro hx
        rw [Array.getElem?_eq_none (by omega)] at hj; cases hj
      have hjne : j ≠ idx := by
        intro hx; rw [hx, hidx] at hj; cases hj; exact hne hid
      by_cases hl : j = w.cache.size - 1
      · refine ⟨idx, ?_⟩
        rw [hget, if_pos (by omega), if_pos rfl, ← hl]; exact hj
      · refine ⟨j, ?_⟩
        rw [hget, if_pos (by omega), if_neg hjne]; exact hj
  refine ⟨trivial, hmem', ?_, kinv_congr (w := w) rfl rfl rfl hK⟩
  refine ⟨⟨hS.node.tnode, hS.node.tables, hS.node.free, hS.node.tmap⟩,
    ⟨hS.tgt.sound, hS.tgt.complete, hS.tgt.free, hS.tgt.freeNodup, hS.tgt.empty, hS.tgt.norel⟩,
    ⟨hS.cov.cover, hS.cov.active, hS.cov.single, hS.cov.nonempty⟩, ?_⟩
  refine ⟨?_, ?_, ?_⟩
  · intro e' he'
    have h0 := hS.cache.entries e' ((hmem' e').1 he').1
    exact ⟨h0.inj, h0.mem, h0.sound, h0.complete⟩
  · intro e' he'
    exact hS.cache.ids e' ((hmem' e').1 he').1
  · intro i j a b hi hj hab
    simp only [] at hi hj
    rw [hget] at hi hj
    split at hi
    · rename_i hi1
      split at hj
      · rename_i hj1
        have hi' : w.cache[if i = idx then w.cache.size - 1 else i]? = some a := by
          by_cases e : i = idx
          · rw [if_pos e] at hi ⊢; exact hi
          · rw [if_neg e] at hi ⊢; exact hi
        have hj' : w.cache[if j = idx then w.cache.size - 1 else j]? = some b := by
          by_cases e : j = idx
          · rw [if_pos e] at hj ⊢; exact hj
          · rw [if_neg e] at hj ⊢; exact hj
        have := hS.cache.idsInj _ _ a b hi' hj' hab
        split at this <;> split at this <;> omega
      · cases hj
    · cases hi

/-! ## kept by the operations -/

/-- `findOrCreateArchetype` keeps the skeleton invariant, whether it finds the table, creates a
    new one, recycles a retired one, or panics half-way through the graph walk -/
theorem findOrCreateTable_sinv (w : World) (hS : SInv w) (hG : GraphInv w) (start : Nat) (hs : start < w.tables.size)
    (add rem : List CompId) (target : Entity) (hrem : RemOK (w.tableMask start) rem) :
    SInv (w.findOrCreateTable start add rem target).1 := by
  obtain ⟨w2, n2, s2, i2, g2, hn2, hcl, hres⟩ := findOrCreateTable_parts w hS.node hG start hs add rem target hrem
  have h2 : SInv w2 := sinv_walk hcl i2 hS
  rcases hres with ⟨p, hp⟩ | ⟨_, ⟨t, hg, hp⟩ | ⟨hg, hp⟩⟩
  · rw [hp]; exact h2
  · rw [hp]; exact h2
  · rw [hp]
    simp only []
    apply sinv_createTable w2 h2 n2 hn2 target true
    · intro hr; unfold nodeGetTable at hg; simpa [hr] using hg
    · intro hr
      unfold nodeGetTable at hg
      simp only [hr, Bool.false_eq_true, ↓reduceIte] at hg
      rw [Array.getElem?_eq_none_iff] at hg; omega

/-- every successful single-entity exchange (Add / Remove / Exchange / Assign /
    Relations.Exchange / Builder.Add) keeps the cache consistent with the tables -/
theorem exchange_sinv (w : World) (e : Entity) (add rem : List CompId) (rel : Option CompId) (target : Entity) (x : Exchanged)
    (hK : KInv w) (hS : SInv w) (hl : loc w e.id = some (w.locOf e)) (he : (rowAt w (w.locOf e).tbl (w.locOf e).row).ent = e)
    (hok : (w.exchangeNoNotify e add rem rel target).out = .ok (some x)) :
    SInv (w.exchangeNoNotify e add rem rel target).w := by
  obtain ⟨tgt, mask, hmask, htgt, hne, hf, hw⟩ := C01.exchange_world w e add rem rel target x hok
  rw [hw]
  generalize hsrc : w.locOf e = l at *
  have hv : validRow w l.tbl l.row := (hK.idx.fwd _ _ hl).1
  obtain ⟨hremok, _⟩ := C01.remOK_of_exchangeMask _ _ _ _ hmask
  obtain ⟨s1, n1, g1, hspec⟩ := findOrCreateTable_spec w hK.node hK.graph l.tbl hv.1 add rem tgt hremok
  obtain ⟨t1, htgt1⟩ := tinv_findOrCreateTable w hK.node hK.graph hK.tgt l.tbl hv.1 add rem tgt hremok
  have hS1 := findOrCreateTable_sinv w hS hK.graph l.tbl hv.1 add rem tgt hremok
  obtain ⟨htlt, htmask⟩ := hspec x.tbl hf
  obtain ⟨hact1, _⟩ := htgt1 x.tbl hf
  generalize hw1 : (w.findOrCreateTable l.tbl add rem tgt).1 = w1 at *
  have i1 : IdxInv w1 := SameRows.idxInv s1 hK.node.tnode hK.idx
  have hv1 : validRow w1 l.tbl l.row := (i1.fwd _ _ (by rw [SameRows.loc_eq s1]; exact hl)).1
  have he1 : (rowAt w1 l.tbl l.row).ent = e := by rw [SameRows.rowAt_eq s1 _ _ hv.1]; exact he
  have hadds := findOrCreateTable_ok_adds w l.tbl add rem tgt x.tbl (by rw [← hf])
  have hmne := C01.newMask_ne _ _ _ hremok hadds hne
  have hsrcmask : w1.tableMask l.tbl = w.tableMask l.tbl := SameRows.tableMask_eq s1 hK.node.tnode _ hv.1
  have htne : x.tbl ≠ l.tbl := by
    intro heq; apply hmne; rw [← htmask, heq, ← hsrcmask]; rfl
  rw [moveEntity_eq w1 e l x.tbl htlt hv1 htne he1]
  have hS2 := sinv_dropRow w1 hS1 l.tbl l.row hv1.1 hv1.2
  have hsz2 : (dropRow w1 l.tbl l.row).tables.size = w1.tables.size := tables_size_dropRow _ _ _ hv1.1 hv1.2
  have hact2 : ((dropRow w1 l.tbl l.row).tableOf x.tbl).active = true := by
    rw [(fields_dropRow _ _ _ hv1.1 hv1.2 x.tbl).2.1]; exact hact1
  have hS3 := sinv_pushRow _ hS2 x.tbl (by rw [hsz2]; exact htlt) (movedRow w1 e l x.tbl)
    ((w1.tableOf x.tbl).extend (w1.nodeOf (w1.tableOf x.tbl).node).capInc 1).cap hact2
  have hS4 := sinv_markTarget _ hS3 tgt
  apply sinv_cleanupTable _ hS4
  have : ((pushRow (dropRow w1 l.tbl l.row) x.tbl (movedRow w1 e l x.tbl)
      ((w1.tableOf x.tbl).extend (w1.nodeOf (w1.tableOf x.tbl).node).capInc 1).cap).markTarget tgt).tables.size = w1.tables.size := by
    unfold markTarget setFlag; split
    · rw [tables_size_pushRow, hsz2]
    · show (pushRow _ _ _ _).tables.size = _; rw [tables_size_pushRow, hsz2]
  rw [this]; exact hv1.1

/-- removing an entity — including the retirement of every empty table that had it as its
    target, and of its own table if that became an empty table of a dead target — keeps the cache
    consistent with the tables -/
theorem remove_sinv (w : World) (e : Entity) (hK : KInv w) (hS : SInv w) (hl : w.isLocked = false) (ha : w.checkAlive e = none)
    (hloc : loc w e.id = some (w.locOf e)) (he : (rowAt w (w.locOf e).tbl (w.locOf e).row).ent = e) :
    SInv (w.removeEntity e).w := by
  obtain ⟨_, lk, hw⟩ := removeEntity_w w e hl ha
  rw [hw]
  generalize hl0 : w.locOf e = l at *
  have hK0 : KInv ({ w with locks := lk } : World) := kinv_congr (w := w) rfl rfl rfl hK
  have hS0 : SInv ({ w with locks := lk } : World) := sinv_congr (w := w) rfl rfl rfl rfl hS
  generalize hw0 : ({ w with locks := lk } : World) = w0 at *
  have hloc0 : loc w0 e.id = some l := by rw [← hw0]; exact hloc
  have he0 : (rowAt w0 l.tbl l.row).ent = e := by rw [← hw0]; exact he
  have hv : validRow w0 l.tbl l.row := (hK0.idx.fwd _ _ hloc0).1
  have hdrop : ((({ (w0.removeRowFix l.tbl l.row) with pool := (w0.removeRowFix l.tbl l.row).pool.recycle e } : World)).setIndex e.id none)
      = { dropRow w0 l.tbl l.row with pool := w0.pool.recycle e } := by
    unfold dropRow
    simp only [he0]
    have : (w0.removeRowFix l.tbl l.row).pool = w0.pool := by
      rw [removeRowFix_eq _ _ _ hv.1 hv.2]; split <;> rfl
    rw [this]; rfl
  unfold removeCore
  simp only []
  rw [hdrop]
  have hk1 : KInv (dropRow w0 l.tbl l.row) :=
    ⟨nodeInv_dropRow w0 hK0.node _ _ hv.1 hv.2, graphInv_of_nodes (node_dropRow _ _ _ hv.1 hv.2 0).2 hK0.graph,
     dropRow_inv w0 hK0.idx _ _ hv, tinv_dropRow w0 hK0.tgt _ _ hv.1 hv.2⟩
  have hS1 := sinv_dropRow w0 hS0 l.tbl l.row hv.1 hv.2
  generalize hw2 : ({ dropRow w0 l.tbl l.row with pool := w0.pool.recycle e } : World) = w2
  have hK2 : KInv w2 := by rw [← hw2]; exact kinv_congr (w := dropRow w0 l.tbl l.row) rfl rfl rfl hk1
  have hS2 : SInv w2 := by rw [← hw2]; exact sinv_congr (w := dropRow w0 l.tbl l.row) rfl rfl rfl rfl hS1
  have hsz2 : w2.tables.size = w0.tables.size := by rw [← hw2]; exact tables_size_dropRow _ _ _ hv.1 hv.2
  have hS3 : SInv (if w2.flag e.id then (w2.cleanupTables e).setFlag e.id false else w2) ∧
      (if w2.flag e.id then (w2.cleanupTables e).setFlag e.id false else w2).tables.size = w2.tables.size := by
    split
    · refine ⟨sinv_congr (w := w2.cleanupTables e) rfl rfl rfl rfl (sinv_cleanupTables w2 hK2 hS2 e), ?_⟩
      exact (cleaned_cleanupTables w2 hK2 e).tsize
    · exact ⟨hS2, rfl⟩
  apply sinv_cleanupTable _ hS3.1
  rw [hS3.2, hsz2]; exact hv.1

/-! ## non-vacuity -/

/-- a world with a relation filter registered before and a mask filter registered after the
    tables exist; one target dies, its table is retired and recycled for another target: both
    entries list exactly the tables the uncached evaluation selects -/
example :
    let w0 := World.init ⟨4, 0, 8⟩
    let w1 := (w0.registerComponent true false).w          -- component 0: a relation
    let w2 := (w1.newEntity []).w                            -- e1: target A
    let w3 := (w2.newEntity []).w                            -- e2: target B
    let w4 := (w3.cacheRegister (.rel (.all 1) ⟨1, 0⟩)).w    -- c0: children of A, registered first
    let w5 := (w4.newEntityTarget 0 ⟨1, 0⟩ [(0, 0)] false).w -- e3 child of A
    let w6 := (w5.cacheRegister (.all 1)).w                  -- c1: every relation carrier
    let w7 := (w6.removeEntity ⟨3, 0⟩).w                     -- child gone
    let w8 := (w7.removeEntity ⟨1, 0⟩).w                     -- target A dies: its empty table is retired
    let w9 := (w8.newEntityTarget 0 ⟨2, 0⟩ [(0, 0)] false).w -- table recycled for target B
    (w9.cache.toList.map (fun e => (e.archs.toList, w9.matchingTables e.filter))) = [([], []), ([1], [1])] := by
  decide +kernel

end Arche.Props.C07
