/-
  C09 / C10 / C02 companion — `World.newEntitiesNoNotify` (the worker of `Builder.NewBatch`, `NewBatchQ` and the
  generic `MapN.NewBatch`; ecs/world_internal.go), REGENERATED on every run: the lock check, the count check and the
  target check come before anything else, then the table is found or created (`findOrCreateArchetype`, a
  state-threading parameter under the frame hypothesis `FindFrame`), the relation is validated, the target flagged and
  `createEntities` (regenerated, `C02_Create.createEntities_spec`) issues the handles.

  * `newEntities_locked`: **a locked world refuses before anything happens** (the check is the first statement: no
    table, no graph node, no target flag exists afterwards that did not exist before — the function returns `none`
    without having called any extern);
  * `newEntities_count`, `newEntities_dead_target`: a non-positive count and a dead target are refused next;
  * `newEntities_effect`: on success the pool afterwards is the pool after `count` successive `entityPool.Get`s, and
    nothing but pool, index, target flags, filter cache and node lists changed.
-/
import ArcheProofs.Props.C01_ExchangeGen

namespace Arche.Props.C09_NewBatch
open ArcheGen ArcheGen.P256 Arche Arche.Props

section
variable {Ext : Type}
  (archAllocNF : Ext → Option Nat → BitVec 32 → Ext × Unit) (archHasComponentF : Ext → Option Nat → BitVec 8 → Bool)
  (archLenF : Ext → Option Nat → BitVec 32) (archNodeF : Ext → Option Nat → Option Nat)
  (archSetEntityF : Ext → Option Nat → BitVec 32 → P256.Entity → Ext × Unit)
  (findOrCreateF : Ext → P256.World → Option Nat → GoSlice (BitVec 8) → GoSlice (BitVec 8) → P256.Entity → Ext × P256.World × Option Nat)
  (nodeHasRelationF : Ext → Option Nat → Bool) (nodeRelationF : Ext → Option Nat → BitVec 8)
  (pagedGetF : Ext → Nat → BitVec 32 → Option Nat) (staleF : Nat → entityIndex)

theorem newEntities_locked (w : P256.World) (count : Int) (tid : BitVec 8) (hasT : Bool) (target : P256.Entity) (comps : GoSlice (BitVec 8)) (ext : Ext)
    (h : LockMask.isLocked (C09_LockPool.absLM w.locks) = true) :
    P256.World.newEntitiesNoNotify archAllocNF archHasComponentF archLenF archNodeF archSetEntityF findOrCreateF nodeHasRelationF nodeRelationF
      pagedGetF staleF w count tid hasT target comps ext = none := by
  unfold P256.World.newEntitiesNoNotify
  rw [C09_WorldLock.checkLocked_spec]
  simp [h, bind, Option.bind]

theorem newEntities_count (w : P256.World) (count : Int) (tid : BitVec 8) (hasT : Bool) (target : P256.Entity) (comps : GoSlice (BitVec 8)) (ext : Ext)
    (hc : count < 1) :
    P256.World.newEntitiesNoNotify archAllocNF archHasComponentF archLenF archNodeF archSetEntityF findOrCreateF nodeHasRelationF nodeRelationF
      pagedGetF staleF w count tid hasT target comps ext = none := by
  unfold P256.World.newEntitiesNoNotify
  rw [C09_WorldLock.checkLocked_spec]
  by_cases hl : LockMask.isLocked (C09_LockPool.absLM w.locks) = true
  · simp [hl, bind, Option.bind]
  · simp [hl, bind, Option.bind, hc]

theorem newEntities_dead_target (w : P256.World) (count : Int) (tid : BitVec 8) (hasT : Bool) (target : P256.Entity) (comps : GoSlice (BitVec 8)) (ext : Ext)
    (hz : target.id ≠ 0#32)
    (h : Pool.alive? (C02_Pool.absPool w.entityPool) (C02_Pool.absE target) ≠ some true) :
    P256.World.newEntitiesNoNotify archAllocNF archHasComponentF archLenF archNodeF archSetEntityF findOrCreateF nodeHasRelationF nodeRelationF
      pagedGetF staleF w count tid hasT target comps ext = none := by
  unfold P256.World.newEntitiesNoNotify
  rw [C09_WorldLock.checkLocked_spec]
  by_cases hl : LockMask.isLocked (C09_LockPool.absLM w.locks) = true
  · simp [hl, bind, Option.bind]
  · simp only [hl, Bool.false_eq_true, ↓reduceIte, bind, Option.bind]
    by_cases hc : count < 1
    · simp [hc]
    · have hz' : (target.id == 0#32) = false := by simpa using hz
      simp only [hc, decide_false, Bool.false_eq_true, ↓reduceIte, Entity.IsZero, pure, hz', Bool.not_false]
      cases ha : Pool.alive? (C02_Pool.absPool w.entityPool) (C02_Pool.absE target) with
      | none => simp only [C02_Create.alive_none _ _ ha]
      | some b =>
        cases b with
        | true => exact absurd ha h
        | false => simp only [C02_Create.alive_eq _ _ _ ha, Bool.not_false, ↓reduceIte]

/-- **what a successful batch creation does to the world** -/
theorem newEntities_effect (hFind : C01_ExchangeGen.FindFrame findOrCreateF)
    (w w' : P256.World) (count : Int) (tid : BitVec 8) (hasT : Bool) (target : P256.Entity) (comps : GoSlice (BitVec 8)) (ext ext' : Ext)
    (ra : Option Nat) (rs : BitVec 32)
    (hcap : 0 ≤ ArcheGen.Arith.capacity ((w.entities.arr.size : Int) + ((BitVec.ofInt 32 count).toNat : Int) - (w.entityPool.available.toNat : Int)) w.config.CapacityIncrement)
    (hslice : w.entities.arr.size ≤ w.entities.cap)
    (h : P256.World.newEntitiesNoNotify archAllocNF archHasComponentF archLenF archNodeF archSetEntityF findOrCreateF nodeHasRelationF nodeRelationF
      pagedGetF staleF w count tid hasT target comps ext = some (w', ext', (ra, rs))) :
    LockMask.isLocked (C09_LockPool.absLM w.locks) = false ∧ 1 ≤ count ∧
    (∃ hs, C02_Create.getN (BitVec.ofInt 32 count).toNat w.entityPool = some (w'.entityPool, hs)) ∧
    w' = { w with entityPool := w'.entityPool, entities := w'.entities, targetEntities := w'.targetEntities,
                  filterCache := w'.filterCache, nodePointers := w'.nodePointers, relationNodes := w'.relationNodes } := by
  unfold P256.World.newEntitiesNoNotify at h
  rw [C09_WorldLock.checkLocked_spec] at h
  by_cases hlk : LockMask.isLocked (C09_LockPool.absLM w.locks) = true
  · simp [hlk, bind, Option.bind] at h
  have hlk' : LockMask.isLocked (C09_LockPool.absLM w.locks) = false := by simpa using hlk
  simp only [hlk', Bool.false_eq_true, ↓reduceIte, Option.bind_eq_bind, Option.bind_some, pure] at h
  by_cases hc : count < 1
  · simp [hc] at h
  refine ⟨hlk', by omega, ?_⟩
  simp only [hc, decide_false, Bool.false_eq_true, ↓reduceIte, Entity.IsZero, pure, Option.bind_some] at h
  obtain ⟨⟨b5, w1⟩, hb5, hq⟩ := Option.bind_eq_some_iff.mp h
  clear h; have h := hq; clear hq
  have hw1 : w = w1 := by
    split at hb5
    · obtain ⟨⟨p, b⟩, hal, hb5⟩ := Option.bind_eq_some_iff.mp hb5
      have hp := (C02_Pool.alive_refines w.entityPool target).2 _ hal
      simp only at hp
      simp only [Option.some.injEq, Prod.mk.injEq] at hb5
      rw [← hb5.2, hp]
    · simp only [Option.some.injEq, Prod.mk.injEq] at hb5
      exact hb5.2
  subst hw1
  dsimp only at h
  cases b5 with
  | true => simp at h
  | false =>
    simp only [Bool.false_eq_true, ↓reduceIte] at h
    -- the table
    obtain ⟨⟨w2, e2, a2⟩, hj, hq⟩ := Option.bind_eq_some_iff.mp h
    clear h; have h := hq; clear hq
    have hw2 : w2 = { w with filterCache := w2.filterCache, nodePointers := w2.nodePointers, relationNodes := w2.relationNodes } := by
      split at hj
      · simp only [Option.some.injEq, Prod.mk.injEq] at hj
        rw [← hj.1]
        exact hFind _ _ _ _ _ _
      · simp only [Option.some.injEq, Prod.mk.injEq] at hj
        rw [← hj.1]
    dsimp only at h
    -- the relation check and the target flag
    obtain ⟨⟨w3, e3⟩, hj3, hq⟩ := Option.bind_eq_some_iff.mp h
    clear h; have h := hq; clear hq
    have hw3 : w3 = { w2 with targetEntities := w3.targetEntities } := by
      split at hj3
      · obtain ⟨w4, hcr, hj3⟩ := Option.bind_eq_some_iff.mp hj3
        have hw4 := (C05_SetRelGen.checkRelation_same _ _ _ _ _ _ _ _ hcr).symm
        subst hw4
        obtain ⟨⟨w5, e5⟩, hj5, hj3⟩ := Option.bind_eq_some_iff.mp hj3
        simp only [Option.some.injEq, Prod.mk.injEq] at hj3
        rw [← hj3.1]
        split at hj5
        · obtain ⟨o, _, hj5⟩ := Option.bind_eq_some_iff.mp hj5
          simp only [Option.some.injEq, Prod.mk.injEq] at hj5
          rw [← hj5.1]
        · simp only [Option.some.injEq, Prod.mk.injEq] at hj5
          rw [← hj5.1]
      · simp only [Option.some.injEq, Prod.mk.injEq] at hj3
        rw [← hj3.1]
    dsimp only at h
    obtain ⟨a', _, hq⟩ := Option.bind_eq_some_iff.mp h
    clear h; have h := hq; clear hq
    obtain ⟨⟨w6, e6⟩, hce, hq⟩ := Option.bind_eq_some_iff.mp h
    clear h; have h := hq; clear hq
    simp only [Option.some.injEq, Prod.mk.injEq] at h
    have hent3 : w3.entities = w.entities := by rw [hw3]; simp only; rw [hw2]
    have hpool3 : w3.entityPool = w.entityPool := by rw [hw3]; simp only; rw [hw2]
    have hcfg3 : w3.config = w.config := by rw [hw3]; simp only; rw [hw2]
    obtain ⟨hs, hgetN, _, hfr, _⟩ := C02_Create.createEntities_spec archAllocNF archLenF archSetEntityF staleF w3 w6 a2 (BitVec.ofInt 32 count) e3 e6
      (by rw [hent3, hpool3, hcfg3]; exact hcap) (by rw [hent3]; exact hslice) hce
    rw [← h.1]
    refine ⟨⟨hs, by rw [← hpool3]; exact hgetN⟩, ?_⟩
    rw [hfr, hw3]; simp only; rw [hw2]
end

end Arche.Props.C09_NewBatch
