/-
  C01 (companion) — the archetype graph walk `World.findOrCreateArchetype`, with `findOrCreateArchetypeSlow` and the
  search `findArchetypeSlow`, REGENERATED from ecs/world_internal.go. Nodes, their masks and their neighbour maps are
  objects outside the translated set (hidden state `Ext`); `createArchetypeNode` is a state-threading parameter.
-/
import ArcheProofs.Props.C01_ExchangeGen
import ArcheProofs.Props.C16_Registry

namespace Arche.Props.C01_FindGen
open ArcheGen ArcheGen.P256 Arche Arche.Props

section
variable {Ext : Type}
  (archHasRelCompF : Ext → Option Nat → Bool) (archHasRelationF : Ext → Option Nat → Bool)
  (archInitF : Ext → Option Nat → Option Nat → Option Nat → BitVec 32 → Bool → Int → P256.Entity → Ext × Unit)
  (archMaskF : Ext → Option Nat → ArcheGen.M256.Mask) (archNodeF : Ext → Option Nat → Option Nat)
  (archRelCompF : Ext → Option Nat → BitVec 8) (archTargetF : Ext → Option Nat → P256.Entity)
  (createNodeF : Ext → P256.World → ArcheGen.M256.Mask → BitVec 8 → Bool → Ext × P256.World × Option Nat)
  (matchesF : GoAny → ArcheGen.M256.Mask → Bool)
  (nodeCreateArchetypeF : Ext → Option Nat → Int → P256.Entity → Ext × Option Nat)
  (nodeGetArchetypeF : Ext → Option Nat → P256.Entity → Option Nat × Bool) (nodeHasRelationF : Ext → Option Nat → Bool)
  (nodeMaskF : Ext → Option Nat → ArcheGen.M256.Mask)
  (nodeNeighborGetF : Ext → Option Nat → BitVec 8 → Option Nat × Bool)
  (nodeNeighborSetF : Ext → Option Nat → BitVec 8 → Option Nat → Ext × Unit)
  (nodeSetArchetypeF : Ext → Option Nat → Option Nat → Ext × Unit) (pagedAddF : Ext → Nat → Ext × Unit)
  (pagedGetF : Ext → Nat → BitVec 32 → Option Nat) (pagedLenF : Ext → Nat → BitVec 32) (relationTargetF : GoAny → Option P256.Entity)

/-- the search loop of `findArchetypeSlow`, as a function of the list of indices still to visit -/
def searchBody (mask : M256.Mask) (w : P256.World) (ext : Ext) :
    Option (Option Nat × Bool) → Nat → Option (Option (Option Nat × Bool)) :=
  fun found iN =>
    if found.isSome = true then pure found
    else
      let i : BitVec 32 := BitVec.ofNat 32 iN
      let nd := pagedGetF ext w.nodes i
      do
        let _ ← nd
        if (nodeMaskF ext nd == mask) = true then pure (some (nd, true)) else pure none

theorem search_found (mask : M256.Mask) (w : P256.World) (ext : Ext) (l : List Nat) (r : Option Nat × Bool)
    (res : Option (Option Nat × Bool))
    (h : List.foldlM (searchBody nodeMaskF pagedGetF mask w ext) (some r) l = some res) : res = some r := by
  induction l with
  | nil => simp only [List.foldlM_nil, pure, Option.some.injEq] at h; exact h.symm
  | cons k l ih =>
    rw [List.foldlM_cons] at h
    simp only [searchBody, Option.isSome_some, ↓reduceIte, pure, bind, Option.bind] at h
    exact ih h

/-- what the search returns: the first node (in index order) whose mask is the one looked for, or nothing when
    no node in the list has it; every node visited before is a non-nil node with a different mask -/
theorem search_spec (mask : M256.Mask) (w : P256.World) (ext : Ext) (l : List Nat)
    (res : Option (Option Nat × Bool))
    (h : List.foldlM (searchBody nodeMaskF pagedGetF mask w ext) none l = some res) :
    (∀ nd ok, res = some (nd, ok) → ok = true ∧ nd.isSome = true ∧ nodeMaskF ext nd = mask ∧
        ∃ i ∈ l, nd = pagedGetF ext w.nodes (BitVec.ofNat 32 i)) ∧
    (res = none → ∀ i ∈ l, nodeMaskF ext (pagedGetF ext w.nodes (BitVec.ofNat 32 i)) ≠ mask) := by
  induction l with
  | nil =>
    simp only [List.foldlM_nil, pure, Option.some.injEq] at h
    subst h
    exact ⟨fun _ _ h => (by cases h), fun _ i hi => (by cases hi)⟩
  | cons k l ih =>
    rw [List.foldlM_cons] at h
    cases hn : pagedGetF ext w.nodes (BitVec.ofNat 32 k) with
    | none => simp [searchBody, hn, bind, Option.bind] at h
    | some n =>
      by_cases hm : nodeMaskF ext (some n) = mask
      · have hb : (searchBody nodeMaskF pagedGetF mask w ext none k) = some (some (some n, true)) := by
          simp [searchBody, hn, hm, bind, Option.bind]
        rw [hb] at h
        simp only [bind, Option.bind] at h
        have := search_found nodeMaskF pagedGetF mask w ext l _ _ h
        subst this
        refine ⟨?_, fun h => (by cases h)⟩
        intro nd ok hr
        simp only [Option.some.injEq, Prod.mk.injEq] at hr
        obtain ⟨h1, h2⟩ := hr
        subst h1; subst h2
        exact ⟨rfl, rfl, hm, k, List.mem_cons_self, hn.symm⟩
      · have hb : (searchBody nodeMaskF pagedGetF mask w ext none k) = some none := by
          simp [searchBody, hn, hm, bind, Option.bind]
        rw [hb] at h
        simp only [bind, Option.bind] at h
        obtain ⟨ih1, ih2⟩ := ih h
        refine ⟨?_, ?_⟩
        · intro nd ok hr
          obtain ⟨a, b, c, i, hi, e⟩ := ih1 nd ok hr
          exact ⟨a, b, c, i, List.mem_cons_of_mem _ hi, e⟩
        · intro hr i hi
          rcases List.mem_cons.mp hi with rfl | hi
          · rw [hn]; exact hm
          · exact ih2 hr i hi

/-- `findArchetypeSlow` never changes anything; it answers `(nd, true)` with a non-nil node whose mask is the
    requested one, or `(nil, false)` when no node has that mask -/
theorem findSlow_spec (w w' : P256.World) (mask : M256.Mask) (ext ext' : Ext) (nd : Option Nat) (ok : Bool)
    (h : P256.World.findArchetypeSlow nodeMaskF pagedGetF pagedLenF w mask ext = some (w', ext', (nd, ok))) :
    w' = w ∧ ext' = ext ∧
    (ok = true → nd.isSome = true ∧ nodeMaskF ext nd = mask ∧
        ∃ i < (pagedLenF ext w.nodes).toInt.toNat, nd = pagedGetF ext w.nodes (BitVec.ofNat 32 i)) ∧
    (ok = false → nd = none ∧
        ∀ i < (pagedLenF ext w.nodes).toInt.toNat, nodeMaskF ext (pagedGetF ext w.nodes (BitVec.ofNat 32 i)) ≠ mask) := by
  unfold P256.World.findArchetypeSlow at h
  simp only [Option.bind_eq_bind, pure] at h
  obtain ⟨res, hres, h⟩ := Option.bind_eq_some_iff.mp h
  have hres' : List.foldlM (searchBody nodeMaskF pagedGetF mask w ext) none
      (List.range (pagedLenF ext w.nodes).toInt.toNat) = some res := by
    rw [← hres]; rfl
  obtain ⟨s1, s2⟩ := search_spec nodeMaskF pagedGetF mask w ext _ _ hres'
  cases res with
  | none =>
    simp only [Option.some.injEq, Prod.mk.injEq] at h
    obtain ⟨hw, he, hn, hk⟩ := h
    subst hw; subst he; subst hn; subst hk
    refine ⟨rfl, rfl, fun h => (by cases h), fun _ => ⟨rfl, ?_⟩⟩
    intro i hi
    exact s2 rfl i (List.mem_range.mpr hi)
  | some r =>
    obtain ⟨rn, rk⟩ := r
    simp only [Option.some.injEq, Prod.mk.injEq] at h
    obtain ⟨hw, he, hn, hk⟩ := h
    subst hw; subst he; subst hn; subst hk
    obtain ⟨a, b, c, i, hi, e⟩ := s1 _ _ rfl
    subst a
    exact ⟨rfl, rfl, fun _ => ⟨b, c, i, List.mem_range.mp hi, e⟩, fun h => (by cases h)⟩

/-! ### frame: the walk touches filter cache and node lists only -/

/-- nothing of the world view changed but the filter cache and the two node lists -/
def NodesOnly (w w' : P256.World) : Prop :=
  w' = { w with filterCache := w'.filterCache, nodePointers := w'.nodePointers, relationNodes := w'.relationNodes }

theorem NodesOnly.refl (w : P256.World) : NodesOnly w w := rfl
theorem NodesOnly.trans {a b c : P256.World} (h1 : NodesOnly a b) (h2 : NodesOnly b c) : NodesOnly a c := by
  unfold NodesOnly at *
  rw [h2, h1]
theorem NodesOnly.of_cache {a b : P256.World} (h : C02_Remove.CacheOnly a b) : NodesOnly a b := by
  unfold NodesOnly; unfold C02_Remove.CacheOnly at h
  rw [h]

/-- what is assumed about `createArchetypeNode` (the node lists of the world are all it touches in the view) -/
def NodeFrame : Prop :=
  ∀ (ext : Ext) (w : P256.World) (m : M256.Mask) (r : BitVec 8) (hr : Bool), NodesOnly w (createNodeF ext w m r hr).2.1

theorem slow_frame (hN : NodeFrame createNodeF) (w w' : P256.World) (mask : M256.Mask) (rel : BitVec 8) (hasRel : Bool)
    (ext ext' : Ext) (r : Option Nat × Bool)
    (h : P256.World.findOrCreateArchetypeSlow createNodeF nodeMaskF pagedGetF pagedLenF w mask rel hasRel ext = some (w', ext', r)) :
    NodesOnly w w' := by
  unfold P256.World.findOrCreateArchetypeSlow at h
  simp only [Option.bind_eq_bind, pure] at h
  obtain ⟨⟨w1, e1, n1, k1⟩, hs, hq⟩ := Option.bind_eq_some_iff.mp h
  clear h; have h := hq; clear hq
  obtain ⟨hw, he, _⟩ := findSlow_spec nodeMaskF pagedGetF pagedLenF _ _ _ _ _ _ _ hs
  subst hw; subst he
  try dsimp only at h
  split at h
  · simp only [Option.some.injEq, Prod.mk.injEq] at h
    rw [← h.1]; exact NodesOnly.refl _
  · simp only [Option.some.injEq, Prod.mk.injEq] at h
    rw [← h.1]; exact hN _ _ _ _ _

/-- one step of the walk (follow the neighbour edge, or look the node up / create it and link both ways) -/
def walkStep (w : P256.World) (ext : Ext) (mask : M256.Mask) (rel : BitVec 8) (hasRel : Bool) (curr : Option Nat) (id : BitVec 8) :
    Option (P256.World × Ext × M256.Mask × BitVec 8 × Bool × Option Nat) :=
  if (nodeNeighborGetF ext curr id).2 = true then
    some (w, ext, mask, rel, hasRel, (nodeNeighborGetF ext curr id).1)
  else
    (P256.World.findOrCreateArchetypeSlow createNodeF nodeMaskF pagedGetF pagedLenF w mask rel hasRel ext).bind fun x2 =>
      x2.2.2.1.bind fun _ => curr.bind fun _ =>
        some (x2.1, (nodeNeighborSetF (nodeNeighborSetF x2.2.1 x2.2.2.1 id curr).1 curr id x2.2.2.1).1, mask, rel, hasRel, x2.2.2.1)

theorem walkStep_frame (hN : NodeFrame createNodeF) (w : P256.World) (ext : Ext) (mask : M256.Mask) (rel : BitVec 8) (hasRel : Bool)
    (curr : Option Nat) (id : BitVec 8) (s' : P256.World × Ext × M256.Mask × BitVec 8 × Bool × Option Nat)
    (h : walkStep createNodeF nodeMaskF nodeNeighborGetF nodeNeighborSetF pagedGetF pagedLenF w ext mask rel hasRel curr id = some s') :
    NodesOnly w s'.1 := by
  unfold walkStep at h
  split at h
  · simp only [Option.some.injEq] at h
    rw [← h]; exact NodesOnly.refl _
  · obtain ⟨⟨w2, e2, n2, k2⟩, hslow, hq⟩ := Option.bind_eq_some_iff.mp h
    clear h; have h := hq; clear hq
    obtain ⟨_, _, hq⟩ := Option.bind_eq_some_iff.mp h
    clear h; have h := hq; clear hq
    obtain ⟨_, _, hq⟩ := Option.bind_eq_some_iff.mp h
    clear h; have h := hq; clear hq
    simp only [Option.some.injEq] at h
    rw [← h]
    exact slow_frame createNodeF nodeMaskF pagedGetF pagedLenF hN _ _ _ _ _ _ _ _ hslow

theorem find_frame (hN : NodeFrame createNodeF) (w w' : P256.World) (start : Option Nat) (add rem : GoSlice (BitVec 8))
    (target : P256.Entity) (ext ext' : Ext) (r : Option Nat)
    (h : P256.World.findOrCreateArchetype archHasRelCompF archHasRelationF archInitF archMaskF archNodeF archRelCompF archTargetF
          createNodeF matchesF nodeCreateArchetypeF nodeGetArchetypeF nodeHasRelationF nodeMaskF nodeNeighborGetF nodeNeighborSetF
          nodeSetArchetypeF pagedAddF pagedGetF pagedLenF relationTargetF w start add rem target ext = some (w', ext', r)) :
    NodesOnly w w' := by
  unfold P256.World.findOrCreateArchetype at h
  simp only [Option.bind_eq_bind, pure] at h
  obtain ⟨_, _, hq⟩ := Option.bind_eq_some_iff.mp h
  clear h; have h := hq; clear hq
  obtain ⟨_, _, hq⟩ := Option.bind_eq_some_iff.mp h
  clear h; have h := hq; clear hq
  obtain ⟨_, _, hq⟩ := Option.bind_eq_some_iff.mp h
  clear h; have h := hq; clear hq
  obtain ⟨_, _, hq⟩ := Option.bind_eq_some_iff.mp h
  clear h; have h := hq; clear hq
  obtain ⟨⟨w1, e1, m1, r1, hr1, c1⟩, hrem, hq⟩ := Option.bind_eq_some_iff.mp h
  clear h; have h := hq; clear hq
  have hw1 : NodesOnly w w1 := by
    have := C02_Remove.foldlM_inv (fun (s : P256.World × Ext × M256.Mask × BitVec 8 × Bool × Option Nat) => NodesOnly w s.1) _ ?_ _ _ _ (NodesOnly.refl w) hrem
    · exact this
    · intro s k s' hs hk
      obtain ⟨sw, se, sm, sr, sh, sc⟩ := s
      obtain ⟨id, hid, hq⟩ := Option.bind_eq_some_iff.mp hk
      clear hk; have hk := hq; clear hq
      obtain ⟨⟨xw, xe, xm, xr, xh, xc⟩, hx, hq⟩ := Option.bind_eq_some_iff.mp hk
      clear hk; have hk := hq; clear hq
      have hxw : xw = sw := by
        split at hx <;> (simp only [Option.some.injEq, Prod.mk.injEq] at hx; exact hx.1.symm)
      subst hxw
      obtain ⟨_, _, hq⟩ := Option.bind_eq_some_iff.mp hk
      clear hk; have hk := hq; clear hq
      dsimp only at hk
      obtain ⟨y, hy, hq⟩ := Option.bind_eq_some_iff.mp hk
      have hys : y = s' := by simpa using hq
      subst hys
      exact NodesOnly.trans hs (walkStep_frame createNodeF nodeMaskF nodeNeighborGetF nodeNeighborSetF pagedGetF pagedLenF hN _ _ _ _ _ _ _ _ hy)
  dsimp only at h
  obtain ⟨⟨w2, e2, m2, r2, hr2, c2⟩, hadd, hq⟩ := Option.bind_eq_some_iff.mp h
  clear h; have h := hq; clear hq
  have hw2 : NodesOnly w w2 := by
    have := C02_Remove.foldlM_inv (fun (s : P256.World × Ext × M256.Mask × BitVec 8 × Bool × Option Nat) => NodesOnly w s.1) _ ?_ _ _ _ hw1 hadd
    · exact this
    · intro s k s' hs hk
      obtain ⟨sw, se, sm, sr, sh, sc⟩ := s
      obtain ⟨id, hid, hq⟩ := Option.bind_eq_some_iff.mp hk
      clear hk; have hk := hq; clear hq
      dsimp only at hk
      split at hk
      · cases hk
      obtain ⟨_, _, hq⟩ := Option.bind_eq_some_iff.mp hk
      clear hk; have hk := hq; clear hq
      split at hk
      · cases hk
      split at hk
      · split at hk
        · cases hk
        obtain ⟨_, _, hq⟩ := Option.bind_eq_some_iff.mp hk
        clear hk; have hk := hq; clear hq
        obtain ⟨y, hy, hq⟩ := Option.bind_eq_some_iff.mp hk
        have hys : y = s' := by simpa using hq
        subst hys
        exact NodesOnly.trans hs (walkStep_frame createNodeF nodeMaskF nodeNeighborGetF nodeNeighborSetF pagedGetF pagedLenF hN _ _ _ _ _ _ _ _ hy)
      · obtain ⟨_, _, hq⟩ := Option.bind_eq_some_iff.mp hk
        clear hk; have hk := hq; clear hq
        obtain ⟨y, hy, hq⟩ := Option.bind_eq_some_iff.mp hk
        have hys : y = s' := by simpa using hq
        subst hys
        exact NodesOnly.trans hs (walkStep_frame createNodeF nodeMaskF nodeNeighborGetF nodeNeighborSetF pagedGetF pagedLenF hN _ _ _ _ _ _ _ _ hy)
  dsimp only at h
  obtain ⟨_, _, hq⟩ := Option.bind_eq_some_iff.mp h
  clear h; have h := hq; clear hq
  obtain ⟨⟨w3, e3, m3, r3, hr3, c3, a3⟩, hj, hq⟩ := Option.bind_eq_some_iff.mp h
  clear h; have h := hq; clear hq
  simp only [Option.some.injEq, Prod.mk.injEq] at h
  obtain ⟨hw', _, _⟩ := h
  subst hw'
  split at hj
  · obtain ⟨⟨wc, ec, ac⟩, hcreate, hq⟩ := Option.bind_eq_some_iff.mp hj
    simp only [Option.some.injEq, Prod.mk.injEq] at hq
    rw [← hq.1]
    exact NodesOnly.trans hw2 (NodesOnly.of_cache (C05_SetRelGen.createArchetype_frame archHasRelationF archInitF archMaskF archTargetF matchesF
      nodeCreateArchetypeF nodeHasRelationF nodeSetArchetypeF pagedAddF pagedGetF pagedLenF relationTargetF _ _ _ _ _ _ _ _ hcreate))
  · simp only [Option.some.injEq, Prod.mk.injEq] at hj
    rw [← hj.1]; exact hw2

/-! ### the graph: neighbour edges stay sound, and the walk ends in the node of the exchanged mask -/

/-- the mask with one member toggled -/
def flip (m : M256.Mask) (id : BitVec 8) : M256.Mask := m.Set id (!m.Get id)

theorem flip_flip (m : M256.Mask) (id : BitVec 8) : flip (flip m id) id = m := by
  apply C16_Registry.mask_ext
  intro j
  unfold flip
  rw [C04.B256.set_spec, C04.B256.get_eq_mem, C04.B256.get_eq_mem, C04.B256.set_spec, C04.B256.set_spec]
  by_cases hj : j = id.toNat
  · subst hj; simp
  · simp [hj]

theorem set_false_eq_flip (m : M256.Mask) (id : BitVec 8) (h : m.Get id = true) : m.Set id false = flip m id := by
  unfold flip; rw [h]; rfl
theorem set_true_eq_flip (m : M256.Mask) (id : BitVec 8) (h : m.Get id = false) : m.Set id true = flip m id := by
  unfold flip; rw [h]; rfl

/-- every neighbour edge labelled `id` joins two nodes whose masks differ in exactly the member `id` -/
def EdgeInv (ext : Ext) : Prop :=
  ∀ n id m, nodeNeighborGetF ext n id = (m, true) → nodeMaskF ext m = flip (nodeMaskF ext n) id

/-- edges exist between known nodes only -/
def Closed (Known : Ext → Option Nat → Prop) (ext : Ext) : Prop :=
  ∀ n id m, nodeNeighborGetF ext n id = (m, true) → Known ext n ∧ Known ext m

/-- what is assumed about the members of graph nodes that the walk uses (`neighbors.Get/Set`, `Mask`), about
    `createArchetypeNode` and about the node list: they behave like maps, a created node is new, carries the requested
    mask and disturbs no existing node; the nodes in the world's list are known -/
structure GraphOk (Known : Ext → Option Nat → Prop) : Prop where
  set_mask : ∀ ext n id m k, nodeMaskF (nodeNeighborSetF ext n id m).1 k = nodeMaskF ext k
  set_get : ∀ ext n id m k j, n ≠ none →
    nodeNeighborGetF (nodeNeighborSetF ext n id m).1 k j = if k = n ∧ j = id then (m, true) else nodeNeighborGetF ext k j
  set_known : ∀ ext n id m k, Known (nodeNeighborSetF ext n id m).1 k ↔ Known ext k
  new_mask : ∀ ext w mask r hr, nodeMaskF (createNodeF ext w mask r hr).1 (createNodeF ext w mask r hr).2.2 = mask
  new_known : ∀ ext w mask r hr k, Known (createNodeF ext w mask r hr).1 k ↔ (Known ext k ∨ k = (createNodeF ext w mask r hr).2.2)
  new_keeps : ∀ ext w mask r hr k, Known ext k → nodeMaskF (createNodeF ext w mask r hr).1 k = nodeMaskF ext k
  new_inv : ∀ ext w mask r hr, EdgeInv nodeMaskF nodeNeighborGetF ext → Closed nodeNeighborGetF Known ext →
    EdgeInv nodeMaskF nodeNeighborGetF (createNodeF ext w mask r hr).1 ∧ Closed nodeNeighborGetF Known (createNodeF ext w mask r hr).1
  paged_known : ∀ ext (w : P256.World) i, i < (pagedLenF ext w.nodes).toInt.toNat → Known ext (pagedGetF ext w.nodes (BitVec.ofNat 32 i))

/-- the invariant of the walk: sound and closed edges, and the current node is a known node carrying the current mask -/
def WalkInv (Known : Ext → Option Nat → Prop) (s : P256.World × Ext × M256.Mask × BitVec 8 × Bool × Option Nat) : Prop :=
  EdgeInv nodeMaskF nodeNeighborGetF s.2.1 ∧ Closed nodeNeighborGetF Known s.2.1 ∧ Known s.2.1 s.2.2.2.2.2 ∧
    nodeMaskF s.2.1 s.2.2.2.2.2 = s.2.2.1

theorem walkStep_spec (Known : Ext → Option Nat → Prop)
    (G : GraphOk createNodeF nodeMaskF nodeNeighborGetF nodeNeighborSetF pagedGetF pagedLenF Known)
    (w : P256.World) (ext : Ext) (m0 mask : M256.Mask) (rel : BitVec 8) (hasRel : Bool)
    (curr : Option Nat) (id : BitVec 8) (s' : P256.World × Ext × M256.Mask × BitVec 8 × Bool × Option Nat)
    (hE : EdgeInv nodeMaskF nodeNeighborGetF ext) (hC : Closed nodeNeighborGetF Known ext) (hK : Known ext curr)
    (hM : nodeMaskF ext curr = m0) (hmask : mask = flip m0 id)
    (h : walkStep createNodeF nodeMaskF nodeNeighborGetF nodeNeighborSetF pagedGetF pagedLenF w ext mask rel hasRel curr id = some s') :
    WalkInv nodeMaskF nodeNeighborGetF Known s' ∧ s'.2.2.1 = mask ∧ s'.2.2.2.1 = rel ∧ s'.2.2.2.2.1 = hasRel := by
  unfold walkStep at h
  split at h
  · rename_i hok
    simp only [Option.some.injEq] at h
    subst h
    have hedge : nodeNeighborGetF ext curr id = ((nodeNeighborGetF ext curr id).1, true) := by
      rw [← hok]
    refine ⟨⟨hE, hC, (hC _ _ _ hedge).2, ?_⟩, rfl, rfl, rfl⟩
    show nodeMaskF ext (nodeNeighborGetF ext curr id).1 = mask
    rw [hE _ _ _ hedge, hM, hmask]
  · obtain ⟨⟨w2, e2, n2, k2⟩, hslow, hq⟩ := Option.bind_eq_some_iff.mp h
    clear h; have h := hq; clear hq
    obtain ⟨n2v, hn2, hq⟩ := Option.bind_eq_some_iff.mp h
    clear h; have h := hq; clear hq
    obtain ⟨cv, hcv, hq⟩ := Option.bind_eq_some_iff.mp h
    clear h; have h := hq; clear hq
    simp only [Option.some.injEq] at h
    subst h
    dsimp only at hn2 ⊢
    -- what the slow path returned
    have hs2 : EdgeInv nodeMaskF nodeNeighborGetF e2 ∧ Closed nodeNeighborGetF Known e2 ∧ Known e2 n2 ∧ nodeMaskF e2 n2 = mask ∧
        Known e2 curr ∧ nodeMaskF e2 curr = m0 := by
      unfold P256.World.findOrCreateArchetypeSlow at hslow
      simp only [Option.bind_eq_bind, pure] at hslow
      obtain ⟨⟨w1, e1, n1, k1⟩, hs, hq⟩ := Option.bind_eq_some_iff.mp hslow
      obtain ⟨hw, he, hfound, _⟩ := findSlow_spec nodeMaskF pagedGetF pagedLenF _ _ _ _ _ _ _ hs
      subst hw; subst he
      dsimp only at hq
      split at hq
      · rename_i hk1
        simp only [Option.some.injEq, Prod.mk.injEq] at hq
        obtain ⟨_, he, hn, _⟩ := hq
        subst he; subst hn
        obtain ⟨_, hm, i, hi, hni⟩ := hfound hk1
        refine ⟨hE, hC, ?_, hm, hK, hM⟩
        rw [hni]; exact G.paged_known _ _ _ hi
      · simp only [Option.some.injEq, Prod.mk.injEq] at hq
        obtain ⟨_, he, hn, _⟩ := hq
        subst he; subst hn
        obtain ⟨hE', hC'⟩ := G.new_inv e1 w1 mask rel hasRel hE hC
        refine ⟨hE', hC', (G.new_known _ _ _ _ _ _).mpr (Or.inr rfl), G.new_mask _ _ _ _ _, (G.new_known _ _ _ _ _ _).mpr (Or.inl hK), ?_⟩
        rw [G.new_keeps _ _ _ _ _ _ hK]; exact hM
    obtain ⟨hE2, hC2, hKn, hMn, hKc, hMc⟩ := hs2
    have hn2ne : n2 ≠ none := by rw [hn2]; simp
    have hcne : curr ≠ none := by rw [hcv]; simp
    -- masks, edges and known nodes after the two links
    have hmask3 : ∀ k, nodeMaskF (nodeNeighborSetF (nodeNeighborSetF e2 n2 id curr).1 curr id n2).1 k = nodeMaskF e2 k := by
      intro k; rw [G.set_mask, G.set_mask]
    have hknown3 : ∀ k, Known (nodeNeighborSetF (nodeNeighborSetF e2 n2 id curr).1 curr id n2).1 k ↔ Known e2 k := by
      intro k; rw [G.set_known, G.set_known]
    have hget3 : ∀ k j, nodeNeighborGetF (nodeNeighborSetF (nodeNeighborSetF e2 n2 id curr).1 curr id n2).1 k j =
        if k = curr ∧ j = id then (n2, true) else if k = n2 ∧ j = id then (curr, true) else nodeNeighborGetF e2 k j := by
      intro k j; rw [G.set_get _ _ _ _ _ _ hcne, G.set_get _ _ _ _ _ _ hn2ne]
    refine ⟨⟨?_, ?_, (hknown3 _).mpr hKn, ?_⟩, rfl, rfl, rfl⟩
    · intro n j m hedge
      rw [hget3] at hedge
      rw [hmask3, hmask3]
      split at hedge
      · rename_i hc
        simp only [Prod.mk.injEq, and_true] at hedge
        rw [← hedge, hc.1, hc.2, hMn, hMc, hmask]
      · split at hedge
        · rename_i hc
          simp only [Prod.mk.injEq, and_true] at hedge
          rw [← hedge, hc.1, hc.2, hMn, hMc, hmask, flip_flip]
        · exact hE2 _ _ _ hedge
    · intro n j m hedge
      rw [hget3] at hedge
      rw [hknown3, hknown3]
      split at hedge
      · rename_i hc
        simp only [Prod.mk.injEq, and_true] at hedge
        rw [← hedge, hc.1]; exact ⟨hKc, hKn⟩
      · split at hedge
        · rename_i hc
          simp only [Prod.mk.injEq, and_true] at hedge
          rw [← hedge, hc.1]; exact ⟨hKn, hKc⟩
        · exact hC2 _ _ _ hedge
    · show nodeMaskF _ n2 = mask
      rw [hmask3]; exact hMn

abbrev WSt (Ext : Type) := P256.World × Ext × M256.Mask × BitVec 8 × Bool × Option Nat

/-- the body of the loop over the removed ids, as the translator emits it -/
def remBody (st : WSt Ext) (id : BitVec 8) : Option (WSt Ext) :=
  (if st.1.registry.IsRelation.Get id = true then
      some (st.1, st.2.1, st.2.2.1.Set id false, (default : BitVec 8), false, st.2.2.2.2.2)
    else some (st.1, st.2.1, st.2.2.1.Set id false, st.2.2.2.1, st.2.2.2.2.1, st.2.2.2.2.2)).bind fun x =>
    x.2.2.2.2.2.bind fun _ =>
      (walkStep createNodeF nodeMaskF nodeNeighborGetF nodeNeighborSetF pagedGetF pagedLenF x.1 x.2.1 x.2.2.1 x.2.2.2.1 x.2.2.2.2.1 x.2.2.2.2.2 id).bind
        fun y => some (y.1, y.2.1, y.2.2.1, y.2.2.2.1, y.2.2.2.2.1, y.2.2.2.2.2)

/-- the body of the loop over the added ids -/
def addBody (start : Option Nat) (st : WSt Ext) (id : BitVec 8) : Option (WSt Ext) :=
  if st.2.2.1.Get id = true then none
  else start.bind fun _ =>
    if (archMaskF st.2.1 start).Get id = true then none
    else if st.1.registry.IsRelation.Get id = true then
      if st.2.2.2.2.1 = true then none
      else st.2.2.2.2.2.bind fun _ =>
        (walkStep createNodeF nodeMaskF nodeNeighborGetF nodeNeighborSetF pagedGetF pagedLenF st.1 st.2.1 (st.2.2.1.Set id true) id true st.2.2.2.2.2 id).bind
          fun y => some (y.1, y.2.1, y.2.2.1, y.2.2.2.1, y.2.2.2.2.1, y.2.2.2.2.2)
    else st.2.2.2.2.2.bind fun _ =>
      (walkStep createNodeF nodeMaskF nodeNeighborGetF nodeNeighborSetF pagedGetF pagedLenF st.1 st.2.1 (st.2.2.1.Set id true) st.2.2.2.1 st.2.2.2.2.1 st.2.2.2.2.2 id).bind
        fun y => some (y.1, y.2.1, y.2.2.1, y.2.2.2.1, y.2.2.2.2.1, y.2.2.2.2.2)

theorem remBody_spec (Known : Ext → Option Nat → Prop)
    (G : GraphOk createNodeF nodeMaskF nodeNeighborGetF nodeNeighborSetF pagedGetF pagedLenF Known)
    (st st' : WSt Ext) (id : BitVec 8) (hI : WalkInv nodeMaskF nodeNeighborGetF Known st) (hid : st.2.2.1.Get id = true)
    (h : remBody createNodeF nodeMaskF nodeNeighborGetF nodeNeighborSetF pagedGetF pagedLenF st id = some st') :
    WalkInv nodeMaskF nodeNeighborGetF Known st' ∧ st'.2.2.1 = st.2.2.1.Set id false := by
  obtain ⟨sw, se, sm, sr, sh, sc⟩ := st
  obtain ⟨hE, hC, hK, hM⟩ := hI
  unfold remBody at h
  obtain ⟨⟨xw, xe, xm, xr, xh, xc⟩, hx, hq⟩ := Option.bind_eq_some_iff.mp h
  clear h; have h := hq; clear hq
  have hx' : xe = se ∧ xm = sm.Set id false ∧ xc = sc := by
    split at hx <;> (simp only [Option.some.injEq, Prod.mk.injEq] at hx; exact ⟨hx.2.1.symm, hx.2.2.1.symm, hx.2.2.2.2.2.symm⟩)
  obtain ⟨h1, h2, h3⟩ := hx'
  subst h1; subst h2; subst h3
  obtain ⟨_, _, hq⟩ := Option.bind_eq_some_iff.mp h
  clear h; have h := hq; clear hq
  obtain ⟨y, hy, hq⟩ := Option.bind_eq_some_iff.mp h
  have hys : y = st' := by simpa using hq
  subst hys
  dsimp only at hy hid hM hK hE hC
  obtain ⟨hI', hm', _, _⟩ := walkStep_spec createNodeF nodeMaskF nodeNeighborGetF nodeNeighborSetF pagedGetF pagedLenF Known G
    _ _ sm _ _ _ _ _ _ hE hC hK hM (set_false_eq_flip sm id hid) hy
  exact ⟨hI', hm'⟩

theorem addBody_spec (Known : Ext → Option Nat → Prop)
    (G : GraphOk createNodeF nodeMaskF nodeNeighborGetF nodeNeighborSetF pagedGetF pagedLenF Known) (start : Option Nat)
    (st st' : WSt Ext) (id : BitVec 8) (hI : WalkInv nodeMaskF nodeNeighborGetF Known st)
    (h : addBody archMaskF createNodeF nodeMaskF nodeNeighborGetF nodeNeighborSetF pagedGetF pagedLenF start st id = some st') :
    WalkInv nodeMaskF nodeNeighborGetF Known st' ∧ st'.2.2.1 = st.2.2.1.Set id true ∧ st.2.2.1.Get id = false := by
  obtain ⟨sw, se, sm, sr, sh, sc⟩ := st
  obtain ⟨hE, hC, hK, hM⟩ := hI
  unfold addBody at h
  dsimp only at h hM hK hE hC ⊢
  split at h
  · cases h
  rename_i hget
  have hget' : sm.Get id = false := by simpa using hget
  obtain ⟨_, _, hq⟩ := Option.bind_eq_some_iff.mp h
  clear h; have h := hq; clear hq
  split at h
  · cases h
  split at h
  · split at h
    · cases h
    obtain ⟨_, _, hq⟩ := Option.bind_eq_some_iff.mp h
    clear h; have h := hq; clear hq
    obtain ⟨y, hy, hq⟩ := Option.bind_eq_some_iff.mp h
    have hys : y = st' := by simpa using hq
    subst hys
    obtain ⟨hI', hm', _, _⟩ := walkStep_spec createNodeF nodeMaskF nodeNeighborGetF nodeNeighborSetF pagedGetF pagedLenF Known G
      _ _ sm _ _ _ _ _ _ hE hC hK hM (set_true_eq_flip sm id hget') hy
    exact ⟨hI', hm', hget'⟩
  · obtain ⟨_, _, hq⟩ := Option.bind_eq_some_iff.mp h
    clear h; have h := hq; clear hq
    obtain ⟨y, hy, hq⟩ := Option.bind_eq_some_iff.mp h
    have hys : y = st' := by simpa using hq
    subst hys
    obtain ⟨hI', hm', _, _⟩ := walkStep_spec createNodeF nodeMaskF nodeNeighborGetF nodeNeighborSetF pagedGetF pagedLenF Known G
      _ _ sm _ _ _ _ _ _ hE hC hK hM (set_true_eq_flip sm id hget') hy
    exact ⟨hI', hm', hget'⟩

theorem get_set_ne (m : M256.Mask) (a b : BitVec 8) (v : Bool) (h : a.toNat ≠ b.toNat) : (m.Set a v).Get b = m.Get b := by
  rw [C04.B256.get_eq_mem, C04.B256.get_eq_mem, C04.B256.set_spec]
  simp [Ne.symm h]

theorem remFold_spec (Known : Ext → Option Nat → Prop)
    (G : GraphOk createNodeF nodeMaskF nodeNeighborGetF nodeNeighborSetF pagedGetF pagedLenF Known)
    (l : List (BitVec 8)) (st st' : WSt Ext) (hI : WalkInv nodeMaskF nodeNeighborGetF Known st)
    (hnd : (l.map (·.toNat)).Nodup) (hin : ∀ c ∈ l, st.2.2.1.Get c = true)
    (h : l.foldlM (remBody createNodeF nodeMaskF nodeNeighborGetF nodeNeighborSetF pagedGetF pagedLenF) st = some st') :
    WalkInv nodeMaskF nodeNeighborGetF Known st' ∧ st'.2.2.1 = l.foldl (fun m c => m.Set c false) st.2.2.1 := by
  induction l generalizing st with
  | nil => simp only [List.foldlM_nil, pure, Option.some.injEq] at h; subst h; exact ⟨hI, rfl⟩
  | cons c l ih =>
    rw [List.foldlM_cons] at h
    obtain ⟨s1, hs1, hq⟩ := Option.bind_eq_some_iff.mp h
    obtain ⟨hI1, hm1⟩ := remBody_spec createNodeF nodeMaskF nodeNeighborGetF nodeNeighborSetF pagedGetF pagedLenF Known G _ _ _ hI
      (hin c List.mem_cons_self) hs1
    have hnd' := List.nodup_cons.mp (by simpa using hnd : (c.toNat :: l.map (·.toNat)).Nodup)
    have := ih s1 hI1 hnd'.2 (by
      intro c' hc'
      rw [hm1, get_set_ne _ _ _ _ (by
        intro heq; exact hnd'.1 (List.mem_map.mpr ⟨c', hc', heq.symm⟩))]
      exact hin c' (List.mem_cons_of_mem _ hc')) hq
    rw [List.foldl_cons, ← hm1]
    exact this

theorem addFold_spec (Known : Ext → Option Nat → Prop)
    (G : GraphOk createNodeF nodeMaskF nodeNeighborGetF nodeNeighborSetF pagedGetF pagedLenF Known) (start : Option Nat)
    (l : List (BitVec 8)) (st st' : WSt Ext) (hI : WalkInv nodeMaskF nodeNeighborGetF Known st)
    (h : l.foldlM (addBody archMaskF createNodeF nodeMaskF nodeNeighborGetF nodeNeighborSetF pagedGetF pagedLenF start) st = some st') :
    WalkInv nodeMaskF nodeNeighborGetF Known st' ∧ st'.2.2.1 = l.foldl (fun m c => m.Set c true) st.2.2.1 := by
  induction l generalizing st with
  | nil => simp only [List.foldlM_nil, pure, Option.some.injEq] at h; subst h; exact ⟨hI, rfl⟩
  | cons c l ih =>
    rw [List.foldlM_cons] at h
    obtain ⟨s1, hs1, hq⟩ := Option.bind_eq_some_iff.mp h
    obtain ⟨hI1, hm1, _⟩ := addBody_spec archMaskF createNodeF nodeMaskF nodeNeighborGetF nodeNeighborSetF pagedGetF pagedLenF Known G _ _ _ _ hI hs1
    have := ih s1 hI1 hq
    rw [List.foldl_cons, ← hm1]
    exact this

/-- **the graph walk is correct**: from a start table whose node is known and carries the table's mask, in a graph with
    sound and closed edges, removing pairwise different present ids and adding ids (the walk itself refuses ids that are
    present), a successful `findOrCreateArchetype` ends at a known node whose mask is `(mask \ rem) ∪ add` — the mask
    `getExchangeMask` computes — with all edges still sound and closed; the table it returns is the one that node's
    `GetArchetype(target)` found, or the one `createArchetype` made for that node and target -/
theorem find_graph (Known : Ext → Option Nat → Prop)
    (G : GraphOk createNodeF nodeMaskF nodeNeighborGetF nodeNeighborSetF pagedGetF pagedLenF Known)
    (w w' : P256.World) (start : Option Nat) (add rem : GoSlice (BitVec 8)) (target : P256.Entity) (ext ext' : Ext) (r : Option Nat)
    (hE : EdgeInv nodeMaskF nodeNeighborGetF ext) (hC : Closed nodeNeighborGetF Known ext)
    (hK : Known ext (archNodeF ext start)) (hM : nodeMaskF ext (archNodeF ext start) = archMaskF ext start)
    (hnd : (rem.arr.toList.map (·.toNat)).Nodup) (hin : ∀ c ∈ rem.arr.toList, (archMaskF ext start).Get c = true)
    (h : P256.World.findOrCreateArchetype archHasRelCompF archHasRelationF archInitF archMaskF archNodeF archRelCompF archTargetF
          createNodeF matchesF nodeCreateArchetypeF nodeGetArchetypeF nodeHasRelationF nodeMaskF nodeNeighborGetF nodeNeighborSetF
          nodeSetArchetypeF pagedAddF pagedGetF pagedLenF relationTargetF w start add rem target ext = some (w', ext', r)) :
    ∃ (w2 : P256.World) (e2 : Ext) (node : Option Nat),
      EdgeInv nodeMaskF nodeNeighborGetF e2 ∧ Closed nodeNeighborGetF Known e2 ∧ Known e2 node ∧
      nodeMaskF e2 node = add.arr.toList.foldl (fun m c => m.Set c true) (rem.arr.toList.foldl (fun m c => m.Set c false) (archMaskF ext start)) ∧
      ((nodeGetArchetypeF e2 node target = (r, true) ∧ ext' = e2 ∧ w' = w2) ∨
       ((nodeGetArchetypeF e2 node target).2 = false ∧
        P256.World.createArchetype archHasRelationF archInitF archMaskF archTargetF matchesF nodeCreateArchetypeF nodeHasRelationF
          nodeSetArchetypeF pagedAddF pagedGetF pagedLenF relationTargetF w2 node target true e2 = some (w', ext', r))) := by
  unfold P256.World.findOrCreateArchetype at h
  simp only [Option.bind_eq_bind, pure] at h
  obtain ⟨_, _, hq⟩ := Option.bind_eq_some_iff.mp h
  clear h; have h := hq; clear hq
  obtain ⟨_, _, hq⟩ := Option.bind_eq_some_iff.mp h
  clear h; have h := hq; clear hq
  obtain ⟨_, _, hq⟩ := Option.bind_eq_some_iff.mp h
  clear h; have h := hq; clear hq
  obtain ⟨_, _, hq⟩ := Option.bind_eq_some_iff.mp h
  clear h; have h := hq; clear hq
  obtain ⟨s1, hrem, hq⟩ := Option.bind_eq_some_iff.mp h
  clear h; have h := hq; clear hq
  have hrem' : rem.arr.toList.foldlM (remBody createNodeF nodeMaskF nodeNeighborGetF nodeNeighborSetF pagedGetF pagedLenF)
      ((w, ext, archMaskF ext start, archRelCompF ext start, archHasRelCompF ext start, archNodeF ext start) : WSt Ext) = some s1 := by
    rw [← C01_ExchangeGen.foldlM_range_get]; exact hrem
  obtain ⟨hI1, hm1⟩ := remFold_spec createNodeF nodeMaskF nodeNeighborGetF nodeNeighborSetF pagedGetF pagedLenF Known G _ _ _
    ⟨hE, hC, hK, hM⟩ hnd hin hrem'
  obtain ⟨s2, hadd, hq⟩ := Option.bind_eq_some_iff.mp h
  clear h; have h := hq; clear hq
  have hadd' : add.arr.toList.foldlM (addBody archMaskF createNodeF nodeMaskF nodeNeighborGetF nodeNeighborSetF pagedGetF pagedLenF start) s1 = some s2 := by
    rw [← C01_ExchangeGen.foldlM_range_get]; exact hadd
  obtain ⟨hI2, hm2⟩ := addFold_spec archMaskF createNodeF nodeMaskF nodeNeighborGetF nodeNeighborSetF pagedGetF pagedLenF Known G _ _ _ _ hI1 hadd'
  obtain ⟨w2, e2, m2, r2, hr2, c2⟩ := s2
  obtain ⟨hE2, hC2, hK2, hM2⟩ := hI2
  dsimp only at h hm2 hE2 hC2 hK2 hM2
  obtain ⟨_, _, hq⟩ := Option.bind_eq_some_iff.mp h
  clear h; have h := hq; clear hq
  obtain ⟨⟨w3, e3, m3, r3, hr3, c3, a3⟩, hj, hq⟩ := Option.bind_eq_some_iff.mp h
  clear h; have h := hq; clear hq
  simp only [Option.some.injEq, Prod.mk.injEq] at h
  obtain ⟨hw', he', ha'⟩ := h
  subst hw'; subst he'; subst ha'
  refine ⟨w2, e2, c2, hE2, hC2, hK2, ?_, ?_⟩
  · rw [hM2, hm2, hm1]
  · split at hj
    · rename_i hnot
      obtain ⟨⟨wc, ec, ac⟩, hcreate, hq⟩ := Option.bind_eq_some_iff.mp hj
      simp only [Option.some.injEq, Prod.mk.injEq] at hq
      obtain ⟨h1, h2, _, _, _, _, h7⟩ := hq
      subst h1; subst h2; subst h7
      right
      exact ⟨by simpa using hnot, hcreate⟩
    · rename_i hnot
      simp only [Option.some.injEq, Prod.mk.injEq] at hj
      obtain ⟨h1, h2, _, _, _, _, h7⟩ := hj
      subst h1; subst h2; subst h7
      left
      have hk : (nodeGetArchetypeF e2 c2 target).2 = true := by simpa using hnot
      exact ⟨by rw [← hk], rfl, rfl⟩

/-- the regenerated walk as the state-threading function the callers (`exchangeNoNotify`, `NewEntity`,
    `newEntitiesNoNotify`) take as a parameter; a panicking walk is mapped to "nothing happened" (the callers'
    theorems speak about successful calls) -/
def totalFind (ext : Ext) (w : P256.World) (start : Option Nat) (add rem : GoSlice (BitVec 8)) (target : P256.Entity) :
    Ext × P256.World × Option Nat :=
  match P256.World.findOrCreateArchetype archHasRelCompF archHasRelationF archInitF archMaskF archNodeF archRelCompF archTargetF
          createNodeF matchesF nodeCreateArchetypeF nodeGetArchetypeF nodeHasRelationF nodeMaskF nodeNeighborGetF nodeNeighborSetF
          nodeSetArchetypeF pagedAddF pagedGetF pagedLenF relationTargetF w start add rem target ext with
  | some (w', ext', r) => (ext', w', r)
  | none => (ext, w, none)

/-- **the frame hypothesis `FindFrame` of the exchange / creation theorems holds for the regenerated walk** (given the
    frame of `createArchetypeNode`) -/
theorem find_satisfies_FindFrame (hN : NodeFrame createNodeF) :
    C01_ExchangeGen.FindFrame (totalFind archHasRelCompF archHasRelationF archInitF archMaskF archNodeF archRelCompF archTargetF
          createNodeF matchesF nodeCreateArchetypeF nodeGetArchetypeF nodeHasRelationF nodeMaskF nodeNeighborGetF nodeNeighborSetF
          nodeSetArchetypeF pagedAddF pagedGetF pagedLenF relationTargetF) := by
  intro ext w a add rem tg
  unfold totalFind
  split
  · rename_i w' ext' r heq
    have := find_frame archHasRelCompF archHasRelationF archInitF archMaskF archNodeF archRelCompF archTargetF
          createNodeF matchesF nodeCreateArchetypeF nodeGetArchetypeF nodeHasRelationF nodeMaskF nodeNeighborGetF nodeNeighborSetF
          nodeSetArchetypeF pagedAddF pagedGetF pagedLenF relationTargetF hN _ _ _ _ _ _ _ _ _ heq
    exact this
  · rfl

/-- a nil start table panics -/
theorem find_nil (w : P256.World) (add rem : GoSlice (BitVec 8)) (target : P256.Entity) (ext : Ext) :
    P256.World.findOrCreateArchetype archHasRelCompF archHasRelationF archInitF archMaskF archNodeF archRelCompF archTargetF
          createNodeF matchesF nodeCreateArchetypeF nodeGetArchetypeF nodeHasRelationF nodeMaskF nodeNeighborGetF nodeNeighborSetF
          nodeSetArchetypeF pagedAddF pagedGetF pagedLenF relationTargetF w none add rem target ext = none := by
  unfold P256.World.findOrCreateArchetype
  simp [bind, Option.bind]

end

/-! ### the hypotheses are satisfiable: a graph store with masks and edges as maps -/

structure DemoExt where
  masks : Nat → M256.Mask
  nxt : Nat
  edges : Option Nat → BitVec 8 → Option Nat × Bool

def dMask (e : DemoExt) (n : Option Nat) : M256.Mask := match n with | some i => e.masks i | none => default
def dGet (e : DemoExt) (n : Option Nat) (id : BitVec 8) : Option Nat × Bool := e.edges n id
noncomputable def dSet (e : DemoExt) (n : Option Nat) (id : BitVec 8) (m : Option Nat) : DemoExt × Unit :=
  open Classical in ({ e with edges := fun k j => if k = n ∧ j = id then (m, true) else e.edges k j }, ())
def dKnown (e : DemoExt) (n : Option Nat) : Prop := ∃ i, n = some i ∧ i < e.nxt
noncomputable def dNew (e : DemoExt) (w : P256.World) (mask : M256.Mask) (_r : BitVec 8) (_hr : Bool) : DemoExt × P256.World × Option Nat :=
  open Classical in ({ e with masks := fun i => if i = e.nxt then mask else e.masks i, nxt := e.nxt + 1 }, w, some e.nxt)
def dPagedGet (_e : DemoExt) (_tok : Nat) (i : BitVec 32) : Option Nat := some i.toNat
def dPagedLen (e : DemoExt) (_tok : Nat) : BitVec 32 := BitVec.ofNat 32 e.nxt

theorem graphOk_demo : GraphOk dNew dMask dGet dSet dPagedGet dPagedLen dKnown where
  set_mask := by intro e n id m k; rfl
  set_get := by intro e n id m k j _; simp only [dGet, dSet]
  set_known := by intro e n id m k; rfl
  new_mask := by intro e w mask r hr; simp [dMask, dNew]
  new_known := by
    intro e w mask r hr k
    simp only [dKnown, dNew]
    constructor
    · rintro ⟨i, rfl, hi⟩
      by_cases h : i = e.nxt
      · right; rw [h]
      · left; exact ⟨i, rfl, by omega⟩
    · rintro (⟨i, rfl, hi⟩ | h)
      · exact ⟨i, rfl, by omega⟩
      · exact ⟨e.nxt, h, by omega⟩
  new_keeps := by
    rintro e w mask r hr k ⟨i, rfl, hi⟩
    have : i ≠ e.nxt := by omega
    simp [dMask, dNew, this]
  new_inv := by
    intro e w mask r hr hE hC
    constructor
    · intro n id m hedge
      have hedge' : dGet e n id = (m, true) := hedge
      obtain ⟨⟨i, rfl, hi⟩, ⟨j, rfl, hj⟩⟩ := hC n id m hedge'
      have h1 : i ≠ e.nxt := by omega
      have h2 : j ≠ e.nxt := by omega
      have := hE _ _ _ hedge'
      simpa [dMask, dNew, h1, h2] using this
    · intro n id m hedge
      have hedge' : dGet e n id = (m, true) := hedge
      obtain ⟨⟨i, hn, hi⟩, ⟨j, hm, hj⟩⟩ := hC n id m hedge'
      exact ⟨⟨i, hn, by simp only [dNew]; omega⟩, ⟨j, hm, by simp only [dNew]; omega⟩⟩
  paged_known := by
    intro e w i hi
    refine ⟨(BitVec.ofNat 32 i).toNat, rfl, ?_⟩
    simp only [dPagedLen] at hi
    have h1 : (BitVec.ofNat 32 i).toNat ≤ i := by simp only [BitVec.toNat_ofNat]; exact Nat.mod_le _ _
    have h2 : (BitVec.ofNat 32 e.nxt).toInt.toNat ≤ e.nxt := by
      have : (BitVec.ofNat 32 e.nxt).toInt ≤ ((BitVec.ofNat 32 e.nxt).toNat : Int) := by
        rw [BitVec.toInt_eq_toNat_cond]; split <;> omega
      have h3 : (BitVec.ofNat 32 e.nxt).toNat ≤ e.nxt := by simp only [BitVec.toNat_ofNat]; exact Nat.mod_le _ _
      omega
    omega

/-- a graph of one known node without edges satisfies the invariants -/
example : EdgeInv dMask dGet ⟨fun _ => default, 1, fun _ _ => (none, false)⟩ ∧
    Closed dGet dKnown ⟨fun _ => default, 1, fun _ _ => (none, false)⟩ ∧
    dKnown ⟨fun _ => default, 1, fun _ _ => (none, false)⟩ (some 0) := by
  refine ⟨?_, ?_, ⟨0, rfl, by decide⟩⟩
  · intro n id m h; simp [dGet] at h
  · intro n id m h; simp [dGet] at h

end Arche.Props.C01_FindGen
