/-
  C11 (companion, tiny build) — `World.assign` (the worker of `World.Assign`, `Relations`-less and with a relation target, and of the
  generic `MapN.Assign`) REGENERATED from ecs/world_internal.go.

  `assign_order`: a successful call is, in this order, (1) ONE silent exchange that adds the ids of all given components
  (`exchangeNoNotify`), (2) the copies of ALL given values into the entity (`copyTo`, in argument order), and only then
  (3) — if a listener is installed — ONE notification (`notifyExchange`) with the table, old mask, old target and old
  relation the exchange returned: a listener sees the entity with every value already written. No components given panics.
-/
import ArcheProofs.Props.C11_ExchangeEvt64
import ArcheProofs.Props.C01_SetGen64
import ArcheProofs.Props.C02_Remove64

namespace Arche.Props.C11_AssignGen64
open ArcheGen ArcheGen.P64 Arche Arche.Props

section
variable {Ext : Type}
  (archActiveF : Ext → Option Nat → Bool) (archAllocF : Ext → Option Nat → P64.Entity → Ext × BitVec 32)
  (archComponentsF : Ext → Option Nat → GoSlice (BitVec 8)) (archGetEntityF : Ext → Option Nat → BitVec 32 → P64.Entity)
  (archGetF : Ext → Option Nat → BitVec 32 → BitVec 8 → GoAny) (archHasComponentF : Ext → Option Nat → BitVec 8 → Bool)
  (archHasRelCompF : Ext → Option Nat → Bool) (archHasRelationF : Ext → Option Nat → Bool) (archLenF : Ext → Option Nat → BitVec 32)
  (archMaskF : Ext → Option Nat → ArcheGen.M64.Mask) (archNodeF : Ext → Option Nat → Option Nat) (archRelCompF : Ext → Option Nat → BitVec 8)
  (archRemoveF : Ext → Option Nat → BitVec 32 → Ext × Bool) (archSetF : Ext → Option Nat → BitVec 32 → BitVec 8 → GoAny → Ext × GoAny)
  (archSetPointerF : Ext → Option Nat → BitVec 32 → BitVec 8 → GoAny → Ext × Unit) (archTargetF : Ext → Option Nat → P64.Entity)
  (findOrCreateF : Ext → P64.World → Option Nat → GoSlice (BitVec 8) → GoSlice (BitVec 8) → P64.Entity → Ext × P64.World × Option Nat)
  (lstCompsF : Ext → GoAny → Option (ArcheGen.M64.Mask)) (lstSubsF : Ext → GoAny → BitVec 8) (matchesF : GoAny → ArcheGen.M64.Mask → Bool)
  (nodeHasRelationF : Ext → Option Nat → Bool) (nodeRemoveArchetypeF : Ext → Option Nat → Option Nat → Ext × Unit)
  (notifyF : Ext → GoAny → EntityEvent → Ext × Unit)

theorem assign_empty (w : P64.World) (e : P64.Entity) (rel : BitVec 8) (hasRel : Bool) (target : P64.Entity) (comps : GoSlice Component) (ext : Ext)
    (h : comps.arr.size = 0) :
    P64.World.assign archActiveF archAllocF archComponentsF archGetEntityF archGetF archHasComponentF archHasRelCompF archHasRelationF archLenF archMaskF archNodeF
      archRelCompF archRemoveF archSetF archSetPointerF archTargetF findOrCreateF lstCompsF lstSubsF matchesF nodeHasRelationF nodeRemoveArchetypeF notifyF
      w e rel hasRel target comps ext = none := by
  unfold P64.World.assign
  simp [GoSlice.size, h]

/-- the copies of the given values, in argument order -/
def copies (w : P64.World) (ext : Ext) (e : P64.Entity) (comps : GoSlice Component) (ids : GoSlice (BitVec 8)) : Option (P64.World × Ext × GoSlice (BitVec 8)) :=
  (List.range comps.size).foldlM (fun (s : P64.World × Ext × GoSlice (BitVec 8)) k =>
    (GoSlice.get comps k).bind fun c =>
      (P64.World.copyTo archHasComponentF archSetF s.1 e c.ID c.Comp s.2.1).bind fun r => some (r.1, r.2.1, s.2.2)) (w, ext, ids)

theorem assign_order (w w' : P64.World) (e : P64.Entity) (rel : BitVec 8) (hasRel : Bool) (target : P64.Entity) (comps : GoSlice Component) (ext ext' : Ext)
    (h : P64.World.assign archActiveF archAllocF archComponentsF archGetEntityF archGetF archHasComponentF archHasRelCompF archHasRelationF archLenF archMaskF archNodeF
      archRelCompF archRemoveF archSetF archSetPointerF archTargetF findOrCreateF lstCompsF lstSubsF matchesF nodeHasRelationF nodeRemoveArchetypeF notifyF
      w e rel hasRel target comps ext = some (w', ext')) :
    ∃ (ids : GoSlice (BitVec 8)) (w1 : P64.World) (e1 : Ext) (r : Option Nat × Option M64.Mask × P64.Entity × Option (BitVec 8)) (w2 : P64.World) (e2 : Ext),
      ids.arr.size = comps.arr.size ∧
      P64.World.exchangeNoNotify archActiveF archAllocF archComponentsF archGetEntityF archGetF archHasRelCompF archHasRelationF archLenF archMaskF archNodeF archRelCompF
        archRemoveF archSetPointerF archTargetF findOrCreateF matchesF nodeHasRelationF nodeRemoveArchetypeF w e ids default rel hasRel target ext = some (w1, e1, r) ∧
      copies archHasComponentF archSetF w1 e1 e comps ids = some (w2, e2, ids) ∧
      (if w2.listener.isSome = true then
          P64.World.notifyExchange archHasRelCompF archMaskF archRelCompF archTargetF lstCompsF lstSubsF notifyF w2 r.1 r.2.1 e ids default r.2.2.1 r.2.2.2 e2 = some (w', ext')
        else (w', ext') = (w2, e2)) := by
  unfold P64.World.assign at h
  simp only [Option.bind_eq_bind, pure] at h
  split at h
  · cases h
  obtain ⟨s1, hs1, hq⟩ := Option.bind_eq_some_iff.mp h
  clear h; have h := hq; clear hq
  obtain ⟨⟨w0, e0, ids⟩, hids, hq⟩ := Option.bind_eq_some_iff.mp h
  clear h; have h := hq; clear hq
  obtain ⟨⟨w1, e1, r⟩, hex, hq⟩ := Option.bind_eq_some_iff.mp h
  clear h; have h := hq; clear hq
  obtain ⟨⟨w2, e2, ids2⟩, hcp, hq⟩ := Option.bind_eq_some_iff.mp h
  clear h; have h := hq; clear hq
  obtain ⟨⟨w3, e3, ids3⟩, hnot, hq⟩ := Option.bind_eq_some_iff.mp h
  simp only [Option.some.injEq, Prod.mk.injEq] at hq
  obtain ⟨hw, he⟩ := hq
  subst hw; subst he
  -- the id list: one slot per component; world and hidden state untouched
  have hs1size : s1.arr.size = comps.arr.size := by
    simp only [GoSlice.make] at hs1
    split at hs1
    · simp only [Option.some.injEq] at hs1; rw [← hs1]; simp [GoSlice.size]
    · cases hs1
  have h0 := C02_Remove64.foldlM_inv (fun (s : P64.World × Ext × GoSlice (BitVec 8)) => s.1 = w ∧ s.2.1 = ext ∧ s.2.2.arr.size = comps.arr.size) _ ?_ _ _ _
    ⟨rfl, rfl, hs1size⟩ hids
  · obtain ⟨hw0, he0, hsz⟩ := h0
    dsimp only at hw0 he0 hsz hex hcp hnot
    subst hw0; subst he0
    -- the copies keep the id list
    have h2 := C02_Remove64.foldlM_inv (fun (s : P64.World × Ext × GoSlice (BitVec 8)) => s.2.2 = ids) _ ?_ _ _ _ rfl hcp
    · dsimp only at h2
      subst h2
      refine ⟨ids2, w1, e1, r, w2, e2, hsz, hex, hcp, ?_⟩
      split at hnot
      · rename_i hl
        rw [if_pos hl]
        obtain ⟨⟨wn, en⟩, hn, hnot⟩ := Option.bind_eq_some_iff.mp hnot
        simp only [Option.some.injEq, Prod.mk.injEq] at hnot
        rw [← hnot.1, ← hnot.2.1]; exact hn
      · rename_i hl
        rw [if_neg hl]
        simp only [Option.some.injEq, Prod.mk.injEq] at hnot
        rw [← hnot.1, ← hnot.2.1]
    · intro s k s' hs hk
      obtain ⟨_, _, hk⟩ := Option.bind_eq_some_iff.mp hk
      obtain ⟨_, _, hk⟩ := Option.bind_eq_some_iff.mp hk
      simp only [Option.some.injEq] at hk
      rw [← hk]; exact hs
  · intro s k s' hs hk
    obtain ⟨_, _, hk⟩ := Option.bind_eq_some_iff.mp hk
    obtain ⟨_, _, hk⟩ := Option.bind_eq_some_iff.mp hk
    obtain ⟨u5, hu5, hk⟩ := Option.bind_eq_some_iff.mp hk
    simp only [Option.some.injEq] at hk
    rw [← hk]
    refine ⟨hs.1, hs.2.1, ?_⟩
    simp only [GoSlice.set] at hu5
    split at hu5
    · simp only [Option.some.injEq] at hu5; rw [← hu5]; simpa using hs.2.2
    · cases hu5

end
end Arche.Props.C11_AssignGen64
