/-
  C11 (companion) — the Q variant of batch creation REGENERATED (`World.newEntitiesQuery`: Batch.NewQ and the builders'
  NewBatchQ) and put together with the regenerated `World.closeQuery`.

  * `newEntitiesQuery_eq`: silent creation, ONE lock, and a batch query over a record with exactly one entry — the table
    the entities went into, no old table, rows `startIdx … Len` — whose `Added` is that table's component list;
  * `newEntitiesQuery_close`: closing that query releases the bit and then calls the deferred notifier once with that
    record, if a listener is installed (premise: the record reads back out of the query as stored).
-/
import ArcheProofs.Props.C11_BatchQuery64

namespace Arche.Props.C11_CreateQuery64
open ArcheGen ArcheGen.P64 Arche Arche.Props

section
variable {Ext : Type}
  (archAllocNF : Ext → Option Nat → BitVec 32 → Ext × Unit)
  (archComponentsF : Ext → Option Nat → GoSlice (BitVec 8))
  (archHasComponentF : Ext → Option Nat → BitVec 8 → Bool)
  (archLenF : Ext → Option Nat → BitVec 32)
  (archNodeF : Ext → Option Nat → Option Nat)
  (archSetEntityF : Ext → Option Nat → BitVec 32 → P64.Entity → Ext × Unit)
  (findOrCreateF : Ext → P64.World → Option Nat → GoSlice (BitVec 8) → GoSlice (BitVec 8) → P64.Entity → Ext × P64.World × Option Nat)
  (nodeHasRelationF : Ext → Option Nat → Bool)
  (nodeRelationF : Ext → Option Nat → BitVec 8)
  (ofBatchF : P64.batchArchetypes → GoAny)
  (pagedGetF : Ext → Nat → BitVec 32 → Option Nat)
  (staleF : Nat → P64.entityIndex)
  (asBatchF : GoAny → Option P64.batchArchetypes)
  (notifyQueryF : Ext → P64.World → P64.batchArchetypes → Ext × P64.World × Unit)

/-- the record of moves of a batch creation: one entry -/
def createRecord (e1 : Ext) (arch : Option Nat) (startIdx : BitVec 32) : Option P64.batchArchetypes :=
  P64.batchArchetypes.Add
    ({ Added := archComponentsF e1 arch, Removed := default, Archetype := default, StartIndex := default, EndIndex := default, OldArchetype := default } : P64.batchArchetypes)
    arch default startIdx (archLenF e1 arch)

theorem newEntitiesQuery_eq (w : P64.World) (count : Int) (targetID : BitVec 8) (hasTarget : Bool) (target : P64.Entity) (comps : GoSlice (BitVec 8)) (ext : Ext) :
    P64.World.newEntitiesQuery archAllocNF archComponentsF archHasComponentF archLenF archNodeF archSetEntityF findOrCreateF nodeHasRelationF nodeRelationF ofBatchF pagedGetF staleF w count targetID hasTarget target comps ext =
    (P64.World.newEntitiesNoNotify archAllocNF archHasComponentF archLenF archNodeF archSetEntityF findOrCreateF nodeHasRelationF nodeRelationF pagedGetF staleF w count targetID hasTarget target comps ext).bind
      (fun r => (P64.World.lock r.1).bind (fun wl => r.2.2.1.bind (fun _ =>
        (createRecord archComponentsF archLenF r.2.1 r.2.2.1 r.2.2.2).map (fun b => (wl.1, r.2.1, C11_BatchQuery64.batchQuery ofBatchF wl.2 b))))) := by
  unfold P64.World.newEntitiesQuery createRecord
  simp only [Option.bind_eq_bind, pure, C11_BatchQuery64.newBatchQuery_eq, Option.bind_some]
  cases P64.World.newEntitiesNoNotify archAllocNF archHasComponentF archLenF archNodeF archSetEntityF findOrCreateF nodeHasRelationF nodeRelationF pagedGetF staleF w count targetID hasTarget target comps ext with
  | none => rfl
  | some r =>
    obtain ⟨w1, e1, arch, start⟩ := r
    simp only [Option.bind_some]
    cases P64.World.lock w1 with
    | none => rfl
    | some wl =>
      simp only [Option.bind_some]
      cases arch with
      | none => rfl
      | some a =>
        simp only [Option.bind_some]
        cases P64.batchArchetypes.Add _ (some a) default start (archLenF e1 (some a)) <;> rfl

/-- **closing the query of a batch creation tells the listener once, about that one record** -/
theorem newEntitiesQuery_close (hinj : ∀ b, asBatchF (ofBatchF b) = some b)
    (w2 w3 : P64.World) (lock : BitVec 8) (b : P64.batchArchetypes) (e1 : Ext)
    (hu : P64.World.unlock w2 lock = some w3) :
    (P64.World.closeQuery asBatchF notifyQueryF w2 (C11_BatchQuery64.batchQuery ofBatchF lock b) e1).map (fun r => (r.1, r.2.2)) =
      some (if w3.listener.isSome then ((notifyQueryF e1 w3 b).2.1, (notifyQueryF e1 w3 b).1) else (w3, e1)) := by
  rw [C09_CloseGen64.closeQuery_eq asBatchF notifyQueryF w2 w3 (C11_BatchQuery64.batchQuery ofBatchF lock b) e1 hu]
  simp only [Option.map_some, C11_BatchQuery64.batchQuery, hinj]
  cases w3.listener.isSome <;> rfl

end
end Arche.Props.C11_CreateQuery64
