/-
  C03 (companion, tiny build) — the regenerated walk over a registered filter's table list IS the hand-written model's walk:
  under the interpretation of a table token's length by the model's row count, `C03_IterGen64.firstFrom` (the position
  `nextFiltered_spec` says the code moves to) is the model's `Query.firstNonEmpty`, and the query state the code
  reaches is the abstraction of the model's `Query.advanceIn` — so the theorems of `Props/C03` about the model's
  cached queries (`visit_cached`: every position once, in order) speak about `Query.nextArchetypeFiltered` of query.go.
-/
import ArcheProofs.Props.C03_IterGen64
import ArcheModel

namespace Arche.Props.C03_IterModel64
open ArcheGen ArcheGen.P64 Arche Arche.Props Arche.Props.C03_IterGen64

/-- the interpretation: a table token is a table id of the model; its length is the model's row count (below 2³²) -/
structure LenInterp (w : Arche.World) (lenOf : Option Nat → BitVec 32) : Prop where
  len : ∀ t, lenOf (some t) = BitVec.ofNat 32 (w.tableOf t).rows.size
  bound : ∀ t, (w.tableOf t).rows.size < 4294967296

theorem lenOf_zero_iff (w : Arche.World) (lenOf : Option Nat → BitVec 32) (I : LenInterp w lenOf) (t : Nat) :
    (lenOf (some t) == 0#32) = true ↔ ¬ (w.tableOf t).rows.size > 0 := by
  rw [I.len]
  have hb := I.bound t
  constructor
  · intro h
    have : BitVec.ofNat 32 (w.tableOf t).rows.size = 0#32 := by simpa using h
    have h2 : (BitVec.ofNat 32 (w.tableOf t).rows.size).toNat = (0#32).toNat := congrArg BitVec.toNat this
    rw [BitVec.toNat_ofNat, Nat.mod_eq_of_lt hb] at h2
    have h3 : (0#32).toNat = 0 := rfl
    omega
  · intro h
    have : (w.tableOf t).rows.size = 0 := by omega
    rw [this]; rfl

theorem firstFromN_model (w : Arche.World) (lenOf : Option Nat → BitVec 32) (I : LenInterp w lenOf) (ts : Array Nat) (n : Nat) :
    ∀ k, k + n = ts.size → firstFromN lenOf (ts.toList.map some) n k = Arche.Query.firstNonEmpty w ts k := by
  induction n with
  | zero =>
    intro k hk
    have : ¬ k < ts.size := by omega
    rw [Arche.Query.firstNonEmpty]
    simp [firstFromN, this]
  | succ n ih =>
    intro k hk
    have hkl : k < ts.size := by omega
    rw [Arche.Query.firstNonEmpty]
    have hget : (ts.toList.map some)[k]? = some (some ts[k]) := by simp [hkl]
    simp only [firstFromN, hget, hkl, ↓reduceDIte]
    by_cases hz : (lenOf (some ts[k]) == 0#32) = true
    · have := (lenOf_zero_iff w lenOf I ts[k]).mp hz
      simp only [hz, ↓reduceIte, this]
      exact ih (k + 1) (by omega)
    · have hpos : (w.tableOf ts[k]).rows.size > 0 := by
        rcases Nat.eq_zero_or_pos (w.tableOf ts[k]).rows.size with h0 | h0
        · exact absurd ((lenOf_zero_iff w lenOf I ts[k]).mpr (by omega)) hz
        · exact h0
      simp only [hz, Bool.false_eq_true, ↓reduceIte, hpos]

/-- **the position the code moves to is the position the model moves to** -/
theorem firstFrom_model (w : Arche.World) (lenOf : Option Nat → BitVec 32) (I : LenInterp w lenOf) (ts : Array Nat) (k : Nat) (hk : k ≤ ts.size) :
    firstFrom lenOf (ts.toList.map some) k = Arche.Query.firstNonEmpty w ts k := by
  unfold firstFrom
  simp only [List.length_map, Array.length_toList]
  exact firstFromN_model w lenOf I ts (ts.size - k) k (by omega)

/-- the model query a regenerated query over a table list stands for -/
def absQ (q : P64.Query) (mq : Arche.Query) : Prop :=
  mq.mode = .cached ∧ q.archetypes.arr.toList = mq.tlist.toList.map some ∧
  q.archIndex = BitVec.ofInt 32 ((mq.archNext : Int) - 1) ∧ q.archetype = mq.cur ∧
  q.entityIndex.toNat = mq.entityIndex ∧ q.entityIndexMax.toNat = mq.entityIndexMax

section
variable {Ext : Type} (archAccessF : Ext → Option Nat → Option Nat) (archLenF : Ext → Option Nat → BitVec 32)
  (closeQueryF : Ext → P64.Query → Ext × P64.Query)

/-- **`Query.nextArchetypeFiltered` refines the model's `advanceIn`**: from corresponding query states, the code answers
    true exactly when the model advances, and then the states correspond again (same table, rows 0 … len − 1); when
    the model is exhausted the code closes the query and answers false -/
theorem nextFiltered_refines (w : Arche.World) (ext : Ext) (I : LenInterp w (archLenF ext)) (q : P64.Query) (mq : Arche.Query)
    (habs : absQ q mq) (hsz : mq.tlist.size < 2147483648) (hk : mq.archNext ≤ mq.tlist.size) :
    match Arche.Query.advanceIn w mq mq.tlist with
    | some mq' => ∃ q', Query.nextArchetypeFiltered archAccessF archLenF closeQueryF q ext = some (q', ext, true) ∧ absQ q' mq'
    | none => ∃ q', Query.nextArchetypeFiltered archAccessF archLenF closeQueryF q ext = some (q', (closeQueryF ext { q with archIndex := BitVec.ofInt 32 ((q.archetypes.arr.size : Int) - 1) }).1, false) := by
  obtain ⟨hmode, hlist, hidx, hcur, hei, hem⟩ := habs
  have hsize : q.archetypes.arr.size = mq.tlist.size := by
    have := congrArg List.length hlist
    simpa using this
  have hsome : ∀ a ∈ q.archetypes.arr.toList, a.isSome = true := by
    intro a ha; rw [hlist] at ha
    obtain ⟨t, _, rfl⟩ := List.mem_map.mp ha
    rfl
  have hspec := nextFiltered_spec archAccessF archLenF closeQueryF q ext mq.archNext (by omega) hsome (by omega) hidx
  rw [hlist, firstFrom_model w (archLenF ext) I mq.tlist mq.archNext hk] at hspec
  unfold Arche.Query.advanceIn
  cases hf : Arche.Query.firstNonEmpty w mq.tlist mq.archNext with
  | none =>
    rw [hf] at hspec
    exact ⟨_, hspec⟩
  | some j =>
    rw [hf] at hspec
    refine ⟨_, hspec, ?_⟩
    have hj : j < mq.tlist.size := by
      have := firstFrom_some (archLenF ext) (mq.tlist.toList.map some) mq.archNext j (by rw [firstFrom_model w (archLenF ext) I mq.tlist mq.archNext hk]; exact hf)
      simpa using this.2.1
    have hgetj : (mq.tlist.toList.map some)[j]?.getD none = some (mq.tlist.getD j 0) := by
      simp [hj, Array.getD, Array.getElem?_eq_getElem hj]
    refine ⟨hmode, hlist, ?_, ?_, ?_, ?_⟩
    · show BitVec.ofInt 32 (j : Int) = BitVec.ofInt 32 (((j + 1 : Nat) : Int) - 1)
      congr 1; omega
    · show (mq.tlist.toList.map some)[j]?.getD none = some (mq.tlist.getD j 0)
      exact hgetj
    · rfl
    · show (archLenF ext ((mq.tlist.toList.map some)[j]?.getD none) - 1#32).toNat = (w.tableOf (mq.tlist.getD j 0)).rows.size - 1
      rw [hgetj, I.len]
      have hb := I.bound (mq.tlist.getD j 0)
      have hpos : 0 < (w.tableOf (mq.tlist.getD j 0)).rows.size := by
        have := firstFrom_some (archLenF ext) (mq.tlist.toList.map some) mq.archNext j (by rw [firstFrom_model w (archLenF ext) I mq.tlist mq.archNext hk]; exact hf)
        obtain ⟨a, ha, hne⟩ := this.2.2.1
        have haj : a = some (mq.tlist.getD j 0) := by
          have h1 : (mq.tlist.toList.map some)[j]? = some (some (mq.tlist.getD j 0)) := by simp [hj, Array.getD, Array.getElem?_eq_getElem hj]
          rw [h1] at ha; exact (Option.some.inj ha).symm
        subst haj
        rcases Nat.eq_zero_or_pos (w.tableOf (mq.tlist.getD j 0)).rows.size with h0 | h0
        · exfalso; apply hne; rw [I.len, h0]
        · exact h0
      have hle : (1#32) ≤ BitVec.ofNat 32 (w.tableOf (mq.tlist.getD j 0)).rows.size := by
        have h1 : (BitVec.ofNat 32 (w.tableOf (mq.tlist.getD j 0)).rows.size).toNat = (w.tableOf (mq.tlist.getD j 0)).rows.size := by
          rw [BitVec.toNat_ofNat]; exact Nat.mod_eq_of_lt hb
        rw [BitVec.le_def, h1]
        show 1 ≤ _
        exact hpos
      have h1 : (BitVec.ofNat 32 (w.tableOf (mq.tlist.getD j 0)).rows.size).toNat = (w.tableOf (mq.tlist.getD j 0)).rows.size := by
        rw [BitVec.toNat_ofNat]; exact Nat.mod_eq_of_lt hb
      rw [BitVec.toNat_sub_of_le hle, h1]
      rfl

end
end Arche.Props.C03_IterModel64
