/-
  C03 (companion, tiny build) — the regenerated walk over a registered filter's table list IS the hand-written model's walk:
  under the interpretation of a table token's length by the model's row count, `C03_IterGen64.firstFrom` (the position
  `nextFiltered_spec` says the code moves to) is the model's `Query.firstNonEmpty`, and the query state the code
  reaches is the abstraction of the model's `Query.advanceIn` — so the theorems of `Props/C03` about the model's
  cached queries (`visit_cached`: every position once, in order) speak about `Query.nextArchetypeFiltered` of query.go.
-/
import ArcheProofs.Props.C03_IterGen64
import ArcheModel

namespace Arche.Props.C03_IterModel64
open ArcheGen ArcheGen.P64 Arche Arche.Props Arche.Props.C03_IterGen64

/-- the interpretation: a table token is a table id of the model; its length is the model's row count (below 2³²) -/
structure LenInterp (w : Arche.World) (lenOf : Option Nat → BitVec 32) : Prop where
  len : ∀ t, lenOf (some t) = BitVec.ofNat 32 (w.tableOf t).rows.size
  bound : ∀ t, (w.tableOf t).rows.size < 4294967296

theorem lenOf_zero_iff (w : Arche.World) (lenOf : Option Nat → BitVec 32) (I : LenInterp w lenOf) (t : Nat) :
    (lenOf (some t) == 0#32) = true ↔ ¬ (w.tableOf t).rows.size > 0 := by
  rw [I.len]
  have hb := I.bound t
  constructor
  · intro h
    have : BitVec.ofNat 32 (w.tableOf t).rows.size = 0#32 := by simpa using h
    have h2 : (BitVec.ofNat 32 (w.tableOf t).rows.size).toNat = (0#32).toNat := congrArg BitVec.toNat this
    rw [BitVec.toNat_ofNat, Nat.mod_eq_of_lt hb] at h2
    have h3 : (0#32).toNat = 0 := rfl
    omega
  · intro h
    have : (w.tableOf t).rows.size = 0 := by omega
    rw [this]; rfl

theorem firstFromN_model (w : Arche.World) (lenOf : Option Nat → BitVec 32) (I : LenInterp w lenOf) (ts : Array Nat) (n : Nat) :
    ∀ k, k + n = ts.size → firstFromN lenOf (ts.toList.map some) n k = Arche.Query.firstNonEmpty w ts k := by
  induction n with
  | zero =>
    intro k hk
    have : ¬ k < ts.size := by omega
    rw [Arche.Query.firstNonEmpty]
    simp [firstFromN, this]
  | succ n ih =>
    intro k hk
    have hkl : k < ts.size := by omega
    rw [Arche.Query.firstNonEmpty]
    have hget : (ts.toList.map some)[k]? = some (some ts[k]) := by simp [hkl]
    simp only [firstFromN, hget, hkl, ↓reduceDIte]
    by_cases hz : (lenOf (some ts[k]) == 0#32) = true
    · have := (lenOf_zero_iff w lenOf I ts[k]).mp hz
      simp only [hz, ↓reduceIte, this]
      exact ih (k + 1) (by omega)
    · have hpos : (w.tableOf ts[k]).rows.size > 0 := by
        rcases Nat.eq_zero_or_pos (w.tableOf ts[k]).rows.size with h0 | h0
        · exact absurd ((lenOf_zero_iff w lenOf I ts[k]).mpr (by omega)) hz
        · exact h0
      simp only [hz, Bool.false_eq_true, ↓reduceIte, hpos]

/-- **the position the code moves to is the position the model moves to** -/
theorem firstFrom_model (w : Arche.World) (lenOf : Option Nat → BitVec 32) (I : LenInterp w lenOf) (ts : Array Nat) (k : Nat) (hk : k ≤ ts.size) :
    firstFrom lenOf (ts.toList.map some) k = Arche.Query.firstNonEmpty w ts k := by
  unfold firstFrom
  simp only [List.length_map, Array.length_toList]
  exact firstFromN_model w lenOf I ts (ts.size - k) k (by omega)

/-- the model query a regenerated query over a table list stands for -/
def absQ (q : P64.Query) (mq : Arche.Query) : Prop :=
  mq.mode = .cached ∧ q.archetypes.arr.toList = mq.tlist.toList.map some ∧
  q.archIndex = BitVec.ofInt 32 ((mq.archNext : Int) - 1) ∧ q.archetype = mq.cur ∧
  q.entityIndex.toNat = mq.entityIndex ∧ q.entityIndexMax.toNat = mq.entityIndexMax

section
variable {Ext : Type} (archAccessF : Ext → Option Nat → Option Nat) (archLenF : Ext → Option Nat → BitVec 32)
  (closeQueryF : Ext → P64.Query → Ext × P64.Query)

/-- **`Query.nextArchetypeFiltered` refines the model's `advanceIn`**: from corresponding query states, the code answers
    true exactly when the model advances, and then the states correspond again (same table, rows 0 … len − 1); when
    the model is exhausted the code closes the query and answers false -/
theorem nextFiltered_refines (w : Arche.World) (ext : Ext) (I : LenInterp w (archLenF ext)) (q : P64.Query) (mq : Arche.Query)
    (habs : absQ q mq) (hsz : mq.tlist.size < 2147483648) (hk : mq.archNext ≤ mq.tlist.size) :
    match Arche.Query.advanceIn w mq mq.tlist with
    | some mq' => ∃ q', Query.nextArchetypeFiltered archAccessF archLenF closeQueryF q ext = some (q', ext, true) ∧ absQ q' mq'
    | none => ∃ q', Query.nextArchetypeFiltered archAccessF archLenF closeQueryF q ext = some (q', (closeQueryF ext { q with archIndex := BitVec.ofInt 32 ((q.archetypes.arr.size : Int) - 1) }).1, false) := by
  obtain ⟨hmode, hlist, hidx, hcur, hei, hem⟩ := habs
  have hsize : q.archetypes.arr.size = mq.tlist.size := by
    have := congrArg List.length hlist
    simpa using this
  have hsome : ∀ a ∈ q.archetypes.arr.toList, a.isSome = true := by
    intro a ha; rw [hlist] at ha
    obtain ⟨t, _, rfl⟩ := List.mem_map.mp ha
    rfl
  have hspec := nextFiltered_spec archAccessF archLenF closeQueryF q ext mq.archNext (by omega) hsome (by omega) hidx
  rw [hlist, firstFrom_model w (archLenF ext) I mq.tlist mq.archNext hk] at hspec
  unfold Arche.Query.advanceIn
  cases hf : Arche.Query.firstNonEmpty w mq.tlist mq.archNext with
  | none =>
    rw [hf] at hspec
    exact ⟨_, hspec⟩
  | some j =>
    rw [hf] at hspec
    refine ⟨_, hspec, ?_⟩
    have hj : j < mq.tlist.size := by
      have := firstFrom_some (archLenF ext) (mq.tlist.toList.map some) mq.archNext j (by rw [firstFrom_model w (archLenF ext) I mq.tlist mq.archNext hk]; exact hf)
      simpa using this.2.1
    have hgetj : (mq.tlist.toList.map some)[j]?.getD none = some (mq.tlist.getD j 0) := by
      simp [hj, Array.getD, Array.getElem?_eq_getElem hj]
    refine ⟨hmode, hlist, ?_, ?_, ?_, ?_⟩
    · show BitVec.ofInt 32 (j : Int) = BitVec.ofInt 32 (((j + 1 : Nat) : Int) - 1)
      congr 1; omega
    · show (mq.tlist.toList.map some)[j]?.getD none = some (mq.tlist.getD j 0)
      exact hgetj
    · rfl
    · show (archLenF ext ((mq.tlist.toList.map some)[j]?.getD none) - 1#32).toNat = (w.tableOf (mq.tlist.getD j 0)).rows.size - 1
      rw [hgetj, I.len]
      have hb := I.bound (mq.tlist.getD j 0)
      have hpos : 0 < (w.tableOf (mq.tlist.getD j 0)).rows.size := by
        have := firstFrom_some (archLenF ext) (mq.tlist.toList.map some) mq.archNext j (by rw [firstFrom_model w (archLenF ext) I mq.tlist mq.archNext hk]; exact hf)
        obtain ⟨a, ha, hne⟩ := this.2.2.1
        have haj : a = some (mq.tlist.getD j 0) := by
          have h1 : (mq.tlist.toList.map some)[j]? = some (some (mq.tlist.getD j 0)) := by simp [hj, Array.getD, Array.getElem?_eq_getElem hj]
          rw [h1] at ha; exact (Option.some.inj ha).symm
        subst haj
        rcases Nat.eq_zero_or_pos (w.tableOf (mq.tlist.getD j 0)).rows.size with h0 | h0
        · exfalso; apply hne; rw [I.len, h0]
        · exact h0
      have hle : (1#32) ≤ BitVec.ofNat 32 (w.tableOf (mq.tlist.getD j 0)).rows.size := by
        have h1 : (BitVec.ofNat 32 (w.tableOf (mq.tlist.getD j 0)).rows.size).toNat = (w.tableOf (mq.tlist.getD j 0)).rows.size := by
          rw [BitVec.toNat_ofNat]; exact Nat.mod_eq_of_lt hb
        rw [BitVec.le_def, h1]
        show 1 ≤ _
        exact hpos
      have h1 : (BitVec.ofNat 32 (w.tableOf (mq.tlist.getD j 0)).rows.size).toNat = (w.tableOf (mq.tlist.getD j 0)).rows.size := by
        rw [BitVec.toNat_ofNat]; exact Nat.mod_eq_of_lt hb
      rw [BitVec.toNat_sub_of_le hle, h1]
      rfl

/-! ### the batch walk -/

theorem firstFromN_batch (w : Arche.World) (lenOf : Option Nat → BitVec 32) (I : LenInterp w lenOf) (bs : Array BatchEntry) (n : Nat) :
    ∀ k, k + n = bs.size → firstFromN lenOf (bs.toList.map (fun b => some b.tbl)) n k = Arche.Query.firstBatch w bs k := by
  induction n with
  | zero =>
    intro k hk
    have : ¬ k < bs.size := by omega
    rw [Arche.Query.firstBatch]
    simp [firstFromN, this]
  | succ n ih =>
    intro k hk
    have hkl : k < bs.size := by omega
    rw [Arche.Query.firstBatch]
    have hget : (bs.toList.map (fun b => some b.tbl))[k]? = some (some bs[k].tbl) := by simp [hkl]
    simp only [firstFromN, hget, hkl, ↓reduceDIte]
    by_cases hz : (lenOf (some bs[k].tbl) == 0#32) = true
    · have := (lenOf_zero_iff w lenOf I bs[k].tbl).mp hz
      simp only [hz, ↓reduceIte, this]
      exact ih (k + 1) (by omega)
    · have hpos : (w.tableOf bs[k].tbl).rows.size > 0 := by
        rcases Nat.eq_zero_or_pos (w.tableOf bs[k].tbl).rows.size with h0 | h0
        · exact absurd ((lenOf_zero_iff w lenOf I bs[k].tbl).mpr (by omega)) hz
        · exact h0
      simp only [hz, Bool.false_eq_true, ↓reduceIte, hpos]

/-- the regenerated batch record a model batch stands for -/
def absBatch (b : batchArchetypes) (bs : Array BatchEntry) : Prop :=
  b.Archetype.arr.toList = bs.toList.map (fun e => some e.tbl) ∧
  b.StartIndex.arr.toList = bs.toList.map (fun e => BitVec.ofNat 32 e.start) ∧
  b.EndIndex.arr.toList = bs.toList.map (fun e => BitVec.ofNat 32 e.stop)

variable (archsGetF : GoAny → BitVec 32 → Option Nat) (archsLenF : GoAny → BitVec 32) (asBatchF : GoAny → Option batchArchetypes)

/-- **`Query.nextBatch` moves to the entry the model's batch walk moves to** (`firstBatch`): under the interpretation of
    table lengths by the model and of the batch record by the model's entries, the code answers true exactly when the
    model finds a further entry with a non-empty destination table, and then stands on that entry's table at its
    recorded rows `start … stop − 1`; otherwise it closes the query -/
theorem nextBatch_refines (w : Arche.World) (ext : Ext) (I : LenInterp w (archLenF ext)) (q : P64.Query) (b : batchArchetypes) (bs : Array BatchEntry)
    (k : Nat) (hb : asBatchF q.nodeArchetypes = some b) (habs : absBatch b bs) (hsz : bs.size < 2147483648)
    (hlen : archsLenF q.nodeArchetypes = BitVec.ofInt 32 (b.Archetype.arr.size : Int))
    (hget : ∀ i, i < b.Archetype.arr.size → archsGetF q.nodeArchetypes (BitVec.ofInt 32 (i : Int)) = b.Archetype.arr.toList[i]?.getD none)
    (hk : k ≤ bs.size) (hidx : q.archIndex = BitVec.ofInt 32 ((k : Int) - 1)) :
    match Arche.Query.firstBatch w bs k with
    | some j => ∃ q', Query.nextBatch archAccessF archLenF archsGetF archsLenF asBatchF closeQueryF q ext = some (q', ext, true) ∧
        q'.archIndex = BitVec.ofInt 32 (j : Int) ∧ q'.archetype = some (bs.getD j default).tbl ∧
        q'.entityIndex = BitVec.ofNat 32 (bs.getD j default).start ∧ q'.entityIndexMax = BitVec.ofNat 32 (bs.getD j default).stop - 1#32
    | none => ∃ q' e', Query.nextBatch archAccessF archLenF archsGetF archsLenF asBatchF closeQueryF q ext = some (q', e', false) := by
  obtain ⟨hA, hS, hE⟩ := habs
  have hsize : b.Archetype.arr.size = bs.size := by have := congrArg List.length hA; simpa using this
  have hs1 : b.StartIndex.arr.size = b.Archetype.arr.size := by have := congrArg List.length hS; simp at this; omega
  have hs2 : b.EndIndex.arr.size = b.Archetype.arr.size := by have := congrArg List.length hE; simp at this; omega
  have hsome : ∀ a ∈ b.Archetype.arr.toList, a.isSome = true := by
    intro a ha; rw [hA] at ha
    obtain ⟨t, _, rfl⟩ := List.mem_map.mp ha
    rfl
  have hspec := nextBatch_spec archAccessF archLenF closeQueryF archsGetF archsLenF asBatchF q ext k b hb (by omega) hs1 hs2 hsome hlen hget (by omega) hidx
  have hff : firstFrom (archLenF ext) b.Archetype.arr.toList k = Arche.Query.firstBatch w bs k := by
    unfold firstFrom
    rw [hA]
    simp only [List.length_map, Array.length_toList]
    exact firstFromN_batch w (archLenF ext) I bs (bs.size - k) k (by omega)
  rw [hff] at hspec
  cases hf : Arche.Query.firstBatch w bs k with
  | none => rw [hf] at hspec; exact ⟨_, _, hspec⟩
  | some j =>
    rw [hf] at hspec
    have hj : j < bs.size := by
      have := firstFrom_some (archLenF ext) b.Archetype.arr.toList k j (by rw [hff]; exact hf)
      have h2 := this.2.1
      simp only [Array.length_toList] at h2
      omega
    refine ⟨_, hspec, rfl, ?_, ?_, ?_⟩
    · show b.Archetype.arr.toList[j]?.getD none = _
      rw [hA]; simp [hj, Array.getD, Array.getElem?_eq_getElem hj]
    · show b.StartIndex.arr.toList[j]?.getD 0#32 = _
      rw [hS]; simp [hj, Array.getD, Array.getElem?_eq_getElem hj]
    · show b.EndIndex.arr.toList[j]?.getD 0#32 - 1#32 = _
      rw [hE]; simp [hj, Array.getD, Array.getElem?_eq_getElem hj]

end
end Arche.Props.C03_IterModel64
