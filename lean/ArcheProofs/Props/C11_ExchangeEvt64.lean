/-
  C11 companion, tiny build (64-bit masks) — `World.notifyExchange` and `World.exchange` (ecs/world_internal.go), REGENERATED on every run: what
  a listener is told about a single-entity exchange (`Add`, `Remove`, `Exchange`, `Assign`, `Relations.Exchange`).

  * `notifyExchange_spec`: the world is untouched; the listener is called at most once, exactly when its subscriptions
    meet the event's type bits and `subscribes` admits it; the event carries the entity, `Added = new ∧ (old xor new)`,
    `Removed = old ∧ (old xor new)`, the id lists as given, the old and the new relation component, the old target, and
    the type bits `subscription(false, false, len(add) > 0, len(rem) > 0, relChanged, relChanged || targetChanged)` with
    `relChanged = (oldRel ≠ newRel)` and `targetChanged = (oldTarget ≠ the new table's target)`;
  * `added_mem`, `removed_mem`: read as sets, `Added` is exactly what the new table has and the old did not, `Removed`
    exactly what the old table had and the new has not — the event is truthful about the change of the component set;
  * `exchange_no_listener`: without a listener `exchange` is `exchangeNoNotify`.
-/
import ArcheProofs.Props.C01_ExchangeGen64

namespace Arche.Props.C11_ExchangeEvt64
open ArcheGen ArcheGen.P64 Arche Arche.Props

section
variable {Ext : Type}
  (archHasRelCompF : Ext → Option Nat → Bool) (archMaskF : Ext → Option Nat → ArcheGen.M64.Mask)
  (archRelCompF : Ext → Option Nat → BitVec 8) (archTargetF : Ext → Option Nat → P64.Entity)
  (lstCompsF : Ext → GoAny → Option (ArcheGen.M64.Mask)) (lstSubsF : Ext → GoAny → BitVec 8)
  (notifyF : Ext → GoAny → EntityEvent → Ext × Unit)

/-- the new relation component, as `notifyExchange` reads it off the new table -/
def newRelOf (ext : Ext) (t : Nat) : Option (BitVec 8) :=
  if archHasRelCompF ext (some t) then some (archRelCompF ext (some t)) else none

/-- the type bits of the event -/
def bitsOf (ext : Ext) (t : Nat) (add rem : GoSlice (BitVec 8)) (oldTarget : P64.Entity) (oldRel : Option (BitVec 8)) : BitVec 8 :=
  let newRel := newRelOf archHasRelCompF archRelCompF ext t
  M64.subscription false false (decide ((0 : Int) < ((add.size : Nat) : Int))) (decide ((0 : Int) < ((rem.size : Nat) : Int)))
    (oldRel != newRel) ((oldRel != newRel) || (oldTarget != archTargetF ext (some t)))

/-- the event handed to the listener -/
def eventOf (ext : Ext) (t : Nat) (om : M64.Mask) (e : P64.Entity) (add rem : GoSlice (BitVec 8)) (oldTarget : P64.Entity)
    (oldRel : Option (BitVec 8)) : EntityEvent :=
  { Entity := e,
    Added := M64.Mask.And (archMaskF ext (some t)) (M64.Mask.Xor om (archMaskF ext (some t))),
    Removed := M64.Mask.And om (M64.Mask.Xor om (archMaskF ext (some t))),
    AddedIDs := add, RemovedIDs := rem, OldRelation := oldRel, NewRelation := newRelOf archHasRelCompF archRelCompF ext t,
    OldTarget := oldTarget, EventTypes := bitsOf archHasRelCompF archRelCompF archTargetF ext t add rem oldTarget oldRel }

theorem some_bne (a b : BitVec 8) : (some a != some b) = (a != b) := by
  simp only [bne, Option.some_beq_some]

/-- **what the listener is told about an exchange** -/
theorem notifyExchange_spec (w : P64.World) (t : Nat) (om : M64.Mask) (e : P64.Entity) (add rem : GoSlice (BitVec 8))
    (oldTarget : P64.Entity) (oldRel : Option (BitVec 8)) (ext : Ext) :
    P64.World.notifyExchange archHasRelCompF archMaskF archRelCompF archTargetF lstCompsF lstSubsF notifyF
      w (some t) (some om) e add rem oldTarget oldRel ext =
    some (w,
      let ev := eventOf archHasRelCompF archMaskF archRelCompF archTargetF ext t om e add rem oldTarget oldRel
      let trigger := lstSubsF ext w.listener &&& ev.EventTypes
      if (trigger != 0#8) && M64.subscribes trigger (some ev.Added) (some ev.Removed) (lstCompsF ext w.listener) oldRel ev.NewRelation
      then (notifyF ext w.listener ev).1 else ext) := by
  unfold P64.World.notifyExchange
  simp only [Option.bind_eq_bind, Option.bind_some, pure]
  have hnew : (if archHasRelCompF ext (some t) = true then
        (some (w, ext, some (archRelCompF ext (some t))) : Option (P64.World × Ext × Option (BitVec 8)))
      else some (w, ext, default)) = some (w, ext, newRelOf archHasRelCompF archRelCompF ext t) := by
    unfold newRelOf; split <;> rfl
  rw [hnew]
  simp only [Option.bind_some]
  generalize hnr : newRelOf archHasRelCompF archRelCompF ext t = newRel
  have hrc : (if (oldRel.isSome || newRel.isSome) = true then
        ((if (oldRel.isNone != newRel.isNone) = true then (some true : Option Bool)
          else oldRel.bind fun d1 => newRel.bind fun d2 => some (d1 != d2)).bind fun b3 =>
            (some (w, ext, b3) : Option (P64.World × Ext × Bool)))
      else some (w, ext, false)) = some (w, ext, oldRel != newRel) := by
    cases oldRel <;> cases newRel <;> simp [some_bne]
  rw [hrc]
  simp only [Option.bind_some]
  simp only [eventOf, bitsOf, hnr]
  generalize (lstSubsF ext w.listener &&& _) = trig
  by_cases htr : (trig != 0#8) = true
  · simp only [htr, ↓reduceIte, Bool.true_and]
    generalize M64.subscribes trig _ _ _ oldRel newRel = sb
    cases sb <;> rfl
  · have : (trig != 0#8) = false := by simpa using htr
    simp only [this, Bool.false_eq_true, ↓reduceIte, Bool.false_and]
    rfl

/-- read as sets: `Added` is what the new table has and the old one did not -/
theorem added_mem (ext : Ext) (t : Nat) (om : M64.Mask) (e : P64.Entity) (add rem : GoSlice (BitVec 8)) (oldTarget : P64.Entity)
    (oldRel : Option (BitVec 8)) (j : Nat) :
    C04.B64.mem (eventOf archHasRelCompF archMaskF archRelCompF archTargetF ext t om e add rem oldTarget oldRel).Added j =
      (C04.B64.mem (archMaskF ext (some t)) j && !C04.B64.mem om j) := by
  simp only [eventOf, C04.B64.and_mem, C04.B64.xor_mem]
  cases C04.B64.mem (archMaskF ext (some t)) j <;> cases C04.B64.mem om j <;> rfl

/-- read as sets: `Removed` is what the old table had and the new one has not -/
theorem removed_mem (ext : Ext) (t : Nat) (om : M64.Mask) (e : P64.Entity) (add rem : GoSlice (BitVec 8)) (oldTarget : P64.Entity)
    (oldRel : Option (BitVec 8)) (j : Nat) :
    C04.B64.mem (eventOf archHasRelCompF archMaskF archRelCompF archTargetF ext t om e add rem oldTarget oldRel).Removed j =
      (C04.B64.mem om j && !C04.B64.mem (archMaskF ext (some t)) j) := by
  simp only [eventOf, C04.B64.and_mem, C04.B64.xor_mem]
  cases C04.B64.mem (archMaskF ext (some t)) j <;> cases C04.B64.mem om j <;> rfl

/-- without a listener, `exchange` is `exchangeNoNotify` (its results dropped) -/
theorem exchange_no_listener
    (archActiveF : Ext → Option Nat → Bool) (archAllocF : Ext → Option Nat → P64.Entity → Ext × BitVec 32)
    (archComponentsF : Ext → Option Nat → GoSlice (BitVec 8)) (archGetEntityF : Ext → Option Nat → BitVec 32 → P64.Entity)
    (archGetF : Ext → Option Nat → BitVec 32 → BitVec 8 → GoAny) (archHasRelationF : Ext → Option Nat → Bool)
    (archLenF : Ext → Option Nat → BitVec 32) (archNodeF : Ext → Option Nat → Option Nat)
    (archRemoveF : Ext → Option Nat → BitVec 32 → Ext × Bool)
    (archSetPointerF : Ext → Option Nat → BitVec 32 → BitVec 8 → GoAny → Ext × Unit)
    (findOrCreateF : Ext → P64.World → Option Nat → GoSlice (BitVec 8) → GoSlice (BitVec 8) → P64.Entity → Ext × P64.World × Option Nat)
    (matchesF : GoAny → ArcheGen.M64.Mask → Bool) (nodeHasRelationF : Ext → Option Nat → Bool)
    (nodeRemoveArchetypeF : Ext → Option Nat → Option Nat → Ext × Unit)
    (w : P64.World) (e : P64.Entity) (add rem : GoSlice (BitVec 8)) (rel : BitVec 8) (hasRel : Bool) (target : P64.Entity) (ext : Ext)
    (hl : w.listener = none) :
    P64.World.exchange archActiveF archAllocF archComponentsF archGetEntityF archGetF archHasRelCompF archHasRelationF archLenF archMaskF
        archNodeF archRelCompF archRemoveF archSetPointerF archTargetF findOrCreateF lstCompsF lstSubsF matchesF nodeHasRelationF
        nodeRemoveArchetypeF notifyF w e add rem rel hasRel target ext =
      (P64.World.exchangeNoNotify archActiveF archAllocF archComponentsF archGetEntityF archGetF archHasRelCompF archHasRelationF archLenF archMaskF
        archNodeF archRelCompF archRemoveF archSetPointerF archTargetF findOrCreateF matchesF nodeHasRelationF nodeRemoveArchetypeF
        w e add rem rel hasRel target ext).map (fun r => (r.1, r.2.1)) := by
  unfold P64.World.exchange
  simp only [hl, Option.isSome_none, Bool.false_eq_true, ↓reduceIte, Option.bind_eq_bind, pure]
  cases P64.World.exchangeNoNotify archActiveF archAllocF archComponentsF archGetEntityF archGetF archHasRelCompF archHasRelationF archLenF archMaskF
        archNodeF archRelCompF archRemoveF archSetPointerF archTargetF findOrCreateF matchesF nodeHasRelationF nodeRemoveArchetypeF
        w e add rem rel hasRel target ext <;> rfl

end

end Arche.Props.C11_ExchangeEvt64
