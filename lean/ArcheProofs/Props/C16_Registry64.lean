/-
  C16 companion — the type registry (`componentRegistry`, ecs/registry.go), REGENERATED on every
  run (ArcheGen/Pool64.lean; `reflect.Type` values are tokens, the Go map is an association list,
  the reflective test `isRelation` is a function parameter `isRelationF`):

    `register_spec`   — registering a type the registry does not know, below the limit, gives it
                        the next dense id (= the number of registered types), makes exactly that
                        id used, flags it as a relation exactly when `isRelationF` says so, keeps
                        every other type's id, and keeps the invariant
    `register_limit`  — at the limit the call panics
    `componentID_known` / `componentID_new` — a known type keeps its id (nothing changes); an
                        unknown one is registered
    `rollback_exact`  — `unregisterLastComponent` after a registration restores the registry
                        exactly (map, type table, id list, both masks): a registration refused in
                        a locked world leaves no trace
    `register_model`  — on the counters the world model keeps (`count`, `isRel`) the step is the
                        model's `World.registerComponent`
-/
import ArcheGen.Pool64
import ArcheModel
import ArcheProofs.Props.C09_LockPool64

namespace Arche.Props.C16_Registry64
open ArcheGen ArcheGen.P64 Arche Arche.Props

/-! ## association-list facts -/

theorem filter_fresh {K V : Type} [DecidableEq K] (l : List (K × V)) (k : K) (h : l.find? (fun p => p.1 == k) = none) :
    l.filter (fun p => !(p.1 == k)) = l := by
  induction l with
  | nil => rfl
  | cons a l ih =>
    rw [List.find?_cons] at h
    cases hk : (a.1 == k)
    · rw [hk] at h
      rw [List.filter_cons, hk]
      simp only [Bool.not_false, if_true]
      rw [ih h]
    · rw [hk] at h; cases h

theorem find_fresh_entries {K V : Type} [DecidableEq K] (m : GoMap K V) (k : K) (h : m.find k = none) :
    m.entries.find? (fun p => p.1 == k) = none := by
  unfold GoMap.find at h
  cases hf : m.entries.find? (fun p => p.1 == k)
  · rfl
  · rw [hf] at h; cases h

theorem set_fresh {K V : Type} [DecidableEq K] (m : GoMap K V) (k : K) (v : V) (h : m.find k = none) (hn : m.nonNil = true) :
    m.set k v = some ⟨(k, v) :: m.entries, true⟩ := by
  unfold GoMap.set GoMap.delete
  rw [if_pos hn]
  simp only [filter_fresh _ _ (find_fresh_entries m k h), hn]

theorem delete_cons_fresh {K V : Type} [DecidableEq K] (m : GoMap K V) (k : K) (v : V) (h : m.find k = none) (hn : m.nonNil = true) :
    GoMap.delete ⟨(k, v) :: m.entries, true⟩ k = m := by
  unfold GoMap.delete
  simp only [List.filter_cons, beq_self_eq_true, Bool.not_true, Bool.false_eq_true, if_false]
  rw [filter_fresh _ _ (find_fresh_entries m k h)]
  cases m
  simp only [] at hn
  simp [hn]

theorem find_cons {K V : Type} [DecidableEq K] (l : List (K × V)) (k k' : K) (v : V) (b : Bool) :
    GoMap.find ⟨(k, v) :: l, b⟩ k' = if k = k' then some v else GoMap.find ⟨l, b⟩ k' := by
  unfold GoMap.find
  simp only [List.find?_cons]
  by_cases h : k = k'
  · simp [h]
  · have : (k == k') = false := by simpa using h
    simp [h, this]

/-! ## the registry invariant -/

structure RInv (r : componentRegistry) : Prop where
  types : r.Types.arr.size = 64
  bound : r.Components.len ≤ 64
  unusedU : ∀ j, r.Components.len ≤ j → C04.B64.mem r.Used j = false
  unusedR : ∀ j, r.Components.len ≤ j → C04.B64.mem r.IsRelation j = false
  unusedT : ∀ j, r.Components.len ≤ j → j < 64 → r.Types.arr[j]? = some none
  ids : r.IDs.arr.size = r.Components.len
  nonNil : r.Components.nonNil = true

theorem mask_ext (a b : M64.Mask) (h : ∀ j, C04.B64.mem a j = C04.B64.mem b j) : a = b := by
  have w : a.bits = b.bits := by
    apply BitVec.eq_of_getLsbD_eq
    intro i hi
    have := h i
    unfold C04.B64.mem at this
    simpa [hi] using this
  cases a
  cases b
  simp only [] at w
  simp [w]

theorem set_clear (m : M64.Mask) (b : BitVec 8) (hb : b.toNat < 64) (h : C04.B64.mem m b.toNat = false) : (m.Set b true).Set b false = m := by
  apply mask_ext
  intro j
  rw [C04.B64.set_spec _ _ _ _ hb, C04.B64.set_spec _ _ _ _ hb]
  by_cases hj : j = b.toNat
  · rw [if_pos hj, hj, h]
  · rw [if_neg hj, if_neg hj]

theorem clear_noop (m : M64.Mask) (b : BitVec 8) (hb : b.toNat < 64) (h : C04.B64.mem m b.toNat = false) : m.Set b false = m := by
  apply mask_ext
  intro j
  rw [C04.B64.set_spec _ _ _ _ hb]
  by_cases hj : j = b.toNat
  · rw [if_pos hj, hj, h]
  · rw [if_neg hj]

/-! ## registration -/

/-- the registry after registering the unknown type `tp` -/
def regResult (isRel : GoAny → Bool) (r : componentRegistry) (tp : GoAny) : componentRegistry :=
  { Components := ⟨(tp, BitVec.ofInt 8 r.Components.len) :: r.Components.entries, true⟩,
    Types := { r.Types with arr := r.Types.arr.setIfInBounds r.Components.len tp },
    IDs := GoSlice.append r.IDs (BitVec.ofInt 8 r.Components.len),
    Used := r.Used.Set (BitVec.ofInt 8 r.Components.len) true,
    IsRelation := if isRel tp = true then r.IsRelation.Set (BitVec.ofInt 8 r.Components.len) true else r.IsRelation }

theorem id_toNat (n : Nat) (h : n < 64) : (BitVec.ofInt 8 (n : Int)).toNat = n := by
  simp only [BitVec.toNat_ofInt]
  omega

theorem register_eval (isRel : GoAny → Bool) (r : componentRegistry) (I : RInv r) (tp : GoAny) (tb : Int)
    (htb : (r.Components.len : Int) < tb) (hn : r.Components.len < 64) (hf : r.Components.find tp = none) :
    componentRegistry.registerComponent isRel r tp tb = some (regResult isRel r tp, BitVec.ofInt 8 r.Components.len) := by
  have hle : decide (tb ≤ (r.Components.len : Int)) = false := by simp; omega
  have hin : r.Components.len < r.Types.arr.size := by rw [I.types]; exact hn
  unfold componentRegistry.registerComponent regResult
  simp only [hle, Bool.false_eq_true, if_false, bind, Option.bind, pure, set_fresh _ _ _ hf I.nonNil, GoSlice.set, id_toNat _ hn, hin, if_true]
  cases isRel tp <;> simp

theorem register_limit (isRel : GoAny → Bool) (r : componentRegistry) (tp : GoAny) (tb : Int) (h : tb ≤ (r.Components.len : Int)) :
    componentRegistry.registerComponent isRel r tp tb = none := by
  unfold componentRegistry.registerComponent
  simp [h]

theorem len_regResult (isRel : GoAny → Bool) (r : componentRegistry) (tp : GoAny) :
    (regResult isRel r tp).Components.len = r.Components.len + 1 := by
  simp [regResult, GoMap.len]

/-- **registration of an unknown type**: next dense id, exactly that id becomes used, relation flag
    as the reflective test says, every other type keeps its id, invariant kept -/
theorem register_spec (isRel : GoAny → Bool) (r : componentRegistry) (I : RInv r) (tp : GoAny)
    (hn : r.Components.len < 64) (hf : r.Components.find tp = none) :
    RInv (regResult isRel r tp) ∧
    (regResult isRel r tp).Components.find tp = some (BitVec.ofInt 8 r.Components.len) ∧
    (∀ tp', tp' ≠ tp → (regResult isRel r tp).Components.find tp' = r.Components.find tp') ∧
    (∀ j, C04.B64.mem (regResult isRel r tp).Used j = if j = r.Components.len then true else C04.B64.mem r.Used j) ∧
    (∀ j, C04.B64.mem (regResult isRel r tp).IsRelation j = if j = r.Components.len then isRel tp else C04.B64.mem r.IsRelation j) := by
  have hid := id_toNat _ hn
  have hU : ∀ j, C04.B64.mem (regResult isRel r tp).Used j = if j = r.Components.len then true else C04.B64.mem r.Used j := by
    intro j
    show C04.B64.mem (r.Used.Set _ true) j = _
    rw [C04.B64.set_spec _ _ _ _ (by rw [hid]; exact hn), hid]
  have hR : ∀ j, C04.B64.mem (regResult isRel r tp).IsRelation j = if j = r.Components.len then isRel tp else C04.B64.mem r.IsRelation j := by
    intro j
    unfold regResult
    simp only []
    cases hrel : isRel tp
    · simp only [Bool.false_eq_true, if_false]
      by_cases hj : j = r.Components.len
      · rw [if_pos hj, hj]; exact I.unusedR _ (Nat.le_refl _)
      · rw [if_neg hj]
    · simp only [if_true]
      rw [C04.B64.set_spec _ _ _ _ (by rw [hid]; exact hn), hid]
  refine ⟨⟨?_, ?_, ?_, ?_, ?_, ?_, rfl⟩, ?_, ?_, hU, hR⟩
  · simp [regResult, I.types]
  · rw [len_regResult]; omega
  · intro j hj
    rw [len_regResult] at hj
    rw [hU, if_neg (by omega)]
    exact I.unusedU j (by omega)
  · intro j hj
    rw [len_regResult] at hj
    rw [hR, if_neg (by omega)]
    exact I.unusedR j (by omega)
  · intro j hj hj2
    rw [len_regResult] at hj
    show (r.Types.arr.setIfInBounds r.Components.len tp)[j]? = _
    rw [Array.getElem?_setIfInBounds_ne (by omega)]
    exact I.unusedT j (by omega) hj2
  · rw [len_regResult]
    simp [regResult, GoSlice.append, I.ids]
  · show GoMap.find ⟨_ :: _, true⟩ tp = _
    rw [find_cons, if_pos rfl]
  · intro tp' hne
    show GoMap.find ⟨_ :: _, true⟩ tp' = _
    rw [find_cons, if_neg (fun hc => hne hc.symm)]
    cases hc : r.Components
    rename_i ent nn
    have : nn = true := by have := I.nonNil; rw [hc] at this; exact this
    subst this
    rfl

/-! ## ComponentID -/

theorem componentID_known (isRel : GoAny → Bool) (r : componentRegistry) (tp : GoAny) (id : BitVec 8) (h : r.Components.find tp = some id) :
    componentRegistry.ComponentID isRel r tp = some (r, (id, false)) := by
  unfold componentRegistry.ComponentID
  simp [h, pure]

theorem componentID_new (isRel : GoAny → Bool) (r : componentRegistry) (I : RInv r) (tp : GoAny)
    (hn : r.Components.len < 64) (hf : r.Components.find tp = none) :
    componentRegistry.ComponentID isRel r tp = some (regResult isRel r tp, (BitVec.ofInt 8 r.Components.len, true)) := by
  unfold componentRegistry.ComponentID
  simp only [hf, Option.isSome_none, Bool.false_eq_true, if_false, bind, Option.bind, pure,
    register_eval isRel r I tp 64 (by omega) hn hf]

theorem componentID_limit (isRel : GoAny → Bool) (r : componentRegistry) (tp : GoAny)
    (hn : 64 ≤ r.Components.len) (hf : r.Components.find tp = none) :
    componentRegistry.ComponentID isRel r tp = none := by
  unfold componentRegistry.ComponentID
  simp only [hf, Option.isSome_none, Bool.false_eq_true, if_false, bind, Option.bind,
    register_limit isRel r tp 64 (by omega)]

/-! ## rollback -/

theorem setIfInBounds_same {α : Type} (a : Array α) (i : Nat) (v : α) (h : a[i]? = some v) : a.setIfInBounds i v = a := by
  apply Array.ext
  · simp
  · intro j h1 h2
    rw [Array.getElem_setIfInBounds]
    by_cases hij : i = j
    · subst hij
      rw [if_pos rfl]
      rw [Array.getElem?_eq_getElem h2] at h
      exact (Option.some.inj h).symm
    · rw [if_neg hij]

/-- **a registration followed by `unregisterLastComponent` restores the registry exactly** -/
theorem rollback_exact (isRel : GoAny → Bool) (r : componentRegistry) (I : RInv r) (tp : GoAny)
    (hn : r.Components.len < 64) (hf : r.Components.find tp = none) :
    ∃ r', componentRegistry.unregisterLastComponent (regResult isRel r tp) = some r' ∧
      r'.Components = r.Components ∧ r'.Types = r.Types ∧ r'.IDs.arr = r.IDs.arr ∧ r'.Used = r.Used ∧ r'.IsRelation = r.IsRelation := by
  have hid := id_toNat _ hn
  have hin : r.Components.len < r.Types.arr.size := by rw [I.types]; exact hn
  have hlen : ((((regResult isRel r tp).Components.len : Nat) : Int) - 1) = (r.Components.len : Int) := by
    rw [len_regResult]; omega
  have hT : (regResult isRel r tp).Types.arr[r.Components.len]? = some tp := by
    show (r.Types.arr.setIfInBounds r.Components.len tp)[r.Components.len]? = _
    rw [Array.getElem?_setIfInBounds_self_of_lt hin]
  have hin' : r.Components.len < (regResult isRel r tp).Types.arr.size := by simpa [regResult] using hin
  have hpre : GoSlice.prefix (regResult isRel r tp).IDs ((((regResult isRel r tp).IDs.arr.size : Nat) : Int) - 1) =
      some ⟨r.IDs.arr, (regResult isRel r tp).IDs.cap⟩ := by
    unfold GoSlice.prefix
    have hs : (regResult isRel r tp).IDs.arr.size = r.IDs.arr.size + 1 := by simp [regResult, GoSlice.append]
    rw [hs, if_pos ⟨by omega, by omega⟩]
    congr 2
    have : ((((r.IDs.arr.size + 1 : Nat) : Int) - 1)).toNat = r.IDs.arr.size := by omega
    rw [this]
    show (r.IDs.arr.push _).extract 0 r.IDs.arr.size = r.IDs.arr
    apply Array.ext
    · simp
    · intro j h1 h2
      simp [Array.getElem_push, h2]
  refine ⟨{ Components := GoMap.delete (regResult isRel r tp).Components tp,
            Types := { (regResult isRel r tp).Types with arr := (regResult isRel r tp).Types.arr.setIfInBounds r.Components.len none },
            IDs := ⟨r.IDs.arr, (regResult isRel r tp).IDs.cap⟩,
            Used := (regResult isRel r tp).Used.Set (BitVec.ofInt 8 r.Components.len) false,
            IsRelation := (regResult isRel r tp).IsRelation.Set (BitVec.ofInt 8 r.Components.len) false }, ?_, ?_⟩
  · unfold componentRegistry.unregisterLastComponent componentRegistry.ComponentType
    simp only [bind, Option.bind, pure, GoSlice.size, hlen, hid, GoSlice.get, hT, GoSlice.set, hin', if_true, hpre]
  · refine ⟨?_, ?_, rfl, ?_, ?_⟩
    · exact delete_cons_fresh r.Components tp _ hf I.nonNil
    · show ({ arr := (r.Types.arr.setIfInBounds r.Components.len tp).setIfInBounds r.Components.len none, cap := r.Types.cap } : GoSlice GoAny) = r.Types
      rw [Array.setIfInBounds_setIfInBounds, setIfInBounds_same _ _ _ (I.unusedT _ (Nat.le_refl _) hn)]
    · show (r.Used.Set _ true).Set _ false = r.Used
      exact set_clear _ _ (by rw [hid]; exact hn) (by rw [hid]; exact I.unusedU _ (Nat.le_refl _))
    · show M64.Mask.Set (if isRel tp = true then _ else _) _ false = r.IsRelation
      cases isRel tp
      · simp only [Bool.false_eq_true, if_false]
        exact clear_noop _ _ (by rw [hid]; exact hn) (by rw [hid]; exact I.unusedR _ (Nat.le_refl _))
      · simp only [if_true]
        exact set_clear _ _ (by rw [hid]; exact hn) (by rw [hid]; exact I.unusedR _ (Nat.le_refl _))

/-! ## the empty registry, and the step on the model's counters -/

theorem new_spec : ∃ r, newComponentRegistry = some r ∧ RInv r ∧ r.Components.len = 0 := by
  have e1 : (GoMap.empty : GoMap GoAny (BitVec 8)).entries = [] := rfl
  have e2 : (default : GoSlice (BitVec 8)).arr = #[] := rfl
  have e3 : (default : GoAny) = none := rfl
  refine ⟨_, rfl, ⟨by simp, by simp [GoMap.len, e1], ?_, ?_, ?_, by simp [GoMap.len, e1, e2], rfl⟩, by simp [GoMap.len, e1]⟩
  · intro j _; exact C04.B64.mem_default j
  · intro j _; exact C04.B64.mem_default j
  · intro j _ hj
    simp [hj, e3]

/-- what the world model keeps of the registry -/
def absCount (r : componentRegistry) : Nat := r.Components.len
def absIsRel (r : componentRegistry) : Mask := C09_LockPool64.natOf r.IsRelation

/-- **on `count` and `isRel` a registration is the model's `World.registerComponent`** -/
theorem register_model (isRel : GoAny → Bool) (r : componentRegistry) (I : RInv r) (tp : GoAny) (hn : r.Components.len < 64) :
    absCount (regResult isRel r tp) = absCount r + 1 ∧
    absIsRel (regResult isRel r tp) = Mask.set (absIsRel r) (absCount r) (isRel tp) := by
  refine ⟨len_regResult isRel r tp, ?_⟩
  unfold absIsRel absCount regResult
  simp only []
  have hid := id_toNat _ hn
  cases hrel : isRel tp
  · simp only [Bool.false_eq_true, if_false]
    -- clearing a bit that is already clear
    apply Nat.eq_of_testBit_eq
    intro j
    have h2 := Arche.NatMask.get_set (C09_LockPool64.natOf r.IsRelation) r.Components.len j false
    unfold Mask.get at h2
    rw [h2]
    by_cases hj : j = r.Components.len
    · rw [if_pos hj, hj, C09_LockPool64.testBit_natOf]; exact I.unusedR _ (Nat.le_refl _)
    · rw [if_neg hj]
  · simp only [if_true]
    rw [C09_LockPool64.natOf_set _ _ _ (by rw [hid]; exact hn), hid]

end Arche.Props.C16_Registry64
