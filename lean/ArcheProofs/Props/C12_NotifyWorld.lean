/-
  C12 (companion) — the deferred notifier leaves the world view alone: whatever `World.notifyQuery` delivers, the world
  it hands back is the world it was given (only the hidden state, i.e. what the listener saw, moves).
-/
import ArcheProofs.Props.C12_NotifyGen
import ArcheProofs.Props.C02_Remove

namespace Arche.Props.C12_NotifyWorld
open ArcheGen ArcheGen.P256 Arche.Props.C12_NotifyGen

section
variable {Ext : Type}
  (archGetEntityF : Ext → Option Nat → BitVec 32 → P256.Entity) (archHasRelCompF : Ext → Option Nat → Bool)
  (archMaskF : Ext → Option Nat → ArcheGen.M256.Mask) (archNodeF : Ext → Option Nat → Option Nat)
  (archRelCompF : Ext → Option Nat → BitVec 8) (archTargetF : Ext → Option Nat → P256.Entity)
  (lstCompsF : Ext → GoAny → Option (ArcheGen.M256.Mask)) (lstSubsF : Ext → GoAny → BitVec 8)
  (nodeMaskF : Ext → Option Nat → ArcheGen.M256.Mask) (notifyF : Ext → GoAny → P256.EntityEvent → Ext × Unit)

theorem entryStep_world (b : P256.batchArchetypes) (w : P256.World) (ext : Ext) (i : Nat) (r : P256.World × Ext)
    (h : entryStep archGetEntityF archHasRelCompF archMaskF archNodeF archRelCompF archTargetF lstCompsF lstSubsF nodeMaskF notifyF b (w, ext) i = some r) :
    r.1 = w := by
  unfold entryStep at h
  simp only [Option.bind_eq_bind, pure] at h
  obtain ⟨x8, -, h1⟩ := Option.bind_eq_some_iff.mp h
  obtain ⟨x7, -, h2⟩ := Option.bind_eq_some_iff.mp h1
  obtain ⟨x6, e6, h3⟩ := Option.bind_eq_some_iff.mp h2
  obtain ⟨x5, -, h4⟩ := Option.bind_eq_some_iff.mp h3
  obtain ⟨x4, -, h5⟩ := Option.bind_eq_some_iff.mp h4
  obtain ⟨x3, -, h6⟩ := Option.bind_eq_some_iff.mp h5
  obtain ⟨x2, -, h7⟩ := Option.bind_eq_some_iff.mp h6
  obtain ⟨x1, -, h8⟩ := Option.bind_eq_some_iff.mp h7
  obtain ⟨y, ey, h9⟩ := Option.bind_eq_some_iff.mp h8
  obtain ⟨z, ez, h10⟩ := Option.bind_eq_some_iff.mp h9
  clear h h1 h2 h3 h4 h5 h6 h7 h8 h9
  have k6 : x6.1 = w := by
    split at e6
    · obtain ⟨_, -, e⟩ := Option.bind_eq_some_iff.mp e6
      cases e; rfl
    · cases e6; rfl
  have ky : y.1 = x6.1 := by
    split at ey
    · obtain ⟨_, -, e1⟩ := Option.bind_eq_some_iff.mp ey
      obtain ⟨a, ea, e2⟩ := Option.bind_eq_some_iff.mp e1
      obtain ⟨c, ec, e3⟩ := Option.bind_eq_some_iff.mp e2
      obtain ⟨_, -, e4⟩ := Option.bind_eq_some_iff.mp e3
      obtain ⟨_, -, e5⟩ := Option.bind_eq_some_iff.mp e4
      obtain ⟨_, -, e6'⟩ := Option.bind_eq_some_iff.mp e5
      obtain ⟨_, -, e7⟩ := Option.bind_eq_some_iff.mp e6'
      obtain ⟨_, -, e8⟩ := Option.bind_eq_some_iff.mp e7
      obtain ⟨_, -, e9⟩ := Option.bind_eq_some_iff.mp e8
      obtain ⟨_, -, e10⟩ := Option.bind_eq_some_iff.mp e9
      cases e10
      show c.1 = x6.1
      have ka : a.1 = x6.1 := by
        split at ea
        · obtain ⟨_, -, e⟩ := Option.bind_eq_some_iff.mp ea
          cases e; rfl
        · cases ea; rfl
      have kc : c.1 = a.1 := by
        split at ec
        · obtain ⟨_, -, e⟩ := Option.bind_eq_some_iff.mp ec
          cases e; rfl
        · cases ec; rfl
      rw [kc, ka]
    · cases ey; rfl
  have kz : z.1 = y.1 := by
    split at ez
    · obtain ⟨_, -, e1⟩ := Option.bind_eq_some_iff.mp ez
      obtain ⟨_, -, e2⟩ := Option.bind_eq_some_iff.mp e1
      obtain ⟨_, -, e3⟩ := Option.bind_eq_some_iff.mp e2
      obtain ⟨_, -, e4⟩ := Option.bind_eq_some_iff.mp e3
      obtain ⟨f, ef, e5⟩ := Option.bind_eq_some_iff.mp e4
      cases e5
      show f.1 = y.1
      refine Arche.Props.C02_Remove.foldlM_inv (fun s => s.1 = y.1) _ ?_ _ _ _ rfl ef
      intro s k s' hs hk
      obtain ⟨_, -, e⟩ := Option.bind_eq_some_iff.mp hk
      cases e; exact hs
    · cases ez; rfl
  cases h10
  show z.1 = w
  rw [kz, ky, k6]

/-- **the deferred notifier hands back the world it was given**: only the hidden state (what the listener saw) moves -/
theorem notifyQuery_world (w w' : P256.World) (b : P256.batchArchetypes) (ext ext' : Ext)
    (h : P256.World.notifyQuery archGetEntityF archHasRelCompF archMaskF archNodeF archRelCompF archTargetF lstCompsF lstSubsF nodeMaskF notifyF w b ext = some (w', ext')) :
    w' = w := by
  rw [notifyQuery_eq_fold] at h
  exact Arche.Props.C02_Remove.foldlM_inv (fun s => s.1 = w) _
    (fun s k s' hs hk => by
      have := entryStep_world archGetEntityF archHasRelCompF archMaskF archNodeF archRelCompF archTargetF lstCompsF lstSubsF nodeMaskF notifyF b s.1 s.2 k s' hk
      rw [this]; exact hs) _ _ _ rfl h

/-- **a listener without subscriptions is told nothing**: when the listener subscribes to no event type, an entry of the
    batch changes neither the world nor the hidden state (no call of `Notify`) -/
theorem entryStep_silent (hq : ∀ e l, lstSubsF e l = 0#8)
    (b : P256.batchArchetypes) (w : P256.World) (ext : Ext) (i : Nat) (r : P256.World × Ext)
    (h : entryStep archGetEntityF archHasRelCompF archMaskF archNodeF archRelCompF archTargetF lstCompsF lstSubsF nodeMaskF notifyF b (w, ext) i = some r) :
    r = (w, ext) := by
  unfold entryStep at h
  simp only [Option.bind_eq_bind, pure] at h
  obtain ⟨x8, -, h1⟩ := Option.bind_eq_some_iff.mp h
  obtain ⟨x7, -, h2⟩ := Option.bind_eq_some_iff.mp h1
  obtain ⟨x6, e6, h3⟩ := Option.bind_eq_some_iff.mp h2
  obtain ⟨x5, -, h4⟩ := Option.bind_eq_some_iff.mp h3
  obtain ⟨x4, -, h5⟩ := Option.bind_eq_some_iff.mp h4
  obtain ⟨x3, -, h6⟩ := Option.bind_eq_some_iff.mp h5
  obtain ⟨x2, -, h7⟩ := Option.bind_eq_some_iff.mp h6
  obtain ⟨x1, -, h8⟩ := Option.bind_eq_some_iff.mp h7
  obtain ⟨y, ey, h9⟩ := Option.bind_eq_some_iff.mp h8
  obtain ⟨z, ez, h10⟩ := Option.bind_eq_some_iff.mp h9
  clear h h1 h2 h3 h4 h5 h6 h7 h8 h9
  have k6 : x6.1 = w ∧ x6.2.1 = ext := by
    split at e6
    · obtain ⟨_, -, e⟩ := Option.bind_eq_some_iff.mp e6
      cases e; exact ⟨rfl, rfl⟩
    · cases e6; exact ⟨rfl, rfl⟩
  have ky : y.1 = x6.1 ∧ y.2.1 = x6.2.1 := by
    split at ey
    · obtain ⟨_, -, e1⟩ := Option.bind_eq_some_iff.mp ey
      obtain ⟨a, ea, e2⟩ := Option.bind_eq_some_iff.mp e1
      obtain ⟨c, ec, e3⟩ := Option.bind_eq_some_iff.mp e2
      obtain ⟨_, -, e4⟩ := Option.bind_eq_some_iff.mp e3
      obtain ⟨_, -, e5⟩ := Option.bind_eq_some_iff.mp e4
      obtain ⟨_, -, e6'⟩ := Option.bind_eq_some_iff.mp e5
      obtain ⟨_, -, e7⟩ := Option.bind_eq_some_iff.mp e6'
      obtain ⟨_, -, e8⟩ := Option.bind_eq_some_iff.mp e7
      obtain ⟨_, -, e9⟩ := Option.bind_eq_some_iff.mp e8
      obtain ⟨_, -, e10⟩ := Option.bind_eq_some_iff.mp e9
      cases e10
      show c.1 = x6.1 ∧ c.2.1 = x6.2.1
      have ka : a.1 = x6.1 ∧ a.2.1 = x6.2.1 := by
        split at ea
        · obtain ⟨_, -, e⟩ := Option.bind_eq_some_iff.mp ea
          cases e; exact ⟨rfl, rfl⟩
        · cases ea; exact ⟨rfl, rfl⟩
      have kc : c.1 = a.1 ∧ c.2.1 = a.2.1 := by
        split at ec
        · obtain ⟨_, -, e⟩ := Option.bind_eq_some_iff.mp ec
          cases e; exact ⟨rfl, rfl⟩
        · cases ec; exact ⟨rfl, rfl⟩
      exact ⟨kc.1.trans ka.1, kc.2.trans ka.2⟩
    · cases ey; exact ⟨rfl, rfl⟩
  have kz : z.1 = y.1 ∧ z.2.1 = y.2.1 := by
    simp only [hq, BitVec.zero_and, bne_self_eq_false, Bool.false_and, Bool.false_eq_true, if_false] at ez
    cases ez; exact ⟨rfl, rfl⟩
  cases h10
  show (z.1, z.2.1) = (w, ext)
  rw [kz.1, kz.2, ky.1, ky.2, k6.1, k6.2]

/-- a batch notification to a listener without subscriptions delivers nothing at all -/
theorem notifyQuery_silent (hq : ∀ e l, lstSubsF e l = 0#8) (w w' : P256.World) (b : P256.batchArchetypes) (ext ext' : Ext)
    (h : P256.World.notifyQuery archGetEntityF archHasRelCompF archMaskF archNodeF archRelCompF archTargetF lstCompsF lstSubsF nodeMaskF notifyF w b ext = some (w', ext')) :
    (w', ext') = (w, ext) := by
  rw [notifyQuery_eq_fold] at h
  exact Arche.Props.C02_Remove.foldlM_inv (fun s => s = (w, ext)) _
    (fun s k s' hs hk => by
      have := entryStep_silent archGetEntityF archHasRelCompF archMaskF archNodeF archRelCompF archTargetF lstCompsF lstSubsF nodeMaskF notifyF hq b s.1 s.2 k s' hk
      rw [this]; exact hs) _ _ _ rfl h

end
end Arche.Props.C12_NotifyWorld
