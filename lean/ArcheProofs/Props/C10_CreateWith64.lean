/-
  C09 / C10 (companion) — the creating batch operations WITH component values REGENERATED from ecs/world_internal.go:
  `World.newEntitiesWithNoNotify`, `World.newEntitiesWith` (Batch/builders' NewBatch with values),
  `World.newEntitiesWithQuery` (… NewBatchQ) and `World.newEntityTargetWith` (NewEntityWith with a target).

  * `*_locked`: on a locked world each of them panics before anything happens;
  * `newEntitiesWithNoNotify_nonpositive`: a count below one is refused.
-/
import ArcheProofs.Props.C09_WorldLock64
import ArcheProofs.Props.C02_Remove64

namespace Arche.Props.C10_CreateWith64
open ArcheGen ArcheGen.P64 Arche Arche.Props

section
variable {Ext : Type}
  (archAllocF : Ext → Option Nat → P64.Entity → Ext × BitVec 32)
  (archAllocNF : Ext → Option Nat → BitVec 32 → Ext × Unit)
  (archComponentsF : Ext → Option Nat → GoSlice (BitVec 8))
  (archGetEntityF : Ext → Option Nat → BitVec 32 → P64.Entity)
  (archHasComponentF : Ext → Option Nat → BitVec 8 → Bool)
  (archHasRelCompF : Ext → Option Nat → Bool)
  (archLenF : Ext → Option Nat → BitVec 32)
  (archMaskF : Ext → Option Nat → ArcheGen.M64.Mask)
  (archNodeF : Ext → Option Nat → Option Nat)
  (archRelCompF : Ext → Option Nat → BitVec 8)
  (archSetEntityF : Ext → Option Nat → BitVec 32 → P64.Entity → Ext × Unit)
  (archSetF : Ext → Option Nat → BitVec 32 → BitVec 8 → GoAny → Ext × GoAny)
  (findOrCreateF : Ext → P64.World → Option Nat → GoSlice (BitVec 8) → GoSlice (BitVec 8) → P64.Entity → Ext × P64.World × Option Nat)
  (lstCompsF : Ext → GoAny → Option (ArcheGen.M64.Mask))
  (lstSubsF : Ext → GoAny → BitVec 8)
  (nodeHasRelationF : Ext → Option Nat → Bool)
  (nodeRelationF : Ext → Option Nat → BitVec 8)
  (notifyF : Ext → GoAny → P64.EntityEvent → Ext × Unit)
  (ofBatchF : P64.batchArchetypes → GoAny)
  (pagedGetF : Ext → Nat → BitVec 32 → Option Nat)
  (staleF : Nat → P64.entityIndex)

theorem newEntitiesWithNoNotify_locked (w : P64.World) (count : Int) (targetID : BitVec 8) (hasTarget : Bool) (target : P64.Entity) (ids : GoSlice (BitVec 8)) (comps : GoSlice (P64.Component)) (ext : Ext)
    (h : LockMask.isLocked (C09_LockPool64.absLM w.locks) = true) :
    P64.World.newEntitiesWithNoNotify archAllocNF archGetEntityF archHasComponentF archLenF archNodeF archSetEntityF archSetF findOrCreateF nodeHasRelationF nodeRelationF pagedGetF staleF w count targetID hasTarget target ids comps ext = none := by
  unfold P64.World.newEntitiesWithNoNotify
  rw [C09_WorldLock64.checkLocked_spec]
  simp [h, bind, Option.bind]

theorem newEntitiesWithNoNotify_nonpositive (w : P64.World) (count : Int) (targetID : BitVec 8) (hasTarget : Bool) (target : P64.Entity) (ids : GoSlice (BitVec 8)) (comps : GoSlice (P64.Component)) (ext : Ext) (hc : count < 1) :
    P64.World.newEntitiesWithNoNotify archAllocNF archGetEntityF archHasComponentF archLenF archNodeF archSetEntityF archSetF findOrCreateF nodeHasRelationF nodeRelationF pagedGetF staleF w count targetID hasTarget target ids comps ext = none := by
  unfold P64.World.newEntitiesWithNoNotify
  rw [C09_WorldLock64.checkLocked_spec]
  split
  · rfl
  · simp [hc, bind, Option.bind]

theorem newEntitiesWith_locked (w : P64.World) (count : Int) (targetID : BitVec 8) (hasTarget : Bool) (target : P64.Entity) (comps : GoSlice (P64.Component)) (ext : Ext)
    (h : LockMask.isLocked (C09_LockPool64.absLM w.locks) = true) :
    P64.World.newEntitiesWith archAllocNF archGetEntityF archHasComponentF archHasRelCompF archLenF archMaskF archNodeF archRelCompF archSetEntityF archSetF findOrCreateF lstCompsF lstSubsF nodeHasRelationF nodeRelationF notifyF pagedGetF staleF w count targetID hasTarget target comps ext = none := by
  unfold P64.World.newEntitiesWith
  simp only [Option.bind_eq_bind, pure]
  cases GoSlice.make (α := BitVec 8) ((comps.size : Nat) : Int) ((comps.size : Nat) : Int) with
  | none => rfl
  | some s1 =>
    simp only [Option.bind_some]
    cases hf : List.foldlM (m := Option) _ (w, ext, s1) (List.range comps.size) with
    | none => rfl
    | some r =>
      have hw : r.1 = w := by
        refine C02_Remove64.foldlM_inv (fun s => s.1 = w) _ ?_ _ _ _ rfl hf
        intro s k s' hs hk
        obtain ⟨_, -, hk⟩ := Option.bind_eq_some_iff.mp hk
        obtain ⟨_, -, hk⟩ := Option.bind_eq_some_iff.mp hk
        obtain ⟨_, -, hk⟩ := Option.bind_eq_some_iff.mp hk
        cases hk; exact hs
      obtain ⟨w1, e1, ids⟩ := r
      cases hw
      simp only [Option.bind_some]
      rw [newEntitiesWithNoNotify_locked (h := h)]
      rfl

theorem newEntitiesWithQuery_locked (w : P64.World) (count : Int) (targetID : BitVec 8) (hasTarget : Bool) (target : P64.Entity) (comps : GoSlice (P64.Component)) (ext : Ext)
    (h : LockMask.isLocked (C09_LockPool64.absLM w.locks) = true) :
    P64.World.newEntitiesWithQuery archAllocNF archComponentsF archGetEntityF archHasComponentF archLenF archNodeF archSetEntityF archSetF findOrCreateF nodeHasRelationF nodeRelationF ofBatchF pagedGetF staleF w count targetID hasTarget target comps ext = none := by
  unfold P64.World.newEntitiesWithQuery
  simp only [Option.bind_eq_bind, pure]
  cases GoSlice.make (α := BitVec 8) ((comps.size : Nat) : Int) ((comps.size : Nat) : Int) with
  | none => rfl
  | some s1 =>
    simp only [Option.bind_some]
    cases hf : List.foldlM (m := Option) _ (w, ext, s1) (List.range comps.size) with
    | none => rfl
    | some r =>
      have hw : r.1 = w := by
        refine C02_Remove64.foldlM_inv (fun s => s.1 = w) _ ?_ _ _ _ rfl hf
        intro s k s' hs hk
        obtain ⟨_, -, hk⟩ := Option.bind_eq_some_iff.mp hk
        obtain ⟨_, -, hk⟩ := Option.bind_eq_some_iff.mp hk
        obtain ⟨_, -, hk⟩ := Option.bind_eq_some_iff.mp hk
        cases hk; exact hs
      obtain ⟨w1, e1, ids⟩ := r
      cases hw
      simp only [Option.bind_some]
      rw [newEntitiesWithNoNotify_locked (h := h)]
      rfl

theorem newEntityTargetWith_locked (w : P64.World) (targetID : BitVec 8) (target : P64.Entity) (comps : GoSlice (P64.Component)) (ext : Ext)
    (h : LockMask.isLocked (C09_LockPool64.absLM w.locks) = true) :
    P64.World.newEntityTargetWith archAllocF archHasComponentF archMaskF archNodeF archSetF findOrCreateF lstCompsF lstSubsF nodeHasRelationF nodeRelationF notifyF pagedGetF w targetID target comps ext = none := by
  unfold P64.World.newEntityTargetWith
  rw [C09_WorldLock64.checkLocked_spec]
  simp [h, bind, Option.bind]

end
end Arche.Props.C10_CreateWith64
