/-
  C03 (companion, tiny build) — the regenerated `countEntities` / `entityAt` over a registered filter's table list against the
  hand-written model (`Query.countEntities`, `Query.entityAtIn` over `Query.ranges`), under the interpretation of a table
  token's length and rows by the model and the premise that the total number of rows is below 2³² (the code counts in
  32 bits): `count_cached_model`, `locate_model`, `entityAt_cached_model`.
-/
import ArcheProofs.Props.C03_AtGen64
import ArcheProofs.Props.C03_IterModel64
import ArcheProofs.Props.C02_Pool64

namespace Arche.Props.C03_AtModel64
open ArcheGen ArcheGen.P64 Arche Arche.Props Arche.Props.C03_AtGen64 Arche.Props.C03_IterModel64

theorem sum_fold (w : Arche.World) (lenOf : Option Nat → BitVec 32) (I : LenInterp w lenOf) (l : List Nat) (c : Nat) :
    (l.map some).foldl (fun acc a => acc + lenOf a) (BitVec.ofNat 32 c) = BitVec.ofNat 32 (c + (l.map (fun t => (w.tableOf t).rows.size)).sum) := by
  induction l generalizing c with
  | nil => simp
  | cons t l ih =>
    simp only [List.map_cons, List.foldl_cons, List.sum_cons, I.len]
    rw [← BitVec.ofNat_add, ih]
    congr 1; omega

/-- **`Count` of a query over a registered filter is the model's count** (the sum of the row counts of its tables), as
    long as that sum is below 2³² -/
theorem count_cached_model (w : Arche.World) (lenOf : Option Nat → BitVec 32) (I : LenInterp w lenOf) (mq : Arche.Query) (hm : mq.mode = .cached)
    (hb : Arche.Query.countEntities w mq < 4294967296) :
    (((mq.tlist.toList.map some).foldl (fun c a => c + lenOf a) 0#32).toNat : Int) = ((Arche.Query.countEntities w mq : Nat) : Int) := by
  have := sum_fold w lenOf I mq.tlist.toList 0
  simp only [Nat.zero_add] at this
  have h0 : (BitVec.ofNat 32 0) = 0#32 := rfl
  rw [h0] at this
  rw [this]
  unfold Arche.Query.countEntities at hb ⊢
  simp only [hm] at hb ⊢
  rw [BitVec.toNat_ofNat, Nat.mod_eq_of_lt hb]

theorem locate_pos_ge (lens : List (BitVec 32)) (p : Nat) (c i : BitVec 32) (pr : Nat × BitVec 32) (h : locate lens p c i = some pr) : p ≤ pr.1 := by
  induction lens generalizing p c with
  | nil => simp [locate] at h
  | cons ln rest ih =>
    unfold locate at h
    split at h
    · simp only [Option.some.injEq] at h; rw [← h]; exact Nat.le_refl _
    · have := ih _ _ h; omega

/-- `locate` against the model's walk over `(table, first row, length)` ranges: same table position and row, while the
    running count does not overflow -/
theorem locate_model (w : Arche.World) (lenOf : Option Nat → BitVec 32) (I : LenInterp w lenOf) (l : List Nat) (pos count idx : Nat)
    (hno : count + (l.map (fun t => (w.tableOf t).rows.size)).sum < 4294967296) (hc : count ≤ idx) (hi : idx < 4294967296) :
    (locate ((l.map some).map lenOf) pos (BitVec.ofNat 32 count) (BitVec.ofNat 32 idx)).map
        (fun pr => (w.tableOf (l.getD (pr.1 - pos) 0)).getEntity pr.2.toNat) =
      Arche.Query.entityAtIn w (l.map (fun t => (t, 0, (w.tableOf t).rows.size))) (idx - count) := by
  induction l generalizing pos count with
  | nil => simp [locate, Arche.Query.entityAtIn]
  | cons t l ih =>
    simp only [List.map_cons, List.sum_cons] at hno
    simp only [List.map_cons, locate, Arche.Query.entityAtIn, I.len]
    have hadd : BitVec.ofNat 32 count + BitVec.ofNat 32 (w.tableOf t).rows.size = BitVec.ofNat 32 (count + (w.tableOf t).rows.size) := by
      rw [BitVec.ofNat_add]
    rw [hadd]
    have hult : BitVec.ult (BitVec.ofNat 32 idx) (BitVec.ofNat 32 (count + (w.tableOf t).rows.size)) = decide (idx < count + (w.tableOf t).rows.size) := by
      simp only [BitVec.ult, BitVec.toNat_ofNat, Nat.mod_eq_of_lt hi, Nat.mod_eq_of_lt (show count + (w.tableOf t).rows.size < 4294967296 by omega)]
    rw [hult]
    by_cases hlt : idx < count + (w.tableOf t).rows.size
    · have h1 : idx - count < (w.tableOf t).rows.size := by omega
      simp only [hlt, decide_true, ↓reduceIte, Option.map_some, Nat.sub_self, List.getD_cons_zero, h1, Nat.zero_add]
      congr 2
      rw [BitVec.toNat_sub_of_le (by simp [BitVec.le_def, Nat.mod_eq_of_lt hi, Nat.mod_eq_of_lt (show count < 4294967296 by omega)]; exact hc)]
      simp [Nat.mod_eq_of_lt hi, Nat.mod_eq_of_lt (show count < 4294967296 by omega)]
    · have h1 : ¬ idx - count < (w.tableOf t).rows.size := by omega
      simp only [hlt, decide_false, Bool.false_eq_true, ↓reduceIte, h1]
      have := ih (pos + 1) (count + (w.tableOf t).rows.size) (by omega) (by omega)
      rw [show idx - count - (w.tableOf t).rows.size = idx - (count + (w.tableOf t).rows.size) by omega, ← this]
      cases hl : locate (List.map lenOf (List.map some l)) (pos + 1) (BitVec.ofNat 32 (count + (w.tableOf t).rows.size)) (BitVec.ofNat 32 idx) with
      | none => rfl
      | some pr =>
        simp only [Option.map_some]
        have hge := locate_pos_ge _ _ _ _ _ hl
        rw [show pr.1 - pos = (pr.1 - (pos + 1)) + 1 by omega, List.getD_cons_succ]

theorem locate_pos_lt (lens : List (BitVec 32)) (p : Nat) (c i : BitVec 32) (pr : Nat × BitVec 32) (h : locate lens p c i = some pr) : pr.1 < p + lens.length := by
  induction lens generalizing p c with
  | nil => simp [locate] at h
  | cons ln rest ih =>
    unfold locate at h
    split at h
    · simp only [Option.some.injEq] at h; rw [← h]; simp
    · have := ih _ _ h; simp only [List.length_cons]; omega

section
variable (archLenF : Option Nat → BitVec 32) (archGetEntityF : Option Nat → BitVec 32 → P64.Entity)
  (archsGetF : GoAny → BitVec 32 → Option Nat) (archsLenF : GoAny → BitVec 32)
  (asBatchF : GoAny → Option batchArchetypes) (nodeActiveF : Option Nat → Bool)
  (nodeArchMapF : Option Nat → P64.Entity → Option (Option Nat)) (nodeArchetypesF : Option Nat → GoAny)
  (nodeHasRelationF : Option Nat → Bool) (nodeMatchesF : Option Nat → GoAny → Bool) (relationTargetF : GoAny → Option P64.Entity)

/-- **`EntityAt` on a query over a registered filter is the model's `entityAt`**: the same entity for every index below
    2³² (and the same out-of-range panic), provided the rows of all its tables number fewer than 2³²; the entity a table
    token holds in a row is interpreted by the model's table (`EI`) -/
theorem entityAt_cached_model (w : Arche.World) (I : LenInterp w archLenF)
    (EI : ∀ (t : Nat) (row : BitVec 32), C02_Pool64.absE (archGetEntityF (some t) row) = (w.tableOf t).getEntity row.toNat)
    (q : P64.Query) (mq : Arche.Query) (hf : q.isFiltered = true) (hm : mq.mode = .cached)
    (hlist : q.archetypes.arr.toList = mq.tlist.toList.map some) (hsz : mq.tlist.size < 2147483648)
    (index : Nat) (hi : index < 4294967296) (hno : Arche.Query.countEntities w mq < 4294967296) :
    (P64.Query.entityAt archGetEntityF archLenF archsGetF archsLenF asBatchF nodeActiveF nodeArchMapF nodeArchetypesF nodeHasRelationF nodeMatchesF relationTargetF
        q (index : Int)).map (fun r => C02_Pool64.absE r.2) = Arche.Query.entityAt w mq index := by
  have hsize : q.archetypes.arr.size = mq.tlist.size := by
    have := congrArg List.length hlist
    simpa using this
  have hsome : ∀ a ∈ q.archetypes.arr.toList, a.isSome = true := by
    intro a ha; rw [hlist] at ha
    obtain ⟨t, _, rfl⟩ := List.mem_map.mp ha
    rfl
  rw [entityAt_cached archLenF archGetEntityF archsGetF archsLenF asBatchF nodeActiveF nodeArchMapF nodeArchetypesF nodeHasRelationF nodeMatchesF relationTargetF
    q (index : Int) hf (by omega) hsome]
  have hneg : ¬ ((index : Int) < 0) := by omega
  simp only [hneg, ↓reduceIte, hlist, BitVec.ofInt_natCast]
  have hcount : Arche.Query.countEntities w mq = (mq.tlist.toList.map (fun t => (w.tableOf t).rows.size)).sum := by
    unfold Arche.Query.countEntities; simp only [hm]
  have hmodel := locate_model w archLenF I mq.tlist.toList 0 0 index (by rw [Nat.zero_add, ← hcount]; exact hno) (Nat.zero_le _) hi
  unfold Arche.Query.entityAt Arche.Query.ranges
  simp only [hm]
  rw [Nat.sub_zero] at hmodel
  rw [← hmodel]
  have h0 : BitVec.ofNat 32 0 = 0#32 := rfl
  rw [h0]
  cases hl : locate (List.map archLenF (List.map some mq.tlist.toList)) 0 0#32 (BitVec.ofNat 32 index) with
  | none => rfl
  | some pr =>
    simp only [Option.map_some, Nat.sub_zero]
    have hlt := locate_pos_lt _ _ _ _ _ hl
    simp only [List.length_map, Array.length_toList, Nat.zero_add] at hlt
    have hget : (List.map some mq.tlist.toList)[pr.1]?.getD none = some (mq.tlist.toList.getD pr.1 0) := by
      simp [hlt, List.getD, List.getElem?_eq_getElem (show pr.1 < mq.tlist.toList.length by simpa using hlt)]
    rw [hget, EI]

end

/-! ### random access into batch queries -/

theorem locateB_pos_ge (rs : List (BitVec 32 × BitVec 32)) (p : Nat) (c i : BitVec 32) (pr : Nat × BitVec 32) (h : locateB rs p c i = some pr) : p ≤ pr.1 := by
  induction rs generalizing p c with
  | nil => simp [locateB] at h
  | cons r rest ih =>
    obtain ⟨st, en⟩ := r
    unfold locateB at h
    split at h
    · simp only [Option.some.injEq] at h; rw [← h]; exact Nat.le_refl _
    · have := ih _ _ h; omega

theorem locateB_pos_lt (rs : List (BitVec 32 × BitVec 32)) (p : Nat) (c i : BitVec 32) (pr : Nat × BitVec 32) (h : locateB rs p c i = some pr) : pr.1 < p + rs.length := by
  induction rs generalizing p c with
  | nil => simp [locateB] at h
  | cons r rest ih =>
    obtain ⟨st, en⟩ := r
    unfold locateB at h
    split at h
    · simp only [Option.some.injEq] at h; rw [← h]; simp
    · have := ih _ _ h; simp only [List.length_cons]; omega

/-- `locateB` against the model's walk over the recorded ranges `(table, start, stop − start)`: same entry and the row
    `start + offset`, for well-formed ranges (`start ≤ stop < 2³²`) whose lengths do not overflow -/
theorem locateB_model (w : Arche.World) (bs : List BatchEntry) (pos count idx : Nat)
    (hwf : ∀ b ∈ bs, b.start ≤ b.stop ∧ b.stop < 4294967296)
    (hno : count + (bs.map (fun b => b.stop - b.start)).sum < 4294967296) (hc : count ≤ idx) (hi : idx < 4294967296) :
    (locateB (bs.map (fun b => (BitVec.ofNat 32 b.start, BitVec.ofNat 32 b.stop))) pos (BitVec.ofNat 32 count) (BitVec.ofNat 32 idx)).map
        (fun pr => (w.tableOf (bs.getD (pr.1 - pos) default).tbl).getEntity pr.2.toNat) =
      Arche.Query.entityAtIn w (bs.map (fun b => (b.tbl, b.start, b.stop - b.start))) (idx - count) := by
  induction bs generalizing pos count with
  | nil => simp [locateB, Arche.Query.entityAtIn]
  | cons b bs ih =>
    have hb := hwf b List.mem_cons_self
    simp only [List.map_cons, List.sum_cons] at hno
    simp only [List.map_cons, locateB, Arche.Query.entityAtIn]
    have hsub : BitVec.ofNat 32 b.stop - BitVec.ofNat 32 b.start = BitVec.ofNat 32 (b.stop - b.start) := by
      apply BitVec.eq_of_toNat_eq
      rw [BitVec.toNat_sub_of_le (by simp only [BitVec.le_def, BitVec.toNat_ofNat, Nat.mod_eq_of_lt hb.2, Nat.mod_eq_of_lt (show b.start < 4294967296 by omega)]; exact hb.1)]
      simp only [BitVec.toNat_ofNat, Nat.mod_eq_of_lt hb.2, Nat.mod_eq_of_lt (show b.start < 4294967296 by omega), Nat.mod_eq_of_lt (show b.stop - b.start < 4294967296 by omega)]
    rw [hsub]
    have hadd : BitVec.ofNat 32 count + BitVec.ofNat 32 (b.stop - b.start) = BitVec.ofNat 32 (count + (b.stop - b.start)) := by rw [BitVec.ofNat_add]
    rw [hadd]
    have hult : BitVec.ult (BitVec.ofNat 32 idx) (BitVec.ofNat 32 (count + (b.stop - b.start))) = decide (idx < count + (b.stop - b.start)) := by
      simp only [BitVec.ult, BitVec.toNat_ofNat, Nat.mod_eq_of_lt hi, Nat.mod_eq_of_lt (show count + (b.stop - b.start) < 4294967296 by omega)]
    rw [hult]
    by_cases hlt : idx < count + (b.stop - b.start)
    · have h1 : idx - count < b.stop - b.start := by omega
      simp only [hlt, decide_true, ↓reduceIte, Option.map_some, Nat.sub_self, List.getD_cons_zero, h1]
      congr 2
      have hrow : (BitVec.ofNat 32 b.start + BitVec.ofNat 32 idx - BitVec.ofNat 32 count).toNat = b.start + (idx - count) := by
        simp only [BitVec.toNat_sub, BitVec.toNat_add, BitVec.toNat_ofNat]
        have h2 := hb.2
        omega
      exact hrow
    · have h1 : ¬ idx - count < b.stop - b.start := by omega
      simp only [hlt, decide_false, Bool.false_eq_true, ↓reduceIte, h1]
      have := ih (pos + 1) (count + (b.stop - b.start)) (fun x hx => hwf x (List.mem_cons_of_mem _ hx)) (by omega) (by omega)
      rw [show idx - count - (b.stop - b.start) = idx - (count + (b.stop - b.start)) by omega, ← this]
      cases hl : locateB (List.map (fun b => (BitVec.ofNat 32 b.start, BitVec.ofNat 32 b.stop)) bs) (pos + 1) (BitVec.ofNat 32 (count + (b.stop - b.start))) (BitVec.ofNat 32 idx) with
      | none => rfl
      | some pr =>
        simp only [Option.map_some]
        have hge := locateB_pos_ge _ _ _ _ _ hl
        rw [show pr.1 - pos = (pr.1 - (pos + 1)) + 1 by omega, List.getD_cons_succ]

end Arche.Props.C03_AtModel64
