/-
  C08 / C11 (companion) — the notifying batch entry points REGENERATED from ecs/world_internal.go:
  `World.exchangeBatch` (Batch.Add / Remove / Exchange, Relations.ExchangeBatch) and `World.setRelationBatch`
  (Batch.SetRelation, Relations.SetBatch).

  * `exchangeBatch_order`, `setRelationBatch_order`: **all changes first, then one notification**: the call is the silent
    worker on a fresh record of moves, followed — if a listener is installed (for a target change: and subscribed to
    `TargetChanged`) — by ONE call of the deferred notifier with the world after the batch and the moves it recorded;
    the count of the worker is handed back ("batch operations emit … after the batch");
  * `exchangeBatch_locked`, `setRelationBatch_locked`: a locked world refuses before anything happens;
  * `exchangeBatch_silent`, `setRelationBatch_silent`: without a listener the notifier is not called.
-/
import ArcheProofs.Props.C08_BatchGen64

namespace Arche.Props.C08_BatchNotify64
open ArcheGen ArcheGen.P64 Arche Arche.Props

section
variable {Ext : Type}
  (archActiveF : Ext → Option Nat → Bool) (archAllocNF : Ext → Option Nat → BitVec 32 → Ext × Unit)
  (archComponentsF : Ext → Option Nat → GoSlice (BitVec 8)) (archGetEntityF : Ext → Option Nat → BitVec 32 → P64.Entity)
  (archGetF : Ext → Option Nat → BitVec 32 → BitVec 8 → GoAny) (archHasComponentF : Ext → Option Nat → BitVec 8 → Bool)
  (archHasRelationF : Ext → Option Nat → Bool)
  (archInitF : Ext → Option Nat → Option Nat → Option Nat → BitVec 32 → Bool → Int → P64.Entity → Ext × Unit)
  (archLenF : Ext → Option Nat → BitVec 32) (archMaskF : Ext → Option Nat → ArcheGen.M64.Mask)
  (archNodeF : Ext → Option Nat → Option Nat) (archResetF : Ext → Option Nat → Ext × Unit)
  (archSetEntityF : Ext → Option Nat → BitVec 32 → P64.Entity → Ext × Unit)
  (archSetPointerF : Ext → Option Nat → BitVec 32 → BitVec 8 → GoAny → Ext × Unit) (archTargetF : Ext → Option Nat → P64.Entity)
  (archsGetF : GoAny → BitVec 32 → Option Nat) (archsLenF : GoAny → BitVec 32) (asCachedFilterF : GoAny → Option CachedFilter)
  (findOrCreateF : Ext → P64.World → Option Nat → GoSlice (BitVec 8) → GoSlice (BitVec 8) → P64.Entity → Ext × P64.World × Option Nat)
  (matchesF : GoAny → ArcheGen.M64.Mask → Bool) (nodeActiveF : Ext → Option Nat → Bool)
  (nodeArchMapF : Ext → Option Nat → P64.Entity → Option (Option Nat)) (nodeArchetypesF : Ext → Option Nat → GoAny)
  (nodeCreateArchetypeF : Ext → Option Nat → Int → P64.Entity → Ext × Option Nat)
  (nodeGetArchetypeF : Ext → Option Nat → P64.Entity → Option Nat × Bool)
  (nodeHasRelationF : Ext → Option Nat → Bool) (nodeMatchesF : Ext → Option Nat → GoAny → Bool)
  (nodeRelationF : Ext → Option Nat → BitVec 8)
  (nodeRemoveArchetypeF : Ext → Option Nat → Option Nat → Ext × Unit) (nodeSetArchetypeF : Ext → Option Nat → Option Nat → Ext × Unit)
  (pagedAddF : Ext → Nat → Ext × Unit) (pagedGetF : Ext → Nat → BitVec 32 → Option Nat) (pagedLenF : Ext → Nat → BitVec 32)
  (relationTargetF : GoAny → Option P64.Entity)
  (lstSubsF : Ext → GoAny → BitVec 8) (notifyQueryF : Ext → P64.World → P64.batchArchetypes → Ext × P64.World × Unit)

/-- the fresh record of moves `exchangeBatch` starts from -/
def freshRecord (add rem : GoSlice (BitVec 8)) : P64.batchArchetypes :=
  { Added := add, Removed := rem, Archetype := default, StartIndex := default, EndIndex := default, OldArchetype := default }

/-- what happens after the silent worker: one notification, or none -/
def afterBatch (interested : P64.World → Ext → Bool) (r : P64.World × P64.batchArchetypes × Ext × Int) : P64.World × Ext × Int :=
  if interested r.1 r.2.2.1 then ((notifyQueryF r.2.2.1 r.1 r.2.1).2.1, (notifyQueryF r.2.2.1 r.1 r.2.1).1, r.2.2.2)
  else (r.1, r.2.2.1, r.2.2.2)

/-- **all changes first, then one notification** -/
theorem exchangeBatch_order (w : P64.World) (f : GoAny) (add rem : GoSlice (BitVec 8)) (rel : BitVec 8) (hasRel : Bool) (target : P64.Entity) (ext : Ext) :
    P64.World.exchangeBatch archActiveF archAllocNF archComponentsF archGetEntityF archGetF archHasRelationF archLenF archMaskF archNodeF archResetF archSetEntityF archSetPointerF archTargetF archsGetF archsLenF asCachedFilterF findOrCreateF matchesF nodeActiveF nodeArchMapF nodeArchetypesF nodeHasRelationF nodeMatchesF nodeRemoveArchetypeF notifyQueryF relationTargetF w f add rem rel hasRel target ext =
    (P64.World.exchangeBatchNoNotify archActiveF archAllocNF archComponentsF archGetEntityF archGetF archHasRelationF archLenF archMaskF archNodeF archResetF archSetEntityF archSetPointerF archTargetF archsGetF archsLenF asCachedFilterF findOrCreateF matchesF nodeActiveF nodeArchMapF nodeArchetypesF nodeHasRelationF nodeMatchesF nodeRemoveArchetypeF relationTargetF w f add rem rel hasRel target (freshRecord add rem) ext).map
      (afterBatch notifyQueryF (fun w1 _ => w1.listener.isSome)) := by
  unfold P64.World.exchangeBatch freshRecord afterBatch
  simp only [Option.bind_eq_bind, pure]
  cases P64.World.exchangeBatchNoNotify archActiveF archAllocNF archComponentsF archGetEntityF archGetF archHasRelationF archLenF archMaskF archNodeF archResetF archSetEntityF archSetPointerF archTargetF archsGetF archsLenF asCachedFilterF findOrCreateF matchesF nodeActiveF nodeArchMapF nodeArchetypesF nodeHasRelationF nodeMatchesF nodeRemoveArchetypeF relationTargetF w f add rem rel hasRel target _ ext with
  | none => rfl
  | some r =>
    obtain ⟨w1, b1, e1, n⟩ := r
    simp only [Option.bind_some, Option.map_some]
    cases w1.listener.isSome <;> rfl

theorem exchangeBatch_locked (w : P64.World) (f : GoAny) (add rem : GoSlice (BitVec 8)) (rel : BitVec 8) (hasRel : Bool) (target : P64.Entity) (ext : Ext)
    (h : LockMask.isLocked (C09_LockPool64.absLM w.locks) = true) :
    P64.World.exchangeBatch archActiveF archAllocNF archComponentsF archGetEntityF archGetF archHasRelationF archLenF archMaskF archNodeF archResetF archSetEntityF archSetPointerF archTargetF archsGetF archsLenF asCachedFilterF findOrCreateF matchesF nodeActiveF nodeArchMapF nodeArchetypesF nodeHasRelationF nodeMatchesF nodeRemoveArchetypeF notifyQueryF relationTargetF w f add rem rel hasRel target ext = none := by
  rw [exchangeBatch_order, C08_BatchGen64.exchangeBatch_locked (h := h)]
  rfl

/-- without a listener after the batch, the notifier is not called: the call IS the silent worker -/
theorem exchangeBatch_silent (w : P64.World) (f : GoAny) (add rem : GoSlice (BitVec 8)) (rel : BitVec 8) (hasRel : Bool) (target : P64.Entity) (ext : Ext)
    (w1 : P64.World) (b1 : P64.batchArchetypes) (e1 : Ext) (n : Int) (hl : w1.listener = none)
    (h : P64.World.exchangeBatchNoNotify archActiveF archAllocNF archComponentsF archGetEntityF archGetF archHasRelationF archLenF archMaskF archNodeF archResetF archSetEntityF archSetPointerF archTargetF archsGetF archsLenF asCachedFilterF findOrCreateF matchesF nodeActiveF nodeArchMapF nodeArchetypesF nodeHasRelationF nodeMatchesF nodeRemoveArchetypeF relationTargetF w f add rem rel hasRel target (freshRecord add rem) ext = some (w1, b1, e1, n)) :
    P64.World.exchangeBatch archActiveF archAllocNF archComponentsF archGetEntityF archGetF archHasRelationF archLenF archMaskF archNodeF archResetF archSetEntityF archSetPointerF archTargetF archsGetF archsLenF asCachedFilterF findOrCreateF matchesF nodeActiveF nodeArchMapF nodeArchetypesF nodeHasRelationF nodeMatchesF nodeRemoveArchetypeF notifyQueryF relationTargetF w f add rem rel hasRel target ext = some (w1, e1, n) := by
  rw [exchangeBatch_order, h]
  simp only [Option.map_some, afterBatch, hl, Option.isSome_none, Bool.false_eq_true, ↓reduceIte]

/-- **all target changes first, then one notification — and only for a listener that subscribes to target changes** -/
theorem setRelationBatch_order (w : P64.World) (f : GoAny) (comp : BitVec 8) (target : P64.Entity) (ext : Ext) :
    P64.World.setRelationBatch archActiveF archAllocNF archComponentsF archGetEntityF archGetF archHasComponentF archHasRelationF archInitF archLenF archMaskF archNodeF archResetF archSetEntityF archSetPointerF archTargetF archsGetF archsLenF asCachedFilterF lstSubsF matchesF nodeActiveF nodeArchMapF nodeArchetypesF nodeCreateArchetypeF nodeGetArchetypeF nodeHasRelationF nodeMatchesF nodeRelationF nodeRemoveArchetypeF nodeSetArchetypeF notifyQueryF pagedAddF pagedGetF pagedLenF relationTargetF w f comp target ext =
    (P64.World.setRelationBatchNoNotify archActiveF archAllocNF archComponentsF archGetEntityF archGetF archHasComponentF archHasRelationF archInitF archLenF archMaskF archNodeF archResetF archSetEntityF archSetPointerF archTargetF archsGetF archsLenF asCachedFilterF matchesF nodeActiveF nodeArchMapF nodeArchetypesF nodeCreateArchetypeF nodeGetArchetypeF nodeHasRelationF nodeMatchesF nodeRelationF nodeRemoveArchetypeF nodeSetArchetypeF pagedAddF pagedGetF pagedLenF relationTargetF w f comp target default ext).map
      (afterBatch notifyQueryF (fun w1 e1 => w1.listener.isSome && ((32#8 &&& lstSubsF e1 w1.listener) == 32#8))) := by
  unfold P64.World.setRelationBatch afterBatch
  simp only [Option.bind_eq_bind, pure]
  cases P64.World.setRelationBatchNoNotify archActiveF archAllocNF archComponentsF archGetEntityF archGetF archHasComponentF archHasRelationF archInitF archLenF archMaskF archNodeF archResetF archSetEntityF archSetPointerF archTargetF archsGetF archsLenF asCachedFilterF matchesF nodeActiveF nodeArchMapF nodeArchetypesF nodeCreateArchetypeF nodeGetArchetypeF nodeHasRelationF nodeMatchesF nodeRelationF nodeRemoveArchetypeF nodeSetArchetypeF pagedAddF pagedGetF pagedLenF relationTargetF w f comp target default ext with
  | none => rfl
  | some r =>
    obtain ⟨w1, b1, e1, n⟩ := r
    simp only [Option.bind_some, Option.map_some]
    cases (w1.listener.isSome && ((32#8 &&& lstSubsF e1 w1.listener) == 32#8)) <;> rfl

theorem setRelationBatch_locked (w : P64.World) (f : GoAny) (comp : BitVec 8) (target : P64.Entity) (ext : Ext)
    (h : LockMask.isLocked (C09_LockPool64.absLM w.locks) = true) :
    P64.World.setRelationBatch archActiveF archAllocNF archComponentsF archGetEntityF archGetF archHasComponentF archHasRelationF archInitF archLenF archMaskF archNodeF archResetF archSetEntityF archSetPointerF archTargetF archsGetF archsLenF asCachedFilterF lstSubsF matchesF nodeActiveF nodeArchMapF nodeArchetypesF nodeCreateArchetypeF nodeGetArchetypeF nodeHasRelationF nodeMatchesF nodeRelationF nodeRemoveArchetypeF nodeSetArchetypeF notifyQueryF pagedAddF pagedGetF pagedLenF relationTargetF w f comp target ext = none := by
  rw [setRelationBatch_order, C08_BatchGen64.setRelBatch_locked (h := h)]
  rfl

/-- a listener that does not subscribe to `TargetChanged` (bit 32) is not told about a batch of target changes -/
theorem setRelationBatch_silent (w : P64.World) (f : GoAny) (comp : BitVec 8) (target : P64.Entity) (ext : Ext)
    (w1 : P64.World) (b1 : P64.batchArchetypes) (e1 : Ext) (n : Int)
    (hl : w1.listener = none ∨ (32#8 &&& lstSubsF e1 w1.listener) ≠ 32#8)
    (h : P64.World.setRelationBatchNoNotify archActiveF archAllocNF archComponentsF archGetEntityF archGetF archHasComponentF archHasRelationF archInitF archLenF archMaskF archNodeF archResetF archSetEntityF archSetPointerF archTargetF archsGetF archsLenF asCachedFilterF matchesF nodeActiveF nodeArchMapF nodeArchetypesF nodeCreateArchetypeF nodeGetArchetypeF nodeHasRelationF nodeMatchesF nodeRelationF nodeRemoveArchetypeF nodeSetArchetypeF pagedAddF pagedGetF pagedLenF relationTargetF w f comp target default ext = some (w1, b1, e1, n)) :
    P64.World.setRelationBatch archActiveF archAllocNF archComponentsF archGetEntityF archGetF archHasComponentF archHasRelationF archInitF archLenF archMaskF archNodeF archResetF archSetEntityF archSetPointerF archTargetF archsGetF archsLenF asCachedFilterF lstSubsF matchesF nodeActiveF nodeArchMapF nodeArchetypesF nodeCreateArchetypeF nodeGetArchetypeF nodeHasRelationF nodeMatchesF nodeRelationF nodeRemoveArchetypeF nodeSetArchetypeF notifyQueryF pagedAddF pagedGetF pagedLenF relationTargetF w f comp target ext = some (w1, e1, n) := by
  rw [setRelationBatch_order, h]
  have : (w1.listener.isSome && ((32#8 &&& lstSubsF e1 w1.listener) == 32#8)) = false := by
    rcases hl with hl | hl
    · simp [hl]
    · simp [hl]
  simp only [Option.map_some, afterBatch, this, Bool.false_eq_true, ↓reduceIte]

end
end Arche.Props.C08_BatchNotify64
