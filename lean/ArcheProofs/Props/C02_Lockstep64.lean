/-
  C02 companion, tiny build (64-bit masks) — the entity index is resized in step with the pool: on the REGENERATED single-entity and batch
  entry points, `len(w.entities) = len(w.entityPool.entities)` is preserved (corollaries of `C02_Create64`, `C02_Remove64`,
  `C05_SetRelGen64`, `C01_ExchangeGen64`, `C08_RemoveGen64`).
-/
import ArcheProofs.Props.C08_RemoveGen64

namespace Arche.Props.C02_Lockstep64
open ArcheGen ArcheGen.P64 Arche Arche.Props

/-- index and pool have the same length -/
def Lockstep (w : P64.World) : Prop := w.entities.arr.size = w.entityPool.entities.arr.size

theorem indexAfter_size (arr : Array entityIndex) (id : Nat) (sw : Bool) (sid : Nat) :
    (C02_Remove64.indexAfter arr id sw sid).size = arr.size := by
  unfold C02_Remove64.indexAfter
  cases sw <;> simp

theorem indexAfter_size' (arr : Array entityIndex) (id : Nat) (sw : Bool) (sid : Nat) (a : Option Nat) (r : BitVec 32) :
    (C05_SetRelGen64.indexAfter arr id sw sid a r).size = arr.size := by
  unfold C05_SetRelGen64.indexAfter
  cases sw <;> simp

section
variable {Ext : Type}

theorem create (alloc : Arche.World → Option Nat → P64.Entity → Arche.World × BitVec 32) (hA : C02_Create64.AllocInterp alloc)
    (gw : P64.World) (mw : Arche.World) (t : Nat) (hR : C02_Create64.Rel gw mw) (hl : Lockstep gw)
    (hsz : gw.entityPool.entities.arr.size < 2 ^ 32)
    (hav : gw.entityPool.available ≠ 0#32 → gw.entityPool.next.toNat < gw.entityPool.entities.arr.size)
    (hinc : 0 ≤ gw.config.CapacityIncrement)
    (hcover : ∀ id, id < gw.entities.arr.size → id / 64 < gw.targetEntities.data.arr.size) :
    ∃ gw' m' e, P64.World.createEntity alloc gw (some t) mw = some (gw', m', e) ∧ Lockstep gw' := by
  obtain ⟨gw', m', e, h, _, _, _, hls⟩ := C02_Create64.create_model alloc hA gw mw t hR hl hsz hav hinc hcover
  exact ⟨gw', m', e, h, hls⟩

theorem removeEntities (w w' : P64.World) (hl : Lockstep w) (h : C08_RemoveGen64.Inv w w') : Lockstep w' := by
  unfold Lockstep at *
  rw [h.2.1, h.2.2.1]; exact hl

theorem of_index_pool (w w' : P64.World) (hl : Lockstep w) (hi : w'.entities.arr.size = w.entities.arr.size)
    (hp : w'.entityPool.entities.arr.size = w.entityPool.entities.arr.size) : Lockstep w' := by
  unfold Lockstep at *; rw [hi, hp]; exact hl

/-- after a successful `RemoveEntity` (the facts `C02_Remove64.remove_effect_gen` establishes) -/
theorem remove (w w' : P64.World) (e : P64.Entity) (sw : Bool) (sid : Nat) (hl : Lockstep w)
    (hrec : entityPool.Recycle w.entityPool e = some w'.entityPool)
    (hent : w'.entities = ⟨C02_Remove64.indexAfter w.entities.arr e.id.toNat sw sid, w.entities.cap⟩) : Lockstep w' := by
  obtain ⟨_, hsz, _⟩ := C08_RemoveGen64.recycle_inv _ _ _ hrec
  unfold Lockstep at *
  rw [hent, hsz]; simp only [indexAfter_size]; exact hl

/-- after a successful `setRelation` or exchange (the facts `setRelation_effect` / `exchange_effect` establish:
    the pool is untouched and the index is re-written in place) -/
theorem move (w w' : P64.World) (id : Nat) (sw : Bool) (sid : Nat) (a : Option Nat) (r : BitVec 32) (hl : Lockstep w)
    (hpool : w'.entityPool = w.entityPool)
    (hent : w'.entities = ⟨C05_SetRelGen64.indexAfter w.entities.arr id sw sid a r, w.entities.cap⟩) : Lockstep w' := by
  unfold Lockstep at *
  rw [hent, hpool]; simp only [indexAfter_size']; exact hl

end

end Arche.Props.C02_Lockstep64
