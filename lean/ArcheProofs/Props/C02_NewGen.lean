/-
  C02 / C09 companion — `World.NewEntity` (ecs/world.go), REGENERATED on every run: the lock check, the table for the
  component list (`findOrCreateArchetype`, a state-threading parameter under `FindFrame`), `createEntity`
  (regenerated, `C02_Create`), and the creation event for a listener.

  * `newEntity_locked`: a locked world refuses before anything happens;
  * `newEntity_effect`: whenever the call succeeds it is `createEntity` on the world the graph walk left (which
    differs from the original in filter cache and node lists only): the returned handle and the resulting world are
    `createEntity`'s — so `create_fresh` / `create_recycled` / `create_model` describe them —, the listener (if any)
    is notified afterwards and changes nothing of the world.
-/
import ArcheProofs.Props.C01_ExchangeGen

namespace Arche.Props.C02_NewGen
open ArcheGen ArcheGen.P256 Arche Arche.Props

section
variable {Ext : Type}
  (archAllocF : Ext → Option Nat → P256.Entity → Ext × BitVec 32) (archHasRelCompF : Ext → Option Nat → Bool)
  (archMaskF : Ext → Option Nat → ArcheGen.M256.Mask) (archRelCompF : Ext → Option Nat → BitVec 8)
  (findOrCreateF : Ext → P256.World → Option Nat → GoSlice (BitVec 8) → GoSlice (BitVec 8) → P256.Entity → Ext × P256.World × Option Nat)
  (lstCompsF : Ext → GoAny → Option (ArcheGen.M256.Mask)) (lstSubsF : Ext → GoAny → BitVec 8)
  (notifyF : Ext → GoAny → EntityEvent → Ext × Unit) (pagedGetF : Ext → Nat → BitVec 32 → Option Nat)

theorem newEntity_locked (w : P256.World) (comps : GoSlice (BitVec 8)) (ext : Ext)
    (h : LockMask.isLocked (C09_LockPool.absLM w.locks) = true) :
    P256.World.NewEntity archAllocF archHasRelCompF archMaskF archRelCompF findOrCreateF lstCompsF lstSubsF notifyF pagedGetF w comps ext = none := by
  unfold P256.World.NewEntity
  rw [C09_WorldLock.checkLocked_spec]
  simp [h, bind, Option.bind]

theorem newEntity_effect (hFind : C01_ExchangeGen.FindFrame findOrCreateF)
    (w w' : P256.World) (comps : GoSlice (BitVec 8)) (ext ext' : Ext) (e : P256.Entity)
    (h : P256.World.NewEntity archAllocF archHasRelCompF archMaskF archRelCompF findOrCreateF lstCompsF lstSubsF notifyF pagedGetF w comps ext
      = some (w', ext', e)) :
    LockMask.isLocked (C09_LockPool.absLM w.locks) = false ∧
    ∃ (wF : P256.World) (extF ext1 : Ext) (arch : Option Nat),
      wF = { w with filterCache := wF.filterCache, nodePointers := wF.nodePointers, relationNodes := wF.relationNodes } ∧
      P256.World.createEntity archAllocF wF arch extF = some (w', ext1, e) := by
  unfold P256.World.NewEntity at h
  rw [C09_WorldLock.checkLocked_spec] at h
  by_cases hlk : LockMask.isLocked (C09_LockPool.absLM w.locks) = true
  · simp [hlk, bind, Option.bind] at h
  have hlk' : LockMask.isLocked (C09_LockPool.absLM w.locks) = false := by simpa using hlk
  refine ⟨hlk', ?_⟩
  simp only [hlk', Bool.false_eq_true, ↓reduceIte, Option.bind_eq_bind, Option.bind_some, pure] at h
  obtain ⟨⟨wF, extF, arch⟩, hj, hq⟩ := Option.bind_eq_some_iff.mp h
  clear h; have h := hq; clear hq
  have hwF : wF = { w with filterCache := wF.filterCache, nodePointers := wF.nodePointers, relationNodes := wF.relationNodes } := by
    split at hj
    · simp only [Option.some.injEq, Prod.mk.injEq] at hj
      rw [← hj.1]; exact hFind _ _ _ _ _ _
    · simp only [Option.some.injEq, Prod.mk.injEq] at hj
      rw [← hj.1]
  dsimp only at h
  obtain ⟨⟨w1, e1, ent⟩, hce, hq⟩ := Option.bind_eq_some_iff.mp h
  clear h; have h := hq; clear hq
  dsimp only at h
  obtain ⟨⟨w2, e2⟩, hls, hq⟩ := Option.bind_eq_some_iff.mp h
  clear h; have h := hq; clear hq
  simp only [Option.some.injEq, Prod.mk.injEq] at h
  have hw2 : w2 = w1 := by
    split at hls
    · obtain ⟨_, _, hls⟩ := Option.bind_eq_some_iff.mp hls
      obtain ⟨⟨w3, e3, r3⟩, hj3, hls⟩ := Option.bind_eq_some_iff.mp hls
      have hw3 : w1 = w3 := by
        split at hj3
        · obtain ⟨_, _, hj3⟩ := Option.bind_eq_some_iff.mp hj3
          simp only [Option.some.injEq, Prod.mk.injEq] at hj3; exact hj3.1
        · simp only [Option.some.injEq, Prod.mk.injEq] at hj3; exact hj3.1
      subst hw3
      dsimp only at hls
      obtain ⟨b6, _, hls⟩ := Option.bind_eq_some_iff.mp hls
      obtain ⟨⟨w4, e4⟩, hj4, hls⟩ := Option.bind_eq_some_iff.mp hls
      simp only [Option.some.injEq, Prod.mk.injEq] at hls
      rw [← hls.1]
      split at hj4
      · obtain ⟨_, _, hj4⟩ := Option.bind_eq_some_iff.mp hj4
        simp only [Option.some.injEq, Prod.mk.injEq] at hj4; exact hj4.1.symm
      · simp only [Option.some.injEq, Prod.mk.injEq] at hj4; exact hj4.1.symm
    · simp only [Option.some.injEq, Prod.mk.injEq] at hls; exact hls.1.symm
  refine ⟨wF, extF, e1, arch, hwF, ?_⟩
  rw [hce, ← h.1, hw2, ← h.2.2]
end

end Arche.Props.C02_NewGen
