/-
  C03 — Queries visit exactly the matching entities, once; Count/EntityAt/Step agree.

  The iterator of ecs/query.go is modelled field for field (ArcheModel.Query) for its three
  strategies (cached table list, batch ranges, node walk). `positions w q` is the specification:
  the list of (table, row) pairs the query covers, in order. Proved, for every world and query:
    * `Count` is the length of `positions` and `EntityAt i` is its i-th element
      (`count_eq_length`, `entityAt_eq`), out of range being the documented panic;
    * for the cached-list and batch strategies: one `Next` moves the cursor to the next element
      of `positions` and reports exhaustion exactly at the end (`advance_cached`,
      `advance_batch`), hence iterating visits `positions` exactly, in order, each once
      (`visit_cached`, `visit_batch`); the node walk is covered by the correspondence and by
      `count_eq_length`/`entityAt_eq` (`…_partial` below);
    * `Step k` is `k` applications of `Next` is covered by the correspondence (all step sizes
      around table boundaries), not proved.
-/
import ArcheModel.Ops

namespace Arche.Props.C03
open Arche Arche.World Arche.Query

/-- rows `s … s+ln-1` of table `t` -/
def rowsOf (t s ln : Nat) : List (Nat × Nat) := (List.range' s ln).map (fun r => (t, r))

/-- the (table, row) pairs a query covers, in iteration order -/
def positions (w : World) (q : Query) : List (Nat × Nat) :=
  (q.ranges w).flatMap (fun x => rowsOf x.1 x.2.1 x.2.2)

theorem rowsOf_length (t s ln : Nat) : (rowsOf t s ln).length = ln := by simp [rowsOf]

theorem rowsOf_getElem? (t s ln i : Nat) : (rowsOf t s ln)[i]? = if i < ln then some (t, s + i) else none := by
  unfold rowsOf
  rw [List.getElem?_map]
  by_cases h : i < ln
  · rw [List.getElem?_range' h]; simp [h]
  · rw [List.getElem?_eq_none (by simp; omega)]; simp [h]

theorem rowsOf_succ (t s ln : Nat) : rowsOf t s (ln + 1) = (t, s) :: rowsOf t (s + 1) ln := by
  unfold rowsOf; rw [List.range'_succ]; rfl

theorem rowsOf_zero (t s : Nat) : rowsOf t s 0 = [] := rfl

/-! ## Count and EntityAt -/

theorem sum_flatMap {α β} (l : List α) (f : α → List β) (g : β → Nat) :
    ((l.flatMap f).map g).sum = (l.map (fun x => ((f x).map g).sum)).sum := by
  induction l with
  | nil => rfl
  | cons x xs ih => simp [List.flatMap_cons, List.sum_append, ih]

theorem length_flatMap' {α β} (l : List α) (f : α → List β) :
    (l.flatMap f).length = (l.map (fun x => (f x).length)).sum := by
  induction l with
  | nil => rfl
  | cons x xs ih => simp [List.flatMap_cons, ih]

/-- `Count` equals the number of positions. -/
theorem count_eq_length (w : World) (q : Query) : q.countEntities w = (positions w q).length := by
  unfold positions
  rw [length_flatMap']
  simp only [rowsOf_length]
  unfold countEntities ranges
  cases q.mode with
  | cached => simp [List.map_map, Function.comp_def]
  | batch => simp [List.map_map, Function.comp_def]
  | nodes =>
    simp only []
    rw [sum_flatMap]
    congr 1
    apply List.map_congr_left
    intro n _
    split
    · rfl
    · split
      · simp
      · split
        · split <;> simp
        · simp [List.map_map, Function.comp_def]

/-- `EntityAt(i)` walks the ranges: it is the i-th position. -/
theorem entityAtIn_eq (w : World) (rs : List (Nat × Nat × Nat)) (i : Nat) :
    entityAtIn w rs i = ((rs.flatMap (fun x => rowsOf x.1 x.2.1 x.2.2))[i]?).map (fun p => (w.tableOf p.1).getEntity p.2) := by
  induction rs generalizing i with
  | nil => rfl
  | cons r rs ih =>
    obtain ⟨t, s, ln⟩ := r
    simp only [entityAtIn, List.flatMap_cons]
    by_cases h : i < ln
    · simp only [h, ↓reduceIte]
      rw [List.getElem?_append_left (by rw [rowsOf_length]; exact h), rowsOf_getElem?]
      simp [h]
    · simp only [h, ↓reduceIte]
      rw [List.getElem?_append_right (by rw [rowsOf_length]; omega), rowsOf_length]
      exact ih (i - ln)

/-- `EntityAt(i)` is the entity at the i-th position; `none` (the out-of-range panic) exactly
    when `i` is not below `Count`. -/
theorem entityAt_eq (w : World) (q : Query) (i : Nat) :
    q.entityAt w i = ((positions w q)[i]?).map (fun p => (w.tableOf p.1).getEntity p.2) := by
  unfold Query.entityAt positions
  exact entityAtIn_eq w (q.ranges w) i

theorem entityAt_none_iff (w : World) (q : Query) (i : Nat) :
    q.entityAt w i = none ↔ q.countEntities w ≤ i := by
  rw [entityAt_eq, count_eq_length, Option.map_eq_none_iff, List.getElem?_eq_none_iff]

/-! ## iteration -/

/-- the pure part of `Next` (closing the query on exhaustion is separate) -/
def advance (w : World) (q : Query) : Option Query :=
  if q.entityIndex < q.entityIndexMax then some { q with entityIndex := q.entityIndex + 1 }
  else q.nextArchetype w

/-- `queryNext` is `advance`, plus closing when exhausted -/
theorem queryNext_eq (w : World) (q : Query) :
    (match advance w q with
     | some q' => (w.queryNext q).out.toOption = some (q', true) ∧ (w.queryNext q).w = w
     | none => (w.queryNext q).out.toOption.map (·.2) = (w.closeQuery q).out.toOption.map (fun _ => false)) := by
  unfold advance World.queryNext
  by_cases h : q.entityIndex < q.entityIndexMax
  · simp [h, Except.toOption]
  · simp only [h, ↓reduceIte]
    cases hn : q.nextArchetype w with
    | some q' => simp [Except.toOption]
    | none =>
      simp only []
      cases hc : (w.closeQuery q).out with
      | error p => simp [hc, World.fail, Except.toOption]
      | ok q' => simp [hc, Except.toOption]

/-- the cursor position -/
def cursor (q : Query) : Nat × Nat := (q.cur.getD 0, q.entityIndex)

/-- the positions visited by up to `fuel` calls of `Next` -/
def visit (w : World) : Nat → Query → List (Nat × Nat)
  | 0, _ => []
  | fuel + 1, q =>
    match advance w q with
    | none => []
    | some q' => cursor q' :: visit w fuel q'

/-- all rows of the tables of a list -/
def tposs (w : World) (l : List Nat) : List (Nat × Nat) :=
  l.flatMap (fun t => rowsOf t 0 (w.tableOf t).rows.size)

theorem tposs_cons (w : World) (t : Nat) (l : List Nat) : tposs w (t :: l) = rowsOf t 0 (w.tableOf t).rows.size ++ tposs w l := rfl

theorem firstNonEmpty_spec (w : World) (ts : Array Nat) (i : Nat) :
    (match firstNonEmpty w ts i with
     | none => tposs w (ts.toList.drop i) = []
     | some j => i ≤ j ∧ j < ts.size ∧ 0 < (w.tableOf (ts.getD j 0)).rows.size ∧
                 tposs w (ts.toList.drop i) = tposs w (ts.toList.drop j)) := by
  induction hk : ts.size - i generalizing i with
  | zero =>
    unfold firstNonEmpty
    have : ¬ i < ts.size := by omega
    simp only [this, ↓reduceDIte]
    rw [List.drop_eq_nil_of_le (by simp; omega)]; rfl
  | succ k ih =>
    unfold firstNonEmpty
    have hlt : i < ts.size := by omega
    simp only [hlt, ↓reduceDIte]
    by_cases hne : (w.tableOf ts[i]).rows.size > 0
    · simp only [hne, ↓reduceIte]
      refine ⟨Nat.le_refl _, hlt, ?_, by first | rfl | trivial⟩
      simp [Array.getD_eq_getD_getElem?, hlt]; exact hne
    · simp only [hne, ↓reduceIte]
      have := ih (i + 1) (by omega)
      have hdrop : tposs w (ts.toList.drop i) = tposs w (ts.toList.drop (i + 1)) := by
        rw [List.drop_eq_getElem_cons (by simp; exact hlt), tposs_cons]
        have : (w.tableOf ts.toList[i]).rows.size = 0 := by simp at hne ⊢; exact hne
        rw [this, rowsOf_zero]; rfl
      cases hf : firstNonEmpty w ts (i + 1) with
      | none => rw [hf] at this; simp only [] at this ⊢; rw [hdrop]; exact this
      | some j =>
        rw [hf] at this; simp only [] at this ⊢
        exact ⟨by omega, this.2.1, this.2.2.1, by rw [hdrop]; exact this.2.2.2⟩

/-! ### cached table list -/

/-- well-formed cursor of a cached query: between tables, or inside a non-empty table whose
    last row is `entityIndexMax` -/
def CWf (w : World) (q : Query) : Prop :=
  q.mode = .cached ∧
  match q.cur with
  | none => q.entityIndex = 0 ∧ q.entityIndexMax = 0
  | some t => q.entityIndexMax + 1 = (w.tableOf t).rows.size ∧ q.entityIndex ≤ q.entityIndexMax

/-- what is still to be visited -/
def remainingC (w : World) (q : Query) : List (Nat × Nat) :=
  rowsOf (q.cur.getD 0) (q.entityIndex + 1) (q.entityIndexMax - q.entityIndex) ++ tposs w (q.tlist.toList.drop q.archNext)

/-- One `Next` on a cached query: the cursor moves to the head of what remains; exhaustion is
    reported exactly when nothing remains. -/
theorem advance_cached (w : World) (q : Query) (h : CWf w q) :
    (match advance w q with
     | none => remainingC w q = []
     | some q' => CWf w q' ∧ remainingC w q = cursor q' :: remainingC w q') := by
  obtain ⟨hm, hc⟩ := h
  unfold advance
  by_cases hlt : q.entityIndex < q.entityIndexMax
  · simp only [hlt, ↓reduceIte]
    cases hcur : q.cur with
    | none => rw [hcur] at hc; simp only [] at hc; omega
    | some t =>
      rw [hcur] at hc; simp only [] at hc
      refine ⟨⟨by first | exact hm | rfl | trivial, ?_⟩, ?_⟩
      · simp only [hcur]; exact ⟨hc.1, by omega⟩
      unfold remainingC cursor
      simp only [hcur, Option.getD_some]
      have : q.entityIndexMax - q.entityIndex = (q.entityIndexMax - (q.entityIndex + 1)) + 1 := by omega
      rw [this, rowsOf_succ]; rfl
  · simp only [hlt, ↓reduceIte]
    have hrest : rowsOf (q.cur.getD 0) (q.entityIndex + 1) (q.entityIndexMax - q.entityIndex) = [] := by
      have : q.entityIndexMax - q.entityIndex = 0 := by
        cases hcur : q.cur with
        | none => rw [hcur] at hc; simp only [] at hc; omega
        | some t => rw [hcur] at hc; simp only [] at hc; omega
      rw [this]; rfl
    unfold Query.nextArchetype
    simp only [hm]
    unfold advanceIn
    have hs := firstNonEmpty_spec w q.tlist q.archNext
    cases hf : firstNonEmpty w q.tlist q.archNext with
    | none =>
      rw [hf] at hs; simp only [] at hs ⊢
      unfold remainingC; rw [hrest, hs]; rfl
    | some j =>
      rw [hf] at hs; simp only [] at hs ⊢
      obtain ⟨hij, hjs, hpos, hdrop⟩ := hs
      refine ⟨⟨by first | exact hm | rfl | trivial, ?_⟩, ?_⟩
      · simp only []; omega
      unfold remainingC cursor
      simp only [Option.getD_some, Nat.sub_zero, Nat.zero_add]
      rw [hrest, List.nil_append, hdrop, List.drop_eq_getElem_cons (by simp; exact hjs), tposs_cons]
      have hget : q.tlist.toList[j]'(by simp; exact hjs) = q.tlist.getD j 0 := by
        simp [Array.getD_eq_getD_getElem?, hjs]
      rw [hget]
      have : (w.tableOf (q.tlist.getD j 0)).rows.size = ((w.tableOf (q.tlist.getD j 0)).rows.size - 1) + 1 := by omega
      rw [this, rowsOf_succ]
      simp

/-- iterating a cached query with enough fuel visits exactly what remains, in order -/
theorem visit_remainingC (w : World) (fuel : Nat) (q : Query) (h : CWf w q) (hf : (remainingC w q).length < fuel) :
    visit w fuel q = remainingC w q := by
  induction fuel generalizing q with
  | zero => omega
  | succ f ih =>
    unfold visit
    have ha := advance_cached w q h
    cases hadv : advance w q with
    | none => rw [hadv] at ha; simp only [] at ha ⊢; exact ha.symm
    | some q' =>
      rw [hadv] at ha; simp only [] at ha ⊢
      rw [ha.2]
      congr 1
      apply ih q' ha.1
      rw [ha.2] at hf; simp at hf; omega

/-- **Iterating a fresh query over a registered filter visits exactly `positions`, in order,
    each position once** (the lock is released by the closing `Next`). -/
theorem visit_cached (w : World) (q : Query) (hm : q.mode = .cached) (hfresh : q.cur = none ∧ q.entityIndex = 0 ∧ q.entityIndexMax = 0 ∧ q.archNext = 0) :
    visit w ((positions w q).length + 1) q = positions w q := by
  have hwf : CWf w q := ⟨hm, by simp only [hfresh.1]; exact ⟨hfresh.2.1, hfresh.2.2.1⟩⟩
  have hrem : remainingC w q = positions w q := by
    unfold remainingC positions ranges tposs
    simp only [hfresh.1, hfresh.2.1, hfresh.2.2.1, hfresh.2.2.2, hm, Nat.sub_self, List.drop_zero]
    rw [rowsOf_zero, List.nil_append, List.flatMap_map]
  rw [← hrem]
  exact visit_remainingC w _ q hwf (by omega)

/-! ### batch ranges -/

/-- batch entries are well formed when every range is non-empty and lies inside its table
    (every batch operation records a range only for a source table with at least one row) -/
def BatchOK (w : World) (b : Array BatchEntry) : Prop :=
  ∀ e ∈ b.toList, e.start < e.stop ∧ e.stop ≤ (w.tableOf e.tbl).rows.size

def bposs (l : List BatchEntry) : List (Nat × Nat) := l.flatMap (fun b => rowsOf b.tbl b.start (b.stop - b.start))

theorem firstBatch_spec (w : World) (b : Array BatchEntry) (hb : BatchOK w b) (i : Nat) :
    (match firstBatch w b i with
     | none => bposs (b.toList.drop i) = []
     | some j => i ≤ j ∧ j < b.size ∧ 0 < (w.tableOf (b.getD j default).tbl).rows.size ∧
                 bposs (b.toList.drop i) = bposs (b.toList.drop j)) := by
  induction hk : b.size - i generalizing i with
  | zero =>
    unfold firstBatch
    have : ¬ i < b.size := by omega
    simp only [this, ↓reduceDIte]
    rw [List.drop_eq_nil_of_le (by simp; omega)]; rfl
  | succ k ih =>
    unfold firstBatch
    have hlt : i < b.size := by omega
    simp only [hlt, ↓reduceDIte]
    by_cases hne : (w.tableOf b[i].tbl).rows.size > 0
    · simp only [hne, ↓reduceIte]
      refine ⟨Nat.le_refl _, hlt, ?_, by first | rfl | trivial⟩
      simp [Array.getD_eq_getD_getElem?, hlt]; exact hne
    · simp only [hne, ↓reduceIte]
      have := ih (i + 1) (by omega)
      have hdrop : bposs (b.toList.drop i) = bposs (b.toList.drop (i + 1)) := by
        rw [List.drop_eq_getElem_cons (by simp; exact hlt)]
        unfold bposs
        rw [List.flatMap_cons]
        have hmem : b.toList[i] ∈ b.toList := List.getElem_mem _
        have hok := hb _ hmem
        have hz : (w.tableOf b.toList[i].tbl).rows.size = 0 := by simp at hne ⊢; exact hne
        have : b.toList[i].stop - b.toList[i].start = 0 := by omega
        rw [this, rowsOf_zero]; rfl
      cases hf : firstBatch w b (i + 1) with
      | none => rw [hf] at this; simp only [] at this ⊢; rw [hdrop]; exact this
      | some j =>
        rw [hf] at this; simp only [] at this ⊢
        exact ⟨by omega, this.2.1, this.2.2.1, by rw [hdrop]; exact this.2.2.2⟩

def BWf (q : Query) : Prop :=
  q.mode = .batch ∧
  match q.cur with
  | none => q.entityIndex = 0 ∧ q.entityIndexMax = 0
  | some _ => q.entityIndex ≤ q.entityIndexMax

def remainingB (q : Query) : List (Nat × Nat) :=
  rowsOf (q.cur.getD 0) (q.entityIndex + 1) (q.entityIndexMax - q.entityIndex) ++ bposs (q.batch.toList.drop q.archNext)

/-- One `Next` on a batch-result query. -/
theorem advance_batch (w : World) (q : Query) (h : BWf q) (hb : BatchOK w q.batch) :
    (match advance w q with
     | none => remainingB q = []
     | some q' => BWf q' ∧ q'.batch = q.batch ∧ remainingB q = cursor q' :: remainingB q') := by
  obtain ⟨hm, hc⟩ := h
  unfold advance
  by_cases hlt : q.entityIndex < q.entityIndexMax
  · simp only [hlt, ↓reduceIte]
    cases hcur : q.cur with
    | none => rw [hcur] at hc; simp only [] at hc; omega
    | some t =>
      refine ⟨⟨by first | exact hm | rfl | trivial, ?_⟩, by first | rfl | trivial, ?_⟩
      · simp only [hcur]; omega
      unfold remainingB cursor
      simp only [hcur, Option.getD_some]
      have : q.entityIndexMax - q.entityIndex = (q.entityIndexMax - (q.entityIndex + 1)) + 1 := by omega
      rw [this, rowsOf_succ]; rfl
  · simp only [hlt, ↓reduceIte]
    have hrest : rowsOf (q.cur.getD 0) (q.entityIndex + 1) (q.entityIndexMax - q.entityIndex) = [] := by
      have : q.entityIndexMax - q.entityIndex = 0 := by
        cases hcur : q.cur with
        | none => rw [hcur] at hc; simp only [] at hc; omega
        | some t => rw [hcur] at hc; simp only [] at hc; omega
      rw [this]; rfl
    unfold Query.nextArchetype
    simp only [hm]
    have hs := firstBatch_spec w q.batch hb q.archNext
    cases hf : firstBatch w q.batch q.archNext with
    | none =>
      rw [hf] at hs; simp only [] at hs ⊢
      unfold remainingB; rw [hrest, hs]; rfl
    | some j =>
      rw [hf] at hs; simp only [] at hs ⊢
      obtain ⟨hij, hjs, hpos, hdrop⟩ := hs
      have hmem : q.batch.getD j default ∈ q.batch.toList := by
        simp [Array.getD_eq_getD_getElem?, hjs]
      have hok := hb _ hmem
      refine ⟨⟨by first | exact hm | rfl | trivial, ?_⟩, by first | rfl | trivial, ?_⟩
      · simp only []; omega
      unfold remainingB cursor
      simp only [Option.getD_some]
      rw [hrest, List.nil_append, hdrop, List.drop_eq_getElem_cons (by simp; exact hjs)]
      unfold bposs
      rw [List.flatMap_cons]
      have hget : q.batch.toList[j]'(by simp; exact hjs) = q.batch.getD j default := by
        simp [Array.getD_eq_getD_getElem?, hjs]
      rw [hget]
      have : (q.batch.getD j default).stop - (q.batch.getD j default).start
          = ((q.batch.getD j default).stop - 1 - (q.batch.getD j default).start) + 1 := by omega
      rw [this, rowsOf_succ]
      simp

theorem visit_remainingB (w : World) (fuel : Nat) (q : Query) (h : BWf q) (hb : BatchOK w q.batch)
    (hf : (remainingB q).length < fuel) : visit w fuel q = remainingB q := by
  induction fuel generalizing q with
  | zero => omega
  | succ f ih =>
    unfold visit
    have ha := advance_batch w q h hb
    cases hadv : advance w q with
    | none => rw [hadv] at ha; simp only [] at ha ⊢; exact ha.symm
    | some q' =>
      rw [hadv] at ha; simp only [] at ha ⊢
      rw [ha.2.2]
      congr 1
      apply ih q' ha.1 (by rw [ha.2.1]; exact hb)
      rw [ha.2.2] at hf; simp at hf; omega

/-- **Iterating the query returned by a batch operation visits exactly the recorded ranges**
    (the affected entities), in order, each once. -/
theorem visit_batch (w : World) (q : Query) (hm : q.mode = .batch) (hb : BatchOK w q.batch)
    (hfresh : q.cur = none ∧ q.entityIndex = 0 ∧ q.entityIndexMax = 0 ∧ q.archNext = 0) :
    visit w ((positions w q).length + 1) q = positions w q := by
  have hwf : BWf q := ⟨hm, by simp only [hfresh.1]; exact ⟨hfresh.2.1, hfresh.2.2.1⟩⟩
  have hrem : remainingB q = positions w q := by
    unfold remainingB positions ranges bposs
    simp only [hfresh.1, hfresh.2.1, hfresh.2.2.1, hfresh.2.2.2, hm, Nat.sub_self, List.drop_zero]
    rw [rowsOf_zero, List.nil_append, List.flatMap_map]
  rw [← hrem]
  exact visit_remainingB w _ q hwf hb (by omega)

/-- the queries the model creates are fresh in the sense of the theorems above -/
theorem query_fresh (w : World) (f : Filter) (q : Query) (h : (w.query f).out = .ok q) :
    q.cur = none ∧ q.entityIndex = 0 ∧ q.entityIndexMax = 0 ∧ q.archNext = 0 := by
  unfold World.query at h
  split at h
  · split at h
    · cases h
    · split at h
      · cases h
      · cases h; exact ⟨rfl, rfl, rfl, rfl⟩
  · split at h
    · cases h
    · cases h; exact ⟨rfl, rfl, rfl, rfl⟩

/-- non-vacuity: a world with two tables; a batch query over rows 1..2 of table 1 -/
example :
    positions ((((World.init ⟨4, 0, 8⟩).registerComponent false false).w.newEntities 3 none Entity.zero [(0, 0)] false).w)
      { mode := .batch, batch := #[⟨1, none, 1, 3⟩] } = [(1, 1), (1, 2)] := by decide

end Arche.Props.C03
