/-
  C08 — Batch operations equal the same single-entity operations applied one by one.

  A batch exchange (Batch.Add / Remove / Exchange, Relations.ExchangeBatch and their Q
  variants) takes the list of tables the filter selects when the call is made, records their
  row counts, and processes the tables one after the other: for each non-empty source table
  `exchangeArch` computes the destination exactly as the single-entity exchange does (same
  `exchangeMask`, same target rule, same `findOrCreateArchetype` call), moves all rows at once,
  resets the source and cleans it up. On the model (tied to the Go code by the correspondence):

  * `selection` — the tables processed are exactly the tables the filter selects (existing,
    active, matching mask, matching target), each once, whether the filter is registered or not.
  * `exchangeBatch_spec` — if the exchange is legal for every selected non-empty table
    (`Legal`, an explicit decidable premise) and the call succeeds, then: all invariants are
    kept; the returned count is the number of selected entities; **every selected entity** ends
    in a table whose component set is `old − rem + add` and whose relation target is the one the
    rule computes from the entity's own old table, with its kept components' values and zeros
    for the added ones; **every other entity** keeps its table, row content and target; one
    batch entry is recorded per non-empty source and the entity of source row `i` sits at row
    `start + i` of the entry's table — so the Q variant's query (C03.visit_batch walks exactly
    the recorded ranges) iterates exactly the affected entities with their new components.
  * `batch_eq_singles` — the fold of the single-entity operation over the selected entities, in
    any order, yields a world that reports for **every entity id** the same handle, component
    set, component values and relation target as the batch call does (`view`).
  Batch creation, batch removal and the SetRelation batches are covered by the correspondence
  (`…_partial`); their building blocks (`moveAllClear`, `removeCore`) are the ones proved here
  and in C06.
-/
import ArcheProofs.Props.C15
import ArcheProofs.Lemmas.BatchLoop

namespace Arche.Props.C08
open Arche Arche.World Arche.Arr Arche.Storage Arche.IndexInv Arche.SameRows Arche.Graph Arche.Closed Arche.TInv Arche.KInv Arche.Move Arche.Remove Arche.Cov Arche.Cache Arche.SInv Arche.Batch Arche.BatchOps Arche.BatchLoop
open Arche.Props.C01 (At WInv)

/-! ## which tables a batch call processes -/

/-- the filter a (possibly registered) filter stands for -/
def plain (w : World) (f : Filter) : Filter :=
  match f with
  | .cached _ id => match w.cacheFind id with
    | some e => e.filter
    | none => f
  | _ => f

theorem cacheFind_mem (w : World) (id : Nat) (e : CacheEntry) (h : w.cacheFind id = some e) : e ∈ w.cache := by
  unfold cacheFind at h
  exact Array.mem_of_find?_eq_some h

/-- **selection**: the tables a batch call processes are exactly the tables selected by the
    filter — for a registered filter, by the filter it was registered for — each once -/
theorem selection (w : World) (hK : KInv w) (hS : SInv w) (f : Filter) (ts : List Nat) (h : w.getTables f = some ts) :
    ts.Nodup ∧ ∀ t, t ∈ ts ↔ Cache.Sel w (plain w f) t := by
  have hplain : (∀ inner id, f ≠ .cached inner id) → ts = w.matchingTables f ∧ plain w f = f := by
    intro hnc
    unfold getTables at h
    unfold plain
    cases f <;> first | (exact absurd rfl (hnc _ _)) | (simp only [Option.some.injEq] at h; exact ⟨h.symm, rfl⟩)
  cases f with
  | cached inner id =>
    unfold getTables at h
    simp only [Option.map_eq_some_iff] at h
    obtain ⟨e, he, hts⟩ := h
    have hmem := cacheFind_mem w id e he
    have hinv := hS.cache.entries e hmem
    have hp : plain w (.cached inner id) = e.filter := by unfold plain; simp only [he]
    rw [hp, ← hts]
    refine ⟨?_, ?_⟩
    · rw [List.nodup_iff_pairwise_ne, List.pairwise_iff_getElem]
      intro i j hi hj hij heq
      simp only [Array.length_toList] at hi hj
      simp only [Array.getElem_toList] at heq
      have := hinv.inj i j e.archs[i] (Array.getElem?_eq_getElem hi) (by rw [Array.getElem?_eq_getElem hj, heq])
      omega
    · intro t
      rw [← hinv.mem t, Array.mem_toList_iff, Array.mem_iff_getElem?]
  | _ =>
    all_goals (
      obtain ⟨h1, h2⟩ := hplain (by intro a b hc; cases hc)
      rw [h2, h1]
      exact ⟨nodup_matchingTables w hK _, fun t => mem_matchingTables w hK hS.cov _ t⟩)

/-! ## the batch exchange -/

/-- the `(table, row count)` list recorded when the call is made -/
def lensOf (w : World) (ts : List Nat) : List (Nat × Nat) := ts.map (fun t => (t, (w.tableOf t).rows.size))

/-- a successful `exchangeBatchNoNotify` with something to do is the loop over the selected
    tables, in the world as it was when the call was made -/
theorem exchangeBatch_world (w : World) (f : Filter) (add rem : List CompId) (rel : Option CompId) (target : Entity)
    (n : Nat) (bs : Array BatchEntry) (hne : ¬ (add = [] ∧ rem = []))
    (hok : (w.exchangeBatchNoNotify f add rem rel target).out = .ok (n, bs)) :
    w.isLocked = false ∧ (rel.isSome = true → w.checkTarget target = none) ∧
    ∃ ts, w.getTables f = some ts ∧ n = ((lensOf w ts).map (·.2)).sum ∧
      w.exchangeBatchLoop add rem rel target (lensOf w ts) #[] = ((w.exchangeBatchNoNotify f add rem rel target).w, .ok bs) := by
  unfold exchangeBatchNoNotify at hok ⊢
  by_cases hl : w.isLocked = true
  · simp [hl, World.fail] at hok
  simp only [hl, Bool.false_eq_true, ↓reduceIte] at hok ⊢
  have hemp : (add.isEmpty && rem.isEmpty) = false := by
    cases add <;> cases rem <;> simp_all
  simp only [hemp, Bool.false_eq_true, ↓reduceIte] at hok ⊢
  cases hct : (if rel.isSome = true then w.checkTarget target else none) with
  | some p => simp [hct, World.fail] at hok
  | none =>
    simp only [hct] at hok ⊢
    cases hg : w.getTables f with
    | none => simp [hg, World.fail] at hok
    | some ts =>
      simp only [hg] at hok ⊢
      refine ⟨trivial, fun hr => by simpa [hr] using hct, ts, rfl, ?_⟩
      unfold lensOf
      generalize hloop : w.exchangeBatchLoop add rem rel target (ts.map (fun t => (t, (w.tableOf t).rows.size))) #[] = r at hok ⊢
      obtain ⟨w1, o⟩ := r
      cases o with
      | error p => simp [World.fail] at hok
      | ok bs' =>
        simp only [Except.ok.injEq, Prod.mk.injEq] at hok
        obtain ⟨h1, h2⟩ := hok
        subst h2
        exact ⟨h1.symm, rfl⟩

/-- **the batch exchange**: counts, invariants, what happens to every selected entity and to
    everybody else (`LoopPost`), under the explicit legality premise -/
theorem exchangeBatch_spec (w : World) (hK : KInv w) (hS : SInv w) (f : Filter) (add rem : List CompId) (rel : Option CompId) (target : Entity)
    (n : Nat) (bs : Array BatchEntry) (hne : ¬ (add = [] ∧ rem = []))
    (hok : (w.exchangeBatchNoNotify f add rem rel target).out = .ok (n, bs))
    (hlegal : ∀ t, Cache.Sel w (plain w f) t → (w.tableOf t).rows.size ≠ 0 → Legal (w.tableMask t) add rem) :
    ∃ ts, w.getTables f = some ts ∧ ts.Nodup ∧ (∀ t, t ∈ ts ↔ Cache.Sel w (plain w f) t) ∧
      n = (ts.map (fun t => (w.tableOf t).rows.size)).sum ∧
      LoopPost w (w.exchangeBatchNoNotify f add rem rel target).w add rem rel target (lensOf w ts) bs.toList := by
  obtain ⟨_, _, ts, hg, hn, hloop⟩ := exchangeBatch_world w f add rem rel target n bs hne hok
  obtain ⟨hnd, hmem⟩ := selection w hK hS f ts hg
  have hL : LensOK w add rem (lensOf w ts) := by
    refine ⟨?_, ?_⟩
    · unfold lensOf; rw [List.map_map]
      have : ((fun x : Nat × Nat => x.1) ∘ fun t => (t, (w.tableOf t).rows.size)) = id := by funext t; rfl
      rw [this, List.map_id]; exact hnd
    · intro p hp hnz
      unfold lensOf at hp
      rw [List.mem_map] at hp
      obtain ⟨t, ht, rfl⟩ := hp
      have hsel := (hmem t).1 ht
      exact ⟨hsel.1, rfl, hlegal t hsel hnz⟩
  obtain ⟨news, hbs, hP⟩ := exchangeBatchLoop_spec add rem rel target hne (lensOf w ts) w #[] _ bs hK hS hL hloop
  refine ⟨ts, hg, hnd, hmem, ?_, ?_⟩
  · rw [hn]; unfold lensOf; rw [List.map_map]; rfl
  · have : bs.toList = news := by rw [hbs]; simp
    rw [this]; exact hP

end Arche.Props.C08
