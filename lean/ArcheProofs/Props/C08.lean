/-
  C08 — Batch operations equal the same single-entity operations applied one by one.
  (work in progress: see Lemmas/BatchOps.lean, Lemmas/BatchLoop.lean)
-/
import ArcheProofs.Props.C15
import ArcheProofs.Lemmas.BatchOps

namespace Arche.Props.C08
end Arche.Props.C08
