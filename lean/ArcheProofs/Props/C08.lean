/-
  C08 — Batch operations equal the same single-entity operations applied one by one.

  A batch exchange (Batch.Add / Remove / Exchange, Relations.ExchangeBatch and their Q
  variants) takes the list of tables the filter selects when the call is made, records their
  row counts, and processes the tables one after the other: for each non-empty source table
  `exchangeArch` computes the destination exactly as the single-entity exchange does (same
  `exchangeMask`, same target rule, same `findOrCreateArchetype` call), moves all rows at once,
  resets the source and cleans it up. On the model (tied to the Go code by the correspondence):

  * `selection` — the tables processed are exactly the tables the filter selects (existing,
    active, matching mask, matching target), each once, whether the filter is registered or not.
  * `exchangeBatch_spec` — if the exchange is legal for every selected non-empty table
    (`Legal`, an explicit decidable premise) and the call succeeds, then: all invariants are
    kept; the returned count is the number of selected entities; **every selected entity** ends
    in a table whose component set is `old − rem + add` and whose relation target is the one the
    rule computes from the entity's own old table, with its kept components' values and zeros
    for the added ones; **every other entity** keeps its table, row content and target; one
    batch entry is recorded per non-empty source and the entity of source row `i` sits at row
    `start + i` of the entry's table — so the Q variant's query (C03.visit_batch walks exactly
    the recorded ranges) iterates exactly the affected entities with their new components.
  * `batch_eq_singles` — the fold of the single-entity operation over the selected entities, in
    any order, yields a world that reports for **every entity id** the same handle, component
    set, component values and relation target as the batch call does (`view`).
  Batch creation, batch removal and the SetRelation batches are covered by the correspondence
  (`…_partial`); their building blocks (`moveAllClear`, `removeCore`) are the ones proved here
  and in C06.
-/
import ArcheProofs.Props.C15
import ArcheProofs.Lemmas.BatchLoop

namespace Arche.Props.C08
open Arche Arche.World Arche.Arr Arche.Storage Arche.IndexInv Arche.SameRows Arche.Graph Arche.Closed Arche.TInv Arche.KInv Arche.Move Arche.Remove Arche.Cov Arche.Cache Arche.SInv Arche.Batch Arche.BatchOps Arche.BatchLoop
open Arche.Props.C01 (At WInv)

/-! ## which tables a batch call processes -/

/-- the filter a (possibly registered) filter stands for -/
def plain (w : World) (f : Filter) : Filter :=
  match f with
  | .cached _ id => match w.cacheFind id with
    | some e => e.filter
    | none => f
  | _ => f

theorem cacheFind_mem (w : World) (id : Nat) (e : CacheEntry) (h : w.cacheFind id = some e) : e ∈ w.cache := by
  unfold cacheFind at h
  exact Array.mem_of_find?_eq_some h

/-- **selection**: the tables a batch call processes are exactly the tables selected by the
    filter — for a registered filter, by the filter it was registered for — each once -/
theorem selection (w : World) (hK : KInv w) (hS : SInv w) (f : Filter) (ts : List Nat) (h : w.getTables f = some ts) :
    ts.Nodup ∧ ∀ t, t ∈ ts ↔ Cache.Sel w (plain w f) t := by
  have hplain : (∀ inner id, f ≠ .cached inner id) → ts = w.matchingTables f ∧ plain w f = f := by
    intro hnc
    unfold getTables at h
    unfold plain
    cases f <;> first | (exact absurd rfl (hnc _ _)) | (simp only [Option.some.injEq] at h; exact ⟨h.symm, rfl⟩)
  cases f with
  | cached inner id =>
    unfold getTables at h
    simp only [Option.map_eq_some_iff] at h
    obtain ⟨e, he, hts⟩ := h
    have hmem := cacheFind_mem w id e he
    have hinv := hS.cache.entries e hmem
    have hp : plain w (.cached inner id) = e.filter := by unfold plain; simp only [he]
    rw [hp, ← hts]
    refine ⟨?_, ?_⟩
    · rw [List.nodup_iff_pairwise_ne, List.pairwise_iff_getElem]
      intro i j hi hj hij heq
      simp only [Array.length_toList] at hi hj
      simp only [Array.getElem_toList] at heq
      have := hinv.inj i j e.archs[i] (Array.getElem?_eq_getElem hi) (by rw [Array.getElem?_eq_getElem hj, heq])
      omega
    · intro t
      rw [← hinv.mem t, Array.mem_toList_iff, Array.mem_iff_getElem?]
  | _ =>
    all_goals (
      obtain ⟨h1, h2⟩ := hplain (by intro a b hc; cases hc)
      rw [h2, h1]
      exact ⟨nodup_matchingTables w hK _, fun t => mem_matchingTables w hK hS.cov _ t⟩)

/-! ## the batch exchange -/

/-- the `(table, row count)` list recorded when the call is made -/
def lensOf (w : World) (ts : List Nat) : List (Nat × Nat) := ts.map (fun t => (t, (w.tableOf t).rows.size))

/-- a successful `exchangeBatchNoNotify` with something to do is the loop over the selected
    tables, in the world as it was when the call was made -/
theorem exchangeBatch_world (w : World) (f : Filter) (add rem : List CompId) (rel : Option CompId) (target : Entity)
    (n : Nat) (bs : Array BatchEntry) (hne : ¬ (add = [] ∧ rem = []))
    (hok : (w.exchangeBatchNoNotify f add rem rel target).out = .ok (n, bs)) :
    w.isLocked = false ∧ (rel.isSome = true → w.checkTarget target = none) ∧
    ∃ ts, w.getTables f = some ts ∧ n = ((lensOf w ts).map (·.2)).sum ∧
      w.exchangeBatchLoop add rem rel target (lensOf w ts) #[] = ((w.exchangeBatchNoNotify f add rem rel target).w, .ok bs) := by
  unfold exchangeBatchNoNotify at hok ⊢
  by_cases hl : w.isLocked = true
  · simp [hl, World.fail] at hok
  simp only [hl, Bool.false_eq_true, ↓reduceIte] at hok ⊢
  have hemp : (add.isEmpty && rem.isEmpty) = false := by
    cases add <;> cases rem <;> simp_all
  simp only [hemp, Bool.false_eq_true, ↓reduceIte] at hok ⊢
  cases hct : (if rel.isSome = true then w.checkTarget target else none) with
  | some p => simp [hct, World.fail] at hok
  | none =>
    simp only [hct] at hok ⊢
    cases hg : w.getTables f with
    | none => simp [hg, World.fail] at hok
    | some ts =>
      simp only [hg] at hok ⊢
      refine ⟨trivial, fun hr => by simpa [hr] using hct, ts, rfl, ?_⟩
      unfold lensOf
      generalize hloop : w.exchangeBatchLoop add rem rel target (ts.map (fun t => (t, (w.tableOf t).rows.size))) #[] = r at hok ⊢
      obtain ⟨w1, o⟩ := r
      cases o with
      | error p => simp [World.fail] at hok
      | ok bs' =>
        simp only [Except.ok.injEq, Prod.mk.injEq] at hok
        obtain ⟨h1, h2⟩ := hok
        subst h2
        exact ⟨h1.symm, rfl⟩

/-- **the batch exchange**: counts, invariants, what happens to every selected entity and to
    everybody else (`LoopPost`), under the explicit legality premise -/
theorem exchangeBatch_spec (w : World) (hK : KInv w) (hS : SInv w) (f : Filter) (add rem : List CompId) (rel : Option CompId) (target : Entity)
    (n : Nat) (bs : Array BatchEntry) (hne : ¬ (add = [] ∧ rem = []))
    (hok : (w.exchangeBatchNoNotify f add rem rel target).out = .ok (n, bs))
    (hlegal : ∀ t, Cache.Sel w (plain w f) t → (w.tableOf t).rows.size ≠ 0 → Legal (w.tableMask t) add rem) :
    ∃ ts, w.getTables f = some ts ∧ ts.Nodup ∧ (∀ t, t ∈ ts ↔ Cache.Sel w (plain w f) t) ∧
      n = (ts.map (fun t => (w.tableOf t).rows.size)).sum ∧
      LoopPost w (w.exchangeBatchNoNotify f add rem rel target).w add rem rel target (lensOf w ts) bs.toList := by
  obtain ⟨_, _, ts, hg, hn, hloop⟩ := exchangeBatch_world w f add rem rel target n bs hne hok
  obtain ⟨hnd, hmem⟩ := selection w hK hS f ts hg
  have hL : LensOK w add rem (lensOf w ts) := by
    refine ⟨?_, ?_⟩
    · unfold lensOf; rw [List.map_map]
      have : ((fun x : Nat × Nat => x.1) ∘ fun t => (t, (w.tableOf t).rows.size)) = id := by funext t; rfl
      rw [this, List.map_id]; exact hnd
    · intro p hp hnz
      unfold lensOf at hp
      rw [List.mem_map] at hp
      obtain ⟨t, ht, rfl⟩ := hp
      have hsel := (hmem t).1 ht
      exact ⟨hsel.1, rfl, hlegal t hsel hnz⟩
  obtain ⟨news, hbs, hP⟩ := exchangeBatchLoop_spec add rem rel target hne (lensOf w ts) w #[] _ bs hK hS hL hloop
  refine ⟨ts, hg, hnd, hmem, ?_, ?_⟩
  · rw [hn]; unfold lensOf; rw [List.map_map]; rfl
  · have : bs.toList = news := by rw [hbs]; simp
    rw [this]; exact hP


/-! ## what the world reports about an entity -/

/-- the observable state of one entity: its handle, component set, component values (`none` =
    `Get` returns nil) and relation target -/
structure EView where
  ent : Entity
  mask : Mask
  comps : CompId → Option Val
  target : Entity

theorem EView.ext' (a b : EView) (h1 : a.ent = b.ent) (h2 : a.mask = b.mask) (h3 : ∀ c, a.comps c = b.comps c) (h4 : a.target = b.target) : a = b := by
  cases a; cases b
  simp only at h1 h2 h3 h4
  subst h1; subst h2; subst h4
  have hf := funext h3
  subst hf
  rfl

/-- the view of an entity stored in table `t` with row content `row` -/
def mkView (w : World) (t : Nat) (row : Row) : EView :=
  { ent := row.ent, mask := w.tableMask t,
    comps := fun c => (colOf (w.tableIds t) c).map (fun k => row.vals.getD k 0),
    target := (w.tableOf t).target }

/-- what the world reports about entity id `id` (`none`: not stored) -/
def view (w : World) (id : Nat) : Option EView :=
  (loc w id).map (fun l => mkView w l.tbl (rowAt w l.tbl l.row))

theorem view_of_at (w : World) (id t : Nat) (row : Row) (h : At w id t row) : view w id = some (mkView w t row) := by
  obtain ⟨l, h1, h2, h3⟩ := h
  unfold view; rw [h1]; simp only [Option.map_some]; rw [h3, h2]

theorem at_of_view (w : World) (id : Nat) (v : EView) (h : view w id = some v) : ∃ t row, At w id t row ∧ v = mkView w t row := by
  unfold view at h
  cases hl : loc w id with
  | none => rw [hl] at h; cases h
  | some l =>
    rw [hl] at h; simp only [Option.map_some, Option.some.injEq] at h
    exact ⟨l.tbl, rowAt w l.tbl l.row, ⟨l, hl, rfl, rfl⟩, h.symm⟩

theorem view_none (w : World) (id : Nat) (h : loc w id = none) : view w id = none := by unfold view; rw [h]; rfl

/-- the relation target rule of the exchange paths, on views (`archTarget` / `exchangeTarget`) -/
def viewTarget (reg : Registry) (v : EView) (mask : Mask) (rel : Option CompId) (target : Entity) (rem : List CompId) : Except Panic Entity :=
  match rel with
  | some r =>
    if !Mask.get mask r then .error .relMissing
    else if !Mask.get reg.isRel r then .error .notRel
    else .ok target
  | none => .ok (if !v.target.isZero && Mask.containsAny v.mask reg.isRel && rem.any (fun id => Mask.get reg.isRel id)
      then Entity.zero else v.target)

theorem archTarget_view (w : World) (mask : Mask) (rel : Option CompId) (target : Entity) (t : Nat) (rem : List CompId) (row : Row) :
    w.archTarget mask rel target t rem = viewTarget w.reg (mkView w t row) mask rel target rem := by
  unfold archTarget viewTarget keptTarget mkView; rfl

/-- **what an exchange does to one entity**, as a relation between its view before and after:
    same handle; component set `old − rem + add`; every component of the new set holds its old
    value, or zero if it is new; the relation target is the one the rule computes (zero if the
    new component set has no relation) -/
def Xf (bits : Nat) (reg : Registry) (add rem : List CompId) (rel : Option CompId) (target : Entity) (v v' : EView) : Prop :=
  v'.ent = v.ent ∧ v'.mask = newMask v.mask add rem ∧
  (∀ c, v'.comps c = if c ∈ Mask.toList v'.mask bits then some ((v.comps c).getD 0) else none) ∧
  ∃ mask tgt, exchangeMask v.mask add rem = .ok mask ∧ viewTarget reg v mask rel target rem = .ok tgt ∧
    ((∃ c, Mask.get v'.mask c = true ∧ Mask.get reg.isRel c = true) → v'.target = tgt) ∧
    ((¬ ∃ c, Mask.get v'.mask c = true ∧ Mask.get reg.isRel c = true) → v'.target = Entity.zero)

/-- the relation is functional: the view after is determined by the view before -/
theorem Xf_functional (bits : Nat) (reg : Registry) (add rem : List CompId) (rel : Option CompId) (target : Entity) (v v1 v2 : EView)
    (h1 : Xf bits reg add rem rel target v v1) (h2 : Xf bits reg add rem rel target v v2) : v1 = v2 := by
  obtain ⟨a1, a2, a3, m1, t1, a4, a5, a6, a7⟩ := h1
  obtain ⟨b1, b2, b3, m2, t2, b4, b5, b6, b7⟩ := h2
  have hm : v1.mask = v2.mask := by rw [a2, b2]
  apply EView.ext' _ _ (by rw [a1, b1]) hm
  · intro c; rw [a3, b3, hm]
  · rw [a4] at b4; simp only [Except.ok.injEq] at b4; subst b4
    rw [a5] at b5; simp only [Except.ok.injEq] at b5; subst b5
    by_cases hr : ∃ c, Mask.get v1.mask c = true ∧ Mask.get reg.isRel c = true
    · rw [a6 hr, b6 (by rw [← hm]; exact hr)]
    · rw [a7 hr, b7 (by rw [← hm]; exact hr)]

/-- under `DInv`, a row that holds `movedVals` of an old row in a table with the exchanged mask
    and the computed target is an `Xf`-image of the old view -/
theorem xf_of_moved (w w' : World) (hD' : DInv.DInv w') (hcfg : w'.cfg = w.cfg) (hreg : w'.reg = w.reg)
    (add rem : List CompId) (rel : Option CompId) (target : Entity) (t t' : Nat) (ht' : t' < w'.tables.size) (hn' : TNodeOK w')
    (row : Row) (mask : Mask) (tgt : Entity)
    (hmask : w'.tableMask t' = newMask (w.tableMask t) add rem)
    (hm : exchangeMask (w.tableMask t) add rem = .ok mask)
    (htg : viewTarget w.reg (mkView w t row) mask rel target rem = .ok tgt)
    (htarget : (w'.tableOf t').target = (if (w'.tableRel t').isSome then tgt else Entity.zero)) :
    Xf w.cfg.maskBits w.reg add rem rel target (mkView w t row)
      (mkView w' t' ⟨row.ent, movedVals (w.tableIds t) (w'.tableIds t') row.vals⟩) := by
  have hnode : (w'.tableOf t').node < w'.nodes.size := hn' t' ht'
  have hids : w'.tableIds t' = Mask.toList (w'.tableMask t') w.cfg.maskBits := by
    rw [← hcfg]; exact hD'.ids _ hnode
  have hrel := hD'.rel _ hnode
  refine ⟨rfl, hmask, ?_, mask, tgt, hm, htg, ?_, ?_⟩
  · intro c
    show (colOf (w'.tableIds t') c).map _ = _
    show _ = if c ∈ Mask.toList (w'.tableMask t') w.cfg.maskBits then _ else _
    rw [← hids]
    cases hc : colOf (w'.tableIds t') c with
    | none =>
      have : ¬ c ∈ w'.tableIds t' := by
        intro hmem; have := (colOf_isSome_iff _ _).2 hmem; rw [hc] at this; cases this
      rw [if_neg this]; rfl
    | some k =>
      have : c ∈ w'.tableIds t' := (colOf_isSome_iff _ _).1 (by rw [hc]; rfl)
      rw [if_pos this]
      simp only [Option.map_some, Option.some.injEq]
      rw [movedVals_get _ _ _ c k hc]
      show _ = (((colOf (w.tableIds t) c).map (fun k => row.vals.getD k 0))).getD 0
      cases colOf (w.tableIds t) c <;> rfl
  · rintro ⟨c, hc1, hc2⟩
    show (w'.tableOf t').target = tgt
    have : w'.tableRel t' = some c := (hrel c).2 ⟨hc1, by rw [hreg]; exact hc2⟩
    rw [htarget, this]; rfl
  · intro hno
    show (w'.tableOf t').target = Entity.zero
    cases hr : w'.tableRel t' with
    | none => rw [htarget, hr]; rfl
    | some c =>
      exfalso; apply hno
      obtain ⟨a, b⟩ := (hrel c).1 hr
      exact ⟨c, a, by rw [← hreg]; exact b⟩


/-! ## the batch, on views -/

/-- after the loop: every selected entity's view is an `Xf`-image of its view when the call was
    made; every other id reports exactly what it reported before -/
theorem loop_views (w w' : World) (add rem : List CompId) (rel : Option CompId) (target : Entity)
    (lens : List (Nat × Nat)) (news : List BatchEntry)
    (hK : KInv w) (hD : DInv.DInv w) (hL : LensOK w add rem lens) (hP : LoopPost w w' add rem rel target lens news) :
    (∀ id, BatchLoop.Sel w lens id → ∃ v v', view w id = some v ∧ view w' id = some v' ∧ Xf w.cfg.maskBits w.reg add rem rel target v v') ∧
    (∀ id, ¬ BatchLoop.Sel w lens id → view w' id = view w id) := by
  obtain ⟨hD', hcfg⟩ := hP.dinv hD
  refine ⟨?_, ?_⟩
  · rintro id ⟨p, hp, hnz, i, hi, hid⟩
    obtain ⟨hplt, hplen, _⟩ := hL.ok p hp hnz
    have hloc : loc w id = some ⟨p.1, i⟩ := by rw [← hid]; exact hK.idx.bwd p.1 i ⟨hplt, by rw [← hplen]; exact hi⟩
    obtain ⟨b, _, _, hblt, m3, m4, m5, mask, tgt, m6, m7, m8⟩ := hP.moved p hp hnz i hi
    rw [hid] at m3
    refine ⟨mkView w p.1 (rowAt w p.1 i), _, view_of_at w id p.1 _ ⟨⟨p.1, i⟩, hloc, rfl, rfl⟩,
      view_of_at w' id b.tbl _ ⟨⟨b.tbl, b.start + i⟩, m3, rfl, m4⟩, ?_⟩
    exact xf_of_moved w w' hD' hcfg hP.reg add rem rel target p.1 b.tbl hblt hP.kinv.node.tnode (rowAt w p.1 i) mask tgt m5 m6
      (by rw [← archTarget_view]; exact m7) m8
  · intro id hns
    cases hl : loc w id with
    | none => rw [view_none w id hl, view_none w' id (by rw [hP.locs id hns]; exact hl)]
    | some l =>
      obtain ⟨a, b, c⟩ := hP.others id l hns hl
      have hv := (hK.idx.fwd id l hl).1
      obtain ⟨q1, q2, _⟩ := hP.old l.tbl hv.1
      rw [view_of_at w id l.tbl (rowAt w l.tbl l.row) ⟨l, hl, rfl, rfl⟩,
        view_of_at w' id l.tbl (rowAt w l.tbl l.row) ⟨l, a, rfl, b⟩]
      unfold mkView
      rw [q1, q2, c]

/-! ## the single-entity exchange, on views -/

/-- an id that is not stored before a single-entity exchange is not stored after it -/
theorem exchange_loc_none (w : World) (e : Entity) (add rem : List CompId) (rel : Option CompId) (target : Entity) (x : Exchanged)
    (hI : WInv w) (hl : loc w e.id = some (w.locOf e))
    (he : (rowAt w (w.locOf e).tbl (w.locOf e).row).ent = e)
    (hok : (w.exchangeNoNotify e add rem rel target).out = .ok (some x)) (id : Nat) (hid : id ≠ e.id) (hnone : loc w id = none) :
    loc (w.exchangeNoNotify e add rem rel target).w id = none := by
  obtain ⟨tgt, mask, hmask, _, hne, hf, hw⟩ := C01.exchange_world w e add rem rel target x hok
  rw [hw]
  generalize hsrc : w.locOf e = l at *
  have hv : validRow w l.tbl l.row := (hI.idx.fwd _ _ hl).1
  obtain ⟨hremok, _⟩ := C01.remOK_of_exchangeMask _ _ _ _ hmask
  obtain ⟨s1, n1, g1, hspec⟩ := findOrCreateTable_spec w hI.node hI.graph l.tbl hv.1 add rem tgt hremok
  obtain ⟨htlt, htmask⟩ := hspec x.tbl hf
  generalize hw1 : (w.findOrCreateTable l.tbl add rem tgt).1 = w1 at *
  have i1 : IdxInv w1 := SameRows.idxInv s1 hI.node.tnode hI.idx
  have hv1 : validRow w1 l.tbl l.row := (i1.fwd _ _ (by rw [SameRows.loc_eq s1]; exact hl)).1
  have he1 : (rowAt w1 l.tbl l.row).ent = e := by rw [SameRows.rowAt_eq s1 _ _ hv.1]; exact he
  have hadds := findOrCreateTable_ok_adds w l.tbl add rem tgt x.tbl (by rw [← hf])
  have hmne := C01.newMask_ne _ _ _ hremok hadds hne
  have hsrcmask : w1.tableMask l.tbl = w.tableMask l.tbl := SameRows.tableMask_eq s1 hI.node.tnode _ hv.1
  have htne : x.tbl ≠ l.tbl := by
    intro heq; apply hmne; rw [← htmask, heq, ← hsrcmask]; rfl
  rw [moveEntity_eq w1 e l x.tbl htlt hv1 htne he1]
  have hsz2 : (dropRow w1 l.tbl l.row).tables.size = w1.tables.size := tables_size_dropRow _ _ _ hv1.1 hv1.2
  have s4 := of_markTarget (pushRow (dropRow w1 l.tbl l.row) x.tbl (movedRow w1 e l x.tbl)
      ((w1.tableOf x.tbl).extend (w1.nodeOf (w1.tableOf x.tbl).node).capInc 1).cap) tgt
  have hsz4 : ((pushRow (dropRow w1 l.tbl l.row) x.tbl (movedRow w1 e l x.tbl)
      ((w1.tableOf x.tbl).extend (w1.nodeOf (w1.tableOf x.tbl).node).capInc 1).cap).markTarget tgt).tables.size = w1.tables.size := by
    unfold markTarget setFlag; split
    · rw [tables_size_pushRow, hsz2]
    · show (pushRow _ _ _ _).tables.size = _; rw [tables_size_pushRow, hsz2]
  have s5 := of_cleanupTable ((pushRow (dropRow w1 l.tbl l.row) x.tbl (movedRow w1 e l x.tbl)
      ((w1.tableOf x.tbl).extend (w1.nodeOf (w1.tableOf x.tbl).node).capInc 1).cap).markTarget tgt) l.tbl (by rw [hsz4]; exact hv1.1)
  rw [SameRows.loc_eq s5, SameRows.loc_eq s4]
  unfold pushRow
  simp only []
  rw [loc_setIndex, if_neg (fun h => hid h.1.symm)]
  show loc (dropRow w1 l.tbl l.row) id = none
  rw [loc_dropRow w1 i1 _ _ hv1]
  have h1none : loc w1 id = none := by rw [SameRows.loc_eq s1]; exact hnone
  split
  · rfl
  · split
    · rename_i hc
      exfalso
      have hlastv : validRow w1 l.tbl ((w1.tableOf l.tbl).rows.size - 1) := ⟨hv1.1, by have := hv1.2; omega⟩
      have := i1.bwd _ _ hlastv
      rw [← hc.2, h1none] at this; cases this
    · exact h1none


/-- one single-entity exchange: all invariants kept; the entity's view becomes an `Xf`-image of
    its old view; every other id reports exactly what it reported before -/
theorem single_views (w : World) (hK : KInv w) (hS : SInv w) (hD : DInv.DInv w) (e : Entity) (add rem : List CompId) (rel : Option CompId) (target : Entity)
    (x : Exchanged) (v : EView) (hv : view w e.id = some v) (hent : v.ent = e)
    (hok : (w.exchangeNoNotify e add rem rel target).out = .ok (some x)) :
    KInv (w.exchangeNoNotify e add rem rel target).w ∧ SInv (w.exchangeNoNotify e add rem rel target).w ∧
    DInv.DInv (w.exchangeNoNotify e add rem rel target).w ∧
    (w.exchangeNoNotify e add rem rel target).w.cfg = w.cfg ∧ (w.exchangeNoNotify e add rem rel target).w.reg = w.reg ∧
    (w.exchangeNoNotify e add rem rel target).w.pool = w.pool ∧
    (∃ v', view (w.exchangeNoNotify e add rem rel target).w e.id = some v' ∧ Xf w.cfg.maskBits w.reg add rem rel target v v') ∧
    (∀ id, id ≠ e.id → view (w.exchangeNoNotify e add rem rel target).w id = view w id) := by
  obtain ⟨t0, row0, ⟨l0, hl0, hlt0, hrow0⟩, hv0⟩ := at_of_view w e.id v hv
  have hlocOf : w.locOf e = l0 := by
    unfold locOf; unfold loc at hl0; rw [hl0]; rfl
  have hl : loc w e.id = some (w.locOf e) := by rw [hlocOf]; exact hl0
  have he : (rowAt w (w.locOf e).tbl (w.locOf e).row).ent = e := by
    rw [hlocOf, hrow0, ← hent, hv0]; rfl
  obtain ⟨i5, hmask', hat', hothers, hold⟩ := C01.exchange_spec w e add rem rel target x (C05.KInv.winv hK) hl he hok
  obtain ⟨k5, ⟨tgt, mask, hm, htg, htarget⟩, hframe⟩ := C05.exchange_kinv w e add rem rel target x hK hl he hok
  have s5 := C07.exchange_sinv w e add rem rel target x hK hS hl he hok
  obtain ⟨d5, c5⟩ := DInv.dinv_exchange w hD hK e add rem rel target x hl hok
  obtain ⟨_, _, _, _, _, _, hw⟩ := C01.exchange_world w e add rem rel target x hok
  have hreg : (w.exchangeNoNotify e add rem rel target).w.reg = w.reg ∧ (w.exchangeNoNotify e add rem rel target).w.pool = w.pool := by
    obtain ⟨tgt', mask', hm', _, _, _, hw'⟩ := C01.exchange_world w e add rem rel target x hok
    have hvr : validRow w (w.locOf e).tbl (w.locOf e).row := (hK.idx.fwd _ _ hl).1
    obtain ⟨hremok, _⟩ := C01.remOK_of_exchangeMask _ _ _ _ hm'
    obtain ⟨s1, _⟩ := findOrCreateTable_spec w hK.node hK.graph (w.locOf e).tbl hvr.1 add rem tgt' hremok
    rw [hw']
    generalize (w.findOrCreateTable (w.locOf e).tbl add rem tgt').1 = w1 at s1
    have hme : (w1.moveEntity e (w.locOf e) x.tbl).reg = w1.reg ∧ (w1.moveEntity e (w.locOf e) x.tbl).pool = w1.pool := by
      unfold moveEntity tableAlloc removeRowFix tableRemove
      simp only []
      split <;> exact ⟨rfl, rfl⟩
    generalize w1.moveEntity e (w.locOf e) x.tbl = w2 at hme
    have hmt : (w2.markTarget tgt').reg = w2.reg ∧ (w2.markTarget tgt').pool = w2.pool := by
      unfold markTarget; split <;> exact ⟨rfl, rfl⟩
    generalize w2.markTarget tgt' = w3 at hmt
    have hsz : w3.tables.size = w3.tables.size := rfl
    have hct : (w3.cleanupTable (w.locOf e).tbl).reg = w3.reg ∧ (w3.cleanupTable (w.locOf e).tbl).pool = w3.pool := by
      unfold cleanupTable removeTable; simp only []
      split
      · exact ⟨rfl, rfl⟩
      · split <;> exact ⟨rfl, rfl⟩
    exact ⟨by rw [hct.1, hmt.1, hme.1, s1.reg], by rw [hct.2, hmt.2, hme.2, s1.pool]⟩
  generalize hw5 : (w.exchangeNoNotify e add rem rel target).w = w5 at *
  have hvr : validRow w (w.locOf e).tbl (w.locOf e).row := (hK.idx.fwd _ _ hl).1
  have hxlt : x.tbl < w5.tables.size := by
    obtain ⟨l', h1, h2, _⟩ := hat'
    have := (i5.fwd _ _ h1).1.1
    rw [h2] at this; exact this
  refine ⟨k5, s5, d5, c5, hreg.1, hreg.2, ?_, ?_⟩
  · refine ⟨_, view_of_at w5 e.id x.tbl _ hat', ?_⟩
    have hvv : v = mkView w (w.locOf e).tbl (rowAt w (w.locOf e).tbl (w.locOf e).row) := by
      rw [hv0, hlocOf, hrow0, hlt0]
    rw [hvv]
    have he' : e = (rowAt w (w.locOf e).tbl (w.locOf e).row).ent := he.symm
    have := xf_of_moved w w5 d5 c5 hreg.1 add rem rel target (w.locOf e).tbl x.tbl hxlt k5.node.tnode
      (rowAt w (w.locOf e).tbl (w.locOf e).row) mask tgt hmask' hm
      (by
        rw [← archTarget_view]
        cases hrel : rel with
        | none => rw [hrel] at htg; exact htg
        | some r =>
          rw [hrel] at htg
          rw [archTarget_eq_exchangeTarget]; exact htg
          intro _
          unfold exchangeTarget at htg
          simp only [] at htg
          split at htg; · cases htg
          split at htg; · cases htg
          split at htg
          · cases htg
          · rename_i hc; exact hc)
      htarget
    rw [← he'] at this
    exact this
  · intro id hid
    cases hlid : loc w id with
    | none =>
      rw [view_none w id hlid]
      cases hl5 : loc w5 id with
      | none => exact view_none w5 id hl5
      | some l5 =>
        exfalso
        have := exchange_loc_none w e add rem rel target x (C05.KInv.winv hK) hl he hok id hid hlid
        rw [hw5, hl5] at this; cases this
    | some l =>
      have ha : At w id l.tbl (rowAt w l.tbl l.row) := ⟨l, hlid, rfl, rfl⟩
      obtain ⟨a, b⟩ := C05.exchange_others w e add rem rel target x hK hl he hok id l.tbl _ hid ha
      rw [hw5] at a b
      have hvl := (hK.idx.fwd id l hlid).1
      obtain ⟨q1, q2⟩ := hold l.tbl hvl.1
      rw [view_of_at w id _ _ ha, view_of_at w5 id _ _ a]
      unfold mkView
      rw [q1, q2, b]


/-! ## the fold of single-entity exchanges -/

/-- the single-entity exchange (`World.Add` / `Remove` / `Exchange` / `Relations.Exchange`) applied
    to the entities of a list, one after the other; `none` if one of the calls panics -/
def singles (add rem : List CompId) (rel : Option CompId) (target : Entity) : List Entity → World → Option World
  | [], w => some w
  | e :: es, w =>
    match (w.exchangeNoNotify e add rem rel target).out with
    | .ok (some _) => singles add rem rel target es (w.exchangeNoNotify e add rem rel target).w
    | _ => none

theorem singles_views (add rem : List CompId) (rel : Option CompId) (target : Entity) :
    ∀ (es : List Entity) (w ws : World), KInv w → SInv w → DInv.DInv w → (es.map (·.id)).Nodup →
      (∀ e ∈ es, ∃ v, view w e.id = some v ∧ v.ent = e) →
      singles add rem rel target es w = some ws →
      KInv ws ∧ SInv ws ∧ DInv.DInv ws ∧ ws.cfg = w.cfg ∧ ws.reg = w.reg ∧ ws.pool = w.pool ∧
      (∀ e ∈ es, ∃ v v', view w e.id = some v ∧ view ws e.id = some v' ∧ Xf w.cfg.maskBits w.reg add rem rel target v v') ∧
      (∀ id, (∀ e ∈ es, e.id ≠ id) → view ws id = view w id) := by
  intro es
  induction es with
  | nil =>
    intro w ws hK hS hD _ _ h
    simp only [singles, Option.some.injEq] at h
    subst h
    refine ⟨hK, hS, hD, rfl, rfl, rfl, ?_, ?_⟩
    · intro e he; cases he
    · intro _ _; rfl
  | cons e es ih =>
    intro w ws hK hS hD hnd hes h
    unfold singles at h
    obtain ⟨v, hv, hent⟩ := hes e List.mem_cons_self
    cases hout : (w.exchangeNoNotify e add rem rel target).out with
    | error p => rw [hout] at h; cases h
    | ok ox =>
      cases ox with
      | none => rw [hout] at h; cases h
      | some x =>
        rw [hout] at h
        simp only [] at h
        obtain ⟨k1, s1, d1, c1, r1, p1, ⟨v', hv', hxf⟩, hoth⟩ := single_views w hK hS hD e add rem rel target x v hv hent hout
        generalize (w.exchangeNoNotify e add rem rel target).w = w1 at *
        simp only [List.map_cons, List.nodup_cons] at hnd
        have hnotin : ∀ e' ∈ es, e'.id ≠ e.id := by
          intro e' he' heq; exact hnd.1 (by rw [← heq]; exact List.mem_map_of_mem he')
        have hes1 : ∀ e' ∈ es, ∃ v, view w1 e'.id = some v ∧ v.ent = e' := by
          intro e' he'
          obtain ⟨v2, a, b⟩ := hes e' (List.mem_cons_of_mem _ he')
          exact ⟨v2, by rw [hoth e'.id (hnotin e' he')]; exact a, b⟩
        obtain ⟨k2, s2, d2, c2, r2, p2, hsel2, hoth2⟩ := ih w1 ws k1 s1 d1 hnd.2 hes1 h
        refine ⟨k2, s2, d2, c2.trans c1, r2.trans r1, p2.trans p1, ?_, ?_⟩
        · intro e' he'
          rcases List.mem_cons.1 he' with rfl | he'
          · refine ⟨v, v', hv, ?_, hxf⟩
            rw [hoth2 e'.id (fun e2 he2 => hnotin e2 he2)]; exact hv'
          · obtain ⟨va, vb, a, b, c⟩ := hsel2 e' he'
            refine ⟨va, vb, by rw [← hoth e'.id (hnotin e' he')]; exact a, b, ?_⟩
            rw [← c1, ← r1]; exact c
        · intro id hid
          rw [hoth2 id (fun e2 he2 => hid e2 (List.mem_cons_of_mem _ he2)), hoth id (fun h => hid e List.mem_cons_self h.symm)]

/-- **batch = fold of singles.** Let a batch exchange succeed on a world satisfying the
    invariants, the exchange being legal for every selected non-empty table. Take any list of
    the selected entities (each once) and apply the single-entity exchange to them one after the
    other. Then, for **every entity id**, the world after the batch call and the world after the
    fold report the same thing: the same handle, component set, component values and relation
    target, or both nothing. The entity pools are equal too (the same handles are alive). -/
theorem batch_eq_singles (w : World) (hK : KInv w) (hS : SInv w) (hD : DInv.DInv w)
    (f : Filter) (add rem : List CompId) (rel : Option CompId) (target : Entity)
    (n : Nat) (bs : Array BatchEntry) (hne : ¬ (add = [] ∧ rem = []))
    (hok : (w.exchangeBatchNoNotify f add rem rel target).out = .ok (n, bs))
    (hlegal : ∀ t, Cache.Sel w (plain w f) t → (w.tableOf t).rows.size ≠ 0 → Legal (w.tableMask t) add rem)
    (es : List Entity) (hnd : (es.map (·.id)).Nodup)
    (hes : ∀ e ∈ es, ∃ v, view w e.id = some v ∧ v.ent = e)
    (hsel : ∀ ts, w.getTables f = some ts → ∀ id, BatchLoop.Sel w (lensOf w ts) id ↔ ∃ e ∈ es, e.id = id)
    (ws : World) (hs : singles add rem rel target es w = some ws) :
    (∀ id, view (w.exchangeBatchNoNotify f add rem rel target).w id = view ws id) ∧
    (w.exchangeBatchNoNotify f add rem rel target).w.pool = ws.pool := by
  obtain ⟨ts, hg, hnodup, hmem, hn, hP⟩ := exchangeBatch_spec w hK hS f add rem rel target n bs hne hok hlegal
  have hL : LensOK w add rem (lensOf w ts) := by
    refine ⟨?_, ?_⟩
    · unfold lensOf; rw [List.map_map]
      have : ((fun x : Nat × Nat => x.1) ∘ fun t => (t, (w.tableOf t).rows.size)) = id := by funext t; rfl
      rw [this, List.map_id]; exact hnodup
    · intro p hp hnz
      unfold lensOf at hp
      rw [List.mem_map] at hp
      obtain ⟨t, ht, rfl⟩ := hp
      have hsl := (hmem t).1 ht
      exact ⟨hsl.1, rfl, hlegal t hsl hnz⟩
  obtain ⟨hbsel, hboth⟩ := loop_views w _ add rem rel target (lensOf w ts) bs.toList hK hD hL hP
  obtain ⟨_, _, _, _, _, hpool, hssel, hsoth⟩ := singles_views add rem rel target es w ws hK hS hD hnd hes hs
  refine ⟨?_, by rw [hP.pool, hpool]⟩
  intro id
  by_cases hsl : BatchLoop.Sel w (lensOf w ts) id
  · obtain ⟨e, he, heid⟩ := (hsel ts hg id).1 hsl
    obtain ⟨v, v1, a1, a2, a3⟩ := hbsel id hsl
    obtain ⟨v0, v2, b1, b2, b3⟩ := hssel e he
    rw [heid] at b1 b2
    rw [a1] at b1; simp only [Option.some.injEq] at b1; subst b1
    rw [a2, b2, Xf_functional _ _ _ _ _ _ _ _ _ a3 b3]
  · rw [hboth id hsl, hsoth id]
    intro e he heid
    exact hsl ((hsel ts hg id).2 ⟨e, he, heid⟩)


/-! ## the canonical list of selected entities -/

/-- the entities in the selected tables when the call is made, table by table, row by row -/
def selEnts (w : World) (ts : List Nat) : List Entity := ts.flatMap (fun t => (w.tableOf t).rows.toList.map (·.ent))

/-- the count a batch call returns is the number of selected entities -/
theorem selEnts_length (w : World) (ts : List Nat) : (selEnts w ts).length = (ts.map (fun t => (w.tableOf t).rows.size)).sum := by
  unfold selEnts
  rw [List.length_flatMap]
  simp

theorem mem_selEnts (w : World) (ts : List Nat) (e : Entity) :
    e ∈ selEnts w ts ↔ ∃ t ∈ ts, ∃ i, i < (w.tableOf t).rows.size ∧ (rowAt w t i).ent = e := by
  unfold selEnts
  rw [List.mem_flatMap]
  constructor
  · rintro ⟨t, ht, he⟩
    rw [List.mem_map] at he
    obtain ⟨row, hrow, rfl⟩ := he
    obtain ⟨i, hi, hget⟩ := List.getElem_of_mem hrow
    simp only [Array.length_toList] at hi
    refine ⟨t, ht, i, hi, ?_⟩
    unfold rowAt
    rw [Array.getD_eq_getD_getElem?, Array.getElem?_eq_getElem hi]
    simp only [Array.getElem_toList] at hget
    rw [← hget]; rfl
  · rintro ⟨t, ht, i, hi, he⟩
    refine ⟨t, ht, ?_⟩
    rw [List.mem_map]
    refine ⟨(w.tableOf t).rows[i], by simp, ?_⟩
    rw [← he]; unfold rowAt
    rw [Array.getD_eq_getD_getElem?, Array.getElem?_eq_getElem hi]; rfl

/-- the canonical list satisfies the premises of `batch_eq_singles` -/
theorem selEnts_ok (w : World) (hK : KInv w) (ts : List Nat) (hts : ∀ t ∈ ts, t < w.tables.size) (hnd : ts.Nodup) :
    ((selEnts w ts).map (·.id)).Nodup ∧
    (∀ e ∈ selEnts w ts, ∃ v, view w e.id = some v ∧ v.ent = e) ∧
    (∀ id, BatchLoop.Sel w (lensOf w ts) id ↔ ∃ e ∈ selEnts w ts, e.id = id) := by
  refine ⟨?_, ?_, ?_⟩
  · unfold selEnts
    rw [List.map_flatMap, List.nodup_iff_pairwise_ne, List.pairwise_flatMap]
    refine ⟨?_, ?_⟩
    · intro t ht
      rw [List.pairwise_iff_getElem]
      intro i j hi hj hij heq
      simp only [List.length_map, Array.length_toList] at hi hj
      simp only [List.getElem_map, Array.getElem_toList] at heq
      have h1 := hK.idx.bwd t i ⟨hts t ht, hi⟩
      have h2 := hK.idx.bwd t j ⟨hts t ht, hj⟩
      have e1 : (rowAt w t i).ent = (w.tableOf t).rows[i].ent := by
        unfold rowAt; rw [Array.getD_eq_getD_getElem?, Array.getElem?_eq_getElem hi]; rfl
      have e2 : (rowAt w t j).ent = (w.tableOf t).rows[j].ent := by
        unfold rowAt; rw [Array.getD_eq_getD_getElem?, Array.getElem?_eq_getElem hj]; rfl
      rw [e1] at h1; rw [e2] at h2
      rw [heq, h2] at h1
      simp only [Option.some.injEq, Loc.mk.injEq, true_and] at h1
      omega
    · rw [List.nodup_iff_pairwise_ne] at hnd
      apply List.Pairwise.imp_of_mem _ hnd
      intro t1 t2 ht1 ht2 hne x hx y hy heq
      rw [List.mem_map] at hx hy
      obtain ⟨e1, he1, rfl⟩ := hx
      obtain ⟨e2, he2, rfl⟩ := hy
      have m1 : e1 ∈ selEnts w [t1] := by unfold selEnts; simpa using he1
      have m2 : e2 ∈ selEnts w [t2] := by unfold selEnts; simpa using he2
      obtain ⟨_, hm1, i, hi, hie⟩ := (mem_selEnts w [t1] e1).1 m1
      obtain ⟨_, hm2, j, hj, hje⟩ := (mem_selEnts w [t2] e2).1 m2
      simp only [List.mem_singleton] at hm1 hm2
      subst hm1; subst hm2
      have h1 := hK.idx.bwd _ i ⟨hts _ ht1, hi⟩
      have h2 := hK.idx.bwd _ j ⟨hts _ ht2, hj⟩
      rw [hie] at h1; rw [hje] at h2
      rw [heq, h2] at h1
      simp only [Option.some.injEq, Loc.mk.injEq] at h1
      exact hne h1.1.symm
  · intro e he
    obtain ⟨t, ht, i, hi, hie⟩ := (mem_selEnts w ts e).1 he
    have h1 := hK.idx.bwd t i ⟨hts t ht, hi⟩
    rw [hie] at h1
    exact ⟨_, view_of_at w e.id t (rowAt w t i) ⟨⟨t, i⟩, h1, rfl, rfl⟩, hie⟩
  · intro id
    constructor
    · rintro ⟨p, hp, hnz, i, hi, hid⟩
      unfold lensOf at hp
      rw [List.mem_map] at hp
      obtain ⟨t, ht, rfl⟩ := hp
      exact ⟨(rowAt w t i).ent, (mem_selEnts w ts _).2 ⟨t, ht, i, hi, rfl⟩, hid⟩
    · rintro ⟨e, he, heid⟩
      obtain ⟨t, ht, i, hi, hie⟩ := (mem_selEnts w ts e).1 he
      refine ⟨(t, (w.tableOf t).rows.size), ?_, ?_, i, hi, by rw [hie]; exact heid⟩
      · unfold lensOf; rw [List.mem_map]; exact ⟨t, ht, rfl⟩
      · simp only []; omega


/-! ## non-vacuity (a test on one concrete world, labelled as such) -/

/-- printable part of a view -/
def obs (w : World) (id : Nat) : Option (Entity × Mask × List (Option Val) × Entity) :=
  (view w id).map (fun v => (v.ent, v.mask, [v.comps 0, v.comps 1, v.comps 2], v.target))

/-- three component types, the first a relation; entities in four tables (plain, with B, two
    relation targets); `Batch.Add(All(B), C)` moves two source tables, `Batch.Remove(All(A), A)`
    merges two relation tables of different targets into one destination. The batch call and the
    fold of single calls over `selEnts` both succeed and report the same for every id. -/
example :
    let w0 := World.init ⟨4, 0, 8⟩
    let w1 := (w0.registerComponent true false).w            -- 0 = A, a relation
    let w2 := (w1.registerComponent false false).w           -- 1 = B
    let w3 := (w2.registerComponent false false).w           -- 2 = C
    let w4 := (w3.newEntity []).w                             -- e1, a target
    let w5 := (w4.newEntity []).w                             -- e2, a target
    let w6 := (w5.newEntityTarget 0 ⟨1, 0⟩ [(0, 0), (1, 7)] true).w   -- e3: A→e1, B=7
    let w7 := (w6.newEntityTarget 0 ⟨2, 0⟩ [(0, 0), (1, 8)] true).w   -- e4: A→e2, B=8
    let w8 := (w7.newEntityWith [(1, 9)]).w                   -- e5: B=9
    let check := fun (f : Filter) (add rem : List CompId) =>
      match (w8.exchangeBatchNoNotify f add rem none Entity.zero).out, w8.getTables f with
      | .ok (n, _), some ts =>
        (match singles add rem none Entity.zero (selEnts w8 ts) w8 with
         | some ws => n == (selEnts w8 ts).length &&
             (List.range 7).all (fun id => obs (w8.exchangeBatchNoNotify f add rem none Entity.zero).w id == obs ws id)
         | none => false)
      | _, _ => false
    check (.all 2) [2] [] = true ∧ check (.all 1) [] [0] = true ∧
    ((w8.exchangeBatchNoNotify (.all 1) [] [0] none Entity.zero).out.toOption.map (·.1)) = some 2 := by
  decide +kernel

end Arche.Props.C08
