/-
  C06 companion — the target flags `World.targetEntities` are a `bitSet` (ecs/bitset.go: Get, Set,
  Reset, ExtendTo over 64-bit words). The regenerated code (ArcheGen/Pool256.lean) behaves as the
  array of Booleans the world model uses (`World.flags`, `flag`, `setFlag`): `bget` reads bit `i`
  of the regenerated structure;
    `get_eq`     — `Get` returns `bget` (and panics beyond the allocated words: `get_oob`)
    `set_get`    — after `Set bit v`, bit `j` reads `if j = bit then v else` what it read before
    `reset_get`  — after `Reset` every bit reads false
    `extend_get` — `ExtendTo n` keeps every bit, new bits read false, and at least `n` bits exist
-/
import ArcheGen.Pool256
import ArcheModel
import ArcheProofs.Lemmas.Bits

namespace Arche.Props.C06_BitSet
open ArcheGen ArcheGen.P256 Arche Arche.Bits

/-- bit `i` of the bit set (false beyond the allocated words) -/
def bget (b : bitSet) (i : Nat) : Bool := (b.data.arr.getD (i / 64) 0#64).getLsbD (i % 64)

theorem div_toNat (bit : BitVec 32) : (bit / 64#32).toNat = bit.toNat / 64 := by
  simp [BitVec.toNat_udiv]

theorem mod_toNat (bit : BitVec 32) : (bit % 64#32).toNat = bit.toNat % 64 := by
  simp [BitVec.toNat_umod]

theorem get_eq (b : bitSet) (bit : BitVec 32) (h : bit.toNat / 64 < b.data.arr.size) :
    bitSet.Get b bit = some (b, bget b bit.toNat) := by
  have hg : b.data.arr[bit.toNat / 64]? = some b.data.arr[bit.toNat / 64] := Array.getElem?_eq_getElem h
  unfold bitSet.Get bget
  simp only [bind, Option.bind, pure, GoSlice.get, div_toNat, mod_toNat, hg]
  rw [and_one_shl_beq _ _ (Nat.mod_lt _ (by decide)), Array.getD_eq_getD_getElem?, hg]
  rfl

theorem get_oob (b : bitSet) (bit : BitVec 32) (h : b.data.arr.size ≤ bit.toNat / 64) : bitSet.Get b bit = none := by
  unfold bitSet.Get
  simp only [bind, Option.bind, GoSlice.get, div_toNat, Array.getElem?_eq_none h]

theorem set_get (b : bitSet) (bit : BitVec 32) (v : Bool) (h : bit.toNat / 64 < b.data.arr.size) :
    ∃ b', bitSet.Set b bit v = some b' ∧ b'.data.arr.size = b.data.arr.size ∧
      ∀ j, bget b' j = if j = bit.toNat then v else bget b j := by
  have hg : b.data.arr[bit.toNat / 64]? = some b.data.arr[bit.toNat / 64] := Array.getElem?_eq_getElem h
  have ho : bit.toNat % 64 < 64 := Nat.mod_lt _ (by decide)
  cases v
  · refine ⟨_, by unfold bitSet.Set; simp only [bind, Option.bind, pure, GoSlice.get, GoSlice.set, div_toNat, mod_toNat, hg, h, if_true, Bool.false_eq_true, if_false]; rfl, by simp, ?_⟩
    intro j
    unfold bget
    simp only []
    by_cases hw : j / 64 = bit.toNat / 64
    · rw [hw, Array.getD_eq_getD_getElem?, Array.getElem?_setIfInBounds_self_of_lt h, Array.getD_eq_getD_getElem?, hg]
      simp only [Option.getD_some]
      rw [getLsbD_and_not_one_shl _ _ _ ho (Nat.mod_lt _ (by decide))]
      by_cases hj : j = bit.toNat
      · subst hj; simp
      · have : ¬ (j % 64 = bit.toNat % 64) := by omega
        simp [hj, this]
    · have hj : j ≠ bit.toNat := fun hc => hw (by rw [hc])
      rw [if_neg hj, Array.getD_eq_getD_getElem?, Array.getElem?_setIfInBounds_ne (fun hc => hw hc.symm), ← Array.getD_eq_getD_getElem?]
  · refine ⟨_, by unfold bitSet.Set; simp only [bind, Option.bind, pure, GoSlice.get, GoSlice.set, div_toNat, mod_toNat, hg, h, if_true]; rfl, by simp, ?_⟩
    intro j
    unfold bget
    simp only []
    by_cases hw : j / 64 = bit.toNat / 64
    · rw [hw, Array.getD_eq_getD_getElem?, Array.getElem?_setIfInBounds_self_of_lt h, Array.getD_eq_getD_getElem?, hg]
      simp only [Option.getD_some]
      rw [getLsbD_or_one_shl _ _ _ ho]
      by_cases hj : j = bit.toNat
      · subst hj; simp
      · have : ¬ (j % 64 = bit.toNat % 64) := by omega
        simp [hj, this]
    · have hj : j ≠ bit.toNat := fun hc => hw (by rw [hc])
      rw [if_neg hj, Array.getD_eq_getD_getElem?, Array.getElem?_setIfInBounds_ne (fun hc => hw hc.symm), ← Array.getD_eq_getD_getElem?]

theorem reset_get (b : bitSet) : ∃ b', bitSet.Reset b = some b' ∧ b'.data.arr.size = b.data.arr.size ∧ ∀ j, bget b' j = false := by
  refine ⟨_, rfl, by simp [GoSlice.fill], ?_⟩
  intro j
  unfold bget
  simp only [GoSlice.fill]
  rw [Array.getD_eq_getD_getElem?]
  by_cases h : j / 64 < b.data.arr.size
  · rw [Array.getElem?_eq_getElem (by simpa using h)]
    simp
  · rw [Array.getElem?_eq_none (by simpa using h)]
    simp

theorem copy_getD {α : Type} (dst src : GoSlice α) (i : Nat) (d : α) :
    (GoSlice.copy dst src).arr.getD i d =
      if i < dst.arr.size then (if i < src.arr.size then src.arr.getD i d else dst.arr.getD i d) else d := by
  unfold GoSlice.copy
  simp only []
  rw [Array.getD_eq_getD_getElem?]
  by_cases h : i < dst.arr.size
  · rw [if_pos h, Array.getElem?_eq_getElem (by simpa using h)]
    simp only [Array.getElem_ofFn, Option.getD_some]
    by_cases h2 : i < src.arr.size
    · rw [dif_pos h2, if_pos h2, Array.getD_eq_getD_getElem?, Array.getElem?_eq_getElem h2]; rfl
    · rw [dif_neg h2, if_neg h2, Array.getD_eq_getD_getElem?, Array.getElem?_eq_getElem h]; rfl
  · rw [if_neg h, Array.getElem?_eq_none (by simpa using h)]; rfl

/-- the grown buffer: `make` + `copy` keep every word and add zero words -/
theorem grow_spec (b : bitSet) (c : Int) (hc : ((b.data.arr.size : Nat) : Int) < c) :
    ∃ s, GoSlice.make (α := BitVec 64) c c = some s ∧ s.arr.size = c.toNat ∧
      ∀ i, (GoSlice.copy s b.data).arr.getD i 0#64 = b.data.arr.getD i 0#64 := by
  have h0 : 0 ≤ c := by omega
  refine ⟨⟨Array.replicate c.toNat default, c.toNat⟩, by unfold GoSlice.make; rw [if_pos ⟨h0, Int.le_refl _⟩], by simp, ?_⟩
  intro i
  rw [copy_getD]
  simp only [Array.size_replicate]
  by_cases h1 : i < c.toNat
  · rw [if_pos h1]
    by_cases h2 : i < b.data.arr.size
    · rw [if_pos h2]
    · rw [if_neg h2, Array.getD_eq_getD_getElem?, Array.getElem?_eq_getElem (by simpa using h1),
        Array.getD_eq_getD_getElem?, Array.getElem?_eq_none (by omega)]
      simp
      rfl
  · rw [if_neg h1, Array.getD_eq_getD_getElem?, Array.getElem?_eq_none (by omega)]
    rfl

/-- `ExtendTo n`: every bit reads as before (bits that did not exist read false), and at least
    `n` bits exist afterwards -/
theorem extend_get (b : bitSet) (n : Int) (hn : 0 ≤ n) :
    ∃ b', bitSet.ExtendTo b n = some b' ∧ b.data.arr.size ≤ b'.data.arr.size ∧ n ≤ 64 * (b'.data.arr.size : Int) ∧
      ∀ j, bget b' j = bget b j := by
  have hd : 0 ≤ Int.tdiv n 64 := Int.tdiv_nonneg hn (by decide)
  have hm : 0 ≤ Int.tmod n 64 := Int.tmod_nonneg _ hn
  have hm2 : Int.tmod n 64 < 64 := Int.tmod_lt_of_pos _ (by decide)
  have hsum : n = 64 * Int.tdiv n 64 + Int.tmod n 64 := (Int.mul_tdiv_add_tmod n 64).symm
  unfold bitSet.ExtendTo
  simp only [bind, Option.bind, pure, GoSlice.size]
  by_cases hbit : (0 : Int) < Int.tmod n 64
  · simp only [hbit, decide_true, if_true]
    by_cases hfit : Int.tdiv n 64 + 1 ≤ ((b.data.arr.size : Nat) : Int)
    · simp only [hfit, decide_true, if_true]
      exact ⟨b, rfl, Nat.le_refl _, by omega, fun _ => rfl⟩
    · simp only [hfit, decide_false, Bool.false_eq_true, if_false]
      obtain ⟨s, hs, hsz, hcp⟩ := grow_spec b (Int.tdiv n 64 + 1) (by omega)
      rw [hs]
      refine ⟨_, rfl, ?_, ?_, ?_⟩
      · simp [GoSlice.copy, hsz]; omega
      · simp [GoSlice.copy, hsz]; omega
      · intro j; unfold bget; exact congrArg (fun w => w.getLsbD (j % 64)) (hcp (j / 64))
  · simp only [hbit, decide_false, Bool.false_eq_true, if_false]
    by_cases hfit : Int.tdiv n 64 ≤ ((b.data.arr.size : Nat) : Int)
    · simp only [hfit, decide_true, if_true]
      exact ⟨b, rfl, Nat.le_refl _, by omega, fun _ => rfl⟩
    · simp only [hfit, decide_false, Bool.false_eq_true, if_false]
      obtain ⟨s, hs, hsz, hcp⟩ := grow_spec b (Int.tdiv n 64) (by omega)
      rw [hs]
      refine ⟨_, rfl, ?_, ?_, ?_⟩
      · simp [GoSlice.copy, hsz]; omega
      · simp [GoSlice.copy, hsz]; omega
      · intro j; unfold bget; exact congrArg (fun w => w.getLsbD (j % 64)) (hcp (j / 64))

/-- the view the world model uses: the first `n` flags as an array of Booleans -/
def view (b : bitSet) (n : Nat) : Array Bool := Array.ofFn (n := n) (fun i => bget b i.val)

/-- `Set` is `setIfInBounds` on the view (`World.setFlag`) -/
theorem set_view (b : bitSet) (bit : BitVec 32) (v : Bool) (h : bit.toNat / 64 < b.data.arr.size) (n : Nat) :
    ∃ b', bitSet.Set b bit v = some b' ∧ view b' n = (view b n).setIfInBounds bit.toNat v := by
  obtain ⟨b', h1, _, h3⟩ := set_get b bit v h
  refine ⟨b', h1, ?_⟩
  apply Array.ext
  · simp [view]
  · intro i hi1 hi2
    rw [Array.getElem_setIfInBounds]
    simp only [view, Array.getElem_ofFn, h3]
    by_cases hib : i = bit.toNat
    · rw [if_pos hib, if_pos hib.symm]
    · rw [if_neg hib, if_neg (fun hc => hib hc.symm)]
    · simpa [view] using hi2

end Arche.Props.C06_BitSet
