/-
  Reachable worlds. The per-operation theorems of C01, C03, C05–C08 and C15 are stated for worlds
  that satisfy the structural invariants. This module closes the loop: **every world reachable
  from `World.init` by the operations below satisfies all of them** (`reach_ginv`), together with
  the ghost history of the entity pool (handles issued / live since the last reset), so those
  theorems apply to every reachable world unconditionally.

  `GInv w issued live` bundles: node lists, graph links, index ↔ rows bijection, table / target
  invariant (`KInv`); coverage and filter-cache invariant (`SInv`); node attributes determined
  by the mask (`DInv`), masks hold registered ids only (`BInv`); the root table (`RootInv`); and the
  pool ↔ storage link (`LInv`): the handles the pool considers live are exactly the handles
  stored in table rows.

  Operations covered by `Reach` (successful calls; a failing call of these leaves the world
  unchanged except for graph nodes created before the failing check, which `walk` covers):
  component registration, `NewEntity`, `RemoveEntity`, `Add` / `Remove` / `Exchange` /
  `Relations.Exchange`, their batch forms (`Batch.Add/Remove/Exchange`, `Relations.ExchangeBatch`),
  query lock / unlock, `Cache.Register` / `Unregister`, `Reset`.
  Also: `NewEntityWith`, `Builder.New` with a target, batch creation, `Assign`, value writes
  (`Set`, pointer writes), resources and listeners.
  `Relations.Set`, `Batch.SetRelation` / `Relations.SetBatch`.
  `Batch.RemoveEntities` and `LoadEntities` — i.e. every state-changing operation of the model's
  API (`DumpEntities` and the read accessors change only the lock state or nothing).
-/
import ArcheProofs.Lemmas.GOps2
import ArcheProofs.Lemmas.SetRel
import ArcheProofs.Props.C08_SetRel
import ArcheProofs.Props.C08_Remove
import ArcheProofs.Lemmas.Load

namespace Arche.Props.C01.Reach
open Arche Arche.World Arche.Arr Arche.Storage Arche.IndexInv Arche.SameRows Arche.Graph Arche.Closed Arche.TInv Arche.KInv Arche.Move Arche.Remove Arche.Cov Arche.Cache Arche.SInv Arche.DInv Arche.Create Arche.Frames Arche.BatchOps Arche.GInv Arche.GOps Arche.GVals Arche.GOps2 Arche.SetRel Arche.BatchLoop
open Arche.Props.C08 (plain)

/-! ## the initial world -/

theorem sinv_of_empty (w0 : World) (hn0 : w0.nodes = #[]) (ht0 : w0.tables = #[]) (hc0 : w0.cache = #[]) :
    SInv ((w0.createNode 0 none).1.createTable (w0.createNode 0 none).2 Entity.zero false).1 := by
  have n0 : NodeInv w0 := by
    refine ⟨?_, ?_, ?_, ?_⟩
    · intro t ht; rw [ht0] at ht; simp at ht
    all_goals (intro n hn; rw [hn0] at hn; simp at hn)
  have t0 : TInv w0 := by
    refine ⟨?_, ?_, ?_, ?_, ?_, ?_⟩
    all_goals (intro a ha; first | (rw [hn0] at ha; simp at ha) | (rw [ht0] at ha; simp at ha))
  have n1 := nodeInv_createNode w0 n0 0 none
  have t1 : TInv (w0.createNode 0 none).1 := tinv_graphOnly (graphOnly_closed.node w0 0 none) n0.tnode t0
  have hsz : (w0.createNode 0 none).2 < (w0.createNode 0 none).1.nodes.size := by unfold createNode; simp
  have hnd : (w0.createNode 0 none).1.nodeOf (w0.createNode 0 none).2 =
      { mask := 0, ids := Mask.toList 0 w0.cfg.maskBits, rel := none, active := false, capInc := w0.cfg.capInc, tables := #[], free := [], nbrs := [], tmap := [] } := by
    unfold createNode nodeOf; simp only []; rw [getD_push]; simp
  have hts1 : (w0.createNode 0 none).1.tables = #[] := ht0
  have hns1 : (w0.createNode 0 none).1.nodes.size = 1 := by unfold createNode; simp [hn0]
  have c1 : CovInv (w0.createNode 0 none).1 := by
    refine ⟨?_, ?_, ?_, ?_⟩
    · intro t ht; rw [hts1] at ht; simp at ht
    · intro n hn _
      have : n = (w0.createNode 0 none).2 := by
        rw [hns1] at hn; unfold createNode; simp [hn0]; omega
      rw [this, hnd]
    · intro n hn _
      have : n = (w0.createNode 0 none).2 := by
        rw [hns1] at hn; unfold createNode; simp [hn0]; omega
      rw [this, hnd]; simp
    · intro n hn hact
      have : n = (w0.createNode 0 none).2 := by
        rw [hns1] at hn; unfold createNode; simp [hn0]; omega
      rw [this, hnd] at hact; simp at hact
  have ci1 : CInv (w0.createNode 0 none).1 := by
    have hc : (w0.createNode 0 none).1.cache = #[] := hc0
    refine ⟨?_, ?_, ?_⟩
    · intro e he; rw [hc] at he; simp at he
    · intro e he; rw [hc] at he; simp at he
    · intro i j a b ha; rw [hc] at ha; simp at ha
  exact sinv_createTable _ ⟨n1, t1, c1, ci1⟩ _ hsz Entity.zero false (fun h => by rw [hnd] at h; cases h) (fun _ => by rw [hnd]; rfl)

theorem ginv_init (cfg : Config) : GInv (World.init cfg) [] [] := by
  have hk := Arche.Props.C05.kinv_init cfg
  have hs : SInv (World.init cfg) := by unfold World.init; exact sinv_of_empty _ rfl rfl rfl
  -- the single node and table
  have hdecomp : ∃ w1 : World, w1.nodes = #[] ∧ w1.tables = #[] ∧ w1.index = #[none] ∧ w1.flags = #[false] ∧ w1.pool = Pool.init ∧
      w1.reg.count = 0 ∧ World.init cfg = ((w1.createNode 0 none).1.createTable (w1.createNode 0 none).2 Entity.zero false).1 := by
    unfold World.init
    exact ⟨_, rfl, rfl, rfl, rfl, rfl, rfl, rfl⟩
  obtain ⟨w1, hn1, ht1, hi1, hf1, hp1, hr1, hw⟩ := hdecomp
  have d0 : DInv w1 := ⟨fun n hn => by rw [hn1] at hn; simp at hn, fun n hn => by rw [hn1] at hn; simp at hn⟩
  have b0 : BInv w1 := fun n hn => by rw [hn1] at hn; simp at hn
  have d1 : DInv (w1.createNode 0 none).1 := dinv_createNode w1 d0 0 none (by
    intro c; constructor
    · intro h; cases h
    · rintro ⟨h, _⟩; simp [Mask.get] at h)
  have b1 : BInv (w1.createNode 0 none).1 := binv_createNode w1 b0 0 none (by intro c h; simp [Mask.get] at h)
  have ds := dsame_createTable (w1.createNode 0 none).1 (w1.createNode 0 none).2 Entity.zero false
  have ms := misc_createTable (w1.createNode 0 none).1 (w1.createNode 0 none).2 Entity.zero false
  rw [← hw] at ds ms
  have hloc : ∀ id, loc (World.init cfg) id = none := by
    intro id
    unfold loc; rw [ms.index]
    show w1.index.getD id none = none
    rw [hi1, Array.getD_eq_getD_getElem?]
    cases id with
    | zero => simp
    | succ k => simp
  have hroot : RootInv (World.init cfg) := by
    have hsz : 0 < (World.init cfg).tables.size := by
      rw [hw]; unfold createTable createNode cacheAdd setNode nodeOf
      simp [hn1, ht1]
    refine ⟨hsz, ?_⟩
    -- the only node has the empty mask
    have hnode := hk.node.tnode 0 hsz
    have hns : (World.init cfg).nodes.size = 1 := by
      rw [ds.size]; unfold createNode; simp [hn1]
    have h0 : (World.init cfg).nodeOf ((World.init cfg).tableOf 0).node = (World.init cfg).nodeOf 0 := by
      have : ((World.init cfg).tableOf 0).node = 0 := by omega
      rw [this]
    unfold tableMask nodeOfTable
    rw [h0, (ds.core 0).2.1]
    unfold createNode nodeOf; simp [hn1]
  refine ⟨hk, hs, ds.dinv d1, binv_of_dsame ds b1, hroot, [], ?_⟩
  refine ⟨by rw [ms.pool]; show PoolInv.Inv w1.pool [] [] []; rw [hp1]; exact PoolInv.inv_init, ?_, ?_, ?_⟩
  · rw [ms.index, ms.pool]; show w1.index.size = w1.pool.ents.size; rw [hi1, hp1]; rfl
  · rw [ms.flags, ms.index]; show w1.flags.size = w1.index.size; rw [hf1, hi1]; rfl
  · intro e
    constructor
    · intro h; cases h
    · rintro ⟨l, h1, _⟩; rw [hloc] at h1; cases h1

/-! ## reachable worlds -/

/-- worlds reachable from a fresh world, with the handles issued and live since the last reset -/
inductive Reach : World → List Entity → List Entity → Prop
  | init (cfg : Config) : Reach (World.init cfg) [] []
  /-- `ComponentID` of a new type (a failing call returns the world unchanged) -/
  | register {w is lv} (h : Reach w is lv) (isRel zs : Bool) : Reach (w.registerComponent isRel zs).w is lv
  /-- the graph walk and table lookup of any structural call, whatever its outcome -/
  | walk {w is lv} (h : Reach w is lv) (start : Nat) (hs : start < w.tables.size) (add rem : List CompId) (target : Entity)
      (hrem : RemOK (w.tableMask start) rem) (hadd : ∀ id ∈ add, id < w.reg.count) :
      Reach (w.findOrCreateTable start add rem target).1 is lv
  /-- `World.NewEntity(comps...)` -/
  | newEntity {w is lv} (h : Reach w is lv) (comps : List CompId) (hreg : ∀ id ∈ comps, id < w.reg.count) (e : Entity)
      (hok : (w.newEntity comps).out = .ok e) : Reach (w.newEntity comps).w (e :: is) (e :: lv)
  /-- `World.RemoveEntity(e)` -/
  | removeEntity {w is lv} (h : Reach w is lv) (e : Entity) (hi : e ∈ is) (hl : w.isLocked = false) (ha : w.checkAlive e = none) :
      Reach (w.removeEntity e).w is (lv.erase e)
  /-- `World.Add` / `Remove` / `Exchange` / `Relations.Exchange` -/
  | exchange {w is lv} (h : Reach w is lv) (e : Entity) (hi : e ∈ is) (add rem : List CompId) (rel : Option CompId) (target : Entity)
      (hadd : ∀ id ∈ add, id < w.reg.count) (x : Exchanged) (hok : (w.exchangeNoNotify e add rem rel target).out = .ok (some x)) :
      Reach (w.exchangeNoNotify e add rem rel target).w is lv
  /-- `Batch.Add` / `Remove` / `Exchange` / `Relations.ExchangeBatch` (Q variants: followed by `lock`) -/
  | exchangeBatch {w is lv} (h : Reach w is lv) (f : Filter) (add rem : List CompId) (rel : Option CompId) (target : Entity)
      (hadd : ∀ id ∈ add, id < w.reg.count) (n : Nat) (bs : Array BatchEntry) (hne : ¬ (add = [] ∧ rem = []))
      (hok : (w.exchangeBatchNoNotify f add rem rel target).out = .ok (n, bs))
      (hlegal : ∀ t, Cache.Sel w (plain w f) t → (w.tableOf t).rows.size ≠ 0 → Legal (w.tableMask t) add rem) :
      Reach (w.exchangeBatchNoNotify f add rem rel target).w is lv
  /-- opening a query (`World.Query`, the Q variants, removal notification) -/
  | lock {w is lv} (h : Reach w is lv) (w' : World) (b : Nat) (hk : w.lock = some (w', b)) : Reach w' is lv
  /-- closing / exhausting a query -/
  | unlock {w is lv} (h : Reach w is lv) (w' : World) (b : Nat) (hk : w.unlock b = some w') : Reach w' is lv
  | cacheRegister {w is lv} (h : Reach w is lv) (f : Filter) (hf : ∀ g id, f ≠ .cached g id) : Reach (w.cacheRegister f).w is lv
  | cacheUnregister {w is lv} (h : Reach w is lv) (id : Nat) (e : CacheEntry) (hfind : w.cacheFind id = some e) :
      Reach (w.cacheUnregister id).w is lv
  | reset {w is lv} (h : Reach w is lv) (hl : w.isLocked = false) : Reach (w.reset).w [] []
  /-- `World.NewEntityWith(comps...)` -/
  | newEntityWith {w is lv} (h : Reach w is lv) (comps : List (CompId × Val)) (hreg : ∀ id ∈ comps.map (·.1), id < w.reg.count)
      (e : Entity) (hok : (w.newEntityWith comps).out = .ok e) : Reach (w.newEntityWith comps).w (e :: is) (e :: lv)
  /-- `Builder.New(target)` with or without values -/
  | newEntityTarget {w is lv} (h : Reach w is lv) (targetID : CompId) (target : Entity) (comps : List (CompId × Val)) (withVals : Bool)
      (hreg : ∀ id ∈ comps.map (·.1), id < w.reg.count) (e : Entity)
      (hok : (w.newEntityTarget targetID target comps withVals).out = .ok e) :
      Reach (w.newEntityTarget targetID target comps withVals).w (e :: is) (e :: lv)
  /-- `Builder.NewBatch` (and `NewBatchQ`, followed by `lock`) -/
  | newEntities {w is lv} (h : Reach w is lv) (count : Int) (rel : Option CompId) (target : Entity) (comps : List (CompId × Val))
      (withVals : Bool) (hreg : ∀ id ∈ comps.map (·.1), id < w.reg.count) (c : Created)
      (hok : (w.newEntitiesNoNotify count rel target comps withVals).out = .ok c) :
      Reach (w.newEntitiesNoNotify count rel target comps withVals).w (c.ents.reverse ++ is) (c.ents.reverse ++ lv)
  /-- `World.Assign` / `Builder.Add` with values -/
  | assign {w is lv} (h : Reach w is lv) (e : Entity) (hi : e ∈ is) (rel : Option CompId) (target : Entity) (comps : List (CompId × Val))
      (hreg : ∀ id ∈ comps.map (·.1), id < w.reg.count) (hok : (w.assign e rel target comps).out = .ok ()) :
      Reach (w.assign e rel target comps).w is lv
  /-- `Relations.Set` -/
  | setRelation {w is lv} (h : Reach w is lv) (e : Entity) (hi : e ∈ is) (comp : CompId) (target : Entity)
      (hok : (w.setRelation e comp target).out = .ok ()) : Reach (w.setRelation e comp target).w is lv
  /-- `Batch.SetRelation` / `Relations.SetBatch` (Q variants: followed by `lock`) -/
  | setRelationBatch {w is lv} (h : Reach w is lv) (f : Filter) (comp : CompId) (target : Entity) (n : Nat) (bs : Array BatchEntry)
      (hok : (w.setRelationBatchNoNotify f comp target).out = .ok (n, bs)) : Reach (w.setRelationBatchNoNotify f comp target).w is lv
  /-- `Batch.RemoveEntities` -/
  | removeEntities {w is lv} (h : Reach w is lv) (f : Filter) (n : Nat) (ts : List Nat) (hg : w.getTables f = some ts)
      (hok : (w.removeEntities f).out = .ok n) :
      Reach (w.removeEntities f).w is ((BatchRemove.selEnts w ts).foldl List.erase lv)
  /-- `World.LoadEntities` of a dump taken from any reachable world, into a world whose pool was
      never used since creation / reset; the ghost history becomes the source's -/
  | load {w is lv src is' lv'} (h : Reach w is lv) (hs : Reach src is' lv') (hr : Arche.Props.C17.Receptive w) (d : Dump)
      (hd : src.dump.out = .ok d) : Reach (w.load d).w is' lv'
  /-- `World.Set`, a write through the `Get` pointer or through `Query.Get` -/
  | write {w is lv} (h : Reach w is lv) (t r : Nat) (id : CompId) (v : Val) : Reach (w.setCell t r id v) is lv
  /-- resources and listeners: fields the invariants do not read -/
  | other {w is lv} (h : Reach w is lv) (res : Array (Option Nat)) (rc : Nat) (l : Option Listener) :
      Reach ({ w with resources := res, resCount := rc, listener := l } : World) is lv

/-- **every reachable world satisfies every invariant** -/
theorem reach_ginv {w : World} {is lv : List Entity} (h : Reach w is lv) : GInv w is lv := by
  induction h with
  | init cfg => exact ginv_init cfg
  | @register w0 is0 lv0 h isRel zs ih =>
    cases hout : (w0.registerComponent isRel zs).out with
    | ok id => exact (ginv_registerComponent _ _ _ ih isRel zs id hout).1
    | error p =>
      have : (w0.registerComponent isRel zs).w = w0 := by
        unfold registerComponent at hout ⊢
        split
        · rfl
        · split
          · rfl
          · rename_i h1 h2; simp [h1, h2] at hout
      rw [this]; exact ih
  | walk h start hs add rem target hrem hadd ih => exact (ginv_findOrCreateTable _ _ _ ih start hs add rem target hrem hadd).1
  | newEntity h comps hreg e hok ih => exact ginv_newEntity _ _ _ ih comps hreg e hok
  | removeEntity h e hi hl ha ih => exact (ginv_removeEntity _ _ _ ih e hi hl ha).2
  | exchange h e hi add rem rel target hadd x hok ih => exact ginv_exchange _ _ _ ih e hi add rem rel target hadd x hok
  | exchangeBatch h f add rem rel target hadd n bs hne hok hlegal ih =>
    exact ginv_exchangeBatch _ _ _ ih f add rem rel target hadd n bs hne hok hlegal
  | lock h w' b hk ih => exact ginv_lock _ _ _ ih w' b hk
  | unlock h w' b hk ih => exact ginv_unlock _ _ _ ih w' b hk
  | cacheRegister h f hf ih => exact ginv_cacheRegister _ _ _ ih f hf
  | cacheUnregister h id e hfind ih => exact ginv_cacheUnregister _ _ _ ih id e hfind
  | reset h hl ih => exact (ginv_reset _ _ _ ih hl).2
  | newEntityWith h comps hreg e hok ih => exact ginv_newEntityWith _ _ _ ih comps hreg e hok
  | newEntityTarget h targetID target comps withVals hreg e hok ih => exact ginv_newEntityTarget _ _ _ ih targetID target comps withVals hreg e hok
  | newEntities h count rel target comps withVals hreg c hok ih => exact (ginv_newEntities _ _ _ ih count rel target comps withVals hreg c hok).1
  | assign h e hi rel target comps hreg hok ih => exact ginv_assign _ _ _ ih e hi rel target comps hreg hok
  | setRelation h e hi comp target hok ih => exact ginv_setRelation _ _ _ ih e hi comp target hok
  | setRelationBatch h f comp target n bs hok ih => exact Arche.Props.C08.SetRel.ginv_setRelationBatch _ _ _ ih f comp target n bs hok
  | removeEntities h f n ts hg hok ih =>
    obtain ⟨ts', hg', G', _⟩ := BatchRemove.ginv_removeEntities _ _ _ ih f n hok
    rw [hg] at hg'; simp only [Option.some.injEq] at hg'
    rw [hg']; exact G'
  | load h hs hr d hd ih ihs => exact (Arche.Load.ginv_load _ _ _ ih hr d _ _ (Arche.Load.dump_wf _ _ _ ihs d hd)).2
  | write h t r id v ih => exact ginv_setCell _ _ _ ih t r id v
  | @other w0 _ _ h res rc l ih => exact ginv_congr (w := w0) rfl rfl rfl rfl rfl rfl rfl rfl rfl ih

/-! ## consequences for every reachable world -/

/-- C02 at world level: a handle the world issued and still reports alive is stored in exactly
    one row, and that row holds this very handle -/
theorem reach_alive_stored {w : World} {is lv : List Entity} (h : Reach w is lv) (e : Entity) (hi : e ∈ is) (ha : w.checkAlive e = none) :
    e ∈ lv ∧ loc w e.id = some (w.locOf e) ∧ (rowAt w (w.locOf e).tbl (w.locOf e).row).ent = e :=
  alive_issued w is lv (reach_ginv h) e hi ha

/-- C02: creation issues a handle that was not issued since the last reset and is not the zero
    entity; C06: removal of an issued, alive handle of an unlocked reachable world never fails -/
theorem reach_new_fresh {w : World} {is lv : List Entity} (h : Reach w is lv) (comps : List CompId) (hreg : ∀ id ∈ comps, id < w.reg.count)
    (e : Entity) (hok : (w.newEntity comps).out = .ok e) : e ∉ is ∧ e ≠ Entity.zero := by
  have G' := ginv_newEntity w is lv (reach_ginv h) comps hreg e hok
  obtain ⟨free, hL⟩ := G'.link
  refine ⟨?_, ?_⟩
  · obtain ⟨free0, hL0⟩ := (reach_ginv h).link
    rw [newEntity_handle w is lv (reach_ginv h) comps hreg e hok]
    exact (PoolInv.get_inv w.pool is lv free0 hL0.pool).choose_spec.2.1
  · intro heq
    have := (hL.pool.issued_gen e List.mem_cons_self).1
    rw [heq] at this; simp [Entity.zero] at this

theorem reach_remove_total {w : World} {is lv : List Entity} (h : Reach w is lv) (e : Entity) (hi : e ∈ is) (hl : w.isLocked = false)
    (ha : w.checkAlive e = none) : (w.removeEntity e).out = .ok () :=
  (ginv_removeEntity w is lv (reach_ginv h) e hi hl ha).1



instance exceptDecEq {ε α : Type} [DecidableEq ε] [DecidableEq α] : DecidableEq (Except ε α) := fun a b =>
  match a, b with
  | .ok x, .ok y => if h : x = y then isTrue (by rw [h]) else isFalse (by intro h'; cases h'; exact h rfl)
  | .error x, .error y => if h : x = y then isTrue (by rw [h]) else isFalse (by intro h'; cases h'; exact h rfl)
  | .ok _, .error _ => isFalse (by intro h; cases h)
  | .error _, .ok _ => isFalse (by intro h; cases h)

deriving instance DecidableEq for Exchanged

/-- non-vacuity: a concrete history inside the closure — register a relation type and a plain
    type, create two entities, exchange one, remove the other, reset -/
example : ∃ w is lv, Reach w is lv ∧ is = [] ∧ w.reg.count = 2 := by
  let w0 := World.init ⟨4, 0, 8⟩
  have r0 : Reach w0 [] [] := Reach.init _
  have r1 := Reach.register r0 true false
  have r2 := Reach.register r1 false false
  have r3 := Reach.newEntity r2 [1] (by decide +kernel) ⟨1, 0⟩ (by decide +kernel)
  have r4 := Reach.newEntity r3 [] (by decide +kernel) ⟨2, 0⟩ (by decide +kernel)
  have r5 := Reach.exchange r4 ⟨1, 0⟩ (by decide +kernel) [0] [1] (some 0) ⟨2, 0⟩ (by decide +kernel)
    ⟨2, 2, Entity.zero, none⟩ (by decide +kernel)
  have r6 := Reach.removeEntity r5 ⟨2, 0⟩ (by decide +kernel) (by decide +kernel) (by decide +kernel)
  have r7 := Reach.reset r6 (by decide +kernel)
  exact ⟨_, _, _, r7, rfl, by decide +kernel⟩

end Arche.Props.C01.Reach
