/-
  C01 / C10 companion — `World.exchangeNoNotify` (the state-changing core of `World.Add`, `Remove`, `Exchange`,
  `Assign`, `Relations.Exchange` and the generic `Map*.Add/Remove/Assign`) and `World.getExchangeMask`
  (ecs/world_internal.go), REGENERATED on every run on a view of the `World` struct. Tables and graph nodes are a
  hidden state; the graph walk `findOrCreateArchetype` is kept as one state-threading parameter of the world itself
  (`findOrCreateF`), constrained only by the frame hypothesis `FindFrame` (it does not touch pool, index, flags,
  locks or registry).

  * `getExchangeMask_ok_iff`: the exact panic condition of an exchange — it succeeds iff the removed components are
    pairwise different and all present, and the added ones pairwise different and all absent after the removal — and
    `getExchangeMask_mem`: the resulting mask is `(mask \ rem) ∪ add`, the world is untouched;
  * `exchange_locked`, `exchange_dead`, `exchange_noop` (nothing to add or remove: nothing changes; with a relation
    specified: panic);
  * `exchange_effect`: whenever the call succeeds with something to do, the mask check passed (`getExchangeMask`), the pool is untouched, the entity is indexed
    under the table `findOrCreateArchetype` returned with the row `Alloc` returned, the entity swapped into its old row
    — and only that one — takes that row, the flag of the resulting target is set (if it is not the zero entity) and no
    other flag changes; the old table is retired only through `cleanupArchetype`.
-/
import ArcheProofs.Props.C05_SetRelGen
import ArcheProofs.Props.C04

namespace Arche.Props.C01_ExchangeGen
open ArcheGen ArcheGen.P256 Arche Arche.Props

/-! ### a counting loop over a slice is a fold over its elements -/

theorem foldlM_range'_get {α σ : Type} (f : σ → α → Option σ) (l pre : List α) (s : σ) :
    List.foldlM (m := Option) (fun s k => ((pre ++ l)[k]?).bind (f s)) s (List.range' pre.length l.length) = l.foldlM f s := by
  induction l generalizing pre s with
  | nil => rfl
  | cons x l ih =>
    simp only [List.length_cons, List.range'_succ, List.foldlM_cons]
    have hx : (pre ++ x :: l)[pre.length]? = some x := by simp
    rw [hx]
    simp only [Option.bind_some, Option.bind_eq_bind]
    cases hf : f s x with
    | none => simp
    | some s1 =>
      simp only [Option.bind_some]
      have := ih (pre ++ [x]) s1
      simp only [List.length_append, List.length_cons, List.length_nil, List.append_assoc, List.cons_append, List.nil_append] at this
      exact this

theorem foldlM_range_get {α σ : Type} (a : GoSlice α) (f : σ → α → Option σ) (s : σ) :
    List.foldlM (m := Option) (fun s k => (GoSlice.get a k).bind (f s)) s (List.range a.arr.size) = a.arr.toList.foldlM f s := by
  have := foldlM_range'_get f a.arr.toList [] s
  simp only [List.length_nil, List.nil_append, Array.length_toList] at this
  rw [List.range_eq_range']
  simpa [GoSlice.get] using this

/-! ### `getExchangeMask` -/

def remStep (m : M256.Mask) (c : BitVec 8) : Option M256.Mask := if !(M256.Mask.Get m c) then none else some (M256.Mask.Set m c false)
def addStep (m : M256.Mask) (c : BitVec 8) : Option M256.Mask := if M256.Mask.Get m c then none else some (M256.Mask.Set m c true)

theorem foldlM_pair {σ α W : Type} (step : σ → α → Option σ) (w : W) (l : List α) (m : σ) :
    List.foldlM (m := Option) (fun (s : W × σ) c => (step s.2 c).map (fun m' => (s.1, m'))) (w, m) l = (l.foldlM step m).map (fun m' => (w, m')) := by
  induction l generalizing m with
  | nil => rfl
  | cons c l ih =>
    simp only [List.foldlM_cons, Option.bind_eq_bind]
    cases hs : step m c with
    | none => simp
    | some m1 => simp only [Option.map_some, Option.bind_some]; exact ih m1

theorem getExchangeMask_eq (w : P256.World) (mask : M256.Mask) (add rem : GoSlice (BitVec 8)) :
    P256.World.getExchangeMask w mask add rem =
      ((rem.arr.toList.foldlM remStep mask).bind (fun m => add.arr.toList.foldlM addStep m)).map (fun m => (w, m)) := by
  unfold P256.World.getExchangeMask
  have h1 : ∀ (w : P256.World) (m : M256.Mask),
      List.foldlM (m := Option) (fun (x : P256.World × M256.Mask) k1N => do
        let k1 : Int := ((k1N : Nat) : Int)
        let comp ← GoSlice.get rem k1N
        if (!(ArcheGen.M256.Mask.Get x.2 comp)) then
          none
        else
          let mask := (ArcheGen.M256.Mask.Set x.2 comp false)
          pure (x.1, mask)) (w, m) (List.range rem.arr.size) = (rem.arr.toList.foldlM remStep m).map (fun m' => (w, m')) := by
    intro w m
    rw [← foldlM_pair remStep w, ← foldlM_range_get rem]
    congr 1
    funext x k
    cases GoSlice.get rem k with
    | none => rfl
    | some c =>
      simp only [Option.bind_eq_bind, Option.bind_some, remStep]
      split <;> rfl
  have h2 : ∀ (w : P256.World) (m : M256.Mask),
      List.foldlM (m := Option) (fun (x : P256.World × M256.Mask) k3N => do
        let k3 : Int := ((k3N : Nat) : Int)
        let comp ← GoSlice.get add k3N
        if (ArcheGen.M256.Mask.Get x.2 comp) then
          none
        else
          let mask := (ArcheGen.M256.Mask.Set x.2 comp true)
          pure (x.1, mask)) (w, m) (List.range add.arr.size) = (add.arr.toList.foldlM addStep m).map (fun m' => (w, m')) := by
    intro w m
    rw [← foldlM_pair addStep w, ← foldlM_range_get add]
    congr 1
    funext x k
    cases GoSlice.get add k with
    | none => rfl
    | some c =>
      simp only [Option.bind_eq_bind, Option.bind_some, addStep]
      split <;> rfl
  simp only [GoSlice.size, Option.bind_eq_bind]
  have h1' := h1 w mask
  generalize hF1 : List.foldlM (m := Option) (s := P256.World × M256.Mask) (α := Nat) _ (w, mask) (List.range rem.arr.size) = X1
  have hX1 : X1 = (rem.arr.toList.foldlM remStep mask).map (fun m' => (w, m')) := hF1.symm.trans h1'
  rw [hX1]
  cases hr : rem.arr.toList.foldlM remStep mask with
  | none => rfl
  | some m1 =>
    simp only [Option.map_some, Option.bind_some]
    have h2' := h2 w m1
    generalize hF2 : List.foldlM (m := Option) (s := P256.World × M256.Mask) (α := Nat) _ (w, m1) (List.range add.arr.size) = X2
    have hX2 : X2 = (add.arr.toList.foldlM addStep m1).map (fun m' => (w, m')) := hF2.symm.trans h2'
    rw [hX2]
    cases add.arr.toList.foldlM addStep m1 <;> rfl

theorem getExchangeMask_world (w w1 : P256.World) (mask m' : M256.Mask) (add rem : GoSlice (BitVec 8))
    (h : P256.World.getExchangeMask w mask add rem = some (w1, m')) : w1 = w := by
  rw [getExchangeMask_eq] at h
  cases hf : (rem.arr.toList.foldlM remStep mask).bind (fun m => add.arr.toList.foldlM addStep m) with
  | none => rw [hf] at h; cases h
  | some m2 =>
    rw [hf] at h
    simp only [Option.map_some, Option.some.injEq, Prod.mk.injEq] at h
    exact h.1.symm

/-- the removal fold: it succeeds iff the ids are pairwise different and all present; then exactly they are cleared -/
theorem rem_spec (l : List (BitVec 8)) (m : M256.Mask) :
    match l.foldlM remStep m with
    | some m' => (l.map (·.toNat)).Nodup ∧ (∀ c ∈ l, C04.B256.mem m c.toNat = true) ∧
        ∀ j, C04.B256.mem m' j = (C04.B256.mem m j && !l.any (fun c => c.toNat == j))
    | none => ¬ ((l.map (·.toNat)).Nodup ∧ ∀ c ∈ l, C04.B256.mem m c.toNat = true) := by
  induction l generalizing m with
  | nil => simp [List.foldlM_nil, pure]
  | cons c l ih =>
    simp only [List.foldlM_cons, Option.bind_eq_bind, remStep]
    by_cases hg : M256.Mask.Get m c = true
    · simp only [hg, Bool.not_true, Bool.false_eq_true, ↓reduceIte, Option.bind_some]
      have hmc : C04.B256.mem m c.toNat = true := by rw [← C04.B256.get_eq_mem]; exact hg
      have hset : ∀ j, C04.B256.mem (M256.Mask.Set m c false) j = if j = c.toNat then false else C04.B256.mem m j :=
        fun j => C04.B256.set_spec m c false j
      have := ih (M256.Mask.Set m c false)
      cases hf : l.foldlM remStep (M256.Mask.Set m c false) with
      | some m' =>
        rw [hf] at this
        obtain ⟨hnd, hall, hmem⟩ := this
        have hnotin : c.toNat ∉ l.map (·.toNat) := by
          intro hin
          obtain ⟨c', hc', heq⟩ := List.mem_map.mp hin
          have h1 := hall c' hc'
          rw [hset, heq] at h1
          simp at h1
        refine ⟨List.nodup_cons.mpr ⟨hnotin, hnd⟩, ?_, ?_⟩
        · intro c' hc'
          rcases List.mem_cons.mp hc' with rfl | hm
          · exact hmc
          · have h1 := hall c' hm
            rw [hset] at h1
            split at h1
            · cases h1
            · exact h1
        · intro j
          rw [hmem j, hset j]
          simp only [List.any_cons]
          by_cases hj : j = c.toNat
          · subst hj; simp
          · have : (c.toNat == j) = false := by simp; exact fun h => hj h.symm
            simp [hj, this]
      | none =>
        rw [hf] at this
        intro ⟨hnd, hall⟩
        apply this
        have hnd' := List.nodup_cons.mp hnd
        refine ⟨hnd'.2, ?_⟩
        intro c' hc'
        rw [hset]
        have hne : c'.toNat ≠ c.toNat := by
          intro heq
          exact hnd'.1 (List.mem_map.mpr ⟨c', hc', heq⟩)
        simp only [hne, ↓reduceIte]
        exact hall c' (List.mem_cons_of_mem _ hc')
    · simp only [hg, Bool.not_false, ↓reduceIte, Option.bind_none]
      intro ⟨_, hall⟩
      have := hall c List.mem_cons_self
      rw [← C04.B256.get_eq_mem] at this
      exact hg this

/-- the addition fold: it succeeds iff the ids are pairwise different and all absent; then exactly they are set -/
theorem add_spec (l : List (BitVec 8)) (m : M256.Mask) :
    match l.foldlM addStep m with
    | some m' => (l.map (·.toNat)).Nodup ∧ (∀ c ∈ l, C04.B256.mem m c.toNat = false) ∧
        ∀ j, C04.B256.mem m' j = (C04.B256.mem m j || l.any (fun c => c.toNat == j))
    | none => ¬ ((l.map (·.toNat)).Nodup ∧ ∀ c ∈ l, C04.B256.mem m c.toNat = false) := by
  induction l generalizing m with
  | nil => simp [List.foldlM_nil, pure]
  | cons c l ih =>
    simp only [List.foldlM_cons, Option.bind_eq_bind, addStep]
    by_cases hg : M256.Mask.Get m c = true
    · simp only [hg, ↓reduceIte, Option.bind_none]
      intro ⟨_, hall⟩
      have := hall c List.mem_cons_self
      rw [← C04.B256.get_eq_mem, hg] at this
      cases this
    · simp only [hg, Bool.false_eq_true, ↓reduceIte, Option.bind_some]
      have hmc : C04.B256.mem m c.toNat = false := by rw [← C04.B256.get_eq_mem]; simpa using hg
      have hset : ∀ j, C04.B256.mem (M256.Mask.Set m c true) j = if j = c.toNat then true else C04.B256.mem m j :=
        fun j => C04.B256.set_spec m c true j
      have := ih (M256.Mask.Set m c true)
      cases hf : l.foldlM addStep (M256.Mask.Set m c true) with
      | some m' =>
        rw [hf] at this
        obtain ⟨hnd, hall, hmem⟩ := this
        have hnotin : c.toNat ∉ l.map (·.toNat) := by
          intro hin
          obtain ⟨c', hc', heq⟩ := List.mem_map.mp hin
          have h1 := hall c' hc'
          rw [hset, heq] at h1
          simp at h1
        refine ⟨List.nodup_cons.mpr ⟨hnotin, hnd⟩, ?_, ?_⟩
        · intro c' hc'
          rcases List.mem_cons.mp hc' with rfl | hm
          · exact hmc
          · have h1 := hall c' hm
            rw [hset] at h1
            split at h1
            · cases h1
            · exact h1
        · intro j
          rw [hmem j, hset j]
          simp only [List.any_cons]
          by_cases hj : j = c.toNat
          · subst hj; simp
          · have : (c.toNat == j) = false := by simp; exact fun h => hj h.symm
            simp [hj, this]
      | none =>
        rw [hf] at this
        intro ⟨hnd, hall⟩
        apply this
        have hnd' := List.nodup_cons.mp hnd
        refine ⟨hnd'.2, ?_⟩
        intro c' hc'
        rw [hset]
        have hne : c'.toNat ≠ c.toNat := by
          intro heq
          exact hnd'.1 (List.mem_map.mpr ⟨c', hc', heq⟩)
        simp only [hne, ↓reduceIte]
        exact hall c' (List.mem_cons_of_mem _ hc')

/-- **the exact panic condition of an exchange**, and its result: `getExchangeMask` succeeds iff the removed ids are
    pairwise different and all present and the added ids are pairwise different and absent once those are removed;
    then the mask is `(mask \ rem) ∪ add`; the world is never touched -/
theorem getExchangeMask_ok_iff (w : P256.World) (mask : M256.Mask) (add rem : GoSlice (BitVec 8)) :
    match P256.World.getExchangeMask w mask add rem with
    | some (w', m') => w' = w ∧
        (rem.arr.toList.map (·.toNat)).Nodup ∧ (∀ c ∈ rem.arr.toList, C04.B256.mem mask c.toNat = true) ∧
        (add.arr.toList.map (·.toNat)).Nodup ∧
        (∀ c ∈ add.arr.toList, (C04.B256.mem mask c.toNat && !rem.arr.toList.any (fun r => r.toNat == c.toNat)) = false) ∧
        ∀ j, C04.B256.mem m' j = ((C04.B256.mem mask j && !rem.arr.toList.any (fun c => c.toNat == j)) || add.arr.toList.any (fun c => c.toNat == j))
    | none => ¬ ((rem.arr.toList.map (·.toNat)).Nodup ∧ (∀ c ∈ rem.arr.toList, C04.B256.mem mask c.toNat = true) ∧
        (add.arr.toList.map (·.toNat)).Nodup ∧
        (∀ c ∈ add.arr.toList, (C04.B256.mem mask c.toNat && !rem.arr.toList.any (fun r => r.toNat == c.toNat)) = false)) := by
  rw [getExchangeMask_eq]
  have hr := rem_spec rem.arr.toList mask
  cases hrf : rem.arr.toList.foldlM remStep mask with
  | none =>
    rw [hrf] at hr
    simp only [Option.bind_none, Option.map_none]
    intro ⟨h1, h2, _⟩
    exact hr ⟨h1, h2⟩
  | some m1 =>
    rw [hrf] at hr
    obtain ⟨hnd, hall, hmem1⟩ := hr
    simp only [Option.bind_some]
    have ha := add_spec add.arr.toList m1
    cases haf : add.arr.toList.foldlM addStep m1 with
    | none =>
      rw [haf] at ha
      simp only [Option.map_none]
      intro ⟨_, _, h3, h4⟩
      apply ha
      refine ⟨h3, ?_⟩
      intro c hc
      rw [hmem1]
      exact h4 c hc
    | some m2 =>
      rw [haf] at ha
      obtain ⟨hnd2, hall2, hmem2⟩ := ha
      simp only [Option.map_some]
      refine ⟨trivial, hnd, hall, hnd2, ?_, ?_⟩
      · intro c hc
        rw [← hmem1]
        exact hall2 c hc
      · intro j
        rw [hmem2 j, hmem1 j]


/-! ### `exchangeNoNotify` -/

section
variable {Ext : Type}
  (archActiveF : Ext → Option Nat → Bool) (archAllocF : Ext → Option Nat → P256.Entity → Ext × BitVec 32)
  (archComponentsF : Ext → Option Nat → GoSlice (BitVec 8)) (archGetEntityF : Ext → Option Nat → BitVec 32 → P256.Entity)
  (archGetF : Ext → Option Nat → BitVec 32 → BitVec 8 → GoAny) (archHasRelCompF : Ext → Option Nat → Bool)
  (archHasRelationF : Ext → Option Nat → Bool) (archLenF : Ext → Option Nat → BitVec 32)
  (archMaskF : Ext → Option Nat → ArcheGen.M256.Mask) (archNodeF : Ext → Option Nat → Option Nat)
  (archRelCompF : Ext → Option Nat → BitVec 8) (archRemoveF : Ext → Option Nat → BitVec 32 → Ext × Bool)
  (archSetPointerF : Ext → Option Nat → BitVec 32 → BitVec 8 → GoAny → Ext × Unit) (archTargetF : Ext → Option Nat → P256.Entity)
  (findOrCreateF : Ext → P256.World → Option Nat → GoSlice (BitVec 8) → GoSlice (BitVec 8) → P256.Entity → Ext × P256.World × Option Nat)
  (matchesF : GoAny → ArcheGen.M256.Mask → Bool) (nodeHasRelationF : Ext → Option Nat → Bool)
  (nodeRemoveArchetypeF : Ext → Option Nat → Option Nat → Ext × Unit)

/-- what is assumed about the graph walk `findOrCreateArchetype`: it may add graph nodes and tables (filter cache,
    node lists) but touches nothing else of the world -/
def FindFrame : Prop :=
  ∀ (ext : Ext) (w : P256.World) (a : Option Nat) (add rem : GoSlice (BitVec 8)) (tg : P256.Entity),
    (findOrCreateF ext w a add rem tg).2.1 =
      { w with filterCache := (findOrCreateF ext w a add rem tg).2.1.filterCache,
               nodePointers := (findOrCreateF ext w a add rem tg).2.1.nodePointers,
               relationNodes := (findOrCreateF ext w a add rem tg).2.1.relationNodes }

theorem exchange_locked (w : P256.World) (e : P256.Entity) (add rem : GoSlice (BitVec 8)) (rel : BitVec 8) (hasRel : Bool) (target : P256.Entity) (ext : Ext)
    (h : LockMask.isLocked (C09_LockPool.absLM w.locks) = true) :
    P256.World.exchangeNoNotify archActiveF archAllocF archComponentsF archGetEntityF archGetF archHasRelCompF archHasRelationF archLenF archMaskF
      archNodeF archRelCompF archRemoveF archSetPointerF archTargetF findOrCreateF matchesF nodeHasRelationF nodeRemoveArchetypeF
      w e add rem rel hasRel target ext = none := by
  unfold P256.World.exchangeNoNotify
  rw [C09_WorldLock.checkLocked_spec]
  simp [h, bind, Option.bind]

theorem exchange_dead (w : P256.World) (e : P256.Entity) (add rem : GoSlice (BitVec 8)) (rel : BitVec 8) (hasRel : Bool) (target : P256.Entity) (ext : Ext)
    (h : Pool.alive? (C02_Pool.absPool w.entityPool) (C02_Pool.absE e) ≠ some true) :
    P256.World.exchangeNoNotify archActiveF archAllocF archComponentsF archGetEntityF archGetF archHasRelCompF archHasRelationF archLenF archMaskF
      archNodeF archRelCompF archRemoveF archSetPointerF archTargetF findOrCreateF matchesF nodeHasRelationF nodeRemoveArchetypeF
      w e add rem rel hasRel target ext = none := by
  unfold P256.World.exchangeNoNotify
  rw [C09_WorldLock.checkLocked_spec]
  by_cases hl : LockMask.isLocked (C09_LockPool.absLM w.locks) = true
  · simp [hl, bind, Option.bind]
  · simp only [hl, Bool.false_eq_true, ↓reduceIte, bind, Option.bind]
    cases ha : Pool.alive? (C02_Pool.absPool w.entityPool) (C02_Pool.absE e) with
    | none => simp only [C02_Create.alive_none _ _ ha]
    | some b =>
      cases b with
      | true => exact absurd ha h
      | false => simp only [C02_Create.alive_eq _ _ _ ha, Bool.not_false, ↓reduceIte]

/-- nothing to add and nothing to remove: nothing happens (and a relation specified on top of that is refused) -/
theorem exchange_noop (w : P256.World) (e : P256.Entity) (add rem : GoSlice (BitVec 8)) (rel : BitVec 8) (hasRel : Bool) (target : P256.Entity) (ext : Ext)
    (hunl : LockMask.isLocked (C09_LockPool.absLM w.locks) = false)
    (ha : Pool.alive? (C02_Pool.absPool w.entityPool) (C02_Pool.absE e) = some true)
    (hadd : add.arr.size = 0) (hrem : rem.arr.size = 0) :
    P256.World.exchangeNoNotify archActiveF archAllocF archComponentsF archGetEntityF archGetF archHasRelCompF archHasRelationF archLenF archMaskF
      archNodeF archRelCompF archRemoveF archSetPointerF archTargetF findOrCreateF matchesF nodeHasRelationF nodeRemoveArchetypeF
      w e add rem rel hasRel target ext = if hasRel then none else some (w, ext, (none, none, default, none)) := by
  unfold P256.World.exchangeNoNotify
  rw [C09_WorldLock.checkLocked_spec]
  simp only [hunl, Bool.false_eq_true, ↓reduceIte, bind, Option.bind, C02_Create.alive_eq _ _ _ ha, Bool.not_true, GoSlice.size, hadd, hrem,
    Int.ofNat_zero, beq_self_eq_true, Bool.and_self, pure]

/-- **what a successful exchange with something to do does** -/
theorem exchange_effect (hFind : FindFrame findOrCreateF)
    (w w' : P256.World) (e : P256.Entity) (add rem : GoSlice (BitVec 8)) (rel : BitVec 8) (hasRel : Bool) (target : P256.Entity) (ext ext' : Ext)
    (ra : Option Nat) (rm : Option M256.Mask) (rt : P256.Entity) (rr : Option (BitVec 8))
    (x : entityIndex) (t : Nat) (hx : w.entities.arr[e.id.toNat]? = some x) (ht : x.arch = some t)
    (hne : ¬ (add.arr.size = 0 ∧ rem.arr.size = 0))
    (h : P256.World.exchangeNoNotify archActiveF archAllocF archComponentsF archGetEntityF archGetF archHasRelCompF archHasRelationF archLenF archMaskF
      archNodeF archRelCompF archRemoveF archSetPointerF archTargetF findOrCreateF matchesF nodeHasRelationF nodeRemoveArchetypeF
      w e add rem rel hasRel target ext = some (w', ext', (ra, rm, rt, rr))) :
    LockMask.isLocked (C09_LockPool.absLM w.locks) = false ∧
    Pool.alive? (C02_Pool.absPool w.entityPool) (C02_Pool.absE e) = some true ∧
    (∃ m', P256.World.getExchangeMask w (archMaskF ext (some t)) add rem = some (w, m')) ∧
    rm = some (archMaskF ext (some t)) ∧
    ∃ (arch' : Nat) (row : BitVec 32) (swapped : Bool) (sid : Nat) (tgt : P256.Entity) (extT : Ext),
      ra = some arch' ∧ rt = archTargetF extT (some t) ∧ (hasRel = true → tgt = target) ∧
      w'.entities = ⟨C05_SetRelGen.indexAfter w.entities.arr e.id.toNat swapped sid (some arch') row, w.entities.cap⟩ ∧
      (∀ j, C06_BitSet.bget w'.targetEntities j =
        if tgt.id ≠ 0#32 ∧ j = tgt.id.toNat then true else C06_BitSet.bget w.targetEntities j) ∧
      w' = { w with entities := w'.entities, targetEntities := w'.targetEntities, filterCache := w'.filterCache,
                    nodePointers := w'.nodePointers, relationNodes := w'.relationNodes } := by
  unfold P256.World.exchangeNoNotify at h
  rw [C09_WorldLock.checkLocked_spec] at h
  by_cases hlk : LockMask.isLocked (C09_LockPool.absLM w.locks) = true
  · simp [hlk, bind, Option.bind] at h
  have hlk' : LockMask.isLocked (C09_LockPool.absLM w.locks) = false := by simpa using hlk
  simp only [hlk', Bool.false_eq_true, ↓reduceIte, Option.bind_eq_bind, Option.bind_some] at h
  cases ha : Pool.alive? (C02_Pool.absPool w.entityPool) (C02_Pool.absE e) with
  | none => simp [C02_Create.alive_none _ _ ha] at h
  | some b =>
    cases b with
    | false => simp [C02_Create.alive_eq _ _ _ ha] at h
    | true =>
      refine ⟨hlk', rfl, ?_⟩
      have hnz : ((((add.arr.size : Nat) : Int) == 0) && (((rem.arr.size : Nat) : Int) == 0)) = false := by
        cases h1 : (((add.arr.size : Nat) : Int) == 0) <;> cases h2 : (((rem.arr.size : Nat) : Int) == 0) <;> simp_all
      simp only [C02_Create.alive_eq _ _ _ ha, Option.bind_some, Bool.not_true, Bool.false_eq_true, ↓reduceIte, GoSlice.size, hnz,
        GoSlice.get, hx, ht] at h
      -- the mask
      obtain ⟨⟨w1, mask⟩, hmask, hq⟩ := Option.bind_eq_some_iff.mp h
      clear h; have h := hq; clear hq
      have hw1 : w = w1 := (getExchangeMask_world _ _ _ _ _ _ hmask).symm
      subst hw1
      refine ⟨⟨mask, hmask⟩, ?_⟩
      try dsimp only at h
      -- the target
      obtain ⟨⟨w2, e2, tgt⟩, htg, hq⟩ := Option.bind_eq_some_iff.mp h
      clear h; have h := hq; clear hq
      try dsimp only at h
      have hw2 : w = w2 ∧ ext = e2 ∧ (hasRel = true → tgt = target) := by
        cases hasRel with
        | true =>
          simp only [↓reduceIte] at htg
          split at htg
          · obtain ⟨_, _, htg⟩ := Option.bind_eq_some_iff.mp htg
            cases htg
          · split at htg
            · obtain ⟨_, _, htg⟩ := Option.bind_eq_some_iff.mp htg
              cases htg
            · simp only [Entity.IsZero, pure, Option.bind_some] at htg
              obtain ⟨⟨b14, w3⟩, hb, htg⟩ := Option.bind_eq_some_iff.mp htg
              have hw3 : w = w3 := by
                split at hb
                · obtain ⟨⟨p, b⟩, hal, hb⟩ := Option.bind_eq_some_iff.mp hb
                  have hp := (C02_Pool.alive_refines w.entityPool target).2 _ hal
                  simp only at hp
                  simp only [Option.some.injEq, Prod.mk.injEq] at hb
                  rw [← hb.2, hp]
                · simp only [Option.some.injEq, Prod.mk.injEq] at hb
                  exact hb.2
              subst hw3
              dsimp only at htg
              cases b14 with
              | true => simp at htg
              | false =>
                simp only [Bool.false_eq_true, ↓reduceIte, Option.some.injEq, Prod.mk.injEq] at htg
                exact ⟨htg.1, htg.2.1, fun _ => htg.2.2.symm⟩
        | false =>
          simp only [Bool.false_eq_true, ↓reduceIte, Entity.IsZero, pure, Option.bind_some] at htg
          obtain ⟨b16, _, htg⟩ := Option.bind_eq_some_iff.mp htg
          obtain ⟨⟨w3, e3, t3⟩, hj, htg⟩ := Option.bind_eq_some_iff.mp htg
          simp only [Option.some.injEq, Prod.mk.injEq] at htg
          have : w = w3 ∧ ext = e3 := by
            split at hj
            · obtain ⟨⟨w4, e4, t4, b4⟩, hloop, hj⟩ := Option.bind_eq_some_iff.mp hj
              simp only [Option.some.injEq, Prod.mk.injEq] at hj
              have hinv := C02_Remove.foldlM_inv (fun (s : P256.World × Ext × P256.Entity × Bool) => s.1 = w ∧ s.2.1 = ext) _ ?_ _ _ _ ⟨rfl, rfl⟩ hloop
              · exact ⟨hinv.1.symm.trans hj.1, hinv.2.symm.trans hj.2.1⟩
              · intro s k s' hs hk
                split at hk
                · simp only [pure, Option.some.injEq] at hk; rw [← hk]; exact hs
                · obtain ⟨_, _, hk⟩ := Option.bind_eq_some_iff.mp hk
                  split at hk <;> (simp only [pure, Option.some.injEq] at hk; rw [← hk]; exact hs)
            · simp only [Option.some.injEq, Prod.mk.injEq] at hj
              exact ⟨hj.1, hj.2.1⟩
          exact ⟨this.1.trans htg.1, this.2.trans htg.2.1, fun hc => by cases hc⟩
      obtain ⟨hw2eq, he2eq, htgt⟩ := hw2
      subst hw2eq; subst he2eq
      -- the table found or created
      generalize hfr : findOrCreateF ext w (some t) add rem tgt = fr at h
      obtain ⟨eF, wF, aF⟩ := fr
      have hwF : wF = { w with filterCache := wF.filterCache, nodePointers := wF.nodePointers, relationNodes := wF.relationNodes } := by
        have := hFind ext w (some t) add rem tgt
        rw [hfr] at this
        exact this
      try dsimp only at h
      obtain ⟨a', ha', hq⟩ := Option.bind_eq_some_iff.mp h
      clear h; have h := hq; clear hq
      subst ha'
      -- copying the components
      obtain ⟨⟨w4, e4⟩, hloop, hq⟩ := Option.bind_eq_some_iff.mp h
      clear h; have h := hq; clear hq
      have hw4 : wF = w4 := by
        have := C02_Remove.foldlM_inv (fun (s : P256.World × Ext) => wF = s.1) _ ?_ _ _ _ rfl hloop
        · exact this
        · intro s k s' hs hk
          obtain ⟨_, _, hk⟩ := Option.bind_eq_some_iff.mp hk
          obtain ⟨⟨w5, e5⟩, hin, hk⟩ := Option.bind_eq_some_iff.mp hk
          simp only [pure, Option.some.injEq] at hk
          rw [← hk]
          split at hin
          · obtain ⟨_, _, hin⟩ := Option.bind_eq_some_iff.mp hin
            simp only [Option.bind_some, pure, Option.some.injEq, Prod.mk.injEq] at hin
            simp only; rw [← hin.1]; exact hs
          · simp only [pure, Option.some.injEq, Prod.mk.injEq] at hin
            simp only; rw [← hin.1]; exact hs
      subst hw4
      try dsimp only at h
      have hent : wF.entities = w.entities := by rw [hwF]
      have hflg : wF.targetEntities = w.targetEntities := by rw [hwF]
      simp only [hent, hx, Option.bind_some] at h
      -- the swap
      obtain ⟨⟨w5, e5⟩, hsw, hq⟩ := Option.bind_eq_some_iff.mp h
      clear h; have h := hq; clear hq
      try dsimp only at h
      generalize hswp : (archRemoveF e4 (some t) x.index).2 = swapped at hsw
      generalize hsidg : (archGetEntityF (archRemoveF e4 (some t) x.index).1 (some t) x.index).id.toNat = sid at hsw
      try simp only [pure] at hsw
      have hidlt : e.id.toNat < w.entities.arr.size := (Array.getElem?_eq_some_iff.mp hx).1
      have hxD : w.entities.arr.getD e.id.toNat default = x := by
        rw [Array.getD_eq_getD_getElem?, hx]; rfl
      have hw5 : ∃ a1 : Array entityIndex, a1.size = w.entities.arr.size ∧
          w5 = { wF with entities := ⟨a1, w.entities.cap⟩ } ∧
          a1 = (if swapped then w.entities.arr.setIfInBounds sid { (w.entities.arr.getD sid default) with index := x.index } else w.entities.arr) := by
        cases swapped with
        | false =>
          simp only [Bool.false_eq_true, ↓reduceIte, Option.some.injEq, Prod.mk.injEq] at hsw
          refine ⟨w.entities.arr, rfl, ?_, by simp⟩
          rw [← hsw.1, ← hent]
        | true =>
          simp only [↓reduceIte] at hsw
          obtain ⟨c23, hc23, hsw⟩ := Option.bind_eq_some_iff.mp hsw
          obtain ⟨u24, hu24, hsw⟩ := Option.bind_eq_some_iff.mp hsw
          simp only [Option.some.injEq, Prod.mk.injEq] at hsw
          have hslt : sid < w.entities.arr.size := (Array.getElem?_eq_some_iff.mp hc23).1
          have hsD : w.entities.arr.getD sid default = c23 := by
            rw [Array.getD_eq_getD_getElem?, hc23]; rfl
          simp only [GoSlice.set, hent, hslt, ↓reduceIte, Option.some.injEq] at hu24
          refine ⟨w.entities.arr.setIfInBounds sid { arch := c23.arch, index := x.index }, by simp, ?_, by simp [hsD]⟩
          rw [← hsw.1, ← hu24]
      obtain ⟨a1, ha1, hw5eq, ha1eq⟩ := hw5
      subst hw5eq
      -- the moved entity
      obtain ⟨u26, hu26, hq⟩ := Option.bind_eq_some_iff.mp h
      clear h; have h := hq; clear hq
      have hu26' : u26 = ⟨a1.setIfInBounds e.id.toNat ⟨some a', (archAllocF eF (some a') e).2⟩, w.entities.cap⟩ := by
        simp only [GoSlice.set, ha1, hidlt, ↓reduceIte, Option.some.injEq] at hu26
        exact hu26.symm
      subst hu26'
      -- the old relation (returned only)
      obtain ⟨⟨w6, e6, orel⟩, hor, hq⟩ := Option.bind_eq_some_iff.mp h
      clear h; have h := hq; clear hq
      try dsimp only at h
      have hw6 : w6 = { wF with entities := ⟨a1.setIfInBounds e.id.toNat ⟨some a', (archAllocF eF (some a') e).2⟩, w.entities.cap⟩ } ∧ e6 = e5 := by
        split at hor <;> simp only [pure, Option.some.injEq, Prod.mk.injEq] at hor <;> exact ⟨hor.1.symm, hor.2.1.symm⟩
      obtain ⟨hw6eq, he6⟩ := hw6
      subst hw6eq; subst he6
      simp only [Entity.IsZero, pure, Option.bind_some] at h
      -- the target flag
      obtain ⟨⟨w7, e7⟩, hfl, hq⟩ := Option.bind_eq_some_iff.mp h
      clear h; have h := hq; clear hq
      try dsimp only at h
      have hw7 : ∃ ts, w7 = { wF with entities := ⟨a1.setIfInBounds e.id.toNat ⟨some a', (archAllocF eF (some a') e).2⟩, w.entities.cap⟩,
                                      targetEntities := ts } ∧
          (∀ j, C06_BitSet.bget ts j = if tgt.id ≠ 0#32 ∧ j = tgt.id.toNat then true else C06_BitSet.bget w.targetEntities j) := by
        by_cases hz : (tgt.id == 0#32) = true
        · simp only [hz, Bool.not_true, Bool.false_eq_true, ↓reduceIte, Option.some.injEq, Prod.mk.injEq] at hfl
          refine ⟨w.targetEntities, ?_, ?_⟩
          · rw [← hfl.1, ← hflg]
          · intro j
            have : tgt.id = 0#32 := by simpa using hz
            simp [this]
        · simp only [hz, Bool.not_false, ↓reduceIte] at hfl
          obtain ⟨o28, ho28, hfl⟩ := Option.bind_eq_some_iff.mp hfl
          simp only [Option.some.injEq, Prod.mk.injEq] at hfl
          simp only [hflg] at ho28
          have hrange : tgt.id.toNat / 64 < w.targetEntities.data.arr.size := by
            apply Classical.byContradiction
            intro hc
            have : bitSet.Set w.targetEntities tgt.id true = none := by
              unfold bitSet.Set
              simp only [bind, Option.bind, GoSlice.get]
              rw [C06_BitSet.div_toNat, Array.getElem?_eq_none (by omega)]
              simp
            rw [this] at ho28; cases ho28
          obtain ⟨ts, hts, _, htsget⟩ := C06_BitSet.set_get w.targetEntities tgt.id true hrange
          rw [hts] at ho28
          have hto : ts = o28 := Option.some.inj ho28
          rw [← hto] at hfl
          refine ⟨ts, hfl.1.symm, ?_⟩
          intro j
          have hne' : tgt.id ≠ 0#32 := by simpa using hz
          rw [htsget j]
          by_cases hj : j = tgt.id.toNat <;> simp [hj, hne']
      obtain ⟨ts, hw7eq, hts⟩ := hw7
      subst hw7eq
      -- retiring the old table
      obtain ⟨⟨w8, e8⟩, hcl, hq⟩ := Option.bind_eq_some_iff.mp h
      clear h; have h := hq; clear hq
      have hw8 := C02_Remove.cleanupArchetype_frame archActiveF archHasRelationF archLenF archMaskF archNodeF archTargetF matchesF
        nodeHasRelationF nodeRemoveArchetypeF _ _ _ _ _ hcl
      unfold C02_Remove.CacheOnly at hw8
      simp only [Option.some.injEq, Prod.mk.injEq] at h
      obtain ⟨hfin, _, hra, hrm, hrt, _⟩ := h
      refine ⟨hrm.symm, a', (archAllocF eF (some a') e).2, swapped, sid, tgt, _, hra.symm, hrt.symm, htgt, ?_, ?_, ?_⟩
      · rw [← hfin, hw8]; simp only [C05_SetRelGen.indexAfter, hxD, ← ha1eq]
      · intro j; rw [← hfin, hw8]; exact hts j
      · rw [← hfin, hw8]; simp only; rw [hwF]

end

/-! ### non-vacuity: a concrete run of the regenerated code -/

def demoPool : entityPool := { entities := ⟨#[⟨0#32, 0#32⟩, ⟨1#32, 0#32⟩, ⟨2#32, 0#32⟩], 4⟩, next := 0#32, available := 0#32, capacityIncrement := 4#32 }
def demoIdx : GoSlice entityIndex := ⟨#[default, ⟨some 7, 0#32⟩, ⟨some 7, 1#32⟩], 4⟩
def demoWorld : P256.World := { (default : P256.World) with entityPool := demoPool, entities := demoIdx, targetEntities := { data := ⟨#[0#64], 1⟩ } }
def demoMask : M256.Mask := M256.Mask.Set default 0#8 true
/-- entity 1 (table 7, components {0}) gets component 2 and loses nothing: the table for {0, 2} is token 9; entity 2 is
    swapped into row 0 of table 7. A second run asks to add component 0, which is present: the mask check panics. -/
def demoRun (add : GoSlice (BitVec 8)) : Option (P256.World × List Nat × (Option Nat × Option M256.Mask × P256.Entity × Option (BitVec 8))) :=
  P256.World.exchangeNoNotify (Ext := List Nat)
    (fun _ _ => true) (fun log a _ => (log ++ [200 + a.getD 0], 5#32)) (fun _ _ => ⟨#[0#8], 1⟩) (fun _ _ _ => ⟨2#32, 0#32⟩)
    (fun _ _ _ _ => none) (fun _ _ => false) (fun _ _ => false) (fun _ _ => 1#32) (fun _ _ => demoMask) (fun _ _ => some 3)
    (fun _ _ => 0#8) (fun log a row => (log ++ [100 + a.getD 0, row.toNat], true)) (fun log _ _ c _ => (log ++ [300 + c.toNat], ()))
    (fun _ _ => default) (fun log w _ _ _ _ => (log ++ [900], w, some 9)) (fun _ _ => false) (fun _ _ => false)
    (fun log _ _ => (log ++ [999], ())) demoWorld ⟨1#32, 0#32⟩ add default 0#8 false default []
def demoOut (add : GoSlice (BitVec 8)) : Option (List (Nat × Nat) × List Nat) :=
  (demoRun add).map (fun r => (r.1.entities.arr.toList.map (fun x => (x.arch.getD 99, x.index.toNat)), r.2.1 ++ [r.2.2.1.getD 0]))
theorem demo_run : demoOut ⟨#[2#8], 1⟩ = some ([(99, 0), (9, 5), (7, 0)], [900, 209, 300, 107, 0, 9]) ∧ demoOut ⟨#[0#8], 1⟩ = none := by
  decide +kernel

end Arche.Props.C01_ExchangeGen
