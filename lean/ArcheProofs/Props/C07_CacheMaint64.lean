/-
  C07 companion — `Cache.addArchetype` (ecs/cache.go), REGENERATED on every run with its loops over the
  registered filters (a monadic fold over the entry indices; `continue` ends one step), is a map
  over the cache entries: `addArchetype_map` — every entry is replaced by `addStep arch entry`,
  which is the per-entry update `upd` of the model's `World.cacheAdd` (a table is appended to
  the entries whose filter matches its mask and, for relation tables, whose relation target — if
  the filter is a relation filter — is the table's target; a position map that was already built
  learns the new position). The reflective parts (the filter's `Matches`, "is a relation filter
  with target …", the table's mask / target / has-relation) are function parameters.
-/
import ArcheGen.Pool64
import ArcheModel
import ArcheProofs.Props.C07_CacheIds64

namespace Arche.Props.C07_CacheMaint64
open ArcheGen ArcheGen.P64 Arche

theorem toIndex_nat (n : Nat) : GoInt.toIndex ((n : Nat) : Int) = some n := by
  unfold GoInt.toIndex
  rw [if_pos (by omega)]
  simp

/-- the cache with another entry list -/
def withArr (c : Cache) (a : Array cacheEntry) : Cache := { c with filters := { c.filters with arr := a } }

theorem withArr_arr (c : Cache) (a : Array cacheEntry) : (withArr c a).filters.arr = a := rfl
theorem withArr_withArr (c : Cache) (a b : Array cacheEntry) : withArr (withArr c a) b = withArr c b := rfl
theorem withArr_self (c : Cache) : withArr c c.filters.arr = c := by
  cases c; rename_i i f g p; cases f; rfl

/-- replacing entry `i` by `g` of it, for `i = 0 … n-1`, is mapping `g` over the first `n` entries -/
theorem fold_entries_P (P : cacheEntry → Prop) (g : cacheEntry → cacheEntry) (step : Cache → Nat → Option Cache)
    (hstep : ∀ (c : Cache) (i : Nat) (e : cacheEntry), c.filters.arr[i]? = some e → P e →
      step c i = some (withArr c (c.filters.arr.setIfInBounds i (g e))))
    (n : Nat) (c : Cache) (hn : n ≤ c.filters.arr.size) (hP : ∀ (i : Nat) (e : cacheEntry), c.filters.arr[i]? = some e → P e) :
    (List.range n).foldlM step c = some (withArr c (c.filters.arr.mapIdx (fun j x => if j < n then g x else x))) := by
  induction n with
  | zero =>
    simp only [List.range_zero, List.foldlM_nil, pure]
    congr 1
    conv => lhs; rw [← withArr_self c]
    congr 1
    apply Array.ext_getElem?
    intro j
    rw [Array.getElem?_mapIdx]
    cases c.filters.arr[j]? <;> simp
  | succ n ih =>
    rw [List.range_succ, List.foldlM_append, ih (by omega)]
    simp only [bind, Option.bind, List.foldlM_cons, List.foldlM_nil, pure]
    have hlt : n < c.filters.arr.size := by omega
    have hget : (withArr c (c.filters.arr.mapIdx (fun j x => if j < n then g x else x))).filters.arr[n]? = some c.filters.arr[n] := by
      rw [withArr_arr, Array.getElem?_mapIdx, Array.getElem?_eq_getElem hlt]
      simp
    rw [hstep _ n _ hget (hP n _ (Array.getElem?_eq_getElem hlt))]
    simp only [Option.bind, withArr_withArr, withArr_arr]
    congr 2
    apply Array.ext_getElem?
    intro j
    rw [Array.getElem?_setIfInBounds, Array.getElem?_mapIdx, Array.getElem?_mapIdx]
    by_cases hj : n = j
    · subst hj
      rw [if_pos rfl, if_pos (by simpa using hlt), Array.getElem?_eq_getElem hlt]
      simp
    · rw [if_neg hj]
      cases c.filters.arr[j]? with
      | none => rfl
      | some x =>
        simp only [Option.map_some]
        by_cases hjn : j < n
        · rw [if_pos hjn, if_pos (by omega)]
        · rw [if_neg hjn, if_neg (by omega)]

theorem fold_entries (g : cacheEntry → cacheEntry) (step : Cache → Nat → Option Cache)
    (hstep : ∀ (c : Cache) (i : Nat) (e : cacheEntry), c.filters.arr[i]? = some e →
      step c i = some (withArr c (c.filters.arr.setIfInBounds i (g e))))
    (n : Nat) (c : Cache) (hn : n ≤ c.filters.arr.size) :
    (List.range n).foldlM step c = some (withArr c (c.filters.arr.mapIdx (fun j x => if j < n then g x else x))) :=
  fold_entries_P (fun _ => True) g step (fun c i e he _ => hstep c i e he) n c hn (fun _ _ _ => trivial)

theorem mapIdx_all (a : Array cacheEntry) (g : cacheEntry → cacheEntry) :
    a.mapIdx (fun j x => if j < a.size then g x else x) = a.map g := by
  apply Array.ext_getElem?
  intro j
  rw [Array.getElem?_mapIdx, Array.getElem?_map]
  by_cases hj : j < a.size
  · rw [Array.getElem?_eq_getElem hj]; simp [hj]
  · rw [Array.getElem?_eq_none (by omega)]; rfl

/-! ## `Cache.addArchetype` -/

section
variable (hasRel : Option Nat → Bool) (maskOf : Option Nat → M64.Mask) (targetOf : Option Nat → P64.Entity)
  (matches_ : GoAny → M64.Mask → Bool) (relTarget : GoAny → Option P64.Entity)

/-- append the table; a position map that exists learns the new position -/
def addIdx (arch : Option Nat) (e : cacheEntry) : cacheEntry :=
  { e with
    Archetypes := ⟨GoSlice.append e.Archetypes.pointers arch⟩,
    Indices := if e.Indices.nonNil = true
      then ⟨(arch, ((BitVec.ofInt 32 ((e.Archetypes.pointers.arr.size + 1 : Nat) : Int)) - 1#32).toInt) :: (e.Indices.delete arch).entries, true⟩
      else e.Indices }

/-- what `addArchetype` does to one entry (the model's `upd` in `World.cacheAdd`) -/
def addStep (arch : Option Nat) (e : cacheEntry) : cacheEntry :=
  if matches_ e.Filter (maskOf arch) = false then e
  else if hasRel arch = false then { e with Archetypes := ⟨GoSlice.append e.Archetypes.pointers arch⟩ }
  else match relTarget e.Filter with
    | some ft => if ft = targetOf arch then addIdx arch e else e
    | none => addIdx arch e

theorem set_nonNil {K V : Type} [DecidableEq K] (m : GoMap K V) (k : K) (v : V) (h : m.nonNil = true) :
    m.set k v = some ⟨(k, v) :: (m.delete k).entries, true⟩ := by
  unfold GoMap.set
  rw [if_pos h]
  simp [h]

/-- **`addArchetype` maps `addStep` over the entries** -/
theorem addArchetype_map (c : Cache) (arch : Option Nat) :
    Cache.addArchetype hasRel maskOf targetOf matches_ relTarget c arch =
      some (withArr c (c.filters.arr.map (addStep hasRel maskOf targetOf matches_ relTarget arch))) := by
  unfold Cache.addArchetype
  by_cases hr : hasRel arch = true
  · -- a relation table
    simp only [hr, Bool.not_true, Bool.false_eq_true, if_false, bind, Option.bind, pure, GoSlice.size]
    rw [fold_entries (addStep hasRel maskOf targetOf matches_ relTarget arch) _ _ _ c (Nat.le_refl _), mapIdx_all]
    intro c' i e he
    have hi : i < c'.filters.arr.size := by
      rcases Nat.lt_or_ge i c'.filters.arr.size with h | h
      · exact h
      · rw [Array.getElem?_eq_none h] at he; cases he
    unfold addStep
    simp only [toIndex_nat, bind, Option.bind, pure, GoSlice.get, he, hr]
    cases hm : matches_ e.Filter (maskOf arch)
    · simp only [Bool.not_false, if_true]
      rw [show c'.filters.arr.setIfInBounds i e = c'.filters.arr from C16_Registry.setIfInBounds_same _ _ _ he, withArr_self]
    · simp only [Bool.not_true, Bool.false_eq_true, if_false]
      cases hrt : relTarget e.Filter with
      | none =>
        simp only [Option.isSome_none, Bool.false_eq_true, if_false, pointers.Add, pure, GoSlice.set, hi, if_true, bind, Option.bind,
          Array.getElem?_setIfInBounds_self_of_lt hi, Array.size_setIfInBounds, pointers.Len, GoSlice.size, GoSlice.append, Array.size_push,
          Array.setIfInBounds_setIfInBounds, GoMap.isNil]
        unfold addIdx
        cases hn : e.Indices.nonNil
        · simp [withArr, GoSlice.append]
        · simp only [Bool.not_true, Bool.false_eq_true, if_false, Bool.not_false, if_true, set_nonNil _ _ _ hn, bind, Option.bind,
            Array.setIfInBounds_setIfInBounds, GoSlice.append]
          simp [withArr]
      | some ft =>
        simp only [Option.isSome_some, if_true, Option.getD_some]
        by_cases hft : ft = targetOf arch
        · simp only [hft, beq_self_eq_true, if_true, pointers.Add, pure, GoSlice.set, hi, bind, Option.bind,
            Array.getElem?_setIfInBounds_self_of_lt hi, Array.size_setIfInBounds, pointers.Len, GoSlice.size, GoSlice.append, Array.size_push,
            Array.setIfInBounds_setIfInBounds, GoMap.isNil]
          unfold addIdx
          cases hn : e.Indices.nonNil
          · simp [withArr, GoSlice.append]
          · simp only [Bool.not_true, Bool.false_eq_true, if_false, Bool.not_false, if_true, set_nonNil _ _ _ hn, bind, Option.bind,
              Array.setIfInBounds_setIfInBounds, GoSlice.append]
            simp [withArr]
        · have hb : (ft == targetOf arch) = false := by simpa using hft
          simp only [hb, Bool.false_eq_true, if_false, hft, Bool.true_eq_false]
          rw [show c'.filters.arr.setIfInBounds i e = c'.filters.arr from C16_Registry.setIfInBounds_same _ _ _ he, withArr_self]
  · -- a table without relation
    have hr' : hasRel arch = false := by simpa using hr
    simp only [hr', Bool.not_false, if_true, bind, Option.bind, pure, GoSlice.size]
    rw [fold_entries (addStep hasRel maskOf targetOf matches_ relTarget arch) _ _ _ c (Nat.le_refl _), mapIdx_all]
    intro c' i e he
    have hi : i < c'.filters.arr.size := by
      rcases Nat.lt_or_ge i c'.filters.arr.size with h | h
      · exact h
      · rw [Array.getElem?_eq_none h] at he; cases he
    unfold addStep
    simp only [toIndex_nat, bind, Option.bind, pure, GoSlice.get, he, hr']
    cases hm : matches_ e.Filter (maskOf arch)
    · simp only [Bool.not_false, if_true]
      rw [show c'.filters.arr.setIfInBounds i e = c'.filters.arr from C16_Registry.setIfInBounds_same _ _ _ he, withArr_self]
    · simp only [Bool.not_true, Bool.false_eq_true, if_false, pointers.Add, pure, GoSlice.set, hi, if_true, bind, Option.bind]
      rfl
end

/-! ## `Cache.mapArchetypes` -/

/-- one step of building the position map -/
def mapIns (hasRel : Option Nat → Bool) (a : Array (Option Nat)) (m : GoMap (Option Nat) Int) (i : Nat) : GoMap (Option Nat) Int :=
  if hasRel (a.getD i none) = true then ⟨(a.getD i none, (i : Int)) :: (m.delete (a.getD i none)).entries, true⟩ else m

theorem mapIns_nonNil (hasRel : Option Nat → Bool) (a : Array (Option Nat)) (m : GoMap (Option Nat) Int) (i : Nat) (h : m.nonNil = true) :
    (mapIns hasRel a m i).nonNil = true := by
  unfold mapIns
  split
  · rfl
  · exact h

/-- the body of the loop in `mapArchetypes` -/
def mapBody (hasRel : Option Nat → Bool) (st : Cache × cacheEntry) (iN : Nat) : Option (Cache × cacheEntry) := do
  let i : Int := ((iN : Nat) : Int)
  let arch ← GoSlice.get st.2.Archetypes.pointers iN
  if (hasRel arch) then
    let i2 := arch
    let u3 ← GoMap.set st.2.Indices i2 i
    let e := { st.2 with Indices := u3 }
    pure (st.1, e)
  else
    pure (st.1, st.2)

theorem mapBody_eq (hasRel : Option Nat → Bool) (c : Cache) (e : cacheEntry) (i : Nat) (hn : e.Indices.nonNil = true)
    (hi : i < e.Archetypes.pointers.arr.size) :
    mapBody hasRel (c, e) i = some (c, { e with Indices := mapIns hasRel e.Archetypes.pointers.arr e.Indices i }) := by
  have hg : e.Archetypes.pointers.arr[i]? = some (e.Archetypes.pointers.arr.getD i none) := by
    rw [Array.getD_eq_getD_getElem?, Array.getElem?_eq_getElem hi]; rfl
  unfold mapBody mapIns
  simp only [bind, Option.bind, GoSlice.get, hg, pure]
  cases hr : hasRel (e.Archetypes.pointers.arr.getD i none)
  · simp
  · simp only [if_true, set_nonNil _ _ _ hn]

theorem mapLoop (hasRel : Option Nat → Bool) (f : Cache × cacheEntry → Nat → Option (Cache × cacheEntry))
    (hf : ∀ c e i, f (c, e) i = mapBody hasRel (c, e) i)
    (c : Cache) (l : List Nat) (e : cacheEntry) (hn : e.Indices.nonNil = true)
    (hl : ∀ i ∈ l, i < e.Archetypes.pointers.arr.size) :
    l.foldlM f (c, e) =
      some (c, { e with Indices := l.foldl (mapIns hasRel e.Archetypes.pointers.arr) e.Indices }) := by
  induction l generalizing e with
  | nil => rfl
  | cons i l ih =>
    rw [List.foldlM_cons, hf, mapBody_eq hasRel c e i hn (hl i List.mem_cons_self)]
    simp only [bind, Option.bind, List.foldl_cons]
    exact ih _ (mapIns_nonNil _ _ _ _ hn) (fun j hj => hl j (List.mem_cons_of_mem _ hj))

/-- the position map `mapArchetypes` builds: the positions of the relation tables of the entry -/
def builtMap (hasRel : Option Nat → Bool) (e : cacheEntry) : GoMap (Option Nat) Int :=
  (List.range e.Archetypes.pointers.arr.size).foldl (mapIns hasRel e.Archetypes.pointers.arr) GoMap.empty

theorem mapArchetypes_spec (hasRel : Option Nat → Bool) (c : Cache) (e : cacheEntry) :
    Cache.mapArchetypes hasRel c e = some (c, { e with Indices := builtMap hasRel e }) := by
  unfold Cache.mapArchetypes builtMap
  simp only [bind, Option.bind, pure, GoSlice.size]
  rw [mapLoop hasRel _ ?_ c (List.range e.Archetypes.pointers.arr.size) { e with Indices := GoMap.empty } rfl
    (fun i hi => List.mem_range.1 hi)]
  · intro c e i; rfl

/-! ## `Cache.removeArchetype` -/

section
variable (hasRel : Option Nat → Bool) (maskOf : Option Nat → M64.Mask) (matches_ : GoAny → M64.Mask → Bool)

/-- the position map is built on first use -/
def ensureMap (arch : Option Nat) (e : cacheEntry) : cacheEntry :=
  if (GoMap.isNil e.Indices && matches_ e.Filter (maskOf arch)) = true then { e with Indices := builtMap hasRel e } else e

/-- what `removeArchetype` does to one entry (`none` = an index out of range: a position map that
    does not agree with the table list) -/
def remStep (arch : Option Nat) (e : cacheEntry) : Option cacheEntry :=
  let e1 := ensureMap hasRel maskOf matches_ arch e
  match e1.Indices.find arch with
  | none => some e1
  | some idx =>
    match pointers.RemoveAt e1.Archetypes idx with
    | none => none
    | some (a', swap) =>
      if swap = true then
        match pointers.Get a' (BitVec.ofInt 32 idx) with
        | none => none
        | some (_, moved) =>
          match GoMap.set e1.Indices moved idx with
          | none => none
          | some ix => some { e1 with Archetypes := a', Indices := GoMap.delete ix arch }
      else some { e1 with Archetypes := a', Indices := GoMap.delete e1.Indices arch }

theorem get_fst (a : _root_.ArcheGen.P64.pointers Nat) (i : BitVec 32) (r : _root_.ArcheGen.P64.pointers Nat × Option Nat)
    (h : pointers.Get a i = some r) : r.1 = a := by
  unfold pointers.Get at h
  simp only [bind, Option.bind, pure] at h
  cases h1 : GoInt.toIndex i.toInt with
  | none => rw [h1] at h; cases h
  | some n =>
    rw [h1] at h
    simp only [] at h
    cases h2 : GoSlice.get a.pointers n with
    | none => rw [h2] at h; cases h
    | some x => rw [h2] at h; cases h; rfl

/-- **`removeArchetype` maps `remStep` over the entries** (when no step panics) -/
theorem removeArchetype_map (c : Cache) (arch : Option Nat) (g : cacheEntry → cacheEntry)
    (hok : ∀ (i : Nat) (e : cacheEntry), c.filters.arr[i]? = some e → remStep hasRel maskOf matches_ arch e = some (g e)) :
    Cache.removeArchetype hasRel maskOf matches_ c arch = some (withArr c (c.filters.arr.map g)) := by
  unfold Cache.removeArchetype
  simp only [bind, Option.bind, pure, GoSlice.size]
  rw [fold_entries_P (fun e => remStep hasRel maskOf matches_ arch e = some (g e)) g _ _ _ c (Nat.le_refl _) hok, mapIdx_all]
  intro c' i e he hP
  have hi : i < c'.filters.arr.size := by
    rcases Nat.lt_or_ge i c'.filters.arr.size with h | h
    · exact h
    · rw [Array.getElem?_eq_none h] at he; cases he
  unfold remStep ensureMap at hP
  simp only [toIndex_nat, bind, Option.bind, pure, GoSlice.get, he]
  cases hcond : (GoMap.isNil e.Indices && matches_ e.Filter (maskOf arch))
  · -- the map is not (re)built
    simp only [hcond, Bool.false_eq_true, if_false] at hP ⊢
    cases hf : e.Indices.find arch with
    | none =>
      simp only [hf] at hP
      have hge := Option.some.inj hP
      simp only [Option.isSome_none, Bool.false_eq_true, if_false]
      rw [← hge, show c'.filters.arr.setIfInBounds i e = c'.filters.arr from C16_Registry.setIfInBounds_same _ _ _ he, withArr_self]
    | some idx =>
      simp only [hf, Option.isSome_some, if_true, Option.getD_some] at hP ⊢
      cases hra : pointers.RemoveAt e.Archetypes idx with
      | none => rw [hra] at hP; cases hP
      | some r =>
        obtain ⟨a', swap⟩ := r
        rw [hra] at hP
        simp only [] at hP
        simp only [GoSlice.set, hi, if_true, Array.getElem?_setIfInBounds_self_of_lt hi, Array.size_setIfInBounds,
          Array.setIfInBounds_setIfInBounds]
        cases swap
        · simp only [Bool.false_eq_true, if_false] at hP ⊢
          have hge := Option.some.inj hP
          rw [← hge]
          rfl
        · simp only [if_true] at hP ⊢
          cases hg : pointers.Get a' (BitVec.ofInt 32 idx) with
          | none => rw [hg] at hP; cases hP
          | some r2 =>
            have ha2 := get_fst _ _ _ hg
            obtain ⟨a2, moved⟩ := r2
            simp only [] at ha2
            subst ha2
            rw [hg] at hP
            simp only [] at hP
            cases hs : GoMap.set e.Indices moved idx with
            | none => rw [hs] at hP; cases hP
            | some ix =>
              rw [hs] at hP
              have hge := Option.some.inj hP
              simp only [Array.getElem?_setIfInBounds_self_of_lt hi, Array.size_setIfInBounds, hi, if_true, Array.setIfInBounds_setIfInBounds, hs]
              rw [← hge]
              rfl
  · -- the position map is built first
    simp only [hcond, if_true] at hP ⊢
    simp only [mapArchetypes_spec, GoSlice.set, hi, if_true, Array.getElem?_setIfInBounds_self_of_lt hi, Array.size_setIfInBounds,
      Array.setIfInBounds_setIfInBounds]
    cases hf : (builtMap hasRel e).find arch with
    | none =>
      simp only [hf] at hP
      have hge := Option.some.inj hP
      simp only [Option.isSome_none, Bool.false_eq_true, if_false]
      rw [← hge]
      rfl
    | some idx =>
      simp only [hf, Option.isSome_some, if_true, Option.getD_some] at hP ⊢
      cases hra : pointers.RemoveAt e.Archetypes idx with
      | none => rw [hra] at hP; cases hP
      | some r =>
        obtain ⟨a', swap⟩ := r
        rw [hra] at hP
        simp only [] at hP
        simp only [hi, if_true, Array.getElem?_setIfInBounds_self_of_lt hi, Array.size_setIfInBounds,
          Array.setIfInBounds_setIfInBounds]
        cases swap
        · simp only [Bool.false_eq_true, if_false] at hP ⊢
          have hge := Option.some.inj hP
          rw [← hge]
          rfl
        · simp only [if_true] at hP ⊢
          cases hg : pointers.Get a' (BitVec.ofInt 32 idx) with
          | none => rw [hg] at hP; cases hP
          | some r2 =>
            have ha2 := get_fst _ _ _ hg
            obtain ⟨a2, moved⟩ := r2
            simp only [] at ha2
            subst ha2
            rw [hg] at hP
            simp only [] at hP
            cases hs : GoMap.set (builtMap hasRel e) moved idx with
            | none => rw [hs] at hP; cases hP
            | some ix =>
              rw [hs] at hP
              have hge := Option.some.inj hP
              simp only [Array.getElem?_setIfInBounds_self_of_lt hi, Array.size_setIfInBounds, hi, if_true, Array.setIfInBounds_setIfInBounds, hs]
              rw [← hge]
              rfl
end

end Arche.Props.C07_CacheMaint64
