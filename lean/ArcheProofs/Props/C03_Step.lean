/-
  C03 (companion) — `Query.Step(k)` lands where `k` calls of `Next` would.

  `advanceN w k q` is `k` applications of the pure part of `Next`. `step_eq_nexts`: for every
  query whose cursor invariant is kept by `Next` (the cached, batch and node-walk well-formedness
  predicates of C03 / C03_Nodes all are), `Step(k)` with `k ≥ 1` returns exactly the query state
  `k` `Next`s produce and `true`, or reports exhaustion (closing the query) exactly when they do.
  The remainder arithmetic of `Step` — jump inside the table, otherwise subtract what is left of
  the table plus one for entering the next non-empty one, and repeat — is thereby the same walk
  over `positions` as `Next`.
-/
import ArcheProofs.Props.C03_Nodes

namespace Arche.Props.C03.Step
open Arche Arche.World Arche.Query
open Arche.Props.C03 Arche.Props.C03.Match Arche.Props.C03.Nodes

/-- `k` applications of the pure part of `Next` -/
def advanceN (w : World) : Nat → Query → Option Query
  | 0, q => some q
  | k + 1, q => match advance w q with
    | none => none
    | some q' => advanceN w k q'

theorem advanceN_add (w : World) (a b : Nat) (q : Query) :
    advanceN w (a + b) q = (match advanceN w a q with | none => none | some q' => advanceN w b q') := by
  induction a generalizing q with
  | zero => simp [advanceN]
  | succ a ih =>
    have : a + 1 + b = (a + b) + 1 := by omega
    rw [this]
    have e1 : advanceN w (a + b + 1) q = (match advance w q with | none => none | some q' => advanceN w (a + b) q') := rfl
    have e2 : advanceN w (a + 1) q = (match advance w q with | none => none | some q' => advanceN w a q') := rfl
    rw [e1, e2]
    cases advance w q with
    | none => rfl
    | some q' => exact ih q'

/-- inside a table `Next` only increments the row -/
theorem advanceN_within (w : World) (k : Nat) (q : Query) (h : q.entityIndex + k ≤ q.entityIndexMax) :
    advanceN w k q = some { q with entityIndex := q.entityIndex + k } := by
  induction k generalizing q with
  | zero => rfl
  | succ k ih =>
    unfold advanceN advance
    have : q.entityIndex < q.entityIndexMax := by omega
    simp only [this, ↓reduceIte]
    rw [ih _ (by show q.entityIndex + 1 + k ≤ q.entityIndexMax; omega)]
    try (
      have : q.entityIndex + 1 + k = q.entityIndex + (k + 1) := by omega
      simp only [this])

/-! `nextArchetype` does not read the row cursor -/

/-- the query with another row cursor -/
def setEI (q : Query) (x : Nat) : Query := { q with entityIndex := x }

theorem advanceIn_ei (w : World) (q : Query) (ts : Array Nat) (x : Nat) :
    advanceIn w (setEI q x) ts = advanceIn w q ts := by
  unfold advanceIn setEI
  first
    | rfl
    | (simp only []; done)
    | (cases firstNonEmpty w ts q.archNext <;> rfl)

theorem nextNode_ei (w : World) : ∀ (k : Nat) (q : Query) (n x : Nat), q.nodeCount - n = k →
    nextNode w (setEI q x) n = nextNode w q n := by
  intro k
  induction k with
  | zero =>
    intro q n x hk
    unfold nextNode
    have h1 : ¬ n < q.nodeCount := by omega
    have h2 : ¬ n < (setEI q x).nodeCount := h1
    simp only [h1, h2, ↓reduceDIte]
  | succ k ih =>
    intro q n x hk
    unfold nextNode
    have hlt : n < q.nodeCount := by omega
    have hlt2 : n < (setEI q x).nodeCount := hlt
    simp only [hlt, hlt2, ↓reduceDIte]
    have hf : (setEI q x).filter = q.filter := rfl
    rw [hf]
    cases nodeChoice w q.filter n with
    | skip => exact ih q (n + 1) x (by omega)
    | single t => rfl
    | list ts => rfl

theorem nextArchetype_ei (w : World) (q : Query) (x : Nat) :
    (setEI q x).nextArchetype w = q.nextArchetype w := by
  unfold Query.nextArchetype
  have hm : (setEI q x).mode = q.mode := rfl
  rw [hm]
  cases q.mode with
  | cached => exact advanceIn_ei w q q.tlist x
  | batch =>
    simp only []
    have h1 : (setEI q x).batch = q.batch := rfl
    have h2 : (setEI q x).archNext = q.archNext := rfl
    rw [h1, h2]
    cases firstBatch w q.batch q.archNext <;> rfl
  | nodes =>
    simp only []
    have h1 : (setEI q x).nodeArches = q.nodeArches := rfl
    have h2 : (setEI q x).nodeNext = q.nodeNext := rfl
    rw [h1, h2]
    cases q.nodeArches with
    | none => exact nextNode_ei w _ q q.nodeNext x rfl
    | some ts =>
      simp only []
      rw [advanceIn_ei]
      cases advanceIn w q ts with
      | some q' => rfl
      | none => exact nextNode_ei w _ q q.nodeNext x rfl

/-- **Step(k) = k × Next** -/
theorem step_eq_nexts (w : World) (P : Query → Prop) (hP : ∀ q, P q → q.entityIndex ≤ q.entityIndexMax)
    (hadv : ∀ q q', P q → advance w q = some q' → P q') :
    ∀ (fuel : Nat) (q : Query) (step : Nat), P q → 0 < step → step ≤ fuel →
      (match advanceN w step q with
       | some q' => (w.queryStepLoop fuel q step).out = .ok (q', true) ∧ (w.queryStepLoop fuel q step).w = w
       | none => (w.queryStepLoop fuel q step).out.toOption.map (·.2) =
           (w.closeQuery { q with entityIndex := q.entityIndexMax }).out.toOption.map (fun _ => false) ∨
           ∃ qx, (w.queryStepLoop fuel q step).out.toOption.map (·.2) = (w.closeQuery qx).out.toOption.map (fun _ => false)) := by
  intro fuel
  induction fuel with
  | zero => intro q step _ h1 h2; omega
  | succ fuel ih =>
    intro q step hq hpos hle
    unfold queryStepLoop
    simp only []
    by_cases hin : q.entityIndex + step ≤ q.entityIndexMax
    · simp only [hin, ↓reduceIte]
      rw [advanceN_within w step q hin]
      exact ⟨by first | rfl | trivial, by first | rfl | trivial⟩
    · simp only [hin, ↓reduceIte]
      have hbound := hP q hq
      -- steps inside the table, one step into the next table, the rest
      have hsplit : step = (q.entityIndexMax - q.entityIndex) + (1 + (q.entityIndex + step - q.entityIndexMax - 1)) := by omega
      have hd := advanceN_within w (q.entityIndexMax - q.entityIndex) q (by omega)
      have hqmax : P { q with entityIndex := q.entityIndex + (q.entityIndexMax - q.entityIndex) } := by
        -- reached by `Next`s, which keep `P`
        have : ∀ (k : Nat) (q0 : Query), P q0 → q0.entityIndex + k ≤ q0.entityIndexMax → P { q0 with entityIndex := q0.entityIndex + k } := by
          intro k
          induction k with
          | zero => intro q0 h0 _; exact h0
          | succ k ihk =>
            intro q0 h0 hk
            have h1 : advance w q0 = some { q0 with entityIndex := q0.entityIndex + 1 } := by
              unfold advance
              have : q0.entityIndex < q0.entityIndexMax := by omega
              simp only [this, ↓reduceIte]
            have h2 := hadv q0 _ h0 h1
            have h3 := ihk _ h2 (by show q0.entityIndex + 1 + k ≤ q0.entityIndexMax; omega)
            have : q0.entityIndex + 1 + k = q0.entityIndex + (k + 1) := by omega
            simp only [] at h3
            rw [this] at h3
            exact h3
        exact this _ q hq (by omega)
      have heq : q.entityIndex + (q.entityIndexMax - q.entityIndex) = q.entityIndexMax := by omega
      rw [heq] at hd hqmax
      have hne1 := nextArchetype_ei w q (q.entityIndex + step)
      unfold setEI at hne1
      rw [hne1]
      have hnext : advance w { q with entityIndex := q.entityIndexMax } = q.nextArchetype w := by
        unfold advance
        simp only [Nat.lt_irrefl, ↓reduceIte]
        have := nextArchetype_ei w q q.entityIndexMax
        unfold setEI at this
        exact this
      have hN : advanceN w step q =
          (match q.nextArchetype w with | none => none | some q' => advanceN w (q.entityIndex + step - q.entityIndexMax - 1) q') := by
        have h1 : advanceN w 1 { q with entityIndex := q.entityIndexMax } = q.nextArchetype w := by
          unfold advanceN
          rw [hnext]
          cases q.nextArchetype w <;> rfl
        calc advanceN w step q
            = advanceN w ((q.entityIndexMax - q.entityIndex) + (1 + (q.entityIndex + step - q.entityIndexMax - 1))) q := by rw [← hsplit]
          _ = _ := by
            rw [advanceN_add, hd]
            simp only []
            rw [advanceN_add, h1]
      rw [hN]
      cases hna : q.nextArchetype w with
      | none =>
        simp only []
        right
        cases hc : (w.closeQuery { q with entityIndex := q.entityIndex + step }).out with
        | error p => exact ⟨{ q with entityIndex := q.entityIndex + step }, by simp [hc, World.fail, Except.toOption]⟩
        | ok q' => exact ⟨{ q with entityIndex := q.entityIndex + step }, by simp [hc, Except.toOption]⟩
      | some q' =>
        simp only []
        have hq' : P q' := hadv _ q' hqmax (by rw [hnext, hna])
        by_cases hrem : q.entityIndex + step - q.entityIndexMax - 1 = 0
        · have : (q.entityIndex + step - q.entityIndexMax - 1 == 0) = true := by simp [hrem]
          simp only [this, ↓reduceIte]
          rw [hrem]
          exact ⟨by first | rfl | trivial, by first | rfl | trivial⟩
        · have : (q.entityIndex + step - q.entityIndexMax - 1 == 0) = false := by simp [hrem]
          simp only [this, Bool.false_eq_true, ↓reduceIte]
          have := ih q' (q.entityIndex + step - q.entityIndexMax - 1) hq' (by omega) (by omega)
          cases hres : advanceN w (q.entityIndex + step - q.entityIndexMax - 1) q' with
          | some q'' => rw [hres] at this; exact this
          | none =>
            rw [hres] at this
            simp only [] at this ⊢
            right
            rcases this with h | ⟨qx, h⟩
            · exact ⟨_, h⟩
            · exact ⟨qx, h⟩

/-- the three iteration strategies satisfy the premises of `step_eq_nexts` -/
theorem step_cached (w : World) : (∀ q, CWf w q → q.entityIndex ≤ q.entityIndexMax) ∧
    (∀ q q', CWf w q → advance w q = some q' → CWf w q') := by
  refine ⟨?_, ?_⟩
  · intro q h
    obtain ⟨_, hc⟩ := h
    cases hcur : q.cur with
    | none => rw [hcur] at hc; simp only [] at hc; omega
    | some t => rw [hcur] at hc; simp only [] at hc; exact hc.2
  · intro q q' h ha
    have := advance_cached w q h
    rw [ha] at this
    exact this.1

theorem step_nodes (w : World) : (∀ q, NWf w q → q.entityIndex ≤ q.entityIndexMax) ∧
    (∀ q q', NWf w q → advance w q = some q' → NWf w q') := by
  refine ⟨?_, ?_⟩
  · intro q h
    obtain ⟨_, _, hc⟩ := h
    cases hcur : q.cur with
    | none => rw [hcur] at hc; simp only [] at hc; omega
    | some t => rw [hcur] at hc; simp only [] at hc; exact hc.2
  · intro q q' h ha
    have := advance_nodes w q h
    rw [ha] at this
    exact this.1

theorem step_batch (w : World) (b : Array BatchEntry) (hb : BatchOK w b) :
    (∀ q, (BWf q ∧ q.batch = b) → q.entityIndex ≤ q.entityIndexMax) ∧
    (∀ q q', (BWf q ∧ q.batch = b) → advance w q = some q' → (BWf q' ∧ q'.batch = b)) := by
  refine ⟨?_, ?_⟩
  · intro q h
    obtain ⟨⟨_, hc⟩, _⟩ := h
    cases hcur : q.cur with
    | none => rw [hcur] at hc; simp only [] at hc; omega
    | some t => rw [hcur] at hc; simp only [] at hc; exact hc
  · intro q q' h ha
    have := advance_batch w q h.1 (by rw [h.2]; exact hb)
    rw [ha] at this
    exact ⟨this.1, this.2.1.trans h.2⟩

end Arche.Props.C03.Step
