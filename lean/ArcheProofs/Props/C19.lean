/-
  C19 — Worlds are isolated (partly reachable by proof, see DESIGN.md §8).

  Proved: in a product of worlds, an operation on world `i` leaves every other world exactly as
  it was (`step_frame`), and — regenerated on every run — no package-level variable of the
  non-test code is ever assigned or has its address taken, except the escape-analysis sink of
  ecs/archetype.go, whose store is guarded by a flag that is never set
  (`no_shared_mutable_state`). Data-race freedom over all goroutine interleavings is explored
  with the race detector (bin/props.py special_C19), not proved.
-/
import ArcheModel.Driver
import ArcheGen.Facts

namespace Arche.Props.C19
open Arche

/-- a family of independent sessions (worlds), addressed by index -/
def stepAt (ws : Array Sess) (i : Nat) (line : String) : Array Sess :=
  ws.setIfInBounds i (execLine (ws.getD i default) line).s

/-- no operation on one world changes anything in another -/
theorem step_frame (ws : Array Sess) (i j : Nat) (line : String) (h : i ≠ j) :
    (stepAt ws i line)[j]? = ws[j]? := by
  unfold stepAt
  rw [Array.getElem?_setIfInBounds]
  simp [h]

/-- and the world count never changes -/
theorem step_size (ws : Array Sess) (i : Nat) (line : String) : (stepAt ws i line).size = ws.size := by
  unfold stepAt; simp

/-- regenerated fact: the only package-level variable ever written is the escape sink -/
theorem no_shared_mutable_state :
    ArcheGen.Facts.pkgVarWrites.all (fun t => t.1 == "ecs.escapeSink" && t.2.1 == "assigned") = true := by decide

/-- the package-level variables that exist at all (immutable type descriptors and sizes) -/
theorem pkg_vars_known :
    ArcheGen.Facts.pkgVars.all (fun v => ["ecs.entityIndexSize", "ecs.entitySize", "ecs.entityType", "ecs.escapeSink",
      "ecs.layoutSize", "ecs.relationType", "generic.relationType"].contains v) = true := by decide

end Arche.Props.C19
