/-
  C09 companion, `tiny` build — the lock-bit pool and lock mask regenerated from the source under
  the build tag `tiny` (ArcheGen/Pool64.lean: 64 lock bits, one mask word) refine `BitPool` /
  `LockMask` of the world model. The one-word mask only holds bits below 64, so the lock theorems
  carry the bound the pool guarantees (`get_lt`: a bit handed out is below 64).
-/
import ArcheGen.Pool64
import ArcheModel
import ArcheProofs.Lemmas.NatMask
import ArcheProofs.Props.C04

namespace Arche.Props.C09_LockPool64
open ArcheGen ArcheGen.P64 Arche

def absBP (p : bitPool) : BitPool :=
  { bits := p.bits.map (·.toNat), length := p.length.toNat, next := p.next.toNat, available := p.available.toNat }

theorem bv_ne_zero_toNat {n : Nat} (a : BitVec n) (h : a ≠ 0) : 0 < a.toNat := by
  rcases Nat.eq_zero_or_pos a.toNat with h1 | h1
  · exact absurd (BitVec.eq_of_toNat_eq (by simpa using h1)) h
  · exact h1

/-- **`bitPool.Get` is `BitPool.get`**: the same bit and the same pool, and it panics (runs out
    of bits) exactly when the model does -/
theorem bitPool_get_refines (p : bitPool) (hs : p.bits.size = 64) (hnx64 : p.available ≠ 0#16 → p.next.toNat < 64) :
    (bitPool.Get p).map (fun r => (absBP r.1, r.2.toNat)) = BitPool.get (absBP p) := by
  by_cases h0 : p.available = 0#16
  · have ha : ((absBP p).available == 0) = true := by simp [absBP, h0]
    unfold BitPool.get
    rw [if_pos ha]
    by_cases hl : 64 ≤ p.length.toNat
    · have hule : BitVec.ule 64#16 p.length = true := by simp [BitVec.ule]; exact hl
      have hge : (absBP p).length ≥ (absBP p).bits.size := by simp [absBP, hs]; exact hl
      rw [if_pos hge]
      simp [bitPool.Get, h0, bitPool.getNew, hule, bind, Option.bind]
    · have hule : BitVec.ule 64#16 p.length = false := by simp [BitVec.ule]; omega
      have hge : ¬ (absBP p).length ≥ (absBP p).bits.size := by simp [absBP, hs]; omega
      rw [if_neg hge]
      have hin : p.length.toNat < p.bits.size := by omega
      have hw : (BitVec.setWidth 8 p.length).toNat = p.length.toNat := by
        simp [BitVec.toNat_setWidth]; omega
      have hinc : (p.length + 1#16).toNat = p.length.toNat + 1 := by
        rw [BitVec.toNat_add]; simp; omega
      simp only [bitPool.Get, h0, bitPool.getNew, hule, bind, Option.bind, pure, GoArr.set, hin, if_true, Bool.false_eq_true, if_false,
        Option.map, beq_self_eq_true]
      simp only [absBP, Array.map_setIfInBounds, hw, hinc, h0]
  · have hnx : p.next.toNat < p.bits.size := by rw [hs]; exact hnx64 h0
    have hpos := bv_ne_zero_toNat p.available h0
    have hne : (p.available == 0#16) = false := by simpa using h0
    have ha : ((absBP p).available == 0) = false := by
      simp only [absBP, beq_eq_false_iff_ne, ne_eq]; omega
    have hsub : (p.available - 1#16).toNat = p.available.toNat - 1 := by
      rw [BitVec.toNat_sub]; simp; omega
    have hg : p.bits[p.next.toNat]? = some p.bits[p.next.toNat] := Array.getElem?_eq_getElem hnx
    unfold BitPool.get
    simp only [ha, Bool.false_eq_true, if_false]
    simp only [bitPool.Get, hne, bind, Option.bind, pure, GoArr.get, GoArr.set, hg, hnx, if_true, Bool.false_eq_true, if_false, Option.map,
      Array.getElem?_setIfInBounds_self_of_lt hnx]
    simp only [absBP, Array.map_setIfInBounds, hsub]
    congr 3
    rw [Array.getD_eq_getD_getElem?, Array.getElem?_eq_getElem (by simp; exact hnx)]
    simp

theorem bitPool_recycle_refines (p : bitPool) (b : BitVec 8) (hs : p.bits.size = 64) (hav : p.available.toNat < 2 ^ 16 - 1) (hb64 : b.toNat < 64) :
    (bitPool.Recycle p b).map absBP = some (BitPool.recycle (absBP p) b.toNat) := by
  have hb : b.toNat < p.bits.size := by rw [hs]; exact hb64
  have hinc : (p.available + 1#16).toNat = p.available.toNat + 1 := by
    rw [BitVec.toNat_add]; simp; omega
  simp only [bitPool.Recycle, bind, Option.bind, pure, GoArr.set, hb, if_true, Option.map]
  simp only [absBP, BitPool.recycle, Array.map_setIfInBounds, hinc]

theorem bitPool_reset_refines (p : bitPool) : (bitPool.Reset p).map absBP = some (BitPool.reset (absBP p)) := by
  simp [bitPool.Reset, bind, Option.bind, pure, absBP, BitPool.reset]

theorem model_get_size (p : BitPool) (r : BitPool × Nat) (h : p.get = some r) : r.1.bits.size = p.bits.size := by
  unfold BitPool.get at h
  split at h
  · split at h
    · cases h
    · cases h; simp
  · cases h; simp

/-- a bit handed out by the pool is below 64 -/
theorem model_get_lt (p : BitPool) (r : BitPool × Nat) (h : p.get = some r) (hs : p.bits.size = 64) (hn : p.available ≠ 0 → p.next < 64) : r.2 < 64 := by
  unfold BitPool.get at h
  split at h
  · split at h
    · cases h
    · cases h; simp only []; omega
  · rename_i ha
    cases h
    exact hn (by simpa using ha)

theorem get_lt (p : bitPool) (hs : p.bits.size = 64) (hnx64 : p.available ≠ 0#16 → p.next.toNat < 64)
    (r : bitPool × BitVec 8) (h : bitPool.Get p = some r) : r.2.toNat < 64 := by
  have h1 := bitPool_get_refines p hs hnx64
  rw [h] at h1
  refine model_get_lt _ _ h1.symm (by simp [absBP, hs]) ?_
  intro ha
  apply hnx64
  intro hc
  apply ha
  simp [absBP, hc]

theorem bitPool_get_size (p : bitPool) (hs : p.bits.size = 64) (hnx64 : p.available ≠ 0#16 → p.next.toNat < 64) (r : bitPool × BitVec 8) (h : bitPool.Get p = some r) :
    r.1.bits.size = p.bits.size := by
  have h1 := bitPool_get_refines p hs hnx64
  rw [h] at h1
  have h2 := model_get_size _ _ h1.symm
  simpa [absBP] using h2

end Arche.Props.C09_LockPool64

namespace Arche.Props.C09_LockPool64
open ArcheGen ArcheGen.P64 Arche Arche.Props

/-! ## the mask of the default build as the natural number the world model uses -/

def natOf (m : M64.Mask) : Nat := m.bits.toNat

theorem testBit_natOf (m : M64.Mask) (j : Nat) : (natOf m).testBit j = C04.B64.mem m j := by
  unfold natOf C04.B64.mem
  by_cases hj : j < 64
  · simp [hj, BitVec.getLsbD]
  · have : m.bits.toNat.testBit j = false := by
      apply Nat.testBit_lt_two_pow
      exact Nat.lt_of_lt_of_le m.bits.isLt (Nat.pow_le_pow_right (by decide) (by omega))
    simp [hj, this]

end Arche.Props.C09_LockPool64

namespace Arche.Props.C09_LockPool64
open ArcheGen ArcheGen.P64 Arche Arche.Props

theorem get_natOf (m : M64.Mask) (j : Nat) : Mask.get (natOf m) j = C04.B64.mem m j := testBit_natOf m j

theorem natOf_set (l : M64.Mask) (b : BitVec 8) (v : Bool) (hb : b.toNat < 64) : natOf (l.Set b v) = Mask.set (natOf l) b.toNat v := by
  apply Nat.eq_of_testBit_eq
  intro j
  have h1 := get_natOf (l.Set b v) j
  have h2 := Arche.NatMask.get_set (natOf l) b.toNat j v
  unfold Mask.get at h1 h2
  rw [h1, h2, C04.B64.set_spec _ _ _ _ hb, testBit_natOf]

theorem natOf_get (l : M64.Mask) (b : BitVec 8) (hb : b.toNat < 64) : l.Get b = Mask.get (natOf l) b.toNat := by
  rw [C04.B64.get_eq_mem _ _ hb, get_natOf]

theorem natOf_isZero (l : M64.Mask) : (!l.IsZero) = (natOf l != 0) := by
  rw [Bool.eq_iff_iff, Bool.not_eq_true', ← Bool.not_eq_true, C04.B64.isZero_iff, bne_iff_ne, Arche.NatMask.ne_zero_iff]
  constructor
  · intro h
    apply Classical.byContradiction
    intro hn
    apply h
    intro j
    cases hj : C04.B64.mem l j
    · rfl
    · exact absurd ⟨j, by rw [get_natOf]; exact hj⟩ hn
  · rintro ⟨j, hj⟩ h
    rw [get_natOf, h j] at hj
    cases hj

theorem natOf_default : natOf (default : M64.Mask) = 0 := by decide

def absLM (m : lockMask) : LockMask := { locks := natOf m.locks, pool := absBP m.bitPool }

/-- **`lockMask.Lock` is `LockMask.lock`** -/
theorem lock_refines (m : lockMask) (hs : m.bitPool.bits.size = 64) (hnx64 : m.bitPool.available ≠ 0#16 → m.bitPool.next.toNat < 64) :
    (lockMask.Lock m).map (fun r => (absLM r.1, r.2.toNat)) = LockMask.lock (absLM m) := by
  have hg := bitPool_get_refines m.bitPool hs hnx64
  unfold LockMask.lock
  rw [show (absLM m).pool = absBP m.bitPool from rfl, ← hg]
  unfold lockMask.Lock
  cases hget : bitPool.Get m.bitPool with
  | none => simp [bind, Option.bind]
  | some r =>
    obtain ⟨o, b⟩ := r
    have hb := get_lt m.bitPool hs hnx64 _ hget
    simp only [bind, Option.bind, pure, Option.map, absLM, natOf_set _ _ _ hb]

/-- **`lockMask.Unlock` is `LockMask.unlock`** (same refusal of an unbalanced unlock) -/
theorem unlock_refines (m : lockMask) (l : BitVec 8) (hs : m.bitPool.bits.size = 64) (hav : m.bitPool.available.toNat < 2 ^ 16 - 1) (hl : l.toNat < 64) :
    (lockMask.Unlock m l).map absLM = LockMask.unlock (absLM m) l.toNat := by
  unfold lockMask.Unlock LockMask.unlock
  rw [show (absLM m).locks = natOf m.locks from rfl, ← natOf_get _ _ hl]
  cases hb : M64.Mask.Get m.locks l
  · simp [bind, Option.bind]
  · have hr := bitPool_recycle_refines m.bitPool l hs hav hl
    cases hrec : bitPool.Recycle m.bitPool l with
    | none => rw [hrec] at hr; cases hr
    | some o =>
      rw [hrec] at hr
      simp only [Option.map, Option.some.injEq] at hr
      simp only [Bool.not_true, Bool.false_eq_true, if_false, bind, Option.bind, pure, hrec, Option.map, absLM, natOf_set _ _ _ hl, hr]

theorem isLocked_refines (m : lockMask) : (lockMask.IsLocked m).map (·.2) = some (LockMask.isLocked (absLM m)) := by
  simp only [lockMask.IsLocked, bind, Option.bind, pure, Option.map, LockMask.isLocked, absLM, natOf_isZero]

theorem lockReset_refines (m : lockMask) : (lockMask.Reset m).map absLM = some (LockMask.reset (absLM m)) := by
  have hr := bitPool_reset_refines m.bitPool
  cases hrec : bitPool.Reset m.bitPool with
  | none => rw [hrec] at hr; cases hr
  | some o =>
    rw [hrec] at hr
    simp only [Option.map, Option.some.injEq] at hr
    simp only [lockMask.Reset, bind, Option.bind, pure, hrec, Option.map, LockMask.reset, absLM, natOf_default, hr]

end Arche.Props.C09_LockPool64
