/-
  C11 (companion) — batch creation WITH component values (`World.newEntitiesWith`, REGENERATED):
  `newEntitiesWith_after` — whenever it returns, the world and the (table, first row) it hands back are those of the
  silent worker `newEntitiesWithNoNotify`: the notification that follows moves only the hidden state ("events arrive
  after the change").
-/
import ArcheProofs.Props.C02_Remove64

namespace Arche.Props.C11_CreateWith64
open ArcheGen ArcheGen.P64 Arche Arche.Props

section
variable {Ext : Type}
  (archAllocNF : Ext → Option Nat → BitVec 32 → Ext × Unit)
  (archGetEntityF : Ext → Option Nat → BitVec 32 → P64.Entity)
  (archHasComponentF : Ext → Option Nat → BitVec 8 → Bool)
  (archHasRelCompF : Ext → Option Nat → Bool)
  (archLenF : Ext → Option Nat → BitVec 32)
  (archMaskF : Ext → Option Nat → ArcheGen.M64.Mask)
  (archNodeF : Ext → Option Nat → Option Nat)
  (archRelCompF : Ext → Option Nat → BitVec 8)
  (archSetEntityF : Ext → Option Nat → BitVec 32 → P64.Entity → Ext × Unit)
  (archSetF : Ext → Option Nat → BitVec 32 → BitVec 8 → GoAny → Ext × GoAny)
  (findOrCreateF : Ext → P64.World → Option Nat → GoSlice (BitVec 8) → GoSlice (BitVec 8) → P64.Entity → Ext × P64.World × Option Nat)
  (lstCompsF : Ext → GoAny → Option (ArcheGen.M64.Mask))
  (lstSubsF : Ext → GoAny → BitVec 8)
  (nodeHasRelationF : Ext → Option Nat → Bool)
  (nodeRelationF : Ext → Option Nat → BitVec 8)
  (notifyF : Ext → GoAny → P64.EntityEvent → Ext × Unit)
  (pagedGetF : Ext → Nat → BitVec 32 → Option Nat)
  (staleF : Nat → P64.entityIndex)

theorem newEntitiesWith_after (w w' : P64.World) (count : Int) (targetID : BitVec 8) (hasTarget : Bool) (target : P64.Entity) (comps : GoSlice (P64.Component)) (ext : Ext) (ext' : Ext) (res : Option Nat × BitVec 32)
    (h : P64.World.newEntitiesWith archAllocNF archGetEntityF archHasComponentF archHasRelCompF archLenF archMaskF archNodeF archRelCompF archSetEntityF archSetF findOrCreateF lstCompsF lstSubsF nodeHasRelationF nodeRelationF notifyF pagedGetF staleF w count targetID hasTarget target comps ext = some (w', ext', res)) :
    ∃ w0 e0 ids e1,
      P64.World.newEntitiesWithNoNotify archAllocNF archGetEntityF archHasComponentF archLenF archNodeF archSetEntityF archSetF findOrCreateF nodeHasRelationF nodeRelationF pagedGetF staleF w0 count targetID hasTarget target ids comps e0 = some (w', e1, res) := by
  unfold P64.World.newEntitiesWith at h
  simp only [Option.bind_eq_bind, pure] at h
  obtain ⟨s1, -, h1⟩ := Option.bind_eq_some_iff.mp h
  obtain ⟨fr, -, h2⟩ := Option.bind_eq_some_iff.mp h1
  obtain ⟨r, hr, h3⟩ := Option.bind_eq_some_iff.mp h2
  obtain ⟨z, hz, h4⟩ := Option.bind_eq_some_iff.mp h3
  obtain ⟨w1, e1, arch, start⟩ := r
  simp only [Option.some.injEq, Prod.mk.injEq] at h4
  obtain ⟨hw, -, hres⟩ := h4
  have kz : z.1 = w1 := by
    split at hz
    · obtain ⟨_, -, k1⟩ := Option.bind_eq_some_iff.mp hz
      obtain ⟨x, ex, k2⟩ := Option.bind_eq_some_iff.mp k1
      obtain ⟨b8, -, k3⟩ := Option.bind_eq_some_iff.mp k2
      obtain ⟨y, ey, k4⟩ := Option.bind_eq_some_iff.mp k3
      cases k4
      have kx : x.1 = w1 := by
        split at ex
        · obtain ⟨_, -, e⟩ := Option.bind_eq_some_iff.mp ex
          cases e; rfl
        · cases ex; rfl
      have ky : y.1 = x.1 := by
        split at ey
        · obtain ⟨f, ef, e⟩ := Option.bind_eq_some_iff.mp ey
          cases e
          show f.1 = x.1
          refine C02_Remove64.foldlM_inv (fun s => s.1 = x.1) _ ?_ _ _ _ rfl ef
          intro s k s' hs hk
          obtain ⟨_, -, e⟩ := Option.bind_eq_some_iff.mp hk
          obtain ⟨_, -, e⟩ := Option.bind_eq_some_iff.mp e
          cases e; exact hs
        · cases ey; rfl
      show y.1 = w1
      rw [ky, kx]
    · cases hz; rfl
  refine ⟨fr.1, fr.2.1, fr.2.2, e1, ?_⟩
  rw [hr, ← hw, kz, ← hres]

end
end Arche.Props.C11_CreateWith64
