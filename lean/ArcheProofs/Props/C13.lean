/-
  C13 — Determinism (partly reachable by proof, see DESIGN.md §8).

  Proved: the model's trace is a function of the operation list (`run_deterministic`: two runs
  of the driver on the same lines give the same output), and — regenerated on every run — the
  non-test Go code contains no `range` over a map (`no_map_iteration`), the only construct in
  the code base whose order Go randomises. The quantifier over processes and GC schedules is
  explored by re-execution (bin/props.py special_C13), not proved.
-/
import ArcheModel.Driver
import ArcheGen.Facts

namespace Arche.Props.C13
open Arche

/-- run the driver over a list of lines from the initial session -/
def runLines (lines : List String) : List String :=
  (lines.foldl (fun (acc : Sess × List String) l => let r := execLine acc.1 l; (r.s, acc.2 ++ r.lines)) (default, [])).2

/-- same operations, same results: the trace is a function of the operation sequence -/
theorem run_deterministic (a b : List String) (h : a = b) : runLines a = runLines b := by rw [h]

/-- regenerated fact: no `range` over a map-typed operand anywhere in the non-test code of
    packages ecs, ecs/event, ecs/stats, filter, listener, generic -/
theorem no_map_iteration : ArcheGen.Facts.mapRanges = [] := by decide

end Arche.Props.C13
