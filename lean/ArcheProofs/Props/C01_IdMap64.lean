/-
  C01 companion — `idMap[T]` (ecs/id_map.go), the chunked map from component ids to values used for
  a table's column indices (`archetype.indices`) and for the edges of the archetype graph
  (`nodeData.neighbors`), REGENERATED on every run (ArcheGen/Pool64.lean, generic in `T`), is a
  finite map: with `lookup m k` the value the structure holds for key `k`,

    `new_spec`    — `newIDMap` is the empty map and satisfies the invariant
    `get_spec`    — `Get k` returns `lookup m k` (value and presence flag), never panics
    `set_spec`    — `Set k v` gives `lookup · j = if j = k then some v else lookup m j`
    `remove_spec` — `Remove k` of a present key gives `if j = k then none else lookup m j`

  under the invariant `Inv` (16 chunks; a chunk is allocated exactly when its use counter is
  non-zero; the counter is at least the number of present keys of the chunk), which all three
  operations keep. The world model's association lists for graph edges and column indices are the
  abstraction `lookup` of this structure.
-/
import ArcheGen.Pool64
import ArcheModel
import ArcheProofs.Props.C04

namespace Arche.Props.C01_IdMap64
open ArcheGen ArcheGen.P64 Arche Arche.Props

/-! ## counting with one changed element -/

theorem countP_congr' (l : List Nat) (p q : Nat → Bool) (h : ∀ y ∈ l, q y = p y) : l.countP q = l.countP p := by
  induction l with
  | nil => rfl
  | cons a l ih =>
    rw [List.countP_cons, List.countP_cons, ih (fun y hy => h y (List.mem_cons_of_mem _ hy)), h a (List.mem_cons_self)]

theorem countP_update_le (l : List Nat) (hn : l.Nodup) (p q : Nat → Bool) (x : Nat)
    (h : ∀ y ∈ l, y ≠ x → q y = p y) : l.countP q ≤ l.countP p + 1 := by
  induction l with
  | nil => simp
  | cons a l ih =>
    rw [List.nodup_cons] at hn
    rw [List.countP_cons, List.countP_cons]
    by_cases hax : a = x
    · subst hax
      have : l.countP q = l.countP p := countP_congr' l p q (fun y hy => h y (List.mem_cons_of_mem _ hy) (fun hc => hn.1 (hc ▸ hy)))
      rw [this]
      cases q a <;> cases p a <;> simp <;> omega
    · have := ih hn.2 (fun y hy => h y (List.mem_cons_of_mem _ hy))
      rw [h a List.mem_cons_self hax]
      omega

theorem countP_update_down (l : List Nat) (hn : l.Nodup) (p q : Nat → Bool) (x : Nat) (hx : x ∈ l)
    (h : ∀ y ∈ l, y ≠ x → q y = p y) (hp : p x = true) (hq : q x = false) : l.countP q + 1 = l.countP p := by
  induction l with
  | nil => cases hx
  | cons a l ih =>
    rw [List.nodup_cons] at hn
    rw [List.countP_cons, List.countP_cons]
    by_cases hax : a = x
    · subst hax
      have : l.countP q = l.countP p := countP_congr' l p q (fun y hy => h y (List.mem_cons_of_mem _ hy) (fun hc => hn.1 (hc ▸ hy)))
      rw [this, hp, hq]
      simp
    · have hxl : x ∈ l := by
        rcases List.mem_cons.1 hx with h1 | h1
        · exact absurd h1.symm hax
        · exact h1
      have := ih hn.2 hxl (fun y hy => h y (List.mem_cons_of_mem _ hy))
      rw [h a List.mem_cons_self hax]
      omega

/-! ## the map a structure stands for -/
section
variable {T : Type} [Inhabited T]

def chunkOf (m : idMap T) (c : Nat) : GoSlice T := m.chunks.arr.getD c default
def cuOf (m : idMap T) (c : Nat) : Nat := (m.chunkUsed.arr.getD c 0#8).toNat

/-- the value held for key `k` -/
def lookup (m : idMap T) (k : Nat) : Option T :=
  if C04.B64.mem m.used k = true then (chunkOf m (k / 16)).arr[k % 16]? else none

/-- number of present keys in chunk `c` -/
def cntOf (u : M64.Mask) (c : Nat) : Nat := (List.range 16).countP (fun o => C04.B64.mem u (16 * c + o))

structure Inv (m : idMap T) : Prop where
  nchunks : m.chunks.arr.size = 4
  nused : m.chunkUsed.arr.size = 4
  alloc : ∀ c, c < 4 → 0 < cuOf m c → (chunkOf m c).arr.size = 16
  free : ∀ c, c < 4 → cuOf m c = 0 → chunkOf m c = default
  count : ∀ c, c < 4 → cntOf m.used c ≤ cuOf m c

theorem cnt_pos (u : M64.Mask) (k : Nat) (h : C04.B64.mem u k = true) : 1 ≤ cntOf u (k / 16) := by
  unfold cntOf
  apply List.countP_pos_iff.2
  refine ⟨k % 16, List.mem_range.2 (Nat.mod_lt _ (by decide)), ?_⟩
  rw [show 16 * (k / 16) + k % 16 = k from Nat.div_add_mod k 16]
  exact h

theorem cnt_zero (u : M64.Mask) (c : Nat) (h : cntOf u c = 0) (j : Nat) (hj : j / 16 = c) : C04.B64.mem u j = false := by
  cases hm : C04.B64.mem u j
  · rfl
  · have := cnt_pos u j hm
    rw [hj, h] at this
    omega

theorem div16 (i : BitVec 8) : (i / 16#8).toNat = i.toNat / 16 := by simp [BitVec.toNat_udiv]
theorem mod16 (i : BitVec 8) : (i % 16#8).toNat = i.toNat % 16 := by simp [BitVec.toNat_umod]

/-- setting one key changes the count of its chunk by at most one, of other chunks not at all -/
theorem cnt_set_other (u : M64.Mask) (k : BitVec 8) (hk64 : k.toNat < 64) (v : Bool) (c : Nat) (hc : c ≠ k.toNat / 16) :
    cntOf (u.Set k v) c = cntOf u c := by
  unfold cntOf
  apply countP_congr'
  intro o ho
  rw [C04.B64.set_spec _ _ _ _ hk64, if_neg]
  intro h
  apply hc
  have := List.mem_range.1 ho
  omega

theorem cnt_set_le (u : M64.Mask) (k : BitVec 8) (hk64 : k.toNat < 64) (v : Bool) (c : Nat) : cntOf (u.Set k v) c ≤ cntOf u c + 1 := by
  unfold cntOf
  apply countP_update_le _ (List.nodup_range) _ _ (k.toNat % 16)
  intro o ho hne
  rw [C04.B64.set_spec _ _ _ _ hk64, if_neg]
  intro h
  apply hne
  have := List.mem_range.1 ho
  omega

theorem cnt_clear (u : M64.Mask) (k : BitVec 8) (hk64 : k.toNat < 64) (h : C04.B64.mem u k.toNat = true) :
    cntOf (u.Set k false) (k.toNat / 16) + 1 = cntOf u (k.toNat / 16) := by
  unfold cntOf
  apply countP_update_down _ (List.nodup_range) _ _ (k.toNat % 16) (List.mem_range.2 (Nat.mod_lt _ (by decide)))
  · intro o ho hne
    rw [C04.B64.set_spec _ _ _ _ hk64, if_neg]
    intro h
    apply hne
    have := List.mem_range.1 ho
    omega
  · rw [show 16 * (k.toNat / 16) + k.toNat % 16 = k.toNat from Nat.div_add_mod _ 16]; exact h
  · rw [show 16 * (k.toNat / 16) + k.toNat % 16 = k.toNat from Nat.div_add_mod _ 16, C04.B64.set_spec _ _ _ _ hk64, if_pos rfl]

theorem chunks_get (m : idMap T) (I : Inv m) (c : Nat) (hc : c < 4) : m.chunks.arr[c]? = some (chunkOf m c) := by
  unfold chunkOf
  rw [Array.getD_eq_getD_getElem?, Array.getElem?_eq_getElem (by rw [I.nchunks]; exact hc)]; rfl

theorem cu_get (m : idMap T) (I : Inv m) (c : Nat) (hc : c < 4) : m.chunkUsed.arr[c]? = some (m.chunkUsed.arr.getD c 0#8) := by
  rw [Array.getD_eq_getD_getElem?, Array.getElem?_eq_getElem (by rw [I.nused]; exact hc)]; rfl

theorem key_chunk (k : BitVec 8) (hk64 : k.toNat < 64) : k.toNat / 16 < 4 := by omega

/-- **`Get`** returns what the map holds, and whether it holds something; it never panics -/
theorem get_spec (m : idMap T) (I : Inv m) (k : BitVec 8) (hk64 : k.toNat < 64) :
    idMap.Get m k = some (m, ((lookup m k.toNat).getD m.zeroValue, (lookup m k.toNat).isSome)) := by
  unfold idMap.Get lookup
  rw [C04.B64.get_eq_mem _ _ hk64]
  cases hm : C04.B64.mem m.used k.toNat
  · simp [pure]
  · have hc := key_chunk k hk64
    have hcu : 0 < cuOf m (k.toNat / 16) := by
      have h1 := cnt_pos _ _ hm
      have h2 := I.count _ hc
      omega
    have hsz := I.alloc _ hc hcu
    have hin : k.toNat % 16 < (chunkOf m (k.toNat / 16)).arr.size := by rw [hsz]; exact Nat.mod_lt _ (by decide)
    simp only [Bool.not_true, Bool.false_eq_true, if_false, if_true, bind, Option.bind, pure, GoSlice.get, div16, mod16, chunks_get m I _ hc,
      Array.getElem?_eq_getElem hin, Option.getD_some, Option.isSome_some]

/-- the structure after `Set k v`, given the chunk `ch` the value goes into -/
def setResult (m : idMap T) (k : BitVec 8) (v : T) (ch : GoSlice T) : idMap T :=
  { m with
    chunks := { m.chunks with arr := m.chunks.arr.setIfInBounds (k.toNat / 16) { ch with arr := ch.arr.setIfInBounds (k.toNat % 16) v } },
    used := m.used.Set k true,
    chunkUsed := { m.chunkUsed with arr := m.chunkUsed.arr.setIfInBounds (k.toNat / 16) (m.chunkUsed.arr.getD (k.toNat / 16) 0#8 + 1#8) } }

theorem isNil_default : GoSlice.isNil (default : GoSlice T) = true := rfl

theorem set_eval_fresh (m : idMap T) (I : Inv m) (k : BitVec 8) (hk64 : k.toNat < 64) (v : T) (h0 : cuOf m (k.toNat / 16) = 0) :
    idMap.Set m k v = some (setResult m k v ⟨Array.replicate 16 default, 16⟩) := by
  have hc := key_chunk k hk64
  have hfree := I.free _ hc h0
  have hm : GoSlice.make (α := T) (16 : Int) (16 : Int) = some ⟨Array.replicate 16 default, 16⟩ := rfl
  have hc' : k.toNat / 16 < m.chunks.arr.size := by rw [I.nchunks]; exact hc
  have hu' : k.toNat / 16 < m.chunkUsed.arr.size := by rw [I.nused]; exact hc
  unfold idMap.Set setResult
  simp only [bind, Option.bind, pure, GoSlice.get, GoSlice.set, div16, mod16, chunks_get m I _ hc, hfree, isNil_default, if_true, hm, hc', hu',
    Array.size_setIfInBounds, Array.getElem?_setIfInBounds_self_of_lt hc', Array.size_replicate, show k.toNat % 16 < 16 from Nat.mod_lt _ (by decide),
    cu_get m I _ hc, Array.setIfInBounds_setIfInBounds]

theorem set_eval_alloc (m : idMap T) (I : Inv m) (k : BitVec 8) (hk64 : k.toNat < 64) (v : T) (h0 : 0 < cuOf m (k.toNat / 16)) :
    idMap.Set m k v = some (setResult m k v (chunkOf m (k.toNat / 16))) := by
  have hc := key_chunk k hk64
  have hsz := I.alloc _ hc h0
  have hnn : GoSlice.isNil (chunkOf m (k.toNat / 16)) = false := by
    unfold GoSlice.isNil; rw [hsz]; rfl
  have hc' : k.toNat / 16 < m.chunks.arr.size := by rw [I.nchunks]; exact hc
  have hu' : k.toNat / 16 < m.chunkUsed.arr.size := by rw [I.nused]; exact hc
  unfold idMap.Set setResult
  simp only [bind, Option.bind, pure, GoSlice.get, GoSlice.set, div16, mod16, chunks_get m I _ hc, hnn, Bool.false_eq_true, if_false, hc', hu',
    Array.size_setIfInBounds, Array.getElem?_setIfInBounds_self_of_lt hc', hsz, show k.toNat % 16 < 16 from Nat.mod_lt _ (by decide), if_true,
    cu_get m I _ hc, Array.setIfInBounds_setIfInBounds]

theorem setResult_chunk (m : idMap T) (I : Inv m) (k : BitVec 8) (hk64 : k.toNat < 64) (v : T) (ch : GoSlice T) (c : Nat) :
    chunkOf (setResult m k v ch) c =
      if c = k.toNat / 16 then { ch with arr := ch.arr.setIfInBounds (k.toNat % 16) v } else chunkOf m c := by
  have hc' : k.toNat / 16 < m.chunks.arr.size := by rw [I.nchunks]; exact key_chunk k hk64
  unfold chunkOf setResult
  simp only []
  rw [Array.getD_eq_getD_getElem?, Array.getElem?_setIfInBounds]
  by_cases h : k.toNat / 16 = c
  · rw [if_pos h, if_pos hc', if_pos h.symm]; rfl
  · rw [if_neg h, if_neg (fun hh => h hh.symm), ← Array.getD_eq_getD_getElem?]

theorem setResult_cu (m : idMap T) (I : Inv m) (k : BitVec 8) (hk64 : k.toNat < 64) (v : T) (ch : GoSlice T) (c : Nat) (hlt : cuOf m (k.toNat / 16) < 255) :
    cuOf (setResult m k v ch) c = if c = k.toNat / 16 then cuOf m c + 1 else cuOf m c := by
  have hu' : k.toNat / 16 < m.chunkUsed.arr.size := by rw [I.nused]; exact key_chunk k hk64
  unfold cuOf at *
  unfold setResult
  simp only []
  rw [Array.getD_eq_getD_getElem?, Array.getElem?_setIfInBounds]
  by_cases h : k.toNat / 16 = c
  · rw [if_pos h, if_pos hu', if_pos h.symm, ← h]
    simp only [Option.getD_some]
    rw [BitVec.toNat_add, show (1#8).toNat = 1 from rfl, Nat.mod_eq_of_lt (by omega)]
  · rw [if_neg h, if_neg (fun hh => h hh.symm), ← Array.getD_eq_getD_getElem?]

/-- the result of `Set` is the updated map and satisfies the invariant -/
theorem setResult_spec (m : idMap T) (I : Inv m) (k : BitVec 8) (hk64 : k.toNat < 64) (v : T) (ch : GoSlice T) (hlt : cuOf m (k.toNat / 16) < 255)
    (hsz : ch.arr.size = 16)
    (hch : ∀ j, j / 16 = k.toNat / 16 → C04.B64.mem m.used j = true → ch.arr[j % 16]? = (chunkOf m (k.toNat / 16)).arr[j % 16]?) :
    Inv (setResult m k v ch) ∧ ∀ j, lookup (setResult m k v ch) j = if j = k.toNat then some v else lookup m j := by
  have hc := key_chunk k hk64
  constructor
  · refine ⟨by simp [setResult, I.nchunks], by simp [setResult, I.nused], ?_, ?_, ?_⟩
    · intro c hc1 hpos
      rw [setResult_chunk m I k hk64, setResult_cu m I k hk64 _ _ _ hlt] at *
      by_cases h : c = k.toNat / 16
      · rw [if_pos h]; simp [hsz]
      · rw [if_neg h] at *; exact I.alloc c hc1 hpos
    · intro c hc1 hz
      rw [setResult_chunk m I k hk64, setResult_cu m I k hk64 _ _ _ hlt] at *
      by_cases h : c = k.toNat / 16
      · rw [if_pos h] at hz; omega
      · rw [if_neg h] at *; exact I.free c hc1 hz
    · intro c hc1
      rw [setResult_cu m I k hk64 _ _ _ hlt]
      show cntOf (m.used.Set k true) c ≤ _
      by_cases h : c = k.toNat / 16
      · rw [if_pos h]
        have h1 := cnt_set_le m.used k hk64 true c
        have h2 := I.count c hc1
        omega
      · rw [if_neg h, cnt_set_other _ _ hk64 _ _ h]; exact I.count c hc1
  · intro j
    unfold lookup
    rw [show (setResult m k v ch).used = m.used.Set k true from rfl, C04.B64.set_spec _ _ _ _ hk64, setResult_chunk m I k hk64]
    by_cases hjk : j = k.toNat
    · subst hjk
      rw [if_pos rfl, if_pos rfl, if_pos rfl, if_pos rfl]
      simp only []
      rw [Array.getElem?_setIfInBounds_self_of_lt (by rw [hsz]; exact Nat.mod_lt _ (by decide))]
    · rw [if_neg hjk, if_neg hjk]
      by_cases hm : C04.B64.mem m.used j = true
      · rw [if_pos hm, if_pos hm]
        by_cases hcj : j / 16 = k.toNat / 16
        · rw [if_pos hcj]
          simp only []
          rw [Array.getElem?_setIfInBounds_ne (by omega), hch j hcj hm, hcj]
        · rw [if_neg hcj]
      · rw [if_neg hm, if_neg hm]

/-- **`Set`** -/
theorem set_spec (m : idMap T) (I : Inv m) (k : BitVec 8) (hk64 : k.toNat < 64) (v : T) (hlt : cuOf m (k.toNat / 16) < 255) :
    ∃ m', idMap.Set m k v = some m' ∧ Inv m' ∧ m'.zeroValue = m.zeroValue ∧
      ∀ j, lookup m' j = if j = k.toNat then some v else lookup m j := by
  have hc := key_chunk k hk64
  by_cases h0 : cuOf m (k.toNat / 16) = 0
  · obtain ⟨i1, i2⟩ := setResult_spec m I k hk64 v ⟨Array.replicate 16 default, 16⟩ hlt (by simp) (by
      intro j hj hm
      have := cnt_pos _ _ hm
      have := I.count _ hc
      rw [hj] at *
      omega)
    exact ⟨_, set_eval_fresh m I k hk64 v h0, i1, rfl, i2⟩
  · obtain ⟨i1, i2⟩ := setResult_spec m I k hk64 v (chunkOf m (k.toNat / 16)) hlt (I.alloc _ hc (by omega)) (fun _ _ _ => rfl)
    exact ⟨_, set_eval_alloc m I k hk64 v (by omega), i1, rfl, i2⟩

/-- the structure after `Remove k` -/
def removeResult (m : idMap T) (k : BitVec 8) : idMap T :=
  { m with
    used := m.used.Set k false,
    chunkUsed := { m.chunkUsed with arr := m.chunkUsed.arr.setIfInBounds (k.toNat / 16) (m.chunkUsed.arr.getD (k.toNat / 16) 0#8 - 1#8) },
    chunks := if (m.chunkUsed.arr.getD (k.toNat / 16) 0#8 - 1#8 == 0#8) = true
      then { m.chunks with arr := m.chunks.arr.setIfInBounds (k.toNat / 16) default } else m.chunks }

theorem remove_eval (m : idMap T) (I : Inv m) (k : BitVec 8) (hk64 : k.toNat < 64) : idMap.Remove m k = some (removeResult m k) := by
  have hc := key_chunk k hk64
  have hc' : k.toNat / 16 < m.chunks.arr.size := by rw [I.nchunks]; exact hc
  have hu' : k.toNat / 16 < m.chunkUsed.arr.size := by rw [I.nused]; exact hc
  unfold idMap.Remove removeResult
  simp only [bind, Option.bind, pure, GoSlice.get, GoSlice.set, div16, cu_get m I _ hc, hu', hc', if_true, Array.size_setIfInBounds,
    Array.getElem?_setIfInBounds_self_of_lt hu']
  by_cases hz : (m.chunkUsed.arr.getD (k.toNat / 16) 0#8 - 1#8 == 0#8) = true
  · simp only [hz, if_true]
  · simp only [hz, Bool.false_eq_true, if_false]

/-- **`Remove`** of a present key -/
theorem remove_spec (m : idMap T) (I : Inv m) (k : BitVec 8) (hk64 : k.toNat < 64) (hk : C04.B64.mem m.used k.toNat = true) :
    ∃ m', idMap.Remove m k = some m' ∧ Inv m' ∧ m'.zeroValue = m.zeroValue ∧
      ∀ j, lookup m' j = if j = k.toNat then none else lookup m j := by
  have hc := key_chunk k hk64
  have hc' : k.toNat / 16 < m.chunks.arr.size := by rw [I.nchunks]; exact hc
  have hu' : k.toNat / 16 < m.chunkUsed.arr.size := by rw [I.nused]; exact hc
  have hcnt := cnt_pos _ _ hk
  have hcount := I.count _ hc
  have hpos : 1 ≤ cuOf m (k.toNat / 16) := by omega
  have hlt : cuOf m (k.toNat / 16) < 256 := (m.chunkUsed.arr.getD (k.toNat / 16) 0#8).isLt
  have hsub : (m.chunkUsed.arr.getD (k.toNat / 16) 0#8 - 1#8).toNat = cuOf m (k.toNat / 16) - 1 := by
    unfold cuOf at *
    rw [BitVec.toNat_sub, show (1#8).toNat = 1 from rfl]
    omega
  have hz : (m.chunkUsed.arr.getD (k.toNat / 16) 0#8 - 1#8 == 0#8) = decide (cuOf m (k.toNat / 16) = 1) := by
    rw [Bool.eq_iff_iff, beq_iff_eq, decide_eq_true_iff]
    constructor
    · intro h; have := congrArg BitVec.toNat h; rw [hsub] at this; simp at this; omega
    · intro h; apply BitVec.eq_of_toNat_eq; rw [hsub, h]; rfl
  have hcu : ∀ c, cuOf (removeResult m k) c = if c = k.toNat / 16 then cuOf m c - 1 else cuOf m c := by
    intro c
    unfold cuOf removeResult
    simp only []
    rw [Array.getD_eq_getD_getElem?, Array.getElem?_setIfInBounds]
    by_cases h : k.toNat / 16 = c
    · rw [if_pos h, if_pos hu', if_pos h.symm, ← h]
      simp only [Option.getD_some]
      exact hsub
    · rw [if_neg h, if_neg (fun hh => h hh.symm), ← Array.getD_eq_getD_getElem?]
  have hchunk : ∀ c, chunkOf (removeResult m k) c =
      if c = k.toNat / 16 ∧ cuOf m (k.toNat / 16) = 1 then default else chunkOf m c := by
    intro c
    unfold chunkOf removeResult
    simp only [hz]
    by_cases h1 : cuOf m (k.toNat / 16) = 1
    · simp only [h1, decide_true, if_true, and_true]
      rw [Array.getD_eq_getD_getElem?, Array.getElem?_setIfInBounds]
      by_cases h : k.toNat / 16 = c
      · rw [if_pos h, if_pos hc', if_pos h.symm]; rfl
      · rw [if_neg h, if_neg (fun hh => h hh.symm), ← Array.getD_eq_getD_getElem?]
    · simp only [h1, decide_false, Bool.false_eq_true, if_false, and_false]
  refine ⟨_, remove_eval m I k hk64, ⟨?_, ?_, ?_, ?_, ?_⟩, rfl, ?_⟩
  · unfold removeResult
    simp only []
    by_cases hz' : (m.chunkUsed.arr.getD (k.toNat / 16) 0#8 - 1#8 == 0#8) = true
    · rw [if_pos hz']; simp [I.nchunks]
    · rw [if_neg hz']; exact I.nchunks
  · simp [removeResult, I.nused]
  · intro c hc1 hp
    rw [hcu] at hp
    rw [hchunk]
    by_cases h : c = k.toNat / 16
    · subst h
      rw [if_pos rfl] at hp
      rw [if_neg (by omega)]
      exact I.alloc _ hc1 (by omega)
    · rw [if_neg h] at hp
      rw [if_neg (fun hh => h hh.1)]
      exact I.alloc c hc1 hp
  · intro c hc1 hz0
    rw [hcu] at hz0
    rw [hchunk]
    by_cases h : c = k.toNat / 16
    · subst h
      rw [if_pos rfl] at hz0
      rw [if_pos ⟨rfl, by omega⟩]
    · rw [if_neg h] at hz0
      rw [if_neg (fun hh => h hh.1)]
      exact I.free c hc1 hz0
  · intro c hc1
    rw [hcu]
    show cntOf (m.used.Set k false) c ≤ _
    by_cases h : c = k.toNat / 16
    · rw [if_pos h, h]
      have := cnt_clear m.used k hk64 hk
      omega
    · rw [if_neg h, cnt_set_other _ _ hk64 _ _ h]; exact I.count c hc1
  · intro j
    unfold lookup
    rw [show (removeResult m k).used = m.used.Set k false from rfl, C04.B64.set_spec _ _ _ _ hk64, hchunk]
    by_cases hjk : j = k.toNat
    · rw [if_pos hjk, if_pos hjk]; rfl
    · rw [if_neg hjk, if_neg hjk]
      by_cases hm : C04.B64.mem m.used j = true
      · rw [if_pos hm, if_pos hm]
        by_cases hcj : j / 16 = k.toNat / 16 ∧ cuOf m (k.toNat / 16) = 1
        · -- the chunk was freed: no other key of it can be present
          exfalso
          have h1 := cnt_clear m.used k hk64 hk
          have h2 : C04.B64.mem (m.used.Set k false) j = true := by rw [C04.B64.set_spec _ _ _ _ hk64, if_neg hjk]; exact hm
          have h3 := cnt_pos _ _ h2
          rw [hcj.1] at h3
          omega
        · rw [if_neg hcj]
      · rw [if_neg hm, if_neg hm]

/-- **`newIDMap`** is the empty map -/
theorem new_spec : ∃ m : idMap T, newIDMap = some m ∧ Inv m ∧ ∀ j, lookup m j = none := by
  refine ⟨_, rfl, ⟨by simp, by simp, ?_, ?_, ?_⟩, ?_⟩
  · intro c hc hp
    exfalso
    unfold cuOf at hp
    simp only [] at hp
    rw [Array.getD_eq_getD_getElem?, Array.getElem?_eq_getElem (by simpa using hc)] at hp
    simp at hp
    exact absurd hp (by decide)
  · intro c hc _
    unfold chunkOf
    simp only []
    rw [Array.getD_eq_getD_getElem?, Array.getElem?_eq_getElem (by simpa using hc)]
    simp
  · intro c hc
    have : cntOf (default : M64.Mask) c = 0 := by
      unfold cntOf
      apply List.countP_eq_zero.2
      intro o _
      rw [C04.B64.mem_default]
      simp
    show cntOf (default : M64.Mask) c ≤ _
    omega
  · intro j
    unfold lookup
    rw [show (C04.B64.mem (default : M64.Mask) j) = false from C04.B64.mem_default j]
    simp

end
end Arche.Props.C01_IdMap64
