/-
  C03 (companion) — the node-walk strategy of `Query.Next` (queries through a filter that is
  not registered): `nextNode` scans the node list; a node contributes nothing, one table, or —
  for a relation node and a filter without target — its whole table list, walked by the same
  `advanceIn` as a cached list. `advance_nodes`: one `Next` moves the cursor to the head of what
  remains and reports exhaustion exactly when nothing remains; `visit_nodes`: iterating a fresh
  node-walk query visits exactly `positions`, in order, each once. No invariant is needed: this
  is a statement about the iterator and `positions` alone (C03_Match relates `positions` to the
  matching entities).
-/
import ArcheProofs.Props.C03_Match

namespace Arche.Props.C03.Nodes
open Arche Arche.World Arche.Query
open Arche.Props.C03 Arche.Props.C03.Match

/-- the positions node `n` contributes -/
def nodePoss (w : World) (f : Filter) (n : Nat) : List (Nat × Nat) := (nodeRanges w f n).flatMap (fun x => rowsOf x.1 x.2.1 x.2.2)

theorem nodeChoice_poss (w : World) (f : Filter) (n : Nat) :
    (match nodeChoice w f n with
     | .skip => nodePoss w f n = []
     | .single t => nodePoss w f n = rowsOf t 0 (w.tableOf t).rows.size ∧ 0 < (w.tableOf t).rows.size
     | .list ts => nodePoss w f n = tposs w ts.toList) := by
  unfold nodeChoice nodePoss nodeRanges tposs
  simp only []
  by_cases hskip : (!(w.nodeOf n).active || !f.sat (w.nodeOf n).mask) = true
  · simp only [hskip, ↓reduceIte]; rfl
  simp only [hskip, Bool.false_eq_true, ↓reduceIte]
  by_cases hrel : (w.nodeOf n).rel.isNone = true
  · simp only [hrel, ↓reduceIte]
    by_cases hpos : (w.tableOf ((w.nodeOf n).tables.getD 0 0)).rows.size > 0
    · simp only [hpos, ↓reduceIte, List.flatMap_cons, List.flatMap_nil, List.append_nil]
      first | exact ⟨trivial, hpos⟩ | exact ⟨trivial, trivial⟩ | trivial
    · simp only [hpos, ↓reduceIte, List.flatMap_cons, List.flatMap_nil, List.append_nil]
      have : (w.tableOf ((w.nodeOf n).tables.getD 0 0)).rows.size = 0 := by omega
      rw [this]; rfl
  · simp only [hrel, Bool.false_eq_true, ↓reduceIte]
    cases f.relTarget? with
    | none => simp only []; rw [List.flatMap_map]
    | some tg =>
      simp only []
      cases assocGet (w.nodeOf n).tmap tg with
      | none => rfl
      | some t =>
        simp only []
        by_cases hpos : (w.tableOf t).rows.size > 0
        · simp only [hpos, ↓reduceIte, List.flatMap_cons, List.flatMap_nil, List.append_nil]
          first | exact ⟨trivial, hpos⟩ | exact ⟨trivial, trivial⟩ | trivial
        · simp only [hpos, ↓reduceIte, List.flatMap_cons, List.flatMap_nil, List.append_nil]
          have : (w.tableOf t).rows.size = 0 := by omega
          rw [this]; rfl

/-- well-formed cursor of a node-walk query -/
def NWf (w : World) (q : Query) : Prop :=
  q.mode = .nodes ∧ q.nodeNext ≤ q.nodeCount ∧
  match q.cur with
  | none => q.entityIndex = 0 ∧ q.entityIndexMax = 0
  | some t => q.entityIndexMax + 1 = (w.tableOf t).rows.size ∧ q.entityIndex ≤ q.entityIndexMax

/-- the positions of the nodes from `n` on -/
def nodesFrom (w : World) (f : Filter) (n count : Nat) : List (Nat × Nat) :=
  (List.range' n (count - n)).flatMap (nodePoss w f)

/-- the rest of the current node's table list -/
def listRest (w : World) (q : Query) : List (Nat × Nat) :=
  match q.nodeArches with
  | some ts => tposs w (ts.toList.drop q.archNext)
  | none => []

/-- what is still to be visited -/
def remainingN (w : World) (q : Query) : List (Nat × Nat) :=
  rowsOf (q.cur.getD 0) (q.entityIndex + 1) (q.entityIndexMax - q.entityIndex) ++ listRest w q ++ nodesFrom w q.filter q.nodeNext q.nodeCount

theorem nodesFrom_succ (w : World) (f : Filter) (n count : Nat) (h : n < count) :
    nodesFrom w f n count = nodePoss w f n ++ nodesFrom w f (n + 1) count := by
  unfold nodesFrom
  have : count - n = (count - (n + 1)) + 1 := by omega
  rw [this, List.range'_succ, List.flatMap_cons]

theorem nodesFrom_end (w : World) (f : Filter) (n count : Nat) (h : ¬ n < count) : nodesFrom w f n count = [] := by
  unfold nodesFrom
  have : count - n = 0 := by omega
  rw [this]; rfl

/-- what `advanceIn` does on a table list, in terms of the rows that remain -/
theorem advanceIn_spec (w : World) (q : Query) (ts : Array Nat) :
    (match advanceIn w q ts with
     | none => tposs w (ts.toList.drop q.archNext) = []
     | some q' => ∃ j, q' = { q with archNext := j + 1, cur := some (ts.getD j 0), entityIndex := 0,
                                     entityIndexMax := (w.tableOf (ts.getD j 0)).rows.size - 1 } ∧
         0 < (w.tableOf (ts.getD j 0)).rows.size ∧
         tposs w (ts.toList.drop q.archNext) = rowsOf (ts.getD j 0) 0 (w.tableOf (ts.getD j 0)).rows.size ++ tposs w (ts.toList.drop (j + 1))) := by
  unfold advanceIn
  have hs := firstNonEmpty_spec w ts q.archNext
  cases hf : firstNonEmpty w ts q.archNext with
  | none => rw [hf] at hs; exact hs
  | some j =>
    rw [hf] at hs
    simp only [] at hs ⊢
    obtain ⟨_, hjs, hpos, hdrop⟩ := hs
    refine ⟨j, rfl, hpos, ?_⟩
    rw [hdrop, List.drop_eq_getElem_cons (by simp; exact hjs), tposs_cons]
    have hget : ts.toList[j]'(by simp; exact hjs) = ts.getD j 0 := by
      simp [Array.getD_eq_getD_getElem?, hjs]
    rw [hget]

/-- **`nextNode`**: scanning the node list from `n` lands on the first position of the nodes
    from `n` on, or reports that there is none -/
theorem nextNode_spec (w : World) : ∀ (k : Nat) (q : Query) (n : Nat), q.nodeCount - n = k → q.mode = .nodes →
    (match nextNode w q n with
     | none => nodesFrom w q.filter n q.nodeCount = []
     | some q' => NWf w q' ∧ q'.filter = q.filter ∧ q'.nodeCount = q.nodeCount ∧
         nodesFrom w q.filter n q.nodeCount = cursor q' :: remainingN w q') := by
  intro k
  induction k with
  | zero =>
    intro q n hk _
    unfold nextNode
    have : ¬ n < q.nodeCount := by omega
    simp only [this, ↓reduceDIte]
    exact nodesFrom_end w q.filter n q.nodeCount this
  | succ k ih =>
    intro q n hk hm
    unfold nextNode
    have hlt : n < q.nodeCount := by omega
    simp only [hlt, ↓reduceDIte]
    have hc := nodeChoice_poss w q.filter n
    rw [nodesFrom_succ w q.filter n q.nodeCount hlt]
    cases hch : nodeChoice w q.filter n with
    | skip =>
      rw [hch] at hc; simp only [] at hc ⊢
      rw [hc, List.nil_append]
      exact ih q (n + 1) (by omega) hm
    | single t =>
      rw [hch] at hc; simp only [] at hc ⊢
      obtain ⟨hp, hpos⟩ := hc
      refine ⟨⟨hm, by show n + 1 ≤ q.nodeCount; omega, ?_⟩, by first | rfl | trivial, by first | rfl | trivial, ?_⟩
      · show (w.tableOf t).rows.size - 1 + 1 = _ ∧ 0 ≤ _; exact ⟨by omega, Nat.zero_le _⟩
      · rw [hp]
        unfold remainingN cursor listRest
        simp only [Option.getD_some, Nat.sub_zero, Nat.zero_add, List.append_nil]
        have : (w.tableOf t).rows.size = ((w.tableOf t).rows.size - 1) + 1 := by omega
        rw [this, rowsOf_succ]
        simp
    | list ts =>
      rw [hch] at hc; simp only [] at hc ⊢
      have ha := advanceIn_spec w { q with nodeNext := n + 1, nodeArches := some ts, archNext := 0, cur := none, entityIndex := 0, entityIndexMax := 0 } ts
      cases hadv : advanceIn w { q with nodeNext := n + 1, nodeArches := some ts, archNext := 0, cur := none, entityIndex := 0, entityIndexMax := 0 } ts with
      | none =>
        rw [hadv] at ha; simp only [List.drop_zero] at ha ⊢
        rw [hc, ha, List.nil_append]
        exact ih _ (n + 1) (by show q.nodeCount - (n + 1) = k; omega) hm
      | some q'' =>
        rw [hadv] at ha; simp only [List.drop_zero] at ha ⊢
        obtain ⟨j, hq'', hpos, hsplit⟩ := ha
        rw [hq'']
        refine ⟨⟨hm, by show n + 1 ≤ q.nodeCount; omega, ?_⟩, by first | rfl | trivial, by first | rfl | trivial, ?_⟩
        · show (w.tableOf (ts.getD j 0)).rows.size - 1 + 1 = _ ∧ 0 ≤ _; exact ⟨by omega, Nat.zero_le _⟩
        · rw [hc, hsplit]
          unfold remainingN cursor listRest
          simp only [Option.getD_some, Nat.sub_zero, Nat.zero_add]
          have : (w.tableOf (ts.getD j 0)).rows.size = ((w.tableOf (ts.getD j 0)).rows.size - 1) + 1 := by omega
          rw [this, rowsOf_succ]
          simp

/-- One `Next` on a node-walk query: the cursor moves to the head of what remains; exhaustion is
    reported exactly when nothing remains. -/
theorem advance_nodes (w : World) (q : Query) (h : NWf w q) :
    (match advance w q with
     | none => remainingN w q = []
     | some q' => NWf w q' ∧ q'.filter = q.filter ∧ q'.nodeCount = q.nodeCount ∧ remainingN w q = cursor q' :: remainingN w q') := by
  obtain ⟨hm, hnn, hc⟩ := h
  unfold advance
  by_cases hlt : q.entityIndex < q.entityIndexMax
  · simp only [hlt, ↓reduceIte]
    cases hcur : q.cur with
    | none => rw [hcur] at hc; simp only [] at hc; omega
    | some t =>
      rw [hcur] at hc; simp only [] at hc
      refine ⟨⟨hm, hnn, ?_⟩, by first | rfl | trivial, by first | rfl | trivial, ?_⟩
      · simp only [hcur]; exact ⟨hc.1, by omega⟩
      unfold remainingN cursor listRest
      simp only [hcur, Option.getD_some]
      have : q.entityIndexMax - q.entityIndex = (q.entityIndexMax - (q.entityIndex + 1)) + 1 := by omega
      rw [this, rowsOf_succ]; rfl
  · simp only [hlt, ↓reduceIte]
    have hrest : rowsOf (q.cur.getD 0) (q.entityIndex + 1) (q.entityIndexMax - q.entityIndex) = [] := by
      have : q.entityIndexMax - q.entityIndex = 0 := by
        cases hcur : q.cur with
        | none => rw [hcur] at hc; simp only [] at hc; omega
        | some t => rw [hcur] at hc; simp only [] at hc; omega
      rw [this]; rfl
    unfold Query.nextArchetype
    simp only [hm]
    have hnode := nextNode_spec w _ q q.nodeNext rfl hm
    cases hna : q.nodeArches with
    | none =>
      simp only []
      unfold remainingN listRest
      rw [hrest, hna]
      simp only [List.nil_append]
      cases hnx : nextNode w q q.nodeNext with
      | none => rw [hnx] at hnode; exact hnode
      | some q' => rw [hnx] at hnode; exact hnode
    | some ts =>
      simp only []
      have ha := advanceIn_spec w q ts
      cases hadv : advanceIn w q ts with
      | some q'' =>
        rw [hadv] at ha; simp only [] at ha ⊢
        obtain ⟨j, hq'', hpos, hsplit⟩ := ha
        rw [hq'']
        refine ⟨⟨hm, hnn, ?_⟩, by first | rfl | trivial, by first | rfl | trivial, ?_⟩
        · show (w.tableOf (ts.getD j 0)).rows.size - 1 + 1 = _ ∧ 0 ≤ _; exact ⟨by omega, Nat.zero_le _⟩
        · unfold remainingN cursor listRest
          simp only [hna, Option.getD_some, Nat.sub_zero, Nat.zero_add]
          rw [hrest, List.nil_append, hsplit]
          have : (w.tableOf (ts.getD j 0)).rows.size = ((w.tableOf (ts.getD j 0)).rows.size - 1) + 1 := by omega
          rw [this, rowsOf_succ]
          simp
      | none =>
        rw [hadv] at ha; simp only [] at ha ⊢
        unfold remainingN listRest
        rw [hrest, hna]
        simp only [List.nil_append]
        rw [ha, List.nil_append]
        cases hnx : nextNode w q q.nodeNext with
        | none => rw [hnx] at hnode; exact hnode
        | some q' => rw [hnx] at hnode; exact hnode

/-- iterating a node-walk query with enough fuel visits exactly what remains, in order -/
theorem visit_remainingN (w : World) (fuel : Nat) (q : Query) (h : NWf w q) (hf : (remainingN w q).length < fuel) :
    visit w fuel q = remainingN w q := by
  induction fuel generalizing q with
  | zero => omega
  | succ f ih =>
    unfold visit
    have ha := advance_nodes w q h
    cases hadv : advance w q with
    | none => rw [hadv] at ha; simp only [] at ha ⊢; exact ha.symm
    | some q' =>
      rw [hadv] at ha; simp only [] at ha ⊢
      rw [ha.2.2.2]
      congr 1
      apply ih q' ha.1
      rw [ha.2.2.2] at hf; simp at hf; omega

/-- **Iterating a fresh query over a filter that is not registered visits exactly `positions`,
    in order, each position once.** -/
theorem visit_nodes (w : World) (q : Query) (hm : q.mode = .nodes)
    (hfresh : q.cur = none ∧ q.entityIndex = 0 ∧ q.entityIndexMax = 0 ∧ q.archNext = 0 ∧ q.nodeNext = 0 ∧ q.nodeArches = none) :
    visit w ((positions w q).length + 1) q = positions w q := by
  have hwf : NWf w q := ⟨hm, by rw [hfresh.2.2.2.2.1]; exact Nat.zero_le _, by simp only [hfresh.1]; exact ⟨hfresh.2.1, hfresh.2.2.1⟩⟩
  have hrem : remainingN w q = positions w q := by
    unfold remainingN listRest nodesFrom positions
    simp only [hfresh.1, hfresh.2.1, hfresh.2.2.1, hfresh.2.2.2.2.1, hfresh.2.2.2.2.2, Nat.sub_self, Nat.sub_zero]
    rw [rowsOf_zero, List.nil_append, List.nil_append]
    have hr : q.ranges w = (List.range q.nodeCount).flatMap (nodeRanges w q.filter) := by
      unfold Query.ranges; rw [hm]; rfl
    rw [hr, List.flatMap_assoc, List.range_eq_range']
    rfl
  rw [← hrem]
  exact visit_remainingN w _ q hwf (by omega)

/-- the node-walk queries the model creates are fresh in this sense -/
theorem query_fresh_nodes (w : World) (f : Filter) (q : Query) (h : (w.query f).out = .ok q) (hnc : ∀ g id, f ≠ .cached g id) :
    q.mode = .nodes ∧ q.cur = none ∧ q.entityIndex = 0 ∧ q.entityIndexMax = 0 ∧ q.archNext = 0 ∧ q.nodeNext = 0 ∧ q.nodeArches = none := by
  unfold World.query at h
  cases f with
  | cached g id => exact absurd rfl (hnc g id)
  | _ =>
    all_goals (
      simp only [] at h
      cases hlk : w.lock with
      | none => simp [hlk, World.fail] at h
      | some wb =>
        simp only [hlk, Except.ok.injEq] at h
        rw [← h]; exact ⟨rfl, rfl, rfl, rfl, rfl, rfl, rfl⟩)

end Arche.Props.C03.Nodes
