/-
  C08 (companion, tiny build) — the batch workers REGENERATED from ecs/world_internal.go: `World.exchangeBatchNoNotify` with
  `exchangeArch` (Batch.Add / Remove / Exchange, Relations.ExchangeBatch and their Q variants) and
  `World.setRelationBatchNoNotify` with `setRelationArch` (Batch.SetRelation, Relations.SetBatch), recording their
  moves in the regenerated `batchArchetypes`.

  * `exchangeBatch_locked`, `setRelBatch_locked`: a locked world refuses before anything happens;
  * `exchangeBatch_noop`: nothing to add and nothing to remove — nothing happens (and a relation given then panics);
  * `exchangeBatch_dead_target`, `setRelBatch_dead_target`: a dead target is refused before any table is touched;
  * `batchAdd_spec`: what one recorded move looks like.
-/
import ArcheProofs.Props.C01_ExchangeGen64
import ArcheProofs.Props.C08_RemoveGen64

namespace Arche.Props.C08_BatchGen64
open ArcheGen ArcheGen.P64 Arche Arche.Props

section
variable {Ext : Type}
  (archActiveF : Ext → Option Nat → Bool) (archAllocNF : Ext → Option Nat → BitVec 32 → Ext × Unit)
  (archComponentsF : Ext → Option Nat → GoSlice (BitVec 8)) (archGetEntityF : Ext → Option Nat → BitVec 32 → P64.Entity)
  (archGetF : Ext → Option Nat → BitVec 32 → BitVec 8 → GoAny) (archHasComponentF : Ext → Option Nat → BitVec 8 → Bool)
  (archHasRelationF : Ext → Option Nat → Bool)
  (archInitF : Ext → Option Nat → Option Nat → Option Nat → BitVec 32 → Bool → Int → P64.Entity → Ext × Unit)
  (archLenF : Ext → Option Nat → BitVec 32) (archMaskF : Ext → Option Nat → ArcheGen.M64.Mask)
  (archNodeF : Ext → Option Nat → Option Nat) (archResetF : Ext → Option Nat → Ext × Unit)
  (archSetEntityF : Ext → Option Nat → BitVec 32 → P64.Entity → Ext × Unit)
  (archSetPointerF : Ext → Option Nat → BitVec 32 → BitVec 8 → GoAny → Ext × Unit) (archTargetF : Ext → Option Nat → P64.Entity)
  (archsGetF : GoAny → BitVec 32 → Option Nat) (archsLenF : GoAny → BitVec 32) (asCachedFilterF : GoAny → Option CachedFilter)
  (findOrCreateF : Ext → P64.World → Option Nat → GoSlice (BitVec 8) → GoSlice (BitVec 8) → P64.Entity → Ext × P64.World × Option Nat)
  (matchesF : GoAny → ArcheGen.M64.Mask → Bool) (nodeActiveF : Ext → Option Nat → Bool)
  (nodeArchMapF : Ext → Option Nat → P64.Entity → Option (Option Nat)) (nodeArchetypesF : Ext → Option Nat → GoAny)
  (nodeCreateArchetypeF : Ext → Option Nat → Int → P64.Entity → Ext × Option Nat)
  (nodeGetArchetypeF : Ext → Option Nat → P64.Entity → Option Nat × Bool)
  (nodeHasRelationF : Ext → Option Nat → Bool) (nodeMatchesF : Ext → Option Nat → GoAny → Bool)
  (nodeRelationF : Ext → Option Nat → BitVec 8)
  (nodeRemoveArchetypeF : Ext → Option Nat → Option Nat → Ext × Unit) (nodeSetArchetypeF : Ext → Option Nat → Option Nat → Ext × Unit)
  (pagedAddF : Ext → Nat → Ext × Unit) (pagedGetF : Ext → Nat → BitVec 32 → Option Nat) (pagedLenF : Ext → Nat → BitVec 32)
  (relationTargetF : GoAny → Option P64.Entity)

theorem exchangeBatch_locked (w : P64.World) (f : GoAny) (add rem : GoSlice (BitVec 8)) (rel : BitVec 8) (hasRel : Bool) (target : P64.Entity)
    (b : batchArchetypes) (ext : Ext) (h : LockMask.isLocked (C09_LockPool64.absLM w.locks) = true) :
    P64.World.exchangeBatchNoNotify archActiveF archAllocNF archComponentsF archGetEntityF archGetF archHasRelationF archLenF archMaskF archNodeF archResetF
      archSetEntityF archSetPointerF archTargetF archsGetF archsLenF asCachedFilterF findOrCreateF matchesF nodeActiveF nodeArchMapF nodeArchetypesF
      nodeHasRelationF nodeMatchesF nodeRemoveArchetypeF relationTargetF w f add rem rel hasRel target b ext = none := by
  unfold P64.World.exchangeBatchNoNotify
  rw [C09_WorldLock64.checkLocked_spec]
  simp [h, bind, Option.bind]

/-- nothing to add and nothing to remove: the call changes nothing and reports 0 entities — unless a relation is given,
    which panics -/
theorem exchangeBatch_noop (w : P64.World) (f : GoAny) (add rem : GoSlice (BitVec 8)) (rel : BitVec 8) (hasRel : Bool) (target : P64.Entity)
    (b : batchArchetypes) (ext : Ext) (hl : LockMask.isLocked (C09_LockPool64.absLM w.locks) = false)
    (ha : add.arr.size = 0) (hr : rem.arr.size = 0) :
    P64.World.exchangeBatchNoNotify archActiveF archAllocNF archComponentsF archGetEntityF archGetF archHasRelationF archLenF archMaskF archNodeF archResetF
      archSetEntityF archSetPointerF archTargetF archsGetF archsLenF asCachedFilterF findOrCreateF matchesF nodeActiveF nodeArchMapF nodeArchetypesF
      nodeHasRelationF nodeMatchesF nodeRemoveArchetypeF relationTargetF w f add rem rel hasRel target b ext =
      if hasRel = true then none else some (w, b, ext, 0) := by
  unfold P64.World.exchangeBatchNoNotify
  rw [C09_WorldLock64.checkLocked_spec]
  simp only [hl, Bool.false_eq_true, ↓reduceIte, Option.bind_eq_bind, Option.bind_some, GoSlice.size, ha, hr, pure]
  cases hasRel <;> simp

theorem exchangeBatch_dead_target (w : P64.World) (f : GoAny) (add rem : GoSlice (BitVec 8)) (rel : BitVec 8) (target : P64.Entity)
    (b : batchArchetypes) (ext : Ext) (hz : target.id ≠ 0#32)
    (h : Pool.alive? (C02_Pool64.absPool w.entityPool) (C02_Pool64.absE target) ≠ some true) :
    P64.World.exchangeBatchNoNotify archActiveF archAllocNF archComponentsF archGetEntityF archGetF archHasRelationF archLenF archMaskF archNodeF archResetF
      archSetEntityF archSetPointerF archTargetF archsGetF archsLenF asCachedFilterF findOrCreateF matchesF nodeActiveF nodeArchMapF nodeArchetypesF
      nodeHasRelationF nodeMatchesF nodeRemoveArchetypeF relationTargetF w f add rem rel true target b ext = none := by
  unfold P64.World.exchangeBatchNoNotify
  rw [C09_WorldLock64.checkLocked_spec]
  by_cases hl : LockMask.isLocked (C09_LockPool64.absLM w.locks) = true
  · simp [hl, bind, Option.bind]
  · have hz' : (target.id == 0#32) = false := by simpa using hz
    simp only [hl, Bool.false_eq_true, ↓reduceIte, Option.bind_eq_bind, Option.bind_some, pure, Entity.IsZero, hz', Bool.not_false]
    split
    · rfl
    · cases ha : Pool.alive? (C02_Pool64.absPool w.entityPool) (C02_Pool64.absE target) with
      | none => simp [C02_Create64.alive_none _ _ ha]
      | some bb =>
        cases bb with
        | true => exact absurd ha h
        | false => simp [C02_Create64.alive_eq _ _ _ ha]

theorem setRelBatch_locked (w : P64.World) (f : GoAny) (comp : BitVec 8) (target : P64.Entity) (b : batchArchetypes) (ext : Ext)
    (h : LockMask.isLocked (C09_LockPool64.absLM w.locks) = true) :
    P64.World.setRelationBatchNoNotify archActiveF archAllocNF archComponentsF archGetEntityF archGetF archHasComponentF archHasRelationF archInitF archLenF
      archMaskF archNodeF archResetF archSetEntityF archSetPointerF archTargetF archsGetF archsLenF asCachedFilterF matchesF nodeActiveF nodeArchMapF
      nodeArchetypesF nodeCreateArchetypeF nodeGetArchetypeF nodeHasRelationF nodeMatchesF nodeRelationF nodeRemoveArchetypeF nodeSetArchetypeF
      pagedAddF pagedGetF pagedLenF relationTargetF w f comp target b ext = none := by
  unfold P64.World.setRelationBatchNoNotify
  rw [C09_WorldLock64.checkLocked_spec]
  simp [h, bind, Option.bind]

theorem setRelBatch_dead_target (w : P64.World) (f : GoAny) (comp : BitVec 8) (target : P64.Entity) (b : batchArchetypes) (ext : Ext)
    (hz : target.id ≠ 0#32) (h : Pool.alive? (C02_Pool64.absPool w.entityPool) (C02_Pool64.absE target) ≠ some true) :
    P64.World.setRelationBatchNoNotify archActiveF archAllocNF archComponentsF archGetEntityF archGetF archHasComponentF archHasRelationF archInitF archLenF
      archMaskF archNodeF archResetF archSetEntityF archSetPointerF archTargetF archsGetF archsLenF asCachedFilterF matchesF nodeActiveF nodeArchMapF
      nodeArchetypesF nodeCreateArchetypeF nodeGetArchetypeF nodeHasRelationF nodeMatchesF nodeRelationF nodeRemoveArchetypeF nodeSetArchetypeF
      pagedAddF pagedGetF pagedLenF relationTargetF w f comp target b ext = none := by
  unfold P64.World.setRelationBatchNoNotify
  rw [C09_WorldLock64.checkLocked_spec]
  by_cases hl : LockMask.isLocked (C09_LockPool64.absLM w.locks) = true
  · simp [hl, bind, Option.bind]
  · have hz' : (target.id == 0#32) = false := by simpa using hz
    simp only [hl, Bool.false_eq_true, ↓reduceIte, Option.bind_eq_bind, Option.bind_some, pure, Entity.IsZero, hz', Bool.not_false]
    cases ha : Pool.alive? (C02_Pool64.absPool w.entityPool) (C02_Pool64.absE target) with
    | none => simp [C02_Create64.alive_none _ _ ha]
    | some bb =>
      cases bb with
      | true => exact absurd ha h
      | false => simp [C02_Create64.alive_eq _ _ _ ha]

/-! ### frame of the per-table move -/

/-- nothing of the world view changed but the entity index, the target flags, the filter cache and the node lists -/
def BFrame (w w' : P64.World) : Prop :=
  w' = { w with entities := w'.entities, targetEntities := w'.targetEntities, filterCache := w'.filterCache,
                nodePointers := w'.nodePointers, relationNodes := w'.relationNodes }

theorem BFrame.refl (w : P64.World) : BFrame w w := rfl
theorem BFrame.trans {a b c : P64.World} (h1 : BFrame a b) (h2 : BFrame b c) : BFrame a c := by
  unfold BFrame at *
  rw [h2, h1]
theorem BFrame.of_cache {a b : P64.World} (h : C02_Remove64.CacheOnly a b) : BFrame a b := by
  unfold BFrame; unfold C02_Remove64.CacheOnly at h; rw [h]
theorem BFrame.of_find (hFind : C01_ExchangeGen64.FindFrame findOrCreateF) (ext : Ext) (w : P64.World) (a : Option Nat) (add rem : GoSlice (BitVec 8)) (tg : P64.Entity) :
    BFrame w (findOrCreateF ext w a add rem tg).2.1 := by
  unfold BFrame
  have := hFind ext w a add rem tg
  rw [this]
theorem BFrame.pool {a b : P64.World} (h : BFrame a b) : b.entityPool = a.entityPool ∧ b.locks = a.locks ∧ b.registry = a.registry ∧ b.resources = a.resources := by
  unfold BFrame at h; rw [h]; exact ⟨rfl, rfl, rfl, rfl⟩

/-- **moving the rows of one table (`exchangeArch`) touches the entity index, the target flags, the filter cache and the
    node lists only** — never the pool, the locks, the registry or the resources (given the frame of the graph walk) -/
theorem exchangeArch_frame (hFind : C01_ExchangeGen64.FindFrame findOrCreateF)
    (w w' : P64.World) (old : Option Nat) (n : BitVec 32) (add rem : GoSlice (BitVec 8)) (rel : BitVec 8) (hasRel : Bool) (target : P64.Entity)
    (ext ext' : Ext) (r : Option Nat × BitVec 32)
    (h : P64.World.exchangeArch archActiveF archAllocNF archComponentsF archGetEntityF archGetF archHasRelationF archLenF archMaskF archNodeF archResetF
      archSetEntityF archSetPointerF archTargetF findOrCreateF matchesF nodeHasRelationF nodeRemoveArchetypeF w old n add rem rel hasRel target ext = some (w', ext', r)) :
    BFrame w w' := by
  unfold P64.World.exchangeArch at h
  simp only [Option.bind_eq_bind, pure] at h
  obtain ⟨_, _, hq⟩ := Option.bind_eq_some_iff.mp h
  clear h; have h := hq; clear hq
  obtain ⟨⟨w1, m1⟩, hmask, hq⟩ := Option.bind_eq_some_iff.mp h
  clear h; have h := hq; clear hq
  have hw1 : w1 = w := C01_ExchangeGen64.getExchangeMask_world _ _ _ _ _ _ hmask
  subst hw1
  obtain ⟨_, _, hq⟩ := Option.bind_eq_some_iff.mp h
  clear h; have h := hq; clear hq
  obtain ⟨⟨w2, e2, t2⟩, hj, hq⟩ := Option.bind_eq_some_iff.mp h
  clear h; have h := hq; clear hq
  have hw2 : w2 = w1 := by
    try dsimp only at hj
    split at hj
    · split at hj
      · obtain ⟨_, _, hj⟩ := Option.bind_eq_some_iff.mp hj; cases hj
      · split at hj
        · obtain ⟨_, _, hj⟩ := Option.bind_eq_some_iff.mp hj; cases hj
        · simp only [Option.some.injEq, Prod.mk.injEq] at hj; exact hj.1.symm
    · obtain ⟨_, _, hj⟩ := Option.bind_eq_some_iff.mp hj
      obtain ⟨_, _, hj⟩ := Option.bind_eq_some_iff.mp hj
      obtain ⟨_, _, hj⟩ := Option.bind_eq_some_iff.mp hj
      obtain ⟨⟨w3, e3, t3⟩, hj3, hj⟩ := Option.bind_eq_some_iff.mp hj
      simp only [Option.some.injEq, Prod.mk.injEq] at hj
      rw [← hj.1]
      split at hj3
      · obtain ⟨⟨w4, e4, t4, b4⟩, hloop, hj3⟩ := Option.bind_eq_some_iff.mp hj3
        simp only [Option.some.injEq, Prod.mk.injEq] at hj3
        rw [← hj3.1]
        have := C02_Remove64.foldlM_inv (fun (s : P64.World × Ext × P64.Entity × Bool) => s.1 = w1) _ ?_ _ _ _ rfl hloop
        · exact this
        · intro s k s' hs hk
          try dsimp only at hk
          split at hk
          · simp only [Option.some.injEq] at hk; rw [← hk]; exact hs
          · obtain ⟨_, _, hk⟩ := Option.bind_eq_some_iff.mp hk
            split at hk <;> (simp only [Option.some.injEq] at hk; rw [← hk]; exact hs)
      · simp only [Option.some.injEq, Prod.mk.injEq] at hj3; exact hj3.1.symm
  subst hw2
  try dsimp only at h
  obtain ⟨_, _, hq⟩ := Option.bind_eq_some_iff.mp h
  clear h; have h := hq; clear hq
  obtain ⟨_, _, hq⟩ := Option.bind_eq_some_iff.mp h
  clear h; have h := hq; clear hq
  obtain ⟨⟨w5, e5⟩, hrows, hq⟩ := Option.bind_eq_some_iff.mp h
  clear h; have h := hq; clear hq
  have hw5 : BFrame w2 w5 := by
    have := C02_Remove64.foldlM_inv (fun (s : P64.World × Ext) => BFrame w2 s.1) _ ?_ _ _ _ (BFrame.of_find findOrCreateF hFind _ _ _ _ _ _) hrows
    · exact this
    · intro s k s' hs hk
      obtain ⟨sw, se⟩ := s
      try dsimp only at hk hs
      obtain ⟨_, _, hk⟩ := Option.bind_eq_some_iff.mp hk
      obtain ⟨_, _, hk⟩ := Option.bind_eq_some_iff.mp hk
      obtain ⟨c17, _, hk⟩ := Option.bind_eq_some_iff.mp hk
      obtain ⟨u18, _, hk⟩ := Option.bind_eq_some_iff.mp hk
      obtain ⟨c20, _, hk⟩ := Option.bind_eq_some_iff.mp hk
      obtain ⟨u21, _, hk⟩ := Option.bind_eq_some_iff.mp hk
      obtain ⟨⟨w6, e6⟩, hinner, hk⟩ := Option.bind_eq_some_iff.mp hk
      simp only [Option.some.injEq] at hk
      rw [← hk]
      have hin := C02_Remove64.foldlM_inv (fun (s : P64.World × Ext) => s.1 = { sw with entities := u21 }) _ ?_ _ _ _ rfl hinner
      · try dsimp only at hin
        rw [hin]
        exact BFrame.trans hs rfl
      · intro s2 k2 s2' hs2 hk2
        obtain ⟨_, _, hk2⟩ := Option.bind_eq_some_iff.mp hk2
        obtain ⟨⟨w7, e7⟩, hj7, hk2⟩ := Option.bind_eq_some_iff.mp hk2
        simp only [Option.some.injEq] at hk2
        rw [← hk2]
        split at hj7
        · obtain ⟨_, _, hj7⟩ := Option.bind_eq_some_iff.mp hj7
          obtain ⟨_, _, hj7⟩ := Option.bind_eq_some_iff.mp hj7
          simp only [Option.some.injEq, Prod.mk.injEq] at hj7
          rw [← hj7.1]; exact hs2
        · simp only [Option.some.injEq, Prod.mk.injEq] at hj7
          rw [← hj7.1]; exact hs2
  obtain ⟨_, _, hq⟩ := Option.bind_eq_some_iff.mp h
  clear h; have h := hq; clear hq
  obtain ⟨⟨w8, e8⟩, hflag, hq⟩ := Option.bind_eq_some_iff.mp h
  clear h; have h := hq; clear hq
  have hw8 : BFrame w5 w8 := by
    split at hflag
    · obtain ⟨_, _, hflag⟩ := Option.bind_eq_some_iff.mp hflag
      simp only [Option.some.injEq, Prod.mk.injEq] at hflag
      rw [← hflag.1]; rfl
    · simp only [Option.some.injEq, Prod.mk.injEq] at hflag
      rw [← hflag.1]; exact BFrame.refl _
  obtain ⟨_, _, hq⟩ := Option.bind_eq_some_iff.mp h
  clear h; have h := hq; clear hq
  obtain ⟨⟨w9, e9⟩, hclean, hq⟩ := Option.bind_eq_some_iff.mp h
  simp only [Option.some.injEq, Prod.mk.injEq] at hq
  rw [← hq.1]
  exact BFrame.trans (BFrame.trans hw5 hw8) (BFrame.of_cache (C02_Remove64.cleanupArchetype_frame archActiveF archHasRelationF archLenF archMaskF archNodeF archTargetF matchesF nodeHasRelationF
    nodeRemoveArchetypeF _ _ _ _ _ hclean))

/-- the per-table worker of `Batch.SetRelation` / `Relations.SetBatch` has the same frame -/
theorem setRelationArch_frame (w w' : P64.World) (old : Option Nat) (n : BitVec 32) (comp : BitVec 8) (target : P64.Entity)
    (ext ext' : Ext) (r : Option Nat × BitVec 32 × BitVec 32)
    (h : P64.World.setRelationArch archActiveF archAllocNF archComponentsF archGetEntityF archGetF archHasComponentF archHasRelationF archInitF archLenF archMaskF
      archNodeF archResetF archSetEntityF archSetPointerF archTargetF matchesF nodeCreateArchetypeF nodeGetArchetypeF nodeHasRelationF nodeRelationF
      nodeRemoveArchetypeF nodeSetArchetypeF pagedAddF pagedGetF pagedLenF relationTargetF w old n comp target ext = some (w', ext', r)) :
    BFrame w w' := by
  unfold P64.World.setRelationArch at h
  simp only [Option.bind_eq_bind, pure] at h
  obtain ⟨w1, hchk, hq⟩ := Option.bind_eq_some_iff.mp h
  clear h; have h := hq; clear hq
  have hw1 : w1 = w := C05_SetRelGen64.checkRelation_same _ _ _ _ _ _ _ _ hchk
  subst hw1
  obtain ⟨_, _, hq⟩ := Option.bind_eq_some_iff.mp h
  clear h; have h := hq; clear hq
  obtain ⟨_, _, hq⟩ := Option.bind_eq_some_iff.mp h
  clear h; have h := hq; clear hq
  obtain ⟨_, _, hq⟩ := Option.bind_eq_some_iff.mp h
  clear h; have h := hq; clear hq
  obtain ⟨⟨w2, e2, a2⟩, hj, hq⟩ := Option.bind_eq_some_iff.mp h
  clear h; have h := hq; clear hq
  have hw2 : BFrame w1 w2 := by
    split at hj
    · obtain ⟨_, _, hj⟩ := Option.bind_eq_some_iff.mp hj
      obtain ⟨⟨wc, ec, ac⟩, hcreate, hj⟩ := Option.bind_eq_some_iff.mp hj
      simp only [Option.some.injEq, Prod.mk.injEq] at hj
      rw [← hj.1]
      exact BFrame.of_cache (C05_SetRelGen64.createArchetype_frame archHasRelationF archInitF archMaskF archTargetF matchesF nodeCreateArchetypeF nodeHasRelationF
        nodeSetArchetypeF pagedAddF pagedGetF pagedLenF relationTargetF _ _ _ _ _ _ _ _ hcreate)
    · simp only [Option.some.injEq, Prod.mk.injEq] at hj
      rw [← hj.1]; exact BFrame.refl _
  try dsimp only at h
  obtain ⟨_, _, hq⟩ := Option.bind_eq_some_iff.mp h
  clear h; have h := hq; clear hq
  obtain ⟨_, _, hq⟩ := Option.bind_eq_some_iff.mp h
  clear h; have h := hq; clear hq
  obtain ⟨⟨w5, e5⟩, hrows, hq⟩ := Option.bind_eq_some_iff.mp h
  clear h; have h := hq; clear hq
  have hw5 : BFrame w1 w5 := by
    have := C02_Remove64.foldlM_inv (fun (s : P64.World × Ext) => BFrame w1 s.1) _ ?_ _ _ _ hw2 hrows
    · exact this
    · intro s k s' hs hk
      obtain ⟨sw, se⟩ := s
      try dsimp only at hk hs
      obtain ⟨_, _, hk⟩ := Option.bind_eq_some_iff.mp hk
      obtain ⟨_, _, hk⟩ := Option.bind_eq_some_iff.mp hk
      obtain ⟨c17, _, hk⟩ := Option.bind_eq_some_iff.mp hk
      obtain ⟨u18, _, hk⟩ := Option.bind_eq_some_iff.mp hk
      obtain ⟨c20, _, hk⟩ := Option.bind_eq_some_iff.mp hk
      obtain ⟨u21, _, hk⟩ := Option.bind_eq_some_iff.mp hk
      obtain ⟨⟨w6, e6⟩, hinner, hk⟩ := Option.bind_eq_some_iff.mp hk
      simp only [Option.some.injEq] at hk
      rw [← hk]
      have hin := C02_Remove64.foldlM_inv (fun (s : P64.World × Ext) => s.1 = { sw with entities := u21 }) _ ?_ _ _ _ rfl hinner
      · try dsimp only at hin
        rw [hin]
        exact BFrame.trans hs rfl
      · intro s2 k2 s2' hs2 hk2
        obtain ⟨_, _, hk2⟩ := Option.bind_eq_some_iff.mp hk2
        obtain ⟨_, _, hk2⟩ := Option.bind_eq_some_iff.mp hk2
        obtain ⟨_, _, hk2⟩ := Option.bind_eq_some_iff.mp hk2
        simp only [Option.some.injEq] at hk2
        rw [← hk2]; exact hs2
  obtain ⟨_, _, hq⟩ := Option.bind_eq_some_iff.mp h
  clear h; have h := hq; clear hq
  obtain ⟨⟨w8, e8⟩, hflag, hq⟩ := Option.bind_eq_some_iff.mp h
  clear h; have h := hq; clear hq
  have hw8 : BFrame w5 w8 := by
    split at hflag
    · obtain ⟨_, _, hflag⟩ := Option.bind_eq_some_iff.mp hflag
      simp only [Option.some.injEq, Prod.mk.injEq] at hflag
      rw [← hflag.1]; rfl
    · simp only [Option.some.injEq, Prod.mk.injEq] at hflag
      rw [← hflag.1]; exact BFrame.refl _
  obtain ⟨_, _, hq⟩ := Option.bind_eq_some_iff.mp h
  clear h; have h := hq; clear hq
  obtain ⟨⟨w9, e9⟩, hclean, hq⟩ := Option.bind_eq_some_iff.mp h
  clear h; have h := hq; clear hq
  have hw9 : BFrame w8 w9 := BFrame.of_cache (C02_Remove64.cleanupArchetype_frame archActiveF archHasRelationF archLenF archMaskF archNodeF archTargetF matchesF nodeHasRelationF
    nodeRemoveArchetypeF _ _ _ _ _ hclean)
  try dsimp only at h
  obtain ⟨_, _, hq⟩ := Option.bind_eq_some_iff.mp h
  simp only [Option.some.injEq, Prod.mk.injEq] at hq
  rw [← hq.1]
  exact BFrame.trans (BFrame.trans hw5 hw8) hw9

/-- `Alive` hands the pool back unchanged -/
theorem alive_same (p p' : entityPool) (e : P64.Entity) (b : Bool) (h : entityPool.Alive p e = some (p', b)) : p' = p := by
  cases ha : Pool.alive? (C02_Pool64.absPool p) (C02_Pool64.absE e) with
  | none => rw [C02_Create64.alive_none _ _ ha] at h; cases h
  | some bb =>
    rw [C02_Create64.alive_eq _ _ _ ha] at h
    simp only [Option.some.injEq, Prod.mk.injEq] at h
    exact h.1.symm

/-- **the whole batch exchange (`Batch.Add / Remove / Exchange`, `Relations.ExchangeBatch`) touches the entity index, the
    target flags, the filter cache and the node lists only** (given the frame of the graph walk) -/
theorem exchangeBatch_frame (hFind : C01_ExchangeGen64.FindFrame findOrCreateF)
    (w w' : P64.World) (f : GoAny) (add rem : GoSlice (BitVec 8)) (rel : BitVec 8) (hasRel : Bool) (target : P64.Entity)
    (b b' : batchArchetypes) (ext ext' : Ext) (n : Int)
    (h : P64.World.exchangeBatchNoNotify archActiveF archAllocNF archComponentsF archGetEntityF archGetF archHasRelationF archLenF archMaskF archNodeF archResetF
      archSetEntityF archSetPointerF archTargetF archsGetF archsLenF asCachedFilterF findOrCreateF matchesF nodeActiveF nodeArchMapF nodeArchetypesF
      nodeHasRelationF nodeMatchesF nodeRemoveArchetypeF relationTargetF w f add rem rel hasRel target b ext = some (w', b', ext', n)) :
    BFrame w w' := by
  unfold P64.World.exchangeBatchNoNotify at h
  rw [C09_WorldLock64.checkLocked_spec] at h
  by_cases hl : LockMask.isLocked (C09_LockPool64.absLM w.locks) = true
  · simp [hl, bind, Option.bind] at h
  simp only [hl, Bool.false_eq_true, ↓reduceIte, Option.bind_eq_bind, Option.bind_some, pure] at h
  split at h
  · split at h
    · cases h
    · simp only [Option.some.injEq, Prod.mk.injEq] at h
      rw [← h.1]; exact BFrame.refl _
  obtain ⟨b3, _, hq⟩ := Option.bind_eq_some_iff.mp h
  clear h; have h := hq; clear hq
  obtain ⟨⟨b6, w1⟩, halive, hq⟩ := Option.bind_eq_some_iff.mp h
  clear h; have h := hq; clear hq
  have hw1 : w1 = w := by
    split at halive
    · obtain ⟨⟨p, r⟩, hal, halive⟩ := Option.bind_eq_some_iff.mp halive
      simp only [Option.some.injEq, Prod.mk.injEq] at halive
      rw [← halive.2, alive_same _ _ _ _ hal]
    · simp only [Option.some.injEq, Prod.mk.injEq] at halive
      exact halive.2.symm
  subst hw1
  try dsimp only at h
  split at h
  · cases h
  obtain ⟨⟨w2, arches⟩, hget, hq⟩ := Option.bind_eq_some_iff.mp h
  clear h; have h := hq; clear hq
  have hw2 : w2 = w1 := C08_RemoveGen64.getArchetypes_same _ _ _ _ _ _ _ _ _ _ _ _ _ _ hget
  subst hw2
  try dsimp only at h
  obtain ⟨lengths, _, hq⟩ := Option.bind_eq_some_iff.mp h
  clear h; have h := hq; clear hq
  obtain ⟨⟨w3, b3', e3, t3, l3⟩, hloop1, hq⟩ := Option.bind_eq_some_iff.mp h
  clear h; have h := hq; clear hq
  have hw3 : w3 = w2 := by
    have := C02_Remove64.foldlM_inv (fun (s : P64.World × batchArchetypes × Ext × BitVec 32 × GoSlice (BitVec 32)) => s.1 = w2) _ ?_ _ _ _ rfl hloop1
    · exact this
    · intro s k s' hs hk
      obtain ⟨_, _, hk⟩ := Option.bind_eq_some_iff.mp hk
      obtain ⟨_, _, hk⟩ := Option.bind_eq_some_iff.mp hk
      obtain ⟨_, _, hk⟩ := Option.bind_eq_some_iff.mp hk
      obtain ⟨_, _, hk⟩ := Option.bind_eq_some_iff.mp hk
      obtain ⟨_, _, hk⟩ := Option.bind_eq_some_iff.mp hk
      simp only [Option.some.injEq] at hk
      rw [← hk]; exact hs
  subst hw3
  try dsimp only at h
  obtain ⟨⟨w4, b4, e4, t4, l4⟩, hloop2, hq⟩ := Option.bind_eq_some_iff.mp h
  simp only [Option.some.injEq, Prod.mk.injEq] at hq
  rw [← hq.1]
  have := C02_Remove64.foldlM_inv (fun (s : P64.World × batchArchetypes × Ext × BitVec 32 × GoSlice (BitVec 32)) => BFrame w3 s.1) _ ?_ _ _ _ (BFrame.refl _) hloop2
  · exact this
  · intro s k s' hs hk
    obtain ⟨sw, sb, se, st, sl⟩ := s
    try dsimp only at hk hs
    obtain ⟨_, _, hk⟩ := Option.bind_eq_some_iff.mp hk
    obtain ⟨_, _, hk⟩ := Option.bind_eq_some_iff.mp hk
    obtain ⟨_, _, hk⟩ := Option.bind_eq_some_iff.mp hk
    split at hk
    · simp only [Option.some.injEq] at hk; rw [← hk]; exact hs
    · obtain ⟨⟨wa, ea, ra⟩, harch, hk⟩ := Option.bind_eq_some_iff.mp hk
      obtain ⟨_, _, hk⟩ := Option.bind_eq_some_iff.mp hk
      obtain ⟨_, _, hk⟩ := Option.bind_eq_some_iff.mp hk
      simp only [Option.some.injEq] at hk
      rw [← hk]
      exact BFrame.trans hs (exchangeArch_frame archActiveF archAllocNF archComponentsF archGetEntityF archGetF archHasRelationF archLenF archMaskF archNodeF archResetF
        archSetEntityF archSetPointerF archTargetF findOrCreateF matchesF nodeHasRelationF nodeRemoveArchetypeF hFind _ _ _ _ _ _ _ _ _ _ _ _ harch)

/-- the same for `Batch.SetRelation` / `Relations.SetBatch` -/
theorem setRelBatch_frame (w w' : P64.World) (f : GoAny) (comp : BitVec 8) (target : P64.Entity) (b b' : batchArchetypes) (ext ext' : Ext) (n : Int)
    (h : P64.World.setRelationBatchNoNotify archActiveF archAllocNF archComponentsF archGetEntityF archGetF archHasComponentF archHasRelationF archInitF archLenF
      archMaskF archNodeF archResetF archSetEntityF archSetPointerF archTargetF archsGetF archsLenF asCachedFilterF matchesF nodeActiveF nodeArchMapF
      nodeArchetypesF nodeCreateArchetypeF nodeGetArchetypeF nodeHasRelationF nodeMatchesF nodeRelationF nodeRemoveArchetypeF nodeSetArchetypeF
      pagedAddF pagedGetF pagedLenF relationTargetF w f comp target b ext = some (w', b', ext', n)) :
    BFrame w w' := by
  unfold P64.World.setRelationBatchNoNotify at h
  rw [C09_WorldLock64.checkLocked_spec] at h
  by_cases hl : LockMask.isLocked (C09_LockPool64.absLM w.locks) = true
  · simp [hl, bind, Option.bind] at h
  simp only [hl, Bool.false_eq_true, ↓reduceIte, Option.bind_eq_bind, Option.bind_some, pure] at h
  obtain ⟨r2, _, hq⟩ := Option.bind_eq_some_iff.mp h
  clear h; have h := hq; clear hq
  obtain ⟨⟨b5, w1⟩, halive, hq⟩ := Option.bind_eq_some_iff.mp h
  clear h; have h := hq; clear hq
  have hw1 : w1 = w := by
    split at halive
    · obtain ⟨⟨p, r⟩, hal, halive⟩ := Option.bind_eq_some_iff.mp halive
      simp only [Option.some.injEq, Prod.mk.injEq] at halive
      rw [← halive.2, alive_same _ _ _ _ hal]
    · simp only [Option.some.injEq, Prod.mk.injEq] at halive
      exact halive.2.symm
  subst hw1
  try dsimp only at h
  split at h
  · cases h
  obtain ⟨⟨w2, arches⟩, hget, hq⟩ := Option.bind_eq_some_iff.mp h
  clear h; have h := hq; clear hq
  have hw2 : w2 = w1 := C08_RemoveGen64.getArchetypes_same _ _ _ _ _ _ _ _ _ _ _ _ _ _ hget
  subst hw2
  try dsimp only at h
  obtain ⟨lengths, _, hq⟩ := Option.bind_eq_some_iff.mp h
  clear h; have h := hq; clear hq
  obtain ⟨⟨w3, b3', e3, t3, l3⟩, hloop1, hq⟩ := Option.bind_eq_some_iff.mp h
  clear h; have h := hq; clear hq
  have hw3 : w3 = w2 := by
    have := C02_Remove64.foldlM_inv (fun (s : P64.World × batchArchetypes × Ext × BitVec 32 × GoSlice (BitVec 32)) => s.1 = w2) _ ?_ _ _ _ rfl hloop1
    · exact this
    · intro s k s' hs hk
      obtain ⟨_, _, hk⟩ := Option.bind_eq_some_iff.mp hk
      obtain ⟨_, _, hk⟩ := Option.bind_eq_some_iff.mp hk
      obtain ⟨_, _, hk⟩ := Option.bind_eq_some_iff.mp hk
      obtain ⟨_, _, hk⟩ := Option.bind_eq_some_iff.mp hk
      obtain ⟨_, _, hk⟩ := Option.bind_eq_some_iff.mp hk
      simp only [Option.some.injEq] at hk
      rw [← hk]; exact hs
  subst hw3
  try dsimp only at h
  obtain ⟨⟨w4, b4, e4, t4, l4⟩, hloop2, hq⟩ := Option.bind_eq_some_iff.mp h
  simp only [Option.some.injEq, Prod.mk.injEq] at hq
  rw [← hq.1]
  have := C02_Remove64.foldlM_inv (fun (s : P64.World × batchArchetypes × Ext × BitVec 32 × GoSlice (BitVec 32)) => BFrame w3 s.1) _ ?_ _ _ _ (BFrame.refl _) hloop2
  · exact this
  · intro s k s' hs hk
    obtain ⟨sw, sb, se, st, sl⟩ := s
    try dsimp only at hk hs
    obtain ⟨_, _, hk⟩ := Option.bind_eq_some_iff.mp hk
    obtain ⟨_, _, hk⟩ := Option.bind_eq_some_iff.mp hk
    obtain ⟨_, _, hk⟩ := Option.bind_eq_some_iff.mp hk
    split at hk
    · simp only [Option.some.injEq] at hk; rw [← hk]; exact hs
    · obtain ⟨_, _, hk⟩ := Option.bind_eq_some_iff.mp hk
      split at hk
      · simp only [Option.some.injEq] at hk; rw [← hk]; exact hs
      · obtain ⟨⟨wa, ea, ra⟩, harch, hk⟩ := Option.bind_eq_some_iff.mp hk
        obtain ⟨_, _, hk⟩ := Option.bind_eq_some_iff.mp hk
        simp only [Option.some.injEq] at hk
        rw [← hk]
        exact BFrame.trans hs (setRelationArch_frame archActiveF archAllocNF archComponentsF archGetEntityF archGetF archHasComponentF archHasRelationF archInitF archLenF archMaskF
          archNodeF archResetF archSetEntityF archSetPointerF archTargetF matchesF nodeCreateArchetypeF nodeGetArchetypeF nodeHasRelationF nodeRelationF
          nodeRemoveArchetypeF nodeSetArchetypeF pagedAddF pagedGetF pagedLenF relationTargetF _ _ _ _ _ _ _ _ _ harch)

end

/-- one recorded move: destination table, source table and the row range `[start, end)` appended to the destination -/
theorem batchAdd_spec (b : batchArchetypes) (arch old : Option Nat) (s e : BitVec 32) :
    batchArchetypes.Add b arch old s e = some { b with Archetype := GoSlice.append b.Archetype arch, OldArchetype := GoSlice.append b.OldArchetype old,
                                                       StartIndex := GoSlice.append b.StartIndex s, EndIndex := GoSlice.append b.EndIndex e } := rfl

end Arche.Props.C08_BatchGen64
