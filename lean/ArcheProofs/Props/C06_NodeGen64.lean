/-
  C06 (companion, tiny build) — the graph node REGENERATED from ecs/archetype_node.go (`archNode` with its embedded `nodeData`):
  `GetArchetype`, `SetArchetype`, `CreateArchetype` (with the recycling of retired tables), `RemoveArchetype`, `Reset`,
  `ExtendArchetypeLayouts`, `Matches`. Tables, the paged table storage and the filter cache are outside the module.

  * `getArchetype_eq`: the table for a target is decided by the target map (relation nodes) / the single table alone;
  * `create_recycled`, `create_fresh`: a new table for a target re-uses the table retired LAST, or appends one;
  * `remove_eq`: retiring un-maps the table's target, puts its slot on the free list and de-activates it;
  * `find_set_eq` / `find_set_ne` / `find_delete_eq` / `find_delete_ne`: the target map is a finite map, hence
  * `lookup_after_create`, `lookup_after_remove`, `remove_create_reuses`: after a retirement the target is unknown,
    the next creation hands out that very slot, under the NEW target only.
-/
import ArcheGen.Node64

namespace Arche.Props.C06_NodeGen64
open ArcheGen ArcheGen.P64 ArcheGen.N64

/-! ### the target map is a finite map -/

theorem find_set_eq {K V : Type} [DecidableEq K] (m m' : GoMap K V) (k : K) (v : V) (h : m.set k v = some m') : m'.find k = some v := by
  unfold GoMap.set at h
  split at h
  · simp only [Option.some.injEq] at h; subst h; simp [GoMap.find]
  · cases h

theorem find_delete_eq {K V : Type} [DecidableEq K] (m : GoMap K V) (k : K) : (m.delete k).find k = none := by
  simp only [GoMap.find, GoMap.delete, Option.map_eq_none_iff, List.find?_eq_none]
  intro p hp
  have := (List.mem_filter.mp hp).2
  simpa using this

theorem find_delete_ne {K V : Type} [DecidableEq K] (m : GoMap K V) (k k' : K) (h : k' ≠ k) : (m.delete k).find k' = m.find k' := by
  simp only [GoMap.find, GoMap.delete]
  congr 1
  rw [List.find?_filter]
  congr 1
  funext p
  by_cases hpk : p.1 = k'
  · have : ¬ p.1 = k := by rw [hpk]; exact h
    simp [hpk, this]
    exact h
  · simp [hpk]

theorem find_set_ne {K V : Type} [DecidableEq K] (m m' : GoMap K V) (k k' : K) (v : V) (hk : k' ≠ k) (h : m.set k v = some m') :
    m'.find k' = m.find k' := by
  unfold GoMap.set at h
  split at h
  · simp only [Option.some.injEq] at h
    subst h
    have := find_delete_ne m k k' hk
    simp only [GoMap.find] at this ⊢
    have hne : ¬ k = k' := fun e => hk e.symm
    simp [List.find?_cons, hne, this]
  · cases h

/-! ### lookup -/

/-- **which table a node has for a target is decided by the target map alone** (relation nodes) or is the node's single
    table; the lookup changes nothing -/
theorem getArchetype_eq (a : archNode) (t : Entity) :
    archNode.GetArchetype a t =
      some (a, if a.HasRelation = true then ((a.archetypeMap.find t).getD none, (a.archetypeMap.find t).isSome) else (a.archetype, a.archetype.isSome)) := by
  unfold archNode.GetArchetype
  split <;> rfl

section
variable {Ext : Type}
  (archActivateF : Ext → Option Nat → Entity → BitVec 32 → Ext × Unit)
  (archInitF : Ext → Option Nat → Option Nat → BitVec 32 → Bool → Int → Entity → Ext × Unit)
  (archDeactivateF : Ext → Option Nat → Ext × Unit) (archIndexF : Ext → Option Nat → BitVec 32) (archTargetF : Ext → Option Nat → Entity)
  (pagedAddF : Ext → Nat → Ext × Unit) (pagedGetF : Ext → Nat → BitVec 32 → Option Nat) (pagedLenF : Ext → Nat → BitVec 32)

/-! ### creation and retirement -/

/-- with a retired table on the free list, a creation re-uses the one retired LAST: it is taken off the list, activated
    for the new target under its old slot number, and mapped under the new target -/
theorem create_recycled (a a' : archNode) (layouts : Int) (t : Entity) (ext ext' : Ext) (r : Option Nat) (idx : BitVec 32)
    (hlast : a.freeIndices.arr[a.freeIndices.arr.size - 1]? = some idx) (hpos : 0 < a.freeIndices.arr.size)
    (h : archNode.CreateArchetype archActivateF archInitF pagedAddF pagedGetF pagedLenF a layouts t ext = some (a', ext', r)) :
    r = pagedGetF ext a.archetypes idx ∧ r.isSome = true ∧ ext' = (archActivateF ext r t idx).1 ∧
    a'.freeIndices.arr = a.freeIndices.arr.extract 0 (a.freeIndices.arr.size - 1) ∧
    a'.archetypeMap.find t = some r ∧ (∀ t', t' ≠ t → a'.archetypeMap.find t' = a.archetypeMap.find t') ∧
    a'.archetype = a.archetype ∧ a'.archetypes = a.archetypes ∧ a'.HasRelation = a.HasRelation := by
  unfold archNode.CreateArchetype at h
  have hlen : (0 : Int) < ((a.freeIndices.size : Nat) : Int) := by unfold GoSlice.size; omega
  simp only [hlen, decide_true, ↓reduceIte, Option.bind_eq_bind, pure] at h
  obtain ⟨⟨a1, e1, i1, r1⟩, hj, hq⟩ := Option.bind_eq_some_iff.mp h
  obtain ⟨n1, hn1, hj⟩ := Option.bind_eq_some_iff.mp hj
  obtain ⟨t2, ht2, hj⟩ := Option.bind_eq_some_iff.mp hj
  obtain ⟨s3, hs3, hj⟩ := Option.bind_eq_some_iff.mp hj
  obtain ⟨v, hv, hj⟩ := Option.bind_eq_some_iff.mp hj
  simp only [Option.some.injEq, Prod.mk.injEq] at hj
  obtain ⟨ha1, he1, _, hr1⟩ := hj
  have hn1' : n1 = a.freeIndices.arr.size - 1 := by
    have hsz : a.freeIndices.size = a.freeIndices.arr.size := rfl
    simp only [GoInt.toIndex] at hn1
    rw [if_pos (by omega)] at hn1
    simp only [Option.some.injEq] at hn1; omega
  subst hn1'
  have ht2' : t2 = idx := by
    simp only [GoSlice.get] at ht2
    rw [hlast] at ht2; exact (Option.some.inj ht2).symm
  subst ht2'
  obtain ⟨u9, hu9, hq⟩ := Option.bind_eq_some_iff.mp hq
  simp only [Option.some.injEq, Prod.mk.injEq] at hq
  obtain ⟨ha', he', hr'⟩ := hq
  subst ha1; subst he1; subst hr1; subst ha'; subst he'; subst hr'
  have hs3' : s3.arr = a.freeIndices.arr.extract 0 (a.freeIndices.arr.size - 1) := by
    have hsz : a.freeIndices.size = a.freeIndices.arr.size := rfl
    simp only [GoSlice.prefix] at hs3
    rw [if_pos (by omega)] at hs3
    simp only [Option.some.injEq] at hs3; rw [← hs3]
    show a.freeIndices.arr.extract 0 ((a.freeIndices.size : Int) - 1).toNat = _
    congr 1
    omega
  refine ⟨rfl, by rw [hv]; rfl, rfl, hs3', find_set_eq _ _ _ _ hu9, fun t' ht' => find_set_ne _ _ _ _ _ ht' hu9, rfl, rfl, rfl⟩

/-- retiring a table: its target is un-mapped, its slot number goes on top of the free list, the table in that slot is
    de-activated; nothing else of the node changes -/
theorem remove_eq (a : archNode) (arch : Option Nat) (ext : Ext) (v : Nat) (hv : arch = some v)
    (hslot : (pagedGetF ext a.archetypes (archIndexF ext arch)).isSome = true) :
    archNode.RemoveArchetype archDeactivateF archIndexF archTargetF pagedGetF a arch ext =
      some ({ a with archetypeMap := a.archetypeMap.delete (archTargetF ext arch),
                     freeIndices := GoSlice.append a.freeIndices (archIndexF ext arch) },
            (archDeactivateF ext (pagedGetF ext a.archetypes (archIndexF ext arch))).1) := by
  unfold archNode.RemoveArchetype
  obtain ⟨s, hs⟩ := Option.isSome_iff_exists.mp hslot
  subst hv
  simp only [bind, Option.bind, pure, hs]

/-- after a retirement the node knows no table for the retired table's target; every other target is unaffected -/
theorem lookup_after_remove (a a' : archNode) (arch : Option Nat) (ext ext' : Ext) (v : Nat) (hv : arch = some v)
    (hslot : (pagedGetF ext a.archetypes (archIndexF ext arch)).isSome = true) (hrel : a.HasRelation = true)
    (h : archNode.RemoveArchetype archDeactivateF archIndexF archTargetF pagedGetF a arch ext = some (a', ext')) :
    archNode.GetArchetype a' (archTargetF ext arch) = some (a', (none, false)) ∧
    ∀ t, t ≠ archTargetF ext arch → ∃ x, archNode.GetArchetype a' t = some (a', x) ∧ archNode.GetArchetype a t = some (a, x) := by
  rw [remove_eq archDeactivateF archIndexF archTargetF pagedGetF a arch ext v hv hslot] at h
  simp only [Option.some.injEq, Prod.mk.injEq] at h
  obtain ⟨ha', _⟩ := h
  subst ha'
  constructor
  · rw [getArchetype_eq]; simp [hrel, find_delete_eq]
  · intro t ht
    refine ⟨_, getArchetype_eq _ t, ?_⟩
    rw [getArchetype_eq]
    simp [hrel, find_delete_ne _ _ _ ht]

/-- with an empty free list a creation appends a table (and its data record) to the node's storage, initialises it for the
    target under the new slot number, and maps it under the target -/
theorem create_fresh (a a' : archNode) (layouts : Int) (t : Entity) (ext ext' : Ext) (r : Option Nat)
    (hempty : a.freeIndices.arr.size = 0)
    (h : archNode.CreateArchetype archActivateF archInitF pagedAddF pagedGetF pagedLenF a layouts t ext = some (a', ext', r)) :
    let e2 := (pagedAddF (pagedAddF ext a.archetypes).1 a.archetypeData).1
    let idx := pagedLenF e2 a.archetypes - 1#32
    r = pagedGetF e2 a.archetypes idx ∧ r.isSome = true ∧
    ext' = (archInitF e2 r (pagedGetF e2 a.archetypeData idx) idx true layouts t).1 ∧
    a'.freeIndices = a.freeIndices ∧ a'.archetypeMap.find t = some r ∧
    (∀ t', t' ≠ t → a'.archetypeMap.find t' = a.archetypeMap.find t') := by
  unfold archNode.CreateArchetype at h
  have hlen : ¬ (0 : Int) < ((a.freeIndices.size : Nat) : Int) := by unfold GoSlice.size; omega
  simp only [hlen, decide_false, Bool.false_eq_true, ↓reduceIte, Option.bind_eq_bind, pure] at h
  obtain ⟨⟨a1, e1, i1, r1⟩, hj, hq⟩ := Option.bind_eq_some_iff.mp h
  obtain ⟨v, hv, hj⟩ := Option.bind_eq_some_iff.mp hj
  simp only [Option.some.injEq, Prod.mk.injEq] at hj
  obtain ⟨ha1, he1, _, hr1⟩ := hj
  obtain ⟨u9, hu9, hq⟩ := Option.bind_eq_some_iff.mp hq
  simp only [Option.some.injEq, Prod.mk.injEq] at hq
  obtain ⟨ha', he', hr'⟩ := hq
  subst ha1; subst he1; subst hr1; subst ha'; subst he'; subst hr'
  exact ⟨rfl, by rw [hv]; rfl, rfl, rfl, find_set_eq _ _ _ _ hu9, fun t' ht' => find_set_ne _ _ _ _ _ ht' hu9⟩

/-- after a creation the node answers the new table for that target -/
theorem lookup_after_create (a a' : archNode) (layouts : Int) (t : Entity) (ext ext' : Ext) (r : Option Nat) (hrel : a.HasRelation = true)
    (h : archNode.CreateArchetype archActivateF archInitF pagedAddF pagedGetF pagedLenF a layouts t ext = some (a', ext', r)) :
    archNode.GetArchetype a' t = some (a', (r, true)) := by
  have hrel' : a'.HasRelation = true ∧ a'.archetypeMap.find t = some r := by
    unfold archNode.CreateArchetype at h
    simp only [Option.bind_eq_bind, pure] at h
    obtain ⟨⟨a1, e1, i1, r1⟩, hj, hq⟩ := Option.bind_eq_some_iff.mp h
    obtain ⟨u9, hu9, hq⟩ := Option.bind_eq_some_iff.mp hq
    simp only [Option.some.injEq, Prod.mk.injEq] at hq
    obtain ⟨ha', _, hr'⟩ := hq
    subst ha'; subst hr'
    have ha1 : a1.HasRelation = a.HasRelation := by
      split at hj
      · obtain ⟨_, _, hj⟩ := Option.bind_eq_some_iff.mp hj
        obtain ⟨_, _, hj⟩ := Option.bind_eq_some_iff.mp hj
        obtain ⟨_, _, hj⟩ := Option.bind_eq_some_iff.mp hj
        obtain ⟨_, _, hj⟩ := Option.bind_eq_some_iff.mp hj
        simp only [Option.some.injEq, Prod.mk.injEq] at hj
        rw [← hj.1]
      · obtain ⟨_, _, hj⟩ := Option.bind_eq_some_iff.mp hj
        simp only [Option.some.injEq, Prod.mk.injEq] at hj
        rw [← hj.1]
    exact ⟨by rw [← hrel, ← ha1], find_set_eq _ _ _ _ hu9⟩
  rw [getArchetype_eq]
  simp [hrel'.1, hrel'.2]

/-- **storage recycling**: retire a table, then create a table for another target — the node hands out the very slot just
    retired (provided retiring does not re-seat the storage), maps it under the NEW target, and no longer knows the old one -/
theorem remove_create_reuses (a a1 a2 : archNode) (arch : Option Nat) (v : Nat) (hv : arch = some v) (ext e1 e2 : Ext)
    (layouts : Int) (t : Entity) (r : Option Nat)
    (hslot : (pagedGetF ext a.archetypes (archIndexF ext arch)).isSome = true) (hrel : a.HasRelation = true)
    (hstable : ∀ x k i, pagedGetF (archDeactivateF ext x).1 k i = pagedGetF ext k i)
    (hne : t ≠ archTargetF ext arch)
    (h1 : archNode.RemoveArchetype archDeactivateF archIndexF archTargetF pagedGetF a arch ext = some (a1, e1))
    (h2 : archNode.CreateArchetype archActivateF archInitF pagedAddF pagedGetF pagedLenF a1 layouts t e1 = some (a2, e2, r)) :
    r = pagedGetF ext a.archetypes (archIndexF ext arch) ∧
    archNode.GetArchetype a2 t = some (a2, (r, true)) ∧
    archNode.GetArchetype a2 (archTargetF ext arch) = some (a2, (none, false)) ∧
    a2.freeIndices.arr = a.freeIndices.arr := by
  rw [remove_eq archDeactivateF archIndexF archTargetF pagedGetF a arch ext v hv hslot] at h1
  simp only [Option.some.injEq, Prod.mk.injEq] at h1
  obtain ⟨ha1, he1⟩ := h1
  subst ha1; subst he1
  have hsize : (GoSlice.append a.freeIndices (archIndexF ext arch)).arr.size = a.freeIndices.arr.size + 1 := by
    simp [GoSlice.append]
  have hlast : (GoSlice.append a.freeIndices (archIndexF ext arch)).arr[(GoSlice.append a.freeIndices (archIndexF ext arch)).arr.size - 1]? = some (archIndexF ext arch) := by
    rw [hsize]; simp [GoSlice.append]
  obtain ⟨hr, _, _, hfree, hfind, hother, _, _, hrelEq⟩ := create_recycled archActivateF archInitF pagedAddF pagedGetF pagedLenF _ _ _ _ _ _ _ _ hlast (by rw [hsize]; omega) h2
  have hrel2 : a2.HasRelation = true := by rw [hrelEq]; exact hrel
  refine ⟨?_, lookup_after_create archActivateF archInitF pagedAddF pagedGetF pagedLenF _ _ _ _ _ _ _ (by exact hrel) h2, ?_, ?_⟩
  · rw [hr, hstable]
  · rw [getArchetype_eq]
    have := hother (archTargetF ext arch) (fun e => hne e.symm)
    simp only [hrel2, ↓reduceIte, this]
    simp [find_delete_eq]
  · rw [hfree, hsize]
    simp [GoSlice.append]

end

/-! ### a concrete run: create for target 5, retire, create for target 6 — the slot is re-used -/

abbrev DExt := Nat × Nat × List (Nat × Entity)
def dAdd (e : DExt) (k : Nat) : DExt × Unit := ((if k = 0 then (e.1 + 1, e.2.1, e.2.2) else (e.1, e.2.1 + 1, e.2.2)), ())
def dGet (_ : DExt) (k : Nat) (i : BitVec 32) : Option Nat := some (100 * k + i.toNat)
def dLen (e : DExt) (k : Nat) : BitVec 32 := BitVec.ofNat 32 (if k = 0 then e.1 else e.2.1)
def dInit (e : DExt) (a : Option Nat) (_ : Option Nat) (_ : BitVec 32) (_ : Bool) (_ : Int) (t : Entity) : DExt × Unit := ((e.1, e.2.1, (a.getD 0, t) :: e.2.2), ())
def dActivate (e : DExt) (a : Option Nat) (t : Entity) (_ : BitVec 32) : DExt × Unit := ((e.1, e.2.1, (a.getD 0, t) :: e.2.2), ())
def dDeactivate (e : DExt) (_ : Option Nat) : DExt × Unit := (e, ())
def dIndex (_ : DExt) (a : Option Nat) : BitVec 32 := BitVec.ofNat 32 (a.getD 0 % 100)
def dTarget (e : DExt) (a : Option Nat) : Entity := ((e.2.2.find? (fun p => p.1 == a.getD 0)).map (·.2)).getD default
def dNode : archNode := { (default : archNode) with archetypeMap := GoMap.empty, HasRelation := true, IsActive := true, archetypes := 0, archetypeData := 1 }
def t5 : Entity := ⟨5#32, 0#32⟩
def t6 : Entity := ⟨6#32, 0#32⟩
def demo : Option (List (Option Nat) × List Bool × Nat) := do
  let (a, e, r1) ← archNode.CreateArchetype dActivate dInit dAdd dGet dLen dNode 8 t5 ((0, 0, []) : DExt)
  let (a, e) ← archNode.RemoveArchetype dDeactivate dIndex dTarget dGet a r1 e
  let (a, e, r2) ← archNode.CreateArchetype dActivate dInit dAdd dGet dLen a 8 t6 e
  let (_, g5) ← archNode.GetArchetype a t5
  let (_, g6) ← archNode.GetArchetype a t6
  pure ([r1, r2, g5.1, g6.1], [g5.2, g6.2], e.1)

/-- one table in storage after two creations: the retired slot 0 was handed out again, known under target 6 only -/
theorem demo_run : demo = some ([some 0, some 0, none, some 0], [false, true], 1) := by decide +kernel

end Arche.Props.C06_NodeGen64
