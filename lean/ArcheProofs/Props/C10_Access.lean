/-
  C10 companion — the illegal-use panics of the REGENERATED single-entity entry points, collected from
  `C02_Create`, `C02_Remove` and `C17_Load` so that the C10 check carries them as obligations: every checked
  accessor and `RemoveEntity` panic on a handle the pool does not call alive (dead, recycled under a newer
  generation, beyond the pool), the unchecked accessors panic on a removed entity through its nil table pointer,
  `getRelation` panics unless the component is the table's relation component, a nil table refuses creation,
  a malformed dump is refused.
-/
import ArcheProofs.Props.C02_Remove

namespace Arche.Props.C10_Access
open ArcheGen ArcheGen.P256 Arche Arche.Props

theorem has_dead (hasF : Option Nat → BitVec 8 → Bool) (w : P256.World) (e : P256.Entity) (comp : BitVec 8)
    (h : Pool.alive? (C02_Pool.absPool w.entityPool) (C02_Pool.absE e) ≠ some true) :
    P256.World.Has hasF w e comp = none := C02_Create.has_dead hasF w e comp h

theorem mask_dead (maskF : Option Nat → ArcheGen.M256.Mask) (w : P256.World) (e : P256.Entity)
    (h : Pool.alive? (C02_Pool.absPool w.entityPool) (C02_Pool.absE e) ≠ some true) :
    P256.World.Mask maskF w e = none := C02_Create.mask_dead maskF w e h

theorem getRelation_dead (hasF : Option Nat → BitVec 8 → Bool) (nodeF : Option Nat → Option Nat) (targetF : Option Nat → P256.Entity)
    (hasRelF : Option Nat → Bool) (relF : Option Nat → BitVec 8) (w : P256.World) (e : P256.Entity) (comp : BitVec 8)
    (h : Pool.alive? (C02_Pool.absPool w.entityPool) (C02_Pool.absE e) ≠ some true) :
    P256.World.getRelation hasF nodeF targetF hasRelF relF w e comp = none :=
  C02_Create.getRelation_dead hasF nodeF targetF hasRelF relF w e comp h

theorem unchecked_removed (hasF : Option Nat → BitVec 8 → Bool) (targetF : Option Nat → P256.Entity) (w : P256.World) (e : P256.Entity) (comp : BitVec 8)
    (h : ∀ x, w.entities.arr[e.id.toNat]? = some x → x.arch = none) :
    P256.World.HasUnchecked hasF w e comp = none ∧ P256.World.getRelationUnchecked targetF w e comp = none :=
  C02_Create.hasUnchecked_removed hasF targetF w e comp h

theorem getRelation_not_relation (hasF : Option Nat → BitVec 8 → Bool) (nodeF : Option Nat → Option Nat) (targetF : Option Nat → P256.Entity)
    (hasRelF : Option Nat → Bool) (relF : Option Nat → BitVec 8) (w : P256.World) (e : P256.Entity) (comp : BitVec 8)
    (h : Pool.alive? (C02_Pool.absPool w.entityPool) (C02_Pool.absE e) = some true)
    (x : entityIndex) (t n : Nat) (hx : w.entities.arr[e.id.toNat]? = some x) (ht : x.arch = some t) (hn : nodeF (some t) = some n)
    (hbad : ¬ (hasRelF (some n) = true ∧ relF (some n) = comp)) :
    P256.World.getRelation hasF nodeF targetF hasRelF relF w e comp = none := by
  rw [C02_Create.getRelation_alive hasF nodeF targetF hasRelF relF w e comp h x t n hx ht hn, if_neg hbad]

theorem create_nil {Ext : Type} (alloc : Ext → Option Nat → P256.Entity → Ext × BitVec 32) (w : P256.World) (ext : Ext) :
    P256.World.createEntity alloc w none ext = none := C02_Create.create_nil alloc w ext

theorem load_malformed {Ext : Type} (alloc : Ext → Option Nat → P256.Entity → Ext × BitVec 32) (pget : Ext → Nat → BitVec 32 → Option Nat)
    (w : P256.World) (d : EntityDump) (ext : Ext) (inc : Nat) (hinc : 0 < inc) (hcfg : w.config.CapacityIncrement = Int.ofNat inc)
    (hwf : ¬ C17_Load.WfDump d) :
    P256.World.LoadEntities alloc pget w d ext = none := C17_Load.load_malformed alloc pget w d ext inc hinc hcfg hwf

end Arche.Props.C10_Access
