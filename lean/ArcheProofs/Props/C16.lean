/-
  C16 — Type registry: stable bijection, and all 256 component IDs are usable.

  * regenerated arithmetic (ecs/util.go capacity, capacityNonZero, capacityU32): the capacity is
    the least multiple of the increment not below the size; with the extracted integer widths,
    the number of layout slots of every table covers every registered ID for every number of
    registered types up to the limit (`layouts_cover_ids`, `extend_cover`; finding F7 was the
    failure of exactly this obligation with an 8-bit width: 241 types gave 0 slots);
  * registry model: IDs are assigned densely in registration order, one registration beyond
    the limit or in a locked world panics and leaves the registry unchanged.
  `isRelation` is reflection-based and validated by the correspondence over the listed type shapes.
-/
import ArcheModel.Ops
import ArcheGen.Arith
import ArcheGen.Facts

namespace Arche.Props.C16
open ArcheGen ArcheGen.Facts

/-! ## capacity arithmetic (regenerated) -/

theorem capacity_eq (size inc : Nat) (hinc : 0 < inc) :
    Arith.capacity (Int.ofNat size) (Int.ofNat inc) = Int.ofNat (inc * ((size + inc - 1) / inc)) := by
  unfold Arith.capacity
  simp only [Int.ofNat_eq_natCast, bne_iff_ne, ne_eq]
  have hd : Int.tdiv (size : Int) (inc : Int) = ((size / inc : Nat) : Int) := by
    rw [Int.tdiv_eq_ediv_of_nonneg (by omega)]; rfl
  have hm : Int.tmod (size : Int) (inc : Int) = ((size % inc : Nat) : Int) := by
    rw [Int.tmod_eq_emod_of_nonneg (by omega)]; rfl
  rw [hd, hm]
  have key : (size + inc - 1) / inc = if size % inc = 0 then size / inc else size / inc + 1 := by
    have h1 := Nat.div_add_mod size inc
    by_cases h0 : size % inc = 0
    · simp only [h0, ↓reduceIte]
      apply Nat.div_eq_of_lt_le
      · rw [Nat.mul_comm]; omega
      · rw [Nat.mul_comm, Nat.mul_add]; omega
    · simp only [h0, ↓reduceIte]
      have hlt := Nat.mod_lt size hinc
      apply Nat.div_eq_of_lt_le
      · rw [Nat.mul_comm, Nat.mul_add]; omega
      · rw [Nat.mul_comm, Nat.mul_add, Nat.mul_add]; omega
  rw [key]
  by_cases h0 : size % inc = 0
  · simp [h0]
  · have hne : ¬ ((size % inc : Nat) : Int) = 0 := by
      intro hc; apply h0; exact_mod_cast hc
    simp only [h0, hne, not_false_eq_true, ↓reduceIte]
    push_cast; rw [Int.mul_add]; omega

/-- the capacity is a multiple of the increment, at least the size, and less than size + increment -/
theorem capacity_spec (size inc : Nat) (hinc : 0 < inc) :
    ∃ c : Nat, Arith.capacity (Int.ofNat size) (Int.ofNat inc) = Int.ofNat c ∧ c % inc = 0 ∧ size ≤ c ∧ c < size + inc := by
  refine ⟨inc * ((size + inc - 1) / inc), capacity_eq size inc hinc, Nat.mul_mod_right _ _, ?_, ?_⟩
  · have h1 := Nat.div_add_mod (size + inc - 1) inc
    have h2 := Nat.mod_lt (size + inc - 1) hinc
    omega
  · have h1 := Nat.div_add_mod (size + inc - 1) inc
    omega

theorem capacityNonZero_eq (size inc : Nat) (hinc : 0 < inc) :
    Arith.capacityNonZero (Int.ofNat size) (Int.ofNat inc) =
      if size = 0 then Int.ofNat inc else Arith.capacity (Int.ofNat size) (Int.ofNat inc) := by
  unfold Arith.capacityNonZero Arith.capacity
  by_cases h : size = 0
  · subst h; simp
  · have : ¬ ((size : Int) = 0) := by omega
    simp [h, this]

/-- the model's `capacity` (used for table growth) is the regenerated function on naturals -/
theorem model_capacity_eq (size inc : Nat) (hinc : 0 < inc) :
    Int.ofNat (Arche.capacity size inc) = Arith.capacity (Int.ofNat size) (Int.ofNat inc) := by
  rw [capacity_eq size inc hinc]
  unfold Arche.capacity
  congr 1
  have h1 := Nat.div_add_mod size inc
  have hlt := Nat.mod_lt size hinc
  by_cases h0 : size % inc = 0
  · have : (size + inc - 1) / inc = size / inc := by
      apply Nat.div_eq_of_lt_le
      · rw [Nat.mul_comm]; omega
      · rw [Nat.mul_comm, Nat.mul_add]; omega
    simp [h0, this]
  · have : (size + inc - 1) / inc = size / inc + 1 := by
      apply Nat.div_eq_of_lt_le
      · rw [Nat.mul_comm, Nat.mul_add]; omega
      · rw [Nat.mul_comm, Nat.mul_add, Nat.mul_add]; omega
    simp [h0, this, Nat.mul_add]

/-- `capacityU32` agrees with the unbounded function whenever the result fits 32 bits -/
theorem capacityU32_eq (size inc : Nat) (hinc : 0 < inc) (hfit : size + inc < 2 ^ 32) :
    (Arith.capacityU32 (BitVec.ofNat 32 size) (BitVec.ofNat 32 inc)).toNat = inc * ((size + inc - 1) / inc) := by
  have hs : size < 2 ^ 32 := by omega
  have hi : inc < 2 ^ 32 := by omega
  unfold Arith.capacityU32
  have h1 := Nat.div_add_mod size inc
  have hlt := Nat.mod_lt size hinc
  have hmulle : inc * (size / inc) ≤ size := by omega
  by_cases h0 : size % inc = 0
  · have e : (size + inc - 1) / inc = size / inc := by
      apply Nat.div_eq_of_lt_le
      · rw [Nat.mul_comm]; omega
      · rw [Nat.mul_comm, Nat.mul_add]; omega
    have hz : (BitVec.ofNat 32 size % BitVec.ofNat 32 inc != 0#32) = false := by
      simp only [bne_eq_false_iff_eq]
      apply BitVec.eq_of_toNat_eq
      simp [BitVec.toNat_umod, Nat.mod_eq_of_lt hs, Nat.mod_eq_of_lt hi, h0]
    simp only [hz, Bool.false_eq_true, ↓reduceIte]
    rw [e, BitVec.toNat_mul, BitVec.toNat_udiv]
    simp only [BitVec.toNat_ofNat, Nat.mod_eq_of_lt hs, Nat.mod_eq_of_lt hi]
    exact Nat.mod_eq_of_lt (by omega)
  · have e : (size + inc - 1) / inc = size / inc + 1 := by
      apply Nat.div_eq_of_lt_le
      · rw [Nat.mul_comm, Nat.mul_add]; omega
      · rw [Nat.mul_comm, Nat.mul_add, Nat.mul_add]; omega
    have hz : (BitVec.ofNat 32 size % BitVec.ofNat 32 inc != 0#32) = true := by
      simp only [bne_iff_ne, ne_eq]
      intro hc
      have := congrArg BitVec.toNat hc
      simp [BitVec.toNat_umod, Nat.mod_eq_of_lt hs, Nat.mod_eq_of_lt hi] at this
      exact h0 this
    simp only [hz, ↓reduceIte]
    rw [e, BitVec.toNat_add, BitVec.toNat_mul, BitVec.toNat_udiv]
    simp only [BitVec.toNat_ofNat, Nat.mod_eq_of_lt hs, Nat.mod_eq_of_lt hi]
    rw [Nat.mod_eq_of_lt (show inc * (size / inc) < 2 ^ 32 by omega), Nat.mul_add, Nat.mul_one]
    exact Nat.mod_eq_of_lt (by omega)

/-! ## the layout count covers every ID, with the extracted widths -/

/-- truncation of a non-negative count to a `w`-bit unsigned integer -/
def trunc (w : Nat) (x : Int) : Int := x % (2 ^ w : Nat)

/-- every integer through which the layout count flows is wide enough for
    `MaskTotalBits + layoutChunkSize` (so no conversion truncates) -/
theorem layout_widths_ok :
    layoutCountParamBits.all (fun p => decide (maskTotalBits + layoutChunkSize < 2 ^ p.2)) = true ∧
    layoutCountConversionBits.all (fun b => decide (maskTotalBits + layoutChunkSize < 2 ^ b)) = true := by decide

/-- For every number `n ≤ MaskTotalBits` of registered types and every registered `id < n`:
    a table created now has a layout slot for `id`, also after truncation to any of the widths
    the count flows through. -/
theorem layouts_cover_ids (n : Nat) (hn : n ≤ maskTotalBits) (id : Nat) (hid : id < n) (w : Nat)
    (hw : maskTotalBits + layoutChunkSize < 2 ^ w) :
    (id : Int) < trunc w (Arith.capacityNonZero (Int.ofNat n) (Int.ofNat layoutChunkSize)) := by
  have hn0 : n ≠ 0 := by omega
  rw [capacityNonZero_eq n layoutChunkSize (by decide)]
  simp only [hn0, ↓reduceIte]
  obtain ⟨c, hc, _, hge, hlt⟩ := capacity_spec n layoutChunkSize (by decide)
  rw [hc]
  unfold trunc
  have hcl : c < 2 ^ w := by
    have : maskTotalBits = 256 := rfl
    omega
  simp only [Int.ofNat_eq_natCast]
  rw [Int.emod_eq_of_lt (by omega) (by exact_mod_cast hcl)]
  omega

/-- a type registered at a chunk boundary extends the layouts of existing tables far enough -/
theorem extend_cover (id : Nat) (hid : id < maskTotalBits) (w : Nat) (hw : maskTotalBits + layoutChunkSize < 2 ^ w) :
    (id : Int) < trunc w ((id : Int) + (layoutChunkSize : Int)) := by
  unfold trunc
  have h1 : (id : Int) + (layoutChunkSize : Int) = ((id + layoutChunkSize : Nat) : Int) := by push_cast; rfl
  rw [h1]
  have : id + layoutChunkSize < 2 ^ w := by omega
  rw [Int.emod_eq_of_lt (by omega) (by exact_mod_cast this)]
  have : layoutChunkSize = 16 := rfl
  omega

/-- the counterexample of finding F7, kept as a regression: with an 8-bit width 241 types give 0 slots -/
example : trunc 8 (Arith.capacityNonZero 241 16) = 0 := by decide

/-! ## registry model -/
open Arche World

/-- IDs are assigned densely in registration order. -/
theorem register_dense (w : World) (a b : Bool) (hl : w.isLocked = false) (hc : w.reg.count < w.cfg.maskBits) :
    (match (w.registerComponent a b).out with | .ok id => id == w.reg.count | _ => false) = true ∧
    (w.registerComponent a b).w.reg.count = w.reg.count + 1 := by
  unfold registerComponent
  have : ¬ w.reg.count ≥ w.cfg.maskBits := by omega
  simp [this, hl]

/-- one registration beyond the limit panics and leaves the registry unchanged -/
theorem register_limit (w : World) (a b : Bool) (hc : w.reg.count ≥ w.cfg.maskBits) :
    (match (w.registerComponent a b).out with | .error .limit => true | _ => false) = true ∧
    (w.registerComponent a b).w = w := by
  unfold registerComponent; simp [hc, World.fail]

/-- registering records the relation flag of exactly the new ID and of no other -/
theorem register_isRel (w : World) (a b : Bool) (hl : w.isLocked = false) (hc : w.reg.count < w.cfg.maskBits) (j : Nat) :
    Mask.get (w.registerComponent a b).w.reg.isRel j = if j = w.reg.count then a else Mask.get w.reg.isRel j := by
  unfold registerComponent
  have : ¬ w.reg.count ≥ w.cfg.maskBits := by omega
  simp only [this, hl, Bool.false_eq_true, ↓reduceIte]
  unfold Mask.get Mask.set
  cases a
  · simp only [Bool.false_eq_true, ↓reduceIte]
    by_cases hb : w.reg.isRel.testBit w.reg.count = true
    · simp only [hb, ↓reduceIte, Nat.testBit_xor, Nat.one_shiftLeft, Nat.testBit_two_pow]
      by_cases hj : j = w.reg.count
      · subst hj; simp [hb]
      · have : ¬ w.reg.count = j := fun h => hj h.symm
        simp [hj, this]
    · by_cases hj : j = w.reg.count
      · subst hj; simp at hb; simp [hb]
      · simp [hb, hj]
  · simp only [↓reduceIte, Nat.testBit_or, Nat.one_shiftLeft, Nat.testBit_two_pow]
    by_cases hj : j = w.reg.count
    · subst hj; simp
    · have : ¬ w.reg.count = j := fun h => hj h.symm
      simp [hj, this]

end Arche.Props.C16
