/-
  C03 (companion) — query iteration REGENERATED from ecs/query.go: `Query.Next`, `Query.nextArchetype`,
  `Query.nextArchetypeFiltered` (the walk over the table list of a registered filter), `Query.nextArchetypeSimple`,
  `Query.stepArchetype`, `Query.setArchetype`. Tables are objects outside the module (hidden state `Ext`); the batch walk
  and the node walk (`nextBatch`, `nextNodeOrArchetype`) and `World.closeQuery` are state-threading parameters.

  * `next_fast` / `next_slow`: inside a table `Next` only advances the row; at its end it is `nextArchetype`;
  * `nextArchetype_dispatch`: which walk a query uses;
  * `nextFiltered_spec`: the walk over a registered filter's table list moves to the FIRST non-empty table behind the
    current one — all rows of it, from row 0 to its last — and closes the query exactly when there is none
    (`firstFrom_some` / `firstFrom_none` say what "first" means);
  * `stepArchetype_spec`: the arithmetic of `Step` inside a table.
-/
import ArcheGen.Pool256

namespace Arche.Props.C03_IterGen
open ArcheGen ArcheGen.P256

/-! ### 32-bit signed arithmetic of the table counter -/

theorem toInt_ofInt32 (z : Int) (h1 : -2147483648 ≤ z) (h2 : z < 2147483648) : (BitVec.ofInt 32 z).toInt = z := by
  rw [BitVec.toInt_ofInt]
  unfold Int.bmod
  have h32 : ((2 ^ 32 : Nat) : Int) = 4294967296 := by decide
  rw [h32]
  show (if z % 4294967296 < (4294967296 + 1) / 2 then z % 4294967296 else z % 4294967296 - 4294967296) = z
  split <;> omega

theorem ofInt_succ (z : Int) : BitVec.ofInt 32 z + 1#32 = BitVec.ofInt 32 (z + 1) := by
  have : (1#32) = BitVec.ofInt 32 1 := by decide
  rw [this, ← BitVec.ofInt_add]

/-! ### "the first non-empty table from position k on" -/

def firstFromN (lenOf : Option Nat → BitVec 32) (l : List (Option Nat)) : Nat → Nat → Option Nat
  | 0, _ => none
  | n + 1, k =>
    match l[k]? with
    | some a => if lenOf a == 0#32 then firstFromN lenOf l n (k + 1) else some k
    | none => none

/-- the first position `j ≥ k` of the list whose table is not empty -/
def firstFrom (lenOf : Option Nat → BitVec 32) (l : List (Option Nat)) (k : Nat) : Option Nat :=
  firstFromN lenOf l (l.length - k) k

theorem firstFromN_some (lenOf : Option Nat → BitVec 32) (l : List (Option Nat)) (n k j : Nat)
    (h : firstFromN lenOf l n k = some j) :
    k ≤ j ∧ j < k + n ∧ (∃ a, l[j]? = some a ∧ lenOf a ≠ 0#32) ∧ ∀ i, k ≤ i → i < j → ∃ a, l[i]? = some a ∧ lenOf a = 0#32 := by
  induction n generalizing k with
  | zero => simp [firstFromN] at h
  | succ n ih =>
    unfold firstFromN at h
    cases hk : l[k]? with
    | none => simp [hk] at h
    | some a =>
      simp only [hk] at h
      by_cases hz : lenOf a = 0#32
      · simp only [hz, beq_self_eq_true, ↓reduceIte] at h
        obtain ⟨h1, h2, h3, h4⟩ := ih (k + 1) h
        refine ⟨by omega, by omega, h3, ?_⟩
        intro i hi hij
        by_cases hik : i = k
        · subst hik; exact ⟨a, hk, hz⟩
        · exact h4 i (by omega) hij
      · have : (lenOf a == 0#32) = false := by simpa using hz
        simp only [this, Bool.false_eq_true, ↓reduceIte, Option.some.injEq] at h
        subst h
        exact ⟨Nat.le_refl _, by omega, ⟨a, hk, hz⟩, fun i hi hij => by omega⟩

theorem firstFromN_none (lenOf : Option Nat → BitVec 32) (l : List (Option Nat)) (n k : Nat) (hn : k + n = l.length)
    (h : firstFromN lenOf l n k = none) : ∀ i, k ≤ i → i < l.length → ∃ a, l[i]? = some a ∧ lenOf a = 0#32 := by
  induction n generalizing k with
  | zero => intro i hi hl; omega
  | succ n ih =>
    unfold firstFromN at h
    have hkl : k < l.length := by omega
    have hk : l[k]? = some l[k] := List.getElem?_eq_getElem hkl
    simp only [hk] at h
    by_cases hz : lenOf l[k] = 0#32
    · simp only [hz, beq_self_eq_true, ↓reduceIte] at h
      intro i hi hl
      by_cases hik : i = k
      · subst hik; exact ⟨_, hk, hz⟩
      · exact ih (k + 1) (by omega) h i (by omega) hl
    · have : (lenOf l[k] == 0#32) = false := by simpa using hz
      simp [this] at h

/-- what `firstFrom` answers: the position of a non-empty table with only empty tables between `k` and it … -/
theorem firstFrom_some (lenOf : Option Nat → BitVec 32) (l : List (Option Nat)) (k j : Nat) (h : firstFrom lenOf l k = some j) :
    k ≤ j ∧ j < l.length ∧ (∃ a, l[j]? = some a ∧ lenOf a ≠ 0#32) ∧ ∀ i, k ≤ i → i < j → ∃ a, l[i]? = some a ∧ lenOf a = 0#32 := by
  obtain ⟨h1, h2, h3, h4⟩ := firstFromN_some lenOf l _ _ _ h
  obtain ⟨a, ha, _⟩ := h3
  have : j < l.length := by
    rcases Nat.lt_or_ge j l.length with hl | hl
    · exact hl
    · rw [List.getElem?_eq_none hl] at ha; cases ha
  exact ⟨h1, this, ⟨a, ha, by assumption⟩, h4⟩

/-- … or nothing, exactly when every table from `k` on is empty -/
theorem firstFrom_none (lenOf : Option Nat → BitVec 32) (l : List (Option Nat)) (k : Nat) (hk : k ≤ l.length) (h : firstFrom lenOf l k = none) :
    ∀ i, k ≤ i → i < l.length → ∃ a, l[i]? = some a ∧ lenOf a = 0#32 :=
  firstFromN_none lenOf l _ k (by omega) h

section
variable {Ext : Type}
  (archAccessF : Ext → Option Nat → Option Nat) (archLenF : Ext → Option Nat → BitVec 32)
  (closeQueryF : Ext → Query → Ext × Query)
  (nextBatchF : Ext → Query → Ext × Query × Bool) (nextNodeF : Ext → Query → Ext × Query × Bool)

/-! ### `Next` and the choice of the walk -/

/-- inside a table `Next` advances the row and touches nothing else -/
theorem next_fast (q : Query) (ext : Ext) (h : q.entityIndex.toNat < q.entityIndexMax.toNat) :
    Query.Next archAccessF archLenF closeQueryF nextBatchF nextNodeF q ext = some ({ q with entityIndex := q.entityIndex + 1#32 }, ext, true) := by
  have hlt : BitVec.ult q.entityIndex q.entityIndexMax = true := by simp [BitVec.ult, h]
  simp [Query.Next, Query.checkNext, hlt, pure, bind, Option.bind]

/-- at the last row of a table `Next` is `nextArchetype` -/
theorem next_slow (q : Query) (ext : Ext) (h : ¬ q.entityIndex.toNat < q.entityIndexMax.toNat) :
    Query.Next archAccessF archLenF closeQueryF nextBatchF nextNodeF q ext =
      Query.nextArchetype archAccessF archLenF closeQueryF nextBatchF nextNodeF q ext := by
  have hlt : BitVec.ult q.entityIndex q.entityIndexMax = false := by simp [BitVec.ult, h]
  simp only [Query.Next, Query.checkNext, hlt, pure, bind, Option.bind, Bool.false_eq_true, ↓reduceIte]
  cases Query.nextArchetype archAccessF archLenF closeQueryF nextBatchF nextNodeF q ext <;> rfl

/-- a query over a registered filter walks its table list, a batch query its entries, any other the graph nodes -/
theorem nextArchetype_dispatch (q : Query) (ext : Ext) :
    Query.nextArchetype archAccessF archLenF closeQueryF nextBatchF nextNodeF q ext =
      if q.isFiltered = true then Query.nextArchetypeFiltered archAccessF archLenF closeQueryF q ext
      else if q.isBatch = true then some ((nextBatchF ext q).2.1, (nextBatchF ext q).1, (nextBatchF ext q).2.2)
      else some ((nextNodeF ext q).2.1, (nextNodeF ext q).1, (nextNodeF ext q).2.2) := by
  unfold Query.nextArchetype
  split
  · cases Query.nextArchetypeFiltered archAccessF archLenF closeQueryF q ext <;> rfl
  · split <;> rfl

/-- `stepArchetype`: the row advances by `step`; within the table that is all, beyond it the remainder is handed back -/
theorem stepArchetype_spec (q : Query) (step : BitVec 32) :
    Query.stepArchetype q step =
      some ({ q with entityIndex := q.entityIndex + step },
        if (q.entityIndex + step).toNat ≤ q.entityIndexMax.toNat then ((0 : Int), true)
        else (((q.entityIndex + step).toNat : Int) - (q.entityIndexMax.toNat : Int) - 1, false)) := by
  unfold Query.stepArchetype
  by_cases h : (q.entityIndex + step).toNat ≤ q.entityIndexMax.toNat
  · have hh := h
    simp only [BitVec.toNat_add] at hh
    have : BitVec.ule (q.entityIndex + step) q.entityIndexMax = true := by
      simp only [BitVec.ule, BitVec.toNat_add, decide_eq_true_eq]; exact hh
    simp only [this, ↓reduceIte, pure, h]
  · have hh := h
    simp only [BitVec.toNat_add] at hh
    have : BitVec.ule (q.entityIndex + step) q.entityIndexMax = false := by
      simp only [BitVec.ule, BitVec.toNat_add, decide_eq_false_iff_not]; exact hh
    simp only [this, Bool.false_eq_true, ↓reduceIte, pure, h]

/-! ### the walk over the table list of a registered filter -/

/-- a fold whose step ignores the list element is an iteration -/
def iterM {σ : Type} (g : σ → Option σ) : Nat → σ → Option σ
  | 0, s => some s
  | n + 1, s => (g s).bind (iterM g n)

theorem foldlM_ignore {σ α : Type} (g : σ → Option σ) (l : List α) (s : σ) :
    List.foldlM (m := Option) (fun s _ => g s) s l = iterM g l.length s := by
  induction l generalizing s with
  | nil => rfl
  | cons a l ih =>
    simp only [List.foldlM_cons, List.length_cons, iterM]
    cases g s with
    | none => rfl
    | some s1 => simp only [Option.bind_eq_bind, Option.bind_some]; exact ih s1

/-- one round of the loop of `nextArchetypeFiltered`, as the translator emits it -/
def fbody (len : BitVec 32) (st : Query × Ext × Option Bool) : Option (Query × Ext × Option Bool) :=
  if st.2.2.isSome = true then pure (st.1, st.2.1, st.2.2)
  else if (!BitVec.slt st.1.archIndex len) = true then pure (st.1, st.2.1, st.2.2)
  else
    (GoInt.toIndex ({ st.1 with archIndex := st.1.archIndex + 1#32 } : Query).archIndex.toInt).bind fun n2 =>
      (GoSlice.get st.1.archetypes n2).bind fun a =>
        if (archLenF st.2.1 a == 0#32) = true then
          pure (({ st.1 with archIndex := st.1.archIndex + 1#32 } : Query), st.2.1, (none : Option Bool))
        else
          pure (({ st.1 with archIndex := st.1.archIndex + 1#32, access := archAccessF st.2.1 a, archetype := a, entityIndex := 0#32,
                             entityIndexMax := archLenF st.2.1 a - 1#32 } : Query), st.2.1, some true)

theorem iter_done (len : BitVec 32) (n : Nat) (q : Query) (ext : Ext) (b : Bool) :
    iterM (fbody archAccessF archLenF len) n (q, ext, some b) = some (q, ext, some b) := by
  induction n with
  | zero => rfl
  | succ n ih => simp only [iterM, fbody, Option.isSome_some, ↓reduceIte, pure, Option.bind_eq_bind, Option.bind_some]; exact ih

/-- where the walk stands after it found the table at position `j` -/
def atTable (q : Query) (ext : Ext) (j : Nat) (a : Option Nat) : Query :=
  { q with archIndex := BitVec.ofInt 32 (j : Int), access := archAccessF ext a, archetype := a, entityIndex := 0#32,
           entityIndexMax := archLenF ext a - 1#32 }

theorem iter_spec (A : GoSlice (Option Nat)) (hsz : A.arr.size < 2147483648) (ext : Ext) (n : Nat) :
    ∀ (k : Nat) (q : Query), k + n = A.arr.size → q.archetypes = A → q.archIndex = BitVec.ofInt 32 ((k : Int) - 1) →
      iterM (fbody archAccessF archLenF (BitVec.ofInt 32 ((A.arr.size : Int) - 1))) n (q, ext, none) =
        some (match firstFromN (archLenF ext) A.arr.toList n k with
          | some j => (atTable archAccessF archLenF q ext j (A.arr.toList[j]?.getD none), ext, some true)
          | none => ({ q with archIndex := BitVec.ofInt 32 ((A.arr.size : Int) - 1) }, ext, none)) := by
  induction n with
  | zero =>
    intro k q hk hA hidx
    have : k = A.arr.size := by omega
    subst this
    simp only [iterM, firstFromN]
    rw [← hidx]
  | succ n ih =>
    intro k q hk hA hidx
    have hkl : k < A.arr.size := by omega
    have hslt : BitVec.slt q.archIndex (BitVec.ofInt 32 ((A.arr.size : Int) - 1)) = true := by
      rw [hidx]
      simp only [BitVec.slt, toInt_ofInt32 _ (show (-2147483648 : Int) ≤ (k : Int) - 1 by omega) (show (k : Int) - 1 < 2147483648 by omega),
        toInt_ofInt32 _ (show (-2147483648 : Int) ≤ (A.arr.size : Int) - 1 by omega) (show (A.arr.size : Int) - 1 < 2147483648 by omega), decide_eq_true_eq]
      omega
    have hinc : q.archIndex + 1#32 = BitVec.ofInt 32 (k : Int) := by
      rw [hidx, ofInt_succ]; congr 1; omega
    have hidx2 : GoInt.toIndex (BitVec.ofInt 32 (k : Int)).toInt = some k := by
      rw [toInt_ofInt32 _ (by omega) (by omega)]
      simp [GoInt.toIndex]
    have hget : GoSlice.get A k = some A.arr[k] := by
      simp [GoSlice.get, Array.getElem?_eq_getElem hkl]
    have hlk : A.arr.toList[k]? = some A.arr[k] := by
      simp [Array.getElem?_eq_getElem hkl]
    simp only [iterM, firstFromN, hlk]
    have hstep : fbody archAccessF archLenF (BitVec.ofInt 32 ((A.arr.size : Int) - 1)) (q, ext, none) =
        if (archLenF ext A.arr[k] == 0#32) = true then
          some (({ q with archIndex := BitVec.ofInt 32 (k : Int) } : Query), ext, (none : Option Bool))
        else some (atTable archAccessF archLenF q ext k A.arr[k], ext, some true) := by
      simp only [fbody, Option.isSome_none, Bool.false_eq_true, ↓reduceIte, hslt, Bool.not_true, hinc, hidx2, hA, hget, pure,
        Option.bind_eq_bind, Option.bind_some, atTable]
    rw [hstep]
    by_cases hz : (archLenF ext A.arr[k] == 0#32) = true
    · simp only [hz, ↓reduceIte, Option.bind_eq_bind, Option.bind_some]
      have := ih (k + 1) ({ q with archIndex := BitVec.ofInt 32 (k : Int) } : Query) (by omega) hA (by
        show BitVec.ofInt 32 (k : Int) = BitVec.ofInt 32 (((k + 1 : Nat) : Int) - 1)
        congr 1; omega)
      rw [this]
      cases firstFromN (archLenF ext) A.arr.toList n (k + 1) <;> rfl
    · simp only [hz, Bool.false_eq_true, ↓reduceIte, Option.bind_eq_bind, Option.bind_some]
      rw [iter_done]
      simp [hlk]

/-- **the walk over a registered filter's table list**: from a query standing at position `k - 1` of its list
    (`k = 0` for a fresh query), `nextArchetypeFiltered` moves to the first non-empty table at a position `≥ k`,
    ready to deliver all its rows (row 0 up to its last), and changes nothing else; when every remaining table is
    empty it closes the query (`World.closeQuery`) and answers false -/
theorem nextFiltered_spec (q : Query) (ext : Ext) (k : Nat) (hsz : q.archetypes.arr.size < 2147483648) (hk : k ≤ q.archetypes.arr.size)
    (hidx : q.archIndex = BitVec.ofInt 32 ((k : Int) - 1)) :
    Query.nextArchetypeFiltered archAccessF archLenF closeQueryF q ext =
      match firstFrom (archLenF ext) q.archetypes.arr.toList k with
      | some j => some (atTable archAccessF archLenF q ext j (q.archetypes.arr.toList[j]?.getD none), ext, true)
      | none => some ((closeQueryF ext { q with archIndex := BitVec.ofInt 32 ((q.archetypes.arr.size : Int) - 1) }).2,
                      (closeQueryF ext { q with archIndex := BitVec.ofInt 32 ((q.archetypes.arr.size : Int) - 1) }).1, false) := by
  unfold Query.nextArchetypeFiltered
  simp only [Option.bind_eq_bind, pure, GoSlice.size]
  have hfuel : ((BitVec.ofInt 32 ((q.archetypes.arr.size : Int) - 1)).toInt - q.archIndex.toInt).toNat = q.archetypes.arr.size - k := by
    rw [hidx, toInt_ofInt32 _ (by omega) (by omega), toInt_ofInt32 _ (by omega) (by omega)]
    omega
  rw [hfuel]
  have hfold := foldlM_ignore (fbody archAccessF archLenF (BitVec.ofInt 32 ((q.archetypes.arr.size : Int) - 1)))
    (List.range (q.archetypes.arr.size - k)) (q, ext, (none : Option Bool))
  rw [List.length_range] at hfold
  have hspec := iter_spec archAccessF archLenF q.archetypes hsz ext (q.archetypes.arr.size - k) k q (by omega) rfl hidx
  rw [hspec] at hfold
  have hgoal : List.foldlM (m := Option) (fun (x : Query × Ext × Option Bool) (_ : Nat) =>
      fbody archAccessF archLenF (BitVec.ofInt 32 ((q.archetypes.arr.size : Int) - 1)) x) (q, ext, none) (List.range (q.archetypes.arr.size - k)) = _ := hfold
  unfold firstFrom
  simp only [Array.length_toList]
  change (Option.bind (List.foldlM (m := Option) (fun (x : Query × Ext × Option Bool) (_ : Nat) =>
      fbody archAccessF archLenF (BitVec.ofInt 32 ((q.archetypes.arr.size : Int) - 1)) x) (q, ext, none) (List.range (q.archetypes.arr.size - k))) _) = _
  rw [hgoal]
  cases firstFromN (archLenF ext) q.archetypes.arr.toList (q.archetypes.arr.size - k) k <;> rfl

end

/-! ### a concrete walk: tables 10 (empty), 11 (3 rows), 12 (empty), 13 (1 row) -/

def demoLen (_ : Unit) (a : Option Nat) : BitVec 32 := match a with | some 11 => 3#32 | some 13 => 1#32 | _ => 0#32
def demoQ : Query := { (default : Query) with archetypes := ⟨#[some 10, some 11, some 12, some 13], 4⟩, archIndex := BitVec.ofInt 32 (-1), isFiltered := true }
def demoStep (q : Query) : Option (Query × Unit × Bool) :=
  Query.Next (fun _ a => a) demoLen (fun e q => (e, { q with archIndex := BitVec.ofInt 32 (-2) })) (fun e q => (e, q, false)) (fun e q => (e, q, false)) q ()
def demoWalk : Nat → Query → List (Nat × Nat)
  | 0, _ => []
  | n + 1, q => match demoStep q with
    | some (q', _, true) => (q'.archetype.getD 0, q'.entityIndex.toNat) :: demoWalk n q'
    | _ => []
/-- `Next` visits the three rows of table 11, then the row of table 13, then stops -/
theorem demo_walk : demoWalk 10 demoQ = [(11, 0), (11, 1), (11, 2), (13, 0)] := by decide +kernel

/-- the premises of `nextFiltered_spec` hold for a fresh query over that list -/
example : demoQ.archetypes.arr.size < 2147483648 ∧ 0 ≤ demoQ.archetypes.arr.size ∧ demoQ.archIndex = BitVec.ofInt 32 (((0 : Nat) : Int) - 1) := by decide

end Arche.Props.C03_IterGen
