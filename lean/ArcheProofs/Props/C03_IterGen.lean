/-
  C03 (companion) — query iteration REGENERATED from ecs/query.go: `Query.Next`, `Query.nextArchetype`,
  `Query.nextArchetypeFiltered` (the walk over the table list of a registered filter), `Query.nextArchetypeSimple`, `nextArchetypeBatch`, `nextBatch`, `nextNode`, `nextNodeOrArchetype`,
  `Query.stepArchetype`, `Query.setArchetype`. Tables and graph nodes are objects outside the module (hidden state `Ext`);
  `World.closeQuery` is a state-threading parameter.

  * `next_fast` / `next_slow`: inside a table `Next` only advances the row; at its end it is `nextArchetype`;
  * `nextArchetype_dispatch`: which walk a query uses;
  * `nextFiltered_spec`: the walk over a registered filter's table list moves to the FIRST non-empty table behind the
    current one — all rows of it, from row 0 to its last — and closes the query exactly when there is none
    (`firstFrom_some` / `firstFrom_none` say what "first" means);
  * `stepArchetype_spec`: the arithmetic of `Step` inside a table.
-/
import ArcheGen.Pool256

namespace Arche.Props.C03_IterGen
open ArcheGen ArcheGen.P256

/-! ### 32-bit signed arithmetic of the table counter -/

theorem toInt_ofInt32 (z : Int) (h1 : -2147483648 ≤ z) (h2 : z < 2147483648) : (BitVec.ofInt 32 z).toInt = z := by
  rw [BitVec.toInt_ofInt]
  unfold Int.bmod
  have h32 : ((2 ^ 32 : Nat) : Int) = 4294967296 := by decide
  rw [h32]
  show (if z % 4294967296 < (4294967296 + 1) / 2 then z % 4294967296 else z % 4294967296 - 4294967296) = z
  split <;> omega

theorem ofInt_succ (z : Int) : BitVec.ofInt 32 z + 1#32 = BitVec.ofInt 32 (z + 1) := by
  have : (1#32) = BitVec.ofInt 32 1 := by decide
  rw [this, ← BitVec.ofInt_add]

/-! ### "the first non-empty table from position k on" -/

def firstFromN (lenOf : Option Nat → BitVec 32) (l : List (Option Nat)) : Nat → Nat → Option Nat
  | 0, _ => none
  | n + 1, k =>
    match l[k]? with
    | some a => if lenOf a == 0#32 then firstFromN lenOf l n (k + 1) else some k
    | none => none

/-- the first position `j ≥ k` of the list whose table is not empty -/
def firstFrom (lenOf : Option Nat → BitVec 32) (l : List (Option Nat)) (k : Nat) : Option Nat :=
  firstFromN lenOf l (l.length - k) k

theorem firstFromN_some (lenOf : Option Nat → BitVec 32) (l : List (Option Nat)) (n k j : Nat)
    (h : firstFromN lenOf l n k = some j) :
    k ≤ j ∧ j < k + n ∧ (∃ a, l[j]? = some a ∧ lenOf a ≠ 0#32) ∧ ∀ i, k ≤ i → i < j → ∃ a, l[i]? = some a ∧ lenOf a = 0#32 := by
  induction n generalizing k with
  | zero => simp [firstFromN] at h
  | succ n ih =>
    unfold firstFromN at h
    cases hk : l[k]? with
    | none => simp [hk] at h
    | some a =>
      simp only [hk] at h
      by_cases hz : lenOf a = 0#32
      · simp only [hz, beq_self_eq_true, ↓reduceIte] at h
        obtain ⟨h1, h2, h3, h4⟩ := ih (k + 1) h
        refine ⟨by omega, by omega, h3, ?_⟩
        intro i hi hij
        by_cases hik : i = k
        · subst hik; exact ⟨a, hk, hz⟩
        · exact h4 i (by omega) hij
      · have : (lenOf a == 0#32) = false := by simpa using hz
        simp only [this, Bool.false_eq_true, ↓reduceIte, Option.some.injEq] at h
        subst h
        exact ⟨Nat.le_refl _, by omega, ⟨a, hk, hz⟩, fun i hi hij => by omega⟩

theorem firstFromN_none (lenOf : Option Nat → BitVec 32) (l : List (Option Nat)) (n k : Nat) (hn : k + n = l.length)
    (h : firstFromN lenOf l n k = none) : ∀ i, k ≤ i → i < l.length → ∃ a, l[i]? = some a ∧ lenOf a = 0#32 := by
  induction n generalizing k with
  | zero => intro i hi hl; omega
  | succ n ih =>
    unfold firstFromN at h
    have hkl : k < l.length := by omega
    have hk : l[k]? = some l[k] := List.getElem?_eq_getElem hkl
    simp only [hk] at h
    by_cases hz : lenOf l[k] = 0#32
    · simp only [hz, beq_self_eq_true, ↓reduceIte] at h
      intro i hi hl
      by_cases hik : i = k
      · subst hik; exact ⟨_, hk, hz⟩
      · exact ih (k + 1) (by omega) h i (by omega) hl
    · have : (lenOf l[k] == 0#32) = false := by simpa using hz
      simp [this] at h

/-- what `firstFrom` answers: the position of a non-empty table with only empty tables between `k` and it … -/
theorem firstFrom_some (lenOf : Option Nat → BitVec 32) (l : List (Option Nat)) (k j : Nat) (h : firstFrom lenOf l k = some j) :
    k ≤ j ∧ j < l.length ∧ (∃ a, l[j]? = some a ∧ lenOf a ≠ 0#32) ∧ ∀ i, k ≤ i → i < j → ∃ a, l[i]? = some a ∧ lenOf a = 0#32 := by
  obtain ⟨h1, h2, h3, h4⟩ := firstFromN_some lenOf l _ _ _ h
  obtain ⟨a, ha, _⟩ := h3
  have : j < l.length := by
    rcases Nat.lt_or_ge j l.length with hl | hl
    · exact hl
    · rw [List.getElem?_eq_none hl] at ha; cases ha
  exact ⟨h1, this, ⟨a, ha, by assumption⟩, h4⟩

/-- … or nothing, exactly when every table from `k` on is empty -/
theorem firstFrom_none (lenOf : Option Nat → BitVec 32) (l : List (Option Nat)) (k : Nat) (hk : k ≤ l.length) (h : firstFrom lenOf l k = none) :
    ∀ i, k ≤ i → i < l.length → ∃ a, l[i]? = some a ∧ lenOf a = 0#32 :=
  firstFromN_none lenOf l _ k (by omega) h

section
variable {Ext : Type}
  (archAccessF : Ext → Option Nat → Option Nat) (archLenF : Ext → Option Nat → BitVec 32)
  (closeQueryF : Ext → Query → Ext × Query)
  (archIndexF : Ext → Option Nat → BitVec 32) (archsGetF : GoAny → BitVec 32 → Option Nat) (archsLenF : GoAny → BitVec 32)
  (asBatchF : GoAny → Option batchArchetypes) (nodeActiveF : Ext → Option Nat → Bool)
  (nodeArchMapF : Ext → Option Nat → Entity → Option (Option Nat)) (nodeArchetypesF : Ext → Option Nat → GoAny)
  (nodeHasRelationF : Ext → Option Nat → Bool) (nodeMatchesF : Ext → Option Nat → GoAny → Bool) (relationTargetF : GoAny → Option Entity)

/-! ### `Next` and the choice of the walk -/

/-- inside a table `Next` advances the row and touches nothing else -/
theorem next_fast (q : Query) (ext : Ext) (h : q.entityIndex.toNat < q.entityIndexMax.toNat) :
    Query.Next archAccessF archIndexF archLenF archsGetF archsLenF asBatchF closeQueryF nodeActiveF nodeArchMapF nodeArchetypesF nodeHasRelationF nodeMatchesF relationTargetF q ext = some ({ q with entityIndex := q.entityIndex + 1#32 }, ext, true) := by
  have hlt : BitVec.ult q.entityIndex q.entityIndexMax = true := by simp [BitVec.ult, h]
  simp [Query.Next, Query.checkNext, hlt, pure, bind, Option.bind]

/-- at the last row of a table `Next` is `nextArchetype` -/
theorem next_slow (q : Query) (ext : Ext) (h : ¬ q.entityIndex.toNat < q.entityIndexMax.toNat) :
    Query.Next archAccessF archIndexF archLenF archsGetF archsLenF asBatchF closeQueryF nodeActiveF nodeArchMapF nodeArchetypesF nodeHasRelationF nodeMatchesF relationTargetF q ext =
      Query.nextArchetype archAccessF archIndexF archLenF archsGetF archsLenF asBatchF closeQueryF nodeActiveF nodeArchMapF nodeArchetypesF nodeHasRelationF nodeMatchesF relationTargetF q ext := by
  have hlt : BitVec.ult q.entityIndex q.entityIndexMax = false := by simp [BitVec.ult, h]
  simp only [Query.Next, Query.checkNext, hlt, pure, bind, Option.bind, Bool.false_eq_true, ↓reduceIte]
  cases Query.nextArchetype archAccessF archIndexF archLenF archsGetF archsLenF asBatchF closeQueryF nodeActiveF nodeArchMapF nodeArchetypesF nodeHasRelationF nodeMatchesF relationTargetF q ext <;> rfl

/-- a query over a registered filter walks its table list, a batch query its entries, any other the graph nodes -/
theorem nextArchetype_dispatch (q : Query) (ext : Ext) :
    Query.nextArchetype archAccessF archIndexF archLenF archsGetF archsLenF asBatchF closeQueryF nodeActiveF nodeArchMapF nodeArchetypesF nodeHasRelationF nodeMatchesF relationTargetF q ext =
      if q.isFiltered = true then Query.nextArchetypeFiltered archAccessF archLenF closeQueryF q ext
      else if q.isBatch = true then Query.nextBatch archAccessF archLenF archsGetF archsLenF asBatchF closeQueryF q ext
      else Query.nextNodeOrArchetype archAccessF archIndexF archLenF archsGetF archsLenF closeQueryF nodeActiveF nodeArchMapF nodeArchetypesF
        nodeHasRelationF nodeMatchesF relationTargetF q ext := by
  unfold Query.nextArchetype
  split
  · cases Query.nextArchetypeFiltered archAccessF archLenF closeQueryF q ext <;> rfl
  · split
    · cases Query.nextBatch archAccessF archLenF archsGetF archsLenF asBatchF closeQueryF q ext <;> rfl
    · cases Query.nextNodeOrArchetype archAccessF archIndexF archLenF archsGetF archsLenF closeQueryF nodeActiveF nodeArchMapF nodeArchetypesF
        nodeHasRelationF nodeMatchesF relationTargetF q ext <;> rfl

/-- `stepArchetype`: the row advances by `step`; within the table that is all, beyond it the remainder is handed back -/
theorem stepArchetype_spec (q : Query) (step : BitVec 32) :
    Query.stepArchetype q step =
      some ({ q with entityIndex := q.entityIndex + step },
        if (q.entityIndex + step).toNat ≤ q.entityIndexMax.toNat then ((0 : Int), true)
        else (((q.entityIndex + step).toNat : Int) - (q.entityIndexMax.toNat : Int) - 1, false)) := by
  unfold Query.stepArchetype
  by_cases h : (q.entityIndex + step).toNat ≤ q.entityIndexMax.toNat
  · have hh := h
    simp only [BitVec.toNat_add] at hh
    have : BitVec.ule (q.entityIndex + step) q.entityIndexMax = true := by
      simp only [BitVec.ule, BitVec.toNat_add, decide_eq_true_eq]; exact hh
    simp only [this, ↓reduceIte, pure, h]
  · have hh := h
    simp only [BitVec.toNat_add] at hh
    have : BitVec.ule (q.entityIndex + step) q.entityIndexMax = false := by
      simp only [BitVec.ule, BitVec.toNat_add, decide_eq_false_iff_not]; exact hh
    simp only [this, Bool.false_eq_true, ↓reduceIte, pure, h]

/-! ### the walk over the table list of a registered filter -/

/-- a fold whose step ignores the list element is an iteration -/
def iterM {σ : Type} (g : σ → Option σ) : Nat → σ → Option σ
  | 0, s => some s
  | n + 1, s => (g s).bind (iterM g n)

theorem foldlM_ignore {σ α : Type} (g : σ → Option σ) (l : List α) (s : σ) :
    List.foldlM (m := Option) (fun s _ => g s) s l = iterM g l.length s := by
  induction l generalizing s with
  | nil => rfl
  | cons a l ih =>
    simp only [List.foldlM_cons, List.length_cons, iterM]
    cases g s with
    | none => rfl
    | some s1 => simp only [Option.bind_eq_bind, Option.bind_some]; exact ih s1

/-- one round of the loop of `nextArchetypeFiltered`, as the translator emits it -/
def fbody (len : BitVec 32) (st : Query × Ext × Option Bool) : Option (Query × Ext × Option Bool) :=
  if st.2.2.isSome = true then pure (st.1, st.2.1, st.2.2)
  else if (!BitVec.slt st.1.archIndex len) = true then pure (st.1, st.2.1, st.2.2)
  else
    (GoInt.toIndex ({ st.1 with archIndex := st.1.archIndex + 1#32 } : Query).archIndex.toInt).bind fun n2 =>
      (GoSlice.get st.1.archetypes n2).bind fun a =>
        a.bind fun _ =>
          if (archLenF st.2.1 a == 0#32) = true then
            pure (({ st.1 with archIndex := st.1.archIndex + 1#32 } : Query), st.2.1, (none : Option Bool))
          else
            a.bind fun _ =>
              pure (({ st.1 with archIndex := st.1.archIndex + 1#32, access := archAccessF st.2.1 a, archetype := a, entityIndex := 0#32,
                                 entityIndexMax := archLenF st.2.1 a - 1#32 } : Query), st.2.1, some true)

theorem iter_done (len : BitVec 32) (n : Nat) (q : Query) (ext : Ext) (b : Bool) :
    iterM (fbody archAccessF archLenF len) n (q, ext, some b) = some (q, ext, some b) := by
  induction n with
  | zero => rfl
  | succ n ih => simp only [iterM, fbody, Option.isSome_some, ↓reduceIte, pure, Option.bind_eq_bind, Option.bind_some]; exact ih

/-- where the walk stands after it found the table at position `j` -/
def atTable (q : Query) (ext : Ext) (j : Nat) (a : Option Nat) : Query :=
  { q with archIndex := BitVec.ofInt 32 (j : Int), access := archAccessF ext a, archetype := a, entityIndex := 0#32,
           entityIndexMax := archLenF ext a - 1#32 }

theorem iter_spec (A : GoSlice (Option Nat)) (hsz : A.arr.size < 2147483648) (hsome : ∀ a ∈ A.arr.toList, a.isSome = true) (ext : Ext) (n : Nat) :
    ∀ (k : Nat) (q : Query), k + n = A.arr.size → q.archetypes = A → q.archIndex = BitVec.ofInt 32 ((k : Int) - 1) →
      iterM (fbody archAccessF archLenF (BitVec.ofInt 32 ((A.arr.size : Int) - 1))) n (q, ext, none) =
        some (match firstFromN (archLenF ext) A.arr.toList n k with
          | some j => (atTable archAccessF archLenF q ext j (A.arr.toList[j]?.getD none), ext, some true)
          | none => ({ q with archIndex := BitVec.ofInt 32 ((A.arr.size : Int) - 1) }, ext, none)) := by
  induction n with
  | zero =>
    intro k q hk hA hidx
    have : k = A.arr.size := by omega
    subst this
    simp only [iterM, firstFromN]
    rw [← hidx]
  | succ n ih =>
    intro k q hk hA hidx
    have hkl : k < A.arr.size := by omega
    have hslt : BitVec.slt q.archIndex (BitVec.ofInt 32 ((A.arr.size : Int) - 1)) = true := by
      rw [hidx]
      simp only [BitVec.slt, toInt_ofInt32 _ (show (-2147483648 : Int) ≤ (k : Int) - 1 by omega) (show (k : Int) - 1 < 2147483648 by omega),
        toInt_ofInt32 _ (show (-2147483648 : Int) ≤ (A.arr.size : Int) - 1 by omega) (show (A.arr.size : Int) - 1 < 2147483648 by omega), decide_eq_true_eq]
      omega
    have hinc : q.archIndex + 1#32 = BitVec.ofInt 32 (k : Int) := by
      rw [hidx, ofInt_succ]; congr 1; omega
    have hidx2 : GoInt.toIndex (BitVec.ofInt 32 (k : Int)).toInt = some k := by
      rw [toInt_ofInt32 _ (by omega) (by omega)]
      simp [GoInt.toIndex]
    have hget : GoSlice.get A k = some A.arr[k] := by
      simp [GoSlice.get, Array.getElem?_eq_getElem hkl]
    have hlk : A.arr.toList[k]? = some A.arr[k] := by
      simp [Array.getElem?_eq_getElem hkl]
    have hs : (A.arr[k]).isSome = true := hsome _ (by simp)
    obtain ⟨v, hv⟩ := Option.isSome_iff_exists.mp hs
    simp only [iterM, firstFromN, hlk]
    have hstep : fbody archAccessF archLenF (BitVec.ofInt 32 ((A.arr.size : Int) - 1)) (q, ext, none) =
        if (archLenF ext A.arr[k] == 0#32) = true then
          some (({ q with archIndex := BitVec.ofInt 32 (k : Int) } : Query), ext, (none : Option Bool))
        else some (atTable archAccessF archLenF q ext k A.arr[k], ext, some true) := by
      simp only [fbody, Option.isSome_none, Bool.false_eq_true, ↓reduceIte, hslt, Bool.not_true, hinc, hidx2, hA, hget, pure,
        Option.bind_eq_bind, Option.bind_some, atTable]
      rw [hv]
      simp only [Option.bind_some]
    rw [hstep]
    by_cases hz : (archLenF ext A.arr[k] == 0#32) = true
    · simp only [hz, ↓reduceIte, Option.bind_eq_bind, Option.bind_some]
      have := ih (k + 1) ({ q with archIndex := BitVec.ofInt 32 (k : Int) } : Query) (by omega) hA (by
        show BitVec.ofInt 32 (k : Int) = BitVec.ofInt 32 (((k + 1 : Nat) : Int) - 1)
        congr 1; omega)
      rw [this]
      cases firstFromN (archLenF ext) A.arr.toList n (k + 1) <;> rfl
    · simp only [hz, Bool.false_eq_true, ↓reduceIte, Option.bind_eq_bind, Option.bind_some]
      rw [iter_done]
      simp [hlk]

/-- **the walk over a registered filter's table list**: from a query standing at position `k - 1` of its list
    (`k = 0` for a fresh query), `nextArchetypeFiltered` moves to the first non-empty table at a position `≥ k`,
    ready to deliver all its rows (row 0 up to its last), and changes nothing else; when every remaining table is
    empty it closes the query (`World.closeQuery`) and answers false -/
theorem nextFiltered_spec (q : Query) (ext : Ext) (k : Nat) (hsz : q.archetypes.arr.size < 2147483648)
    (hsome : ∀ a ∈ q.archetypes.arr.toList, a.isSome = true) (hk : k ≤ q.archetypes.arr.size)
    (hidx : q.archIndex = BitVec.ofInt 32 ((k : Int) - 1)) :
    Query.nextArchetypeFiltered archAccessF archLenF closeQueryF q ext =
      match firstFrom (archLenF ext) q.archetypes.arr.toList k with
      | some j => some (atTable archAccessF archLenF q ext j (q.archetypes.arr.toList[j]?.getD none), ext, true)
      | none => some ((closeQueryF ext { q with archIndex := BitVec.ofInt 32 ((q.archetypes.arr.size : Int) - 1) }).2,
                      (closeQueryF ext { q with archIndex := BitVec.ofInt 32 ((q.archetypes.arr.size : Int) - 1) }).1, false) := by
  unfold Query.nextArchetypeFiltered
  simp only [Option.bind_eq_bind, pure, GoSlice.size]
  have hfuel : ((BitVec.ofInt 32 ((q.archetypes.arr.size : Int) - 1)).toInt - q.archIndex.toInt).toNat = q.archetypes.arr.size - k := by
    rw [hidx, toInt_ofInt32 _ (by omega) (by omega), toInt_ofInt32 _ (by omega) (by omega)]
    omega
  rw [hfuel]
  have hfold := foldlM_ignore (fbody archAccessF archLenF (BitVec.ofInt 32 ((q.archetypes.arr.size : Int) - 1)))
    (List.range (q.archetypes.arr.size - k)) (q, ext, (none : Option Bool))
  rw [List.length_range] at hfold
  have hspec := iter_spec archAccessF archLenF q.archetypes hsz hsome ext (q.archetypes.arr.size - k) k q (by omega) rfl hidx
  rw [hspec] at hfold
  have hgoal : List.foldlM (m := Option) (fun (x : Query × Ext × Option Bool) (_ : Nat) =>
      fbody archAccessF archLenF (BitVec.ofInt 32 ((q.archetypes.arr.size : Int) - 1)) x) (q, ext, none) (List.range (q.archetypes.arr.size - k)) = _ := hfold
  unfold firstFrom
  simp only [Array.length_toList]
  change (Option.bind (List.foldlM (m := Option) (fun (x : Query × Ext × Option Bool) (_ : Nat) =>
      fbody archAccessF archLenF (BitVec.ofInt 32 ((q.archetypes.arr.size : Int) - 1)) x) (q, ext, none) (List.range (q.archetypes.arr.size - k))) _) = _
  rw [hgoal]
  cases firstFromN (archLenF ext) q.archetypes.arr.toList (q.archetypes.arr.size - k) k <;> rfl

/-! ### the walk over the entries of a batch query -/

/-- one round of the loop of `nextArchetypeBatch` -/
def bwbody (archAccessF' : Option Nat → Option Nat) (archLenF' : Option Nat → BitVec 32) (len : BitVec 32) (st : Query × Option Bool) : Option (Query × Option Bool) :=
  if st.2.isSome = true then pure (st.1, st.2)
  else if (!BitVec.slt st.1.archIndex len) = true then pure (st.1, st.2)
  else
    (archsGetF st.1.nodeArchetypes (st.1.archIndex + 1#32)).bind fun _ =>
      if BitVec.ult 0#32 (archLenF' (archsGetF st.1.nodeArchetypes (st.1.archIndex + 1#32))) = true then
        (archsGetF st.1.nodeArchetypes (st.1.archIndex + 1#32)).bind fun _ =>
          (asBatchF st.1.nodeArchetypes).bind fun batch =>
            (GoInt.toIndex (st.1.archIndex + 1#32).toInt).bind fun n2 =>
              (GoSlice.get batch.StartIndex n2).bind fun t3 =>
                (GoInt.toIndex (st.1.archIndex + 1#32).toInt).bind fun n4 =>
                  (GoSlice.get batch.EndIndex n4).bind fun t5 =>
                    pure (({ st.1 with archIndex := st.1.archIndex + 1#32,
                                       access := archAccessF' (archsGetF st.1.nodeArchetypes (st.1.archIndex + 1#32)),
                                       archetype := archsGetF st.1.nodeArchetypes (st.1.archIndex + 1#32),
                                       entityIndex := t3, entityIndexMax := t5 - 1#32 } : Query), some true)
      else pure (({ st.1 with archIndex := st.1.archIndex + 1#32 } : Query), (none : Option Bool))

theorem bw_done (f g : Option Nat → _) (len : BitVec 32) (n : Nat) (q : Query) (b : Bool) :
    iterM (bwbody archsGetF asBatchF f g len) n (q, some b) = some (q, some b) := by
  induction n with
  | zero => rfl
  | succ n ih => simp only [iterM, bwbody, Option.isSome_some, ↓reduceIte, pure, Option.bind_some]; exact ih

/-- where the walk stands after it found entry `j` of the batch -/
def atEntry (archAccessF' : Option Nat → Option Nat) (q : Query) (b : batchArchetypes) (j : Nat) : Query :=
  { q with archIndex := BitVec.ofInt 32 (j : Int), access := archAccessF' (b.Archetype.arr.toList[j]?.getD none),
           archetype := b.Archetype.arr.toList[j]?.getD none,
           entityIndex := b.StartIndex.arr.toList[j]?.getD 0#32, entityIndexMax := b.EndIndex.arr.toList[j]?.getD 0#32 - 1#32 }

theorem bw_spec (f g : Option Nat → _) (x : GoAny) (b : batchArchetypes) (hb : asBatchF x = some b) (hsz : b.Archetype.arr.size < 2147483648)
    (hs1 : b.StartIndex.arr.size = b.Archetype.arr.size) (hs2 : b.EndIndex.arr.size = b.Archetype.arr.size)
    (hsome : ∀ a ∈ b.Archetype.arr.toList, a.isSome = true)
    (hget : ∀ i, i < b.Archetype.arr.size → archsGetF x (BitVec.ofInt 32 (i : Int)) = b.Archetype.arr.toList[i]?.getD none) (n : Nat) :
    ∀ (k : Nat) (q : Query), k + n = b.Archetype.arr.size → q.nodeArchetypes = x → q.archIndex = BitVec.ofInt 32 ((k : Int) - 1) →
      iterM (bwbody archsGetF asBatchF f g (BitVec.ofInt 32 ((b.Archetype.arr.size : Int) - 1))) n (q, none) =
        some (match firstFromN g b.Archetype.arr.toList n k with
          | some j => (atEntry f q b j, some true)
          | none => ({ q with archIndex := BitVec.ofInt 32 ((b.Archetype.arr.size : Int) - 1) }, none)) := by
  induction n with
  | zero =>
    intro k q hk hA hidx
    have : k = b.Archetype.arr.size := by omega
    subst this
    simp only [iterM, firstFromN]
    rw [← hidx]
  | succ n ih =>
    intro k q hk hA hidx
    have hkl : k < b.Archetype.arr.size := by omega
    have hslt : BitVec.slt q.archIndex (BitVec.ofInt 32 ((b.Archetype.arr.size : Int) - 1)) = true := by
      rw [hidx]
      simp only [BitVec.slt, toInt_ofInt32 _ (show (-2147483648 : Int) ≤ (k : Int) - 1 by omega) (show (k : Int) - 1 < 2147483648 by omega),
        toInt_ofInt32 _ (show (-2147483648 : Int) ≤ (b.Archetype.arr.size : Int) - 1 by omega) (show (b.Archetype.arr.size : Int) - 1 < 2147483648 by omega), decide_eq_true_eq]
      omega
    have hinc : q.archIndex + 1#32 = BitVec.ofInt 32 (k : Int) := by
      rw [hidx, ofInt_succ]; congr 1; omega
    have hidx2 : GoInt.toIndex (BitVec.ofInt 32 (k : Int)).toInt = some k := by
      rw [toInt_ofInt32 _ (by omega) (by omega)]
      simp [GoInt.toIndex]
    have hlk : b.Archetype.arr.toList[k]? = some b.Archetype.arr[k] := by simp [Array.getElem?_eq_getElem hkl]
    have hl1 : b.StartIndex.arr.toList[k]? = some (b.StartIndex.arr[k]'(by omega)) := by simp [Array.getElem?_eq_getElem (show k < b.StartIndex.arr.size by omega)]
    have hl2 : b.EndIndex.arr.toList[k]? = some (b.EndIndex.arr[k]'(by omega)) := by simp [Array.getElem?_eq_getElem (show k < b.EndIndex.arr.size by omega)]
    have hg1 : GoSlice.get b.StartIndex k = some (b.StartIndex.arr[k]'(by omega)) := by simp [GoSlice.get, Array.getElem?_eq_getElem (show k < b.StartIndex.arr.size by omega)]
    have hg2 : GoSlice.get b.EndIndex k = some (b.EndIndex.arr[k]'(by omega)) := by simp [GoSlice.get, Array.getElem?_eq_getElem (show k < b.EndIndex.arr.size by omega)]
    have hga : archsGetF x (BitVec.ofInt 32 (k : Int)) = b.Archetype.arr[k] := by rw [hget k hkl, hlk]; rfl
    have hs : (b.Archetype.arr[k]).isSome = true := hsome _ (by simp)
    obtain ⟨v, hv⟩ := Option.isSome_iff_exists.mp hs
    simp only [iterM, firstFromN, hlk]
    have hstep : bwbody archsGetF asBatchF f g (BitVec.ofInt 32 ((b.Archetype.arr.size : Int) - 1)) (q, none) =
        if (g b.Archetype.arr[k] == 0#32) = true then
          some (({ q with archIndex := BitVec.ofInt 32 (k : Int) } : Query), (none : Option Bool))
        else some (atEntry f q b k, some true) := by
      have hpos : BitVec.ult 0#32 (g b.Archetype.arr[k]) = !(g b.Archetype.arr[k] == 0#32) := by
        by_cases hz : g b.Archetype.arr[k] = 0#32
        · simp [hz, BitVec.ult]
        · have hnz : (g b.Archetype.arr[k]).toNat ≠ 0 := fun h0 => hz (BitVec.eq_of_toNat_eq (by simpa using h0))
          have h1 : BitVec.ult 0#32 (g b.Archetype.arr[k]) = true := by
            simp only [BitVec.ult, BitVec.toNat_ofNat, decide_eq_true_eq]; omega
          have h2 : (g b.Archetype.arr[k] == 0#32) = false := by simpa using hz
          rw [h1, h2]; rfl
      simp only [bwbody, Option.isSome_none, Bool.false_eq_true, ↓reduceIte, hslt, Bool.not_true, hinc, hA, hga, hpos, hb, hidx2, hg1, hg2, pure,
        Option.bind_some, atEntry, hlk, hl1, hl2, Option.getD_some]
      rw [hv]
      simp only [Option.bind_some]
      by_cases hz : (g (some v) == 0#32) = true
      · simp [hz]
      · simp [hz]
    rw [hstep]
    by_cases hz : (g b.Archetype.arr[k] == 0#32) = true
    · simp only [hz, ↓reduceIte, Option.bind_some]
      have := ih (k + 1) ({ q with archIndex := BitVec.ofInt 32 (k : Int) } : Query) (by omega) hA (by
        show BitVec.ofInt 32 (k : Int) = BitVec.ofInt 32 (((k + 1 : Nat) : Int) - 1)
        congr 1; omega)
      rw [this]
      cases firstFromN g b.Archetype.arr.toList n (k + 1) <;> rfl
    · simp only [hz, Bool.false_eq_true, ↓reduceIte, Option.bind_some]
      rw [bw_done]

/-- **the walk over the entries of a batch query**: `nextBatch` moves to the first entry at a position `≥ k` whose
    destination table is not empty and stands at the recorded row range of that entry — from `StartIndex` to
    `EndIndex − 1`, the rows the operation appended, not the rows the table held before —; with no such entry it closes
    the query and answers false (hypotheses: the interface calls `Len` / `Get` on the query's table list are those of
    the batch behind it) -/
theorem nextBatch_spec (q : Query) (ext : Ext) (k : Nat) (b : batchArchetypes) (hb : asBatchF q.nodeArchetypes = some b)
    (hsz : b.Archetype.arr.size < 2147483648) (hs1 : b.StartIndex.arr.size = b.Archetype.arr.size) (hs2 : b.EndIndex.arr.size = b.Archetype.arr.size)
    (hsome : ∀ a ∈ b.Archetype.arr.toList, a.isSome = true)
    (hlen : archsLenF q.nodeArchetypes = BitVec.ofInt 32 (b.Archetype.arr.size : Int))
    (hget : ∀ i, i < b.Archetype.arr.size → archsGetF q.nodeArchetypes (BitVec.ofInt 32 (i : Int)) = b.Archetype.arr.toList[i]?.getD none)
    (hk : k ≤ b.Archetype.arr.size) (hidx : q.archIndex = BitVec.ofInt 32 ((k : Int) - 1)) :
    Query.nextBatch archAccessF archLenF archsGetF archsLenF asBatchF closeQueryF q ext =
      match firstFrom (archLenF ext) b.Archetype.arr.toList k with
      | some j => some (atEntry (archAccessF ext) q b j, ext, true)
      | none => some ((closeQueryF ext { q with archIndex := BitVec.ofInt 32 ((b.Archetype.arr.size : Int) - 1) }).2,
                      (closeQueryF ext { q with archIndex := BitVec.ofInt 32 ((b.Archetype.arr.size : Int) - 1) }).1, false) := by
  unfold Query.nextBatch Query.nextArchetypeBatch
  have hlen1 : archsLenF q.nodeArchetypes - 1#32 = BitVec.ofInt 32 ((b.Archetype.arr.size : Int) - 1) := by
    rw [hlen]
    apply BitVec.eq_of_toInt_eq
    rw [BitVec.toInt_sub, toInt_ofInt32 _ (by omega) (by omega), toInt_ofInt32 _ (by omega) (by omega)]
    have h1 : (1#32).toInt = 1 := by decide
    rw [h1]
    unfold Int.bmod
    have h32 : ((2 ^ 32 : Nat) : Int) = 4294967296 := by decide
    rw [h32]
    show (if ((b.Archetype.arr.size : Int) - 1) % 4294967296 < (4294967296 + 1) / 2 then ((b.Archetype.arr.size : Int) - 1) % 4294967296 else ((b.Archetype.arr.size : Int) - 1) % 4294967296 - 4294967296) = _
    split <;> omega
  simp only [Option.bind_eq_bind, pure, hlen1]
  have hfuel : ((BitVec.ofInt 32 ((b.Archetype.arr.size : Int) - 1)).toInt - q.archIndex.toInt).toNat = b.Archetype.arr.size - k := by
    rw [hidx, toInt_ofInt32 _ (by omega) (by omega), toInt_ofInt32 _ (by omega) (by omega)]
    omega
  rw [hfuel]
  have hfold := foldlM_ignore (bwbody archsGetF asBatchF (archAccessF ext) (archLenF ext) (BitVec.ofInt 32 ((b.Archetype.arr.size : Int) - 1)))
    (List.range (b.Archetype.arr.size - k)) (q, (none : Option Bool))
  rw [List.length_range] at hfold
  have hspec := bw_spec archsGetF asBatchF (archAccessF ext) (archLenF ext) q.nodeArchetypes b hb hsz hs1 hs2 hsome hget (b.Archetype.arr.size - k) k q (by omega) rfl hidx
  rw [hspec] at hfold
  unfold firstFrom
  simp only [Array.length_toList]
  change (Option.bind (Option.bind (List.foldlM (m := Option) (fun (x : Query × Option Bool) (_ : Nat) =>
      bwbody archsGetF asBatchF (archAccessF ext) (archLenF ext) (BitVec.ofInt 32 ((b.Archetype.arr.size : Int) - 1)) x) (q, none) (List.range (b.Archetype.arr.size - k))) _) _) = _
  rw [hfold]
  cases firstFromN (archLenF ext) b.Archetype.arr.toList (b.Archetype.arr.size - k) k <;> rfl

end

/-! ### a concrete walk: tables 10 (empty), 11 (3 rows), 12 (empty), 13 (1 row) -/

def demoLen (_ : Unit) (a : Option Nat) : BitVec 32 := match a with | some 11 => 3#32 | some 13 => 1#32 | _ => 0#32
def demoQ : Query := { (default : Query) with archetypes := ⟨#[some 10, some 11, some 12, some 13], 4⟩, archIndex := BitVec.ofInt 32 (-1), isFiltered := true }
def demoStep (q : Query) : Option (Query × Unit × Bool) :=
  Query.Next (fun _ a => a) (fun _ _ => 0#32) demoLen (fun _ _ => none) (fun _ => 0#32) (fun _ => none)
    (fun e q => (e, { q with archIndex := BitVec.ofInt 32 (-2) })) (fun _ _ => false) (fun _ _ _ => none) (fun _ _ => none) (fun _ _ => false) (fun _ _ _ => false) (fun _ => none) q ()
def demoWalk : Nat → Query → List (Nat × Nat)
  | 0, _ => []
  | n + 1, q => match demoStep q with
    | some (q', _, true) => (q'.archetype.getD 0, q'.entityIndex.toNat) :: demoWalk n q'
    | _ => []
/-- `Next` visits the three rows of table 11, then the row of table 13, then stops -/
theorem demo_walk : demoWalk 10 demoQ = [(11, 0), (11, 1), (11, 2), (13, 0)] := by decide +kernel

/-- the premises of `nextFiltered_spec` hold for a fresh query over that list -/
example : demoQ.archetypes.arr.size < 2147483648 ∧ 0 ≤ demoQ.archetypes.arr.size ∧ demoQ.archIndex = BitVec.ofInt 32 (((0 : Nat) : Int) - 1) := by decide

end Arche.Props.C03_IterGen
