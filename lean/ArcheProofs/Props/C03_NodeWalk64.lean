/-
  C03 (companion, tiny build) — soundness of the regenerated node walk (`Query.nextNode`, `Query.nextArchetypeSimple`; ecs/query.go):
  whenever the walk answers true, the query stands on a NON-EMPTY table with the full row range `0 … len − 1`, and that
  table was offered by an ACTIVE node of the query's node list that MATCHES the filter — the node's single table, the
  table of the relation filter's target, or a table of the node's list —; the hidden state is untouched. When it
  answers false the query was closed.
-/
import ArcheProofs.Props.C03_IterGen64

namespace Arche.Props.C03_NodeWalk64
open ArcheGen ArcheGen.P64 Arche.Props.C03_IterGen64

theorem foldlM_inv {σ α : Type} (P : σ → Prop) (f : σ → α → Option σ)
    (hf : ∀ s k s', P s → f s k = some s' → P s') (l : List α) (s s' : σ) (hs : P s)
    (h : List.foldlM (m := Option) f s l = some s') : P s' := by
  induction l generalizing s with
  | nil => simp only [List.foldlM_nil, pure, Option.some.injEq] at h; rw [← h]; exact hs
  | cons k l ih =>
    rw [List.foldlM_cons] at h
    obtain ⟨s1, h1, h2⟩ := Option.bind_eq_some_iff.mp h
    exact ih s1 (hf s k s1 hs h1) h2

/-- the query stands on a non-empty table, at its first row, with its last row as the bound -/
def OnTable (lenOf : Option Nat → BitVec 32) (q : Query) : Prop :=
  q.archetype.isSome = true ∧ lenOf q.archetype ≠ 0#32 ∧ q.entityIndex = 0#32 ∧ q.entityIndexMax = lenOf q.archetype - 1#32

section
variable (archAccessF' : Option Nat → Option Nat) (archLenF' : Option Nat → BitVec 32)
  (archsGetF : GoAny → BitVec 32 → Option Nat) (archsLenF : GoAny → BitVec 32)

/-- **`nextArchetypeSimple` answers true only on a non-empty table of the list it walks**, with the full row range; in any
    case it keeps the list, the node list, the filter and the node index -/
theorem nextSimple_sound (q q' : Query) (r : Bool) (h : Query.nextArchetypeSimple archAccessF' archLenF' archsGetF archsLenF q = some (q', r)) :
    (q'.nodeArchetypes = q.nodeArchetypes ∧ q'.nodes = q.nodes ∧ q'.filter = q.filter ∧ q'.nodeIndex = q.nodeIndex) ∧
    (r = true → OnTable archLenF' q' ∧ q'.archetype = archsGetF q.nodeArchetypes q'.archIndex) := by
  unfold Query.nextArchetypeSimple at h
  simp only [Option.bind_eq_bind, pure] at h
  obtain ⟨⟨q1, r1⟩, hfold, hq⟩ := Option.bind_eq_some_iff.mp h
  have := foldlM_inv (fun (s : Query × Option Bool) =>
      (s.1.nodeArchetypes = q.nodeArchetypes ∧ s.1.nodes = q.nodes ∧ s.1.filter = q.filter ∧ s.1.nodeIndex = q.nodeIndex) ∧
      (s.2 = some true → OnTable archLenF' s.1 ∧ s.1.archetype = archsGetF q.nodeArchetypes s.1.archIndex)) _ ?_ _ _ _
      ⟨⟨rfl, rfl, rfl, rfl⟩, fun hc => (by cases hc)⟩ hfold
  · obtain ⟨hfr, h5⟩ := this
    cases r1 with
    | none =>
      simp only [Option.some.injEq, Prod.mk.injEq] at hq
      obtain ⟨hq1, hr⟩ := hq
      subst hq1; subst hr
      exact ⟨hfr, fun hc => (by cases hc)⟩
    | some rr =>
      simp only [Option.some.injEq, Prod.mk.injEq] at hq
      obtain ⟨hq1, hr⟩ := hq
      subst hq1; subst hr
      exact ⟨hfr, fun hc => h5 (by rw [hc])⟩
  · intro s k s' hs hk
    obtain ⟨sq, sr⟩ := s
    obtain ⟨⟨i1, i2, i3, i4⟩, i5⟩ := hs
    dsimp only at hk i1 i2 i3 i4 i5
    split at hk
    · simp only [Option.some.injEq] at hk; rw [← hk]; exact ⟨⟨i1, i2, i3, i4⟩, i5⟩
    · split at hk
      · simp only [Option.some.injEq] at hk; rw [← hk]; exact ⟨⟨i1, i2, i3, i4⟩, i5⟩
      · obtain ⟨v, hv, hk⟩ := Option.bind_eq_some_iff.mp hk
        split at hk
        · simp only [Option.some.injEq] at hk; rw [← hk]
          exact ⟨⟨i1, i2, i3, i4⟩, fun hc => (by cases hc)⟩
        · rename_i hz
          obtain ⟨_, _, hk⟩ := Option.bind_eq_some_iff.mp hk
          simp only [Option.some.injEq] at hk; rw [← hk]
          refine ⟨⟨i1, i2, i3, i4⟩, fun _ => ⟨⟨?_, ?_, rfl, rfl⟩, ?_⟩⟩
          · have hv' : archsGetF sq.nodeArchetypes (sq.archIndex + 1#32) = some v := hv
            show (archsGetF sq.nodeArchetypes (sq.archIndex + 1#32)).isSome = true
            rw [hv']; rfl
          · have hz' : ¬ (archLenF' (archsGetF sq.nodeArchetypes (sq.archIndex + 1#32)) == 0#32) = true := hz
            show archLenF' (archsGetF sq.nodeArchetypes (sq.archIndex + 1#32)) ≠ 0#32
            simpa using hz'
          · show archsGetF sq.nodeArchetypes (sq.archIndex + 1#32) = archsGetF q.nodeArchetypes (sq.archIndex + 1#32)
            rw [i1]

end

section
variable {Ext : Type}
  (archAccessF : Ext → Option Nat → Option Nat) (archIndexF : Ext → Option Nat → BitVec 32) (archLenF : Ext → Option Nat → BitVec 32)
  (archsGetF : GoAny → BitVec 32 → Option Nat) (archsLenF : GoAny → BitVec 32) (closeQueryF : Ext → Query → Ext × Query)
  (nodeActiveF : Ext → Option Nat → Bool) (nodeArchMapF : Ext → Option Nat → Entity → Option (Option Nat))
  (nodeArchetypesF : Ext → Option Nat → GoAny) (nodeHasRelationF : Ext → Option Nat → Bool)
  (nodeMatchesF : Ext → Option Nat → GoAny → Bool) (relationTargetF : GoAny → Option Entity)

/-- the node that offered the table the query stands on -/
def Offered (ext : Ext) (q0 q' : Query) : Prop :=
  ∃ n ∈ q0.nodes.arr.toList, nodeActiveF ext n = true ∧ nodeMatchesF ext n q0.filter = true ∧
    ((nodeHasRelationF ext n = false ∧ q'.archetype = archsGetF (nodeArchetypesF ext n) 0#32) ∨
     (nodeHasRelationF ext n = true ∧ ∃ tg, relationTargetF q0.filter = some tg ∧ nodeArchMapF ext n tg = some q'.archetype) ∨
     (nodeHasRelationF ext n = true ∧ relationTargetF q0.filter = none ∧ q'.archetype = archsGetF (nodeArchetypesF ext n) q'.archIndex))

/-- **the node walk is sound**: when `nextNode` answers true the hidden state is untouched, the query stands on a
    non-empty table at its first row with its last row as the bound, and that table was offered by an active node of
    the query's node list that matches the query's filter: the node's single table, the table its target map holds for
    the relation filter's target, or a table of its list; when it answers false the query was closed -/
theorem nextNode_sound (q q' : Query) (ext ext' : Ext) (r : Bool)
    (h : Query.nextNode archAccessF archIndexF archLenF archsGetF archsLenF closeQueryF nodeActiveF nodeArchMapF nodeArchetypesF nodeHasRelationF
      nodeMatchesF relationTargetF q ext = some (q', ext', r)) :
    (r = true → ext' = ext ∧ OnTable (archLenF ext) q' ∧
        Offered archsGetF nodeActiveF nodeArchMapF nodeArchetypesF nodeHasRelationF nodeMatchesF relationTargetF ext q q') ∧
    (r = false → ∃ q1, ext' = (closeQueryF ext q1).1 ∧ q' = (closeQueryF ext q1).2 ∧ q1.nodeArchetypes = none) := by
  unfold Query.nextNode at h
  simp only [Option.bind_eq_bind, pure] at h
  obtain ⟨⟨q1, e1, r1⟩, hfold, hq⟩ := Option.bind_eq_some_iff.mp h
  have hinv := foldlM_inv (fun (s : Query × Ext × Option Bool) =>
      s.2.1 = ext ∧ s.1.nodes = q.nodes ∧ s.1.filter = q.filter ∧ s.2.2 ≠ some false ∧
      (s.2.2 = some true → OnTable (archLenF ext) s.1 ∧
        Offered archsGetF nodeActiveF nodeArchMapF nodeArchetypesF nodeHasRelationF nodeMatchesF relationTargetF ext q s.1)) _ ?_ _ _ _
      ⟨rfl, rfl, rfl, fun hc => (by cases hc), fun hc => (by cases hc)⟩ hfold
  · obtain ⟨he1, _, _, hnf, htrue⟩ := hinv
    dsimp only at he1 hnf htrue
    cases r1 with
    | none =>
      simp only [Option.some.injEq, Prod.mk.injEq] at hq
      obtain ⟨h1, h2, h3⟩ := hq
      subst h3
      refine ⟨fun hc => (by cases hc), fun _ => ⟨{ q1 with nodeArchetypes := none }, ?_, ?_, rfl⟩⟩
      · rw [← h2, he1]
      · rw [← h1, he1]
    | some b =>
      simp only [Option.some.injEq, Prod.mk.injEq] at hq
      obtain ⟨h1, h2, h3⟩ := hq
      subst h1; subst h2; subst h3
      cases b with
      | false => exact absurd rfl hnf
      | true => exact ⟨fun _ => ⟨he1, htrue rfl⟩, fun hc => (by cases hc)⟩
  · intro s k s' hs hk
    obtain ⟨sq, se, sr⟩ := s
    obtain ⟨i1, i2, i3, i4, i5⟩ := hs
    dsimp only at hk i1 i2 i3 i4 i5
    subst i1
    split at hk
    · simp only [Option.some.injEq] at hk; rw [← hk]; exact ⟨rfl, i2, i3, i4, i5⟩
    split at hk
    · simp only [Option.some.injEq] at hk; rw [← hk]; exact ⟨rfl, i2, i3, i4, i5⟩
    obtain ⟨n2, hn2, hk⟩ := Option.bind_eq_some_iff.mp hk
    obtain ⟨nd, hnd, hk⟩ := Option.bind_eq_some_iff.mp hk
    have hmem : nd ∈ q.nodes.arr.toList := by
      have : nd ∈ sq.nodes.arr.toList := by
        simp only [GoSlice.get] at hnd
        exact Array.mem_toList_iff.mpr (Array.mem_of_getElem? hnd)
      rw [i2] at this; exact this
    obtain ⟨_, _, hk⟩ := Option.bind_eq_some_iff.mp hk
    have frame : ∀ (qq : Query), qq.nodes = sq.nodes → qq.filter = sq.filter →
        (qq, se, (none : Option Bool)).2.1 = se ∧ qq.nodes = q.nodes ∧ qq.filter = q.filter ∧ (none : Option Bool) ≠ some false ∧
        ((none : Option Bool) = some true → OnTable (archLenF se) qq ∧
          Offered archsGetF nodeActiveF nodeArchMapF nodeArchetypesF nodeHasRelationF nodeMatchesF relationTargetF se q qq) :=
      fun qq h1 h2 => ⟨rfl, h1.trans i2, h2.trans i3, fun hc => (by cases hc), fun hc => (by cases hc)⟩
    split at hk
    · simp only [Option.some.injEq] at hk; rw [← hk]; exact frame _ rfl rfl
    rename_i hact
    obtain ⟨_, _, hk⟩ := Option.bind_eq_some_iff.mp hk
    split at hk
    · simp only [Option.some.injEq] at hk; rw [← hk]; exact frame _ rfl rfl
    rename_i hmat
    have hact' : nodeActiveF se nd = true := by simpa using hact
    have hmat' : nodeMatchesF se nd q.filter = true := by rw [← i3]; simpa using hmat
    obtain ⟨_, _, hk⟩ := Option.bind_eq_some_iff.mp hk
    obtain ⟨_, _, hk⟩ := Option.bind_eq_some_iff.mp hk
    split at hk
    · -- a node without relation: its single table
      rename_i hrel
      obtain ⟨a, ha, hk⟩ := Option.bind_eq_some_iff.mp hk
      split at hk
      · rename_i hpos
        obtain ⟨_, _, hk⟩ := Option.bind_eq_some_iff.mp hk
        obtain ⟨_, _, hk⟩ := Option.bind_eq_some_iff.mp hk
        obtain ⟨o4, ho4, hk⟩ := Option.bind_eq_some_iff.mp hk
        simp only [Option.some.injEq] at hk; rw [← hk]
        simp only [Query.setArchetype, pure, Option.some.injEq] at ho4
        subst ho4
        refine ⟨rfl, i2, i3, fun hc => (by cases hc), fun _ => ⟨⟨?_, ?_, rfl, rfl⟩, nd, hmem, hact', hmat', Or.inl ⟨by simpa using hrel, rfl⟩⟩⟩
        · show (archsGetF (nodeArchetypesF se nd) 0#32).isSome = true
          rw [ha]; rfl
        · show archLenF se (archsGetF (nodeArchetypesF se nd) 0#32) ≠ 0#32
          intro hz
          rw [hz] at hpos
          simp [BitVec.ult] at hpos
      · simp only [Option.some.injEq] at hk; rw [← hk]; exact frame _ rfl rfl
    · rename_i hrel
      have hrel' : nodeHasRelationF se nd = true := by simpa using hrel
      split at hk
      · -- a relation filter: the table of its target
        rename_i hok
        obtain ⟨_, _, hk⟩ := Option.bind_eq_some_iff.mp hk
        obtain ⟨b7, hb7, hk⟩ := Option.bind_eq_some_iff.mp hk
        split at hk
        · rename_i hb
          obtain ⟨_, _, hk⟩ := Option.bind_eq_some_iff.mp hk
          obtain ⟨_, _, hk⟩ := Option.bind_eq_some_iff.mp hk
          obtain ⟨_, _, hk⟩ := Option.bind_eq_some_iff.mp hk
          obtain ⟨o8, ho8, hk⟩ := Option.bind_eq_some_iff.mp hk
          simp only [Option.some.injEq] at hk; rw [← hk]
          simp only [Query.setArchetype, pure, Option.some.injEq] at ho8
          subst ho8
          subst hb
          -- b7 = true: the map knows the target and the table is not empty
          split at hb7
          · rename_i hmapok
            obtain ⟨av, hav, hb7⟩ := Option.bind_eq_some_iff.mp hb7
            simp only [Option.some.injEq] at hb7
            obtain ⟨tg, htg⟩ := Option.isSome_iff_exists.mp hok
            obtain ⟨ar, har⟩ := Option.isSome_iff_exists.mp hmapok
            refine ⟨rfl, i2, i3, fun hc => (by cases hc), fun _ => ⟨⟨?_, ?_, rfl, rfl⟩, nd, hmem, hact', hmat', Or.inr (Or.inl ⟨hrel', tg, by rw [← i3]; exact htg, ?_⟩)⟩⟩
            · show ((nodeArchMapF se nd ((relationTargetF sq.filter).getD default)).getD default).isSome = true
              rw [hav]; rfl
            · show archLenF se ((nodeArchMapF se nd ((relationTargetF sq.filter).getD default)).getD default) ≠ 0#32
              intro hz
              rw [hz] at hb7
              simp [BitVec.ult] at hb7
            · show nodeArchMapF se nd tg = some ((nodeArchMapF se nd ((relationTargetF sq.filter).getD default)).getD default)
              rw [htg] at har ⊢
              simp only [Option.getD_some] at har ⊢
              rw [har]; rfl
          · simp only [Option.some.injEq] at hb7; cases hb7
        · simp only [Option.some.injEq] at hk; rw [← hk]; exact frame _ rfl rfl
      · -- any other filter: the node's table list
        rename_i hok
        obtain ⟨o9, ho9, hk⟩ := Option.bind_eq_some_iff.mp hk
        simp only [Query.setArchetype, pure, Option.some.injEq] at ho9
        subst ho9
        obtain ⟨⟨o10, r11⟩, hsimple, hk⟩ := Option.bind_eq_some_iff.mp hk
        split at hk
        · rename_i hr11
          simp only [Option.some.injEq] at hk; rw [← hk]
          subst hr11
          obtain ⟨⟨hna, hnodes, hfilter, _⟩, htr⟩ := nextSimple_sound (archAccessF se) (archLenF se) archsGetF archsLenF _ _ _ hsimple
          obtain ⟨hon, harch⟩ := htr rfl
          refine ⟨rfl, hnodes.trans i2, hfilter.trans i3, fun hc => (by cases hc), fun _ => ⟨hon, nd, hmem, hact', hmat', Or.inr (Or.inr ⟨hrel', ?_, ?_⟩)⟩⟩
          · rw [← i3]; simpa using hok
          · rw [harch]
        · simp only [Option.some.injEq] at hk; rw [← hk]
          obtain ⟨⟨_, hnodes, hfilter, _⟩, _⟩ := nextSimple_sound (archAccessF se) (archLenF se) archsGetF archsLenF _ _ _ hsimple
          exact frame _ hnodes hfilter

end
end Arche.Props.C03_NodeWalk64
